import GaeaVerif.Model.Go
/-
  Model of the circuit breaker of a replica (C26):

    backend/slide.go      SlidingWindow: NewSlidingWindow, Trigger, slide
    mysql/error.go        AsConnError
    backend/slice.go      Slice.TryFuse (the gate in front of Trigger and the
                          status change), Slice.getConnWithFuse

  Go `int64` is modelled by `Int` (timestamps and window sizes are far from
  2^63; listed as an assumption of the correspondence).  `buckets []*SlideBucket`
  is a list of `Option Int`: `none` = nil pointer, `some c` = a bucket whose
  `ErrorCount` is `c` (`StartTime` is written but never read by the code).
  Every index expression `sw.buckets[i]` has an explicit panic outcome.
  Core Lean only.
-/
namespace GaeaVerif.Slide
open GaeaVerif

structure SlidingWindow where
  windowSizeSec : Int
  buckets : List (Option Int)
  enabled : Bool
  startSec : Int
  allErrorCount : Int
  fuseMinErrorCount : Int
  deriving Repr, BEq, DecidableEq

/-- backend/slide.go `NewSlidingWindow`. -/
def NewSlidingWindow (windowSec fuseMinErrorCount : Int) : SlidingWindow :=
  if windowSec ≤ 0 ∨ fuseMinErrorCount ≤ 0 then
    { windowSizeSec := 0, buckets := [], enabled := false, startSec := 0,
      allErrorCount := 0, fuseMinErrorCount := 0 }
  else
    { windowSizeSec := windowSec, buckets := List.replicate windowSec.toNat none,
      fuseMinErrorCount := fuseMinErrorCount, enabled := true, startSec := 0,
      allErrorCount := 0 }

/-- The loop `for s := sw.startSec; s < newStartSec; s++ { … }` of `slide`,
    `n` iterations left, on the pair (buckets, allErrorCount). -/
def slideLoop (W : Int) : Nat → Int → List (Option Int) → Int → R (List (Option Int) × Int)
  | 0, _, b, all => .ok (b, all)
  | n + 1, s, b, all =>
    let idx := Int.tmod s W                      -- Go `%` truncates
    if 0 ≤ idx then
      match b[idx.toNat]? with
      | none => .panic                           -- index out of range
      | some none => slideLoop W n (s + 1) b all -- nil bucket: continue
      | some (some c) => slideLoop W n (s + 1) (b.set idx.toNat none) (all - c)
    else .panic

/-- backend/slide.go `(*SlidingWindow).slide`. -/
def slide (sw : SlidingWindow) (newStartSec : Int) : R SlidingWindow :=
  let delta := newStartSec - sw.startSec
  if delta ≥ sw.windowSizeSec then
    -- make([]*SlideBucket, windowSizeSec) panics for a negative length
    if sw.windowSizeSec < 0 then .panic else
    .ok { sw with buckets := List.replicate sw.windowSizeSec.toNat none,
                  allErrorCount := 0, startSec := newStartSec }
  else
    match slideLoop sw.windowSizeSec delta.toNat sw.startSec sw.buckets sw.allErrorCount with
    | .ok (b, all) => .ok { sw with buckets := b, allErrorCount := all, startSec := newStartSec }
    | .fail => .fail
    | .panic => .panic

/-- backend/slide.go `(*SlidingWindow).Trigger`: the new state and the result. -/
def Trigger (sw : SlidingWindow) (now : Int) : R (SlidingWindow × Bool) :=
  if !sw.enabled then .ok (sw, false) else
  if sw.windowSizeSec = 0 then .panic else       -- now % 0 (unreachable when enabled)
  let newStartSec := now - sw.windowSizeSec + 1
  let index := Int.tmod now sw.windowSizeSec
  let slid := if newStartSec > sw.startSec then slide sw newStartSec else .ok sw
  match slid with
  | .fail => .fail
  | .panic => .panic
  | .ok sw1 =>
    if 0 ≤ index then
      match sw1.buckets[index.toNat]? with
      | none => .panic                           -- index out of range
      | some b =>
        let c := match b with | none => 0 | some c => c
        let all := sw1.allErrorCount + 1
        .ok ({ sw1 with buckets := sw1.buckets.set index.toNat (some (c + 1)), allErrorCount := all },
             decide (all ≥ sw1.fuseMinErrorCount))
    else .panic

/-- A whole history of `Trigger` calls: the final state and the results. -/
def runTriggers (sw : SlidingWindow) : List Int → R (SlidingWindow × List Bool)
  | [] => .ok (sw, [])
  | t :: ts =>
    match Trigger sw t with
    | .ok (sw1, r) =>
      match runTriggers sw1 ts with
      | .ok (sw2, rs) => .ok (sw2, r :: rs)
      | .fail => .fail
      | .panic => .panic
    | .fail => .fail
    | .panic => .panic

/-! ### the gate: `TryFuse` and `getConnWithFuse` -/

/-- The dynamic type of the error handed to `TryFuse`, as far as
    `mysql.AsConnError` (a type assertion to the *value* type
    `mysql.ConnTypeError`) can tell. -/
inductive ErrKind where
  | nil        -- no error
  | conn       -- a mysql.ConnTypeError value (util.ErrTimeout, dial/handshake failures)
  | connPtr    -- *mysql.ConnTypeError: not matched by the assertion
  | wrapped    -- fmt.Errorf("%w", ConnTypeError{…}), *getConnError{Err: ConnTypeError}
  | other      -- any other error (errors.New, *mysql.SqlError …)
  deriving Repr, BEq, DecidableEq

/-- mysql/error.go `AsConnError`. -/
def AsConnError : ErrKind → Bool
  | .conn => true
  | _ => false

/-- The part of `backend.NodeInfo` the breaker reads and writes. -/
structure Node where
  up : Bool                              -- Status == StatusUp
  fuse : Option SlidingWindow            -- FuseStrategy (nil or a *SlidingWindow)
  hasRecovery : Bool                     -- RecoveryStrategy != nil
  deriving Repr, BEq, DecidableEq

/-- backend/slice.go `(*Slice).TryFuse` at wall-clock second `now` (the
    recovery-strategy bookkeeping that follows the status change belongs to
    C27 and is not modelled). -/
def TryFuse (n : Node) (err : ErrKind) (now : Int) : R Node :=
  match n.fuse with
  | none => .ok n
  | some sw =>
    if !n.hasRecovery then .ok n else
    if !AsConnError err then .ok n else
    match Trigger sw now with
    | .ok (sw1, fired) =>
      if !fired then .ok { n with fuse := some sw1 }
      else .ok { n with fuse := some sw1, up := false }   -- node.SetStatusDown()
    | .fail => .fail
    | .panic => .panic

/-- backend/slice.go `(*Slice).getConnWithFuse`: `err` is what the node's pool
    answered to `Get`. -/
def getConnWithFuse (n : Node) (err : ErrKind) (now : Int) : R Node :=
  TryFuse n err now

/-- One step of a node's life as far as the breaker is concerned. -/
inductive Op where
  | tryFuse (err : ErrKind) (now : Int)  -- Slice.TryFuse(node, err) at second now
  | getConn (err : ErrKind) (now : Int)  -- a read routed to this (single) replica: GetSlaveConn
  | setUp                                -- the health checker marks the node up again
  deriving Repr, BEq, DecidableEq

/-- `GetSlaveConn` on a replica list holding just this node hands the request
    to `getConnWithFuse` only when the node is up (`allSlaveIsOffline`). -/
def step (n : Node) : Op → R Node
  | .tryFuse e now => TryFuse n e now
  | .getConn e now => if n.up then getConnWithFuse n e now else .ok n
  | .setUp => .ok { n with up := true }

def runOps (n : Node) : List Op → R (Node × List Bool)
  | [] => .ok (n, [])
  | o :: os =>
    match step n o with
    | .ok n1 =>
      match runOps n1 os with
      | .ok (n2, rs) => .ok (n2, n1.up :: rs)
      | .fail => .fail
      | .panic => .panic
    | .fail => .fail
    | .panic => .panic

/-! ### reference semantics of the property -/

/-- Number of recorded events in the trailing window `(now - W, now]`. -/
def refCount (W : Int) (hist : List Int) (now : Int) : Nat :=
  hist.countP fun t => decide (now - W < t) && decide (t ≤ now)

/-- Expected results of the calls `ts` made after the calls `pre`: the call at
    second `t` answers whether the trailing window `(t - W, t]` of everything
    recorded so far (this call included) holds at least `m` events. -/
def specRun (W m : Int) : List Int → List Int → List Bool
  | _, [] => []
  | pre, t :: ts => decide ((refCount W (pre ++ [t]) t : Int) ≥ m) :: specRun W m (pre ++ [t]) ts

/-- Reference behaviour of a node's life: `rec` are the seconds of the
    connection errors recorded so far.  A connection error seen by `TryFuse`
    is recorded and marks the node down iff the trailing window then holds at
    least `m` of them; a read is handed to the node only while it is up; the
    health checker may mark it up again; nothing else changes the status. -/
def specOps (W m : Int) : List Int → Bool → List Op → List Bool
  | _, _, [] => []
  | rec, up, .tryFuse e now :: os =>
    if e = .conn then
      let up' := up && !decide ((refCount W (rec ++ [now]) now : Int) ≥ m)
      up' :: specOps W m (rec ++ [now]) up' os
    else up :: specOps W m rec up os
  | rec, up, .getConn e now :: os =>
    if up = true ∧ e = .conn then
      let up' := !decide ((refCount W (rec ++ [now]) now : Int) ≥ m)
      up' :: specOps W m (rec ++ [now]) up' os
    else up :: specOps W m rec up os
  | rec, _, .setUp :: os => true :: specOps W m rec true os

end GaeaVerif.Slide
