import GaeaVerif.Model.Modify
/-
  Model of the planning and execution of a whole sharded UPDATE / DELETE (C05):
  proxy/plan/plan_update.go   HandleUpdatePlan: handleUpdateTableRefs (`join.Right != nil`),
                              handleUpdateAssignmentList, handleUpdateWhere
                              (checkNoSubqueryReadingTable, handleComparisonExpr),
                              handleUpdateOrderBy, checkOrderByLimitInModify,
                              generateShardingSQLs; UpdatePlan.ExecuteIn
  proxy/plan/plan_delete.go   HandleDeletePlan: handleDeleteTableRefs, handleDeleteWhere,
                              handleDeleteOrderBy, checkOrderByLimitInModify; DeletePlan.ExecuteIn
  proxy/plan/decorator_column_name.go, plan.go   NeedCreateColumnNameExprDecoratorInField,
                              getSettedRuleFromTable (which ORDER BY columns are accepted)
  proxy/plan/decorator_pattern_in_expr.go   `IN (SELECT …)` is rejected whatever the SELECT reads
  The LIMIT clause is not looked at by the planner except in checkOrderByLimitInModify:
  it is restored unchanged into the statement of every routed sub table.
  Backends: a backend executes `UPDATE/DELETE … WHERE c ORDER BY … LIMIT n` on one sub
  table by changing the first `n` rows, in the given order, of those on which `c` is TRUE.
  Core Lean only.
-/
namespace GaeaVerif.Modify
open GaeaVerif.Route

/-- an item of the ORDER BY clause as `handleUpdateOrderBy` / `handleDeleteOrderBy` see it -/
inductive OrdItem where
  /-- a column name, qualified as `Qual` says (`ColumnNameExpr`) -/
  | col (q : Qual)
  /-- any other expression: "ByItem.Expr is not a ColumnNameExpr" -/
  | expr
  deriving DecidableEq, Repr

/-- `NeedCreateColumnNameExprDecoratorInField` on an ORDER BY item: an unqualified column
    needs nothing; a qualified one must name the table or its alias. -/
def OrdItem.ok : OrdItem → Bool
  | .col .none => true
  | .col .table => true
  | .col .alias => true
  | .col .unknown => false   -- "rule not found"
  | .col .badDb => false     -- checkAndGetDB fails
  | .expr => false

/-- a sub-query inside the WHERE clause -/
inductive SubKind where
  /-- no FROM clause, operand of a comparison / function / BETWEEN: a plain value -/
  | value
  /-- `x IN (SELECT …)`: "TableName does not support Sel in sharding", with or without FROM -/
  | inSel
  /-- a FROM clause anywhere inside: `checkNoSubqueryReadingTable` -/
  | table
  deriving DecidableEq, Repr

/-- what the planner looks at in a sharded UPDATE / DELETE whose (first) table is the
    rule's table -/
structure Stmt where
  isUpdate : Bool
  /-- `join.Right != nil`: `UPDATE t1, t2 …`, `UPDATE t1 JOIN t2 …`, `DELETE … FROM t1 JOIN t2`,
      `DELETE FROM t1 USING t1, t2` (in any nesting of parentheses) -/
  multi : Bool
  /-- the SET list (UPDATE) -/
  set : List Target
  cond : Option Cond
  /-- the sub-queries of the WHERE clause (each of them is inside an opaque atom of `cond`) -/
  subs : List SubKind
  order : List OrdItem
  limit : Option Nat

inductive PlanErr where
  | multiTable | assignKey | assignOther | subquery | route | order | orderLimit
  deriving DecidableEq, Repr

/-- `HandleUpdatePlan` / `HandleDeletePlan` for a rule whose sharding column is `key`:
    the routed sub tables, or the first error. -/
def planModify (r : Rule) (key : String) (st : Stmt) : Except PlanErr (List Int) :=
  -- handleUpdateTableRefs / handleDeleteTableRefs
  if st.multi then .error .multiTable else
  -- handleUpdateAssignmentList
  match (if st.isUpdate then handleUpdateAssignmentList key st.set else .accept) with
  | .rejectKey => .error .assignKey
  | .rejectOther => .error .assignOther
  | .accept =>
    -- handleUpdateWhere / handleDeleteWhere
    if st.cond.isSome && st.subs.any (· != .value) then .error .subquery else
    match routeStmt r st.cond with
    | none => .error .route
    | some routed =>
      -- handleUpdateOrderBy / handleDeleteOrderBy
      if !st.order.all OrdItem.ok then .error .order else
      -- checkOrderByLimitInModify (a sharded table: `len(p.tableRules) != 0`)
      if !st.order.isEmpty && st.limit.isSome && routed.length > 1 then .error .orderLimit else
      .ok routed

/-! ### Execution -/

/-- MySQL rejects a multi-table DELETE whose target list names no table of its FROM clause
    (errors 1109 / 1066).  The planner does not look at the target list of
    `DELETE t2 FROM t1 …` / `DELETE t1 FROM t1 AS a …`, so every routed backend is sent such a
    statement and rejects it, as a single database would; no row is changed. -/
def backendRejects (foreignTarget : Bool) (routed : List Int) : Bool :=
  foreignTarget && !routed.isEmpty

/-- the WHERE clause on one row -/
def selects (c : Option Cond) (row : Row) : Bool :=
  match c with
  | none => true
  | some c => eval row.env row.key c == some true

/-- `pick`/`chosen`: the rows a database changes when it executes the statement on the rows `t`
    (in storage order): those the WHERE clause selects; with LIMIT `n` the first `n` of
    them in the ORDER BY order `le` (a stable sort: ties stay in storage order; without
    ORDER BY `le` is constantly true). Without LIMIT the order does not matter. -/
def pick (le : Row → Row → Bool) (limit : Option Nat) (sel : List Row) : List Row :=
  match limit with
  | none => sel
  | some n => (sel.mergeSort le).take n

def chosen (c : Option Cond) (le : Row → Row → Bool) (limit : Option Nat) (t : List Row) : List Row :=
  pick le limit (t.filter (selects c))

/-- what the proxy changes: every routed sub table executes the statement on its own rows
    (`ExecuteSQLs` on the statements `generateShardingSQLs` restored) -/
def proxyChosen (c : Option Cond) (le : Row → Row → Bool) (limit : Option Nat)
    (tbl : Int → List Row) (routed : List Int) : List Row :=
  routed.flatMap fun i => chosen c le limit (tbl i)

/-- what a single database holding every sub table's rows changes -/
def singleChosen (c : Option Cond) (le : Row → Row → Bool) (limit : Option Nat)
    (tbl : Int → List Row) (idxs : List Int) : List Row :=
  chosen c le limit (idxs.flatMap tbl)

/-- the affected-row count the proxy reports (`MergeExecResult`) -/
def proxyCount (c : Option Cond) (le : Row → Row → Bool) (limit : Option Nat)
    (tbl : Int → List Row) (routed : List Int) : Nat :=
  (mergeExecResult (routed.map fun i =>
    { status := 0, affected := (chosen c le limit (tbl i)).length, insertId := 0 })).affected

/-- the rows of a table after the rows named `ids` have been updated by `upd` / deleted -/
def applyChosen (isUpdate : Bool) (upd : Row → Row) (ids : List Nat) (t : List Row) : List Row :=
  if isUpdate then t.map fun row => if ids.contains row.id then upd row else row
  else t.filter fun row => !ids.contains row.id

/-- sub table `i` after the proxy has executed the statement -/
def proxyAfter (isUpdate : Bool) (upd : Row → Row) (c : Option Cond) (le : Row → Row → Bool)
    (limit : Option Nat) (tbl : Int → List Row) (routed : List Int) (i : Int) : List Row :=
  if routed.contains i then applyChosen isUpdate upd ((chosen c le limit (tbl i)).map (·.id)) (tbl i)
  else tbl i

/-- sub table `i` after a single database holding all sub tables has executed the statement -/
def singleAfter (isUpdate : Bool) (upd : Row → Row) (c : Option Cond) (le : Row → Row → Bool)
    (limit : Option Nat) (tbl : Int → List Row) (idxs : List Int) (i : Int) : List Row :=
  applyChosen isUpdate upd ((singleChosen c le limit tbl idxs).map (·.id)) (tbl i)

end GaeaVerif.Modify
