import GaeaVerif.Model.Go
/-
  Lexical model of MySQL text for C17: the part of the TiDB-derived scanner of
  /repo/parser/lexer.go + misc.go that `SplitStatementToPieces`
  (/repo/parser/analyzer.go) drives, the splitter itself, and the loop of
  `SessionExecutor.doMultiStmts` (/repo/proxy/server/executor_handle.go).

  The scanner is modelled on the *unread suffix* of the text (`rest`) plus the
  reader offset: nothing in the Go code looks behind the start of the current
  token (`scanFloat` / `startWithDot` rewind to the token start, which every
  token function here has in hand).  A token function returns the number of
  bytes it consumes from the token start; only the token *class* matters to the
  splitter (`;`, 0 = end, anything else).  Default SQL mode (backslash escapes),
  which is what `NewScanner` gives the splitter.

  Modelled as of the repaired code: the `fix:` commits
  "scanner consumes a character no rule accepts", "keeps a final statement that
  is one character long", "does not cut a text at a semicolon inside /*! */".
  Core Lean only.
-/
namespace GaeaVerif.LexC17
open GaeaVerif

-- runes (Unicode code points) are `Nat`s

/-- `unicode.ReplacementChar` = `utf8.RuneError`. -/
def runeError : Nat := 0xFFFD

def isCont (b : UInt8) : Bool := 0x80 ≤ b.toNat && b.toNat ≤ 0xBF

/-- Accept ranges of the second byte of a 3- and 4-byte encoding (`utf8.acceptRanges`). -/
def lo3 (c0 : Nat) : Nat := if c0 = 0xE0 then 0xA0 else 0x80
def hi3 (c0 : Nat) : Nat := if c0 = 0xED then 0x9F else 0xBF
def lo4 (c0 : Nat) : Nat := if c0 = 0xF0 then 0x90 else 0x80
def hi4 (c0 : Nat) : Nat := if c0 = 0xF4 then 0x8F else 0xBF

/-- `utf8.DecodeRuneInString`: rune and width; `(RuneError, 1)` for an invalid
    or truncated encoding, `(RuneError, 0)` for the empty string. -/
def decodeRune : Bytes → Nat × Nat
  | [] => (runeError, 0)
  | b0 :: t =>
    let c0 := b0.toNat
    if c0 < 0x80 then (c0, 1)
    else if c0 < 0xC2 then (runeError, 1)
    else if c0 < 0xE0 then
      match t with
      | b1 :: _ => if isCont b1 then ((c0 % 32) * 64 + b1.toNat % 64, 2) else (runeError, 1)
      | [] => (runeError, 1)
    else if c0 < 0xF0 then
      match t with
      | b1 :: b2 :: _ =>
        if lo3 c0 ≤ b1.toNat ∧ b1.toNat ≤ hi3 c0 ∧ isCont b2 = true then
          (((c0 % 16) * 64 + b1.toNat % 64) * 64 + b2.toNat % 64, 3)
        else (runeError, 1)
      | _ => (runeError, 1)
    else if c0 < 0xF5 then
      match t with
      | b1 :: b2 :: b3 :: _ =>
        if lo4 c0 ≤ b1.toNat ∧ b1.toNat ≤ hi4 c0 ∧ isCont b2 = true ∧ isCont b3 = true then
          ((((c0 % 8) * 64 + b1.toNat % 64) * 64 + b2.toNat % 64) * 64 + b3.toNat % 64, 4)
        else (runeError, 1)
      | _ => (runeError, 1)
    else (runeError, 1)

/-- `reader.peek` on the unread input: the next rune and its width (`r.w`).
    End of input gives `(ReplacementChar, 0)`; an invalid UTF-8 byte is returned
    as its own value with width 1. -/
def peek (rest : Bytes) : Nat × Nat :=
  match rest with
  | [] => (runeError, 0)
  | b :: _ =>
    if b.toNat < 0x80 then (b.toNat, 1)
    else
      let d := decodeRune rest
      if d.1 = runeError ∧ d.2 = 1 then (b.toNat, 1) else d

/-- `unicode.IsSpace`. -/
def isSpace (r : Nat) : Bool :=
  r = 0x20 || (0x09 ≤ r && r ≤ 0x0D) || r = 0x85 || r = 0xA0 || r = 0x1680 ||
  (0x2000 ≤ r && r ≤ 0x200A) || r = 0x2028 || r = 0x2029 || r = 0x202F || r = 0x205F || r = 0x3000

/-- misc.go `isLetter`. -/
def isLetter (r : Nat) : Bool := (0x61 ≤ r && r ≤ 0x7A) || (0x41 ≤ r && r ≤ 0x5A)
/-- misc.go `isDigit`. -/
def isDigit (r : Nat) : Bool := 0x30 ≤ r && r ≤ 0x39
/-- misc.go `isIdentExtend`. -/
def isIdentExtend (r : Nat) : Bool := 0x80 ≤ r && r ≤ 0xFFFF
/-- misc.go `isIdentChar`. -/
def isIdentChar (r : Nat) : Bool := isLetter r || isDigit r || r = 0x5F || r = 0x24 || isIdentExtend r
/-- misc.go `isUserVarChar`. -/
def isUserVarChar (r : Nat) : Bool :=
  isLetter r || isDigit r || r = 0x5F || r = 0x24 || r = 0x2E || isIdentExtend r

/-- `reader.incAsLongAs(fn)`: number of bytes consumed (the loop stops at the
    first rune that fails `fn`, and at end of input). -/
def incAsLongAsAux (fn : Nat → Bool) : Nat → Bytes → Nat
  | 0, _ => 0
  | fuel + 1, rest =>
    match rest with
    | [] => 0
    | _ :: _ =>
      let pk := peek rest
      if fn pk.1 then pk.2 + incAsLongAsAux fn fuel (rest.drop pk.2) else 0

def incAsLongAs (fn : Nat → Bool) (rest : Bytes) : Nat := incAsLongAsAux fn rest.length rest

/-- Length of the leading run of bytes satisfying an ASCII-only predicate
    (`scanDigits`, `scanOct`, `scanHex`, `scanBit`: these predicates accept only
    ASCII runes, for which `peek` returns the byte itself with width 1). -/
def spanLen (p : UInt8 → Bool) (l : Bytes) : Nat := (l.takeWhile p).length

def isDigitB (b : UInt8) : Bool := isDigit b.toNat
def isOctB (b : UInt8) : Bool := 0x30 ≤ b.toNat && b.toNat ≤ 0x37
def isHexB (b : UInt8) : Bool :=
  isDigit b.toNat || (0x61 ≤ b.toNat && b.toNat ≤ 0x66) || (0x41 ≤ b.toNat && b.toNat ≤ 0x46)
def isBitB (b : UInt8) : Bool := b.toNat = 0x30 || b.toNat = 0x31

/-- Class of a token as `SplitStatementToPieces` sees it, plus the two
    outcomes the Go code has besides returning a token. -/
inductive Tok where
  | eof     -- token 0 (or `eofChar`)
  | semi    -- `;`
  | other
  | panic   -- a Go run-time panic inside the scanner
  | stuck   -- the model ran out of fuel (never happens, see `Props/C17`)
  deriving DecidableEq, Repr

/-- Class of `tok = int(ch1)` in `scanIdentifierOrString`. -/
def classOfRune (r : Nat) : Tok :=
  if r = 0 ∨ r = 0x100 then .eof else if r = 0x3B then .semi else .other

/-- `scanIdentifier`: `inc` over the first rune, then `incAsLongAs(isIdentChar)`. -/
def scanIdentifier (rest : Bytes) : Nat :=
  let w := (peek rest).2
  w + incAsLongAs isIdentChar (rest.drop w)

/-- The loop of `Scanner.scanString` after the opening quote: bytes consumed up
    to and including the closing quote (or up to the end of input when the
    string is not terminated). -/
def scanStringLoop (ending : Nat) : Nat → Bytes → Nat
  | 0, _ => 0
  | fuel + 1, rest =>
    match rest with
    | [] => 0
    | _ :: _ =>
      let pk := peek rest
      let rest1 := rest.drop pk.2
      if pk.1 = ending then
        let pk1 := peek rest1
        if pk1.1 ≠ ending then pk.2
        else pk.2 + pk1.2 + scanStringLoop ending fuel (rest1.drop pk1.2)
      else if pk.1 = 0x5C then
        -- handleEscape: skip the backslash, then the escaped rune (if any)
        match rest1 with
        | [] => pk.2
        | _ :: _ =>
          let pk1 := peek rest1
          pk.2 + pk1.2 + scanStringLoop ending fuel (rest1.drop pk1.2)
      else pk.2 + scanStringLoop ending fuel rest1

/-- `startString` / `scanString` at a quote character. -/
def startString (rest : Bytes) : Nat :=
  let pk := peek rest
  pk.2 + scanStringLoop pk.1 rest.length (rest.drop pk.2)

/-- The loop of `scanQuotedIdent` after the opening back quote. -/
def quotedLoop : Nat → Bytes → Nat
  | 0, _ => 0
  | fuel + 1, rest =>
    match rest with
    | [] => 0
    | _ :: _ =>
      let pk := peek rest
      let rest1 := rest.drop pk.2
      if pk.1 = 0x60 then
        let pk1 := peek rest1
        if pk1.1 ≠ 0x60 then pk.2
        else pk.2 + pk1.2 + quotedLoop fuel (rest1.drop pk1.2)
      else pk.2 + quotedLoop fuel rest1

/-- `scanQuotedIdent` at a back quote. -/
def scanQuotedIdent (rest : Bytes) : Nat := 1 + quotedLoop rest.length (rest.drop 1)

/-- The comment loop of `startWithSlash` after `/*`: bytes up to and including
    the closing `*/`, `none` when the comment is not closed. -/
def commentLoop : Nat → Bool → Bytes → Option Nat
  | 0, _, _ => none
  | fuel + 1, star, rest =>
    match rest with
    | [] => none
    | _ :: _ =>
      let pk := peek rest
      if star && pk.1 = 0x2F then some pk.2
      else (commentLoop fuel (pk.1 = 0x2A) (rest.drop pk.2)).map (pk.2 + ·)

/-- `scanFloat(beg)`, from the token start. -/
def scanFloat (rest0 : Bytes) : Nat :=
  let d1 := spanLen isDigitB rest0
  let r1 := rest0.drop d1
  let n2 := match r1 with
    | b :: r1' => if b.toNat = 0x2E then d1 + 1 + spanLen isDigitB r1' else d1
    | [] => d1
  let r2 := rest0.drop n2
  match r2 with
  | c :: r3 =>
    if c.toNat = 0x65 ∨ c.toNat = 0x45 then
      match r3 with
      | c2 :: r4 =>
        if c2.toNat = 0x2D ∨ c2.toNat = 0x2B ∨ isDigit c2.toNat = true then n2 + 2 + spanLen isDigitB r4
        else n2 + 1 + incAsLongAs isIdentChar r3
      | [] => n2 + 1
    else n2
  | [] => n2

/-- The `if ch0 == '0'` block of `startWithNumber`: `inl k` = go on with `k`
    bytes consumed, `inr n` = return with `n` bytes consumed. -/
def numberPrefix (rest0 : Bytes) : Nat ⊕ Nat :=
  let r1 := rest0.drop 1
  match rest0 with
  | b0 :: _ =>
    if b0.toNat = 0x30 then
      match r1 with
      | b1 :: r2 =>
        let c1 := b1.toNat
        if 0x30 ≤ c1 ∧ c1 ≤ 0x37 then .inl (2 + spanLen isOctB r2)
        else if c1 = 0x78 ∨ c1 = 0x58 then
          let h := spanLen isHexB r2
          let r3 := r2.drop h
          if h = 0 ∨ isDigit (peek r3).1 = true then .inr (2 + h + incAsLongAs isIdentChar r3)
          else .inl (2 + h)
        else if c1 = 0x62 then
          let h := spanLen isBitB r2
          let r3 := r2.drop h
          if h = 0 ∨ isDigit (peek r3).1 = true then .inr (2 + h + incAsLongAs isIdentChar r3)
          else .inl (2 + h)
        else if c1 = 0x2E then .inr (scanFloat rest0)
        else if c1 = 0x42 then .inr (1 + incAsLongAs isIdentChar r1)
        else .inl 1
      | [] => .inl 1
    else .inl 1
  | [] => .inl 0

/-- The rest of `startWithNumber` after `k` bytes: `scanDigits`, then a float,
    an identifier or the integer literal. -/
def numberTail (rest0 : Bytes) (k : Nat) : Nat :=
  let cur := rest0.drop k
  let d := spanLen isDigitB cur
  let cur' := cur.drop d
  let ch0 := (peek cur').1
  if cur' ≠ [] ∧ (ch0 = 0x2E ∨ ch0 = 0x65 ∨ ch0 = 0x45) then scanFloat rest0
  else if cur' ≠ [] ∧ isIdentChar ch0 = true then k + d + incAsLongAs isIdentChar cur'
  else k + d

/-- `startWithNumber`. -/
def startWithNumber (rest0 : Bytes) : Nat :=
  match numberPrefix rest0 with
  | .inr n => n
  | .inl k => numberTail rest0 k

/-- `startWithDot`. -/
def startWithDot (rest0 : Bytes) : Nat :=
  let r1 := rest0.drop 1
  if r1 ≠ [] ∧ isDigit (peek r1).1 = true then
    let n := scanFloat rest0
    let r' := rest0.drop n
    if r' = [] ∨ isIdentChar (peek r').1 = false then n else 1
  else 1

/-- `startWithXx` / `startWithBb` (`digits` = `scanHex` / `scanBit`). -/
def startWithXxBb (digits : UInt8 → Bool) (rest0 : Bytes) : Nat :=
  let r1 := rest0.drop 1
  match r1 with
  | q :: r2 =>
    if q.toNat = 0x27 then
      let h := spanLen digits r2
      match r2.drop h with
      | q2 :: _ => if q2.toNat = 0x27 then 2 + h + 1 else 2 + h
      | [] => 2 + h
    else 1 + incAsLongAs isIdentChar r1
  | [] => 1

/-- ASCII lower case of a byte. -/
def lowerB (b : UInt8) : Nat := if 0x41 ≤ b.toNat ∧ b.toNat ≤ 0x5A then b.toNat + 32 else b.toNat

/-- `strings.EqualFold(stream[:len(v)], v)` for an ASCII `v` (given in lower case). -/
def hasPrefixFold (v : List Nat) (stream : Bytes) : Bool :=
  v.length ≤ stream.length && (stream.take v.length).map lowerB == v

/-- Length of the `global.` / `session.` / `local.` prefix that `startWithAt` skips after `@@`. -/
def sysVarPrefixLen (stream : Bytes) : Nat :=
  if hasPrefixFold [0x67, 0x6C, 0x6F, 0x62, 0x61, 0x6C, 0x2E] stream then 7
  else if hasPrefixFold [0x73, 0x65, 0x73, 0x73, 0x69, 0x6F, 0x6E, 0x2E] stream then 8
  else if hasPrefixFold [0x6C, 0x6F, 0x63, 0x61, 0x6C, 0x2E] stream then 6
  else 0

/-- `scanIdentifierOrString` followed by the token decision of `startWithAt`:
    class of the resulting token and bytes consumed by this step. -/
def scanIdentifierOrString (rest : Bytes) : Tok × Nat :=
  let ch1 := (peek rest).1
  if ch1 = 0x27 ∨ ch1 = 0x22 then (.other, startString rest)
  else if ch1 = 0x60 then (.other, scanQuotedIdent rest)
  else if isUserVarChar ch1 then (.other, incAsLongAs isUserVarChar rest)
  else (classOfRune ch1, 0)

/-- `startWithAt`: token class and bytes consumed. -/
def startWithAt (rest0 : Bytes) : Tok × Nat :=
  let r1 := rest0.drop 1
  let ch1 := (peek r1).1
  if ch1 = 0x40 ∧ r1 ≠ [] then
    let r2 := r1.drop 1
    let n := sysVarPrefixLen r2
    let t := scanIdentifierOrString (r2.drop n)
    (t.1, 2 + n + t.2)
  else
    -- every other outcome of the first scanIdentifierOrString becomes
    -- singleAtIdentifier or stays ReplacementChar: class `other`
    (.other, 1 + (scanIdentifierOrString r1).2)

/-- Bytes consumed by the trie walk for an operator character. -/
def opLen (rest : Bytes) : Nat :=
  match rest.map UInt8.toNat with
  | 0x3C :: 0x3D :: 0x3E :: _ => 3   -- <=>
  | 0x3C :: 0x3D :: _ => 2           -- <=
  | 0x3C :: 0x3C :: _ => 2           -- <<
  | 0x3C :: 0x3E :: _ => 2           -- <>
  | 0x3E :: 0x3D :: _ => 2           -- >=
  | 0x3E :: 0x3E :: _ => 2           -- >>
  | 0x21 :: 0x3D :: _ => 2           -- !=
  | 0x7C :: 0x7C :: _ => 2           -- ||
  | 0x26 :: 0x26 :: _ => 2           -- &&
  | 0x26 :: 0x5E :: _ => 2           -- &^
  | 0x3A :: 0x3D :: _ => 2           -- :=
  | 0x5C :: 0x4E :: _ => 2           -- \N
  | _ => 1

/-- Characters with a token (and no function) at the root of `ruleTable`. -/
def isOpChar (c : Nat) : Bool :=
  c = 0x2A || c = 0x2B || c = 0x3E || c = 0x3C || c = 0x28 || c = 0x29 || c = 0x3B || c = 0x2C ||
  c = 0x26 || c = 0x25 || c = 0x3A || c = 0x7C || c = 0x21 || c = 0x5E || c = 0x7E || c = 0x5C ||
  c = 0x3F || c = 0x3D || c = 0x7B || c = 0x7D

/-- Latin-1 `unicode.IsSpace(rune(b))` on a single byte. -/
def isSpaceB (b : UInt8) : Bool := isSpace b.toNat

/-- `sqlOffsetInComment`: `none` when the Go loop would index past the end. -/
def sqlOffsetInComment (comment : Bytes) : Option Nat :=
  let first := match comment.findIdx? isSpaceB with
    | some i => i
    | none => 0
  -- for offset < len { offset++; if !IsSpace(comment[offset]) break }
  let after := comment.drop (first + 1)
  if first < comment.length then
    let k := spanLen isSpaceB after
    if first + 1 + k < comment.length then some (first + 1 + k) else none
  else some first

def isBlankB (b : UInt8) : Bool := b.toNat = 0x20 || b.toNat = 0x09

/-- What `specCodeStart` (`^/\*!(M?[0-9]{5,6})?[ \t]*`) removes from a comment
    that starts with `/*!`. -/
def specCodeStartLen (comment : Bytes) : Nat :=
  let t := comment.drop 3
  let m := match t with
    | b :: _ => if b.toNat = 0x4D then 1 else 0
    | [] => 0
  let d := spanLen isDigitB (t.drop m)
  let v := if d ≥ 5 then m + min d 6 else 0
  3 + v + spanLen isBlankB (t.drop v)

/-- `TrimComment` on a whole `/*! … */` comment (what `specCodePattern`
    matches): the MySQL-specific code inside it. -/
def trimComment (comment : Bytes) : Bytes :=
  let a := comment.drop (specCodeStartLen comment)
  -- specCodeEnd: `[ \t]*\*/$`
  let body := a.take (a.length - 2)
  (body.reverse.dropWhile isBlankB).reverse

/-- One active scanner: the outermost one reads the statement text, an inner
    one reads the code of a `/*! … */` or `/*+ … */` comment
    (`mysqlSpecificCodeScanner` / `optimizerHintScanner`). -/
structure Frame where
  rest : Bytes      -- unread input
  off : Nat         -- reader offset in this scanner's own text
  base : Nat        -- `Pos.Offset` the wrapper adds to reported offsets (0 for the outermost)
  hint : Bool       -- optimizer hint scanner (emits `hintEnd` once at the end)
  ended : Bool      -- `optimizerHintScanner.end`
  errs : Bool       -- `len(errs) > 0`
  deriving DecidableEq, Repr

structure ScanOut where
  tok : Tok
  offset : Nat
  frames : List Frame
  deriving Repr

def sumBases (fs : List Frame) : Nat := (fs.map (·.base)).sum

/-- Fuel that suffices for one call of `scan` (see `Props/C17`). -/
def scanFuel (fs : List Frame) : Nat := (fs.map (fun f => f.rest.length + 2)).sum + 1

/-- What the scanner does at a non-blank position (`rest` is the unread input
    after white space has been skipped): the dispatch of `Scanner.scan` through
    `ruleTable`, without the recursion. -/
inductive Step where
  | tok (t : Tok) (n : Nat)       -- a token of class `t` that consumes `n` bytes
  | skip (n : Nat)                -- `#`, `-- ` or plain `/* */` comment of `n` bytes: `return s.scan()`
  | unclosed                      -- unclosed `/*`: token 0 at this offset, an error is recorded
  | special (hint : Bool) (n : Nat) (inner : Bytes) (begin : Nat)
                                  -- `/*+ … */` (hint) or `/*! … */` of `n` bytes holding the code `inner`,
                                  -- whose tokens are reported relative to offset `begin` of the comment
  | panic
  deriving DecidableEq, Repr

/-- `startWithDash`. -/
def startWithDash (rest : Bytes) : Step :=
  match rest with
  | _ :: d :: t =>
    if d.toNat = 0x2D ∧ (match t with | s :: _ => isSpaceB s | [] => true) = true then
      .skip (incAsLongAs (· ≠ 0x0A) rest)
    else if d.toNat = 0x3E then
      match t with
      | e :: _ => if e.toNat = 0x3E then .tok .other 3 else .tok .other 2
      | [] => .tok .other 2
    else .tok .other 1
  | _ => .tok .other 1

/-- `startWithSlash`. -/
def startWithSlash (rest : Bytes) : Step :=
  match rest with
  | _ :: a :: t =>
    if a.toNat = 0x2A then
      match commentLoop t.length false t with
      | none => .unclosed
      | some k =>
        let n := 2 + k
        let comment := rest.take n
        match t with
        | x :: _ =>
          if x.toNat = 0x2B then                              -- /*+ optimizer hint
            match sqlOffsetInComment comment with
            | none => .panic
            | some begin => .special true n ((comment.take (n - 2)).drop begin) begin
          else if x.toNat = 0x21 then                         -- /*! MySQL-specific code
            match sqlOffsetInComment comment with
            | none => .panic
            | some begin => .special false n (trimComment comment) begin
          else .skip n
        | [] => .skip n
    else .tok .other 1
  | _ => .tok .other 1

/-- One dispatch of `Scanner.scan` at a non-blank position. -/
def plainStep (rest : Bytes) : Step :=
  match rest with
  | [] => .tok .eof 0
  | b :: _ =>
    let pk := peek rest
    let c := b.toNat
    if isIdentExtend pk.1 then .tok .other (scanIdentifier rest)
    else if pk.1 > 255 then .tok .other pk.2                      -- invalid (repaired: consumed)
    else if c = 0x40 then .tok (startWithAt rest).1 (startWithAt rest).2
    else if c = 0x23 then .skip (incAsLongAs (· ≠ 0x0A) rest)      -- startWithSharp
    else if c = 0x2D then startWithDash rest
    else if c = 0x2F then startWithSlash rest
    else if c = 0x58 ∨ c = 0x78 then .tok .other (startWithXxBb isHexB rest)
    else if c = 0x42 ∨ c = 0x62 then .tok .other (startWithXxBb isBitB rest)
    else if c = 0x2E then .tok .other (startWithDot rest)
    else if isLetter c ∨ c = 0x5F ∨ c = 0x24 then .tok .other (scanIdentifier rest)   -- incl. startWithNn
    else if c = 0x60 then .tok .other (scanQuotedIdent rest)
    else if isDigit c then .tok .other (startWithNumber rest)
    else if c = 0x27 ∨ c = 0x22 then .tok .other (startString rest)
    else if isOpChar c then .tok (if c = 0x3B then .semi else .other) (opLen rest)
    else .tok .other pk.2                                          -- invalid (repaired: consumed)

/-- `Scanner.scan` on the stack of active scanners, innermost first
    (`fs = inner :: … :: outer`, where each scanner's `specialComment` is the
    one before it in the list). -/
def scan : Nat → List Frame → ScanOut
  | 0, fs => ⟨.stuck, 0, fs⟩
  | _ + 1, [] => ⟨.eof, 0, []⟩
  | fuel + 1, f :: ps =>
    let up := sumBases (f :: ps)
    let ws := incAsLongAs isSpace f.rest
    let rest := f.rest.drop ws
    let off := f.off + ws
    let adv (n : Nat) : Frame := { f with rest := rest.drop n, off := off + n }
    -- this scanner reports token 0 at its offset `off`, leaving it in state `f'`
    let endOf (f' : Frame) : ScanOut :=
      match ps with
      | [] => ⟨.eof, off + up, [f']⟩
      | p :: ps' =>
        if f.hint && !f.ended then ⟨.other, off + up, { f' with ended := true } :: p :: ps'⟩
        else scan fuel (p :: ps')
    match rest with
    | [] => endOf (adv 0)
    | _ :: _ =>
      match plainStep rest with
      | .tok .eof n => endOf (adv n)
      | .tok t n => ⟨t, off + up, adv n :: ps⟩
      | .skip n => scan fuel (adv n :: ps)
      | .unclosed => endOf { f with rest := [], off := off + rest.length, errs := true }
      | .special true n inner begin =>
        ⟨.other, off + up,
          { rest := inner, off := 0, base := off + begin, hint := true, ended := false, errs := false } :: adv n :: ps⟩
      | .special false n inner begin =>
        scan fuel ({ rest := inner, off := 0, base := off + begin, hint := false, ended := false, errs := false } :: adv n :: ps)
      | .panic => ⟨.panic, 0, []⟩

/-- Result of `SplitStatementToPieces`. -/
inductive SplitOut where
  | ok (pieces : List Bytes) (err : Bool)
  | panic
  | hang
  deriving DecidableEq, Repr

/-- `blob[lo:hi]` with Go's bounds check (`lo`, `hi` non-negative here). -/
def slice (blob : Bytes) (lo hi : Nat) : Option Bytes :=
  if lo ≤ hi ∧ hi ≤ blob.length then some ((blob.drop lo).take (hi - lo)) else none

/-- The `for stmtBegin < len(blob)` loop of `SplitStatementToPieces`. -/
def splitLoop (blob : Bytes) : Nat → List Frame → Nat → Bool → List Bytes → SplitOut
  | 0, _, _, _, _ => .hang
  | fuel + 1, fs, stmtBegin, empty, pieces =>
    if stmtBegin < blob.length then
      let o := scan (scanFuel fs) fs
      match o.tok with
      | .semi =>
        if o.frames.length > 1 then                 -- tokenizer.specialComment != nil
          splitLoop blob fuel o.frames stmtBegin false pieces
        else
          match slice blob stmtBegin o.offset with
          | none => .panic
          | some stmt =>
            splitLoop blob fuel o.frames (o.offset + 1) true (if empty then pieces else pieces ++ [stmt])
      | .eof =>
        -- blobTail := pos.Offset - 1; if stmtBegin <= blobTail { stmt = blob[stmtBegin : blobTail+1] … }
        let errs := match o.frames.getLast? with
          | some f => f.errs
          | none => false
        if stmtBegin + 1 ≤ o.offset then
          match slice blob stmtBegin o.offset with
          | none => .panic
          | some stmt => .ok (if empty then pieces else pieces ++ [stmt]) errs
        else .ok pieces errs
      | .other => splitLoop blob fuel o.frames stmtBegin false pieces
      | .panic => .panic
      | .stuck => .hang
    else .ok pieces false

/-- Bound on the number of tokens of a text (loop fuel; see `Props/C17`). -/
def splitFuel (blob : Bytes) : Nat := 3 * blob.length + 8

def outerFrame (blob : Bytes) : Frame :=
  { rest := blob, off := 0, base := 0, hint := false, ended := false, errs := false }

/-- `SplitStatementToPieces` (analyzer.go). -/
def splitStatementToPieces (blob : Bytes) : SplitOut :=
  if blob = [] then .ok [] false
  else
    match blob.findIdx? (·.toNat = 0x3B) with
    | none => .ok [blob] false
    | some i =>
      if i = blob.length - 1 then .ok [blob.take (blob.length - 1)] false
      else splitLoop blob (splitFuel blob) [outerFrame blob] 0 true []

/-- The token trace the splitter drives (`VerifScanTrace` hook): class, whether
    the token came from inside a `/*! */` or `/*+ */` comment
    (`specialComment != nil` after the call) and reported offset of every token
    up to the first end token.  Out of fuel: a final `stuck` entry. -/
def scanTrace : Nat → List Frame → List (Tok × Bool × Nat)
  | 0, _ => [(.stuck, false, 0)]
  | fuel + 1, fs =>
    let o := scan (scanFuel fs) fs
    match o.tok with
    | .semi => (.semi, decide (o.frames.length > 1), o.offset) :: scanTrace fuel o.frames
    | .other => (.other, decide (o.frames.length > 1), o.offset) :: scanTrace fuel o.frames
    | t => [(t, false, o.offset)]

/-- Does the outermost scanner hold an error (`len(s.errs) > 0`) after the trace? -/
def traceErr : Nat → List Frame → Bool
  | 0, _ => false
  | fuel + 1, fs =>
    let o := scan (scanFuel fs) fs
    match o.tok with
    | .semi => traceErr fuel o.frames
    | .other => traceErr fuel o.frames
    | _ => match o.frames.getLast? with
      | some f => f.errs
      | none => false

/-! ### `doMultiStmts` -/

/-- `strings.TrimRight(sql, ";")` (handleQuery). -/
def trimRightSemi (sql : Bytes) : Bytes := (sql.reverse.dropWhile (·.toNat = 0x3B)).reverse

/-- Outcome of `doMultiStmts`: the texts handed to `doQuery`, in order, and
    whether an error was returned. -/
structure MultiOut where
  executed : List Bytes
  failed : Bool
  deriving DecidableEq, Repr

/-- The `for index, piece := range piecesSql` loop: stops at the first piece
    whose `doQuery` fails. -/
def runPieces (doQuery : Bytes → Bool) : List Bytes → MultiOut
  | [] => ⟨[], false⟩
  | p :: ps =>
    if doQuery p then
      let r := runPieces doQuery ps
      ⟨p :: r.executed, r.failed⟩
    else ⟨[p], true⟩

/-- `SessionExecutor.doMultiStmts`, parameterised by the result of `doQuery`
    (`true` = no error).  A panic of the splitter is recovered by `handleQuery`
    and reported as an error; nothing was executed. -/
def doMultiStmts (doQuery : Bytes → Bool) (sql : Bytes) : MultiOut :=
  match splitStatementToPieces sql with
  | .ok pieces false =>
    if pieces.length = 1 then runPieces doQuery [sql] else runPieces doQuery pieces
  | _ => ⟨[], true⟩

/-- `handleQuery` for a multi-statement client: trim trailing `;`, then `doMultiStmts`. -/
def handleQueryMulti (doQuery : Bytes → Bool) (sql : Bytes) : MultiOut :=
  doMultiStmts doQuery (trimRightSemi sql)

end GaeaVerif.LexC17
