import GaeaVerif.Model.Go
import GaeaVerif.Model.UserMgr
/-
  Model of the password checks of the client handshake (C30):
    mysql/util.go            CalcPassword, CheckHashPassword (after fixes 680bf06 and
                             5d2c538), CalcCachingSha2Password
    encoding/hex             DecodeString (the bytes decoded before the first error; whether
                             there was an error)
    proxy/server/manager.go  isStoredHashPassword, UserManager.CheckPassword / CheckHashPassword /
                             CheckSha2Password (after fix f737e0b: the clear-text loops skip
                             stored-hash entries)
    proxy/server/session.go  the method selection and decision of handleHandshakeResponse
                             (after fix 1a0c9e0)
  SHA-1 and SHA-256 are parameters `H1 H256 : Bytes → Bytes`; the driver instantiates
  them with `AuthSha.sha1`/`AuthSha.sha256`.  Core Lean only.
-/
namespace GaeaVerif.AuthCheck
open GaeaVerif GaeaVerif.UserMgr

/-- Bytewise XOR of two byte strings (up to the shorter one). -/
def xorBytes (a b : Bytes) : Bytes := List.zipWith (· ^^^ ·) a b

/-- Go: `for i := range dst { dst[i] ^= src[i] }` — indexes `src` out of range, hence
    panics, when `dst` is longer than `src`. -/
def xorInto (dst src : Bytes) : R Bytes :=
  if dst.length ≤ src.length then .ok (xorBytes dst src) else .panic

/-- `fromHexChar` of encoding/hex: `0-9`, `a-f`, `A-F`. -/
def fromHexChar (c : UInt8) : Option UInt8 :=
  if 0x30 ≤ c ∧ c ≤ 0x39 then some (c - 0x30)
  else if 0x61 ≤ c ∧ c ≤ 0x66 then some (c - 0x61 + 10)
  else if 0x41 ≤ c ∧ c ≤ 0x46 then some (c - 0x41 + 10)
  else none

/-- `hashBytes, _ := hex.DecodeString(s)`: the bytes decoded before the first
    invalid pair (or before a trailing odd character); the error is dropped by
    the caller. -/
def hexDecodeString : Bytes → Bytes
  | a :: b :: rest =>
    match fromHexChar a, fromHexChar b with
    | some x, some y => ((x <<< 4) ||| y) :: hexDecodeString rest
    | _, _ => []
  | _ => []

/-- `_, err := hex.DecodeString(s)`: `err == nil` (every pair is two hex digits and
    no odd character is left over). -/
def hexDecodeOK : Bytes → Bool
  | a :: b :: rest => (fromHexChar a).isSome && (fromHexChar b).isSome && hexDecodeOK rest
  | [_] => false
  | [] => true

/-- `mysql.CachingSHA2Password` -/
def cachingSHA2Password : Bytes := "caching_sha2_password".toUTF8.toList

section
variable (H1 H256 : Bytes → Bytes)

/-- `mysql.CalcPassword(scramble, password)` -/
def calcPassword (scramble password : Bytes) : R Bytes :=
  if password.length = 0 then .ok []            -- return nil
  else
    let stage1 := H1 password                   -- SHA1(password)
    let hash := H1 stage1                       -- SHA1(stage1)
    let scramble' := H1 (scramble ++ hash)      -- SHA1(scramble + hash)
    xorInto scramble' stage1                    -- for i := range scramble { scramble[i] ^= stage1[i] }

/-- `mysql.CheckHashPassword(clientResp, scramble, encryptPassword)`; the caller's
    `clientResp` is only read. -/
def checkHashPassword (clientResp scramble encryptPassword : Bytes) : Bool :=
  if encryptPassword.length = 0 then false
  else
    let hashBytes := hexDecodeString encryptPassword
    let hash := H1 (scramble ++ hashBytes)
    if clientResp.length ≠ hash.length then false
    else
      let stage1 := xorBytes clientResp hash    -- stage1[i] = clientResp[i] ^ hash[i]
      hashBytes == H1 stage1                    -- bytes.Equal(hashBytes, SHA1(stage1))

/-- `mysql.CalcCachingSha2Password(salt, password)` -/
def calcCachingSha2Password (salt password : Bytes) : R Bytes :=
  if password.length = 0 then .ok []
  else
    let message1 := H256 password
    let message1Hash := H256 message1
    let message2 := H256 (message1Hash ++ salt)
    xorInto message1 message2                   -- for i := range message1 { message1[i] ^= message2[i] }

/-- `strings.HasPrefix(password, "*") && len(password) == 41` -/
def looksHashed (password : Bytes) : Bool := password.head? == some 0x2a && password.length == 41

/-- `isStoredHashPassword` (proxy/server/manager.go): `*`, 41 characters, and
    `hex.DecodeString(password[1:])` reports no error. -/
def isStoredHashPassword (password : Bytes) : Bool :=
  if looksHashed password then hexDecodeOK (password.drop 1) else false

/-- `UserManager.CheckPassword` on the password list `u.users[user]`:
    `some password` = `(true, password)`, `none` = `(false, "")`. -/
def umCheckPassword (salt auth : Bytes) : List Bytes → R (Option Bytes)
  | [] => .ok none
  | password :: rest =>
    if isStoredHashPassword password then umCheckPassword salt auth rest       -- continue
    else
      match calcPassword H1 salt password with
      | .ok checkAuth => if auth == checkAuth then .ok (some password) else umCheckPassword salt auth rest
      | .fail => .fail
      | .panic => .panic

/-- `UserManager.CheckHashPassword` -/
def umCheckHashPassword (salt auth : Bytes) : List Bytes → Option Bytes
  | [] => none
  | password :: rest =>
    if looksHashed password && checkHashPassword H1 auth salt (password.drop 1) then some password
    else umCheckHashPassword salt auth rest

/-- `UserManager.CheckSha2Password` -/
def umCheckSha2Password (salt auth : Bytes) : List Bytes → R (Option Bytes)
  | [] => .ok none
  | password :: rest =>
    if isStoredHashPassword password then umCheckSha2Password salt auth rest   -- continue
    else
      match calcCachingSha2Password H256 salt password with
      | .ok checkAuth => if auth == checkAuth then .ok (some password) else umCheckSha2Password salt auth rest
      | .fail => .fail
      | .panic => .panic

/-- The stored-hash check followed by the clear-text check (both native branches of
    `handleHandshakeResponse`). -/
def checkNative (salt auth : Bytes) (pws : List Bytes) : R (Option Bytes) :=
  match umCheckHashPassword H1 salt auth pws with
  | some p => .ok (some p)
  | none => umCheckPassword H1 salt auth pws

/-- The `// check password` part of `Session.handleHandshakeResponse`: which
    configured password of the user, if any, the response is accepted for. -/
def checkByPlugin (plugin salt auth : Bytes) (pws : List Bytes) : R (Option Bytes) :=
  if plugin.length = 0 then
    if auth.length = 32 then umCheckSha2Password H256 salt auth pws
    else checkNative H1 salt auth pws
  else if plugin = cachingSHA2Password then umCheckSha2Password H256 salt auth pws
  else checkNative H1 salt auth pws

/-- Outcome of the handshake decision. -/
inductive Decision where
  | deny
  | accept (password ns : Bytes)
  deriving DecidableEq, Repr

/-- `Session.handleHandshakeResponse` up to the namespace binding (the collation
    checks that follow a successful password check are not part of C30). -/
def handleHandshakeResponse (u : UserManager Bytes) (user salt auth plugin : Bytes) : R Decision :=
  if !checkUser u user then .ok .deny
  else
    match checkByPlugin H1 H256 plugin salt auth ((mget u.users user).getD []) with
    | .ok (some password) => .ok (.accept password (getNamespaceByUser u user password))
    | .ok none => .ok .deny
    | .fail => .fail
    | .panic => .panic

/-! ### Reference semantics: the proofs MySQL accepts -/

/-- The mysql_native_password scramble a client computes from a clear password:
    `SHA1(p) XOR SHA1(salt ++ SHA1(SHA1(p)))`; the empty password has the empty scramble. -/
def nativeScramble (salt p : Bytes) : Bytes :=
  if p = [] then [] else xorBytes (H1 p) (H1 (salt ++ H1 (H1 p)))

/-- The caching_sha2_password (fast path) scramble:
    `SHA256(p) XOR SHA256(SHA256(SHA256(p)) ++ salt)`. -/
def sha2Scramble (salt p : Bytes) : Bytes :=
  if p = [] then [] else xorBytes (H256 p) (H256 (H256 (H256 p) ++ salt))

/-- MySQL's server-side check of a native response against the stored
    `h = SHA1(SHA1(password))`: 20 bytes, and `SHA1(resp XOR SHA1(salt ++ h)) = h`. -/
def mysqlNativeVerify (h salt resp : Bytes) : Bool :=
  resp.length == 20 && H1 (xorBytes resp (H1 (salt ++ h))) == h

/-- A configured password in the stored-hash form: `*` followed by 40 hex digits. -/
def isHashedEntry (stored : Bytes) : Bool :=
  stored.length == 41 && stored.head? == some 0x2a && (stored.drop 1).all fun c => (fromHexChar c).isSome

/-- Is `resp` a correct mysql_native_password proof for the configured entry? -/
def specNative (stored salt resp : Bytes) : Bool :=
  if isHashedEntry stored then mysqlNativeVerify H1 (hexDecodeString (stored.drop 1)) salt resp
  else resp == nativeScramble H1 salt stored

/-- Is `resp` a correct caching_sha2_password proof for the configured entry?
    (A SHA1 hash cannot be checked against a SHA-256 scramble: clear text only.) -/
def specSha2 (stored salt resp : Bytes) : Bool :=
  !isHashedEntry stored && resp == sha2Scramble H256 salt stored

/-- Acceptance by the method in force: after an auth switch (`plugin` named) that
    method only; otherwise either method. -/
def specAccepts (plugin stored salt resp : Bytes) : Bool :=
  if plugin.length = 0 then specNative H1 stored salt resp || specSha2 H256 stored salt resp
  else if plugin = cachingSHA2Password then specSha2 H256 stored salt resp
  else specNative H1 stored salt resp

/-- What the code accepted in addition before fix f737e0b (finding
    `hash-literal-accepted-as-password`, now repaired): the scramble of the
    41-character stored hash string itself, used as if it were a clear-text password. -/
def literalAccepts (plugin stored salt resp : Bytes) : Bool :=
  isHashedEntry stored &&
    (if plugin.length = 0 then resp == nativeScramble H1 salt stored || resp == sha2Scramble H256 salt stored
     else if plugin = cachingSHA2Password then resp == sha2Scramble H256 salt stored
     else resp == nativeScramble H1 salt stored)

end

/-! ### The clear-text loops before fix f737e0b (every configured string compared as
    clear text), for the record -/

def legacyUmCheckPassword (H1 : Bytes → Bytes) (salt auth : Bytes) : List Bytes → R (Option Bytes)
  | [] => .ok none
  | password :: rest =>
    match calcPassword H1 salt password with
    | .ok checkAuth => if auth == checkAuth then .ok (some password) else legacyUmCheckPassword H1 salt auth rest
    | .fail => .fail
    | .panic => .panic

def legacyUmCheckSha2Password (H256 : Bytes → Bytes) (salt auth : Bytes) : List Bytes → R (Option Bytes)
  | [] => .ok none
  | password :: rest =>
    match calcCachingSha2Password H256 salt password with
    | .ok checkAuth => if auth == checkAuth then .ok (some password) else legacyUmCheckSha2Password H256 salt auth rest
    | .fail => .fail
    | .panic => .panic

def legacyCheckNative (H1 : Bytes → Bytes) (salt auth : Bytes) (pws : List Bytes) : R (Option Bytes) :=
  match umCheckHashPassword H1 salt auth pws with
  | some p => .ok (some p)
  | none => legacyUmCheckPassword H1 salt auth pws

def legacyCheckByPlugin (H1 H256 : Bytes → Bytes) (plugin salt auth : Bytes) (pws : List Bytes) : R (Option Bytes) :=
  if plugin.length = 0 then
    if auth.length = 32 then legacyUmCheckSha2Password H256 salt auth pws
    else legacyCheckNative H1 salt auth pws
  else if plugin = cachingSHA2Password then legacyUmCheckSha2Password H256 salt auth pws
  else legacyCheckNative H1 salt auth pws

def legacyHandleHandshakeResponse (H1 H256 : Bytes → Bytes) (u : UserManager Bytes)
    (user salt auth plugin : Bytes) : R Decision :=
  if !checkUser u user then .ok .deny
  else
    match legacyCheckByPlugin H1 H256 plugin salt auth ((mget u.users user).getD []) with
    | .ok (some password) => .ok (.accept password (getNamespaceByUser u user password))
    | .ok none => .ok .deny
    | .fail => .fail
    | .panic => .panic

/-! ### The in-place version of the pinned tree (before 680bf06 / 5d2c538), for the record -/

/-- Pinned `mysql.CheckHashPassword`: XORs the caller's buffer in place (returned as
    second component), panics when the response is longer than the hash. -/
def legacyCheckHashPassword (H1 : Bytes → Bytes) (clientResp scramble encryptPassword : Bytes) : R (Bool × Bytes) :=
  if encryptPassword.length = 0 then .ok (false, clientResp)
  else
    let hashBytes := hexDecodeString encryptPassword
    let hash := H1 (scramble ++ hashBytes)
    match xorInto clientResp hash with
    | .ok resp' => .ok (hashBytes == H1 resp', resp')
    | .fail => .fail
    | .panic => .panic

end GaeaVerif.AuthCheck
