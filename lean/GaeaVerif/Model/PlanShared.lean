/-
  C07 — sessions of one namespace planning statements (proxy/server/executor_handle.go
  getPlan, proxy/plan BuildPlan) against what they share.

  What is shared (translator: harness/extract/c07ssa.go, fact `Gen.c07Effects`):
    * the configuration `cfg` — router, rules, shards, namespace settings — which planning
      only reads;
    * the cells planning does write, one per kind of fact:
        seq   the global sequences (handleInsertGlobalSequenceValue → Sequence.NextSeq,
              one locked step per value),
        rand  the state of math/rand's global source (postHandleGlobalTableRouteResultInQuery
              picks a copy of a global table),
        log   the log (log.Notice / Warn in getPlan, preBuildUnshardPlan, HandleInsertStmt).
  One atomic step of a session is: take the next statement and read what it needs from the
  configuration; or obtain one value from a cell; or finish the statement's plan from the
  configuration and the values obtained.  The planner itself is a parameter (`Planner`):
  which cells a statement needs and how the plan is computed from the configuration, the
  statement and the values are arbitrary functions — the theorems hold for all of them.
  Core Lean only.
-/
namespace GaeaVerif.PlanShared

/-- the cells of shared memory planning writes -/
inductive Cell
  | seq | rand | log
  deriving DecidableEq, Repr

/-- what planning a statement asks of the shared cells, in program order -/
inductive Need
  | draw (key : Nat)   -- the next value of global sequence `key`
  | rnd                -- a value of the global random source
  | logLine            -- one line written to the log
  deriving DecidableEq, Repr

def Need.cell : Need → Cell
  | .draw _ => .seq
  | .rnd => .rand
  | .logLine => .log

/-- does the need hand a value to the planner? -/
def Need.yields : Need → Bool
  | .draw _ => true
  | .rnd => true
  | .logLine => false

/-- number of values a list of needs yields -/
def yieldCount (ns : List Need) : Nat := (ns.filter Need.yields).length

structure Shared (Cfg : Type) where
  cfg : Cfg
  seq : Nat → Nat    -- last value issued, per sequence
  rand : Nat         -- state of the random source
  log : Nat          -- lines written

structure Planner (Cfg Stmt Plan : Type) where
  needs : Cfg → Stmt → List Need
  planOf : Cfg → Stmt → List Nat → Plan
  rng : Nat → Nat × Nat          -- state ↦ (value, next state)

/-- a statement being planned -/
structure Job (Stmt : Type) where
  stmt : Stmt
  todo : List Need
  got : List Nat

/-- private state of a session -/
structure Sess (Stmt Plan : Type) where
  queue : List Stmt
  cur : Option (Job Stmt)
  done : List (Stmt × Plan)

/-- a value taken from a sequence: (sequence, value) -/
abbrev Event := Nat × Nat

/-- One atomic step of a session: new shared state, new private state, the sequence value
    drawn in this step (if any). -/
def step {Cfg Stmt Plan : Type} (P : Planner Cfg Stmt Plan) (sh : Shared Cfg) (s : Sess Stmt Plan) :
    Shared Cfg × Sess Stmt Plan × Option Event :=
  match s.cur with
  | none =>
    match s.queue with
    | [] => (sh, s, none)
    | st :: q => (sh, { queue := q, cur := some { stmt := st, todo := P.needs sh.cfg st, got := [] }, done := s.done }, none)
  | some j =>
    match j.todo with
    | [] => (sh, { queue := s.queue, cur := none, done := s.done ++ [(j.stmt, P.planOf sh.cfg j.stmt j.got)] }, none)
    | .draw k :: t =>
      let v := sh.seq k + 1
      ({ sh with seq := fun k' => if k' = k then v else sh.seq k' },
       { queue := s.queue, cur := some { stmt := j.stmt, todo := t, got := j.got ++ [v] }, done := s.done }, some (k, v))
    | .rnd :: t =>
      let r := P.rng sh.rand
      ({ sh with rand := r.2 },
       { queue := s.queue, cur := some { stmt := j.stmt, todo := t, got := j.got ++ [r.1] }, done := s.done }, none)
    | .logLine :: t =>
      ({ sh with log := sh.log + 1 },
       { queue := s.queue, cur := some { stmt := j.stmt, todo := t, got := j.got }, done := s.done }, none)

structure Sys (Cfg Stmt Plan : Type) where
  shared : Shared Cfg
  sess : Nat → Sess Stmt Plan

/-- session `i` takes one step -/
def Sys.stepOf {Cfg Stmt Plan : Type} (P : Planner Cfg Stmt Plan) (sys : Sys Cfg Stmt Plan) (i : Nat) :
    Sys Cfg Stmt Plan × Option Event :=
  let r := step P sys.shared (sys.sess i)
  ({ shared := r.1, sess := fun j => if j = i then r.2.1 else sys.sess j }, r.2.2)

/-- an interleaving: the sessions in the order they step; the result and the sequence values
    drawn, oldest first -/
def Sys.run {Cfg Stmt Plan : Type} (P : Planner Cfg Stmt Plan) :
    Sys Cfg Stmt Plan → List Nat → Sys Cfg Stmt Plan × List Event
  | sys, [] => (sys, [])
  | sys, i :: is =>
    let r := sys.stepOf P i
    let r' := Sys.run P r.1 is
    (r'.1, (match r.2 with | some e => [e] | none => []) ++ r'.2)

/-- a session that has not started: its statements, nothing in progress, nothing done -/
def Sess.fresh {Stmt Plan : Type} (q : List Stmt) : Sess Stmt Plan := { queue := q, cur := none, done := [] }

/-- the statements of a session in order: done, in progress, waiting -/
def Sess.stmts {Stmt Plan : Type} (s : Sess Stmt Plan) : List Stmt :=
  s.done.map Prod.fst ++ (match s.cur with | some j => [j.stmt] | none => []) ++ s.queue

end GaeaVerif.PlanShared
