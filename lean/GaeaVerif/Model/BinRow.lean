import GaeaVerif.Model.LenEnc
/-
  C13 — model of the path that turns a backend text-protocol row into the
  binary-protocol row sent to a prepared-statement client:

    mysql/result.go    RowData.ParseText, BuildBinaryResultset, integerFitsColumn
    mysql/encoding.go  AppendBinaryValue, splitTextDate, splitTextDatetime
    mysql/field.go     stringToMysqlTime, mysqlTimeToBinaryResult
    util/hack          Abs

  together with the library functions they call, modelled (not verified) from
  their Go sources: strconv.ParseInt/ParseUint/Itoa, time.Parse for the three
  layouts used ("2006-01-02 15:04:05", "2006-01-02", "15:04:05"),
  shopspring/decimal NewFromString and Decimal.String, math/big's decimal
  text conversion.  IEEE-754 arithmetic is not modelled: strconv.ParseFloat,
  the float64→float32 conversion and strconv.FormatFloat are the three opaque
  functions of `FloatOps` (every definition and theorem is parametric in them).

  Strings are byte lists (Go strings are byte sequences; nothing here is
  rune-aware).  Core Lean only.
-/
namespace GaeaVerif.BinRow
open GaeaVerif GaeaVerif.LenEnc

/-! ### column types and flags (mysql/type.go; tied to the source by `Gen.c13…`) -/

abbrev TypeDecimal : Nat := 0
abbrev TypeTiny : Nat := 1
abbrev TypeShort : Nat := 2
abbrev TypeLong : Nat := 3
abbrev TypeFloat : Nat := 4
abbrev TypeDouble : Nat := 5
abbrev TypeNull : Nat := 6
abbrev TypeTimestamp : Nat := 7
abbrev TypeLonglong : Nat := 8
abbrev TypeInt24 : Nat := 9
abbrev TypeDate : Nat := 10
abbrev TypeDuration : Nat := 11
abbrev TypeDatetime : Nat := 12
abbrev TypeYear : Nat := 13
abbrev TypeNewDate : Nat := 14
abbrev TypeVarchar : Nat := 15
abbrev TypeBit : Nat := 16
abbrev TypeJSON : Nat := 0xf5
abbrev TypeNewDecimal : Nat := 0xf6
abbrev TypeEnum : Nat := 0xf7
abbrev TypeSet : Nat := 0xf8
abbrev TypeTinyBlob : Nat := 0xf9
abbrev TypeMediumBlob : Nat := 0xfa
abbrev TypeLongBlob : Nat := 0xfb
abbrev TypeBlob : Nat := 0xfc
abbrev TypeVarString : Nat := 0xfd
abbrev TypeString : Nat := 0xfe
abbrev TypeGeometry : Nat := 0xff

abbrev UnsignedFlag : Nat := 32

/-- The two members of `mysql.Field` the row conversion looks at. -/
structure Field where
  typ : Nat    -- uint8
  flag : Nat   -- uint16
  deriving Repr, DecidableEq

/-- `f.Flag&uint16(UnsignedFlag) > 0`. -/
def Field.isUnsigned (f : Field) : Bool := f.flag / 32 % 2 == 1

/-- The floating-point functions that are used but not modelled. Floats are
    carried as their IEEE-754 bit patterns. -/
structure FloatOps where
  /-- `strconv.ParseFloat(s, 64)` followed by `math.Float64bits`; `none` = error. -/
  parseFloat : Bytes → Option Nat
  /-- `math.Float32bits(float32(math.Float64frombits(b)))`. -/
  toF32 : Nat → Nat
  /-- `strconv.FormatFloat(math.Float64frombits(b), 'f', -1, 64)`. -/
  formatFloat : Nat → Bytes

/-- The dynamic values (`interface{}`) that flow from `ParseText` to
    `AppendBinaryValue`. -/
inductive GoVal where
  | nil
  | i64 (v : Int)                    -- int8 … int64, int (the value)
  | u64 (v : Nat)                    -- uint8 … uint64, uint
  | f64 (bits : Nat)                 -- float64
  | dec (value : Int) (exp : Int)    -- decimal.Decimal{value, exp}
  | str (s : Bytes)                  -- string
  | bytes (b : Bytes)                -- []byte
  | other                            -- any other dynamic type
  deriving Repr, DecidableEq

/-- Error kinds (the messages are not modelled). -/
inductive Err where
  | textRow            -- "ReadLenEncStringAsBytes in ParseText failed"
  | parseInt | parseUint | parseFloat | parseDecimal
  | colCount           -- "row %d has %d columns not equal %d"
  | datetime           -- "invalid TypeDatetime/TypeTimestamp %s"
  | duration           -- "invalid TypeDuration %s"
  | decimalFieldType   -- "unsupported field type %d for decimal.Decimal"
  | valueType          -- "AppendBinaryValue: unsupported type %T"
  | shortData          -- "AppendBinaryValue: insufficient data length …"
  | fieldType          -- "AppendBinaryValue: unsupported field type %d"
  | intRange           -- "row %d column %d: %v is out of range for field type %d"
  | fieldDef           -- FieldData.Parse: "… failed", ErrMalformPacket (Model/ColDef.lean)
  | defWrite           -- "internal error: packing of column definition used …"
  | panic              -- a Go run-time panic
  deriving Repr, DecidableEq

/-- Outcome of a modelled function: a value or an error kind. -/
inductive Res (α : Type) where
  | ok (a : α)
  | err (e : Err)
  deriving Repr, DecidableEq

namespace Res
@[inline] def bind {α β : Type} (x : Res α) (f : α → Res β) : Res β :=
  match x with
  | ok a => f a
  | err e => err e
instance : Monad Res where
  pure := ok
  bind := bind
@[simp] theorem bind_ok {α β : Type} (a : α) (f : α → Res β) : (ok a >>= f) = f a := rfl
@[simp] theorem bind_err {α β : Type} (e : Err) (f : α → Res β) : ((err e : Res α) >>= f) = err e := rfl
@[simp] theorem pure_eq {α : Type} (a : α) : (pure a : Res α) = ok a := rfl
end Res

/-! ### strconv -/

def isDigit (c : UInt8) : Bool := 48 ≤ c && c ≤ 57

def digVal (c : UInt8) : Nat := c.toNat - 48

/-- Value of a string of decimal digits. -/
def decVal (s : Bytes) : Nat := s.foldl (fun n c => n * 10 + digVal c) 0

/-- `strconv.ParseUint(s, 10, bitSize)`: a non-empty run of digits (no sign, no
    underscores in base 10) whose value fits; `none` = error. -/
def parseUint (s : Bytes) (bitSize : Nat) : Option Nat :=
  if s.isEmpty then none
  else if !s.all isDigit then none
  else if decVal s < 2 ^ bitSize then some (decVal s) else none

/-- `strconv.ParseInt(s, 10, bitSize)`. -/
def parseInt (s : Bytes) (bitSize : Nat) : Option Int :=
  match s with
  | [] => none
  | c :: rest =>
    let neg := c == 45
    let body := if c == 43 || c == 45 then rest else s
    match parseUint body bitSize with
    | none => none
    | some un =>
      let cutoff := 2 ^ (bitSize - 1)
      if !neg && un ≥ cutoff then none
      else if neg && un > cutoff then none
      else some (if neg then -(un : Int) else (un : Int))

def natToDecAux : Nat → Nat → Bytes → Bytes
  | 0, _, acc => acc
  | fuel + 1, n, acc =>
    if n < 10 then UInt8.ofNat (48 + n) :: acc
    else natToDecAux fuel (n / 10) (UInt8.ofNat (48 + n % 10) :: acc)

/-- Decimal digits of a natural number (`strconv.FormatUint`, `big.Int.String`
    of a non-negative value). -/
def natToDec (n : Nat) : Bytes := natToDecAux (n + 1) n []

/-- `strconv.Itoa` / `big.Int.String`. -/
def intToDec (i : Int) : Bytes :=
  if i < 0 then 45 :: natToDec i.natAbs else natToDec i.natAbs

/-! ### shopspring/decimal v1.3.1 -/

/-- Index of the first byte satisfying `p` (`strings.IndexAny`, `IndexByte`). -/
def findIdx (p : UInt8 → Bool) : Bytes → Option Nat
  | [] => none
  | c :: cs => if p c then some 0 else (findIdx p cs).map (· + 1)

/-- `(*big.Int).SetString(s, 10)`: optional sign, then one or more digits. -/
def parseBigInt (s : Bytes) : Option Int :=
  match s with
  | [] => none
  | c :: rest =>
    let neg := c == 45
    let body := if c == 43 || c == 45 then rest else s
    if body.isEmpty || !body.all isDigit then none
    else some (if neg then -(decVal body : Int) else (decVal body : Int))

/-- `decimal.NewFromString`: `(value, exp)` or `none` for an error. -/
def newFromString (value : Bytes) : Option (Int × Int) :=
  -- scientific notation
  let r : Option (Bytes × Int) :=
    match findIdx (fun c => c == 69 || c == 101) value with
    | some e =>
      match parseInt (value.drop (e + 1)) 32 with
      | none => none
      | some x => some (value.take e, x)
    | none => some (value, 0)
  match r with
  | none => none
  | some (value, exp0) =>
    if (value.filter (· == 46)).length > 1 then none   -- "too many .s"
    else
      let ie : Bytes × Int :=
        match findIdx (· == 46) value with
        | none => (value, exp0)
        | some p => (value.take p ++ value.drop (p + 1), exp0 - ((value.length : Int) - p - 1))
      let dValue := if ie.1.length ≤ 18 then parseInt ie.1 64 else parseBigInt ie.1
      match dValue with
      | none => none
      | some v => if ie.2 < -2147483648 ∨ ie.2 > 2147483647 then none else some (v, ie.2)

/-- Strip trailing `'0'` bytes. -/
def trimTrailingZeros (s : Bytes) : Bytes := (s.reverse.dropWhile (· == 48)).reverse

/-- `Decimal.String()` (= `d.string(true)`). -/
def decimalString (value exp : Int) : Bytes :=
  if exp ≥ 0 then intToDec (value * 10 ^ exp.toNat)      -- d.rescale(0).value.String()
  else
    let str := natToDec value.natAbs
    let e := (-exp).toNat
    let parts : Bytes × Bytes :=
      if str.length > e then (str.take (str.length - e), str.drop (str.length - e))
      else ([48], List.replicate (e - str.length) 48 ++ str)
    let frac := trimTrailingZeros parts.2
    let number := if frac.length > 0 then parts.1 ++ [46] ++ frac else parts.1
    if value < 0 then 45 :: number else number

/-! ### time.Parse for the layouts used -/

/-- `getnum`: one or two digits (`fixed` forces two). -/
def getnum (s : Bytes) (fixed : Bool) : Option (Nat × Bytes) :=
  match s with
  | [] => none
  | c0 :: rest0 =>
    if !isDigit c0 then none
    else
      match rest0 with
      | [] => if fixed then none else some (digVal c0, [])
      | c1 :: rest1 =>
        if isDigit c1 then some (digVal c0 * 10 + digVal c1, rest1)
        else if fixed then none else some (digVal c0, rest0)

/-- `cutspace`. -/
def cutspace : Bytes → Bytes
  | [] => []
  | c :: cs => if c == 32 then cutspace cs else c :: cs

/-- `skip(value, prefix)` for a one-byte literal prefix: a space in the layout
    stands for any run of spaces (also an empty one at the end of the value). -/
def skipChar (value : Bytes) (c : UInt8) : Option Bytes :=
  if c == 32 then
    match value with
    | [] => some []
    | v :: _ => if v != 32 then none else some (cutspace value)
  else
    match value with
    | [] => none
    | v :: vs => if v == c then some vs else none

/-- `stdLongYear`: four bytes, all digits (`atoi` accepts a sign only in first
    position, where `isDigit(value, 0)` has already excluded it). -/
def parseYear4 (value : Bytes) : Option (Nat × Bytes) :=
  if value.length < 4 then none
  else if (value.take 4).all isDigit then some (decVal (value.take 4), value.drop 4) else none

/-- `stdZeroSecond` with the "fractional second in the input but not in the
    layout" special case: seconds, nanoseconds (`parseNanoseconds`: at most nine
    digits are used, all are consumed), rest. -/
def parseSecFrac (value : Bytes) : Option (Nat × Nat × Bytes) :=
  match getnum value true with
  | none => none
  | some (sec, v) =>
    if sec ≥ 60 then none
    else
      match v with
      | c :: d :: _ =>
        if (c == 46 || c == 44) && isDigit d then
          let digits := (v.drop 1).takeWhile isDigit
          let used := digits.take 9
          some (sec, decVal used * 10 ^ (9 - used.length), v.drop (1 + digits.length))
        else some (sec, 0, v)
      | _ => some (sec, 0, v)

def isLeap (year : Nat) : Bool := year % 4 == 0 && (year % 100 != 0 || year % 400 == 0)

/-- `daysIn(Month(m), year)`. -/
def daysIn (m year : Nat) : Nat :=
  if m == 2 then (if isLeap year then 29 else 28)
  else if m == 4 || m == 6 || m == 9 || m == 11 then 30 else 31

/-- `time.Parse("15:04:05", value)`: hour, minute, second, nanosecond. -/
def parseClock (value : Bytes) : Option (Nat × Nat × Nat × Nat) :=
  match getnum value false with
  | none => none
  | some (h, v) =>
    if h ≥ 24 then none else
    match skipChar v 58 with
    | none => none
    | some v =>
      match getnum v true with
      | none => none
      | some (mi, v) =>
        if mi ≥ 60 then none else
        match skipChar v 58 with
        | none => none
        | some v =>
          match parseSecFrac v with
          | none => none
          | some (s, ns, v) => if v.isEmpty then some (h, mi, s, ns) else none

/-- The "2006-01-02" prefix of a layout: year, month, day (day not yet
    validated), rest. -/
def parseYMD (value : Bytes) : Option (Nat × Nat × Nat × Bytes) :=
  match parseYear4 value with
  | none => none
  | some (y, v) =>
    match skipChar v 45 with
    | none => none
    | some v =>
      match getnum v true with
      | none => none
      | some (mo, v) =>
        if mo = 0 ∨ mo > 12 then none else
        match skipChar v 45 with
        | none => none
        | some v =>
          match getnum v true with
          | none => none
          | some (d, v) => some (y, mo, d, v)

/-- `time.Parse("2006-01-02", value)`: year, month, day. -/
def parseDate (value : Bytes) : Option (Nat × Nat × Nat) :=
  match parseYMD value with
  | none => none
  | some (y, mo, d, v) =>
    if !v.isEmpty then none
    else if d < 1 ∨ d > daysIn mo y then none
    else some (y, mo, d)

/-- `time.Parse("2006-01-02 15:04:05", value)`. -/
def parseDateTime (value : Bytes) : Option (Nat × Nat × Nat × Nat × Nat × Nat × Nat) :=
  match parseYMD value with
  | none => none
  | some (y, mo, d, v) =>
    match skipChar v 32 with
    | none => none
    | some v =>
      match parseClock v with
      | none => none
      | some (h, mi, s, ns) =>
        if d < 1 ∨ d > daysIn mo y then none
        else some (y, mo, d, h, mi, s, ns)

/-! ### mysql/field.go, util/hack -/

structure TimeValue where
  isNegative : Bool
  day : Int
  hour : Int
  minute : Int
  second : Int
  microsecond : Int
  deriving Repr, DecidableEq

/-- `hack.Abs` on an `int64` (`-2^63` is its own absolute value). -/
def hackAbs (n : Int) : Int := if n = -9223372036854775808 then n else (n.natAbs : Int)

/-- `stringToMysqlTime`. -/
def stringToMysqlTime (s : Bytes) : Option TimeValue :=
  match findIdx (· == 58) s with           -- strings.SplitN(s, ":", 2)
  | none => none
  | some i =>
    let f0 := s.take i
    let f1 := s.drop (i + 1)
    match parseInt f0 64 with
    | none => none
    | some hour0 =>
      let neg := f0.head? == some 45          -- strings.HasPrefix(timeFields[0], "-")
      let hour := if neg then hackAbs hour0 else hour0
      let day := Int.tdiv hour 24
      let hourRest := Int.tmod hour 24
      let timeRest := intToDec hourRest ++ [58] ++ f1
      match parseClock timeRest with
      | none => none
      | some (h, mi, sec, ns) =>
        if ns % 1000 ≠ 0 then none
        else some { isNegative := neg, day := day, hour := h, minute := mi, second := sec,
                    microsecond := ns / 1000 }

/-- `uint32(x)` of an `int`. -/
def toU32 (x : Int) : Nat := (x % 4294967296).toNat
/-- `uint8(x)` of an `int`. -/
def toU8 (x : Int) : UInt8 := UInt8.ofNat (x % 256).toNat

/-- `mysqlTimeToBinaryResult`. -/
def mysqlTimeToBinaryResult (v : TimeValue) : Bytes :=
  if v.day = 0 ∧ v.hour = 0 ∧ v.minute = 0 ∧ v.second = 0 ∧ v.microsecond = 0 then [0]
  else
    [if v.microsecond = 0 then 8 else 12] ++ [if v.isNegative then 1 else 0]
      ++ leBytes (toU32 v.day) 4 ++ [toU8 v.hour, toU8 v.minute, toU8 v.second]
      ++ (if v.microsecond ≠ 0 then leBytes (toU32 v.microsecond) 4 else [])

/-! ### mysql/encoding.go -/

/-- `splitTextDate`: the three numbers of a `YYYY-MM-DD` text, not validated. -/
def splitTextDate (s : Bytes) : Option (Nat × Nat × Nat) :=
  match s with
  | [y0, y1, y2, y3, s1, m0, m1, s2, d0, d1] =>
    if s1 == 45 && s2 == 45 && isDigit y0 && isDigit y1 && isDigit y2 && isDigit y3
        && isDigit m0 && isDigit m1 && isDigit d0 && isDigit d1 then
      some (digVal y0 * 1000 + digVal y1 * 100 + digVal y2 * 10 + digVal y3,
            digVal m0 * 10 + digVal m1, digVal d0 * 10 + digVal d1)
    else none
  | _ => none

/-- `splitTextDatetime`: the numbers of a `YYYY-MM-DD HH:MM:SS[.f{1,6}]` text —
    year, month, day (not validated), hour, minute, second (a time of day),
    microseconds. -/
def splitTextDatetime (s : Bytes) : Option (Nat × Nat × Nat × Nat × Nat × Nat × Nat) :=
  match s with
  | y0 :: y1 :: y2 :: y3 :: s1 :: m0 :: m1 :: s2 :: d0 :: d1 :: sp :: h0 :: h1 :: c1 :: i0 :: i1 :: c2 :: e0 :: e1 :: tail =>
    if sp != 32 || c1 != 58 || c2 != 58 then none
    else
      match splitTextDate [y0, y1, y2, y3, s1, m0, m1, s2, d0, d1] with
      | none => none
      | some (y, mo, d) =>
        if !(isDigit h0 && isDigit h1 && isDigit i0 && isDigit i1 && isDigit e0 && isDigit e1) then none
        else
          let h := digVal h0 * 10 + digVal h1
          let mi := digVal i0 * 10 + digVal i1
          let sec := digVal e0 * 10 + digVal e1
          if h > 23 ∨ mi > 59 ∨ sec > 59 then none
          else
            match tail with
            | [] => some (y, mo, d, h, mi, sec, 0)
            | dot :: frac =>
              if dot != 46 || frac.length < 1 || frac.length > 6 then none
              else if !frac.all isDigit then none
              else some (y, mo, d, h, mi, sec, decVal frac * 10 ^ (6 - frac.length))
  | _ => none

/-- "0000-00-00 00:00:00" -/
def zeroDatetimeText : Bytes :=
  [48, 48, 48, 48, 45, 48, 48, 45, 48, 48, 32, 48, 48, 58, 48, 48, 58, 48, 48]

/-- `case TypeDatetime, TypeTimestamp:` of the constructor phase (string value). -/
def datetimeBytes (v : Bytes) : Res Bytes :=
  if v = zeroDatetimeText then .ok [0]
  else
    -- a parse finer than a microsecond counts as a failed parse
    match (parseDateTime v).filter (fun r => r.2.2.2.2.2.2 % 1000 == 0) with
    | some (y, mo, d, h, mi, s, ns) =>
      .ok ([11] ++ leBytes y 2 ++ [UInt8.ofNat mo, UInt8.ofNat d, UInt8.ofNat h, UInt8.ofNat mi, UInt8.ofNat s]
            ++ leBytes (ns / 1000) 4)
    | none =>
      match splitTextDatetime v with
      | some (y, mo, d, h, mi, s, us) =>
        if y = 0 ∧ mo = 0 ∧ d = 0 ∧ h = 0 ∧ mi = 0 ∧ s = 0 ∧ us = 0 then .ok [0]
        else
          .ok ([11] ++ leBytes y 2 ++ [UInt8.ofNat mo, UInt8.ofNat d, UInt8.ofNat h, UInt8.ofNat mi, UInt8.ofNat s]
                ++ leBytes us 4)
      | none => .err .datetime

/-- `case TypeDate, TypeNewDate:` of the constructor phase (string value). -/
def dateBytes (v : Bytes) : Bytes :=
  match parseDate v with
  | some (y, mo, d) => [4] ++ leBytes y 2 ++ [UInt8.ofNat mo, UInt8.ofNat d]
  | none =>
    match splitTextDate v with
    | some (y, mo, d) =>
      if y ≠ 0 ∨ mo ≠ 0 ∨ d ≠ 0 then [4] ++ leBytes y 2 ++ [UInt8.ofNat mo, UInt8.ofNat d]
      else [0]
    | none => [0]

/-- `case TypeDuration:` of the constructor phase (string value). -/
def durationBytes (v : Bytes) : Res Bytes :=
  match stringToMysqlTime v with
  | none => .err .duration
  | some tv => .ok (mysqlTimeToBinaryResult tv)

/-- Constructor phase of `AppendBinaryValue`: the bytes `t`. -/
def binaryValueBytes (ops : FloatOps) (fieldType : Nat) (value : GoVal) : Res Bytes :=
  match value with
  | .i64 v => .ok (leBytes (v % 18446744073709551616).toNat 8)
  | .u64 v => .ok (leBytes v 8)
  | .dec value exp =>
    if fieldType = TypeNewDecimal then .ok (decimalString value exp) else .err .decimalFieldType
  | .f64 bits =>
    if fieldType = TypeFloat then .ok (leBytes (ops.toF32 bits) 4)
    else if fieldType = TypeNewDecimal then .ok (ops.formatFloat bits)
    else .ok (leBytes bits 8)
  | .bytes b => .ok b
  | .str v =>
    if fieldType = TypeDatetime ∨ fieldType = TypeTimestamp then datetimeBytes v
    else if fieldType = TypeDate ∨ fieldType = TypeNewDate then .ok (dateBytes v)
    else if fieldType = TypeDuration then durationBytes v
    else .ok v
  | .nil => .err .valueType
  | .other => .err .valueType

def isLenEncFieldType (ty : Nat) : Bool :=
  ty == TypeNewDecimal || ty == TypeJSON || ty == TypeString || ty == TypeVarString || ty == TypeVarchar
    || ty == TypeBit || ty == TypeTinyBlob || ty == TypeMediumBlob || ty == TypeLongBlob || ty == TypeBlob
    || ty == TypeEnum || ty == TypeSet || ty == TypeGeometry || ty == TypeDecimal

def isRawFieldType (ty : Nat) : Bool :=
  ty == TypeDate || ty == TypeDatetime || ty == TypeDuration || ty == TypeTimestamp || ty == TypeNewDate

/-- `AppendBinaryValue(data, fieldType, value)`: the bytes appended to `data`. -/
def appendBinaryValue (ops : FloatOps) (fieldType : Nat) (value : GoVal) : Res Bytes :=
  match binaryValueBytes ops fieldType value with
  | .err e => .err e
  | .ok t =>
    -- append phase
    if fieldType = TypeTiny then
      if t.length < 1 then .err .shortData else .ok (t.take 1)
    else if fieldType = TypeShort ∨ fieldType = TypeYear then
      if t.length < 2 then .err .shortData else .ok (t.take 2)
    else if fieldType = TypeFloat ∨ fieldType = TypeInt24 ∨ fieldType = TypeLong then
      if t.length < 4 then .err .shortData else .ok (t.take 4)
    else if fieldType = TypeLonglong ∨ fieldType = TypeDouble then
      if t.length < 8 then .err .shortData else .ok (t.take 8)
    else if isLenEncFieldType fieldType then .ok (appendLenEncStringBytes t)
    else if isRawFieldType fieldType then .ok t
    else .err .fieldType

/-! ### mysql/result.go -/

def isIntFieldType (ty : Nat) : Bool :=
  ty == TypeTiny || ty == TypeShort || ty == TypeLong || ty == TypeInt24 || ty == TypeLonglong || ty == TypeYear

def isStringFieldType (ty : Nat) : Bool :=
  ty == TypeVarchar || ty == TypeVarString || ty == TypeString || ty == TypeDatetime || ty == TypeDate
    || ty == TypeNewDate || ty == TypeDuration || ty == TypeTimestamp

/-- The `switch f[i].Type` of `ParseText` for a non-NULL cell `v`. -/
def parseTextValue (ops : FloatOps) (f : Field) (v : Bytes) : Res GoVal :=
  if isIntFieldType f.typ then
    if f.isUnsigned then
      match parseUint v 64 with
      | some n => .ok (.u64 n)
      | none => .err .parseUint
    else
      match parseInt v 64 with
      | some n => .ok (.i64 n)
      | none => .err .parseInt
  else if f.typ = TypeFloat ∨ f.typ = TypeDouble then
    match ops.parseFloat v with
    | some b => .ok (.f64 b)
    | none => .err .parseFloat
  else if f.typ = TypeNewDecimal then
    match newFromString v with
    | some (value, exp) => .ok (.dec value exp)
    | none => .err .parseDecimal
  else if isStringFieldType f.typ then .ok (.str v)
  else .ok (.bytes v)

/-- The loop of `RowData.ParseText` from column `f` on, `pos` being the read
    position in the row `p`. -/
def parseTextLoop (ops : FloatOps) (p : Bytes) : List Field → Int → Res (List GoVal)
  | [], _ => .ok []
  | f :: fs, pos =>
    match readLenEncStringAsBytes p pos with
    | .fail => .err .textRow
    | .panic => .err .panic
    | .ok (v, pos', isNull) =>
      match (if isNull then Res.ok GoVal.nil else parseTextValue ops f v) with
      | .err e => .err e
      | .ok x =>
        match parseTextLoop ops p fs pos' with
        | .err e => .err e
        | .ok xs => .ok (x :: xs)

/-- `RowData.ParseText`. -/
def parseText (ops : FloatOps) (p : Bytes) (f : List Field) : Res (List GoVal) :=
  parseTextLoop ops p f 0

/-- `integerFitsColumn(field, value)`: an integer value must be a value of the
    integer column it is sent in (width of the binary encoding, signedness);
    other values and other columns are not checked. -/
def integerFitsColumn (f : Field) (v : GoVal) : Bool :=
  let bits : Nat :=
    if f.typ = TypeTiny then 8
    else if f.typ = TypeShort ∨ f.typ = TypeYear then 16
    else if f.typ = TypeLong ∨ f.typ = TypeInt24 then 32
    else if f.typ = TypeLonglong then 64
    else 0
  if bits = 0 then true
  else
    match v with
    | .i64 sv =>
      if sv < 0 then !f.isUnsigned && decide (sv ≥ -(2 ^ (bits - 1) : Int))
      else if f.isUnsigned then decide (sv < 2 ^ bits) else decide (sv < 2 ^ (bits - 1))
    | .u64 uv => if f.isUnsigned then decide (uv < 2 ^ bits) else decide (uv < 2 ^ (bits - 1))
    | _ => true

/-- `nullBitMap[bytePos] |= 1 << bitPos` (index panic made explicit). -/
def setNullBit (bm : List Nat) (j : Nat) : Option (List Nat) :=
  let bytePos := (j + 2) / 8
  let bitPos := (j + 2) % 8
  if bytePos < bm.length then some (bm.set bytePos (bm.getD bytePos 0 ||| (1 <<< bitPos))) else none

/-- The column loop of `BuildBinaryResultset` for one row, from column `j` on:
    the bytes appended after the bitmap, and the bitmap. -/
def buildRowLoop (ops : FloatOps) : List Field → List GoVal → Nat → Bytes → List Nat → Res (Bytes × List Nat)
  | _, [], _, payload, bm => .ok (payload, bm)
  | [], _ :: _, _, _, _ => .err .panic            -- r.Fields[j] out of range
  | f :: fs, v :: vs, j, payload, bm =>
    if v = GoVal.nil then
      match setNullBit bm j with
      | none => .err .panic
      | some bm' => buildRowLoop ops fs vs (j + 1) payload bm'
    else if !integerFitsColumn f v then .err .intRange
    else
      match appendBinaryValue ops f.typ v with
      | .err e => .err e
      | .ok b => buildRowLoop ops fs vs (j + 1) (payload ++ b) bm

/-- One iteration of the row loop of `BuildBinaryResultset`: header byte 0,
    the null bitmap (`copy(row[1:], nullBitMap)`), the values. -/
def buildBinaryRow (ops : FloatOps) (fields : List Field) (v : List GoVal) : Res Bytes :=
  if v.length ≠ fields.length then .err .colCount
  else
    let bitmapLen := (fields.length + 7 + 2) / 8
    match buildRowLoop ops fields v 0 [] (List.replicate bitmapLen 0) with
    | .err e => .err e
    | .ok (payload, bm) => .ok (0 :: (bm.map UInt8.ofNat ++ payload))

/-- `BuildBinaryResultset(fields, values)`: the `RowDatas`. -/
def buildBinaryResultset (ops : FloatOps) (fields : List Field) : List (List GoVal) → Res (List Bytes)
  | [] => .ok []
  | v :: vs =>
    match buildBinaryRow ops fields v with
    | .err e => .err e
    | .ok r =>
      match buildBinaryResultset ops fields vs with
      | .err e => .err e
      | .ok rs => .ok (r :: rs)

/-- `ParseText` of every row (backend/direct_connection.go readResultRows). -/
def parseRows (ops : FloatOps) (fields : List Field) : List Bytes → Res (List (List GoVal))
  | [] => .ok []
  | p :: ps =>
    match parseText ops p fields with
    | .err e => .err e
    | .ok v =>
      match parseRows ops fields ps with
      | .err e => .err e
      | .ok vs => .ok (v :: vs)

/-- Text rows of the backend → binary rows for the client
    (`ParseText` per row, then `Result.BuildBinaryResultSet`). -/
def rowsToBinary (ops : FloatOps) (fields : List Field) (rows : List Bytes) : Res (List Bytes) :=
  match parseRows ops fields rows with
  | .err e => .err e
  | .ok vals => buildBinaryResultset ops fields vals

/-- One text row → its binary row. -/
def rowToBinary (ops : FloatOps) (fields : List Field) (row : Bytes) : Res Bytes :=
  match parseText ops row fields with
  | .err e => .err e
  | .ok v => buildBinaryRow ops fields v

end GaeaVerif.BinRow
