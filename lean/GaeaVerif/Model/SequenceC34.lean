import GaeaVerif.Model.Go
/-
  Model of the MySQL-backed global sequence of /repo/proxy/sequence/mysql.go
  (C34), as repaired by the `fix:` commit (parse errors are returned, a
  non-positive increment and a block that would overflow int64 are rejected):

  * `parseInt`      — `strconv.ParseInt(s, 10, 64)` (error kinds collapsed)
  * `splitComma`    — `strings.Split(ret, ",")`
  * `getSeqFromDB`  — `MySQLSequence.getSeqFromDB` after the connection part
  * `nextSeq`       — `MySQLSequence.NextSeq` (one call = one atomic step: the
                      whole body runs under the per-proxy mutex)
  * `nextval`       — the MyCAT stored function `mycat_seq_nextval` on the
                      sequence row (`UPDATE … SET current_value = current_value
                      + increment; RETURN concat(current_value, ',', increment)`
                      with the default `-999999999,null` for a missing row);
                      this is a model of MySQL, reproduced by the harness's
                      fake master connection
  * `step` / `run`  — any number of proxies sharing one sequence row, one
                      `NextSeq` call per step, each with the fate of the block
                      fetch it may need.

  All values are Go `int64`s that the repaired code keeps inside the int64
  range (`curr + incr` is guarded, `curr++` only runs below `max`), so `Int`
  is exact here.  Core Lean only.
-/
namespace GaeaVerif.Sequence
open GaeaVerif

def maxInt64 : Int := 9223372036854775807
def minInt64 : Int := -9223372036854775808

/-! ### strconv.ParseInt(s, 10, 64) and strings.Split(s, ",") -/

/-- The digit loop of `strconv.ParseUint` in base 10, on an exact natural
    (the range check is done by the caller); `none` = syntax error. -/
def parseDigits : Bytes → Nat → Option Nat
  | [], acc => some acc
  | c :: cs, acc =>
    if 48 ≤ c.toNat ∧ c.toNat ≤ 57 then parseDigits cs (acc * 10 + (c.toNat - 48)) else none

/-- `strconv.ParseUint(s, 10, 64)` followed by the sign and range handling of
    `ParseInt`: `ds` is the text after the optional sign. -/
def parseMag (neg : Bool) (ds : Bytes) : Option Int :=
  if ds.isEmpty then none else
  match parseDigits ds 0 with
  | none => none
  | some n =>
    if neg then (if n ≤ 9223372036854775808 then some (-(n : Int)) else none)
    else (if n < 9223372036854775808 then some (n : Int) else none)

/-- `strconv.ParseInt(s, 10, 64)`: `none` for `ErrSyntax` (empty, lone sign,
    a non-digit — base 10 admits no underscores) and for `ErrRange`. -/
def parseInt (s : Bytes) : Option Int :=
  match s with
  | [] => none
  | c :: rest =>
    if c == 43 then parseMag false rest
    else if c == 45 then parseMag true rest
    else parseMag false s

/-- `strings.Split(s, ",")` (never empty; `Split("", ",") = [""]`). -/
def splitComma : Bytes → List Bytes
  | [] => [[]]
  | c :: cs =>
    match splitComma cs with
    | [] => [[c]]
    | f :: fs => if c == 44 then [] :: f :: fs else (c :: f) :: fs

def digitByte (d : Nat) : UInt8 := UInt8.ofNat (48 + d)

/-- `natDigits` with explicit fuel (structural recursion, so that closed terms
    evaluate in the kernel); `fuel ≥ n` is enough. -/
def natDigitsAux : Nat → Nat → Bytes
  | 0, n => [digitByte (n % 10)]
  | f + 1, n => if n < 10 then [digitByte n] else natDigitsAux f (n / 10) ++ [digitByte (n % 10)]

/-- Decimal digits of a natural number (`strconv.FormatInt`, MySQL's
    `CAST(n AS CHAR)`). -/
def natDigits (n : Nat) : Bytes := natDigitsAux n n

def fmtInt (v : Int) : Bytes :=
  if v < 0 then 45 :: natDigits v.natAbs else natDigits v.natAbs

/-! ### MySQLSequence -/

/-- The mutable fields of `MySQLSequence` (`curr`, `max`) and `maxLimit`. -/
structure MySQLSequence where
  curr : Int
  max : Int
  maxLimit : Int
  deriving Repr, DecidableEq

/-- `NewMySQLSequence`. -/
def newMySQLSequence (maxLimit : Int) : MySQLSequence := { curr := 0, max := 0, maxLimit := maxLimit }

/-- What the connection part of `getSeqFromDB` produced: an error
    (`GetMasterConn`, `UseDB`, `Execute` or `GetString` failed) or the string
    in row 0, column 0. -/
inductive Reply where
  | err
  | row (ret : Bytes)
  deriving Repr, DecidableEq

/-- The validation of the fetched string in `getSeqFromDB`: `(curr, incr)` or
    `none` when the function returns an error. -/
def parseReply (ret : Bytes) : Option (Int × Int) :=
  let ns := splitComma ret
  if ns.length ≠ 2 then none else
  match parseInt (ns.getD 0 []) with
  | none => none
  | some curr =>
    match parseInt (ns.getD 1 []) with
    | none => none
    | some incr =>
      if incr ≤ 0 then none
      else if curr > maxInt64 - incr then none
      else some (curr, incr)

/-- `MySQLSequence.getSeqFromDB`: `none` = an error is returned and the
    receiver is unchanged. -/
def getSeqFromDB (s : MySQLSequence) (r : Reply) : Option MySQLSequence :=
  match r with
  | .err => none
  | .row ret =>
    match parseReply ret with
    | none => none
    | some (curr, incr) => some { s with max := curr + incr, curr := curr }

/-- Does `NextSeq` fetch a block in this state? -/
def needsFetch (s : MySQLSequence) : Bool := decide (s.curr ≥ s.max)

/-- `MySQLSequence.NextSeq`; `r` is the outcome of the block fetch, consulted
    only when `needsFetch s`.  Returns the new state and the value (`none` =
    an error is returned). -/
def nextSeq (s : MySQLSequence) (r : Reply) : MySQLSequence × Option Int :=
  let fetched : Option MySQLSequence := if needsFetch s then getSeqFromDB s r else some s
  match fetched with
  | none => (s, none)
  | some s1 =>
    let s2 := { s1 with curr := s1.curr + 1 }
    if s2.maxLimit > 0 ∧ s2.curr ≥ s2.maxLimit then (s2, none) else (s2, some s2.curr)

/-! ### the sequence row and the stored function -/

structure Row where
  current : Int
  increment : Int
  deriving Repr, DecidableEq

/-- `mycat_seq_nextval`: the new table state and the outcome.  MySQL rejects
    a BIGINT result out of range (error 1690) and leaves the row unchanged. -/
def nextval (t : Option Row) : Option Row × Reply :=
  match t with
  | none => (none, .row (fmtInt (-999999999) ++ [44, 110, 117, 108, 108]))
  | some r =>
    let c := r.current + r.increment
    if c < minInt64 ∨ c > maxInt64 then (t, .err)
    else (some { r with current := c }, .row (fmtInt c ++ 44 :: fmtInt r.increment))

/-- The fate of one block fetch. -/
inductive Fault where
  | none                    -- the query runs and its result is read
  | errBefore               -- no connection / USE fails: the query never runs
  | errAfter                -- the query runs, the reply is lost
  | garbage (ret : Bytes)   -- the query runs, a different string is read
  deriving Repr, DecidableEq

def dbFetch (t : Option Row) : Fault → Option Row × Reply
  | .none => nextval t
  | .errBefore => (t, .err)
  | .errAfter => ((nextval t).1, .err)
  | .garbage ret => ((nextval t).1, .row ret)

/-! ### several proxies sharing the row -/

structure Sys where
  table : Option Row
  seqs : Nat → MySQLSequence

def init (table : Option Row) (limits : Nat → Int) : Sys :=
  { table := table, seqs := fun p => newMySQLSequence (limits p) }

/-- One `NextSeq` call on proxy `p`. -/
structure Op where
  p : Nat
  fault : Fault
  deriving Repr

/-- What a call returned, and whether it queried the database. -/
structure Ev where
  p : Nat
  val : Option Int
  fetched : Bool
  deriving Repr, DecidableEq

def step (σ : Sys) (op : Op) : Sys × Ev :=
  let s := σ.seqs op.p
  if needsFetch s then
    let (t', reply) := dbFetch σ.table op.fault
    let (s', out) := nextSeq s reply
    ({ table := t', seqs := fun q => if q = op.p then s' else σ.seqs q }, ⟨op.p, out, true⟩)
  else
    let (s', out) := nextSeq s .err
    ({ table := σ.table, seqs := fun q => if q = op.p then s' else σ.seqs q }, ⟨op.p, out, false⟩)

def run (σ : Sys) : List Op → Sys × List Ev
  | [] => (σ, [])
  | op :: ops =>
    let (σ1, e) := step σ op
    let (σ2, es) := run σ1 ops
    (σ2, e :: es)

/-- The values handed out, with the proxy that handed them out. -/
def issued : List Ev → List (Nat × Int)
  | [] => []
  | e :: es => match e.val with
    | some v => (e.p, v) :: issued es
    | none => issued es

end GaeaVerif.Sequence
