import GaeaVerif.Model.BinRow
/-
  C13 — very long cells (the 16 MiB size class of the length-encoded codec).

  The executable model works on `List UInt8`; a 16 Mi element list is beyond
  what the driver can push through it.  For the request kind `big` the driver
  therefore does not run the model: it computes the answer from theorem
  `C13.big_cell_row` (Props/C13.lean), which says what the model returns for a
  row made of one byte-string cell of any length and a sentinel INT — header,
  null bitmap, the length prefix of `AppendLenEncInt`, the cell itself, the
  sentinel.  The cell is a fixed pattern (NUL, 0xfb–0xff and non-UTF-8 bytes
  included); only its length and a hash travel.  For lengths up to 70 000 the
  driver also runs the model itself and insists that both agree.  Core Lean only.
-/
namespace GaeaVerif.BinRow
open GaeaVerif GaeaVerif.LenEnc

/-- Byte `i` of the pattern cell. -/
def patByte (i : Nat) : UInt8 := UInt8.ofNat ((i * 7 + 3) % 256) ^^^ UInt8.ofNat ((i / 512) % 256)

/-- The pattern cell of `n` bytes. -/
def patCell (n : Nat) : Bytes := (List.range n).map patByte

/-- One step of FNV-1a (64 bit). -/
def fnv (h : UInt64) (b : UInt8) : UInt64 := (h ^^^ b.toUInt64) * 1099511628211

def fnvInit : UInt64 := 14695981039346656037

def hashBytes (bs : Bytes) : UInt64 := bs.foldl fnv fnvInit

/-- Fold of `f` over bytes `i … i+k-1` of the pattern, continued from `h`,
    without building the list (generic in `f`: the constants of `fnv` stay out
    of the equations of this function). -/
def patFoldFrom (f : UInt64 → UInt8 → UInt64) : Nat → Nat → UInt64 → UInt64
  | 0, _, h => h
  | k + 1, i, h => patFoldFrom f k (i + 1) (f h (patByte i))

def patHash (n : Nat) : UInt64 := patFoldFrom fnv n 0 fnvInit

/-- What theorem `big_cell_row` says the binary row is, cut into the part
    before the cell and the part after it. -/
def bigRowHead (n : Nat) : Bytes := [0, 0] ++ appendLenEncInt n
def bigRowTail : Bytes := [7, 0, 0, 0]

end GaeaVerif.BinRow
