/-
  Model of /repo/mysql/sql_fingerprint.go (`GetFingerprint`, `blankComments`,
  `isSpace`, `wordIn`) and of the namespace blacklist of /repo/proxy/server/namespace.go
  (`parseBlackSqls`, `Namespace.IsSQLAllowed`) — property C36.

  The statement text is a list of ASCII characters (one element = one byte =
  one rune of Go's `for qi, r := range q`; the driver and the harness refuse
  texts with a byte ≥ 0x80, see the assumptions of C36).  Offsets
  (`cpFromOffset`, `cpToOffset`, `firstPar`, `qi`) are Go `int`s, here `Int`.
  The output buffer `f := make([]byte, 2*len(q)+1)` with its write index `fi` is
  the list `f` (= `f[0:fi]`) together with the capacity `cap`; every indexed
  write, every `copy(f[fi:fi+n], …)` and every string slice `q[a:b]` has an
  explicit panic outcome.  Core Lean only.
-/
namespace GaeaVerif.Fingerprint

/-- The parser states of sql_fingerprint.go (`const ( unknown byte = iota … )`). -/
inductive S where
  | unknown | inWord | inNumber | inSpace | inOp | opOrNumber | inQuote
  | subOrOLC | inDash | inOLC | divOrMLC | mlcOrMySQLCode | inMLC | inValues
  | moreValuesOrUnknown | orderBy | onDupeKeyUpdate | inNumberInWord
  deriving DecidableEq, Repr, Inhabited

/-- `var ReplaceNumbersInWords = false` (never assigned outside the tests). -/
def replaceNumbersInWords : Bool := false

/-- The local variables of `GetFingerprint`. -/
structure St where
  prevWord : List Char := []
  f : List Char := []
  pr : Char := Char.ofNat 0
  s : S := .unknown
  sqlState : S := .unknown
  quoteChar : Char := Char.ofNat 0
  cpFrom : Int := 0
  cpTo : Int := 0
  addSpace : Bool := false
  escape : Bool := false
  parOpen : Int := 0
  parOpenTotal : Int := 0
  valueNo : Int := 0
  firstPar : Int := 0
  deriving DecidableEq, Repr, Inhabited

/-- Result of `GetFingerprint`: the returned string or a run-time panic. -/
inductive Out where
  | ret (s : List Char)
  | panic
  /-- `return orig` ("administrator command: …"): the text `GetFingerprint` was called with -/
  | orig
  deriving DecidableEq, Repr, Inhabited

/-- Result of one iteration of the `for … range q` loop. -/
inductive StepR where
  | next (σ : St)
  | ret (s : List Char)
  | panic
  /-- `return orig` -/
  | orig
  deriving DecidableEq, Repr, Inhabited

/-- `isSpace`. -/
def isSpace (r : Char) : Bool :=
  r = ' ' || r = '\t' || r = '\r' || r = '\n' || r = Char.ofNat 11 || r = Char.ofNat 12

def isDigit (r : Char) : Bool := decide ('0' ≤ r ∧ r ≤ '9')

/-- `strings.ToLower` on ASCII text. -/
def lower (w : List Char) : List Char := w.map Char.toLower

/-- Go's `q[a:b]` on a string: panics unless `0 ≤ a ≤ b ≤ len(q)`. -/
def slice? (q : List Char) (a b : Int) : Option (List Char) :=
  if 0 ≤ a ∧ a ≤ b ∧ b ≤ q.length then some ((q.drop a.toNat).take (b - a).toNat) else none

def kwUse : List Char := ['u', 's', 'e']
def kwNull : List Char := ['n', 'u', 'l', 'l']
def kwNullComma : List Char := ['n', 'u', 'l', 'l', ',']
def kwIs : List Char := ['i', 's']
def kwNot : List Char := ['n', 'o', 't']
def kwOrder : List Char := ['o', 'r', 'd', 'e', 'r']
def kwBy : List Char := ['b', 'y']
def kwAsc : List Char := ['a', 's', 'c']
def kwAscComma : List Char := ['a', 's', 'c', ',']
def kwAscSpace : List Char := ['a', 's', 'c', ' ']
def kwKey : List Char := ['k', 'e', 'y']
def kwUpdate : List Char := ['u', 'p', 'd', 'a', 't', 'e']
def kwCall : List Char := ['c', 'a', 'l', 'l']
def kwCallSp : List Char := ['c', 'a', 'l', 'l', ' ']
def kwIn : List Char := ['i', 'n']
def kwValue : List Char := ['v', 'a', 'l', 'u', 'e']
def kwValues : List Char := ['v', 'a', 'l', 'u', 'e', 's']
def kwAdministrator : List Char :=
  ['a', 'd', 'm', 'i', 'n', 'i', 's', 't', 'r', 'a', 't', 'o', 'r']
def useQ : List Char := ['u', 's', 'e', ' ', '?']

/-- `wordIn(w, "value", "values", "in")` / `wordIn(prevWord, "in", "value", "values")`. -/
def isValuesWord (w : List Char) : Bool :=
  let l := lower w
  l = kwValue || l = kwValues || l = kwIn

/-- `wordIn(word, "asc", "asc,", "asc ")`. -/
def isAscWord (w : List Char) : Bool :=
  let l := lower w
  l = kwAsc || l = kwAscComma || l = kwAscSpace

/-- `f[fi] = c; fi++` on a buffer of capacity `cap`. -/
def push (cap : Nat) (f : List Char) (c : Char) : Option (List Char) :=
  if f.length < cap then some (f ++ [c]) else none

/-- `copy(f[fi:fi+len(w)], w); fi += len(w)`. -/
def pushAll (cap : Nat) (f : List Char) (w : List Char) : Option (List Char) :=
  if f.length + w.length ≤ cap then some (f ++ w) else none

/-- Part 3 of the loop body ("Copy a slice of the query into the
    fingerprint") followed by `pr = r`. -/
def part3 (q : List Char) (cap : Nat) (σ : St) (r : Char) : StepR :=
  if σ.cpTo > σ.cpFrom then
    match slice? q σ.cpFrom σ.cpTo with
    | none => .panic
    | some w =>
      let pw := lower w
      match pushAll cap σ.f pw with
      | none => .panic
      | some f1 =>
        let σ1 := { σ with prevWord := pw, f := f1, cpFrom := σ.cpTo }
        if isValuesWord pw && σ.sqlState ≠ .onDupeKeyUpdate then
          .next { σ1 with addSpace := false, s := .inValues, sqlState := .inValues, pr := r }
        else if σ.addSpace then
          match push cap f1 ' ' with
          | none => .panic
          | some f2 => .next { σ1 with f := f2, cpFrom := σ.cpTo + 1, addSpace := false, pr := r }
        else .next { σ1 with pr := r }
  else .next { σ with pr := r }

/-- The `else` branch of `case isSpace(r)` ("Word end"). -/
def wordEnd (q : List Char) (cap : Nat) (qi : Int) (σ : St) (r : Char) : StepR :=
  match slice? q σ.cpFrom qi with
  | none => .panic
  | some w0 =>
    let word := lower w0
    let fin (σ' : St) : StepR := part3 q cap { σ' with s := .inSpace, cpTo := qi, addSpace := true } r
    if word = kwUse ∧ σ.prevWord = [] then .ret useQ
    else if (word = kwNull ∧ (σ.prevWord ≠ kwIs ∧ σ.prevWord ≠ kwNot)) ∨ word = kwNullComma then
      match push cap σ.f '?' with
      | none => .panic
      | some f1 =>
        let f2? := if word.getLast? = some ',' then push cap f1 ',' else some f1
        match f2? with
        | none => .panic
        | some f2 =>
          match push cap f2 ' ' with
          | none => .panic
          | some f3 => fin { σ with f := f3, cpFrom := qi + 1 }
    else if σ.prevWord = kwOrder ∧ word = kwBy then fin { σ with sqlState := .orderBy }
    else if σ.sqlState = .orderBy ∧ isAscWord word then
      if word.getLast? = some ',' then
        -- fi--; f[fi] = ','; f[fi+1] = ' '; fi += 2
        if σ.f.length = 0 then .panic
        else if σ.f.length + 1 > cap then .panic
        else fin { σ with cpFrom := qi, f := σ.f.dropLast ++ [',', ' '] }
      else fin { σ with cpFrom := qi }
    else if σ.prevWord = kwKey ∧ word = kwUpdate then fin { σ with sqlState := .onDupeKeyUpdate }
    else fin σ

/-- `numberNext := qi+1 < len(q) && q[qi+1] >= '0' && q[qi+1] <= '9'`. -/
def numberNext (q : List Char) (qi : Int) : Bool :=
  match q[(qi + 1).toNat]? with
  | some c => isDigit c
  | none => false

/-- Part 2 of the loop body ("Change state based on rune and current state"),
    followed by part 3. -/
def part2 (q : List Char) (cap : Nat) (qi : Int) (σ : St) (r : Char) : StepR :=
  if isDigit r then
    match σ.s with
    | .opOrNumber => part3 q cap { σ with cpTo := qi - 1, s := .inNumber } r
    | .inOp => part3 q cap { σ with cpTo := qi, s := .inNumber } r
    | .inWord =>
      if σ.pr = '(' then part3 q cap { σ with cpTo := qi, s := .inNumber } r
      else if σ.pr = ',' then part3 q cap { σ with cpTo := qi, s := .inNumber } r
      else if replaceNumbersInWords then part3 q cap { σ with cpTo := qi, s := .inNumberInWord } r
      else part3 q cap σ r
    | _ => part3 q cap { σ with cpTo := qi, s := .inNumber } r
  else if isSpace r then
    if σ.s = .unknown then
      if σ.f.length > 0 ∧ (σ.f.getLast?.map isSpace) ≠ some true then
        match push cap σ.f ' ' with
        | none => .panic
        | some f1 => part3 q cap { σ with f := f1, cpFrom := qi + 1 } r
      else if σ.cpFrom = qi then part3 q cap { σ with cpFrom := qi + 1 } r
      else part3 q cap σ r
    else if σ.s = .inDash then
      if σ.cpTo > 2 then part3 q cap { σ with s := .inOLC, cpTo := qi - 2, addSpace := true } r
      else part3 q cap { σ with s := .inOLC } r
    else if σ.s = .moreValuesOrUnknown then
      if σ.f.length > 0 ∧ (σ.f.getLast?.map isSpace) ≠ some true then
        match push cap σ.f ' ' with
        | none => .panic
        | some f1 => part3 q cap { σ with f := f1 } r
      else part3 q cap σ r
    else wordEnd q cap qi σ r
  else if r = '\'' ∨ r = '"' then
    if σ.pr ≠ '\\' then
      -- `s != inQuote` always holds here
      if σ.pr = 'x' ∨ σ.pr = 'b' then part3 q cap { σ with s := .inQuote, quoteChar := r, cpTo := qi - 1 } r
      else part3 q cap { σ with s := .inQuote, quoteChar := r, cpTo := qi } r
    else part3 q cap σ r
  else if r = '=' ∨ r = '<' ∨ r = '>' ∨ r = '!' then
    if σ.s ≠ .inWord ∧ σ.s ≠ .inOp then part3 q cap { σ with cpFrom := qi, s := .inOp } r
    else part3 q cap { σ with s := .inOp } r
  else if r = '/' then part3 q cap { σ with s := .divOrMLC } r
  else if r = '*' ∧ σ.s = .divOrMLC then part3 q cap { σ with s := .mlcOrMySQLCode } r
  else if r = '+' then part3 q cap { σ with s := .opOrNumber } r
  else if r = '-' then
    if σ.pr = '-' then part3 q cap { σ with s := .inDash } r
    else part3 q cap { σ with s := .opOrNumber } r
  else if r = '.' then
    if σ.s = .inNumber ∨ σ.s = .inOp ∨
        (numberNext q qi = true ∧ (σ.s = .inSpace ∨ σ.s = .unknown ∨ (σ.s = .inWord ∧ (σ.pr = '(' ∨ σ.pr = ',')))) then
      part3 q cap { σ with s := .inNumber, cpTo := qi } r
    else part3 q cap σ r
  else if r = '(' then
    if σ.prevWord = kwCall then
      match slice? q σ.cpFrom qi with
      | none => .panic
      | some w => .ret (kwCallSp ++ w)
    else
      -- sqlState != onDupeKeyUpdate && (((s == inSpace || s == moreValuesOrUnknown) && prevWord ∈ …) || wordIn(q[cpFrom:qi], …))
      let valuesBegin : Option Bool :=
        if σ.sqlState = .onDupeKeyUpdate then some false
        else if (σ.s = .inSpace ∨ σ.s = .moreValuesOrUnknown) ∧
            (σ.prevWord = kwValue ∨ σ.prevWord = kwValues ∨ σ.prevWord = kwIn) then some true
        else (slice? q σ.cpFrom qi).map isValuesWord
      match valuesBegin with
      | none => .panic
      | some true =>
        part3 q cap { σ with s := .inValues, sqlState := .inValues, parOpen := 1, firstPar := qi,
                             cpTo := if σ.valueNo = 0 then qi else σ.cpTo } r
      | some false =>
        if σ.s ≠ .inWord then part3 q cap { σ with valueNo := 0, cpFrom := qi, s := .inWord } r
        else part3 q cap σ r
  else if r = ',' ∧ σ.s = .moreValuesOrUnknown then part3 q cap σ r
  else if r = ':' ∧ σ.prevWord = kwAdministrator then
    -- return orig
    .orig
  else if r = '#' then part3 q cap { σ with s := .inOLC } r
  else
    if σ.s ≠ .inWord ∧ σ.s ≠ .inOp then
      part3 q cap { σ with valueNo := 0, cpFrom := qi, s := .inWord,
                           sqlState := if σ.sqlState = .inValues then .unknown else σ.sqlState } r
    else part3 q cap { σ with s := .inWord } r

/-- Is `r` one of the characters that keep the `inNumber` state
    (`[0-9a-fA-F.x-]`)? -/
def isNumberChar (r : Char) : Bool :=
  isDigit r || decide ('a' ≤ r ∧ r ≤ 'f') || decide ('A' ≤ r ∧ r ≤ 'F') || r = '.' || r = 'x' || r = '-'

/-- `(r >= 'g' && r <= 'z') || (r >= 'G' && r <= 'Z') || r == '_'`. -/
def isNotNumberChar (r : Char) : Bool :=
  decide ('g' ≤ r ∧ r ≤ 'z') || decide ('G' ≤ r ∧ r ≤ 'Z') || r = '_'

/-- One iteration of `for qi, r := range q`: part 1 ("Skip parts of the query
    for certain states") and, unless it `continue`s, parts 2 and 3. -/
def step (q : List Char) (cap : Nat) (qi : Int) (σ : St) (r : Char) : StepR :=
  match σ.s with
  | .inQuote =>
    if r ≠ σ.quoteChar then
      if σ.escape then .next { σ with escape := false }
      else if r = '\\' then .next { σ with escape := true }
      else .next σ
    else if σ.escape then .next { σ with escape := false }
    else if q[(qi + 1).toNat]? = some σ.quoteChar then
      -- qi+1 < len(q) && rune(q[qi+1]) == quoteChar: a doubled quote character
      .next { σ with escape := true }
    else if σ.sqlState = .inValues then
      .next { σ with escape := false, cpFrom := qi + 1, s := .inValues }
    else
      match push cap σ.f '?' with
      | none => .panic
      | some f1 => .next { σ with escape := false, cpFrom := qi + 1, f := f1, s := .unknown }
  | .inNumberInWord =>
    if isDigit r then .next σ
    else
      match push cap σ.f '?' with
      | none => .panic
      | some f1 =>
        part2 q cap qi { σ with f := f1, cpFrom := qi, s := if isSpace r then .unknown else .inWord } r
  | .inNumber =>
    if isNumberChar r then .next σ
    else if r = '+' ∧ qi - 1 < 0 then .panic   -- q[qi-1] (never: the number began at an earlier rune)
    else if r = '+' ∧ (q[(qi - 1).toNat]? = some 'e' ∨ q[(qi - 1).toNat]? = some 'E') then .next σ
    else if isNotNumberChar r then part2 q cap qi { σ with cpTo := qi, s := .inWord } r
    else
      match push cap σ.f '?' with
      | none => .panic
      | some f1 => part2 q cap qi { σ with f := f1, cpFrom := qi, cpTo := qi, s := .unknown } r
  | .inValues =>
    if (r = '\'' ∨ r = '"') then .next { σ with s := .inQuote, quoteChar := r }
    else if r ≠ ')' ∧ r ≠ '(' ∧ isSpace r then .next σ
    else
      let σ1 : St :=
        if r = ')' then { σ with parOpen := σ.parOpen - 1, parOpenTotal := σ.parOpenTotal + 1 }
        else if r = '(' then
          { σ with parOpen := σ.parOpen + 1, firstPar := if σ.parOpen + 1 = 1 then qi else σ.firstPar }
        else σ
      if σ1.parOpen > 0 then .next σ1
      else if σ1.parOpenTotal = 0 then
        -- not a value list: go on with this rune as after any other word
        if σ1.cpFrom < qi then
          match push cap σ1.f ' ' with
          | none => .panic
          | some f1 => part2 q cap qi { σ1 with f := f1, s := .inSpace, cpFrom := qi, sqlState := .unknown } r
        else part2 q cap qi { σ1 with s := .inWord, cpFrom := qi, sqlState := .unknown } r
      else
        let vn := σ1.valueNo + 1
        let fin (f' : List Char) (fp : Int) : StepR :=
          .next { σ1 with valueNo := vn, f := f', firstPar := fp, s := .moreValuesOrUnknown, pr := r,
                          cpFrom := qi + 1, parOpenTotal := 0 }
        if vn = 1 then
          if qi - σ1.firstPar > 1 then
            match pushAll cap σ1.f ['(', '?', '+', ')'] with
            | none => .panic
            | some f1 => fin f1 0
          else
            match pushAll cap σ1.f ['(', ')'] with
            | none => .panic
            | some f1 => fin f1 0
        else fin σ1.f σ1.firstPar
  | .inMLC =>
    if σ.pr = '*' ∧ r = '/' then .next { σ with s := .unknown, cpFrom := qi + 1, pr := r }
    else .next { σ with pr := r }
  | .mlcOrMySQLCode =>
    if r ≠ '!' then .next { σ with s := .inMLC, pr := r }
    else part2 q cap qi { σ with s := .inWord } r
  | .inOLC =>
    if r = '\n' then .next { σ with s := .unknown, cpFrom := qi + 1, pr := r, addSpace := false } else .next σ
  | _ =>
    if isSpace r ∧ isSpace σ.pr then .next { σ with cpFrom := qi + 1, pr := r }
    else part2 q cap qi σ r

/-- "Remove trailing spaces." -/
def trimTrailing (f : List Char) : List Char :=
  (f.reverse.dropWhile isSpace).reverse

/-- The loop over the runes of `q` from offset `qi`, then the final trim. -/
def run (q : List Char) (cap : Nat) : Nat → St → List Char → Out
  | _, σ, [] => .ret (trimTrailing σ.f)
  | qi, σ, r :: rs =>
    match step q cap qi σ r with
    | .next σ' => run q cap (qi + 1) σ' rs
    | .ret s => .ret s
    | .panic => .panic
    | .orig => .orig

/-! ### `blankComments` -/

/-- Where `blankComments` is in the text: the variables `comment`, `body`,
    `quote`, `escape` of the Go function (`mlcOpen`: `comment == inMLC` at the
    `*` of the opening `/*`, i.e. `i < body`; `mlc prevStar`: `comment == inMLC`
    and `i ≥ body`, `prevStar` = `i > body && q[i-1] == '*'`). -/
inductive BMode where
  | code
  | quote (c : Char) (esc : Bool)
  | mlcOpen
  | mlc (prevStar : Bool)
  | olc
  deriving DecidableEq, Repr, Inhabited

/-- `strings.HasPrefix(q[i+1:], "*") && !strings.HasPrefix(q[i+2:], "!")` on the text after `/`. -/
def startsMlc (rest : List Char) : Bool :=
  match rest with
  | '*' :: r2 => !(r2.head? = some '!')
  | _ => false

/-- `strings.HasPrefix(q[i+1:], "-") && (i+2 == len(q) || isSpace(rune(q[i+2])))` on the text after `-`. -/
def startsDash (rest : List Char) : Bool :=
  match rest with
  | '-' :: [] => true
  | '-' :: c :: _ => isSpace c
  | _ => false

/-- The loop of `blankComments`, one byte per iteration. -/
def blankGo : BMode → List Char → List Char
  | _, [] => []
  | .mlcOpen, _ :: rest => ' ' :: blankGo (.mlc false) rest
  | .mlc ps, c :: rest => ' ' :: blankGo (if c = '/' ∧ ps = true then .code else .mlc (c = '*')) rest
  | .olc, c :: rest => if c = '\n' then c :: blankGo .code rest else ' ' :: blankGo .olc rest
  | .quote qc esc, c :: rest =>
    c :: blankGo (if esc then .quote qc false else if c = '\\' then .quote qc true
                  else if c = qc then .code else .quote qc false) rest
  | .code, c :: rest =>
    if c = '\'' ∨ c = '"' then c :: blankGo (.quote c false) rest
    else if c = '/' ∧ startsMlc rest = true then ' ' :: blankGo .mlcOpen rest
    else if c = '#' ∨ (c = '-' ∧ startsDash rest = true) then ' ' :: blankGo .olc rest
    else c :: blankGo .code rest

/-- `blankComments(q)`. -/
def blankComments (q : List Char) : List Char := blankGo .code q

/-- `GetFingerprint(q)`. -/
def getFingerprint (q0 : List Char) : Out :=
  let q := blankComments q0 ++ [' ']
  match run q (2 * q.length + 1) 0 {} q with
  | .orig => .ret q0
  | o => o

/-! ### The namespace blacklist (proxy/server/namespace.go) -/

/-- `strings.TrimSpace` on ASCII text (`\t \n \v \f \r` and space). -/
def isTrimSpace (c : Char) : Bool :=
  c = ' ' || c = '\t' || c = '\n' || c = Char.ofNat 11 || c = Char.ofNat 12 || c = '\r'

def trimSpace (s : List Char) : List Char :=
  ((s.dropWhile isTrimSpace).reverse.dropWhile isTrimSpace).reverse

/-- `parseBlackSqls`: the key set of the map `md5(fingerprint) ↦ fingerprint`
    (`md5` is a parameter: `mysql.GetMd5`); `none` = a panic while
    fingerprinting an entry. -/
def parseBlackSqls (md5 : List Char → List Char) : List (List Char) → Option (List (List Char × List Char))
  | [] => some []
  | sql :: rest =>
    let t := trimSpace sql
    if t.length = 0 then parseBlackSqls md5 rest
    else
      match getFingerprint t with
      | .ret fp => (parseBlackSqls md5 rest).map fun m => (md5 fp, fp) :: m
      | _ => none

/-- `Namespace.IsSQLAllowed` with a fresh request context. -/
def isSQLAllowed (md5 : List Char → List Char) (sqls : List (List Char × List Char)) (sql : List Char) :
    Option Bool :=
  if sqls.length = 0 then some true
  else
    match getFingerprint sql with
    | .ret fp => some (!(sqls.any fun e => e.1 = md5 fp))
    | _ => none

end GaeaVerif.Fingerprint
