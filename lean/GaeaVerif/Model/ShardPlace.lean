import GaeaVerif.Model.ShardGo
/-
  Model of key placement in /repo/proxy/router: the `Shard` implementations of
  shard.go (range, year, month, day), shard_mycat.go (mycat_mod, mycat_long,
  mycat_string, mycat_murmur), util/murmur.go, the configuration parsers of
  numkey.go (`ParseNumSharding`, `ParseYearRange`, `ParseMonthRange`,
  `ParseDayRange`) and the part of rule.go that builds a rule from its
  configuration (`parseRuleSliceInfos` and the `parse…RuleSliceInfos` helpers).
  Properties C08 and C09; meant to be imported by models of the planner.

  Conventions.  Go `int`/`int64` are `Int` (values that can wrap go through
  `wrap64` or live in `BitVec 64`/`BitVec 32`); a Go `string` is `GoStr` (bytes).
  Every index, slice and `make` that can fail at run time has the explicit
  outcome `Out.panic`; a returned `error` is `Out.err kind`; the deliberate
  `panic(KeyError…)` of `NumValue`/`GetString` is `Out.err .keyPanic`
  (callers recover it into an error), so `Out.panic` is always a Go run-time
  error.  `time.Unix(v,0)` in the process's zone and the Gregorian calendar of
  package time are not transliterated: the date rules take the function
  `civilOf : Int → Civil` as a parameter, and `ParseDayRange` uses the calendar
  functions `isLeap`/`daysIn`/`nextDay`/`daysBeforeYear` below.

  Core Lean only.
-/
namespace GaeaVerif.ShardPlace
open GaeaVerif.ShardGo

/-! ### outcomes and keys -/

/-- Kinds of `error` returned by the placement code. -/
inductive ErrKind where
  | keyOutOfRange     -- errors.ErrKeyOutOfRange
  | invalidDate       -- NewInvalidDateFormatKeyError
  | keyType           -- returned KeyError "Unexpected key variable type"
  | emptyRing         -- "bucket map is empty"
  | keyPanic          -- panic(KeyError …): not a number / unexpected key type
  | config            -- any error returned while building a rule
  deriving Repr, DecidableEq

/-- Outcome of a modelled function: value, returned error, Go run-time panic. -/
inductive Out (α : Type) where
  | ok (a : α)
  | err (k : ErrKind)
  | panic
  deriving Repr, DecidableEq

namespace Out
@[inline] def bind {α β : Type} (x : Out α) (f : α → Out β) : Out β :=
  match x with
  | ok a => f a
  | err k => err k
  | panic => panic

instance : Monad Out where
  pure := ok
  bind := bind

@[simp] theorem bind_ok {α β : Type} (a : α) (f : α → Out β) : (ok a >>= f) = f a := rfl
@[simp] theorem bind_err {α β : Type} (k : ErrKind) (f : α → Out β) : ((err k : Out α) >>= f) = err k := rfl
@[simp] theorem bind_panic {α β : Type} (f : α → Out β) : ((panic : Out α) >>= f) = panic := rfl
@[simp] theorem pure_eq {α : Type} (a : α) : (pure a : Out α) = ok a := rfl
end Out

/-- A sharding key as `FindTableIndex(key interface{})` receives it. -/
inductive Key where
  | int (v : Int)        -- Go int
  | int64 (v : Int)
  | uint64 (v : Nat)
  | str (s : GoStr)
  | bytes (s : GoStr)    -- []byte
  | other                -- any other dynamic type (float64, …)
  deriving Repr, DecidableEq

/-- `NumValue` (shard.go): the key as an int64; panics with a KeyError for a
    string that `strconv.ParseInt` rejects and for other types. -/
def NumValue : Key → Out Int
  | .int v => .ok v
  | .uint64 v => .ok (u64ToI64 v)
  | .int64 v => .ok v
  | .str s => match parseInt64 s with
    | some v => .ok v
    | none => .err .keyPanic
  | .bytes s => match parseInt64 s with
    | some v => .ok v
    | none => .err .keyPanic
  | .other => .err .keyPanic

/-- `GetString` (shard.go). -/
def GetString : Key → Out GoStr
  | .int v => .ok (fmtInt v)
  | .int64 v => .ok (fmtInt v)
  | .uint64 v => .ok (fmtNat v)
  | .str s => .ok s
  | .bytes s => .ok s
  | .other => .err .keyPanic

/-! ### Go arrays and loops -/

/-- `a[i]`. -/
def arrGet (a : List Int) (i : Int) : Out Int :=
  if 0 ≤ i ∧ i < a.length then .ok (a.getD i.toNat 0) else .panic

/-- `a[i] = v`. -/
def arrSet (a : List Int) (i v : Int) : Out (List Int) :=
  if 0 ≤ i ∧ i < a.length then .ok (a.set i.toNat v) else .panic

/-- `for k := lo; k < lo+n; k++ { s = body(k, s) }`, stopping at a panic or error. -/
def forRange {σ : Type} (lo : Nat) : Nat → (Nat → σ → Out σ) → σ → Out σ
  | 0, _, s => .ok s
  | n + 1, body, s =>
    match body lo s with
    | .ok s' => forRange (lo + 1) n body s'
    | .err k => .err k
    | .panic => .panic

def sumInts (l : List Int) : Int := l.foldl (· + ·) 0

/-! ### mycat_mod: `MycatPartitionModShard` -/

/-- `MycatPartitionModShard.FindForKey`: `|key| mod ShardNum` on the full
    integer (big.Int); `Mod` by zero is a run-time panic. -/
def MycatPartitionModShard.FindForKey (shardNum : Int) (key : Key) : Out Int :=
  match GetString key with
  | .ok s =>
    match parseBigDec s with
    | none => .err .keyPanic
    | some n => if shardNum = 0 then .panic else .ok ((n.natAbs : Int) % shardNum)
  | .err k => .err k
  | .panic => .panic

/-! ### mycat_long: `MycatPartitionLongShard` -/

/-- `PartitionLength`. -/
def PartitionLength : Int := 1024
/-- `andValue`. -/
def andValue : Int := PartitionLength - 1

/-- `toIntArray`: blanks removed, split at commas, every field through Atoi. -/
def toIntArray (str : GoStr) : Out (List Int) :=
  (splitOn 44 (removeSpaces str)).foldr
    (fun f acc => match parseInt64 f, acc with
      | some n, .ok l => .ok (n :: l)
      | none, .ok _ => .err .config
      | _, e => e) (.ok [])

/-- The loops of `MycatPartitionLongShard.Init` that fill `ai`:
    `ai[index+1] = ai[index] + lengthList[i]; index++`, `countList[i]` times for every `i`. -/
def initAi (countList lengthList : List Int) (ai0 : List Int) : Out (List Int × Int) :=
  forRange 0 countList.length (fun i st =>
    forRange 0 (countList.getD i 0).toNat (fun _ st =>
      match arrGet st.1 st.2, arrGet lengthList i with
      | .ok prev, .ok l =>
        match arrSet st.1 (st.2 + 1) (prev + l) with
        | .ok ai' => .ok (ai', st.2 + 1)
        | _ => .panic
      | _, _ => .panic) st) (ai0, 0)

/-- The loops that fill `segment`: `for i := 1; i < len(ai); i++ { for j := ai[i-1]; j < ai[i]; j++ { segment[j] = i-1 } }`. -/
def initSegment (ai : List Int) (segment0 : List Int) : Out (List Int) :=
  forRange 1 (ai.length - 1) (fun i seg =>
    match arrGet ai ((i : Int) - 1), arrGet ai i with
    | .ok lo, .ok hi =>
      forRange 0 (hi - lo).toNat (fun k seg => arrSet seg (lo + k) ((i : Int) - 1)) seg
    | _, _ => .panic) segment0

/-- `MycatPartitionLongShard.Init` after the two `toIntArray` calls. -/
def MycatPartitionLongShard.initLists (shardNum : Int) (countList lengthList : List Int) : Out (List Int) :=
  if countList.length ≠ lengthList.length then .err .config else
  let segmentLength := sumInts countList
  if segmentLength ≠ shardNum then .err .config else
  if segmentLength + 1 < 0 then .panic else   -- make([]int, segmentLength+1)
  match initAi countList lengthList (List.replicate (segmentLength + 1).toNat 0) with
  | .ok (ai, _) =>
    match arrGet ai ((ai.length : Int) - 1) with
    | .ok last =>
      if last ≠ PartitionLength then .err .config
      else initSegment ai (List.replicate PartitionLength.toNat 0)
    | _ => .panic
  | .err k => .err k
  | .panic => .panic

/-- `MycatPartitionLongShard.Init`: the `segment` table (1024 entries). -/
def MycatPartitionLongShard.Init (shardNum : Int) (countStr lengthStr : GoStr) : Out (List Int) :=
  match toIntArray countStr with
  | .ok countList =>
    match toIntArray lengthStr with
    | .ok lengthList => MycatPartitionLongShard.initLists shardNum countList lengthList
    | .err k => .err k
    | .panic => .panic
  | .err k => .err k
  | .panic => .panic

/-- `int(h) & andValue` for an int64 `h`: its ten low bits. -/
def slotOf (h : Int) : Int := h % 1024

/-- `MycatPartitionLongShard.FindForKey`. -/
def MycatPartitionLongShard.FindForKey (segment : List Int) (key : Key) : Out Int :=
  match NumValue key with
  | .ok h => arrGet segment (slotOf h)
  | .err k => .err k
  | .panic => .panic

/-! ### mycat_string: `MycatPartitionStringShard` -/

/-- `parseHashSliceValue`. -/
def parseHashSliceValue (s : GoStr) : Option Int := if s = [] then some 0 else parseInt64 s

/-- `parseHashSliceStartEnd`. -/
def parseHashSliceStartEnd (hashSliceStr : GoStr) : Out (Int × Int) :=
  match splitOn 58 (trimSpace hashSliceStr) with
  | [a] =>
    match parseInt64 a with
    | some v => if v ≥ 0 then .ok (0, v) else .ok (v, 0)
    | none => .err .config
  | [a, b] =>
    match parseHashSliceValue a, parseHashSliceValue b with
    | some s, some e => .ok (s, e)
    | _, _ => .err .config
  | _ => .err .config

/-- The loop of `stringHash`: `for i := start; i < end; i++ { h = (h << 5) - h + int64(input[i]) }`
    on int64 (`n` = number of iterations left). -/
def stringHashLoop (input : List Nat) : Nat → Int → BitVec 64 → Out (BitVec 64)
  | 0, _, h => .ok h
  | n + 1, i, h =>
    if 0 ≤ i ∧ i < input.length then
      stringHashLoop input n (i + 1) ((h <<< 5) - h + BitVec.ofNat 64 (input.getD i.toNat 0))
    else .panic

/-- `stringHash(input, start, end)` on the UTF-16 code units of the key. -/
def stringHash (input : List Nat) (start end_ : Int) : Out (BitVec 64) :=
  let start := if start < 0 then 0 else start
  let end_ := if end_ > input.length then (input.length : Int) else end_
  stringHashLoop input (end_ - start).toNat start 0

/-- `MycatPartitionStringShard.FindForKey`. -/
def MycatPartitionStringShard.FindForKey (segment : List Int) (hashSliceStart hashSliceEnd : Int)
    (key : Key) : Out Int :=
  match GetString key with
  | .ok keyStr =>
    let input := utf16Units keyStr
    let start := if hashSliceStart ≥ 0 then hashSliceStart else (input.length : Int) + hashSliceStart
    let end_ := if hashSliceEnd > 0 then hashSliceEnd else (input.length : Int) + hashSliceEnd
    match stringHash input start end_ with
    | .ok h => arrGet segment (slotOf h.toInt)
    | .err k => .err k
    | .panic => .panic
  | .err k => .err k
  | .panic => .panic

/-! ### util/murmur.go -/

/-- `c1`, `c2` as the int64 constants the products are computed with. -/
def murmurC1 : BitVec 64 := 0xcc9e2d51#64
def murmurC2 : BitVec 64 := 0x1b873593#64

/-- `rotateLeft(i, distance)`: `uint32(i)<<d | uint32(i)>>(32-d)`. -/
def rotateLeft (i : BitVec 32) (distance : Nat) : BitVec 32 :=
  (i <<< distance) ||| (i >>> (32 - distance))

/-- `mixK1`: both products are formed in int64 and truncated to int32. -/
def mixK1 (k1 : BitVec 32) : BitVec 32 :=
  let k1 := ((k1.signExtend 64) * murmurC1).setWidth 32
  let k1 := rotateLeft k1 15
  ((k1.signExtend 64) * murmurC2).setWidth 32

/-- `mixH1`. -/
def mixH1 (h1 k1 : BitVec 32) : BitVec 32 :=
  let h1 := h1 ^^^ k1
  let h1 := rotateLeft h1 13
  ((h1.signExtend 64) * 5#64 + 0xe6546b64#64).setWidth 32

/-- `fmix` (on uint32). -/
def fmix (h1 length : BitVec 32) : BitVec 32 :=
  let h := h1 ^^^ length
  let h := h ^^^ (h >>> 16)
  let h := h * 0x85ebca6b#32
  let h := h ^^^ (h >>> 13)
  let h := h * 0xc2b2ae35#32
  h ^^^ (h >>> 16)

/-- The pair loop and the tail of `HashUnencodedChars` over the code units. -/
def murmurBody : List Nat → BitVec 32 → BitVec 32
  | u0 :: u1 :: rest, h1 =>
    murmurBody rest (mixH1 h1 (mixK1 (BitVec.ofNat 32 u0 ||| (BitVec.ofNat 32 u1 <<< 16))))
  | [u0], h1 => h1 ^^^ mixK1 (BitVec.ofNat 32 u0)
  | [], h1 => h1

/-- `MurmurHash.HashUnencodedChars`: a Go `int` holding an int32. -/
def HashUnencodedChars (seed : Int) (inputStr : GoStr) : Int :=
  let input := utf16Units inputStr
  (fmix (murmurBody input (BitVec.ofInt 32 seed)) (BitVec.ofNat 32 (2 * input.length))).toInt

/-! ### mycat_murmur: `MycatPartitionMurmurHashShard` -/

/-- gods `treemap.Put` on a key-sorted association list: replace or insert. -/
def tmPut : List (Int × Int) → Int → Int → List (Int × Int)
  | [], k, v => [(k, v)]
  | (k', v') :: rest, k, v =>
    if k < k' then (k, v) :: (k', v') :: rest
    else if k = k' then (k, v) :: rest
    else (k', v') :: tmPut rest k v

/-- `treemap.Ceiling`: the entry with the smallest key `≥ k`. -/
def tmCeiling : List (Int × Int) → Int → Option (Int × Int)
  | [], _ => none
  | (k', v') :: rest, k => if k ≤ k' then some (k', v') else tmCeiling rest k

/-- `treemap.Min`. -/
def tmMin (m : List (Int × Int)) : Option (Int × Int) := m.head?

def shardPrefix : GoStr := ascii "SHARD-"
def nodeInfix : GoStr := ascii "-NODE-"

/-- Inner loop of `generateBucketMap` for shard `i`: the node name grows by
    `-NODE-n` on every iteration and every prefix is hashed and put. -/
def bucketLoop (seed : Int) (i : Int) : Nat → Nat → GoStr → List (Int × Int) → List (Int × Int)
  | 0, _, _, m => m
  | cnt + 1, n, buf, m =>
    let buf := buf ++ nodeInfix ++ fmtNat n
    bucketLoop seed i cnt (n + 1) buf (tmPut m (HashUnencodedChars seed buf) i)

/-- `generateBucketMap` (every weight is `defaultWeight = 1`). -/
def generateBucketMap (seed : Int) (count virtualBucketTimes : Int) : List (Int × Int) :=
  (List.range count.toNat).foldl
    (fun m (i : Nat) => bucketLoop seed (i : Int) virtualBucketTimes.toNat 0 (shardPrefix ++ fmtNat i) m) []

/-- `NewMycatPartitionMurmurHashShard` + `Init`: seed and ring. -/
def MycatPartitionMurmurHashShard.Init (seedStr vbtStr : GoStr) (count : Int) :
    Out (Int × List (Int × Int)) :=
  match parseInt64 seedStr with
  | none => .err .config
  | some seed =>
    let vbtStr := if vbtStr = [] then ascii "160" else vbtStr
    match parseInt64 vbtStr with
    | none => .err .config
    | some vbt => .ok (seed, generateBucketMap seed count vbt)

/-- `MycatPartitionMurmurHashShard.FindForKey`. -/
def MycatPartitionMurmurHashShard.FindForKey (seed : Int) (bucketMap : List (Int × Int))
    (key : Key) : Out Int :=
  match GetString key with
  | .ok keyStr =>
    let hashKey := HashUnencodedChars seed keyStr
    match tmCeiling bucketMap hashKey with
    | some (_, v) => .ok v
    | none =>
      match tmMin bucketMap with
      | some (_, v) => .ok v
      | none => .err .emptyRing
  | .err k => .err k
  | .panic => .panic

/-! ### range: numkey.go, `NumRangeShard` -/

/-- `MaxNumKey`. -/
def MaxNumKey : Int := 2 ^ 63 - 1

/-- `NumKeyRange.Contains`: the half-open interval `[Start, End)` (before
    e83712b `End == MaxNumKey` was read as an open end). -/
def NumKeyRange.Contains (kr : Int × Int) (i : Int) : Bool :=
  kr.1 ≤ i && i < kr.2

/-- `ParseNumSharding`: `tableCount` ranges `[i*limit, (i+1)*limit)`; the products
    are Go `int` products (wrap-around); a negative `tableCount` makes `make` panic. -/
def ParseNumSharding (locations : List Int) (tableRowLimit : Int) : Out (List (Int × Int)) :=
  let tableCount := sumInts locations
  if tableCount < 0 then .panic else
  .ok ((List.range tableCount.toNat).map fun (i : Nat) =>
    (wrap64 ((i : Int) * tableRowLimit), wrap64 (((i : Int) + 1) * tableRowLimit)))

/-- The loop of `NumRangeShard.FindForKey`. -/
def findRange : List (Int × Int) → Int → Int → Out Int
  | [], _, _ => .err .keyOutOfRange
  | r :: rs, i, v => if NumKeyRange.Contains r v then .ok i else findRange rs (i + 1) v

/-- `NumRangeShard.FindForKey`. -/
def NumRangeShard.FindForKey (shards : List (Int × Int)) (key : Key) : Out Int :=
  match NumValue key with
  | .ok v => findRange shards 0 v
  | .err k => .err k
  | .panic => .panic

/-! ### calendar (package time, not transliterated) -/

/-- A civil date: what `time.Unix(v, 0)` (local zone) or `time.Parse` yields. -/
structure Civil where
  year : Int
  month : Nat
  day : Nat
  deriving Repr, DecidableEq

def isLeap (y : Int) : Bool := y % 4 = 0 && (y % 100 ≠ 0 || y % 400 = 0)

/-- Days in month `m` (1…12) of year `y`. -/
def daysIn (y : Int) (m : Nat) : Nat :=
  if m = 2 then (if isLeap y then 29 else 28)
  else if m = 4 ∨ m = 6 ∨ m = 9 ∨ m = 11 then 30 else 31

/-- A real calendar date. -/
def Civil.valid (c : Civil) : Bool :=
  1 ≤ c.month && c.month ≤ 12 && 1 ≤ c.day && c.day ≤ daysIn c.year c.month

/-- The day after `c` (`t.Add(24*time.Hour)` on a UTC midnight). -/
def nextDay (c : Civil) : Civil :=
  if c.day < daysIn c.year c.month then { c with day := c.day + 1 }
  else if c.month < 12 then { year := c.year, month := c.month + 1, day := 1 }
  else { year := c.year + 1, month := 1, day := 1 }

/-- Days from 0000-01-01 to the first day of year `y ≥ 0`. -/
def daysBeforeYear (y : Nat) : Nat := 365 * y + (y + 3) / 4 - (y + 99) / 100 + (y + 399) / 400

/-- Days from the first day of the year to the first day of month `m`. -/
def daysBeforeMonth (y : Int) (m : Nat) : Nat :=
  ((List.range (m - 1)).map fun k => daysIn y (k + 1)).foldl (· + ·) 0

/-- Day number of a date of a year `≥ 0` (0000-01-01 is day 0). -/
def dayNumber (c : Civil) : Nat :=
  daysBeforeYear c.year.toNat + daysBeforeMonth c.year c.month + (c.day - 1)

/-- `t.Format("2006-01-02")` (time's `appendInt(year, 4)`: sign, then at least four digits). -/
def fmtDate (c : Civil) : GoStr :=
  (if c.year < 0 then 45 :: zeroPad 4 (-c.year).toNat else zeroPad 4 c.year.toNat)
    ++ [45] ++ zeroPad 2 c.month ++ [45] ++ zeroPad 2 c.day

/-- `t.Format("20060102")`. -/
def fmtDateCompact (c : Civil) : GoStr :=
  (if c.year < 0 then 45 :: zeroPad 4 (-c.year).toNat else zeroPad 4 c.year.toNat)
    ++ zeroPad 2 c.month ++ zeroPad 2 c.day

/-- `time.Parse("20060102", s)` for an eight-byte `s`: eight digits naming a real date. -/
def timeParseCompact (s : GoStr) : Option Civil :=
  if s.length = 8 ∧ s.all isDigit then
    let c : Civil := { year := digitsVal (s.take 4) 0, month := digitsVal ((s.drop 4).take 2) 0,
                       day := digitsVal (s.drop 6) 0 }
    if c.valid then some c else none
  else none

/-! ### Go string slicing -/

/-- `s[lo:hi]` on a string. -/
def strSlice (s : GoStr) (lo hi : Nat) : Out GoStr :=
  if lo ≤ hi ∧ hi ≤ s.length then .ok ((s.drop lo).take (hi - lo)) else .panic

/-- `atoiDigits` (shard.go): digits only, then Atoi. -/
def atoiDigits (s : GoStr) : Option Int := if s.all isDigit then parseInt64 s else none

/-! ### year / month / day rules: shard.go -/

/-- `DateYearShard.getNumYear` = `FindForKey`. -/
def DateYearShard.FindForKey (civilOf : Int → Civil) : Key → Out Int
  | .int v => .ok (civilOf v).year
  | .uint64 v => .ok (civilOf (u64ToI64 v)).year
  | .int64 v => .ok (civilOf v).year
  | .str val =>
    if val.length < 4 then .err .invalidDate else
    match strSlice val 0 4 with
    | .ok p => match atoiDigits p with
      | some v => .ok v
      | none => .err .invalidDate
    | .err k => .err k
    | .panic => .panic
  | _ => .err .keyType

/-- The timestamp branches of `getNumYearMonth`: format, slice, Atoi. -/
def yearMonthOfUnix (civilOf : Int → Civil) (v : Int) : Out Int :=
  let dateStr := fmtDate (civilOf v)
  -- `len(dateStr) != len(timeFormat)`: a year outside 0000-9999 (ab7347b)
  if dateStr.length ≠ 10 then .err .invalidDate else
  match strSlice dateStr 0 4, strSlice dateStr 5 7 with
  | .ok a, .ok b => match parseInt64 (a ++ b) with
    | some n => .ok n
    | none => .err .invalidDate
  | _, _ => .panic

/-- `DateMonthShard.getNumYearMonth` = `FindForKey`. -/
def DateMonthShard.FindForKey (civilOf : Int → Civil) : Key → Out Int
  | .int v => yearMonthOfUnix civilOf v
  | .uint64 v => yearMonthOfUnix civilOf (u64ToI64 v)
  | .int64 v => yearMonthOfUnix civilOf v
  | .str val =>
    if val.length < 10 then .err .invalidDate else
    match strSlice val 0 4, strSlice val 5 7 with
    | .ok a, .ok b => match atoiDigits (a ++ b) with
      | some n => .ok n
      | none => .err .invalidDate
    | _, _ => .panic
  | _ => .err .keyType

/-- The timestamp branches of `getNumYearMonthDay`. -/
def yearMonthDayOfUnix (civilOf : Int → Civil) (v : Int) : Out Int :=
  let dateStr := fmtDate (civilOf v)
  if dateStr.length ≠ 10 then .err .invalidDate else
  match strSlice dateStr 0 4, strSlice dateStr 5 7, strSlice dateStr 8 10 with
  | .ok a, .ok b, .ok c => match parseInt64 (a ++ b ++ c) with
    | some n => .ok n
    | none => .err .invalidDate
  | _, _, _ => .panic

/-- `DateDayShard.getNumYearMonthDay` = `FindForKey`. -/
def DateDayShard.FindForKey (civilOf : Int → Civil) : Key → Out Int
  | .int v => yearMonthDayOfUnix civilOf v
  | .uint64 v => yearMonthDayOfUnix civilOf (u64ToI64 v)
  | .int64 v => yearMonthDayOfUnix civilOf v
  | .str val =>
    if val.length < 10 then .err .invalidDate else
    match strSlice val 0 4, strSlice val 5 7, strSlice val 8 10 with
    | .ok a, .ok b, .ok c => match atoiDigits (a ++ b ++ c) with
      | some n => .ok n
      | none => .err .invalidDate
    | _, _, _ => .panic
  | _ => .err .keyType

/-! ### date_range parsers: numkey.go -/

/-- `ParseYearRange`. -/
def ParseYearRange (dateRange : GoStr) : Out (List Int) :=
  match splitFirst 45 dateRange with
  | [a] =>
    if a.length ≠ 4 then .err .config else
    match parseInt64 a with
    | some n => .ok [n]
    | none => .err .config
  | [a, b] =>
    let (a, b) := if strLt b a then (b, a) else (a, b)
    match parseInt64 a, parseInt64 b with
    | some beginYear, some endYear =>
      .ok ((List.range (endYear - beginYear + 1).toNat).map fun (i : Nat) => beginYear + (i : Int))
    | _, _ => .err .config
  | _ => .err .config

/-- The loop of `ParseMonthRange`. -/
def monthLoop : Nat → Int → Int → List Int
  | 0, _, _ => []
  | n + 1, beginYear, monthTmp =>
    let (monthTmp, beginYear) :=
      if 12 < monthTmp then (Int.tmod monthTmp 12, beginYear + 1) else (monthTmp, beginYear)
    (beginYear * 100 + monthTmp) :: monthLoop n beginYear (monthTmp + 1)

/-- `ParseMonthRange`. -/
def ParseMonthRange (dateRange : GoStr) : Out (List Int) :=
  match splitFirst 45 dateRange with
  | [a] =>
    if a.length ≠ 6 then .err .config else
    match parseInt64 a with
    | some n => .ok [n]
    | none => .err .config
  | [a, b] =>
    if a.length ≠ 6 ∨ b.length ≠ 6 then .err .config else
    let (a, b) := if strLt b a then (b, a) else (a, b)
    match parseInt64 (a.take 4), parseInt64 (a.drop 4), parseInt64 (b.take 4), parseInt64 (b.drop 4) with
    | some beginYear, some beginMonth, some endYear, some endMonth =>
      let monthCount := (endYear - beginYear) * 12 + endMonth - beginMonth + 1
      .ok (monthLoop monthCount.toNat beginYear beginMonth)
    | _, _, _, _ => .err .config
  | _ => .err .config

/-- `begin.Add(24h*i)` for `i = 0 … n-1`. -/
def dayList : Civil → Nat → List Civil
  | _, 0 => []
  | c, n + 1 => c :: dayList (nextDay c) n

/-- `int(end.Sub(begin).Hours() / 24)`: `Sub` saturates at the largest Duration
    (about 292 years), which leaves 106751 whole days. -/
def daysCount (begin_ end_ : Civil) : Nat := min (dayNumber end_ - dayNumber begin_) 106751

/-- `ParseDayRange`. -/
def ParseDayRange (dateRange : GoStr) : Out (List Int) :=
  match splitFirst 45 dateRange with
  | [a] =>
    if a.length ≠ 8 then .err .config else
    match parseInt64 a with
    | some n => .ok [n]
    | none => .err .config
  | [a, b] =>
    if a.length ≠ 8 ∨ b.length ≠ 8 then .err .config else
    let (a, b) := if strLt b a then (b, a) else (a, b)
    match timeParseCompact a, timeParseCompact b with
    | some begin_, some end_ =>
      (dayList begin_ (daysCount begin_ end_ + 1)).foldr
        (fun c acc => match parseInt64 (fmtDateCompact c), acc with
          | some n, .ok l => .ok (n :: l)
          | none, .ok _ => .err .config
          | _, e => e) (.ok [])
    | _, _ => .err .config
  | _ => .err .config

/-! ### building a rule: rule.go -/

/-- Table index → slice index, later entries overriding earlier ones (a Go map
    filled in this order). -/
abbrev TableToSlice := List (Int × Int)

def ttsKeys (m : TableToSlice) : List Int := (m.map (·.1)).eraseDups

/-- `parseHashRuleSliceInfos`: sub-table indexes and table → slice. -/
def parseHashRuleSliceInfos (locations : List Int) (nSlices : Nat) : Out (List Int × TableToSlice) :=
  if locations.length ≠ nSlices then .err .config else
  let step := fun (st : List Int × TableToSlice × Int) (il : Nat × Int) =>
    let idx := (List.range il.2.toNat).map fun (j : Nat) => (j : Int) + st.2.2
    (st.1 ++ idx, st.2.1 ++ idx.map (fun t => (t, (il.1 : Int))), st.2.2 + il.2)
  let r := ((List.range locations.length).zip locations).foldl step ([], [], 0)
  .ok (r.1, r.2.1)

/-- One iteration of the loop of `parseDateYear/Month/DayRuleSliceInfos` (entry
    number `ir.1`, text `ir.2`); indexing the first element of an empty period
    list is a run-time panic. -/
def dateSliceStep (parse : GoStr → Out (List Int)) (acc : Out (List Int × TableToSlice)) (ir : Nat × GoStr) :
    Out (List Int × TableToSlice) :=
  match acc with
  | .ok (sub, tts) =>
    match parse ir.2 with
    | .ok nums =>
      match sub.getLast?, nums.head? with
      | some last, some first =>
        if first ≤ last then .err .config
        else .ok (sub ++ nums, tts ++ nums.map (fun v => (v, (ir.1 : Int))))
      | some _, none => .panic
      | none, _ => .ok (sub ++ nums, tts ++ nums.map (fun v => (v, (ir.1 : Int))))
    | .err k => .err k
    | .panic => .panic
  | e => e

/-- The common loop of `parseDateYear/Month/DayRuleSliceInfos`. -/
def parseDateRuleSliceInfos (parse : GoStr → Out (List Int)) (dateRange : List GoStr) (nSlices : Nat) :
    Out (List Int × TableToSlice) :=
  if dateRange.length ≠ nSlices then .err .config else
  ((List.range dateRange.length).zip dateRange).foldl (dateSliceStep parse) (.ok ([], []))

/-- The placement part of a rule's configuration (`models.Shard`); `nDatabases`
    is the number of real databases listed for a Mycat rule. -/
structure ShardCfg where
  type : String
  locations : List Int := []
  nSlices : Nat := 0
  dateRange : List GoStr := []
  tableRowLimit : Int := 0
  nDatabases : Nat := 0
  partitionCount : GoStr := []
  partitionLength : GoStr := []
  hashSlice : GoStr := []
  seed : GoStr := []
  virtualBucketTimes : GoStr := []
  deriving Repr

/-- A built `Shard`. -/
inductive Shard where
  | numRange (shards : List (Int × Int))
  | dateYear
  | dateMonth
  | dateDay
  | mycatMod (shardNum : Int)
  | mycatLong (segment : List Int)
  | mycatString (segment : List Int) (hashSliceStart hashSliceEnd : Int)
  | mycatMurmur (seed : Int) (bucketMap : List (Int × Int))
  deriving Repr

/-- What `parseRule` keeps of a rule for placement. -/
structure Rule where
  subTableIndexes : List Int
  tableToSlice : TableToSlice
  shard : Shard
  deriving Repr

/-- `parseMycatHashRuleSliceInfos`. -/
def parseMycatHashRuleSliceInfos (cfg : ShardCfg) : Out (List Int × TableToSlice) :=
  match parseHashRuleSliceInfos cfg.locations cfg.nSlices with
  | .ok (sub, tts) => if (ttsKeys tts).length ≠ cfg.nDatabases then .err .config else .ok (sub, tts)
  | e => e

/-- `parseRuleSliceInfos` for the rule types of C08 and C09. -/
def parseRuleSliceInfos (cfg : ShardCfg) : Out Rule :=
  match cfg.type with
  | "range" =>
    match parseHashRuleSliceInfos cfg.locations cfg.nSlices with
    | .ok (sub, tts) =>
      match ParseNumSharding cfg.locations cfg.tableRowLimit with
      | .ok rs =>
        if rs.length ≠ (ttsKeys tts).length then .err .config
        else .ok { subTableIndexes := sub, tableToSlice := tts, shard := .numRange rs }
      | .err k => .err k
      | .panic => .panic
    | .err k => .err k
    | .panic => .panic
  | "date_day" =>
    match parseDateRuleSliceInfos ParseDayRange cfg.dateRange cfg.nSlices with
    | .ok (sub, tts) => .ok { subTableIndexes := sub, tableToSlice := tts, shard := .dateDay }
    | .err k => .err k
    | .panic => .panic
  | "date_month" =>
    match parseDateRuleSliceInfos ParseMonthRange cfg.dateRange cfg.nSlices with
    | .ok (sub, tts) => .ok { subTableIndexes := sub, tableToSlice := tts, shard := .dateMonth }
    | .err k => .err k
    | .panic => .panic
  | "date_year" =>
    match parseDateRuleSliceInfos ParseYearRange cfg.dateRange cfg.nSlices with
    | .ok (sub, tts) => .ok { subTableIndexes := sub, tableToSlice := tts, shard := .dateYear }
    | .err k => .err k
    | .panic => .panic
  | "mycat_mod" =>
    match parseMycatHashRuleSliceInfos cfg with
    | .ok (sub, tts) =>
      .ok { subTableIndexes := sub, tableToSlice := tts, shard := .mycatMod (ttsKeys tts).length }
    | .err k => .err k
    | .panic => .panic
  | "mycat_long" =>
    match parseMycatHashRuleSliceInfos cfg with
    | .ok (sub, tts) =>
      match MycatPartitionLongShard.Init (ttsKeys tts).length cfg.partitionCount cfg.partitionLength with
      | .ok seg => .ok { subTableIndexes := sub, tableToSlice := tts, shard := .mycatLong seg }
      | .err k => .err k
      | .panic => .panic
    | .err k => .err k
    | .panic => .panic
  | "mycat_string" =>
    match parseMycatHashRuleSliceInfos cfg with
    | .ok (sub, tts) =>
      match MycatPartitionLongShard.Init (ttsKeys tts).length cfg.partitionCount cfg.partitionLength with
      | .ok seg =>
        match parseHashSliceStartEnd cfg.hashSlice with
        | .ok (s, e) => .ok { subTableIndexes := sub, tableToSlice := tts, shard := .mycatString seg s e }
        | .err k => .err k
        | .panic => .panic
      | .err k => .err k
      | .panic => .panic
    | .err k => .err k
    | .panic => .panic
  | "mycat_murmur" =>
    match parseMycatHashRuleSliceInfos cfg with
    | .ok (sub, tts) =>
      match MycatPartitionMurmurHashShard.Init cfg.seed cfg.virtualBucketTimes (ttsKeys tts).length with
      | .ok (seed, ring) =>
        .ok { subTableIndexes := sub, tableToSlice := tts, shard := .mycatMurmur seed ring }
      | .err k => .err k
      | .panic => .panic
    | .err k => .err k
    | .panic => .panic
  | _ => .err .config

/-- `Shard.FindForKey`. -/
def Shard.FindForKey (civilOf : Int → Civil) : Shard → Key → Out Int
  | .numRange shards, key => NumRangeShard.FindForKey shards key
  | .dateYear, key => DateYearShard.FindForKey civilOf key
  | .dateMonth, key => DateMonthShard.FindForKey civilOf key
  | .dateDay, key => DateDayShard.FindForKey civilOf key
  | .mycatMod n, key => MycatPartitionModShard.FindForKey n key
  | .mycatLong seg, key => MycatPartitionLongShard.FindForKey seg key
  | .mycatString seg s e, key => MycatPartitionStringShard.FindForKey seg s e key
  | .mycatMurmur seed ring, key => MycatPartitionMurmurHashShard.FindForKey seed ring key

/-- `BaseRule.FindTableIndex`. -/
def Rule.FindTableIndex (civilOf : Int → Civil) (r : Rule) (key : Key) : Out Int :=
  r.shard.FindForKey civilOf key

/-! ### an executable `civilOf` for the driver -/

/-- Civil date of a day count relative to 1970-01-01 (proleptic Gregorian),
    for any integer; the driver instantiates `civilOf` with it. -/
def civilOfDays (z : Int) : Civil :=
  let z := z + 719468
  let era := z / 146097
  let doe := z % 146097
  let yoe := (doe - doe / 1460 + doe / 36524 - doe / 146096) / 365
  let y := yoe + era * 400
  let doy := doe - (365 * yoe + yoe / 4 - yoe / 100)
  let mp := (5 * doy + 2) / 153
  let d := doy - (153 * mp + 2) / 5 + 1
  let m := if mp < 10 then mp + 3 else mp - 9
  { year := if m ≤ 2 then y + 1 else y, month := m.toNat, day := d.toNat }

/-- `time.Unix(v, 0)` in a zone with a fixed offset of `off` seconds. -/
def civilOfUnix (off : Int) (v : Int) : Civil := civilOfDays ((v + off) / 86400)

end GaeaVerif.ShardPlace
