import GaeaVerif.Model.RwSplitC22
/-
  C22 — executable reference semantics of the property (what the oracle of
  `Drv/C22.lean` evaluates on an observed routing, and what the theorems of
  `Props/C22.lean` are stated against).

  * a *locking read*: the statement, without the white space and comments that
    follow its last token, ends in two words — runs of ASCII letters separated
    from each other and from what precedes by blanks, tabs or line breaks — that
    are, in any letter case, `for update`, `for share`, `share mode`,
    `update|share nowait` or `skip locked` (the ends of FOR UPDATE, FOR SHARE,
    LOCK IN SHARE MODE with NOWAIT / SKIP LOCKED);
  * a *master hint*: the comment `/*master*/`, in any letter case, anywhere in the
    statement outside quotes and other comments;
  * a *read_only probe*: `isReadOnlyProbe` of the model (a SHOW mentioning
    read_only, `@@read_only`, `@@global.read_only`, in any letter case).
  Core Lean only.
-/
namespace GaeaVerif.RwSplit.Spec
open GaeaVerif GaeaVerif.Tok GaeaVerif.FastPath GaeaVerif.RwSplit

/-- Blank, tab, line feed, carriage return. -/
def isWs (c : Char) : Bool := c == ' ' || c == '\t' || c == '\n' || c == '\r'

/-- ASCII letter. -/
def isLetter (c : Char) : Bool := ('a' ≤ c && c ≤ 'z') || ('A' ≤ c && c ≤ 'Z')

/-- The statement ends (before trailing white space and comments) in a lock clause. -/
def lockingRead (sql : Str) : Bool :=
  let r := (trimTrailingComments sql).reverse
  let w2 := r.takeWhile isLetter
  let r1 := r.dropWhile isLetter
  let s2 := r1.takeWhile isWs
  let r2 := r1.dropWhile isWs
  let w1 := r2.takeWhile isLetter
  let r3 := r2.dropWhile isLetter
  !w2.isEmpty && !s2.isEmpty && !w1.isEmpty &&
  (match r3 with | [] => true | c :: _ => isWs c) &&
  isLockPair (toLower w1.reverse) (toLower w2.reverse)

def master : Str := "master".toList

/-- The letter-case variants of a lower-case word. -/
def caseVariants : Str → List Str
  | [] => [[]]
  | c :: cs => (caseVariants cs).flatMap fun v => [c :: v, upperAscii c :: v]

/-- `"*" ++ m ++ "*"`: the token a comment `/*m*/` leaves. -/
def hintWord (m : Str) : Str := '*' :: (m ++ ['*'])

/-- `"/*" ++ m ++ "*/"`. -/
def hintComment (m : Str) : Str := '/' :: (hintWord m ++ ['/'])

/-- The statement carries a master hint: somewhere in it stands the comment
    `/*master*/`, in one of the 64 letter cases, and the text before it ends
    outside quotes and comments (scanner of `TrimTrailingComments`).  A statement
    that begins with a `--` line is read as `parser.Preview` and `Tokenize` read
    it: every line that starts with `--` is a comment line (`stripDashLines`). -/
def hinted (sql : Str) : Bool :=
  let s := stripDashLines sql
  (List.range (s.length + 1)).any fun i =>
    (s.drop i).head? == some '/' &&
    (caseVariants master).any (fun m => (hintComment m).isPrefixOf (s.drop i)) &&
    lexRun .code (s.take i) == .code

/-- Verdict on an observed decision "this statement may run on a replica"
    (the fromSlave flag, or a connection taken from a replica), for a statement
    outside a transaction: `none` = allowed.  Users that are not allowed to write
    are exempt: the proxy pins them to replicas, and which of their statements
    are accepted at all is C21's subject.  `lockDemanded = false` only when
    the harness forced `Namespace.CheckSelectLock` off (a state `NewNamespace`
    never produces). -/
def replicaVerdict (c : Cfg) (lockDemanded : Bool) (stmtType : Nat) (sql : Str) : Option String :=
  if !c.allowWrite then none
  else if stmtType != stmtSelect && stmtType != stmtShow then some "write-on-replica"
  else if !c.isRWSplit then some "non-split-user-on-replica"
  else if lockDemanded && lockingRead sql then some "locking-read-on-replica"
  else if hinted sql then some "hinted-read-on-replica"
  else if isReadOnlyProbe stmtType sql then some "read-only-probe-on-replica"
  else none

end GaeaVerif.RwSplit.Spec
