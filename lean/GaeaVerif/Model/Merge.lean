import GaeaVerif.Model.Go
import GaeaVerif.Model.MergeSql
/-
  Model of the cross-shard SELECT path of the proxy (C02):

  proxy/plan/plan_select.go   HandleSelectStmt (the part after routing: handleGroupBy,
                              handleOrderBy, handleExtraFieldList, handleExtraAggregateFields,
                              checkDistinctAggregates, handleLimit /
                              orderByStartsWithGroupByColumns), createSelectFieldFromByItem,
                              SelectPlan.ExecuteIn, addEmptyAggregateRow
  proxy/plan/decorator_limit.go  NeedRewriteLimitOrCreateRewrite
  proxy/plan/plan.go          newEmptyResultset (number of result fields)
  proxy/plan/merge_result.go  MergeSelectResult, mergeMultiResultSet, removeDistinctRowInResult,
                              buildSelectGroupByResult, buildSelectOnlyResult,
                              buildResultFromResultMap, sortSelectResult, limitSelectResult,
                              trimExtraFields, GenerateSelectResultRowData, generateMapKey,
                              formatValue, ResultRow.GetInt/GetDecimal, the COUNT/SUM/MAX/MIN
                              mergers, CreateAggregateFunctionMerger
  mysql/resultset_sort.go     ResultsetSorter.Less, cmpValue, SortWithoutColumnName

  after the `fix:` commits of C02 (map key re-encoded, DISTINCT after the group
  merge, COUNT/SUM(DISTINCT) rejected across shards, ORDER BY aggregates merged,
  ORDER BY position, LIMIT not pushed below GROUP BY unless the groups are ordered
  by their GROUP BY columns, zero-route aggregate row).

  Go values: `nil`, `int64`, `decimal.Decimal`, `string` (what RowData.ParseText
  produces for BIGINT, DECIMAL and character columns; `uint64`, `float64` and
  `[]byte` columns are outside the model).  A Go map is modelled as an
  association list in insertion order (the real iteration order is arbitrary;
  outputs are compared as the property observes them).  `sort.Sort` is
  modelled as a stable sort; it panics as soon as two rows are compared whose
  comparison panics, and a correct comparison sort compares some such pair
  whenever one exists.

  Core Lean only.
-/
namespace GaeaVerif.Merge

/-! ### formatValue, generateMapKey -/

def digitsOf (n : Nat) : List UInt8 := (Nat.toDigits 10 n).map fun c => UInt8.ofNat c.toNat

def intText (i : Int) : List UInt8 :=
  if i < 0 then 45 :: digitsOf i.natAbs else digitsOf i.natAbs

def padLeft (n : Nat) (l : List UInt8) : List UInt8 := List.replicate (n - l.length) 48 ++ l

/-- `decimal.Decimal.StringFixed(scale)` of the value `u / 10^scale` -/
def decText (u : Int) (scale : Nat) : List UInt8 :=
  let a := u.natAbs
  let sign : List UInt8 := if u < 0 then [45] else []
  if scale = 0 then sign ++ digitsOf a
  else sign ++ digitsOf (a / 10 ^ scale) ++ [46] ++ padLeft scale (digitsOf (a % 10 ^ scale))

/-- `formatValue` -/
def formatValue : Val → List UInt8
  | .null => [78, 85, 76, 76]
  | .int i => intText i
  | .dec u s => decText u s
  | .str b => b

/-- the key bytes of one column: tag byte, 8-byte little-endian length and text -/
def encKey : Val → List UInt8
  | .null => [0]
  | v => 1 :: (leBytes (formatValue v).length 8 ++ formatValue v)

/-- `generateMapKey` -/
def generateMapKey (vs : List Val) : List UInt8 := vs.flatMap encKey

/-! ### cmpValue, Less -/

/-- `cmpValue`: negative / zero / positive; panics on a decimal and on a failed
    type assertion -/
def cmpValue (v1 v2 : Val) : R Int :=
  match v1, v2 with
  | .null, .null => .ok 0
  | .null, _ => .ok (-1)
  | _, .null => .ok 1
  | .str a, .str b => .ok (if a = b then 0 else if bytesLe a b then -1 else 1)
  | .int a, .int b => .ok (if a < b then -1 else if a > b then 1 else 0)
  | _, _ => .panic

/-- `ResultsetSorter.Less` on two rows; a sort key is (column, DESC) -/
def less : List (Int × Bool) → Row → Row → R Bool
  | [], _, _ => .ok false
  | (c, desc) :: ks, v1, v2 =>
    if c < 0 ∨ c ≥ v1.length ∨ c ≥ v2.length then .panic else
    match cmpValue (v1.getD c.toNat .null) (v2.getD c.toNat .null) with
    | .ok v =>
      let v := if desc then -v else v
      if v < 0 then .ok true else if v > 0 then .ok false else less ks v1 v2
    | .fail => .fail
    | .panic => .panic

def lessB (ks : List (Int × Bool)) (a b : Row) : Bool :=
  match less ks a b with
  | .ok true => true
  | _ => false

/-- some comparison of `a` with a later row does not return -/
def badPairs (ks : List (Int × Bool)) : List Row → Bool
  | [] => false
  | a :: l => l.any (fun b => (less ks a b).isPanic || (less ks b a).isPanic) || badPairs ks l

/-- `Resultset.SortWithoutColumnName` -/
def sortRows (ks : List (Int × Bool)) (rows : List Row) : R (List Row) :=
  if badPairs ks rows then .panic else .ok (rows.mergeSort fun a b => !lessB ks b a)

/-! ### the aggregate mergers -/

/-- `ResultRow.GetInt` -/
def getInt : Val → R Int
  | .null => .ok 0
  | .int i => .ok i
  | .dec u s => .ok (Int.tdiv u (10 ^ s))
  | .str _ => .fail       -- strconv.ParseInt of a character column: outside the model

/-- `ResultRow.GetDecimal` -/
def getDecimal : Val → R (Int × Nat)
  | .null => .ok (0, 0)
  | .int i => .ok (i, 0)
  | .dec u s => .ok (u, s)
  | .str _ => .fail       -- decimal.NewFromString of a character column: outside the model

/-- `decimal.Decimal.Cmp` -/
def decCmp (a b : Int × Nat) : Int :=
  let m := max a.2 b.2
  let x := a.1 * 10 ^ (m - a.2)
  let y := b.1 * 10 ^ (m - b.2)
  if x < y then -1 else if x > y then 1 else 0

def sameType : Val → Val → Bool
  | .null, .null => true
  | .int _, .int _ => true
  | .dec _ _, .dec _ _ => true
  | .str _, .str _ => true
  | _, _ => false

/-- the new value of column `idx` of `to` after `MergeTo(from, to)`, given the
    two old values -/
def mergeVal (k : AggKind) (fromV toV : Val) : R Val :=
  match k with
  | .count => do
    let a ← getInt fromV
    let b ← getInt toV
    pure (.int (b + a))
  | .sum =>
    match fromV, toV with
    | .null, t => .ok t
    | f, .null => .ok f
    | f, .int _ => do          -- sumToInt64
      let a ← getInt f
      let b ← getInt toV
      pure (.int (b + a))
    | f, .dec u s => do        -- sumToDecimal
      let a ← getDecimal f
      let r := decAdd (u, s) a
      pure (.dec r.1 r.2)
    | _, .str _ => .fail       -- sumToDecimal on strings: outside the model
  | .max =>
    match fromV, toV with
    | .null, t => .ok t
    | f, .null => .ok f
    | .int a, .int b => .ok (if a > b then .int a else .int b)
    | .str a, .str b => .ok (if !bytesLe a b then .str a else .str b)
    | .dec u s, .dec u' s' => .ok (if decCmp (u, s) (u', s') > 0 then .dec u s else .dec u' s')
    | _, _ => .fail            -- type mismatch
  | .min =>
    match fromV, toV with
    | .null, t => .ok t
    | f, .null => .ok f
    | .int a, .int b => .ok (if a < b then .int a else .int b)
    | .str a, .str b => .ok (if !bytesLe b a then .str a else .str b)
    | .dec u s, .dec u' s' => .ok (if decCmp (u, s) (u', s') < 0 then .dec u s else .dec u' s')
    | _, _ => .fail

/-- `AggregateFunc…Merger.MergeTo(from, to)` with `fieldIndex = idx` -/
def mergeTo (k : AggKind) (idx : Nat) (fromRow toRow : Row) : R Row :=
  match fromRow[idx]?, toRow[idx]? with
  | some f, some t => do
    let v ← mergeVal k f t
    pure (toRow.set idx v)
  | _, _ => .fail               -- "field index out of bound"

/-- the loop `for _, mfunc := range p.aggregateFuncs { mfunc.MergeTo(from, to) }` -/
def mergeAll : List (Nat × AggKind) → Row → Row → R Row
  | [], _, toRow => .ok toRow
  | (idx, k) :: as, fromRow, toRow =>
    match mergeTo k idx fromRow toRow with
    | .ok t => mergeAll as fromRow t
    | .fail => .fail
    | .panic => .panic

/-! ### the plan -/

/-- what `HandleSelectStmt` leaves in the `SelectPlan` and in the rewritten statement -/
structure Plan where
  shardQ : Query                       -- the per-table statement
  distinct : Bool
  hasGroupBy : Bool                    -- stmt.GroupBy != nil
  groupByColumn : List Int
  orderByColumn : List Int
  orderByDirections : List Bool
  originColumnCount : Nat
  columnCount : Nat
  aggs : List (Nat × AggKind)          -- aggregateFuncs
  offset : Int
  count : Int                          -- -1: no LIMIT
  deriving Repr

/-- `createSelectFieldFromByItem` -/
def byToField : By → Field
  | .name n => { expr := .col n, asName := none }
  | .agg k a d => { expr := .agg k a d, asName := none }
  | .pos n => { expr := .pos n, asName := none }

/-- `selectFields[name]` of `handleExtraFieldList`: the last of the first
    `origin` fields whose alias or column name is `name`.  A selected column
    written `alias.column` has been replaced by a `ColumnNameExprDecorator` by
    `handleFieldList`, fails the `*ast.ColumnNameExpr` type assertion and is
    not entered into the map (`qual`); only its `AS` name is. -/
def selectFieldsLookup (qual : Bool) (fields : List Field) (origin : Nat) (name : Nat) : Option Nat :=
  let idxs := (List.range origin).filter fun i =>
    match fields[i]? with
    | some f => f.asName = some name || (!qual && f.expr = .col name)
    | none => false
  idxs.getLast?

structure ExtraState where
  fields : List Field
  deleteNum : Nat
  cols : List Int                      -- the adjusted column indexes, in order
  deriving Repr

/-- one iteration of the GROUP BY loop of `handleExtraFieldList` (`i`-th item,
    `col = p.groupByColumn[i]` before the adjustment) -/
def extraGroupStep (qual : Bool) (origin : Nat) (st : ExtraState) (i : Nat) (col : Int) : ExtraState :=
  let col := col - st.deleteNum
  let cur := origin + i - st.deleteNum
  match st.fields[cur]? with
  | some ⟨.col name, _⟩ =>
    match selectFieldsLookup qual st.fields origin name with
    | some index => { fields := st.fields.eraseIdx cur, deleteNum := st.deleteNum + 1, cols := st.cols ++ [(index : Int)] }
    | none => { st with cols := st.cols ++ [col] }
  | _ => { st with cols := st.cols ++ [col] }

/-- one iteration of the ORDER BY loop of `handleExtraFieldList` -/
def extraOrderStep (qual : Bool) (origin nGroup : Nat) (hasWildCard : Bool) (st : ExtraState) (i : Nat) (col : Int) : ExtraState :=
  let col := col - st.deleteNum
  let cur := origin + nGroup + i - st.deleteNum
  match st.fields[cur]? with
  | some ⟨.pos n, _⟩ =>
    if !hasWildCard ∧ 1 ≤ n ∧ n ≤ origin then
      { fields := st.fields.eraseIdx cur, deleteNum := st.deleteNum + 1, cols := st.cols ++ [((n - 1 : Nat) : Int)] }
    else { st with cols := st.cols ++ [col] }
  | some ⟨.col name, _⟩ =>
    match selectFieldsLookup qual st.fields origin name with
    | some index => { fields := st.fields.eraseIdx cur, deleteNum := st.deleteNum + 1, cols := st.cols ++ [(index : Int)] }
    | none => { st with cols := st.cols ++ [col] }
  | _ => { st with cols := st.cols ++ [col] }

def foldIdx {σ α : Type} (f : σ → Nat → α → σ) : σ → Nat → List α → σ
  | s, _, [] => s
  | s, i, a :: as => foldIdx f (f s i a) (i + 1) as

/-- `byItemColumnName` (table qualifier and column name; a statement uses one qualifier per
    table, so the column number stands for both) -/
def byItemColumnName : By → Option Nat
  | .name n => some n
  | _ => none

def allNames : List By → Option (List Nat)
  | [] => some []
  | b :: bs =>
    match byItemColumnName b, allNames bs with
    | some n, some ns => some (n :: ns)
    | _, _ => none

/-- the ORDER BY loop of `orderByStartsWithGroupByColumns` -/
def orderCovers (groupCols : List Nat) : List Nat → List By → Bool
  | seen, [] => seen.length == groupCols.length
  | seen, b :: bs =>
    if seen.length == groupCols.length then true
    else match byItemColumnName b with
      | some n => if groupCols.contains n then orderCovers groupCols (if seen.contains n then seen else n :: seen) bs else false
      | none => false

/-- `orderByStartsWithGroupByColumns` -/
def orderByStartsWithGroupByColumns (q : Query) : Bool :=
  match q.groupBy with
  | none => false
  | some g =>
    if q.orderBy.isEmpty then false else
    match allNames g with
    | none => false
    | some names => orderCovers (dedup names) [] (q.orderBy.map (·.1))

def FExpr.isDistinctCountSum : FExpr → Bool
  | .agg .count _ true => true
  | .agg .sum _ true => true
  | _ => false

/-- `CreateAggregateFunctionMerger` for the field at position `i`, if it is an
    aggregate function -/
def aggAt (fields : List Field) (i : Nat) : Option (Nat × AggKind) :=
  match fields[i]? with
  | some ⟨.agg k _ _, _⟩ => some (i, k)
  | _ => none

/-- `HandleSelectStmt` for a statement routed to zero or several sub-tables.
    `fail`: the statement is rejected. -/
def rewrite (q : Query) : R Plan :=
  let origin := q.fields.length
  -- handleFieldList: mergers of the selected aggregate functions
  let aggs0 : List (Nat × AggKind) := (List.range origin).filterMap (aggAt q.fields)
  -- handleGroupBy
  let gItems := q.groupBy.getD []
  let groupCols0 : List Int := (List.range gItems.length).map fun i => ((i + origin : Nat) : Int)
  let fields1 := q.fields ++ gItems.map byToField
  -- handleOrderBy
  let oItems := q.orderBy.map (·.1)
  let orderCols0 : List Int := (List.range oItems.length).map fun i => ((i + fields1.length : Nat) : Int)
  let fields2 := fields1 ++ oItems.map byToField
  -- handleExtraFieldList
  let hasWildCard := (q.fields.any fun f => f.expr = .star)
  let st1 := foldIdx (extraGroupStep q.qualified origin) { fields := fields2, deleteNum := 0, cols := [] } 0 groupCols0
  let st2 := foldIdx (extraOrderStep q.qualified origin gItems.length hasWildCard) { st1 with cols := [] } 0 orderCols0
  let fields := st2.fields
  -- handleExtraAggregateFields
  let aggs1 : List (Nat × AggKind) := (List.range fields.length).filterMap fun i =>
    if i < origin then none else aggAt fields i
  -- checkDistinctAggregates
  if fields.any (fun f => f.expr.isDistinctCountSum) then .fail else
  -- handleLimit
  let (offset, count, shardLimit) : Int × Int × Lim :=
    match q.limit with
    | .none => (-1, -1, .none)
    | .count c => (0, c, .count c)
    | .offCount o c => if o = 0 then (0, c, .offCount 0 c) else (o, c, .count (c + o))
  let shardLimit :=
    if q.limit ≠ .none ∧ q.groupBy.isSome ∧ !orderByStartsWithGroupByColumns q then Lim.none else shardLimit
  .ok { shardQ := { q with fields := fields, limit := shardLimit }
        distinct := q.distinct
        hasGroupBy := q.groupBy.isSome
        groupByColumn := st1.cols
        orderByColumn := st2.cols
        orderByDirections := q.orderBy.map (·.2)
        originColumnCount := origin
        columnCount := fields.length
        aggs := aggs0 ++ aggs1
        offset := offset
        count := count }

/-! ### MergeSelectResult -/

/-- a `mysql.Result`: number of fields and the rows (`Values`) -/
structure Result where
  nfields : Nat
  rows : List Row
  deriving Repr, DecidableEq

/-- `mergeMultiResultSet` -/
def mergeMultiResultSet : List Result → R Result
  | [] => .panic                         -- rs[0] of an empty slice
  | r :: rs =>
    .ok (rs.foldl (fun acc x =>
      { nfields := if x.nfields < acc.nfields then x.nfields else acc.nfields, rows := acc.rows ++ x.rows }) r)

/-- `row[0:n]` (capacity = length) -/
def rowPrefix (row : Row) (n : Int) : R Row :=
  if 0 ≤ n ∧ n ≤ row.length then .ok (row.take n.toNat) else .panic

/-- `row[i]` -/
def rowIdx (row : Row) (i : Int) : R Val :=
  if 0 ≤ i ∧ i < row.length then .ok (row.getD i.toNat .null) else .panic

def delta (p : Plan) (r : Result) : Int := (r.nfields : Int) - (p.columnCount : Int)

/-- `removeDistinctRowInResult`: keeps the first row of every key -/
def removeDistinctRows (colCnt : Int) : List (List UInt8) → List Row → R (List Row)
  | _, [] => .ok []
  | seen, row :: rows =>
    match rowPrefix row colCnt with
    | .ok keySlice =>
      let mk := generateMapKey keySlice
      if seen.contains mk then removeDistinctRows colCnt seen rows
      else match removeDistinctRows colCnt (mk :: seen) rows with
        | .ok rest => .ok (row :: rest)
        | e => e
    | .fail => .fail
    | .panic => .panic

def removeDistinctRowInResult (p : Plan) (r : Result) : R Result :=
  match removeDistinctRows ((p.originColumnCount : Int) + delta p r) [] r.rows with
  | .ok rows => .ok { r with rows := rows }
  | .fail => .fail
  | .panic => .panic

def keySliceOf (cols : List Int) (d : Int) (v : Row) : R (List Val) :=
  match cols with
  | [] => .ok []
  | c :: cs =>
    match rowIdx v (c + d), keySliceOf cs d v with
    | .ok x, .ok xs => .ok (x :: xs)
    | .panic, _ => .panic
    | _, .panic => .panic
    | _, _ => .fail

def mapLookup (k : List UInt8) : List (List UInt8 × Row) → Option Row
  | [] => none
  | (k', v) :: m => if k = k' then some v else mapLookup k m

def mapSet (k : List UInt8) (v : Row) : List (List UInt8 × Row) → List (List UInt8 × Row)
  | [] => [(k, v)]
  | (k', v') :: m => if k = k' then (k, v) :: m else (k', v') :: mapSet k v m

/-- the loop of `buildSelectGroupByResult` -/
def groupLoop (p : Plan) (d : Int) : List (List UInt8 × Row) → List Row → R (List (List UInt8 × Row))
  | m, [] => .ok m
  | m, v :: vs =>
    match keySliceOf p.groupByColumn d v with
    | .ok keySlice =>
      let mk := generateMapKey keySlice
      match mapLookup mk m with
      | none => groupLoop p d (mapSet mk v m) vs
      | some cur =>
        if p.aggs.isEmpty then groupLoop p d m vs
        else match mergeAll p.aggs v cur with
          | .ok merged => groupLoop p d (mapSet mk merged m) vs
          | .fail => .fail
          | .panic => .panic
    | .fail => .fail
    | .panic => .panic

/-- `buildSelectGroupByResult` + `buildResultFromResultMap` -/
def buildSelectGroupByResult (p : Plan) (r : Result) : R Result :=
  match groupLoop p (delta p r) [] r.rows with
  | .ok m => .ok { r with rows := m.map (·.2) }
  | .fail => .fail
  | .panic => .panic

def onlyLoop (aggs : List (Nat × AggKind)) : Row → List Row → R Row
  | cur, [] => .ok cur
  | cur, v :: vs =>
    match mergeAll aggs v cur with
    | .ok t => onlyLoop aggs t vs
    | .fail => .fail
    | .panic => .panic

/-- `buildSelectOnlyResult` -/
def buildSelectOnlyResult (p : Plan) (r : Result) : R Result :=
  if p.aggs.isEmpty then .ok r else
  match r.rows with
  | [] => .ok r
  | v :: vs =>
    match onlyLoop p.aggs v vs with
    | .ok cur => .ok { r with rows := [cur] }
    | .fail => .fail
    | .panic => .panic

/-- `sortSelectResult` -/
def sortSelectResult (p : Plan) (r : Result) : R Result :=
  if p.orderByDirections.isEmpty then .ok r else
  let d := delta p r
  -- `for i := 0; i < len(orderByDirections); i++ { … orderByColumns[i] … }`
  if p.orderByColumn.length < p.orderByDirections.length then .panic else
  let ks := (p.orderByColumn.zip p.orderByDirections).map fun (c, desc) => (c + d, desc)
  match sortRows ks r.rows with
  | .ok rows => .ok { r with rows := rows }
  | .fail => .fail
  | .panic => .panic

/-- `limitSelectResult` -/
def limitSelectResult (p : Plan) (r : Result) : R Result :=
  if p.count = -1 then .ok r else
  let rowLen : Int := r.rows.length
  let e := if p.offset + p.count < rowLen then p.offset + p.count else rowLen
  if p.offset ≥ rowLen then .ok { r with rows := [] }
  else if 0 ≤ p.offset ∧ p.offset ≤ e then .ok { r with rows := (r.rows.drop p.offset.toNat).take (e - p.offset).toNat }
  else .panic

def trimRows (n : Int) : List Row → R (List Row)
  | [] => .ok []
  | row :: rows =>
    match rowPrefix row n, trimRows n rows with
    | .ok a, .ok b => .ok (a :: b)
    | .panic, _ => .panic
    | _, .panic => .panic
    | _, _ => .fail

/-- `trimExtraFields` -/
def trimExtraFields (p : Plan) (r : Result) : R Result :=
  let e : Int := delta p r + p.originColumnCount
  if e = -1 then .ok r else
  if e < 0 ∨ e > r.nfields then .panic else
  match trimRows e r.rows with
  | .ok rows => .ok { nfields := e.toNat, rows := rows }
  | .fail => .fail
  | .panic => .panic

/-- `GenerateSelectResultRowData`: every row has one value per field -/
def generateRowData (r : Result) : R Result :=
  if r.rows.all (fun row => row.length == r.nfields) then .ok r else .fail

/-- `MergeSelectResult` -/
def mergeSelectResult (p : Plan) (rs : List Result) : R Result := do
  let ret ← mergeMultiResultSet rs
  let ret ← if p.hasGroupBy then buildSelectGroupByResult p ret else buildSelectOnlyResult p ret
  let ret ← if p.distinct then removeDistinctRowInResult p ret else pure ret
  let ret ← sortSelectResult p ret
  let ret ← limitSelectResult p ret
  let ret ← trimExtraFields p ret
  generateRowData ret

/-! ### SelectPlan.ExecuteIn -/

/-- the "backend": the answer of one sub-table to a statement (`none`: the
    server rejects the statement) -/
def evalShard (schema : List Ty) (q : Query) (rows : List Row) : Option Result :=
  match compile schema q with
  | none => none
  | some cq => some { nfields := cq.items.length, rows := (evalCQ cq rows).map (·.vis) }

def evalShards (schema : List Ty) (q : Query) : List (List Row) → Option (List Result)
  | [] => some []
  | t :: ts =>
    match evalShard schema q t, evalShards schema q ts with
    | some r, some rs => some (r :: rs)
    | _, _ => none

/-- `addEmptyAggregateRow` on the empty result of `newEmptyResultset` -/
def emptyResult (p : Plan) : R Result :=
  let fieldLen : Int := (p.shardQ.fields.length : Int) - ((p.columnCount : Int) - (p.originColumnCount : Int))
  if fieldLen < 0 then .panic else
  let n := fieldLen.toNat
  let r : Result := { nfields := n, rows := [] }
  if p.hasGroupBy ∨ p.aggs.isEmpty then .ok r else
  let row : Row := (List.range n).map fun i =>
    if p.aggs.any (fun a => a.1 = i ∧ a.2 = .count) then Val.int 0 else Val.null
  do
    let r ← limitSelectResult p { r with rows := [row] }
    generateRowData r

/-- `HandleSelectStmt` (rewriting) + `SelectPlan.ExecuteIn` for a statement routed to no
    or to several sub-tables -/
def executeMulti (schema : List Ty) (q : Query) (tables : List (List Row)) : R Result :=
  match rewrite q with
  | .ok p =>
    if tables.isEmpty then emptyResult p else
    match evalShards schema p.shardQ tables with
    | none => .fail
    | some rs => mergeSelectResult p rs
  | .fail => .fail
  | .panic => .panic

/-- `BuildPlan` + `SelectPlan.ExecuteIn` for a statement whose WHERE has been
    routed to the sub-tables with contents `tables` (one entry per routed
    sub-table, in order). `fail`: an error is returned to the client. -/
def executeIn (schema : List Ty) (q : Query) (tables : List (List Row)) : R Result :=
  match tables with
  | [t] =>
    -- routed to one sub-table: the statement is sent as it is and its answer returned
    match evalShard schema q t with
    | some r => .ok r
    | none => .fail
  | _ => executeMulti schema q tables

end GaeaVerif.Merge
