import GaeaVerif.Model.Go
/-
  Lexical layer shared by C06 and C22: models of

    /repo/parser/analyzer.go   Tokenize, IsSqlSep, GetDBTable, GetInsertDBTable,
                               TrimTrailingComments
    /repo/util/string.go       LowerEqual, HasUpperPrefix
    Go's strings package       TrimSpace, HasPrefix, Split, Join, FieldsFunc,
                               Index, ToLower, EqualFold, Trim, Contains

  A Go string is modelled as the list of its Unicode code points (`Str`); the
  correspondence check therefore only sends valid UTF-8.  Byte lengths
  (`len(s)` in Go) are recovered with `Char.utf8Size`.  Case mapping is modelled
  for ASCII and for the non-ASCII letters whose Go lower case / case folding is
  an ASCII letter (U+0130 → i, U+212A KELVIN SIGN → k, U+017F LONG S ~ s); other
  cased non-ASCII letters are assumed not to occur (see the harness).
  Core Lean only.
-/
namespace GaeaVerif.Tok
open GaeaVerif

abbrev Str := List Char

/-! ### Go's `strings` / `unicode` helpers -/

/-- `unicode.IsSpace`. -/
def isSpace (c : Char) : Bool :=
  c == ' ' || c == '\t' || c == '\n' || c == '\x0b' || c == '\x0c' || c == '\r' ||
  c.val == 0x85 || c.val == 0xA0 || c.val == 0x1680 || (0x2000 ≤ c.val && c.val ≤ 0x200a) ||
  c.val == 0x2028 || c.val == 0x2029 || c.val == 0x202f || c.val == 0x205f || c.val == 0x3000

/-- `strings.TrimRightFunc(s, unicode.IsSpace)`. -/
def trimRight (s : Str) : Str := (s.reverse.dropWhile isSpace).reverse

/-- `strings.TrimSpace`. -/
def trimSpace (s : Str) : Str := trimRight (s.dropWhile isSpace)

/-- `strings.HasPrefix(s, p)`. -/
def hasPrefix (p s : Str) : Bool := p.isPrefixOf s

/-- `strings.Split(s, "\n")`. -/
def splitLines : Str → List Str
  | [] => [[]]
  | c :: cs =>
    if c == '\n' then [] :: splitLines cs
    else match splitLines cs with
      | l :: ls => (c :: l) :: ls
      | [] => [[c]]

/-- `strings.Join(lines, "\n")`. -/
def joinLines (ls : List Str) : Str := List.intercalate ['\n'] ls

/-- `strings.FieldsFunc(s, f)`: the maximal runs of characters not satisfying
    `f`.  `cur` is the run being read, reversed. -/
def fieldsAux (f : Char → Bool) : Str → Str → List Str
  | cur, [] => if cur.isEmpty then [] else [cur.reverse]
  | cur, c :: cs =>
    if f c then
      if cur.isEmpty then fieldsAux f [] cs else cur.reverse :: fieldsAux f [] cs
    else fieldsAux f (c :: cur) cs

def fieldsFunc (f : Char → Bool) (s : Str) : List Str := fieldsAux f [] s

/-- `strings.ToLower` on one rune (see the header for the non-ASCII part). -/
def lowerChar (c : Char) : Char :=
  if 'A' ≤ c ∧ c ≤ 'Z' then Char.ofNat (c.toNat + 32)
  else if c.val == 0x130 then 'i'
  else if c.val == 0x212A then 'k'
  else c

/-- `strings.ToLower`. -/
def toLower (s : Str) : Str := s.map lowerChar

/-- Canonical representative of a rune's simple case-folding orbit. -/
def foldChar (c : Char) : Char :=
  if 'A' ≤ c ∧ c ≤ 'Z' then Char.ofNat (c.toNat + 32)
  else if c.val == 0x17F then 's'
  else if c.val == 0x212A then 'k'
  else c

/-- `strings.EqualFold`. -/
def equalFold (a b : Str) : Bool := a.map foldChar == b.map foldChar

/-- `len(s)` in Go: the number of bytes of the UTF-8 encoding. -/
def byteLen (s : Str) : Nat := (s.map Char.utf8Size).sum

/-- `util.LowerEqual(src, dest)`. -/
def lowerEqual (src dest : Str) : Bool :=
  byteLen src == byteLen dest && toLower src == dest

def upperAscii (c : Char) : Char :=
  if 'a' ≤ c ∧ c ≤ 'z' then Char.ofNat (c.toNat - 32) else c

/-- `util.HasUpperPrefix(src, dest)` for an ASCII `dest`: the first `len(dest)`
    *bytes* of `src` upper-cased equal `dest`; a non-ASCII character among them
    makes the comparison fail (Go's `ToUpper` maps runes to runes, so `len(dest)`
    bytes give `len(dest)` runes only if all of them are ASCII). -/
def hasUpperPrefix (src dest : Str) : Bool :=
  decide (byteLen src ≥ dest.length) &&
  (src.take dest.length).all (fun c => c.val < 0x80) &&
  (src.take dest.length).map upperAscii == dest

/-- `strings.Trim(s, "`")`. -/
def trimBackquote (s : Str) : Str :=
  ((s.dropWhile (· == '`')).reverse.dropWhile (· == '`')).reverse

/-- `strings.Contains(s, sub)`. -/
def containsSub (sub : Str) : Str → Bool
  | [] => sub.isEmpty
  | c :: cs => sub.isPrefixOf (c :: cs) || containsSub sub cs

/-- The part of `s` before the first `sep` and, if there is one, the part after it
    (`strings.SplitN(s, sep, 2)`). -/
def splitFirst (sep : Char) : Str → Str × Option Str
  | [] => ([], none)
  | c :: cs =>
    if c == sep then ([], some cs)
    else let (a, b) := splitFirst sep cs; (c :: a, b)

/-- `strings.Split(s, sep)` for a one-character separator. -/
def splitAll (sep : Char) : Str → List Str
  | [] => [[]]
  | c :: cs =>
    if c == sep then [] :: splitAll sep cs
    else match splitAll sep cs with
      | l :: ls => (c :: l) :: ls
      | [] => [[c]]

/-- `strings.Index(s, "*/")`, as a character index. -/
def indexClose : Str → Option Nat
  | [] => none
  | c :: rest =>
    if c == '*' && rest.head? == some '/' then some 0 else (indexClose rest).map (· + 1)

/-! ### /repo/parser/analyzer.go -/

/-- The separator set of `IsSqlSep` (checked against the source by the
    translator fact `Gen.c06_sqlSeps`). -/
def sqlSeps : List Char := [' ', ',', '\t', '/', '\n', '\r']

/-- `IsSqlSep`. -/
def isSqlSep (c : Char) : Bool := sqlSeps.contains c

def dashDash : Str := ['-', '-']
def versionCommentOpen : Str := ['/', '*', '!']
def blockCommentOpen : Str := ['/', '*']
/-- `"*master*"`: the token a `/*master*/` comment leaves (`masterHint` of
    proxy/server/executor.go). -/
def masterHint : Str := "*master*".toList

/-- The first part of `Tokenize`: `TrimSpace`, and for a text that starts with
    `--` the removal of the lines that (trimmed) start with `--`. -/
def stripDashLines (s0 : Str) : Str :=
  let s1 := trimSpace s0
  if hasPrefix dashDash s1 then
    joinLines (((splitLines s1).map trimSpace).filter (fun l => !hasPrefix dashDash l))
  else s1

/-- The rest of `Tokenize`, on the text `s` left by the first part.  The only
    index expression, `tokens[0]` in the block-comment case, is modelled with
    an explicit panic outcome (`tokenize_never_panics` shows it is unreachable). -/
def tokenizeCore (s : Str) : R (List Str) :=
  let tokens := fieldsFunc isSqlSep s
  if hasPrefix versionCommentOpen s then
    .ok (if tokens.length > 1 then tokens.tail else tokens)
  else if hasPrefix blockCommentOpen s then
    match tokens with
    | [] => .panic
    | hint :: _ =>
      let tokens :=
        match indexClose s with
        | some idx => if idx > 0 then fieldsFunc isSqlSep (s.drop (idx + 2)) else tokens
        | none => tokens
      .ok (if equalFold hint masterHint then tokens ++ [hint] else tokens)
  else .ok tokens

/-- `Tokenize`. -/
def tokenize (s0 : Str) : R (List Str) := tokenizeCore (stripDashLines s0)

/-- `GetDBTable`. -/
def getDBTable (token : Str) : Str × Str :=
  if token.isEmpty then ([], [])
  else match splitFirst '.' token with
    | (a, some b) => (trimBackquote a, trimBackquote b)
    | (a, none) => ([], trimBackquote a)

/-- `GetInsertDBTable`. -/
def getInsertDBTable (token : Str) : Str × Str :=
  if token.isEmpty then ([], [])
  else match splitFirst '.' token with
    | (a, some b) => (trimBackquote a, trimBackquote (splitFirst '(' b).1)
    | (a, none) => ([], trimBackquote (splitFirst '(' a).1)

/-! ### `TrimTrailingComments` (parser/analyzer.go) -/

/-- The states of the scanner in `TrimTrailingComments`. -/
inductive Lex where
  | code
  | quote (q : Char)
  | escape (q : Char)
  | blockOpen
  | block
  | blockClose
  | line
  deriving Repr, DecidableEq

/-- `c == ' ' || (c >= '\t' && c <= '\r')`. -/
def isBlank (c : Char) : Bool := c == ' ' || ('\t' ≤ c && c ≤ '\r')

def isQuoteChar (c : Char) : Bool := c == '\'' || c == '"' || c == '`'

/-- `"--"` starts a comment at `'-' :: rest` iff `rest` is `-` followed by white
    space, a control character or the end of the text. -/
def dashStartsComment (rest : Str) : Bool :=
  match rest with
  | [] => false
  | c :: rest' =>
    c == '-' &&
      match rest' with
      | [] => true
      | d :: _ => d.val ≤ 0x20 || d.val == 0x7f

/-- One iteration of the loop of `TrimTrailingComments`: the state after the
    character `c` (followed by `rest`), and whether `end` is set to `i+1`. -/
def lexStep (st : Lex) (c : Char) (rest : Str) : Lex × Bool :=
  match st with
  | .quote q =>
    if c == '\\' && q != '`' then (.escape q, true)
    else if c == q then (.code, true)
    else (.quote q, true)
  | .escape q => (.quote q, true)
  | .blockOpen => (.block, false)
  | .block => if c == '*' && rest.head? == some '/' then (.blockClose, false) else (.block, false)
  | .blockClose => (.code, false)
  | .line => if c == '\n' then (.code, false) else (.line, false)
  | .code =>
    if isQuoteChar c then (.quote c, true)
    else if c == '/' && rest.head? == some '*' then (.blockOpen, false)
    else if c == '#' then (.line, false)
    else if c == '-' && dashStartsComment rest then (.line, false)
    else if isBlank c then (.code, false)
    else (.code, true)

/-- The loop of `TrimTrailingComments`: `i` characters have been read, `e` is
    the value of `end`; returns the final `end`. -/
def trimLoop : Lex → Nat → Nat → Str → Nat
  | _, _, e, [] => e
  | st, i, e, c :: rest =>
    let r := lexStep st c rest
    trimLoop r.1 (i + 1) (if r.2 then i + 1 else e) rest

/-- `TrimTrailingComments`. -/
def trimTrailingComments (s : Str) : Str := s.take (trimLoop .code 0 0 s)

/-- The scanner state of `TrimTrailingComments` after a text read on its own
    (`Lex.code`: the text ends outside quotes and comments). -/
def lexRun : Lex → Str → Lex
  | st, [] => st
  | st, c :: rest => lexRun (lexStep st c rest).1 rest

end GaeaVerif.Tok
