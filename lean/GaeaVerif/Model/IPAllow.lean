import GaeaVerif.Model.Go
/-
  C35 — model of the client allow-list of a namespace.

  Gaea code (transliterated, same names):
    util/ip.go                 ParseIPInfo, IPInfo.Match, IPInfo.containsMapped,
                               parseAllowIps (the comma-separated form; no callers)
    proxy/server/namespace.go  parseAllowIps, Namespace.IsClientIPAllowed
    proxy/server/session.go    Session.IsAllowConnect (host of the remote address), newSession (the
                               connection's dynamic type), the allow check of Session.Handshake
    proxy/server/server.go     Server.onConn up to the end of the handshake
  Go standard library (package net, trusted; transliterated from go1.23
  src/net/ip.go so that the glue above can be run and reasoned about):
    IP.To4, IP.Equal, IP.Mask, CIDRMask, networkNumberAndMask, IPNet.Contains,
    ParseCIDR and ParseIP *around* netip.ParseAddr, dtoi, strings.TrimSpace,
    net.SplitHostPort.
  netip.ParseAddr (the textual address syntax) is a parameter `pa` of the
  model; the driver instantiates it with the reference parser at the end of
  this file.

  A `net.IP` is a byte list (`nil` = `[]`); text is a byte list as well.
  Core Lean only.
-/
namespace GaeaVerif.IPAllow
open GaeaVerif

/-! ### package net -/

/-- `v4InV6Prefix` of src/net/ip.go. -/
def v4InV6Prefix : Bytes := [0, 0, 0, 0, 0, 0, 0, 0, 0, 0, 0xff, 0xff]

/-- `IP.To4` (`none` = nil). -/
def to4 (ip : Bytes) : Option Bytes :=
  if ip.length = 4 then some ip
  else if ip.length = 16 ∧ ip.take 12 = v4InV6Prefix then some (ip.drop 12)
  else none

/-- `Addr.As16` for the 4- or 16-byte result of `netip.ParseAddr`. -/
def as16 (a : Bytes) : Bytes := if a.length = 4 then v4InV6Prefix ++ a else a

/-- The loop of `CIDRMask`: `n` ones still to place, `l` bytes still to fill. -/
def cidrMaskLoop : Nat → Nat → Bytes
  | _, 0 => []
  | n, l + 1 =>
    if n ≥ 8 then 0xff :: cidrMaskLoop (n - 8) l
    else (~~~ ((0xff : UInt8) >>> UInt8.ofNat n)) :: cidrMaskLoop 0 l

/-- `CIDRMask(ones, bits)` (`none` = nil). -/
def cidrMask (ones bits : Nat) : Option Bytes :=
  if bits ≠ 32 ∧ bits ≠ 128 then none
  else if ones > bits then none
  else some (cidrMaskLoop ones (bits / 8))

def andBytes (a b : Bytes) : Bytes := List.zipWith (· &&& ·) a b

/-- `IP.Mask` (`none` = nil). -/
def ipMask (ip mask : Bytes) : Option Bytes :=
  let mask := if mask.length = 16 ∧ ip.length = 4 ∧ (mask.take 12).all (· == 0xff) then mask.drop 12 else mask
  let ip := if mask.length = 4 ∧ ip.length = 16 ∧ ip.take 12 = v4InV6Prefix then ip.drop 12 else ip
  if ip.length ≠ mask.length then none else some (andBytes ip mask)

/-- `net.IPNet`. -/
structure IPNet where
  ip : Bytes
  mask : Bytes
  deriving Repr, BEq, DecidableEq

/-- `networkNumberAndMask` (`none` = the pair of nils). -/
def networkNumberAndMask (n : IPNet) : Option (Bytes × Bytes) :=
  let ip? : Option Bytes :=
    match to4 n.ip with
    | some x => some x
    | none => if n.ip.length ≠ 16 then none else some n.ip
  match ip? with
  | none => none
  | some ip =>
    if n.mask.length = 4 then
      if ip.length ≠ 4 then none else some (ip, n.mask)
    else if n.mask.length = 16 then
      some (ip, if ip.length = 4 then n.mask.drop 12 else n.mask)
    else none

/-- The loop of `IPNet.Contains`: `nn[i]&m[i] != ip[i]&m[i]` for `i < len(ip)`.
    Running out of `nn` or `m` before `ip` is Go's index-out-of-range panic. -/
def containsLoop : Bytes → Bytes → Bytes → R Bool
  | _, _, [] => .ok true
  | n :: nn, m :: ms, x :: ip => if n &&& m ≠ x &&& m then .ok false else containsLoop nn ms ip
  | _, _, _ :: _ => .panic

/-- `IPNet.Contains`. -/
def contains (n : IPNet) (ip : Bytes) : R Bool :=
  let nm := (networkNumberAndMask n).getD ([], [])
  let ip := (to4 ip).getD ip
  if ip.length ≠ nm.1.length then .ok false else containsLoop nm.1 nm.2 ip

/-- `IP.Equal`. -/
def ipEqual (ip x : Bytes) : Bool :=
  if ip.length = x.length then ip == x
  else if ip.length = 4 ∧ x.length = 16 then x.take 12 == v4InV6Prefix && ip == x.drop 12
  else if ip.length = 16 ∧ x.length = 4 then ip.take 12 == v4InV6Prefix && ip.drop 12 == x
  else false

/-- Result of `netip.ParseAddr`: 4 or 16 address bytes and whether a zone was given. -/
structure Addr where
  bytes : Bytes
  zone : Bool
  deriving Repr, BEq, DecidableEq

/-- `stringslite.Cut(s, "/")`. -/
def cutSlash : Bytes → Option (Bytes × Bytes)
  | [] => none
  | c :: cs =>
    if c = 0x2f then some ([], cs)
    else match cutSlash cs with
      | some (a, b) => some (c :: a, b)
      | none => none

/-- The loop of `dtoi`: value so far, digits consumed; `none` = overflow (`n >= big`). -/
def dtoiLoop : Bytes → Nat → Nat → Option (Nat × Nat)
  | [], n, i => some (n, i)
  | c :: cs, n, i =>
    if 0x30 ≤ c ∧ c ≤ 0x39 then
      let n' := n * 10 + (c.toNat - 0x30)
      if n' ≥ 0xFFFFFF then none else dtoiLoop cs n' (i + 1)
    else some (n, i)

/-- `dtoi`: `(n, i, ok)`. -/
def dtoi (s : Bytes) : Nat × Nat × Bool :=
  match dtoiLoop s 0 0 with
  | none => (0xFFFFFF, 0, false)
  | some (n, i) => if i = 0 then (0, 0, false) else (n, i, true)

/-- `net.ParseCIDR` around the address parser `pa`. -/
def parseCIDR (pa : Bytes → Option Addr) (s : Bytes) : Option (Bytes × IPNet) :=
  match cutSlash s with
  | none => none
  | some (addr, mask) =>
    match pa addr with
    | none => none
    | some a =>
      if a.zone then none else
      let bitLen := 8 * a.bytes.length
      let (n, i, ok) := dtoi mask
      if !ok || i ≠ mask.length || n > bitLen then none else
      match cidrMask n bitLen with
      | none => none   -- unreachable for 4/16-byte addresses; Go would build an IPNet with nil fields
      | some m =>
        let addr16 := as16 a.bytes
        some (addr16, { ip := (ipMask addr16 m).getD [], mask := m })

/-- `net.ParseIP` around the address parser `pa` (`none` = nil). -/
def parseIP (pa : Bytes → Option Addr) (s : Bytes) : Option Bytes :=
  match pa s with
  | none => none
  | some a => if a.zone then none else some (as16 a.bytes)

/-! ### util/ip.go -/

/-- `util.IPInfo` (without the `info` text). -/
structure IPInfo where
  isIPNet : Bool
  ip : Bytes
  ipNet : IPNet
  deriving Repr, BEq, DecidableEq

/-- `util.ParseIPInfo` (`none` = "invalid ip address"). -/
def parseIPInfo (pa : Bytes → Option Addr) (v : Bytes) : Option IPInfo :=
  match parseCIDR pa v with
  | some (ip, ipNet) => some { isIPNet := true, ip := ip, ipNet := ipNet }
  | none =>
    match parseIP pa v with
    | some ip => some { isIPNet := false, ip := ip, ipNet := { ip := [], mask := [] } }
    | none => none

/-- `IPInfo.Match` as it was before the fix: commit of C35 (`Contains` alone);
    kept for the pinned witness of the old behaviour. -/
def IPInfo.matchPinned (t : IPInfo) (ip : Bytes) : R Bool :=
  if t.isIPNet then contains t.ipNet ip else .ok (ipEqual t.ip ip)

/-- `IPInfo.containsMapped` (fix: commit of C35): an IPv4 / IPv4-mapped client
    is compared in the 16-byte form with a network whose address and mask have
    16 bytes.  `ip4.To16()` is `v4InV6Prefix ++ ip4`; the loop indexes
    `ipNet.IP[i]` and `ipNet.Mask[i]` for `i < 16` (`containsLoop`). -/
def IPInfo.containsMapped (t : IPInfo) (ip : Bytes) : R Bool :=
  match to4 ip with
  | none => .ok false
  | some ip4 =>
    if t.ipNet.ip.length ≠ 16 ∨ t.ipNet.mask.length ≠ 16 then .ok false
    else containsLoop t.ipNet.ip t.ipNet.mask (v4InV6Prefix ++ ip4)

/-- `IPInfo.Match`: `t.ipNet.Contains(ip) || t.containsMapped(ip)` for a block. -/
def IPInfo.match (t : IPInfo) (ip : Bytes) : R Bool :=
  if t.isIPNet then
    match contains t.ipNet ip with
    | .ok true => .ok true
    | .ok false => t.containsMapped ip
    | .fail => .fail
    | .panic => .panic
  else .ok (ipEqual t.ip ip)

/-! ### strings.TrimSpace -/

/-- UTF-8 encodings of the code points with Unicode property White_Space. -/
def spaceSeqs : List Bytes :=
  [[0x09], [0x0a], [0x0b], [0x0c], [0x0d], [0x20], [0xc2, 0x85], [0xc2, 0xa0], [0xe1, 0x9a, 0x80],
   [0xe2, 0x80, 0x80], [0xe2, 0x80, 0x81], [0xe2, 0x80, 0x82], [0xe2, 0x80, 0x83], [0xe2, 0x80, 0x84],
   [0xe2, 0x80, 0x85], [0xe2, 0x80, 0x86], [0xe2, 0x80, 0x87], [0xe2, 0x80, 0x88], [0xe2, 0x80, 0x89],
   [0xe2, 0x80, 0x8a], [0xe2, 0x80, 0xa8], [0xe2, 0x80, 0xa9], [0xe2, 0x80, 0xaf], [0xe2, 0x81, 0x9f],
   [0xe3, 0x80, 0x80]]

def trimLeftFuel : Nat → Bytes → Bytes
  | 0, s => s
  | f + 1, s =>
    match spaceSeqs.find? (fun q => q.isPrefixOf s) with
    | some q => trimLeftFuel f (s.drop q.length)
    | none => s

/-- Leading white space removed. -/
def trimLeft (s : Bytes) : Bytes := trimLeftFuel s.length s

/-- `strings.TrimSpace` on the bytes of a string (exact for valid UTF-8 text;
    on the reversed string the encodings are matched reversed). -/
def trimSpace (s : Bytes) : Bytes :=
  let l := trimLeft s
  let rec go : Nat → Bytes → Bytes
    | 0, r => r
    | f + 1, r =>
      match spaceSeqs.find? (fun q => q.reverse.isPrefixOf r) with
      | some q => go f (r.drop q.length)
      | none => r
  (go l.length l.reverse).reverse

/-! ### proxy/server/namespace.go -/

/-- `parseAllowIps` (`fail` = the error of `ParseIPInfo`, the namespace is not created). -/
def parseAllowIps (pa : Bytes → Option Addr) : List Bytes → R (List IPInfo)
  | [] => .ok []
  | ipStr :: rest =>
    let ipStr := trimSpace ipStr
    if ipStr.length = 0 then parseAllowIps pa rest
    else match parseIPInfo pa ipStr with
      | none => .fail
      | some info =>
        match parseAllowIps pa rest with
        | .ok l => .ok (info :: l)
        | .fail => .fail
        | .panic => .panic

/-- The loop of `Namespace.IsClientIPAllowed`. -/
def matchAny : List IPInfo → Bytes → R Bool
  | [], _ => .ok false
  | ip :: rest, c =>
    match ip.match c with
    | .ok true => .ok true
    | .ok false => matchAny rest c
    | .fail => .fail
    | .panic => .panic

/-- `Namespace.IsClientIPAllowed`. -/
def isClientIPAllowed (allowips : List IPInfo) (clientIP : Bytes) : R Bool :=
  if allowips.length = 0 then .ok true else matchAny allowips clientIP

/-- `strings.Split(s, sep)` for a one-byte separator. -/
def splitOn (sep : UInt8) : Bytes → List Bytes
  | [] => [[]]
  | c :: cs =>
    match splitOn sep cs with
    | [] => [[]]
    | p :: ps => if c = sep then [] :: p :: ps else (c :: p) :: ps

/-! ### proxy/server/session.go -/

def indexOf (c : UInt8) : Bytes → Option Nat
  | [] => none
  | x :: xs => if x = c then some 0 else (indexOf c xs).map (· + 1)

def lastIndexOf (c : UInt8) (s : Bytes) : Option Nat :=
  (indexOf c s.reverse).map (fun i => s.length - 1 - i)

/-- `net.SplitHostPort`, host only (`none` = error; the session then parses ""). -/
def splitHost (hostport : Bytes) : Option Bytes :=
  match lastIndexOf 0x3a hostport with
  | none => none
  | some i =>
    if hostport.head? = some 0x5b then
      match indexOf 0x5d hostport with
      | none => none
      | some e =>
        if e + 1 = hostport.length then none
        else if e + 1 = i then
          -- j = 1, k = end+1
          if (hostport.drop 1).contains 0x5b || (hostport.drop (e + 1)).contains 0x5d then none
          else some ((hostport.take e).drop 1)
        else none
    else
      let host := hostport.take i
      if host.contains 0x3a then none
      else if hostport.contains 0x5b || hostport.contains 0x5d then none
      else some host

/-- `Session.IsAllowConnect` for a session whose namespace exists: the remote
    address text is split, its host parsed (an unparsable host is the nil IP). -/
def isAllowConnect (pa : Bytes → Option Addr) (allowips : List IPInfo) (remote : Bytes) : R Bool :=
  let clientHost := (splitHost remote).getD []
  -- the zone of a scoped IPv6 address is dropped (fix: commit of C35)
  let clientHost := match indexOf 0x25 clientHost with
    | some i => clientHost.take i
    | none => clientHost
  let clientIP := (parseIP pa clientHost).getD []
  isClientIPAllowed allowips clientIP

/-- Dynamic type of the connection the listener hands out: `*net.TCPConn`
    (proto_type tcp/tcp4/tcp6) or `*net.UnixConn` (proto_type unix). -/
inductive ConnKind where
  | tcp
  | unix
  deriving Repr, DecidableEq

/-- What a client with valid credentials is told by `Server.onConn`: the OK
    packet, error 1045 "ip not allowed to connect", or nothing because the
    connection goroutine panicked with no recover above it (the process ends). -/
inductive Served where
  | ok
  | denied
  | crash
  deriving Repr, DecidableEq

/-- `Server.onConn` → `newSession` → `Session.Handshake` for a client whose
    credentials are right: `newSession` runs before `onConn` installs its
    `recover`; the allow check decides between the OK packet and error 1045. -/
def onConn (pa : Bytes → Option Addr) (allowips : List IPInfo) (_kind : ConnKind) (remote : Bytes) : R Served :=
  -- if tcpConn, ok := co.(*net.TCPConn); ok { tcpConn.SetNoDelay(true) }   (fix: commit of C35)
  match isAllowConnect pa allowips remote with
  | .ok true => .ok .ok
  | .ok false => .ok .denied
  | .fail => .fail
  | .panic => .panic     -- inside Handshake: recovered by onConn's deferred recover

/-- The same before the fix: `tcpConn := co.(*net.TCPConn)` unconditionally. -/
def onConnPinned (pa : Bytes → Option Addr) (allowips : List IPInfo) (kind : ConnKind) (remote : Bytes) : R Served :=
  match kind with
  | .unix => .ok .crash
  | .tcp => onConn pa allowips kind remote

/-- `net.JoinHostPort`, the text `(*net.TCPAddr).String()` produces from the
    host (`ip.String()`, `%zone` appended) and the port. -/
def joinHostPort (host port : Bytes) : Bytes :=
  if host.contains 0x3a then [0x5b] ++ host ++ [0x5d, 0x3a] ++ port
  else host ++ [0x3a] ++ port

/-! ### util/ip.go `parseAllowIps` (comma-separated text; called by nothing) -/

/-- `util.parseAllowIps`: an entry that does not parse is *dropped*. -/
def utilParseAllowIps (pa : Bytes → Option Addr) (allowIpsStr : Bytes) : List IPInfo :=
  if allowIpsStr.length = 0 then []
  else (splitOn 0x2c allowIpsStr).filterMap fun ipStr => parseIPInfo pa (trimSpace ipStr)

/-! ### Spec: what an allow-list means

  An entry text denotes an address (4 bytes for a dotted quad, 16 for the colon
  form) and, for a block, a prefix length.  Addresses are compared as 128-bit
  numbers, an IPv4 address `a.b.c.d` being `::ffff:a.b.c.d`; the block `A/n`
  holds the addresses with the network number `⌊x / 2^(128-n')⌋` of `A`,
  `n' = n + 96` for a dotted-quad `A` (`uniformMatch`).  `familyMatch` is the
  same with the two address families kept apart. -/

/-- Big-endian value of a byte string. -/
def beNat : Bytes → Nat
  | [] => 0
  | b :: bs => b.toNat * 256 ^ bs.length + beNat bs

structure Entry where
  addr : Bytes
  pfx : Option Nat
  deriving Repr, BEq, DecidableEq

/-- Meaning of `ADDR/N`. -/
def denoteCIDR (pa : Bytes → Option Addr) (t : Bytes) : Option Entry :=
  match cutSlash t with
  | none => none
  | some (a, m) =>
    match pa a with
    | none => none
    | some ad =>
      if ad.zone then none
      else if !(dtoi m).2.2 || (dtoi m).2.1 ≠ m.length || (dtoi m).1 > 8 * ad.bytes.length then none
      else some { addr := ad.bytes, pfx := some (dtoi m).1 }

/-- Meaning of an entry text (`none` = not an address or block). -/
def denote (pa : Bytes → Option Addr) (t : Bytes) : Option Entry :=
  match denoteCIDR pa t with
  | some e => some e
  | none =>
    match pa t with
    | some ad => if ad.zone then none else some { addr := ad.bytes, pfx := none }
    | none => none

/-- The entries of a list: blank ones are skipped; `none` if one is meaningless. -/
def listed (pa : Bytes → Option Addr) : List Bytes → Option (List Entry)
  | [] => some []
  | s :: rest =>
    if (trimSpace s).length = 0 then listed pa rest
    else match denote pa (trimSpace s), listed pa rest with
      | some e, some es => some (e :: es)
      | _, _ => none

/-- Network number of an address of `bits` bits under a prefix of `n` bits. -/
def netNum (bits n : Nat) (a : Bytes) : Nat := beNat a / 2 ^ (bits - n)

/-- The literal reading of the property for one entry and one client. -/
def uniformMatch (e : Entry) (c : Bytes) : Bool :=
  (c.length == 4 || c.length == 16) &&
  match e.pfx with
  | none => as16 e.addr == as16 c
  | some n =>
    let n' := if e.addr.length = 4 then n + 96 else n
    netNum 128 n' (as16 e.addr) == netNum 128 n' (as16 c)

/-- The same with the families kept apart: an IPv4 or IPv4-mapped client is
    looked for in IPv4 blocks and in IPv4-mapped blocks of 96 bits or more,
    any other client in the remaining (IPv6) blocks. -/
def familyMatch (e : Entry) (c : Bytes) : Bool :=
  match e.pfx with
  | none => (c.length == 4 || c.length == 16) && as16 e.addr == as16 c
  | some n =>
    if e.addr.length = 4 then
      match to4 c with
      | some c4 => netNum 32 n e.addr == netNum 32 n c4
      | none => false
    else if (to4 e.addr).isSome ∧ n ≥ 96 then
      match to4 c with
      | some c4 => netNum 32 (n - 96) (e.addr.drop 12) == netNum 32 (n - 96) c4
      | none => false
    else
      (to4 c).isNone && c.length == 16 && netNum 128 n e.addr == netNum 128 n c

/-! ### reference parser for `netip.ParseAddr` (driver only; trusted syntax)

  Follows go1.23 src/net/netip/netip.go: `parseIPv4Fields` (four decimal
  fields, no leading zero, ≤ 255) and `parseIPv6` (hex groups of ≤ 4 digits,
  one `::`, optional trailing dotted quad, zone after `%`). -/

def isDigit (c : UInt8) : Bool := 0x30 ≤ c && c ≤ 0x39

def decVal (s : Bytes) : Nat := s.foldl (fun n c => n * 10 + (c.toNat - 0x30)) 0

/-- One field of a dotted quad. -/
def v4Field (p : Bytes) : Option UInt8 :=
  if p.isEmpty || !p.all isDigit then none
  else if p.length > 1 && p.head? == some 0x30 then none
  else if p.length > 3 then none
  else if decVal p > 255 then none else some (UInt8.ofNat (decVal p))

/-- `parseIPv4Fields`. -/
def parseIPv4Fields (s : Bytes) : Option Bytes :=
  match (splitOn 0x2e s).map v4Field with
  | [some a, some b, some c, some d] => some [a, b, c, d]
  | _ => none

def hexVal8? (c : UInt8) : Option Nat :=
  if 0x30 ≤ c ∧ c ≤ 0x39 then some (c.toNat - 0x30)
  else if 0x61 ≤ c ∧ c ≤ 0x66 then some (c.toNat - 0x61 + 10)
  else if 0x41 ≤ c ∧ c ≤ 0x46 then some (c.toNat - 0x41 + 10)
  else none

/-- The main loop of `parseIPv6`: remaining text, bytes produced so far,
    position of the ellipsis.  Result: the bytes and the ellipsis, with the
    text wholly consumed. -/
def v6Loop : Nat → Bytes → Bytes → Option Nat → Option (Bytes × Option Nat)
  | 0, _, _, _ => none
  | fuel + 1, s, ip, ell =>
    if ip.length ≥ 16 then (if s.isEmpty then some (ip, ell) else none) else
    let digs := s.takeWhile (fun c => (hexVal8? c).isSome)
    let rest := s.dropWhile (fun c => (hexVal8? c).isSome)
    if digs.length > 4 || digs.length = 0 then none else
    if rest.head? = some 0x2e then
      if ell.isNone && ip.length ≠ 12 then none
      else if ip.length + 4 > 16 then none
      else match parseIPv4Fields s with
        | some q => some (ip ++ q, ell)
        | none => none
    else
      let acc := digs.foldl (fun n c => n * 16 + (hexVal8? c).getD 0) 0
      let ip := ip ++ [UInt8.ofNat (acc / 256), UInt8.ofNat (acc % 256)]
      match rest with
      | [] => some (ip, ell)
      | c :: r1 =>
        if c ≠ 0x3a then none
        else match r1 with
          | [] => none
          | c2 :: r2 =>
            if c2 = 0x3a then
              if ell.isSome then none
              else if r2.isEmpty then some (ip, some ip.length)
              else v6Loop fuel r2 ip (some ip.length)
            else v6Loop fuel r1 ip ell

/-- `parseIPv6` (zone split off first). -/
def parseIPv6 (input : Bytes) : Option Addr :=
  let hasZone := input.contains 0x25
  let s := input.takeWhile (· ≠ 0x25)
  if hasZone && (input.dropWhile (· ≠ 0x25)).length ≤ 1 then none else
  let lead := s.length ≥ 2 && s.take 2 == [0x3a, 0x3a]
  let s1 := if lead then s.drop 2 else s
  if lead && s1.isEmpty then some { bytes := List.replicate 16 0, zone := hasZone } else
  match v6Loop 10 s1 [] (if lead then some 0 else none) with
  | none => none
  | some (ip, ell) =>
    if ip.length < 16 then
      match ell with
      | none => none
      | some e => some { bytes := ip.take e ++ List.replicate (16 - ip.length) 0 ++ ip.drop e, zone := hasZone }
    else if ell.isSome then none
    else if ip.length ≠ 16 then none   -- cannot happen: the loop adds 2 bytes while below 16
    else some { bytes := ip, zone := hasZone }

/-- `netip.ParseAddr`: the first of `.`, `:`, `%` decides. -/
def netipParseAddr (s : Bytes) : Option Addr :=
  match s.find? (fun c => c = 0x2e || c = 0x3a || c = 0x25) with
  | some 0x2e => (parseIPv4Fields s).map fun b => { bytes := b, zone := false }
  | some 0x3a => parseIPv6 s
  | _ => none

end GaeaVerif.IPAllow
