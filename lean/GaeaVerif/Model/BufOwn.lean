import GaeaVerif.Model.Crash
/-
  Model of the ownership protocol of the pooled packet buffers (C38, C11, C30):

    util/bucketpool/bucketpool.go  New, findPool, Get, Put                      (`bucketSize`, `findPool`, `poolGet`, `poolPut`)
    sync.Pool                      Get / Put on one P without garbage collection (`SyncPool.get`, `SyncPool.put`)
    mysql/conn.go                  bufPool, ReadEphemeralPacket, ReadEphemeralPacketDirect, RecycleReadPacket,
                                   StartEphemeralPacket, WriteEphemeralPacket, recycleWritePacket
                                   (`readBegin`, `fill`, `readFail`, `recycleRead`, `startEphemeral`, `writeEphemeral`)
    proxy/server/client_conn.go    writeInitialHandshakeV10, readHandshakeResponse, WriteAuthSwitchRequest
    proxy/server/session.go        Handshake, handleHandshakeResponse (where it reads info.AuthResponse), Run
    proxy/server/server.go         onConn (the error packet of a failed handshake)

  One process, any number of connections.  `Mem` is what they share: the heap
  of packet buffers (a buffer = a `*[]byte` and its backing array) and the
  buckets of `mysql.bufPool`.  A session's goroutine is a list of pending
  atomic actions (`Instr`); `tick` performs the first one, `feedHdr` / `feedBody`
  / `feedEof` are the arrival of bytes from the session's own client at a
  blocking read.  Any interleaving of these steps of any sessions is a run of
  the system; the harness drives the real code through the interleavings in
  which a goroutine runs from one blocking read to the next (`runEager`).

  What a session reads is read from `Mem` at the moment it reads: a slice that
  is kept across `RecycleReadPacket` (`AuthRef.alias`) shows whatever the
  buffer holds by then.  The three places where the source decides between a
  copy and a slice, resp. between clearing and keeping a pointer, are the
  fields of `Variant`; the translator reads them off the current tree
  (harness/extract/c38own.go).  Core Lean only.
-/
namespace GaeaVerif.BufOwn
open GaeaVerif GaeaVerif.LenEnc

/-! ### util/bucketpool -/

/-- `mysql.MinPacketSize` -/
def minSize : Nat := 128
/-- `mysql.MaxPacketSize` -/
def maxSize : Nat := 16777215

def bitLenAux : Nat → Nat → Nat
  | 0, _ => 0
  | f + 1, n => if n = 0 then 0 else 1 + bitLenAux f (n / 2)

/-- `bits.Len64` (for arguments below 2^64) -/
def bitLen (n : Nat) : Nat := bitLenAux 64 n

/-- The loop of `bucketpool.New`: the sizes of the buckets. -/
def newSizes : Nat → Nat → Nat → List Nat
  | 0, _, _ => []
  | f + 1, cur, max => if cur < max then cur :: newSizes f (cur * 2) max else [max]

def nBuckets : Nat := 18

/-- size of the buffers of bucket `k` -/
def bucketSize (k : Nat) : Nat := if k < 17 then minSize * 2 ^ k else maxSize

/-- `Pool.findPool(size)`: the index of the bucket serving buffers of that
    size, `none` above `maxSize`. -/
def findPool (size : Nat) : Option Nat :=
  if size > maxSize then none else
  let div := size / minSize
  let rem := size % minSize
  let idx := bitLen div
  if rem == 0 && div != 0 && (div &&& (div - 1)) == 0 then some (idx - 1) else some idx

/-- A `*[]byte` handed out by the pool and its backing array (`cap` bytes;
    the length of the slice header is kept by whoever holds the buffer). -/
structure Buf where
  cap : Nat
  data : Bytes
  deriving Repr, DecidableEq

/-- One `sync.Pool` on a single P with the garbage collector off: the P's
    private slot and its shared stack. -/
structure SyncPool where
  priv : Option Nat
  shared : List Nat
  deriving Repr, DecidableEq

def SyncPool.empty : SyncPool := ⟨none, []⟩

/-- the buffers in the order `Get` hands them out -/
def SyncPool.ids (p : SyncPool) : List Nat := p.priv.toList ++ p.shared

def SyncPool.put (p : SyncPool) (x : Nat) : SyncPool :=
  match p.priv with
  | none => { p with priv := some x }
  | some _ => { p with shared := x :: p.shared }

def SyncPool.get (p : SyncPool) : Option (Nat × SyncPool) :=
  match p.priv with
  | some x => some (x, { p with priv := none })
  | none =>
    match p.shared with
    | x :: r => some (x, { p with shared := r })
    | [] => none

/-- What the connections of one process share. -/
structure Mem where
  bufs : List Buf
  pools : List SyncPool
  deriving Repr, DecidableEq

def Mem.init : Mem := ⟨[], List.replicate nBuckets SyncPool.empty⟩

/-- `makeSlicePointer(cap)` -/
def alloc (m : Mem) (cap : Nat) : Nat × Mem :=
  (m.bufs.length, { m with bufs := m.bufs ++ [⟨cap, List.replicate cap 0⟩] })

/-- `Pool.Get(size)`: the buffer and the new memory; `none` = a Go panic
    (`p.pools[idx]` out of range, `(*buf)[:size]` beyond the capacity). -/
def poolGet (m : Mem) (size : Nat) : Option (Nat × Mem) :=
  match findPool size with
  | none => some (alloc m size)
  | some k =>
    match m.pools[k]? with
    | none => none
    | some p =>
      match p.get with
      | some (id, p') =>
        match m.bufs[id]? with
        | none => none
        | some b => if size ≤ b.cap then some (id, { m with pools := m.pools.set k p' }) else none
      | none => if size ≤ bucketSize k then some (alloc m (bucketSize k)) else none

/-- `Pool.Put(b)`; `none` = a Go panic (nil or dangling pointer). -/
def poolPut (m : Mem) (id : Nat) : Option Mem :=
  match m.bufs[id]? with
  | none => none
  | some b =>
    match findPool b.cap with
    | none => some m
    | some k =>
      match m.pools[k]? with
      | none => none
      | some p => some { m with pools := m.pools.set k (p.put id) }

/-! ### mysql/conn.go: the ephemeral buffer of one connection -/

inductive Policy where
  | unused | write | read
  deriving Repr, DecidableEq

/-- `currentEphemeralPolicy`, `currentEphemeralBuffer` and the length of the
    slice the buffer was handed out with. -/
structure Conn where
  policy : Policy
  cur : Option Nat
  len : Nat
  deriving Repr, DecidableEq

def Conn.init : Conn := ⟨.unused, none, 0⟩

/-- The places where the source decides about a copy or a pointer. -/
structure Variant where
  /-- readHandshakeResponse keeps a copy of the auth switch response (not the slice ReadEphemeralPacketDirect returned) -/
  copySwitch : Bool
  /-- … and a copy of a NUL-terminated auth response (not the slice ReadNullByte returned) -/
  copyNull : Bool
  /-- RecycleReadPacket sets currentEphemeralBuffer to nil once the buffer is back in the pool -/
  recycleClears : Bool
  deriving Repr, DecidableEq

/-- the code as repaired -/
def Variant.fixed : Variant := ⟨true, true, true⟩

/-- What `ReadEphemeralPacket[Direct]` does after the header. -/
inductive RdKind where
  | err     -- the header could not be read (EOF, reset, wrong sequence id)
  | empty   -- a zero-length packet: no buffer
  | body    -- a pooled buffer waits for `len` bytes
  | big     -- length = MaxPacketSize: the multi-frame path (not modelled further)
  deriving Repr, DecidableEq

/-- `ReadEphemeralPacket` / `ReadEphemeralPacketDirect`, the policy check at
    its entry (the goroutine then blocks reading the header); `none` = panic. -/
def readEnter (c : Conn) : Option Conn :=
  if c.policy ≠ .unused then none else some { c with policy := .read }

/-- … from the header up to and including `bufPool.Get(length)`; `hdr` is the
    length in the header, `none` if the header cannot be read.  `none` = panic. -/
def readBegin (m : Mem) (c : Conn) (hdr : Option Nat) : Option (Mem × Conn × RdKind) :=
  match hdr with
  | none => some (m, c, .err)
  | some n =>
    if n = 0 then some (m, c, .empty)
    else if n < maxSize then
      match poolGet m n with
      | none => none
      | some (id, m') => some (m', { c with cur := some id, len := n }, .body)
    else some (m, c, .big)

def writeAt (d : Bytes) (off : Nat) (b : Bytes) : Bytes := d.take off ++ b ++ d.drop (off + b.length)

/-- `io.ReadFull(r, *c.currentEphemeralBuffer)` receiving the next bytes of
    the body at offset `off`.  `none` = panic (nil buffer). -/
def fill (m : Mem) (c : Conn) (off : Nat) (b : Bytes) : Option Mem :=
  match c.cur with
  | none => none
  | some id =>
    match m.bufs[id]? with
    | none => none
    | some buf =>
      -- io.ReadFull fills `(*buf)[:len]`: it cannot write beyond the slice
      if off + b.length ≤ buf.data.length then
        some { m with bufs := m.bufs.set id { buf with data := writeAt buf.data off b } }
      else none

/-- `Conn.RecycleReadPacket`; `none` = panic. -/
def recycleRead (v : Variant) (m : Mem) (c : Conn) : Option (Mem × Conn) :=
  if c.policy ≠ .read then none else
  match c.cur with
  | none => some (m, { c with policy := .unused })
  | some id =>
    match poolPut m id with
    | none => none
    | some m' => some (m', { c with policy := .unused, cur := if v.recycleClears then none else some id })

/-- `Conn.StartEphemeralPacket(n)`; `none` = panic. -/
def startEphemeral (m : Mem) (c : Conn) (n : Nat) : Option (Mem × Conn) :=
  if c.policy ≠ .unused then none else
  match poolGet m n with
  | none => none
  | some (id, m') => some (m', { c with policy := .write, cur := some id, len := n })

/-- `Conn.WriteEphemeralPacket` with its deferred `recycleWritePacket`
    (`WritePacket` copies the bytes out before the buffer is returned);
    `none` = panic. -/
def writeEphemeral (m : Mem) (c : Conn) : Option (Mem × Conn) :=
  if c.policy ≠ .write then none else
  match c.cur with
  | none => none
  | some id =>
    match poolPut m id with
    | none => none
    | some m' => some (m', { c with policy := .unused, cur := none })

/-! ### the session goroutine -/

/-- `info.AuthResponse`: bytes of its own, or a slice of a pooled buffer. -/
inductive AuthRef where
  | own (b : Bytes)
  | alias (id off len : Nat)
  deriving Repr, DecidableEq

def AuthRef.resolve (m : Mem) : AuthRef → Bytes
  | .own b => b
  | .alias id off len =>
    match m.bufs[id]? with
    | none => []
    | some b => (b.data.drop off).take len

/-- What `readHandshakeResponse` returned. -/
inductive HsRes where
  | none
  | io                                   -- the first packet could not be read (ErrBadConn)
  | err (e : Crash.HsErr)
  | info (i : Crash.HsInfo) (a : AuthRef)  -- `i.auth` is not used: the response is `a`
  deriving Repr, DecidableEq

/-- `data, err` of the last `ReadEphemeralPacket[Direct]`: an error, the empty
    slice of a zero-length packet, or the slice `(*buf)[:len]` of the pooled
    buffer `id` (a slice keeps pointing to its buffer whatever the connection
    does with it afterwards). -/
inductive Rd where
  | none
  | err
  | empty
  | data (id len : Nat)
  deriving Repr, DecidableEq

/-- a read that returned a packet -/
def Rd.ok : Rd → Bool
  | .empty => true
  | .data _ _ => true
  | _ => false

/-- the bytes of `data`, read now -/
def Rd.view (m : Mem) : Rd → Bytes
  | .data id len =>
    match m.bufs[id]? with
    | Option.none => []
    | Option.some b => b.data.take len
  | _ => []

/-- Code points at which the goroutine looks at what it has read. -/
inductive Cont where
  | hs1        -- readHandshakeResponse after the first packet
  | hs2        -- … after the auth switch response
  | doneGreet | doneResp | doneHs
  | check      -- handleHandshakeResponse and the packet that ends the handshake (step-by-step form)
  | hsTail     -- the same inside Session.Handshake
  | loop       -- head of the loop of Session.Run
  | cmd        -- Session.Run after ReadEphemeralPacket
  | closed     -- Session.Close
  deriving Repr, DecidableEq

/-- Atomic actions of a session goroutine. -/
inductive Instr where
  | enter                    -- ReadEphemeralPacket[Direct]: the policy check
  | readHdr                  -- blocking: the header of the client's next packet
  | readBody                 -- blocking: the rest of its body
  | recycle                  -- RecycleReadPacket
  | start (n : Nat)          -- StartEphemeralPacket(n)
  | flush                    -- WriteEphemeralPacket
  | k (c : Cont)
  deriving Repr, DecidableEq

/-- Resolved form of a handshake result, as reported. -/
inductive HsView where
  | io
  | err (e : Crash.HsErr)
  | info (i : Crash.HsInfo)
  deriving Repr, DecidableEq

/-- What a session lets the outside see. -/
inductive Obs where
  | skip | blocked | gone | panic | stuck
  | doneGreet
  | doneResp (r : HsView)
  | doneHs (r : HsView)
  | doneCheck (seen : Option Bytes)
  | doneRun
  | resp (r : Crash.Resp)
  | sql (t : Bytes)
  deriving Repr, DecidableEq

structure Sess where
  conn : Conn
  todo : List Instr
  rd : Rd
  /-- bytes of the current body received so far -/
  filled : Nat
  /-- the fields decoded from the first handshake packet (kept as the packet's bytes) -/
  first : Bytes
  hs : HsRes
  /-- readHandshakeResponse has returned and `check` has not used the result yet -/
  hsUnused : Bool
  st : Crash.Sess
  /-- `Stmt.sql` of the prepared statements -/
  texts : List (Nat × Bytes)
  /-- the client has disconnected -/
  eof : Bool
  /-- the goroutine has ended for good (Session.Run returned, or a panic) -/
  dead : Bool
  deriving Repr, DecidableEq

def Sess.init : Sess := ⟨Conn.init, [], .none, 0, [], .none, false, Crash.Sess.init, [], false, false⟩

/-- What the harness environment fixes (proxy/server/verif_c38.go). -/
structure Cfg where
  v : Variant
  cv : Crash.Variant
  /-- `Server.AuthPlugin` -/
  plugin : Bytes
  allowed : List Bytes
  known : Bytes → Bool
  hashed : Bytes → Bool
  /-- `len(Server.ServerVersion)` -/
  versionLen : Nat

/-- length of the packet `writeInitialHandshakeV10` builds -/
def greetLen (cfg : Cfg) : Nat :=
  1 + (cfg.versionLen + 1) + 4 + 8 + 1 + 2 + 1 + 2 + 2 + 1 + 10 + 13 + (if cfg.plugin.length = 0 then 0 else cfg.plugin.length + 1)

/-- length of the packet `WriteAuthSwitchRequest` builds (the scramble is 20 bytes) -/
def switchLen (cfg : Cfg) : Nat := 1 + cfg.plugin.length + 1 + 20 + 1

/-- OK, EOF and error packets and the prepare-OK header: at most
    `MinPacketSize` bytes in every run of the harness (checked there), hence
    from bucket 0; the model uses the length of an OK packet. -/
def smallWrite : Nat := 7

def writes : Nat → List Instr
  | 0 => []
  | n + 1 => .start smallWrite :: .flush :: writes n

/-- position of the auth response in a handshake response that is decoded in
    the NUL-terminated form -/
def nullAuthPos (data : Bytes) : Nat :=
  match readNull data 32 with
  | .ok (_, pos) =>
    match readLenEncInt data pos with
    | .ok (_, pos, _) => pos.toNat
    | _ => 0
  | _ => 0

def secureCaps (cap : Nat) : Bool :=
  Crash.hasFlag cap Crash.clientPluginAuthLenencClientData || Crash.hasFlag cap Crash.clientSecureConnection

def HsRes.view (res : AuthRef → Bytes) : HsRes → HsView
  | .none => .io
  | .io => .io
  | .err e => .err e
  | .info i a => .info { i with auth := res a }

/-- statements whose way to the backend the model follows: `select <digits>`
    (sent to the backend of an unsharded namespace as they are) -/
def simpleSelect (t : Bytes) : Bool :=
  t.take 7 == "select ".toUTF8.toList && (t.drop 7).all (fun b => 0x30 ≤ b && b ≤ 0x39)

def lookupText : List (Nat × Bytes) → Nat → Option Bytes
  | [], _ => none
  | (k, t) :: rest, id => if k = id then some t else lookupText rest id

/-- number of packets of a response -/
def respPackets : Crash.Resp → Nat
  | .none => 0
  | .prep _ n => if n = 0 then 1 else n + 2
  | .panic => 0
  | _ => 1

/-- Outcome of one atomic step. -/
inductive TickR where
  | ok (m : Mem) (s : Sess) (obs : List Obs)
  | blocked          -- the goroutine waits for its client
  | idle             -- nothing to do

/-- a Go panic in the goroutine: it ends (recovered at its root) -/
def died (s : Sess) (obs : List Obs) : Sess × List Obs :=
  ({ s with todo := [], dead := true }, obs)

/-- The continuation `c` with `rest` still to do after it: the session's new
    state and what it lets the outside see.  `pkt` is the packet as the shared
    memory shows it at this moment (`s.rd.view m`), `res` reads a kept auth
    response (`AuthRef.resolve m`): these are the only ways a continuation
    looks at the shared memory. -/
def contCore (cfg : Cfg) (pkt : Bytes) (res : AuthRef → Bytes) (s : Sess) (c : Cont) (rest : List Instr) : Sess × List Obs :=
  match c with
  | .doneGreet => ({ s with todo := rest }, [.doneGreet])
  | .doneResp => ({ s with todo := rest, hsUnused := true }, [.doneResp (s.hs.view res)])
  | .doneHs => ({ s with todo := rest }, [.doneHs (s.hs.view res)])
  | .hs1 =>
    -- `defer cc.RecycleReadPacket()` runs when the function returns: `.recycle` precedes `rest`
    if s.rd.ok then
      let data := pkt
      match Crash.readHandshakeResponse cfg.plugin data none with
      | .err .switch =>
        -- cc.RecycleReadPacket(); cc.WriteAuthSwitchRequest(…); cc.ReadEphemeralPacketDirect()
        ({ s with first := data, todo := .recycle :: .start (switchLen cfg) :: .flush :: .enter :: .readHdr :: .k .hs2 :: rest }, [])
      | .err e => ({ s with hs := .err e, todo := .recycle :: rest }, [])
      | .info i =>
        let a : AuthRef :=
          if secureCaps i.capability || cfg.v.copyNull then .own i.auth
          else match s.rd with
            | .data id _ => .alias id (nullAuthPos data) i.auth.length
            | _ => .own i.auth
        ({ s with hs := .info i a, todo := .recycle :: rest }, [])
      | .panic => died s [.panic]
    else ({ s with hs := .io, todo := .recycle :: rest }, [])
  | .hs2 =>
    if s.rd.ok then
      let a := pkt
      match Crash.readHandshakeResponse cfg.plugin s.first (some a) with
      | .info i =>
        let r : AuthRef :=
          if cfg.v.copySwitch then .own a
          else match s.rd with
            | .data id len => .alias id 0 len
            | _ => .own []
        ({ s with hs := .info i r, todo := .recycle :: rest }, [])
      | .err e => ({ s with hs := .err e, todo := .recycle :: rest }, [])
      | .panic => died s [.panic]
    else ({ s with hs := .err .switch, todo := .recycle :: rest }, [])
  | .check =>
    if !s.hsUnused then ({ s with todo := rest }, [.doneCheck none]) else
    let s := { s with hsUnused := false }
    match s.hs with
    | .none => ({ s with todo := rest }, [.doneCheck none])
    | .io => ({ s with todo := rest }, [.doneCheck none])
    | .err _ => ({ s with todo := .start smallWrite :: .flush :: rest }, [.doneCheck none])
    | .info i a =>
      let seen := res a
      match Crash.handleHandshakeAuth cfg.cv cfg.known cfg.hashed { i with auth := seen } with
      | .panic => died s [.panic]
      | _ => ({ s with todo := .start smallWrite :: .flush :: rest }, [.doneCheck (some seen)])
  | .hsTail =>
    -- Session.Handshake uses the result itself: nothing is left for a later `check`
    let s := { s with hsUnused := false }
    match s.hs with
    | .none => ({ s with todo := .k .doneHs :: rest }, [])
    | .io => ({ s with todo := .k .doneHs :: rest }, [])
    | .err _ => ({ s with todo := .start smallWrite :: .flush :: .k .doneHs :: rest }, [])
    | .info i a =>
      match Crash.handleHandshakeAuth cfg.cv cfg.known cfg.hashed { i with auth := res a } with
      | .panic => died s [.panic]
      | _ => ({ s with todo := .start smallWrite :: .flush :: .k .doneHs :: rest }, [])
  | .loop => ({ s with todo := .enter :: .readHdr :: .k .cmd :: rest }, [])
  | .closed => ({ s with todo := [], dead := true }, [.doneRun])
  | .cmd =>
    if s.rd.ok then
      match pkt with
      | [] => ({ s with todo := .recycle :: (writes 1 ++ .k .loop :: rest) }, [.resp (.err .malform)])
      | c :: d =>
        match Crash.executeCommand cfg.cv cfg.allowed s.st c d with
        | (st', .panic) =>
          -- the deferred recover of Session.Run: the session is closed, the buffer is not recycled
          ({ s with st := st', todo := [], dead := true }, [.resp .none, .doneRun])
        | (st', r) =>
          let sqlObs : List Obs :=
            if c == Crash.comQuery && simpleSelect d then [.sql d]
            else if c == Crash.comStmtExecute && r == .q then
              match lookupText s.texts (leNat (d.take 4)) with
              | some t => if simpleSelect t then [.sql t] else []
              | none => []
            else []
          let texts :=
            match r with
            | .prep id _ => if c == Crash.comStmtPrepare then (id, d) :: s.texts else s.texts
            | _ => s.texts
          let tail : Instr := if c == Crash.comQuit then .k .closed else .k .loop
          ({ s with st := st', texts := texts, todo := .recycle :: (writes (respPackets r) ++ tail :: rest) },
            sqlObs ++ [.resp r])
    else ({ s with todo := [.recycle, .k .closed] }, [])

/-- The continuation reading the shared memory `m`. -/
def cont (cfg : Cfg) (m : Mem) (s : Sess) (c : Cont) (rest : List Instr) : TickR :=
  let r := contCore cfg (s.rd.view m) (AuthRef.resolve m) s c rest
  .ok m r.1 r.2

/-- a panic in one of mysql.Conn's functions -/
def diedT (m : Mem) (s : Sess) : TickR := .ok m { s with todo := [], dead := true } [.panic]

/-- One atomic step of a session's goroutine. -/
def tick (cfg : Cfg) (m : Mem) (s : Sess) : TickR :=
  match s.todo with
  | [] => .idle
  | .readHdr :: _ => .blocked
  | .readBody :: _ => .blocked
  | .enter :: rest =>
    match readEnter s.conn with
    | none => diedT m s
    | some c' => .ok m { s with conn := c', todo := rest } []
  | .recycle :: rest =>
    match recycleRead cfg.v m s.conn with
    | none => diedT m s
    | some (m', c') => .ok m' { s with conn := c', todo := rest } []
  | .start n :: rest =>
    match startEphemeral m s.conn n with
    | none => diedT m s
    | some (m', c') => .ok m' { s with conn := c', todo := rest, filled := 0 } []
  | .flush :: rest =>
    match writeEphemeral m s.conn with
    | none => diedT m s
    | some (m', c') => .ok m' { s with conn := c', todo := rest } []
  | .k c :: rest => cont cfg m s c rest

/-- The header of the client's next packet arrives (`n` = its length). -/
def feedHdr (m : Mem) (s : Sess) (n : Nat) : Option (Mem × Sess) :=
  match s.todo with
  | .readHdr :: rest =>
    match readBegin m s.conn (some n) with
    | none => some (m, { s with todo := [], dead := true })
    | some (m', c', .body) => some (m', { s with conn := c', filled := 0, rd := .none, todo := .readBody :: rest })
    | some (m', c', .big) => some (m', { s with conn := c', todo := [], dead := true })
    | some (m', c', _) => some (m', { s with conn := c', filled := 0, rd := .empty, todo := rest })
  | _ => none

/-- The next bytes of the body arrive. -/
def feedBody (m : Mem) (s : Sess) (b : Bytes) : Option (Mem × Sess) :=
  match s.todo with
  | .readBody :: rest =>
    let b := b.take (s.conn.len - s.filled)
    match fill m s.conn s.filled b with
    | none => some (m, { s with todo := [], dead := true })
    | some m' =>
      let filled := s.filled + b.length
      if filled = s.conn.len then
        let rd : Rd := match s.conn.cur with
          | some id => .data id s.conn.len
          | none => .err
        some (m', { s with filled := filled, rd := rd, todo := rest })
      else some (m', { s with filled := filled })
  | _ => none

/-- The client disconnects while the goroutine waits for it. -/
def feedEof (m : Mem) (s : Sess) : Option (Mem × Sess) :=
  match s.todo with
  | .readHdr :: rest =>
    match readBegin m s.conn none with
    | none => some (m, { s with todo := [], dead := true, eof := true })
    | some (m', c', _) => some (m', { s with conn := c', rd := .err, todo := rest, eof := true })
  | .readBody :: rest => some (m, { s with rd := .err, todo := rest, eof := true })
  | _ => none

/-! ### the programs the harness starts -/

def progGreet (cfg : Cfg) : List Instr := [.start (greetLen cfg), .flush, .k .doneGreet]
/-- `ClientConn.readHandshakeResponse` -/
def progRead : List Instr := [.enter, .readHdr, .k .hs1]
def progResp : List Instr := progRead ++ [.k .doneResp]
def progCheck : List Instr := [.k .check]
/-- `Session.Handshake` (and the error packet of `Server.onConn`) -/
def progHs (cfg : Cfg) : List Instr := [.start (greetLen cfg), .flush] ++ progRead ++ [.k .hsTail]
/-- `Session.Run` -/
def progRun : List Instr := [.k .loop]

/-! ### several sessions -/

structure Sys where
  mem : Mem
  sess : List Sess
  deriving Repr, DecidableEq

def Sys.init (n : Nat) : Sys := ⟨Mem.init, List.replicate n Sess.init⟩

/-- One event of a run of the system. -/
inductive Ev where
  | tick
  | start (p : List Instr)     -- a goroutine is started on an idle session
  | hdr (n : Nat)
  | body (b : Bytes)
  | eof
  deriving Repr, DecidableEq

/-- Session `i` makes the step `e` (a step that is not enabled changes nothing). -/
def Sys.step (cfg : Cfg) (w : Sys) (i : Nat) (e : Ev) : Sys × List Obs :=
  match w.sess[i]? with
  | none => (w, [])
  | some s =>
    match e with
    | .tick =>
      match tick cfg w.mem s with
      | .ok m s' obs => (⟨m, w.sess.set i s'⟩, obs)
      | _ => (w, [])
    | .start p => if s.todo.isEmpty && !s.dead then (⟨w.mem, w.sess.set i { s with todo := p }⟩, []) else (w, [])
    | .hdr n =>
      match feedHdr w.mem s n with
      | some (m, s') => (⟨m, w.sess.set i s'⟩, [])
      | none => (w, [])
    | .body b =>
      match feedBody w.mem s b with
      | some (m, s') => (⟨m, w.sess.set i s'⟩, [])
      | none => (w, [])
    | .eof =>
      match feedEof w.mem s with
      | some (m, s') => (⟨m, w.sess.set i s'⟩, [])
      | none => (w, [])

/-- A whole interleaving; the observations of every step, tagged with the session. -/
def Sys.run (cfg : Cfg) : Sys → List (Nat × Ev) → Sys × List (Nat × Obs)
  | w, [] => (w, [])
  | w, (i, e) :: rest =>
    let (w', obs) := Sys.step cfg w i e
    let (w'', more) := Sys.run cfg w' rest
    (w'', obs.map (fun o => (i, o)) ++ more)

/-! ### the schedules of the harness: a goroutine runs until it blocks -/

/-- ticks of session `i` until it blocks, ends or the fuel runs out -/
def runEager (cfg : Cfg) : Nat → Sys → Nat → Sys × List Obs
  | 0, w, _ => (w, [.stuck])
  | f + 1, w, i =>
    match w.sess[i]? with
    | none => (w, [])
    | some s =>
      match tick cfg w.mem s with
      | .ok m s' obs =>
        let (w', more) := runEager cfg f ⟨m, w.sess.set i s'⟩ i
        (w', obs ++ more)
      | .blocked =>
        if s.eof then
          match feedEof w.mem s with
          | some (m, s') =>
            let (w', more) := runEager cfg f ⟨m, w.sess.set i s'⟩ i
            (w', more)
          | none => (w, [.blocked])
        else (w, [.blocked])
      | .idle => (w, [])

/-- Operations of a script (harness/props/c38_own.go). -/
inductive Op where
  | greet | resp | check | hs | run
  | pkt (p : Bytes)
  | part (p : Bytes) (k : Nat)
  | rest
  | eof
  deriving Repr, DecidableEq

def eagerFuel : Nat := 200

/-- `pend[i]`: the second half of a packet session `i`'s client has sent the first half of. -/
def applyOp (cfg : Cfg) (w : Sys) (pend : List (Option Bytes)) (i : Nat) (op : Op) : Sys × List (Option Bytes) × List Obs :=
  match w.sess[i]? with
  | none => (w, pend, [.skip])
  | some s =>
    let busy := !s.todo.isEmpty
    let pending := (pend.getD i none).isSome
    let startP (p : List Instr) : Sys × List (Option Bytes) × List Obs :=
      if busy || s.dead then (w, pend, [.skip]) else
      let (w', obs) := runEager cfg eagerFuel ⟨w.mem, w.sess.set i { s with todo := p }⟩ i
      (w', pend, obs)
    match op with
    | .greet => startP (progGreet cfg)
    | .resp => startP progResp
    | .check => startP progCheck
    | .hs => startP (progHs cfg)
    | .run => startP progRun
    | .pkt p =>
      if !busy || s.dead || pending || s.eof then (w, pend, [.skip]) else
      match feedHdr w.mem s p.length with
      | none => (w, pend, [.skip])
      | some (m, s1) =>
        let (m, s2) := match feedBody m s1 p with
          | some r => r
          | none => (m, s1)
        let (w', obs) := runEager cfg eagerFuel ⟨m, w.sess.set i s2⟩ i
        (w', pend, obs)
    | .part p k =>
      if !busy || s.dead || pending || s.eof || k ≥ p.length then (w, pend, [.skip]) else
      match feedHdr w.mem s p.length with
      | none => (w, pend, [.skip])
      | some (m, s1) =>
        let (m, s2) := match feedBody m s1 (p.take k) with
          | some r => r
          | none => (m, s1)
        let (w', obs) := runEager cfg eagerFuel ⟨m, w.sess.set i s2⟩ i
        (w', pend.set i (some (p.drop k)), obs)
    | .rest =>
      if !busy || s.dead || s.eof then (w, pend, [.skip]) else
      match pend.getD i none with
      | none => (w, pend, [.skip])
      | some b =>
        let (m, s2) := match feedBody w.mem s b with
          | some r => r
          | none => (w.mem, s)
        let (w', obs) := runEager cfg eagerFuel ⟨m, w.sess.set i s2⟩ i
        (w', pend.set i none, obs)
    | .eof =>
      if s.dead || s.eof then (w, pend, [.skip])
      else if !busy then (⟨w.mem, w.sess.set i { s with eof := true }⟩, pend, [.gone])
      else
        let (w', obs) := runEager cfg eagerFuel ⟨w.mem, w.sess.set i { s with eof := true }⟩ i
        (w', pend.set i none, obs)

/-- A script: the observations and the state after every operation. -/
def runScript (cfg : Cfg) : Sys → List (Option Bytes) → List (Nat × Op) → List (List Obs × Sys)
  | _, _, [] => []
  | w, pend, (i, op) :: rest =>
    let (w', pend', obs) := applyOp cfg w pend i op
    (obs, w') :: runScript cfg w' pend' rest

/-- the buffers the connections hold, and the buffers in the pool -/
def owned (ss : List Sess) : List Nat := ss.filterMap (fun s => s.conn.cur)
def free (m : Mem) : List Nat := m.pools.flatMap SyncPool.ids

end GaeaVerif.BufOwn
