-- Root of the GaeaVerif library: models, property theorems and the audit.
import GaeaVerif.Sexp
