#!/bin/sh
# tools/mkwork.sh <group>: isolated scratch worktrees of /verif and /repo for one builder.
set -e
g="$1"
mkdir -p /tmp/work/$g
git -C /verif worktree add -q -B agent-$g /tmp/work/$g/verif HEAD
git -C /repo worktree add -q -B agent-$g /tmp/work/$g/repo HEAD
echo /tmp/work/$g
