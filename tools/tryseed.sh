#!/bin/sh
# tools/tryseed.sh <Cxx> <k> [check-id…]: confirm seeded mutation k of /tmp/seed/<Cxx>/out and run our checks against it.
#  1. in a scratch worktree: demo passes without the change, fails with it; the change compiles
#  2. apply to /repo, run ./check for the given ids (default: Cxx), undo
#  3. keep as /verif/seeded/<Cxx>-<k>/ (patch.diff, demo, meta.json)
id="$1"; k="$2"; shift 2; checks="${*:-$id}"
out=/tmp/seed/$id/out
export GOFLAGS=-mod=mod GOPROXY=off GOSUMDB=off GOTOOLCHAIN=local
w=/tmp/seed/$id/confirm
rm -rf $w; git -C /repo worktree add -q --detach $w HEAD || exit 2
pkgdir=$(grep -m1 -o -E '(proxy|backend|mysql|util|models|cc|parser|core)[A-Za-z0-9_/]*' $out/demo_${k}_test.go | head -1)
pkgdir=${SEED_PKG:-$pkgdir}
name=$(grep -m1 -o -E 'func (Test[A-Za-z0-9_]+)' $out/demo_${k}_test.go | head -1 | sed 's/func //')
cp $out/demo_${k}_test.go $w/$pkgdir/zz_seed_demo_test.go
(cd $w && go test -count=1 -run "^${name}\$" ./$pkgdir/ >/tmp/seed/$id/without_$k.log 2>&1); r0=$?
(cd $w && git apply $out/mutation_$k.diff && go build ./... >/tmp/seed/$id/build_$k.log 2>&1); rb=$?
(cd $w && go test -count=1 -run "^${name}\$" ./$pkgdir/ >/tmp/seed/$id/with_$k.log 2>&1); r1=$?
files=$(cd $w && git diff --name-only | tr '\n' ' ')
pk=$(for f in $files; do echo ./$(dirname $f)/...; done | sort -u | tr '\n' ' ')
rm -f $w/$pkgdir/zz_seed_demo_test.go
(cd /verif && python3 tools/baseline.py $w $pk >/tmp/seed/$id/baseline_$k.log 2>&1); rt=$?
git -C /repo worktree remove --force $w
echo "seed $id-$k: pkg=$pkgdir test=$name demo-without=$r0 build=$rb demo-with=$r1 baseline=$rt"
if [ $r0 -ne 0 ] || [ $rb -ne 0 ] || [ $r1 -eq 0 ] || [ $rt -ne 0 ]; then echo "  NOT CONFIRMED"; exit 1; fi
res=""
git -C /repo apply $out/mutation_$k.diff || exit 2
for c in $checks; do
  o=$(cd /verif && ./check $c 2>&1 | grep -E "^(VIOLATION|OK)" | head -3 | tr '\n' ';')
  echo "  check $c: $o"
  res="$res$c: $o | "
done
git -C /repo checkout -- .
rm -rf /verif/replays
d=/verif/seeded/$id-$k; mkdir -p $d
cp $out/mutation_$k.diff $d/patch.diff; cp $out/demo_${k}_test.go $d/demo_test.go
python3 - "$id" "$k" "$pkgdir" "$name" "$res" <<'PY'
import json,sys
pid,k,pkg,name,res=sys.argv[1:6]
meta=open(f'/tmp/seed/{pid}/out/meta_{k}.txt').read()
json.dump({"property":pid,"breaks":meta,"demo":{"package_dir":pkg,"command":f"go test -count=1 -run '^{name}$' ./{pkg}/","passes_without_change":True,"fails_with_change":True},
 "confirmed":"scratch worktree of /repo HEAD: demo passed without the change, the change built (go build ./...), the demo failed with it, tools/baseline.py on the touched packages reported no stable_pass test lost",
 "our_checks":res},open(f'/verif/seeded/{pid}-{k}/meta.json','w'),indent=1)
PY
