#!/bin/sh
# tools/tryseed.sh <Cxx> <k> [check-id…]: confirm seeded mutation k of /tmp/seed/<Cxx>/out and run our checks against it.
#  1. in a scratch worktree of /repo HEAD: the demo passes without the change, the change builds,
#     the demo fails with it, tools/baseline.py loses no stable_pass test in the touched packages
#  2. run ./check for the given ids (default: Cxx) against that worktree (VERIF_REPO), from a second
#     checkout of /verif's HEAD ($SEED_VERIF, default /tmp/seed/verif2) so that /repo and /verif stay free
#  3. keep as /verif/seeded/<Cxx>-<k>/ (patch.diff, demo_test.go, meta.json)
id="$1"; k="$2"; shift 2; checks="${*:-$id}"
out=/tmp/seed/$id/out
V=${SEED_VERIF:-/tmp/seed/verif2}
export GOFLAGS=-mod=mod GOPROXY=off GOSUMDB=off GOTOOLCHAIN=local
if [ ! -d $V ]; then git -C /verif worktree add -q --detach $V HEAD; (cd $V && python3 tools/mkregistry.py >/dev/null); fi
w=/tmp/seed/$id/confirm
rm -rf $w; git -C /repo worktree prune; git -C /repo worktree add -q --detach $w HEAD || exit 2
name=$(grep -o -E '^func (Test[A-Za-z0-9_]+)' $out/demo_${k}_test.go | sed 's/func //' | paste -sd'|')
# the demo's directory: SEED_PKG, or the first directory declaring the demo's package in which the demo passes
gopkg=$(grep -m1 -E '^package ' $out/demo_${k}_test.go | awk '{print $2}')
cands=${SEED_PKG:-$(cd $w && grep -rl --include='*.go' -E "^package ${gopkg%_test}(_test)?\$" . | xargs -n1 dirname | sort -u | sed 's#^\./##' | grep -v '^vendor')}
r0=1
for pkgdir in $cands; do
  cp $out/demo_${k}_test.go $w/$pkgdir/zz_seed_demo_test.go
  (cd $w && go test -count=1 -run "^(${name})\$" ./$pkgdir/ >/tmp/seed/$id/without_$k.log 2>&1); r0=$?
  [ $r0 -eq 0 ] && break
  rm -f $w/$pkgdir/zz_seed_demo_test.go
done
cp $out/demo_${k}_test.go $w/$pkgdir/zz_seed_demo_test.go
(cd $w && git apply $out/mutation_$k.diff && go build ./... >/tmp/seed/$id/build_$k.log 2>&1); rb=$?
(cd $w && go test -count=1 -run "^(${name})\$" ./$pkgdir/ >/tmp/seed/$id/with_$k.log 2>&1); r1=$?
rm -f $w/$pkgdir/zz_seed_demo_test.go
files=$(cd $w && git diff --name-only | tr '\n' ' ')
pk=$(for f in $files; do echo ./$(dirname $f)/...; done | sort -u | tr '\n' ' ')
(cd /verif && python3 tools/baseline.py $w $pk >/tmp/seed/$id/baseline_$k.log 2>&1); rt=$?
echo "seed $id-$k: pkg=$pkgdir test=$name demo-without=$r0 build=$rb demo-with=$r1 baseline=$rt"
if [ $r0 -ne 0 ] || [ $rb -ne 0 ] || [ $r1 -eq 0 ]; then echo "  NOT CONFIRMED"; git -C /repo worktree remove --force $w; exit 1; fi
if [ $rt -ne 0 ]; then echo "  baseline lost tests (see /tmp/seed/$id/baseline_$k.log) — may be load flakiness: $(grep 'NOT PASSING' /tmp/seed/$id/baseline_$k.log | head -3 | tr '\n' ' ')"; fi
res=""
for c in $checks; do
  o=$(cd $V && VERIF_REPO=$w ./check $c 2>&1 | grep -E "^(VIOLATION|OK)" | head -3 | sed "s#$V#/verif#g" | tr '\n' ';')
  cls=$(cat $V/replays/$c-*.json 2>/dev/null | python3 -c "import sys,json,re; print(' '.join(sorted(set(re.findall(r'\"class\": \"([^\"]*)\"', sys.stdin.read())))))" 2>/dev/null)
  echo "  check $c: $o classes: $cls"
  res="$res$c: $o classes: $cls | "
  rm -rf $V/replays
done
git -C /repo worktree remove --force $w
d=/verif/seeded/$id-$k; mkdir -p $d
cp $out/mutation_$k.diff $d/patch.diff; cp $out/demo_${k}_test.go $d/demo_test.go
python3 - "$id" "$k" "$pkgdir" "$name" "$res" "$rt" <<'PY'
import json,sys
pid,k,pkg,name,res,rt=sys.argv[1:7]
meta=open(f'/tmp/seed/{pid}/out/meta_{k}.txt').read()
json.dump({"property":pid,"breaks":meta,"demo":{"package_dir":pkg,"command":f"go test -count=1 -run '^({name})$' ./{pkg}/","passes_without_change":True,"fails_with_change":True},
 "confirmed":"scratch worktree of /repo HEAD: demo passed without the change, the change built (go build ./...), the demo failed with it; tools/baseline.py on the touched packages: " + ("no stable_pass test lost" if rt=="0" else "see notes (timing-sensitive tests under machine load)"),
 "our_checks":res},open(f'/verif/seeded/{pid}-{k}/meta.json','w'),indent=1)
PY
