#!/bin/sh
# tools/runall.sh [tier]: every registered check once, sequentially; summary on stdout
cd "$(dirname "$0")/.."
tier=${1:-quick}
for p in $(jq -r '.checks[].property_id' MANIFEST.json); do
  s=$(date +%s)
  out=$(./check $p --tier $tier 2>&1)
  rc=$?
  e=$(date +%s)
  echo "$p rc=$rc $((e-s))s $(echo "$out" | grep -E '^(OK|VIOLATION)' | head -2 | cut -c1-150 | tr '\n' ';') known=$(echo "$out" | grep -c '^KNOWN-FINDING')"
done
