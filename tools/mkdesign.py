#!/usr/bin/env python3
"""Regenerates the generated tables of DESIGN.md (between the BEGIN/END GENERATED markers):
   per-property state (from tools/claimed, known/, Props files) and seeded-change results (from seeded/*/meta.json)."""
import glob, json, os, re
ROOT = os.path.dirname(os.path.dirname(os.path.abspath(__file__)))
props = [json.loads(l) for l in open(os.path.join(ROOT, "properties.jsonl"))]
claimed = json.load(open(os.path.join(ROOT, "tools", "claimed.json")))
known = json.load(open(os.path.join(ROOT, "known_findings.json")))

def thm_count(pid):
    p = os.path.join(ROOT, "lean", "GaeaVerif", "Props", pid + ".lean")
    if not os.path.exists(p):
        return 0, []
    src = open(p).read()
    names = re.findall(r"^\s*theorem\s+([\w.']+)", src, re.M)
    return len(names), [n for n in names if n.endswith("_partial")]

rows = ["| prop | theorems (partial ones named) | open known-finding classes | repaired by fix: commits |", "|---|---|---|---|"]
for p in props:
    pid = p["id"]
    if pid not in claimed:
        rows.append(f"| {pid} | not claimed | | |")
        continue
    n, partial = thm_count(pid)
    opens = [e["class"] for e in known["open"] if e["property"] == pid]
    fixed = [e["commit"] for e in known["fixed"] if e["property"] == pid]
    rows.append(f"| {pid} | {n}" + (": " + ", ".join(f"`{x}`" for x in partial) if partial else "") + f" | {'; '.join(opens) or '—'} | {' '.join(fixed) or '—'} |")
state = "\n".join(rows)

srows = ["| seeded change | what it breaks (first line of the seeder's note) | our checks when the change was first tried | our checks on the final tree |", "|---|---|---|---|"]
for d in sorted(glob.glob(os.path.join(ROOT, "seeded", "*", "meta.json"))):
    m = json.load(open(d))
    name = os.path.basename(os.path.dirname(d))
    first = next((l.strip() for l in m["breaks"].splitlines() if l.strip()), "")[:160].replace("|", "/")
    res = m.get("our_checks", "")
    short = []
    for part in res.split(" | "):
        part = part.strip()
        if not part:
            continue
        cid = part.split(":")[0]
        if "VIOLATION" in part:
            cls = part.split("classes:")[-1].strip()
            nf = " (no-failing-input-found)" if "no-failing-input-found" in part and "failing-input-" not in part.split("classes:")[0].replace("no-failing-input-found", "") else ""
            short.append(f"{cid}: caught{nf} [{cls[:90]}]")
        elif "OK" in part:
            short.append(f"{cid}: MISSED")
        else:
            short.append(f"{cid}: ?")
    if m.get("after_strengthening"):
        short.append("after strengthening: " + m["after_strengthening"])
    final = m.get("final_tree", "not re-run").replace("|", "/")[:260]
    srows.append(f"| {name} | {first} | {'; '.join(short)} | {final} |")
seeded = "\n".join(srows)

path = os.path.join(ROOT, "DESIGN.md")
s = open(path).read()
for tag, body in (("STATE", state), ("SEEDED", seeded)):
    b, e = f"<!-- BEGIN GENERATED {tag} -->", f"<!-- END GENERATED {tag} -->"
    if b in s:
        s = s[:s.index(b) + len(b)] + "\n" + body + "\n" + s[s.index(e):]
    else:
        s += f"\n{b}\n{body}\n{e}\n"
open(path, "w").write(s)
print("DESIGN.md tables regenerated")
