#!/usr/bin/env python3
"""tools/baseline.py [repo-dir] [pkg-pattern…]: runs the repository's test suite with the
verif tag OFF and reports every test of /root/.vp/BASELINE.json's stable_pass list (restricted
to the packages run) that did not pass. Exit 0 iff none."""
import json, os, subprocess, sys
repo = sys.argv[1] if len(sys.argv) > 1 else "/repo"
pkgs = sys.argv[2:] or ["./..."]
base = json.load(open("/root/.vp/BASELINE.json"))
stable = set(base["stable_pass"])
env = dict(os.environ, GOFLAGS="-mod=mod", GOPROXY="off", GOSUMDB="off", GOTOOLCHAIN="local")
passed, ran_pkgs = set(), set()
for mod in (".", "./parser/goyacc"):
    if mod != "." and pkgs != ["./..."]:
        continue
    p = subprocess.run(["go", "test", "-json", "-vet=off", "-count=1", "-timeout", "25m"] + pkgs,
                       cwd=os.path.join(repo, mod), env=env, stdout=subprocess.PIPE, stderr=subprocess.DEVNULL, text=True)
    for line in p.stdout.splitlines():
        try:
            e = json.loads(line)
        except ValueError:
            continue
        if e.get("Package"):
            ran_pkgs.add(e["Package"])
        if e.get("Action") == "pass" and e.get("Test"):
            passed.add(e["Package"] + "::" + e["Test"])
want = {t for t in stable if t.split("::")[0] in ran_pkgs}
missing = sorted(want - passed)
print(f"packages run: {len(ran_pkgs)}; stable_pass tests in them: {len(want)}; passed now: {len(want) - len(missing)}; not passing: {len(missing)}")
for t in missing[:40]:
    print("  NOT PASSING:", t)
sys.exit(1 if missing else 0)
