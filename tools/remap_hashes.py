#!/usr/bin/env python3
"""After cherry-picking builder commits into /repo, rewrite the short hashes they
were known by on the builder branch (known/*.json, tools/claimed/*.json, corpus, lean comments, harness comments)
to the hashes they have on /repo's main branch."""
import os, re, subprocess, sys
ROOT = os.path.dirname(os.path.dirname(os.path.abspath(__file__)))
log = subprocess.run(["git", "-C", "/repo", "log", "--format=%H%x00%B%x01"], stdout=subprocess.PIPE, text=True).stdout
m = {}
for entry in log.split("\x01"):
    if "\x00" not in entry:
        continue
    h, body = entry.strip().split("\x00", 1)
    for old in re.findall(r"cherry picked from commit ([0-9a-f]{40})", body):
        m[old[:7]] = h[:7]
if not m:
    sys.exit(0)
pat = re.compile(r"\b(" + "|".join(map(re.escape, m)) + r")\b")
n = 0
for base in ("known", "tools/claimed", "corpus", "lean/GaeaVerif", "harness/props", "harness/extract"):
    for d, _, fs in os.walk(os.path.join(ROOT, base)):
        for f in fs:
            p = os.path.join(d, f)
            try:
                s = open(p).read()
            except Exception:
                continue
            t = pat.sub(lambda x: m[x.group(1)], s)
            if t != s:
                open(p, "w").write(t); n += 1
print(f"remapped {len(m)} hashes in {n} files")
