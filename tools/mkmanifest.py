#!/usr/bin/env python3
"""Regenerates /verif/MANIFEST.json from the table below (kept valid at all times)."""
import json, os, subprocess
ROOT = os.path.dirname(os.path.dirname(os.path.abspath(__file__)))
props = [json.loads(l) for l in open(os.path.join(ROOT, "properties.jsonl"))]

# id -> (technique, level text, level note, design ref)
CLAIMED = json.load(open(os.path.join(ROOT, "tools", "claimed.json")))

hook_commits = subprocess.run(["git", "-C", "/repo", "log", "--format=%h %s"], stdout=subprocess.PIPE, text=True).stdout.splitlines()
hook_commits = [l.split()[0] for l in hook_commits if l.split(" ", 1)[1].startswith("verif hooks")]

checks, na = [], []
for p in props:
    pid = p["id"]
    c = CLAIMED.get(pid)
    if not c:
        na.append({"property_id": pid, "reason": "no check registered yet: model, theorems and correspondence for this property are not built in the committed state (see DESIGN.md section 10 for progress); nothing is claimed"})
        continue
    checks.append({
        "property_id": pid,
        "quick_cmd": f"./check {pid} --tier quick",
        "thorough_cmd": f"./check {pid} --tier thorough",
        "evidence_file": f"/verif/evidence/{pid}.json",
        "replay_cmd_template": f"./check {pid} --replay {{path}}",
        "engine": "lean4-proof+correspondence",
        "level_claimed": {"category": "proof", "text": c["text"], "design_ref": c.get("design_ref", f"DESIGN.md section 4, {pid}")},
        "level_note": c["note"],
        "technique": c["technique"],
    })

manifest = {
    "version": 1,
    "setup_cmd": "cd /verif && ./tools/setup.sh",
    "hooks": {
        "guard": "verif",
        "enable": "go build -tags verif (the harness module /verif/harness replaces github.com/XiaoMi/Gaea with /repo)",
        "baseline_off_cmd": "cd /repo && for m in . ./parser/goyacc; do (cd $m && GOFLAGS=-mod=mod GOPROXY=off GOSUMDB=off go test -vet=off -count=1 -timeout 25m ./...) || exit 1; done",
        "source_commits": hook_commits,
        "add_only": True,
    },
    "engines": [{
        "name": "lean4-proof+correspondence",
        "path": "/verif/check",
        "serves_properties": [c["property_id"] for c in checks],
        "kind_free_text": "Lean 4 theorems about executable models (lean/GaeaVerif), a go/ast translator regenerating facts from /repo on every run (harness/extract), and a differential correspondence check of the models against the real code (harness/props, Lean driver gvdriver)",
    }],
    "checks": checks,
    "not_applicable": na,
    "notes": "Every check: ./check <id> [--tier quick|thorough] [--replay file]; honours VERIF_SEED and VERIF_TIER. See DESIGN.md.",
}
json.dump(manifest, open(os.path.join(ROOT, "MANIFEST.json"), "w"), indent=1)
print(f"{len(checks)} checks, {len(na)} not claimed")
