#!/usr/bin/env python3
"""tools/c10case.py: builds C10 input lines (see harness/props/c10.go for the grammar) from
readable Python dictionaries; `python3 tools/c10case.py` prints the corpus of probed defects
(corpus/C10/probed.case is its output), `decode` turns a hex-atom line back into text."""
import sys

def T(s): return s.encode().hex() if s else '-'
def L(xs): return '(' + ' '.join(xs) + ')'

def rule(table, typ, db='db', parent='', key='id', locs=(), slices=(), dates=(), limit=0, dbs=(), pc='', pl='', hs='',
         seed='', vbt='', pf='', plen='', mb='', me=''):
    return L([T(db), T(table), T(parent), T(typ), T(key), L([str(x) for x in locs]), L([T(s) for s in slices]),
              L([T(d) for d in dates]), str(limit), L([T(d) for d in dbs]), T(pc), T(pl), T(hs), T(seed), T(vbt),
              T(pf), T(plen), T(mb), T(me)])

def sl(name, user='root', master='127.0.0.1:3306', slaves=(), cap=4, maxcap=8):
    return L([T(name), T(user), T(master), L([T(s) for s in slaves]), str(cap), str(maxcap)])

def key(k):
    if isinstance(k, str): return L(['s', T(k)])
    if isinstance(k, tuple): return L(['u', str(k[0])])
    return L(['i', str(k)])

def case(rules, slices=('s0', 's1'), default='s0', keys=(0, 1, -1, 7)):
    return L(['cfg', L([sl(s) for s in slices]), T(default), L(rules), L([key(k) for k in keys])])

MIN = -2**63
CORPUS = [
 ("locations [2,-1,2] passed Verify and listed sub table 1 twice (fixed by 580c21f)",
  case([rule('h', 'hash', locs=[2, -1, 2], slices=['s0', 's1', 's0'])])),
 ("all-zero locations were accepted, hash/mod then divide by zero (fixed by 580c21f)",
  case([rule('h', 'hash', locs=[0, 0], slices=['s0', 's1'])])),
 ("", case([rule('m', 'mod', locs=[0], slices=['s0'])])),
 ("empty locations and slices", case([rule('h', 'hash')])),
 ("locations [-1] on a range rule: make([]NumKeyRange,-1) panicked inside Verify (fixed by 580c21f)",
  case([rule('r', 'range', locs=[-1], slices=['s0'], limit=100)])),
 ("tables T1 and t1 accepted, NewRouter said duplicate (fixed by f516b9b)",
  case([rule('T1', 'hash', locs=[1, 1], slices=['s0', 's1']), rule('t1', 'mod', locs=[2], slices=['s1'])])),
 ("linked rule naming its parent in another case", case([rule('Parent', 'hash', locs=[1, 1], slices=['s0', 's1']), rule('child', 'linked', parent='PARENT', key='pid')])),
 ("empty default slice accepted, NewRouter refused it (fixed by 41e1dba)",
  case([rule('h', 'hash', locs=[1, 1], slices=['s0', 's1'])], default='')),
 ("partition_count 3,-1 made Verify panic (fixed by 8cc93a2)",
  case([rule('l', 'mycat_long', locs=[1, 1], slices=['s0', 's1'], dbs=['db_[0-1]'], pc='3,-1', pl='256,256')])),
 ("partition_length 2048,-1024 passed Verify, Init panicked (fixed by 8cc93a2)",
  case([rule('l', 'mycat_long', locs=[1, 1], slices=['s0', 's1'], dbs=['db_[0-1]'], pc='1,1', pl='2048,-1024')])),
 ("partition lengths wrapping to 1024 modulo 2^64", case([rule('l', 'mycat_string', locs=[1, 2], slices=['s0', 's1'], dbs=['db_[0-2]'], pc='1,1,1',
                pl='9223372036854775807,9223372036854775807,1026', hs='2')])),
 ("range with table_row_limit 0 accepted, routes no key (fixed by 3010668)",
  case([rule('r', 'range', locs=[2, 2], slices=['s0', 's1'], limit=0)], keys=(0, 1, 99, 100))),
 ("", case([rule('r', 'range', locs=[2, 2], slices=['s0', 's1'], limit=-5)], keys=(0, -1, -5, -6))),
 ("padding mod with mod_end beyond pad_length: FindForKey sliced out of range (fixed by 9645f3b)",
  case([rule('p', 'mycat_padding_mod', locs=[1, 1], slices=['s0', 's1'], dbs=['db_[0-1]'], pf='1', plen='5', mb='10', me='12')])),
 ("mod rule, 3 tables, key MinInt64 / uint64 2^63: table index -2 (fixed by 46ea909)",
  case([rule('m', 'mod', locs=[1, 2], slices=['s0', 's1'])], keys=(MIN, (2**63,), '-9223372036854775808', MIN + 1, 2**63 - 1))),
 ("padding mod over all 20 characters of MinInt64 (fixed by 46ea909)",
  case([rule('p', 'mycat_padding_mod', locs=[1, 2], slices=['s0', 's1'], dbs=['db_[0-2]'], pf='1', plen='20', mb='0', me='20')],
       keys=(MIN, MIN + 1, -7, 7, '-9223372036854775808'))),
 ("global rule with more slices than the namespace: slice index 2 of a 2-element list before c29cd53",
  case([rule('g', 'global', locs=[1, 1, 1], slices=['s1', 's0', 's0'])])),
 ("month range whose first month is 25: Verify rejects, NewRouter alone panics on the empty month list",
  case([rule('mo', 'date_month', slices=['s0'], dates=['201525-201601'])])),
 ("leap days and reversed ranges", case([rule('d', 'date_day', slices=['s0', 's1', 's0'], dates=['20160301-20160227', '21000228-21000301', '24000228-24000301']),
                                       rule('y', 'date_year', slices=['s1'], dates=['2017-2015']), rule('mo', 'date_month', slices=['s0', 's1'], dates=['201602-201511', '201603'])])),
 ("day range longer than a Duration (292 years): begin.Sub saturates, 106752 days listed",
  case([rule('d', 'date_day', slices=['s0'], dates=['17000101-20000101'])], keys=())),
 ("linked to a linked rule, linked before its parent", case([rule('c2', 'linked', parent='c1'), rule('c1', 'linked', parent='p'), rule('p', 'mod', locs=[2], slices=['s0'])])),
 ("a linked rule reusing the name of a sharded table", case([rule('p', 'mod', locs=[2], slices=['s0']), rule('P', 'linked', parent='p')])),
 ("calendar ranges that touch: the next range starts on the last period of the previous one (overlap, refused by both)",
  case([rule('y', 'date_year', slices=['s0', 's1'], dates=['2015-2016', '2016-2017']),
        rule('mo', 'date_month', slices=['s0', 's1'], dates=['201511-201601', '201601']),
        rule('d', 'date_day', slices=['s0', 's1'], dates=['20160227-20160229', '20160229-20160301'])])),
 ("", case([rule('y', 'date_year', slices=['s0', 's1'], dates=['2015-2016', '2016-2017'])])),
 ("", case([rule('mo', 'date_month', slices=['s0', 's1'], dates=['201511-201601', '201601'])])),
 ("", case([rule('d', 'date_day', slices=['s0', 's1'], dates=['20160227-20160229', '20160229-20160301'])])),
 ("calendar ranges that are adjacent (accepted)",
  case([rule('y', 'date_year', slices=['s0', 's1'], dates=['2015-2016', '2017']),
        rule('mo', 'date_month', slices=['s0', 's1'], dates=['201511-201512', '201601-201602']),
        rule('d', 'date_day', slices=['s0', 's1'], dates=['20160227-20160229', '20160301'])])),
 ("database range with equal bounds (refused) where the count would fit",
  case([rule('mm', 'mycat_mod', locs=[1, 1], slices=['s0', 's1'], dbs=['db[1-1]', 'x'])])),
 ("", case([rule('g', 'global', locs=[1], slices=['s0'], dbs=['db[1-1]'])])),
 ("global rule on a subset / another order of the namespace slices keeps its configured slices (c29cd53)",
  case([rule('g', 'global', locs=[1, 2], slices=['s2', 's1'])], slices=('s0', 's1', 's2'))),
 ("murmur with no virtual buckets", case([rule('mu', 'mycat_murmur', locs=[1, 1], slices=['s0', 's1'], dbs=['a', 'b'], seed='1', vbt='0')])),
]

if __name__ == '__main__':
    if len(sys.argv) > 1 and sys.argv[1] == 'decode':
        import re
        for line in sys.stdin:
            print(re.sub(r'\b((?:[0-9a-f]{2})+)\b', lambda m: '"' + bytes.fromhex(m.group(1)).decode('utf8', 'replace') + '"'
                         if not m.group(1).isdigit() or len(m.group(1)) > 6 else m.group(1), line), end='')
        sys.exit(0)
    print("; C10 corpus: the probed defects of DESIGN.md (now repaired or listed) and hand-picked boundary cases.")
    print("; generated by tools/c10case.py")
    for what, line in CORPUS:
        if what:
            print("; " + what)
        print(line)
