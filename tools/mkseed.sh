#!/bin/sh
# tools/mkseed.sh <Cxx> [n]: scratch worktree + prompt for an independent mutation-seeding agent.
set -e
id="$1"; n="${2:-3}"
d=/tmp/seed/$id
mkdir -p $d
git -C /repo worktree add -q --detach $d/repo HEAD
python3 - "$id" "$n" <<'PY'
import json,sys
pid,n=sys.argv[1],sys.argv[2]
p=[json.loads(l) for l in open('/verif/properties.jsonl') if json.loads(l)['id']==pid][0]
text=f"{p['title']}.\n{p['statement']}\n(Quantified over: {p['quantifier']['text']})"
t=open('/verif/tools/seed_template.txt').read().replace('@DIR@',f'/tmp/seed/{pid}/repo').replace('@PROPERTY@',text).replace('@N@',n)
open(f'/tmp/seed/{pid}/PROMPT.txt','w').write(t)
PY
echo $d
