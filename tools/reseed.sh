#!/bin/sh
# tools/reseed.sh <Cxx> <k> <check-id…>: re-run checks of /verif (current tree) against an already confirmed seeded change
# and record the outcome as "after_strengthening" in seeded/<Cxx>-<k>/meta.json
id="$1"; k="$2"; shift 2
w=/tmp/seed/$id/recheck; rm -rf $w; git -C /repo worktree prune; git -C /repo worktree add -q --detach $w HEAD || exit 2
(cd $w && git apply /verif/seeded/$id-$k/patch.diff) || { echo "patch does not apply"; git -C /repo worktree remove --force $w; exit 1; }
res=""
for c in "$@"; do
  o=$(cd /verif && VERIF_REPO=$w ./check $c 2>&1 | grep -E "^(VIOLATION|OK)" | head -2 | tr '\n' ';')
  cls=$(cat /verif/replays/$c-*.json 2>/dev/null | python3 -c "import sys,re; print(' '.join(sorted(set(re.findall(r'\"class\": \"([^\"]*)\"', sys.stdin.read())))))")
  case "$o" in *VIOLATION*) r="$c: caught [$cls]";; *) r="$c: still missed";; esac
  echo "  $id-$k $r"; res="$res$r; "
  rm -rf /verif/replays
done
git -C /repo worktree remove --force $w
python3 - "$id-$k" "$res" <<'PY'
import json,sys
p=f'/verif/seeded/{sys.argv[1]}/meta.json'; m=json.load(open(p)); m['after_strengthening']=sys.argv[2].strip('; '); json.dump(m,open(p,'w'),indent=1)
PY
