#!/bin/sh
# Builds the framework offline from files on disk: the Lean project (theorems,
# model driver) and a first harness build to warm the Go build cache.
set -e
cd "$(dirname "$0")/.."
export GOFLAGS=-mod=mod GOPROXY=off GOSUMDB=off GOTOOLCHAIN=local
mkdir -p harness/bin evidence
cp /repo/go.sum harness/go.sum
(cd harness && go build -tags verif -o bin/gvh ./cmd/gvh)
./harness/bin/gvh extract -repo /repo -out lean/GaeaVerif/Gen
(cd lean && lake build)
echo setup-ok
