#!/bin/sh
# tools/merge_agent.sh <group>: bring a builder's work into /repo and /verif.
#  - cherry-picks the commits of branch agent-<group> of /repo that are not on main (oldest first)
#  - checks out, from branch agent-<group> of /verif, every file the builder added or changed,
#    except the generated registries, then regenerates the registries.
# Nothing is committed in /verif; review, run the checks, then commit.
set -e
g="$1"
cd /repo
base=$(git merge-base HEAD agent-$g)
commits=$(git rev-list --reverse $base..agent-$g)
for c in $commits; do
  if git cherry-pick -x --allow-empty $c >/dev/null 2>&1; then
    echo "repo: picked $(git log --format='%h %s' -1 $c)"
  else
    echo "repo: CONFLICT on $(git log --format='%h %s' -1 $c)"; git status --short | head; exit 1
  fi
done
cd /verif
vbase=$(git merge-base HEAD agent-$g)
files=$(git diff --name-only $vbase agent-$g | grep -v -E '^(lean/GaeaVerif/Drv/All.lean|lean/GaeaVerif.lean|known_findings.json|tools/claimed.json|MANIFEST.json)$' || true)
for f in $files; do
  if git cat-file -e agent-$g:"$f" 2>/dev/null; then
    if ! git diff --quiet $vbase HEAD -- "$f" 2>/dev/null && git cat-file -e $vbase:"$f" 2>/dev/null; then
      echo "verif: SHARED FILE changed on both sides, not taken: $f"
    else
      mkdir -p "$(dirname "$f")"; git show agent-$g:"$f" > "$f"; echo "verif: $f"
    fi
  else
    echo "verif: deleted on branch (ignored): $f"
  fi
done
python3 tools/mkregistry.py
