// gvh: the Go side of the verification machinery.
//
//	gvh run <ID> -tier quick|thorough -seed N -driver <gvdriver> -corpus <dir> -out <file>
//	gvh exec <ID> '<input s-expression>'      run the real code on one input
//	gvh extract -repo /repo -out <Gen dir>    translator: facts of the source as Lean
//	gvh list
package main

import (
	"flag"
	"fmt"
	"os"

	"gaeaverif/harness/core"
	"gaeaverif/harness/extract"
	_ "gaeaverif/harness/props"
)

func main() {
	if len(os.Args) < 2 {
		fmt.Fprintln(os.Stderr, "usage: gvh run|exec|extract|list …")
		os.Exit(2)
	}
	switch os.Args[1] {
	case "list":
		for _, id := range core.IDs() {
			fmt.Println(id)
		}
	case "run":
		fs := flag.NewFlagSet("run", flag.ExitOnError)
		tier := fs.String("tier", "quick", "")
		seed := fs.Int64("seed", 1, "")
		driver := fs.String("driver", "/verif/lean/.lake/build/bin/gvdriver", "")
		corpus := fs.String("corpus", "", "")
		out := fs.String("out", "", "")
		if len(os.Args) < 3 {
			os.Exit(2)
		}
		id := os.Args[2]
		fs.Parse(os.Args[3:])
		p := core.Lookup(id)
		if p == nil {
			fmt.Fprintln(os.Stderr, "unknown property", id)
			os.Exit(2)
		}
		os.Exit(core.RunProperty(p, *tier, *seed, *driver, *corpus, *out))
	case "exec":
		if len(os.Args) < 4 {
			os.Exit(2)
		}
		p := core.Lookup(os.Args[2])
		if p == nil {
			fmt.Fprintln(os.Stderr, "unknown property", os.Args[2])
			os.Exit(2)
		}
		fmt.Println(core.SafeExec(p, core.MustParse(os.Args[3])))
	case "extract":
		fs := flag.NewFlagSet("extract", flag.ExitOnError)
		repo := fs.String("repo", "/repo", "")
		out := fs.String("out", "/verif/lean/GaeaVerif/Gen", "")
		fs.Parse(os.Args[2:])
		if err := extract.Run(*repo, *out); err != nil {
			fmt.Fprintln(os.Stderr, "extract:", err)
			os.Exit(1)
		}
	default:
		fmt.Fprintln(os.Stderr, "unknown command", os.Args[1])
		os.Exit(2)
	}
}
