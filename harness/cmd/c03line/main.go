// c03line writes C03 input lines (corpus/C03/*.case) for statements given on
// stdin, one per line:   RULE | SQL      or      RULE | PK:START[:FAILAT] | SQL
// Output: "; SQL", the input line and, with -x, "; => <what the planner of the
// repository does with it>".
package main

import (
	"bufio"
	"fmt"
	"os"
	"strconv"
	"strings"

	"gaeaverif/harness/props"
)

func main() {
	show := len(os.Args) > 1 && os.Args[1] == "-x"
	sc := bufio.NewScanner(os.Stdin)
	sc.Buffer(make([]byte, 1<<20), 1<<20)
	for sc.Scan() {
		line := strings.TrimSpace(sc.Text())
		if line == "" || strings.HasPrefix(line, "#") || strings.HasPrefix(line, ";") {
			if strings.HasPrefix(line, ";") {
				fmt.Println(line)
			}
			continue
		}
		parts := strings.SplitN(line, "|", 3)
		rule := strings.TrimSpace(parts[0])
		sql := strings.TrimSpace(parts[len(parts)-1])
		var args []string
		if len(parts) == 3 {
			args = strings.Split(strings.TrimSpace(parts[1]), ":")
		}
		fmt.Println("; " + sql)
		var in fmt.Stringer
		var ok bool
		if len(args) >= 2 {
			start, _ := strconv.ParseInt(args[1], 10, 64)
			failAt := -1
			if len(args) > 2 {
				failAt, _ = strconv.Atoi(args[2])
			}
			l, _, o := props.InsLine(rule, sql, props.InsSeq(args[0], start, failAt))
			in, ok = l, o
			if ok && show {
				fmt.Println("; => " + props.InsExec(l))
			}
		} else {
			l, _, o := props.InsLine(rule, sql, nil)
			in, ok = l, o
			if ok && show {
				fmt.Println("; => " + props.InsExec(l))
			}
		}
		if !ok {
			fmt.Println("; (not an INSERT the parser accepts)")
			continue
		}
		fmt.Println(in.String())
	}
}
