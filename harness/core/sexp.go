// Package core holds what every property's correspondence check shares:
// s-expressions (the line protocol with the Lean driver), the seeded PRNG,
// the batch runner and the result file.
package core

import (
	"encoding/hex"
	"fmt"
	"strconv"
	"strings"
)

// Sexp is an atom (List == nil && IsAtom) or a list.
type Sexp struct {
	Atom   string
	List   []Sexp
	IsAtom bool
}

func A(s string) Sexp   { return Sexp{Atom: s, IsAtom: true} }
func L(xs ...Sexp) Sexp { return Sexp{List: append([]Sexp{}, xs...)} }
func I(n int64) Sexp    { return A(strconv.FormatInt(n, 10)) }
func U(n uint64) Sexp   { return A(strconv.FormatUint(n, 10)) }
func B(b bool) Sexp {
	if b {
		return A("t")
	}
	return A("f")
}
func Hex(b []byte) Sexp {
	if len(b) == 0 {
		return A("-")
	}
	return A(hex.EncodeToString(b))
}
func Text(s string) Sexp { return Hex([]byte(s)) }
func Ints(ns []int) Sexp {
	xs := make([]Sexp, len(ns))
	for i, n := range ns {
		xs[i] = I(int64(n))
	}
	return L(xs...)
}

func (s Sexp) String() string {
	if s.IsAtom {
		return s.Atom
	}
	parts := make([]string, len(s.List))
	for i, x := range s.List {
		parts[i] = x.String()
	}
	return "(" + strings.Join(parts, " ") + ")"
}

func (s Sexp) Int() int64 {
	n, err := strconv.ParseInt(s.Atom, 10, 64)
	if err != nil {
		panic("sexp: not an int: " + s.String())
	}
	return n
}

func (s Sexp) Uint() uint64 {
	n, err := strconv.ParseUint(s.Atom, 10, 64)
	if err != nil {
		panic("sexp: not a uint: " + s.String())
	}
	return n
}

func (s Sexp) Bool() bool { return s.Atom == "t" }

func (s Sexp) Bytes() []byte {
	if s.Atom == "-" {
		return []byte{}
	}
	b, err := hex.DecodeString(s.Atom)
	if err != nil {
		panic("sexp: not hex: " + s.String())
	}
	return b
}

func (s Sexp) Str() string { return string(s.Bytes()) }

// Head returns the leading atom of a list ("" if none).
func (s Sexp) Head() string {
	if !s.IsAtom && len(s.List) > 0 && s.List[0].IsAtom {
		return s.List[0].Atom
	}
	return ""
}

func (s Sexp) Nth(i int) Sexp {
	if s.IsAtom || i >= len(s.List) {
		panic(fmt.Sprintf("sexp: no element %d in %s", i, s.String()))
	}
	return s.List[i]
}

// ParseLine parses the top-level expressions of one line.
func ParseLine(line string) ([]Sexp, error) {
	p := &parser{s: line}
	xs, err := p.list(true)
	if err != nil {
		return nil, err
	}
	return xs, nil
}

type parser struct {
	s string
	i int
}

func (p *parser) list(top bool) ([]Sexp, error) {
	var out []Sexp
	for {
		for p.i < len(p.s) && (p.s[p.i] == ' ' || p.s[p.i] == '\t' || p.s[p.i] == '\n' || p.s[p.i] == '\r') {
			p.i++
		}
		if p.i >= len(p.s) {
			if top {
				return out, nil
			}
			return nil, fmt.Errorf("unexpected end")
		}
		c := p.s[p.i]
		switch {
		case c == ')':
			if top {
				return nil, fmt.Errorf("unexpected )")
			}
			p.i++
			return out, nil
		case c == '(':
			p.i++
			xs, err := p.list(false)
			if err != nil {
				return nil, err
			}
			out = append(out, Sexp{List: append([]Sexp{}, xs...)})
		default:
			j := p.i
			for j < len(p.s) && !strings.ContainsRune(" \t\n\r()", rune(p.s[j])) {
				j++
			}
			out = append(out, A(p.s[p.i:j]))
			p.i = j
		}
	}
}

// MustParse parses a line holding exactly one expression.
func MustParse(line string) Sexp {
	xs, err := ParseLine(line)
	if err != nil || len(xs) != 1 {
		panic("sexp: cannot parse " + line)
	}
	return xs[0]
}
