package core

import (
	"os"
	"strings"
	"time"
)

// Shrinking of failing inputs: a judged violation is reduced by deleting list
// elements and by replacing a list by one of its own elements, as long as the
// property oracle still reports the *same* violation class on the
// implementation's output for the reduced input (a reduced input the model
// cannot parse is never accepted).

func shrinkCandidates(s Sexp, keep map[string]bool) []Sexp {
	var out []Sexp
	var walk func(path []int, node Sexp)
	replaceAt := func(path []int, repl Sexp, del bool) Sexp {
		var rec func(n Sexp, depth int) Sexp
		rec = func(n Sexp, depth int) Sexp {
			if depth == len(path) {
				return repl
			}
			cp := Sexp{List: make([]Sexp, 0, len(n.List))}
			for i, c := range n.List {
				if i == path[depth] {
					if depth == len(path)-1 && del {
						continue
					}
					cp.List = append(cp.List, rec(c, depth+1))
				} else {
					cp.List = append(cp.List, c)
				}
			}
			return cp
		}
		return rec(s, 0)
	}
	walk = func(path []int, node Sexp) {
		if node.IsAtom || keep[node.Head()] || len(out) >= 400 {
			return
		}
		for i, c := range node.List {
			p := append(append([]int{}, path...), i)
			if i > 0 || !c.IsAtom { // keep the head atom of a form
				out = append(out, replaceAt(p, Sexp{}, true)) // delete element i
			}
			if !c.IsAtom && !keep[c.Head()] {
				for _, gc := range c.List {
					if !gc.IsAtom {
						out = append(out, replaceAt(p, gc, false)) // hoist a sub-form
					}
				}
				walk(p, c)
			}
		}
	}
	walk(nil, s)
	return out
}

// shrink reduces one failing input; class is the oracle class to preserve
// (without the "impl-differs " prefix); differs = the finding is one where the
// implementation's answer is not the model's, and the shrunk input must stay one
// (otherwise a listed class could shrink to its known witness, on which they agree).
func (r *Run) shrink(in Sexp, class string, differs bool, budget int) (Sexp, int) {
	p := r.Prop
	cur := in
	used := 0
	deadline := time.Now().Add(20 * time.Second)
	for progress := true; progress && used < budget && time.Now().Before(deadline); {
		progress = false
		keep := map[string]bool{}
		for _, h := range p.ShrinkKeep {
			keep[h] = true
		}
		cands := shrinkCandidates(cur, keep)
		for lo := 0; lo < len(cands) && !progress && used < budget; lo += 60 {
			chunk := cands[lo:min(lo+60, len(cands))]
			var lines []string
			impls := make([]string, len(chunk))
			for i, c := range chunk {
				impls[i] = SafeExec(p, c)
				lines = append(lines, p.ID+" m "+c.String(), p.ID+" s "+c.String()+" "+quoteOut(impls[i]))
			}
			used += len(chunk)
			ans, err := DriverBatch(r.Driver, lines)
			if err != nil {
				return cur, used
			}
			for i, c := range chunk {
				mo, _ := splitVerdict(ans[2*i])
				if strings.HasPrefix(mo, "bad") || len(c.String()) >= len(cur.String()) {
					continue
				}
				if differs && mo == impls[i] {
					continue
				}
				v := ans[2*i+1]
				if strings.HasPrefix(v, "viol") && strings.TrimSpace(strings.TrimPrefix(v, "viol")) == class {
					cur = c
					progress = true
					break
				}
			}
		}
	}
	return cur, used
}

// ShrinkViolations replaces the first violation of every class by its shrunk form.
func (r *Run) ShrinkViolations() {
	seen := map[string]bool{}
	for i := range r.Res.Violations {
		v := &r.Res.Violations[i]
		if seen[v.Class] || v.Kind != "failing-input" || v.Input == "" || strings.HasPrefix(v.Input, "(plan …") || len(v.Input) > 20000 || v.Impl == "hang" {
			continue
		}
		// listed known findings are reported as they are (their witnesses are in the corpus)
		if strings.Contains(","+os.Getenv("VERIF_KNOWN_CLASSES")+",", ","+v.Class+",") {
			continue
		}
		seen[v.Class] = true
		xs, err := ParseLine(v.Input)
		if err != nil || len(xs) != 1 {
			continue
		}
		class := strings.TrimPrefix(v.Class, "impl-differs ")
		small, used := r.shrink(xs[0], class, strings.HasPrefix(v.Class, "impl-differs "), 1500)
		if len(small.String()) < len(v.Input) {
			v.Detail += " [shrunk from " + itoa(len(v.Input)) + " to " + itoa(len(small.String())) + " characters in " + itoa(used) + " evaluations; original: " + v.Input + "]"
			v.Input = small.String()
			v.Impl = SafeExec(r.Prop, small)
			if ans, err := DriverBatch(r.Driver, []string{r.Prop.ID + " m " + v.Input}); err == nil {
				v.Model = ans[0]
			}
		}
	}
}

func itoa(n int) string {
	if n == 0 {
		return "0"
	}
	var b []byte
	for n > 0 {
		b = append([]byte{byte('0' + n%10)}, b...)
		n /= 10
	}
	return string(b)
}
