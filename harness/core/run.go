package core

import (
	"bufio"
	"bytes"
	"encoding/json"
	"fmt"
	"math/rand"
	"os"
	"os/exec"
	"path/filepath"
	"sort"
	"strings"
	"time"
)

// Property is one correspondence check: inputs are s-expressions, Exec runs
// the real code of /repo on an input and returns a canonical one-line output,
// the Lean driver runs the model on the same line.
type Property struct {
	ID   string
	Rule string // how cases are generated and what makes one non-trivial
	// Generate emits inputs; it must derive every random choice from g.Rand.
	Generate func(g *Gen)
	// Exec runs the implementation. A Go panic is caught by the runner and
	// reported as the outcome "panic".
	Exec func(in Sexp) string
	// Trivial tells whether an (input, implementation output) pair is a
	// trivial case (rejected input, empty history …). Default: outputs that
	// start with "err" or "panic" are trivial.
	Trivial func(in Sexp, out string) bool
	// Extra runs additional whole-run checks (race detector runs, process
	// level replays …) and may add violations.
	Extra func(r *Run)
	// Assumptions listed in the evidence file.
	Assumptions []string
	// ShrinkKeep names the heads of forms that shrinking must treat as atomic
	// (facts recorded from the implementation at generation time, literals …).
	ShrinkKeep []string
}

var registry = map[string]*Property{}

func Register(p *Property) { registry[p.ID] = p }

func Lookup(id string) *Property { return registry[id] }

func IDs() []string {
	var ids []string
	for id := range registry {
		ids = append(ids, id)
	}
	sort.Strings(ids)
	return ids
}

// Gen is handed to Property.Generate.
type Gen struct {
	Tier  string // quick | thorough | search
	Rand  *rand.Rand
	cases []genCase
	seen  map[string]bool
	dup   int
}

type genCase struct {
	in   Sexp
	line string
	tags []string
	src  string // corpus | gen
}

// Emit adds an input; tags feed the input-distribution table of the evidence.
func (g *Gen) Emit(in Sexp, tags ...string) {
	line := in.String()
	if g.seen[line] {
		g.dup++
		return
	}
	g.seen[line] = true
	g.cases = append(g.cases, genCase{in: in, line: line, tags: tags, src: "gen"})
}

// Scale returns q in the quick tier, t in the thorough tier and s when
// searching for a failing input after a broken tie.
func (g *Gen) Scale(q, t int) int {
	switch g.Tier {
	case "thorough":
		return t
	case "search":
		return t
	}
	return q
}

func (g *Gen) Intn(n int) int { return g.Rand.Intn(n) }

// Pick returns a random element of xs.
func Pick[T any](g *Gen, xs []T) T { return xs[g.Rand.Intn(len(xs))] }

// Finding is one observed problem.
type Finding struct {
	Kind   string `json:"kind"`  // failing-input | disagreement | extra
	Class  string `json:"class"` // class reported by the property oracle ("" if none)
	Input  string `json:"input"`
	Impl   string `json:"impl"`
	Model  string `json:"model"`
	Detail string `json:"detail,omitempty"`
}

// Result is what `gvh run` writes for the check script.
type Result struct {
	Property       string         `json:"property"`
	Tier           string         `json:"tier"`
	Seed           int64          `json:"seed"`
	Evaluations    int            `json:"evaluations"`
	Distinct       int            `json:"distinct"`
	Nontrivial     int            `json:"distinct_nontrivial"`
	CorpusCases    int            `json:"corpus_cases"`
	Duplicates     int            `json:"duplicates_dropped"`
	Rule           string         `json:"rule"`
	Samples        []any          `json:"samples"`
	Distribution   map[string]int `json:"distribution"`
	Outcomes       map[string]int `json:"outcomes"`
	Disagreements  []Finding      `json:"disagreements"`
	NDisagreements int            `json:"n_disagreements"`
	Violations     []Finding      `json:"violations"` // property fails (oracle verdict), model and impl agreeing or not
	NViolations    int            `json:"n_violations"`
	SearchRan      bool           `json:"search_ran"`
	Assumptions    []string       `json:"assumptions"`
	WallS          float64        `json:"wall_s"`
	Notes          []string       `json:"notes,omitempty"`
}

// Run is the state of one run, visible to Property.Extra.
type Run struct {
	Prop   *Property
	Tier   string
	Seed   int64
	Driver string
	Res    *Result
	Rand   *rand.Rand
}

func (r *Run) AddViolation(f Finding) {
	r.Res.NViolations++
	// keep a bounded number of examples *per class*, so that many hits of a
	// listed known finding can never crowd out a new kind of violation
	n := 0
	for _, v := range r.Res.Violations {
		if v.Class == f.Class {
			n++
		}
	}
	if n < 12 && len(r.Res.Violations) < 2000 {
		r.Res.Violations = append(r.Res.Violations, f)
	}
}

func (r *Run) Note(format string, a ...any) {
	r.Res.Notes = append(r.Res.Notes, fmt.Sprintf(format, a...))
}

// SafeExec runs the implementation on one input, turning a panic into the
// outcome "panic".
func SafeExec(p *Property, in Sexp) string {
	run := func() (out string) {
		defer func() {
			if e := recover(); e != nil {
				out = "panic"
				if os.Getenv("VERIF_DEBUG_PANIC") != "" {
					fmt.Fprintf(os.Stderr, "panic on %s: %v\n", in.String(), e)
				}
			}
		}()
		out = p.Exec(in)
		out = strings.ReplaceAll(out, "\n", " ")
		return
	}
	// A case that does not come back (a loop that never ends in the code under
	// test) is the outcome "hang"; the run goes on. The abandoned goroutine keeps
	// running, so after the first hang the remaining results are only indicative.
	limit := 180 * time.Second
	if s := os.Getenv("VERIF_EXEC_TIMEOUT"); s != "" {
		if d, err := time.ParseDuration(s); err == nil {
			limit = d
		}
	}
	ch := make(chan string, 1)
	go func() { ch <- run() }()
	select {
	case out := <-ch:
		return out
	case <-time.After(limit):
		return "hang"
	}
}

// safeExtra runs Property.Extra with a time limit of its own.
func safeExtra(p *Property, r *Run) {
	done := make(chan struct{})
	go func() {
		defer close(done)
		defer func() {
			if e := recover(); e != nil {
				r.AddViolation(Finding{Kind: "failing-input", Class: "whole-run-check-panicked", Input: "(extra)", Impl: fmt.Sprint(e)})
			}
		}()
		p.Extra(r)
	}()
	select {
	case <-done:
	case <-time.After(20 * time.Minute):
		r.AddViolation(Finding{Kind: "failing-input", Class: "whole-run-check-hangs", Input: "(extra)", Impl: "hang",
			Detail: "the property's whole-run check did not finish within 20 minutes"})
	}
}

// DriverBatch pipes lines to the Lean driver and returns one answer per line.
func DriverBatch(driver string, lines []string) ([]string, error) {
	if len(lines) == 0 {
		return nil, nil
	}
	cmd := exec.Command(driver)
	var in bytes.Buffer
	for _, l := range lines {
		in.WriteString(l)
		in.WriteByte('\n')
	}
	cmd.Stdin = &in
	var out bytes.Buffer
	cmd.Stdout = &out
	cmd.Stderr = os.Stderr
	if err := cmd.Run(); err != nil {
		return nil, fmt.Errorf("driver: %v", err)
	}
	var res []string
	sc := bufio.NewScanner(&out)
	sc.Buffer(make([]byte, 1<<20), 1<<30)
	for sc.Scan() {
		res = append(res, sc.Text())
	}
	if len(res) != len(lines) {
		return nil, fmt.Errorf("driver answered %d lines for %d requests", len(res), len(lines))
	}
	return res, nil
}

func splitVerdict(s string) (out, verdict string) {
	if i := strings.Index(s, " | "); i >= 0 {
		return s[:i], strings.TrimSpace(s[i+3:])
	}
	return s, ""
}

func outcomeKey(out string) string {
	f := strings.Fields(strings.Trim(out, "()"))
	if len(f) == 0 {
		return "empty"
	}
	switch f[0] {
	case "ok", "fail", "panic", "reject", "accept", "t", "f", "none":
		return f[0]
	case "err":
		if len(f) > 1 && len(f[1]) <= 32 {
			return "err " + f[1]
		}
		return "err"
	}
	return "value"
}

func loadCorpus(dir string) []string {
	var lines []string
	files, _ := filepath.Glob(filepath.Join(dir, "*.case"))
	sort.Strings(files)
	for _, f := range files {
		data, err := os.ReadFile(f)
		if err != nil {
			continue
		}
		for _, l := range strings.Split(string(data), "\n") {
			l = strings.TrimSpace(l)
			if l == "" || strings.HasPrefix(l, ";") {
				continue
			}
			lines = append(lines, l)
		}
	}
	return lines
}

// evaluate runs a set of cases through impl and model and records findings.
func (r *Run) evaluate(cases []genCase) (disagree int, judgedViolations int) {
	p := r.Prop
	res := r.Res
	impl := make([]string, len(cases))
	lines := make([]string, len(cases))
	hangs := 0
	for i, c := range cases {
		impl[i] = SafeExec(p, c.in)
		lines[i] = p.ID + " m " + c.line
		if impl[i] == "hang" {
			// the abandoned goroutine still spins; two such cases are enough to
			// report, the rest of the batch would only be slowed down by them
			hangs++
			if hangs >= 2 {
				r.Note("stopped after %d cases that did not come back within the per-case time limit; %d cases of this batch were not run", hangs, len(cases)-i-1)
				cases, impl, lines = cases[:i+1], impl[:i+1], lines[:i+1]
				break
			}
		}
	}
	model, err := DriverBatch(r.Driver, lines)
	if err != nil {
		res.NDisagreements++
		res.Disagreements = append(res.Disagreements, Finding{Kind: "disagreement", Detail: err.Error()})
		return 1, 0
	}
	var askIdx []int
	var ask []string
	for i, c := range cases {
		res.Evaluations++
		mo, verdict := splitVerdict(model[i])
		trivial := strings.HasPrefix(impl[i], "err") || strings.HasPrefix(impl[i], "panic")
		if p.Trivial != nil {
			trivial = p.Trivial(c.in, impl[i])
		}
		if !trivial {
			res.Nontrivial++
		}
		for _, t := range c.tags {
			if t == "" {
				continue
			}
			res.Distribution[t]++
		}
		res.Outcomes[outcomeKey(impl[i])]++
		if impl[i] == "hang" {
			// no answer at all: the property cannot hold on this input whatever it asks of the answer
			disagree++
			judgedViolations++
			res.NDisagreements++
			r.AddViolation(Finding{Kind: "failing-input", Class: "impl-differs case-does-not-terminate", Input: c.line, Impl: impl[i], Model: mo, Detail: "the implementation did not come back within the per-case time limit (VERIF_EXEC_TIMEOUT, default 180s); the model answers"})
			continue
		}
		if mo != impl[i] {
			disagree++
			res.NDisagreements++
			if len(res.Disagreements) < 50 {
				res.Disagreements = append(res.Disagreements, Finding{Kind: "disagreement", Input: c.line, Impl: impl[i], Model: mo})
			}
			askIdx = append(askIdx, i)
			ask = append(ask, p.ID+" s "+c.line+" "+quoteOut(impl[i]))
			continue
		}
		if strings.HasPrefix(verdict, "viol") {
			r.AddViolation(Finding{Kind: "failing-input", Class: strings.TrimSpace(strings.TrimPrefix(verdict, "viol")), Input: c.line, Impl: impl[i], Model: mo, Detail: "model and implementation agree; the property oracle rejects the result"})
		}
	}
	if len(ask) > 0 {
		ans, err := DriverBatch(r.Driver, ask)
		if err == nil {
			for k, a := range ans {
				i := askIdx[k]
				if strings.HasPrefix(a, "viol") {
					judgedViolations++
					r.AddViolation(Finding{Kind: "failing-input", Class: "impl-differs " + strings.TrimSpace(strings.TrimPrefix(a, "viol")), Input: cases[i].line, Impl: impl[i], Model: model[i], Detail: "implementation differs from the model and the property oracle rejects the implementation's result"})
				}
			}
		}
	}
	return
}

// quoteOut turns an implementation output into one s-expression argument.
func quoteOut(s string) string {
	xs, err := ParseLine(s)
	if err == nil && len(xs) == 1 {
		return s
	}
	if err == nil {
		return "(" + s + ")"
	}
	return Text(s).String()
}

// RunProperty is the whole correspondence run for one property.
func RunProperty(p *Property, tier string, seed int64, driver, corpusDir, outFile string) int {
	start := time.Now()
	res := &Result{Property: p.ID, Tier: tier, Seed: seed, Rule: p.Rule,
		Distribution: map[string]int{}, Outcomes: map[string]int{}, Assumptions: p.Assumptions}
	r := &Run{Prop: p, Tier: tier, Seed: seed, Driver: driver, Res: res, Rand: rand.New(rand.NewSource(seed ^ 0x5eed))}

	g := &Gen{Tier: tier, Rand: rand.New(rand.NewSource(seed)), seen: map[string]bool{}}
	for _, l := range loadCorpus(corpusDir) {
		xs, err := ParseLine(l)
		if err != nil || len(xs) != 1 {
			res.Notes = append(res.Notes, "unparsable corpus line: "+l)
			continue
		}
		if !g.seen[l] {
			g.seen[xs[0].String()] = true
			g.cases = append(g.cases, genCase{in: xs[0], line: xs[0].String(), tags: []string{"corpus"}, src: "corpus"})
			res.CorpusCases++
		}
	}
	if p.Generate != nil {
		p.Generate(g)
	}
	res.Distinct = len(g.cases)
	res.Duplicates = g.dup
	dis, _ := r.evaluate(g.cases)

	// samples: a few cases spread over the run
	if n := len(g.cases); n > 0 {
		step := n/6 + 1
		for i := 0; i < n && len(res.Samples) < 8; i += step {
			res.Samples = append(res.Samples, map[string]string{"input": g.cases[i].line, "impl": SafeExec(p, g.cases[i].in)})
		}
	}

	// A broken tie: look for a concrete failing input of the property.
	if dis > 0 && res.NViolations == 0 && tier != "search" && p.Generate != nil {
		res.SearchRan = true
		g2 := &Gen{Tier: "search", Rand: rand.New(rand.NewSource(seed + 7919)), seen: g.seen}
		p.Generate(g2)
		r.evaluate(g2.cases)
	}
	if p.Extra != nil {
		safeExtra(p, r)
	}
	// known findings of the unchanged tree are reported as they are; anything
	// else is shrunk for the replay file (the check script decides which is which,
	// shrinking is cheap enough to do for the first violation of every class)
	if os.Getenv("VERIF_NO_SHRINK") == "" {
		r.ShrinkViolations()
	}
	res.WallS = time.Since(start).Seconds()
	data, _ := json.MarshalIndent(res, "", " ")
	if outFile != "" {
		if err := os.WriteFile(outFile, data, 0o644); err != nil {
			fmt.Fprintln(os.Stderr, "cannot write result:", err)
			return 2
		}
	} else {
		os.Stdout.Write(data)
	}
	if res.NDisagreements > 0 || res.NViolations > 0 {
		return 1
	}
	return 0
}
