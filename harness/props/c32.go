package props

import (
	"encoding/json"
	"fmt"
	"net"
	"net/http"
	"net/http/httptest"
	"sort"
	"strings"
	"sync"
	"sync/atomic"
	"time"

	"gaeaverif/harness/core"

	"github.com/XiaoMi/Gaea/cc/service"
	"github.com/XiaoMi/Gaea/models"
	"github.com/XiaoMi/Gaea/proxy/server"
)

// C32 — a namespace change is applied on all proxies or on none: the real
// cc/service.ModifyNamespace and DelNamespace run against an in-memory etcd
// (c32_etcd.go) and K proxies, each the real admin API (AdminServer routes and
// handlers, Server, Manager) behind a fault injector.
//
// Input:  (w K ((name ver) …) op …)
//   op = (modify name ver kind F0 … F(K-1))   kind = good | invalid | unbuildable
//        Fi = four letters: outcome of prepare attempt 1, 2, 3 and of the commit on proxy i
//      | (del name L0 … L(K-1))               Li = one letter: outcome of the delete on proxy i
//      | (modify2 (name ver) (name' ver') T…)  two concurrent changes, no injected fault; the
//        requests reach the proxies in the order T… = (x i p|c): change x ∈ {a,b}, proxy i, prepare|commit
//   letters: o = performed, answered;  f = not performed, error answered;  d = not performed, connection dropped;
//            l = performed, error answered;  t = performed, connection dropped (what a timeout looks like to cc)
// Output: ((init STORE P0 …) (result STORE P0 …) …), one entry per op; STORE = stored version per name (- absent),
//         Pi = ((version per name) flag) with flag = p while a prepare is pending on proxy i.

const (
	c32Root = "/c32"
	c32Key  = "1234abcd5678efg*"
)

func init() {
	core.Register(&core.Property{
		ID: "C32",
		Rule: "histories of 1-5 control-plane operations (ModifyNamespace of a valid / invalid / unbuildable configuration, DelNamespace) against 1-3 proxies and 2-3 namespaces, " +
			"with a scripted outcome (performed or not x answered, error, connection dropped) for every prepare attempt, commit and delete on every proxy: fault-free runs, " +
			"retried prepares, prepare failures on one or all proxies, commit failures before/after/without another proxy's commit, lost answers, delete failures at each position, " +
			"pairs of concurrent changes under explicit request schedules, and (thorough) every fault placement of one change on two and three proxies; " +
			"non-trivial = at least one operation reported success",
		Generate: genC32,
		Exec:     execC32,
		Trivial: func(in core.Sexp, out string) bool {
			return !strings.Contains(out, "(ok ") && !strings.Contains(out, " ok) ")
		},
		Assumptions: []string{
			"the coordinator (etcd) itself does not fail: store reads, writes and the rollback write succeed",
			"a timeout is represented by a request that is performed and whose answer is an error or a dropped connection (cc cannot tell these apart from a 30 s timeout)",
			"proxies run the repaired Manager of C31 (fix bb39191)",
			"DelNamespace visits the proxies in registration order when a fault is injected (the harness repeats the operation until Go's map iteration starts at the first proxy)",
		},
	})
}

func c32Config(n, v int64, kind string) *models.Namespace {
	ns := &models.Namespace{
		Name:              c31Name(n),
		AllowedDBS:        map[string]bool{"db": true},
		MaxSqlExecuteTime: int(v),
		Users:             []*models.User{{UserName: c31User(n), Password: c31Pass(v), Namespace: c31Name(n), RWFlag: models.ReadWrite}},
		Slices:            []*models.Slice{{Name: "slice-0", UserName: "root", Password: "root", Master: "127.0.0.1:1", Capacity: 1, MaxCapacity: 1}},
		DefaultSlice:      "slice-0",
	}
	switch kind {
	case "invalid": // rejected by Namespace.Verify
		ns.AllowedDBS = nil
	case "unbuildable": // passes Verify, rejected by the proxies' NewNamespace
		ns.DownAfterNoAlive = -1
	}
	return ns
}

type c32Proxy struct {
	idx    int
	w      *c32World
	mgr    *server.Manager
	real   http.Handler
	srv    *httptest.Server
	mu     sync.Mutex
	script map[string][]byte // "prepare" | "commit" | "delete" → outcomes still to be played
}

type c32World struct {
	etcd    *c32Etcd
	proxies []*c32Proxy
	cc      *models.CCConfig
	names   []int64

	mu sync.Mutex
	// delete ordering (see Assumptions)
	delGate    bool
	delSeen    []int
	delRefused bool
	// request schedule of a modify2 operation
	sched       []string
	schedPos    int
	schedBroken bool // a scheduled request never came (the exchange took another course): stop ordering
	schedCv     *sync.Cond
}

func (p *c32Proxy) next(kind string) byte {
	p.mu.Lock()
	defer p.mu.Unlock()
	s := p.script[kind]
	if len(s) == 0 {
		return 'o'
	}
	p.script[kind] = s[1:]
	return s[0]
}

func c32Drop(w http.ResponseWriter) {
	if hj, ok := w.(http.Hijacker); ok {
		if c, _, err := hj.Hijack(); err == nil {
			if tc, ok := c.(*net.TCPConn); ok {
				tc.SetLinger(0)
			}
			c.Close()
			return
		}
	}
	w.WriteHeader(http.StatusInternalServerError)
}

func (p *c32Proxy) ServeHTTP(w http.ResponseWriter, r *http.Request) {
	kind, name := "", ""
	switch {
	case strings.HasPrefix(r.URL.Path, "/api/proxy/config/prepare/"):
		kind, name = "prepare", strings.TrimPrefix(r.URL.Path, "/api/proxy/config/prepare/")
	case strings.HasPrefix(r.URL.Path, "/api/proxy/config/commit/"):
		kind, name = "commit", strings.TrimPrefix(r.URL.Path, "/api/proxy/config/commit/")
	case strings.HasPrefix(r.URL.Path, "/api/proxy/namespace/delete/"):
		kind, name = "delete", strings.TrimPrefix(r.URL.Path, "/api/proxy/namespace/delete/")
	default:
		p.real.ServeHTTP(w, r)
		return
	}
	wd := p.w
	if kind == "delete" {
		wd.mu.Lock()
		if wd.delGate {
			if len(wd.delSeen) == 0 && p.idx != 0 {
				wd.delRefused = true
				wd.mu.Unlock()
				w.WriteHeader(http.StatusInternalServerError)
				w.Write([]byte(`"harness: delete order"`))
				return
			}
			wd.delSeen = append(wd.delSeen, p.idx)
		}
		wd.mu.Unlock()
	}
	if kind != "delete" && wd.sched != nil {
		// wait for this request's turn in the schedule of a modify2 operation
		tok := fmt.Sprintf("%s/%d/%s", name, p.idx, kind[:1])
		wd.mu.Lock()
		for !wd.schedBroken && wd.schedPos < len(wd.sched) && wd.sched[wd.schedPos] != tok {
			wd.schedCv.Wait()
		}
		wd.mu.Unlock()
		defer func() {
			wd.mu.Lock()
			wd.schedPos++
			wd.schedCv.Broadcast()
			wd.mu.Unlock()
		}()
	}
	switch p.next(kind) {
	case 'f':
		w.WriteHeader(http.StatusInternalServerError)
		w.Write([]byte(`"injected failure"`))
	case 'd':
		c32Drop(w)
	case 'l':
		p.real.ServeHTTP(httptest.NewRecorder(), r)
		w.WriteHeader(http.StatusInternalServerError)
		w.Write([]byte(`"injected: answer lost"`))
	case 't':
		p.real.ServeHTTP(httptest.NewRecorder(), r)
		c32Drop(w)
	default:
		p.real.ServeHTTP(w, r)
	}
}

func newC32World(k int, init core.Sexp, names []int64) (*c32World, error) {
	c31QuietLog()
	w := &c32World{etcd: newC32Etcd(), names: names}
	w.schedCv = sync.NewCond(&w.mu)
	for _, e := range init.List {
		cfg := c32Config(e.Nth(0).Int(), e.Nth(1).Int(), "good")
		if err := cfg.Encrypt(c32Key); err != nil {
			return w, err
		}
		w.etcd.Put(c32Root+"/namespace/"+cfg.Name, string(cfg.Encode()))
	}
	for i := 0; i < k; i++ {
		pcfg := &models.Proxy{ConfigType: models.ConfigEtcd, CoordinatorAddr: w.etcd.Addr(), CoordinatorRoot: c32Root,
			EncryptKey: c32Key, AdminUser: "admin", AdminPassword: "admin", ServerIdc: "dc"}
		cfgs, err := server.LoadAllNamespace(pcfg)
		if err != nil {
			return w, err
		}
		mgr, err := server.VerifC31NewManager("dc", cfgs)
		if err != nil {
			return w, err
		}
		p := &c32Proxy{idx: i, w: w, mgr: mgr, real: server.VerifC32NewAdminHandler(mgr, pcfg), script: map[string][]byte{}}
		p.srv = httptest.NewServer(p)
		w.proxies = append(w.proxies, p)
		host, port, _ := net.SplitHostPort(strings.TrimPrefix(p.srv.URL, "http://"))
		token := fmt.Sprintf("p%d", i)
		meta := &models.ProxyMonitorMetric{Token: token, IP: host, AdminPort: port}
		w.etcd.Put(c32Root+"/proxy/proxy-"+token, string(meta.Encode()))
	}
	w.cc = &models.CCConfig{CoordinatorType: models.ConfigEtcd, CoordinatorAddr: w.etcd.Addr(),
		ProxyUserName: "admin", ProxyPassword: "admin", EncryptKey: c32Key}
	return w, nil
}

func (w *c32World) Close() {
	for _, p := range w.proxies {
		p.srv.Close()
		p.mgr.VerifC31Close()
	}
	w.etcd.Close()
}

func (w *c32World) view() string {
	var b strings.Builder
	kv := w.etcd.Snapshot()
	b.WriteString("(")
	for i, n := range w.names {
		if i > 0 {
			b.WriteString(" ")
		}
		raw, ok := kv[c32Root+"/namespace/"+c31Name(n)]
		if !ok {
			b.WriteString("-")
			continue
		}
		var ns models.Namespace
		if err := json.Unmarshal([]byte(raw), &ns); err != nil {
			b.WriteString("?")
			continue
		}
		fmt.Fprint(&b, ns.MaxSqlExecuteTime)
	}
	b.WriteString(")")
	for _, p := range w.proxies {
		b.WriteString(" ((")
		for i, n := range w.names {
			if i > 0 {
				b.WriteString(" ")
			}
			if o := p.mgr.GetNamespace(c31Name(n)); o != nil {
				fmt.Fprint(&b, o.GetMaxExecuteTime())
			} else {
				b.WriteString("-")
			}
		}
		if p.mgr.VerifC31ReloadPrepared() {
			b.WriteString(") p)")
		} else {
			b.WriteString(") -)")
		}
	}
	return b.String()
}

func c32ErrKind(err error) string {
	if err == nil {
		return "ok"
	}
	msg := err.Error()
	switch {
	case strings.Contains(msg, "rollback error"):
		return "(err rollback-failed)"
	case strings.HasPrefix(msg, "verify namespace error"):
		return "(err verify)"
	case strings.HasPrefix(msg, "prepareConfig error"):
		return "(err prepare)"
	case strings.HasPrefix(msg, "commitConfig error"):
		return "(err commit)"
	}
	return "(err other)"
}

func (w *c32World) setScripts(kind string, op core.Sexp, from int, slice func(s string) string) {
	for i, p := range w.proxies {
		p.mu.Lock()
		p.script = map[string][]byte{}
		p.mu.Unlock()
		if from+i < len(op.List) {
			s := op.List[from+i].Atom
			if kind == "modify" {
				prep := s
				if len(prep) > 3 {
					prep = prep[:3]
				}
				p.script["prepare"] = []byte(prep)
				if len(s) > 3 {
					p.script["commit"] = []byte(s[3:4])
				}
			} else {
				p.script["delete"] = []byte(s)
			}
		}
	}
}

var errC32Order = fmt.Errorf("harness: delete order")

var c32SchedBroken atomic.Bool

func (w *c32World) apply(op core.Sexp) (string, error) {
	switch op.Head() {
	case "modify":
		w.setScripts("modify", op, 4, nil)
		err := service.ModifyNamespace(c32Config(op.Nth(1).Int(), op.Nth(2).Int(), op.Nth(3).Atom), w.cc, "c32")
		return c32ErrKind(err), nil
	case "del":
		faulty := false
		for _, l := range op.List[2:] {
			if l.Atom != "o" {
				faulty = true
			}
		}
		name := c31Name(op.Nth(1).Int())
		if !faulty {
			w.setScripts("del", op, 2, nil)
			if err := service.DelNamespace(name, w.cc, "c32"); err != nil {
				return "(err delete)", nil
			}
			return "ok", nil
		}
		for try := 0; try < 400; try++ {
			snap := w.etcd.Snapshot()
			w.setScripts("del", op, 2, nil)
			w.mu.Lock()
			w.delGate, w.delSeen, w.delRefused = true, nil, false
			w.mu.Unlock()
			err := service.DelNamespace(name, w.cc, "c32")
			w.mu.Lock()
			refused, seen := w.delRefused, w.delSeen
			w.delGate = false
			w.mu.Unlock()
			if refused {
				w.etcd.Restore(snap) // nothing reached a proxy: undo the store delete and try again
				continue
			}
			for i, s := range seen {
				if s != i {
					return "", errC32Order // visited out of order after the first proxy: restart the case
				}
			}
			if err != nil {
				return "(err delete)", nil
			}
			return "ok", nil
		}
		return "", errC32Order
	case "modify2":
		a, b := op.Nth(1), op.Nth(2)
		names := map[string]string{"a": c31Name(a.Nth(0).Int()), "b": c31Name(b.Nth(0).Int())}
		var sched []string
		for _, t := range op.List[3:] {
			sched = append(sched, fmt.Sprintf("%s/%d/%s", names[t.Nth(0).Atom], t.Nth(1).Int(), t.Nth(2).Atom))
		}
		for _, p := range w.proxies {
			p.mu.Lock()
			p.script = map[string][]byte{}
			p.mu.Unlock()
		}
		w.mu.Lock()
		w.sched, w.schedPos, w.schedBroken = sched, 0, false
		w.mu.Unlock()
		// generous while schedules are followed (a loaded machine must not look like a broken
		// schedule); short once one was not followed (the exchange has changed: do not wait again and again)
		wait := 20 * time.Second
		if c32SchedBroken.Load() {
			wait = time.Second
		}
		watchdog := time.AfterFunc(wait, func() {
			c32SchedBroken.Store(true)
			w.mu.Lock()
			w.schedBroken = true
			w.schedCv.Broadcast()
			w.mu.Unlock()
		})
		var ea, eb error
		var wg sync.WaitGroup
		wg.Add(2)
		go func() {
			defer wg.Done()
			ea = service.ModifyNamespace(c32Config(a.Nth(0).Int(), a.Nth(1).Int(), "good"), w.cc, "c32")
		}()
		go func() {
			defer wg.Done()
			eb = service.ModifyNamespace(c32Config(b.Nth(0).Int(), b.Nth(1).Int(), "good"), w.cc, "c32")
		}()
		wg.Wait()
		watchdog.Stop()
		w.mu.Lock()
		broken := w.schedBroken
		w.sched = nil
		w.mu.Unlock()
		if broken {
			return "(schedule-not-followed " + c32ErrKind(ea) + " " + c32ErrKind(eb) + ")", nil
		}
		return "(" + c32ErrKind(ea) + " " + c32ErrKind(eb) + ")", nil
	}
	return "bad-op", nil
}

func c32Names(in core.Sexp) []int64 {
	seen := map[int64]bool{}
	var names []int64
	add := func(n int64) {
		if !seen[n] {
			seen[n] = true
			names = append(names, n)
		}
	}
	for _, e := range in.Nth(2).List {
		add(e.Nth(0).Int())
	}
	for _, op := range in.List[3:] {
		if op.Head() == "modify2" {
			add(op.Nth(1).Nth(0).Int())
			add(op.Nth(2).Nth(0).Int())
		} else {
			add(op.Nth(1).Int())
		}
	}
	sort.Slice(names, func(i, j int) bool { return names[i] < names[j] })
	return names
}

func execC32(in core.Sexp) string {
	if in.Head() != "w" || len(in.List) < 3 {
		return "bad"
	}
	k := int(in.Nth(1).Int())
	if k < 0 || k > 4 {
		return "bad"
	}
	names := c32Names(in)
	for attempt := 0; attempt < 20; attempt++ {
		out, err := func() (string, error) {
			w, err := newC32World(k, in.Nth(2), names)
			defer w.Close()
			if err != nil {
				return "(err setup)", nil
			}
			var b strings.Builder
			b.WriteString("((init " + w.view() + ")")
			for _, op := range in.List[3:] {
				r, err := w.apply(op)
				if err != nil {
					return "", err
				}
				b.WriteString(" (" + r + " " + w.view() + ")")
			}
			b.WriteString(")")
			return b.String(), nil
		}()
		if err == nil {
			return out
		}
	}
	return "(err harness-order)"
}

// ---- generator ----

func genC32(g *core.Gen) {
	letters := func(n int, pFault int) string {
		b := make([]byte, n)
		for i := range b {
			b[i] = 'o'
			if g.Intn(100) < pFault {
				b[i] = "fdlt"[g.Intn(4)]
			}
		}
		return string(b)
	}
	emit := func(k int, init core.Sexp, ops []core.Sexp, tags ...string) {
		xs := append([]core.Sexp{core.A("w"), core.I(int64(k)), init}, ops...)
		tags = append(tags, fmt.Sprintf("proxies-%d", k), fmt.Sprintf("ops-%d", len(ops)))
		g.Emit(core.L(xs...), tags...)
	}
	mkInit := func(nn int64) (core.Sexp, map[int64]int64) {
		var init []core.Sexp
		next := map[int64]int64{}
		for n := int64(0); n < nn; n++ {
			next[n] = 1
			if g.Intn(100) < 70 {
				init = append(init, core.L(core.I(n), core.I(1)))
				next[n] = 2
			}
		}
		return core.L(init...), next
	}
	modify := func(n, v int64, kind string, fs []string) core.Sexp {
		xs := []core.Sexp{core.A("modify"), core.I(n), core.I(v), core.A(kind)}
		for _, f := range fs {
			xs = append(xs, core.A(f))
		}
		return core.L(xs...)
	}
	del := func(n int64, fs []string) core.Sexp {
		xs := []core.Sexp{core.A("del"), core.I(n)}
		for _, f := range fs {
			xs = append(xs, core.A(f))
		}
		return core.L(xs...)
	}
	// fault patterns for one change on k proxies
	pattern := func(k int) ([]string, string) {
		fs := make([]string, k)
		for i := range fs {
			fs[i] = "oooo"
		}
		j := g.Intn(k)
		bad := string("fd"[g.Intn(2)])
		lost := string("lt"[g.Intn(2)])
		switch r := g.Intn(100); {
		case r < 30:
			return fs, "no-fault"
		case r < 36:
			fs[j] = bad + "ooo"
			return fs, "prepare-retry-1"
		case r < 42:
			fs[j] = bad + lost + "oo"
			return fs, "prepare-retry-2"
		case r < 50:
			fs[j] = bad + bad + bad + "o"
			return fs, "prepare-fails-one"
		case r < 55:
			fs[j] = lost + lost + lost + "o"
			return fs, "prepare-lost-one"
		case r < 60:
			for i := range fs {
				fs[i] = bad + bad + bad + "o"
			}
			return fs, "prepare-fails-all"
		case r < 68:
			fs[j] = "ooo" + bad
			return fs, "commit-fails-one"
		case r < 76:
			fs[j] = "ooo" + lost
			return fs, "commit-lost-one"
		case r < 81:
			for i := range fs {
				fs[i] = "ooo" + bad
			}
			return fs, "commit-fails-all"
		case r < 86:
			for i := range fs {
				fs[i] = "ooo" + lost
			}
			return fs, "commit-lost-all"
		default:
			for i := range fs {
				fs[i] = letters(4, 30)
			}
			return fs, "random-faults"
		}
	}
	n := g.Scale(300, 1800)
	for i := 0; i < n; i++ {
		k := 1 + g.Intn(3)
		if g.Intn(4) != 0 && k == 1 {
			k = 2 + g.Intn(2)
		}
		nn := int64(2 + g.Intn(2))
		init, next := mkInit(nn)
		var ops []core.Sexp
		var tags []string
		for s, l := 0, 1+g.Intn(5); s < l; s++ {
			a := int64(g.Intn(int(nn)))
			switch r := g.Intn(100); {
			case r < 62:
				fs, tag := pattern(k)
				ops = append(ops, modify(a, next[a], "good", fs))
				next[a]++
				tags = append(tags, tag)
			case r < 68:
				fs, _ := pattern(k)
				ops = append(ops, modify(a, next[a], "invalid", fs))
				next[a]++
				tags = append(tags, "invalid-config")
			case r < 75:
				fs := make([]string, k)
				for i := range fs {
					fs[i] = "oooo"
				}
				ops = append(ops, modify(a, next[a], "unbuildable", fs))
				next[a]++
				tags = append(tags, "unbuildable-config")
			case r < 88:
				fs := make([]string, k)
				for i := range fs {
					fs[i] = "o"
				}
				tag := "del-no-fault"
				if g.Intn(2) == 0 {
					fs[g.Intn(k)] = string("fdlt"[g.Intn(4)])
					tag = "del-fault"
				}
				ops = append(ops, del(a, fs))
				tags = append(tags, tag)
			default:
				if nn < 2 || k < 1 {
					continue
				}
				b := (a + 1 + int64(g.Intn(int(nn)-1))) % nn
				ops = append(ops, c32Modify2(g, k, a, next[a], b, next[b]))
				next[a]++
				next[b]++
				tags = append(tags, "concurrent-pair")
			}
		}
		emit(k, init, ops, tags...)
	}
	// odd inputs: no proxy registered, fewer / more fault scripts than proxies, deletion of an absent namespace
	for i := 0; i < g.Scale(12, 120); i++ {
		k := g.Intn(3)
		init, next := mkInit(2)
		var ops []core.Sexp
		for s, l := 0, 1+g.Intn(3); s < l; s++ {
			a := int64(g.Intn(3))
			var fs []string
			for j, m := 0, g.Intn(5); j < m; j++ {
				fs = append(fs, letters(1+g.Intn(4), 40))
			}
			if g.Intn(3) == 0 {
				ops = append(ops, del(a, nil))
			} else {
				ops = append(ops, modify(a, next[a]+1, "good", fs))
				next[a] += 2
			}
		}
		emit(k, init, ops, "odd")
	}
	// every fault placement of a single change (thorough); a sample in the quick tier
	prep := []string{"ooo", "foo", "lfo", "fff", "lll", "ffl"}
	com := []string{"o", "f", "l"}
	var per []string
	for _, p := range prep {
		for _, c := range com {
			per = append(per, p+c)
		}
	}
	both := core.L(core.L(core.I(0), core.I(1)), core.L(core.I(1), core.I(1)))
	if g.Tier != "quick" {
		for _, f0 := range per {
			for _, f1 := range per {
				emit(2, both, []core.Sexp{modify(0, 2, "good", []string{f0, f1})}, "exhaustive-2")
			}
		}
		small := []string{"oooo", "fffo", "lllo", "ooof", "oool", "floo"}
		for _, f0 := range small {
			for _, f1 := range small {
				for _, f2 := range small {
					emit(3, both, []core.Sexp{modify(0, 2, "good", []string{f0, f1, f2})}, "exhaustive-3")
				}
			}
		}
		for _, l0 := range []string{"o", "f", "l"} {
			for _, l1 := range []string{"o", "f", "l"} {
				for _, l2 := range []string{"o", "f", "l"} {
					emit(3, both, []core.Sexp{del(1, []string{l0, l1, l2})}, "exhaustive-del")
				}
			}
		}
	} else {
		for i := 0; i < 40; i++ {
			emit(2, both, []core.Sexp{modify(0, 2, "good", []string{core.Pick(g, per), core.Pick(g, per)})}, "exhaustive-2")
		}
	}
}

// c32Modify2 builds two concurrent changes with a random request schedule that
// respects each change's own order (all its prepares, then all its commits).
func c32Modify2(g *core.Gen, k int, a, va, b, vb int64) core.Sexp {
	type tok struct {
		x string
		i int
		p string
	}
	mk := func(x string) []tok {
		var ts []tok
		for _, ph := range []string{"p", "c"} {
			perm := g.Rand.Perm(k)
			for _, i := range perm {
				ts = append(ts, tok{x, i, ph})
			}
		}
		return ts
	}
	ta, tb := mk("a"), mk("b")
	var sched []core.Sexp
	for len(ta) > 0 || len(tb) > 0 {
		var t tok
		if len(tb) == 0 || (len(ta) > 0 && g.Intn(2) == 0) {
			t, ta = ta[0], ta[1:]
		} else {
			t, tb = tb[0], tb[1:]
		}
		sched = append(sched, core.L(core.A(t.x), core.I(int64(t.i)), core.A(t.p)))
	}
	xs := []core.Sexp{core.A("modify2"), core.L(core.I(a), core.I(va)), core.L(core.I(b), core.I(vb))}
	return core.L(append(xs, sched...)...)
}
