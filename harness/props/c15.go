package props

import (
	"encoding/binary"
	"math"
	"strings"

	"gaeaverif/harness/core"

	"github.com/XiaoMi/Gaea/mysql"
)

// C15 — binding parameters: the statement text a COM_STMT_EXECUTE hands to
// handleQuery, for every parameter type and value, with and without
// NO_BACKSLASH_ESCAPES set through the real SET sql_mode path; judged by lexing
// that text in the session's sql_mode (Lean: Drv/C15.lean).

func init() {
	core.Register(&core.Property{
		ID: "C15",
		Rule: "sessions that optionally SET sql_mode (with NO_BACKSLASH_ESCAPES by name in several spellings or as a number, or without it), prepare a template " +
			"with 1-4 placeholders (next to literals and comments that contain '?'), optionally send long data, and execute it with values of every binary-protocol " +
			"type: byte strings built from quotes, backslashes, NUL, newline, 0x1a, comment openers and random bytes (trailing backslash, backslash-quote, " +
			"doubled quotes), integer extremes of every width and signedness, float32/float64 specials, boundaries and random bits, dates/times/datetimes of " +
			"every accepted length, NULLs; non-trivial = an execution reached handleQuery with at least one non-NULL value",
		Generate: genC15,
		Exec:     stmtRunHistory,
		Trivial: func(in core.Sexp, out string) bool {
			return !strings.Contains(out, "(exec ")
		},
		Assumptions: []string{
			"the lexical grammar of Model/StmtLex.lean, with and without NO_BACKSLASH_ESCAPES, is MySQL's for an ASCII-compatible character set",
			"MySQL reads a numeric literal as the nearest double where a floating-point value is needed",
			"sql_mode is set by SET [SESSION] sql_mode = <list of mode names | number | DEFAULT>; a value computed by an expression is not covered",
			"placeholders of the template are not glued to a '…' literal or to another placeholder",
		},
	})
}

type c15Mode struct {
	sql string
	nbe bool
}

var c15Modes = []c15Mode{
	{"set sql_mode='NO_BACKSLASH_ESCAPES'", true},
	{"SET SESSION sql_mode = 'STRICT_TRANS_TABLES,NO_BACKSLASH_ESCAPES'", true},
	{"set @@sql_mode=\"no_backslash_escapes,ansi_quotes\"", true},
	{"set sql_mode=NO_BACKSLASH_ESCAPES", true},
	{"set sql_mode=1048576", true},
	{"set @@session.sql_mode = 1048576 ", true},
	{"set sql_mode=5242912", true},
	{"set sql_mode=''", false},
	{"set sql_mode='STRICT_TRANS_TABLES,NO_ZERO_DATE'", false},
	{"set sql_mode='ANSI'", false},
	{"set sql_mode=default", false},
	{"set sql_mode=0", false},
	{"set sql_mode=2097152", false},
}

var c15Templates = []struct {
	sql string
	n   int
}{
	{"select ?", 1}, {"select ?, ?", 2}, {"insert into t (a, b, c) values (?, ?, ?)", 3}, {"select * from t where a in (?, ?, ?, ?)", 4},
	{"update t set a = ? where id = ? /* ? */", 2}, {"select ?, 'a?', ? -- ?", 2}, {"select `c?`, ? from t where b = \"?\" and c = ?", 2},
	{"select -?", 1}, {"select 1-?, 1 - ?", 2}, {"select ?+?", 2}, {"call p(?)", 1}, {"select /*! ? , */ ?", 2}, {"select ?;", 1},
	{"select 'it''s', ? , 'x'", 1}, {"select * from t where a=? and b like ? limit ?", 3}, {"select ? # ?\n, ?", 2},
}

func c15Values(g *core.Gen) []byte {
	switch g.Intn(10) {
	case 0:
		return []byte(core.Pick(g, []string{"\\' OR 1=1 -- ", "\\", "'", "\\'", "''", "\\\\", "a\\", "' OR ''='", "\\' ; drop table t -- ", "x\\'y", "\\\\'", "\x00\n\r\x1a", "", "/* */", "-- \n", "`", "\"", "\\\"", "?", "'?'"}))
	case 1:
		b := make([]byte, g.Intn(8))
		g.Rand.Read(b)
		return b
	case 2: // only the two special bytes
		b := make([]byte, 1+g.Intn(6))
		for i := range b {
			b[i] = core.Pick(g, []byte{'\\', '\'', '\\', '\'', 'a'})
		}
		return b
	default:
		return stmtRandomBytes(g)
	}
}

func c15Param(g *core.Gen) stmtParam {
	switch g.Intn(10) {
	case 0, 1, 2, 3:
		return stmtParam{tp: core.Pick(g, stmtStringTypes), value: stmtLenEnc(c15Values(g)), tag: "string"}
	case 4: // float specials and boundaries
		if g.Intn(2) == 0 {
			bits := core.Pick(g, []uint32{0, 0x80000000, 0x3f800000, 0xbfc00000, 0x7f800000, 0xff800000, 0x7fc00000, 1, 0x007fffff, 0x00800000, 0x7f7fffff,
				0x3dcccccd, 0x3e99999a, 0x4b800000, 0x49742400, 0x3a83126f, 0x358637bd, g.Rand.Uint32(), g.Rand.Uint32() & 0x007fffff, math.Float32bits(float32(g.Rand.Float64()))})
			b := make([]byte, 4)
			binary.LittleEndian.PutUint32(b, bits)
			return stmtParam{tp: mysql.TypeFloat, value: b, tag: "float"}
		}
		bits := core.Pick(g, []uint64{0, 0x8000000000000000, 0x3ff0000000000000, 0xbff8000000000000, 0x7ff0000000000000, 0xfff0000000000000, 0x7ff8000000000000,
			1, 0x000fffffffffffff, 0x0010000000000000, 0x7fefffffffffffff, 0x3fb999999999999a, 0x3fd5555555555555, 0x412e848000000000, 0x412e847e00000000,
			0x3f1a36e2eb1c432d, 0x3ee4f8b588e368f1, 0x4415af1d78b58c40, 0x4340000000000000, 0x4340000000000001, 0x433fffffffffffff,
			g.Rand.Uint64(), g.Rand.Uint64() & 0x000fffffffffffff, math.Float64bits(g.Rand.Float64()), math.Float64bits(float64(g.Intn(2000000)) / 100), math.Float64bits(g.Rand.ExpFloat64() * 1e10)})
		b := make([]byte, 8)
		binary.LittleEndian.PutUint64(b, bits)
		return stmtParam{tp: mysql.TypeDouble, value: b, tag: "double"}
	default:
		return stmtGoodParam(g, true)
	}
}

func genC15(g *core.Gen) {
	n := g.Scale(2500, 40000)
	for c := 0; c < n; c++ {
		var ops []core.Sexp
		tags := map[string]bool{}
		nbe := false
		if g.Intn(3) > 0 {
			k := 1
			if g.Intn(5) == 0 {
				k = 2 // set it, then set it again (possibly back)
			}
			for i := 0; i < k; i++ {
				m := core.Pick(g, c15Modes)
				ops = append(ops, core.L(core.A("setmode"), core.Text(m.sql), core.B(m.nbe)))
				nbe = m.nbe
			}
		}
		if nbe {
			tags["no-backslash-escapes"] = true
		} else {
			tags["backslash-escapes"] = true
		}
		t := core.Pick(g, c15Templates)
		ops = append(ops, core.L(core.A("prepare"), core.Text(t.sql)))
		execs := 1 + g.Intn(2)
		for e := 0; e < execs; e++ {
			params := make([]stmtParam, t.n)
			for i := range params {
				params[i] = c15Param(g)
				if g.Intn(8) == 0 {
					params[i].null = true
					tags["null-bitmap"] = true
				}
				tags[params[i].tag] = true
			}
			// long data for one parameter: it then has no value in the packet
			if g.Intn(6) == 0 {
				i := g.Intn(t.n)
				chunks := 1 + g.Intn(2)
				for k := 0; k < chunks; k++ {
					ops = append(ops, core.L(core.A("long"), core.Hex(stmtLongDataPacket(0, uint16(i), c15Values(g)))))
				}
				params[i] = stmtParam{tp: mysql.TypeBlob, value: nil, tag: "long-data"}
				tags["long-data"] = true
			}
			d := stmtExecPacket(0, 0, params, 1, t.n)
			if g.Intn(25) == 0 && len(d) > 10 {
				d = d[:9+g.Intn(len(d)-9)]
				tags["exec-truncated"] = true
			}
			ops = append(ops, core.L(core.A("exec"), core.Hex(d)))
			// the mode may change between two executions of the same statement
			if e == 0 && execs == 2 && g.Intn(3) == 0 {
				m := core.Pick(g, c15Modes)
				ops = append(ops, core.L(core.A("setmode"), core.Text(m.sql), core.B(m.nbe)))
				tags["mode-change-between-executions"] = true
			}
		}
		var ts []string
		for t := range tags {
			ts = append(ts, t)
		}
		g.Emit(core.L(append([]core.Sexp{core.A("hist")}, ops...)...), ts...)
	}
}
