package props

// Shared by C27 and C28: fake check connections / pools with scripted answers,
// the virtual clock, and the executor that replays one history
//
//	(h (cfg FUSE COOL DOWN SBM HSQL MASTER) T0 EVENT…)
//	EVENT  = (m NOW PROBE) | (r NOW PROBE SLAVEQ) | (f NOW ERRKIND TRIG) | (t NOW)
//	PROBE  = (GETCHECK ATTEMPT…)     GETCHECK = conn|err|errconn|nil
//	ATTEMPT= 3 letters: health-SQL o|s|d|m|x|t, ping o|f, select-1 o|f
//	SLAVEQ = nopriv|err|nilres|empty|(row LAG IO SQL)   value = (u N)|(i N)|(s ATOM)|null|absent
//	ERRKIND= conn|ptr|wrapped|other|nil
//
// against the real backend.Slice (TryRecover, TryFuse, one ticker round of
// checkBackendMasterStatus) and prints the node states after every event.

import (
	"context"
	"errors"
	"fmt"
	"strings"
	"sync"
	"time"

	"gaeaverif/harness/core"

	"github.com/XiaoMi/Gaea/backend"
	"github.com/XiaoMi/Gaea/log"
	"github.com/XiaoMi/Gaea/mysql"
)

const healthSQLText = "select /*health*/ 1 from dual"

// ---- parsed input ----

type hcAttempt struct {
	hs        byte // o s d m x t
	ping, sel bool
}

type hcProbe struct {
	getCheck string
	attempts []hcAttempt
}

type hcVal struct {
	kind string // u i s null absent
	n    uint64
	i    int64
	s    string
}

type hcSlaveQ struct {
	kind         string // nopriv err nilres empty row
	lag, io, sql hcVal
}

type hcEvent struct {
	kind    string // m r f t
	now     int64
	probe   hcProbe
	q       hcSlaveQ
	errKind string
	trig    bool
}

type hcCase struct {
	fuse      bool
	cool      int64
	down      int
	sbm       int
	hsql      bool
	hasMaster bool
	t0        int64
	events    []hcEvent
}

func hcParseVal(x core.Sexp) hcVal {
	if x.IsAtom {
		if x.Atom == "null" || x.Atom == "absent" {
			return hcVal{kind: x.Atom}
		}
		panic("bad value")
	}
	switch x.Head() {
	case "u":
		return hcVal{kind: "u", n: x.Nth(1).Uint()}
	case "i":
		return hcVal{kind: "i", i: x.Nth(1).Int()}
	case "s":
		if !x.Nth(1).IsAtom {
			panic("bad string")
		}
		return hcVal{kind: "s", s: x.Nth(1).Atom}
	}
	panic("bad value")
}

func hcParseProbe(x core.Sexp) hcProbe {
	p := hcProbe{getCheck: x.Head()}
	switch p.getCheck {
	case "conn", "err", "errconn", "nil":
	default:
		panic("bad getcheck")
	}
	for _, a := range x.List[1:] {
		if !a.IsAtom || len(a.Atom) != 3 || !strings.ContainsRune("osdmxt", rune(a.Atom[0])) ||
			!strings.ContainsRune("of", rune(a.Atom[1])) || !strings.ContainsRune("of", rune(a.Atom[2])) {
			panic("bad attempt")
		}
		p.attempts = append(p.attempts, hcAttempt{hs: a.Atom[0], ping: a.Atom[1] == 'o', sel: a.Atom[2] == 'o'})
	}
	return p
}

func hcParseBool(x core.Sexp) bool {
	if !x.IsAtom || (x.Atom != "t" && x.Atom != "f") {
		panic("bad bool")
	}
	return x.Atom == "t"
}

func hcParse(in core.Sexp) (c *hcCase, ok bool) {
	defer func() {
		if recover() != nil {
			c, ok = nil, false
		}
	}()
	if in.Head() != "h" || len(in.List) < 3 {
		return nil, false
	}
	cfg := in.Nth(1)
	if cfg.Head() != "cfg" || len(cfg.List) != 7 {
		return nil, false
	}
	c = &hcCase{
		fuse: hcParseBool(cfg.Nth(1)), cool: cfg.Nth(2).Int(), down: int(cfg.Nth(3).Int()), sbm: int(cfg.Nth(4).Int()),
		hsql: hcParseBool(cfg.Nth(5)), hasMaster: hcParseBool(cfg.Nth(6)), t0: in.Nth(2).Int(),
	}
	for _, e := range in.List[3:] {
		ev := hcEvent{kind: e.Head()}
		switch ev.kind {
		case "m":
			if len(e.List) != 3 {
				return nil, false
			}
			ev.now = e.Nth(1).Int()
			ev.probe = hcParseProbe(e.Nth(2))
		case "r":
			if len(e.List) != 4 {
				return nil, false
			}
			ev.now = e.Nth(1).Int()
			ev.probe = hcParseProbe(e.Nth(2))
			q := e.Nth(3)
			if q.IsAtom {
				switch q.Atom {
				case "nopriv", "err", "nilres", "empty":
					ev.q = hcSlaveQ{kind: q.Atom}
				default:
					return nil, false
				}
			} else {
				if q.Head() != "row" || len(q.List) != 4 {
					return nil, false
				}
				ev.q = hcSlaveQ{kind: "row", lag: hcParseVal(q.Nth(1)), io: hcParseVal(q.Nth(2)), sql: hcParseVal(q.Nth(3))}
			}
		case "f":
			if len(e.List) != 4 {
				return nil, false
			}
			ev.now = e.Nth(1).Int()
			ev.errKind = e.Nth(2).Atom
			switch ev.errKind {
			case "conn", "ptr", "wrapped", "other", "nil":
			default:
				return nil, false
			}
			ev.trig = hcParseBool(e.Nth(3))
		case "t":
			if len(e.List) != 2 {
				return nil, false
			}
			ev.now = e.Nth(1).Int()
		default:
			return nil, false
		}
		c.events = append(c.events, ev)
	}
	return c, true
}

// ---- fakes ----

// hcConn is a check connection whose answers follow the script of one round.
type hcConn struct {
	probe                      hcProbe
	q                          hcSlaveQ
	hsCalls, pingCalls, selCal int
	closed                     bool
}

func (c *hcConn) attempt(i int) hcAttempt {
	if i < len(c.probe.attempts) {
		return c.probe.attempts[i]
	}
	return hcAttempt{hs: 'o', ping: true, sel: true}
}

func (c *hcConn) ExecuteWithTimeout(sql string, maxRows int, timeout time.Duration) (*mysql.Result, error) {
	if sql == "select 1" {
		a := c.attempt(c.selCal)
		c.selCal++
		if a.sel {
			return &mysql.Result{}, nil
		}
		return nil, errors.New("select 1 failed")
	}
	a := c.attempt(c.hsCalls)
	c.hsCalls++
	switch a.hs {
	case 'o':
		return &mysql.Result{}, nil
	case 'd':
		return nil, mysql.NewError(mysql.ErrServerShutdown, "Server shutdown in progress")
	case 'm':
		return nil, fmt.Errorf("exec: %w", mysql.NewError(mysql.ErrTablespaceMissing, "Tablespace is missing"))
	case 'x':
		return nil, mysql.NewError(mysql.ErrTablespaceDiscarded, "Tablespace has been discarded")
	case 't':
		return nil, backend.ErrExecuteTimeout
	}
	return nil, mysql.NewError(mysql.ErrNoSuchTable, "Table doesn't exist")
}

func (c *hcConn) PingWithTimeout(timeout time.Duration) error {
	a := c.attempt(c.pingCalls)
	c.pingCalls++
	if a.ping {
		return nil
	}
	return errors.New("ping failed")
}

func hcField(name string) *mysql.Field { return &mysql.Field{Name: []byte(name)} }

func hcValue(v hcVal) interface{} {
	switch v.kind {
	case "u":
		return v.n
	case "i":
		return v.i
	case "s":
		return v.s
	}
	return nil
}

func (c *hcConn) Execute(sql string, maxRows int) (*mysql.Result, error) {
	if !strings.HasPrefix(strings.ToLower(sql), "show slave status") {
		return &mysql.Result{}, nil
	}
	switch c.q.kind {
	case "nopriv":
		return nil, mysql.NewError(mysql.ErrSpecificAccessDenied, "Access denied; you need (at least one of) the SUPER, REPLICATION CLIENT privilege(s)")
	case "err":
		return nil, errors.New("connection was bad")
	case "nilres":
		return nil, nil
	case "empty":
		return &mysql.Result{Resultset: &mysql.Resultset{FieldNames: map[string]int{}}}, nil
	}
	rs := &mysql.Resultset{FieldNames: map[string]int{}}
	var row []interface{}
	add := func(name string, v interface{}) {
		rs.FieldNames[name] = len(rs.Fields)
		rs.Fields = append(rs.Fields, hcField(name))
		row = append(row, v)
	}
	add("Slave_IO_State", "Waiting for master to send event")
	if c.q.io.kind != "absent" {
		add("Slave_IO_Running", hcValue(c.q.io))
	}
	add("Master_Log_File", "mysql-bin.000003")
	if c.q.sql.kind != "absent" {
		add("Slave_SQL_Running", hcValue(c.q.sql))
	}
	add("Read_Master_Log_Pos", uint64(154))
	if c.q.lag.kind != "absent" {
		add("Seconds_Behind_Master", hcValue(c.q.lag))
	}
	rs.Values = [][]interface{}{row}
	return &mysql.Result{Resultset: rs}, nil
}

func (c *hcConn) Recycle()                                                    {}
func (c *hcConn) Reconnect() error                                            { return nil }
func (c *hcConn) Close()                                                      { c.closed = true }
func (c *hcConn) IsClosed() bool                                              { return c.closed }
func (c *hcConn) UseDB(db string) error                                       { return nil }
func (c *hcConn) SetAutoCommit(v uint8) error                                 { return nil }
func (c *hcConn) Begin() error                                                { return nil }
func (c *hcConn) Commit() error                                               { return nil }
func (c *hcConn) Rollback() error                                             { return nil }
func (c *hcConn) Ping() error                                                 { return c.PingWithTimeout(0) }
func (c *hcConn) SetCharset(cs string, co mysql.CollationID) (bool, error)    { return false, nil }
func (c *hcConn) FieldList(t string, w string) ([]*mysql.Field, error)        { return nil, nil }
func (c *hcConn) GetAddr() string                                             { return "fake:3306" }
func (c *hcConn) SetSessionVariables(f *mysql.SessionVariables) (bool, error) { return false, nil }
func (c *hcConn) SyncSessionVariables(f *mysql.SessionVariables) error        { return nil }
func (c *hcConn) WriteSetStatement() error                                    { return nil }
func (c *hcConn) GetConnectionID() int64                                      { return 1 }
func (c *hcConn) GetReturnTime() time.Time                                    { return time.Time{} }
func (c *hcConn) MoreRowsExist() bool                                         { return false }
func (c *hcConn) MoreResultsExist() bool                                      { return false }
func (c *hcConn) FetchMoreRows(r *mysql.Result, maxRows int) error            { return nil }
func (c *hcConn) ReadMoreResult(maxRows int) (*mysql.Result, error)           { return nil, nil }

// hcPool is a connection pool of which only the check connection matters.
// SetLastChecked stores time.Now().Unix() exactly as connectionPoolImpl does.
type hcPool struct {
	addr        string
	lastChecked int64
	next        *hcEvent // script of the coming round
}

func (p *hcPool) GetCheck(ctx context.Context) (backend.PooledConnect, error) {
	if p.next == nil {
		return nil, errors.New("no script")
	}
	c := &hcConn{probe: p.next.probe, q: p.next.q}
	switch p.next.probe.getCheck {
	case "conn":
		return c, nil
	case "errconn":
		return c, errors.New("get check conn failed")
	case "nil":
		return nil, nil
	}
	return nil, errors.New("get conn timeout")
}
func (p *hcPool) SetLastChecked()       { p.lastChecked = time.Now().Unix() }
func (p *hcPool) GetLastChecked() int64 { return p.lastChecked }
func (p *hcPool) Open() error           { return nil }
func (p *hcPool) Addr() string          { return p.addr }
func (p *hcPool) Datacenter() string    { return "" }
func (p *hcPool) Close()                {}
func (p *hcPool) Get(ctx context.Context) (backend.PooledConnect, error) {
	return nil, errors.New("not used")
}
func (p *hcPool) Put(pc backend.PooledConnect)             {}
func (p *hcPool) SetCapacity(capacity int) (err error)     { return nil }
func (p *hcPool) SetIdleTimeout(idleTimeout time.Duration) {}
func (p *hcPool) StatsJSON() string                        { return "{}" }
func (p *hcPool) Capacity() int64                          { return 0 }
func (p *hcPool) Available() int64                         { return 0 }
func (p *hcPool) Active() int64                            { return 0 }
func (p *hcPool) InUse() int64                             { return 0 }
func (p *hcPool) MaxCap() int64                            { return 0 }
func (p *hcPool) WaitCount() int64                         { return 0 }
func (p *hcPool) WaitTime() time.Duration                  { return 0 }
func (p *hcPool) IdleTimeout() time.Duration               { return 0 }
func (p *hcPool) IdleClosed() int64                        { return 0 }

// hcTrigger is the fuse strategy of the replica: whether it fires is part of
// the input (the sliding window itself belongs to C26).
type hcTrigger struct{ next bool }

func (t *hcTrigger) Trigger(now int64) bool { return t.next }

// hcNullLogger swallows the health checker's log lines.
type hcNullLogger struct{}

func (hcNullLogger) SetLevel(name, level string) error                    { return nil }
func (hcNullLogger) Debug(format string, a ...interface{}) error          { return nil }
func (hcNullLogger) Trace(format string, a ...interface{}) error          { return nil }
func (hcNullLogger) Notice(format string, a ...interface{}) error         { return nil }
func (hcNullLogger) Warn(format string, a ...interface{}) error           { return nil }
func (hcNullLogger) Fatal(format string, a ...interface{}) error          { return nil }
func (hcNullLogger) Debugx(logID, format string, a ...interface{}) error  { return nil }
func (hcNullLogger) Tracex(logID, format string, a ...interface{}) error  { return nil }
func (hcNullLogger) Noticex(logID, format string, a ...interface{}) error { return nil }
func (hcNullLogger) Warnx(logID, format string, a ...interface{}) error   { return nil }
func (hcNullLogger) Fatalx(logID, format string, a ...interface{}) error  { return nil }
func (hcNullLogger) Close()                                               {}
func (hcNullLogger) Dropped(i int) uint64                                 { return 0 }

var hcQuiet sync.Once

// ---- executor ----

func hcUD(up bool) string {
	if up {
		return "u"
	}
	return "d"
}

// healthExec replays one history against the real code.
func healthExec(in core.Sexp) string {
	c, ok := hcParse(in)
	if !ok {
		return "bad"
	}
	hcQuiet.Do(func() { log.SetGlobalLogger(hcNullLogger{}) })

	backend.VerifSetClock(c.t0)
	defer backend.VerifClearClock()

	s := &backend.Slice{Namespace: "ns", FuseWindowSize: 10, FuseMinErrorCount: 3, FuseCooldownPeriod: c.cool}
	s.Cfg.Name = "slice-0"
	if c.fuse {
		s.FuseEnabled = "on"
	} else {
		s.FuseEnabled = "off"
	}
	if c.hsql {
		s.HealthCheckSql = healthSQLText
	}
	mpool := &hcPool{addr: "master:3306"}
	mpool.SetLastChecked() // NewConnectionPool: lastChecked = time.Now().Unix()
	rpool := &hcPool{addr: "replica:3306"}
	rpool.SetLastChecked()
	master := &backend.NodeInfo{Address: "master:3306", ConnPool: mpool, Status: backend.StatusUp}
	rep := &backend.NodeInfo{Address: "replica:3306", ConnPool: rpool, Status: backend.StatusUp, Weight: 1}
	s.Master = &backend.DBInfo{}
	if c.hasMaster {
		s.Master.Nodes = []*backend.NodeInfo{master}
	}
	s.Slave = &backend.DBInfo{Nodes: []*backend.NodeInfo{rep}}
	trig := &hcTrigger{}
	if s.IsFuseEnabled() { // as proxy/server/namespace.go parseSlices does
		if err := s.InitFuseRecoveryPolicy(s.Slave); err != nil {
			return "(err init)"
		}
		rep.FuseStrategy = trig
	}

	var b strings.Builder
	b.WriteString("(ok")
	for i := range c.events {
		ev := &c.events[i]
		backend.VerifSetClock(ev.now)
		switch ev.kind {
		case "m":
			mpool.next = ev
			backend.VerifMasterRound(s, c.down)
			mpool.next = nil
		case "r":
			rpool.next = ev
			if err := s.TryRecover(rep, c.down, c.sbm); err != nil {
				return "(err recover)"
			}
			rpool.next = nil
		case "f":
			trig.next = ev.trig
			var err error
			switch ev.errKind {
			case "conn":
				err = mysql.NewConnTypeError("replica:3306", "dial tcp: connection refused")
			case "ptr":
				e := mysql.NewConnTypeError("replica:3306", "dial tcp: connection refused")
				err = &e
			case "wrapped":
				err = fmt.Errorf("get conn: %w", mysql.NewConnTypeError("replica:3306", "i/o timeout"))
			case "other":
				err = errors.New("resource pool timed out")
			}
			s.TryFuse(rep, err)
		case "t":
		}
		ms, mlc := "-", "-"
		if c.hasMaster {
			ms, mlc = hcUD(master.IsStatusUp()), fmt.Sprint(mpool.lastChecked)
		}
		strat := "- - - -"
		switch st := rep.RecoveryStrategy.(type) {
		case *backend.HardCoolDownStrategy:
			_, lf := backend.VerifHardState(st)
			strat = fmt.Sprintf("%d - - -", lf)
		case *backend.GradualRecoveryStrategy:
			erc, cscc, lr, lf := backend.VerifGradualState(st)
			strat = fmt.Sprintf("%d %d %d %d", lf, erc, cscc, lr)
		}
		fmt.Fprintf(&b, " (%s %s %d %s %s)", hcUD(rep.IsStatusUp()), ms, rpool.lastChecked, mlc, strat)
	}
	b.WriteString(")")
	return b.String()
}

func hcSplitVerdict(s string) (out, verdict string) {
	if i := strings.Index(s, " | "); i >= 0 {
		return s[:i], strings.TrimSpace(s[i+3:])
	}
	return s, ""
}

// healthExtra makes sure a listed finding cannot crowd a new one out of the
// result: the runner keeps at most 200 findings per run, and the rounds that
// read lag during a master outage produce the listed class of C28 by the
// hundred before the findings on disagreeing cases are appended.  Keep three
// findings per class, and put the oracle's verdict on the recorded
// disagreements first.
func healthExtra(r *core.Run) {
	res := r.Res
	perClass := map[string]int{}
	var kept []core.Finding
	for _, f := range res.Violations {
		if cls, ok := strings.CutPrefix(f.Class, "impl-differs "); ok {
			if _, mv := hcSplitVerdict(f.Model); mv == "viol "+cls {
				// the oracle says the same of the model's own result on this input (a listed
				// class met on the way): the verdict is not about the difference; the case stays
				// among the disagreements and is reported as broken correspondence
				continue
			}
		}
		if perClass[f.Class] < 3 {
			perClass[f.Class]++
			kept = append(kept, f)
		}
	}
	var front []core.Finding
	if len(res.Disagreements) > 0 {
		var ask []string
		var idx []int
		for i, d := range res.Disagreements {
			if d.Input == "" || !strings.HasPrefix(d.Impl, "(") {
				continue
			}
			ask = append(ask, r.Prop.ID+" s "+d.Input+" "+d.Impl)
			idx = append(idx, i)
		}
		if ans, err := core.DriverBatch(r.Driver, ask); err == nil {
			for k, a := range ans {
				if !strings.HasPrefix(a, "viol") {
					continue
				}
				d := res.Disagreements[idx[k]]
				if _, mv := hcSplitVerdict(d.Model); mv == a {
					// the oracle says the same of the model's own result (a listed class met on
					// the way): the verdict is not about the difference, leave the case to the
					// runner's report of the broken correspondence
					continue
				}
				cls := "impl-differs " + strings.TrimSpace(strings.TrimPrefix(a, "viol"))
				if perClass[cls] < 3 {
					perClass[cls]++
					front = append(front, core.Finding{Kind: "failing-input", Class: cls, Input: d.Input, Impl: d.Impl, Model: d.Model,
						Detail: "implementation differs from the model and the property oracle rejects the implementation's result"})
				}
			}
		}
	}
	res.Violations = append(front, kept...)
}
