package props

import (
	"fmt"
	"strings"

	"gaeaverif/harness/core"
)

// C18 / C19 / C23 — one generator family over client sessions (sessconns.go
// holds the machinery and the line format), with a different emphasis per
// property.

type scGenCfg struct {
	focus string // C18 | C19 | C23
}

var scFaultsByBody = map[string][]string{
	"qu":       {"gm", "gs", "u", "x", "y", "a", "b", "s"},
	"qs":       {"gm", "gs", "u", "x", "y", "a", "b", "s"},
	"show":     {"gm", "gs", "u", "x", "y", "b"},
	"fl":       {"gm", "gs", "u", "f", "y", "b"},
	"begin":    {"b"},
	"commit":   {"c"},
	"rollback": {"r"},
	"ac":       {"a"},
	"sp":       {"s"},
	"rel":      {"s"},
	"rbt":      {"s"},
	"ping":     {"p"},
	"quit":     {"r"},
	"disc":     {"r"},
	"nsc":      {},
}

var scAllFaultKinds = []string{"gm", "gs", "u", "x", "s", "b", "c", "r", "a", "y", "p", "f", "m", "n"}

type scGenOp struct {
	body   string // s-expression text
	kind   string // key of scFaultsByBody
	reads  bool   // a statement whose result may be streamed
	ord    []int
	faults []string // "(k slice mode)"
}

var scSexpCache = map[string]core.Sexp{}

func (o scGenOp) sexp() core.Sexp {
	ord := make([]string, len(o.ord))
	for i, s := range o.ord {
		ord[i] = fmt.Sprint(s)
	}
	if o.kind == "nsc" && len(o.ord) == 2 && o.ord[0] == 0 {
		ord = nil // most reloads are observed through the hook, see sessconns.go
	}
	text := "(" + o.body + " (" + strings.Join(ord, " ") + ") (" + strings.Join(o.faults, " ") + "))"
	if x, ok := scSexpCache[text]; ok {
		return x
	}
	x := core.MustParse(text)
	scSexpCache[text] = x
	return x
}

func scPickBody(g *core.Gen, ks bool, focus string, inTx bool) (body, kind string, reads bool) {
	qk := func() string { return core.Pick(g, []string{"r", "r", "h", "l", "w", "w"}) }
	slices := func() string {
		return core.Pick(g, []string{"0", "1", "0 1", "0 1", "1 0"})
	}
	type cand struct {
		w    int
		make func() (string, string, bool)
	}
	cands := []cand{
		{10, func() (string, string, bool) { k := qk(); return "(q u " + k + ")", "qu", k != "w" }},
		{12, func() (string, string, bool) { k := qk(); return "(q s " + k + " " + slices() + ")", "qs", k != "w" }},
		{2, func() (string, string, bool) { return "(show)", "show", true }},
		{2, func() (string, string, bool) { return "(fl)", "fl", false }},
		{6, func() (string, string, bool) { return "(begin)", "begin", false }},
		{5, func() (string, string, bool) { return "(commit)", "commit", false }},
		{5, func() (string, string, bool) { return "(rollback)", "rollback", false }},
		{3, func() (string, string, bool) { return "(ac " + core.Pick(g, []string{"0", "1"}) + ")", "ac", false }},
		{2, func() (string, string, bool) { return "(sp " + core.Pick(g, []string{"1", "2"}) + ")", "sp", false }},
		{1, func() (string, string, bool) { return "(rel " + core.Pick(g, []string{"1", "2"}) + ")", "rel", false }},
		{1, func() (string, string, bool) { return "(rbt " + core.Pick(g, []string{"1", "2"}) + ")", "rbt", false }},
		{1, func() (string, string, bool) { return "(quit)", "quit", false }},
		{1, func() (string, string, bool) { return "(disc)", "disc", false }},
	}
	if ks {
		w := 3
		if focus == "C23" {
			w = 6
		}
		cands = append(cands,
			cand{w, func() (string, string, bool) { return "(ping)", "ping", false }},
			cand{w, func() (string, string, bool) { return "(nsc)", "nsc", false }})
	} else {
		cands = append(cands,
			cand{1, func() (string, string, bool) { return "(ping)", "ping", false }},
			cand{1, func() (string, string, bool) { return "(nsc)", "nsc", false }})
	}
	if focus == "C18" && !inTx {
		cands = append(cands, cand{10, func() (string, string, bool) { return "(begin)", "begin", false }},
			cand{4, func() (string, string, bool) { return "(ac 0)", "ac", false }})
	}
	total := 0
	for _, c := range cands {
		total += c.w
	}
	n := g.Intn(total)
	for _, c := range cands {
		if n < c.w {
			return c.make()
		}
		n -= c.w
	}
	return "(ping)", "ping", false
}

func scGenFaults(g *core.Gen, kind string, reads bool, pFault int, allowTimeout bool) []string {
	var out []string
	if g.Intn(100) >= pFault {
		return out
	}
	n := 1
	if g.Intn(4) == 0 {
		n = 2
	}
	for i := 0; i < n; i++ {
		kinds := scFaultsByBody[kind]
		if len(kinds) == 0 || g.Intn(8) == 0 {
			kinds = scAllFaultKinds // a fault the command may never reach
		}
		k := core.Pick(g, kinds)
		slice := g.Intn(2)
		mode := "e"
		if k != "gm" && k != "gs" && g.Intn(5) == 0 {
			mode = "z"
		}
		if k == "x" {
			switch g.Intn(6) {
			case 0:
				if allowTimeout {
					mode = "t"
				}
			case 1:
				if reads {
					mode = "more"
				}
			case 2:
				mode = "mres"
			}
		}
		if k == "m" && !reads {
			continue
		}
		out = append(out, fmt.Sprintf("(%s %d %s)", k, slice, mode))
		if mode == "more" && g.Intn(2) == 0 {
			out = append(out, fmt.Sprintf("(m %d e)", slice))
		}
		if mode == "mres" && g.Intn(3) == 0 {
			out = append(out, fmt.Sprintf("(n %d %s)", slice, core.Pick(g, []string{"e", "e", "z"})))
		}
	}
	return out
}

func scEmit(g *core.Gen, ks bool, user string, fb bool, ops []scGenOp, extra ...string) {
	xs := []core.Sexp{core.A("sess"), core.L(core.A("cfg"), core.B(ks), core.A(user), core.B(fb))}
	tags := []string{"user-" + user}
	if ks {
		tags = append(tags, "keep-session")
	} else {
		tags = append(tags, "no-keep-session")
	}
	seen := map[string]bool{}
	nf := 0
	for _, o := range ops {
		xs = append(xs, o.sexp())
		if !seen["op-"+o.kind] {
			seen["op-"+o.kind] = true
			tags = append(tags, "op-"+o.kind)
		}
		for _, f := range o.faults {
			nf++
			t := "fault-" + strings.Fields(strings.Trim(f, "()"))[0]
			if strings.HasSuffix(f, " z)") && !seen["fault-closes-conn"] {
				seen["fault-closes-conn"] = true
				tags = append(tags, "fault-closes-conn")
			}
			if strings.HasSuffix(f, " t)") {
				t = "fault-timeout"
			} else if strings.HasSuffix(f, " more)") {
				t = "streamed-result"
			} else if strings.HasSuffix(f, " mres)") {
				t = "more-results"
			}
			if !seen[t] {
				seen[t] = true
				tags = append(tags, t)
			}
		}
		if len(o.ord) == 2 && o.ord[0] == 1 && !seen["ord-reversed"] {
			seen["ord-reversed"] = true
			tags = append(tags, "ord-reversed")
		}
	}
	if nf == 0 {
		tags = append(tags, "no-fault")
	}
	switch {
	case len(ops) <= 3:
		tags = append(tags, "len<=3")
	case len(ops) <= 8:
		tags = append(tags, "len4-8")
	default:
		tags = append(tags, "len>8")
	}
	tags = append(tags, extra...)
	g.Emit(core.L(xs...), tags...)
}

func scOrd(g *core.Gen) []int {
	if g.Intn(10) < 3 {
		return []int{1, 0}
	}
	return []int{0, 1}
}

// scGenerate: random sessions, scenario templates with a fault moved through
// every position, and (thorough) every short sequence over a small alphabet.
func scGenerate(g *core.Gen, focus string) {
	users := []string{"rw", "w", "r"}
	maxLen := g.Scale(10, 25)
	nRandom := g.Scale(1200, 8000)
	pFault := 25
	if focus == "C19" {
		pFault = 45
	}
	timeouts := 0
	maxTimeouts := g.Scale(250, 2500) // each one costs a real statement timeout
	for i := 0; i < nRandom; i++ {
		ks := g.Intn(2) == 0
		if focus == "C23" {
			ks = g.Intn(8) != 0
		}
		user := users[g.Intn(3)]
		if g.Intn(3) == 0 {
			user = "w"
		}
		fb := g.Intn(2) == 0
		n := 1 + g.Intn(maxLen)
		if g.Intn(3) == 0 {
			n = 1 + g.Intn(5)
		}
		var ops []scGenOp
		inTx := false
		for j := 0; j < n; j++ {
			body, kind, reads := scPickBody(g, ks, focus, inTx)
			switch kind {
			case "begin":
				inTx = true
			case "commit", "rollback":
				inTx = false
			}
			allowT := timeouts < maxTimeouts && (kind == "qu" || kind == "qs" || kind == "show")
			fs := scGenFaults(g, kind, reads, pFault, allowT)
			for _, f := range fs {
				if strings.HasSuffix(f, " t)") {
					timeouts++
				}
			}
			ops = append(ops, scGenOp{body: body, kind: kind, reads: reads, ord: scOrd(g), faults: fs})
		}
		scEmit(g, ks, user, fb, ops, "random")
	}

	// scenario templates: a base history, and one fault moved over every command and kind
	type tmpl struct {
		name string
		ks   bool
		ops  []string // body ; kind
	}
	tmpls := []tmpl{
		{"tx-two-slices", false, []string{"(begin);begin", "(q s w 0 1);qs", "(q u w);qu", "(q s r 1);qs", "(commit);commit", "(q u r);qu", "(quit);quit"}},
		{"tx-rollback", false, []string{"(begin);begin", "(q u w);qu", "(q s w 1);qs", "(sp 1);sp", "(q s w 0 1);qs", "(rbt 1);rbt", "(rollback);rollback", "(disc);disc"}},
		{"autocommit-off", false, []string{"(ac 0);ac", "(q s w 0 1);qs", "(commit);commit", "(q u w);qu", "(rollback);rollback", "(ac 1);ac", "(q u r);qu", "(quit);quit"}},
		{"no-tx", false, []string{"(q u r);qu", "(q s r 0 1);qs", "(show);show", "(fl);fl", "(q u w);qu", "(quit);quit"}},
		{"ks-life", true, []string{"(q u r);qu", "(q s w 0 1);qs", "(ping);ping", "(begin);begin", "(q u w);qu", "(commit);commit", "(nsc);nsc", "(q u r);qu", "(quit);quit"}},
		{"ks-tx-nsc", true, []string{"(q s w 0 1);qs", "(begin);begin", "(q u w);qu", "(nsc);nsc", "(q u w);qu", "(q u r);qu"}},
		{"tx-shard-reads", false, []string{"(begin);begin", "(q s r 0 1);qs", "(q s w 0 1);qs", "(q s r 1);qs", "(q u r);qu", "(rollback);rollback", "(q s r 0 1);qs", "(quit);quit"}},
		{"ks-tx-shard", true, []string{"(q s r 0 1);qs", "(begin);begin", "(q s w 0 1);qs", "(q u w);qu", "(q s r 1);qs", "(commit);commit", "(q s r 0 1);qs", "(quit);quit"}},
		{"ks-autocommit-off", true, []string{"(q u r);qu", "(ac 0);ac", "(q s w 0 1);qs", "(commit);commit", "(ping);ping", "(ac 1);ac", "(nsc);nsc", "(ping);ping", "(disc);disc"}},
	}
	for _, t := range tmpls {
		for _, user := range users {
			for _, fb := range []bool{true, false} {
				if (user == "w") && !fb {
					continue
				}
				mk := func(fi int, fault string, rev bool) []scGenOp {
					var ops []scGenOp
					for i, o := range t.ops {
						p := strings.Split(o, ";")
						op := scGenOp{body: p[0], kind: p[1], ord: []int{0, 1}}
						if rev {
							op.ord = []int{1, 0}
						}
						if i == fi {
							op.faults = []string{fault}
						}
						ops = append(ops, op)
					}
					return ops
				}
				scEmit(g, t.ks, user, fb, mk(-1, "", false), "template", "template-"+t.name)
				scEmit(g, t.ks, user, fb, mk(-1, "", true), "template", "template-"+t.name)
				for fi := range t.ops {
					for _, k := range scAllFaultKinds {
						for slice := 0; slice < 2; slice++ {
							modes := []string{"e"}
							if k != "gm" && k != "gs" {
								modes = append(modes, "z")
							}
							if k == "x" {
								modes = append(modes, "more", "mres")
								if user == "w" && fb {
									modes = append(modes, "t")
								}
							}
							for _, m := range modes {
								body := strings.Split(t.ops[fi], ";")[0]
								if m == "more" && !strings.HasPrefix(body, "(q u r") && !strings.HasPrefix(body, "(q s r") {
									continue
								}
								if m == "mres" && !strings.HasPrefix(body, "(q ") && body != "(show)" {
									continue
								}
								if g.Tier == "quick" && g.Intn(5) != 0 {
									continue
								}
								scEmit(g, t.ks, user, fb, mk(fi, fmt.Sprintf("(%s %d %s)", k, slice, m), g.Intn(3) == 0), "template", "template-"+t.name)
							}
						}
					}
				}
			}
		}
	}

	if g.Tier != "quick" {
		// every sequence of at most 3 commands over a small alphabet
		alpha := []scGenOp{
			{body: "(begin)", kind: "begin"},
			{body: "(ac 0)", kind: "ac"},
			{body: "(q u w)", kind: "qu"},
			{body: "(q u w)", kind: "qu", faults: []string{"(x 0 e)"}},
			{body: "(q s w 0 1)", kind: "qs", faults: []string{"(x 1 z)"}},
			{body: "(q s r 0 1)", kind: "qs", faults: []string{"(x 0 more)", "(m 0 e)"}},
			{body: "(q u r)", kind: "qu", faults: []string{"(x 0 mres)"}},
			{body: "(q u w)", kind: "qu", faults: []string{"(b 0 e)", "(a 0 e)"}},
			{body: "(q s w 0 1)", kind: "qs"},
			{body: "(q s w 0 1)", kind: "qs", faults: []string{"(gm 1 e)"}},
			{body: "(q s w 1)", kind: "qs", faults: []string{"(y 1 e)"}},
			{body: "(commit)", kind: "commit", faults: []string{"(c 0 e)"}},
			{body: "(rollback)", kind: "rollback"},
			{body: "(ping)", kind: "ping", faults: []string{"(p 1 e)"}},
			{body: "(nsc)", kind: "nsc"},
			{body: "(quit)", kind: "quit"},
		}
		for _, ks := range []bool{false, true} {
			for _, rev := range []bool{false, true} {
				var rec func(prefix []scGenOp)
				rec = func(prefix []scGenOp) {
					if len(prefix) > 0 {
						scEmit(g, ks, "w", true, prefix, "exhaustive")
					}
					if len(prefix) == 3 {
						return
					}
					for _, a := range alpha {
						a.ord = []int{0, 1}
						if rev {
							a.ord = []int{1, 0}
						}
						rec(append(append([]scGenOp{}, prefix...), a))
					}
				}
				rec(nil)
			}
		}
	}
}

var scAssumptions = []string{
	"one step of the model = one iteration of Session.Run; a namespace reload happens between two commands of the session, never during one",
	"Go's map iteration order is an explicit input of the model (theorems quantify over it); the harness re-runs a command from a snapshot until the runtime happens to pick the prescribed order",
	"backend behaviour is that of the fake pools/connections of the harness: a call fails only as scripted or on a closed connection; pooledConnectImpl.Recycle releases the slot exactly once per call; ConnectionPool.Put resets a reused connection (ResetConnection), so a returned connection carries no open transaction",
	"the goroutine-level race of a statement timeout is represented by the in-flight flag of the connection only (the Go scheduler is not modelled): on both execution paths the connection is closed before the session's next bookkeeping step, which is what the model's atomic timeout-then-close step states",
	"which statements go to a replica is taken from the real planner/checkExecuteFromSlave for a fixed menu of statements (C22 owns that decision)",
}

func scTrivial(in core.Sexp, out string) bool {
	// trivial: no backend connection was ever taken
	return !strings.Contains(out, "(G ")
}

func init() {
	core.Register(&core.Property{
		ID:          "C18",
		Rule:        "client sessions (random command sequences with scripted backend faults and map-iteration orders, fault-sweep templates, exhaustive short sequences in the thorough tier; emphasis on transactions) run through the real Session.Run with fake pools; event trace, session state after every command and final ledger compared with the Lean model; non-trivial = at least one backend connection taken",
		Generate:    func(g *core.Gen) { scGenerate(g, "C18") },
		Exec:        scExec,
		Trivial:     scTrivial,
		Assumptions: scAssumptions,
	})
}
