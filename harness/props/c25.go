package props

import (
	"context"
	"errors"
	"fmt"
	"sort"
	"strings"
	"sync"

	"gaeaverif/harness/core"

	"github.com/XiaoMi/Gaea/backend"
	gerrors "github.com/XiaoMi/Gaea/core/errors"
)

// C25 — replica selection: backend/balancer.go (gcd, newBalancer, next) and
// backend/slice.go (getIndicesAndWeights, InitBalancers, getNodeFromBalancer,
// getConnFromBalancer, getConnFromBalancerTryAll, GetSlaveConn) with scripted
// pools; every ConnPool.Get of a selection is recorded and compared.

// c25Pool records every Get (the node number) in the log of the running selection.
type c25Pool struct {
	*balFakePool
	log *[]int
}

func (p *c25Pool) Get(ctx context.Context) (backend.PooledConnect, error) {
	*p.log = append(*p.log, p.node)
	return p.balFakePool.Get(ctx)
}

func init() {
	core.Register(&core.Property{
		ID: "C25",
		Rule: "bal: newBalancer on 1–6 (quick ≤4) nodes, weights 0–8 (+ multiples, negatives, all-zero, duplicate indices, length mismatch), queue order fixed by generated keys, " +
			"cursor preset at 0, inside a round and within 8 of 2^32, up to 3 rounds of next; conc: 16 goroutines × k rounds, exact counts; " +
			"gsc: DBInfo of 1–6 nodes, two datacenters (+ proxy in a third), up/down and pool ok/failing states changed between selections, " +
			"policies closed/prefer/force/other, plus all-up single-policy runs of ≥2 rounds for the window check, plus preferred-local runs in which " +
			"about half of the pools fail (retry over the local, then the remote replicas); the sequence of pools asked by every selection is part of the output; " +
			"non-trivial = a node was selected",
		Generate: genC25,
		Exec:     execC25,
		Trivial: func(in core.Sexp, out string) bool {
			return !strings.HasPrefix(out, "(ok") || !(strings.Contains(out, "conn") || in.Head() != "gsc")
		},
		Assumptions: []string{
			"Go int is 64 bits; weights and their sums are far from 2^63; a queue has at most 2^32 entries",
			"rand.Shuffle in newBalancer is replaced on both sides by a permutation fixed in the input (the multiset of the really shuffled queue is compared first)",
			"a node's status and pool do not change while one GetSlaveConn runs (it holds the DBInfo lock; the health checker does not); the breaker (TryFuse) is not installed on the nodes here (C26)",
		},
	})
}

func sexpInts(s core.Sexp) []int {
	out := make([]int, len(s.List))
	for i, x := range s.List {
		out[i] = int(x.Int())
	}
	return out
}

func fmtIntList(ns []int) string {
	parts := make([]string, len(ns))
	for i, n := range ns {
		parts[i] = fmt.Sprint(n)
	}
	return "(" + strings.Join(parts, " ") + ")"
}

// c25FixQueue puts the (really shuffled) queue into the order "sorted
// ascending, then stably sorted by keys" in place and returns the sorted copy.
func c25FixQueue(q []int, keys []int) []int {
	sorted := append([]int{}, q...)
	sort.Ints(sorted)
	type kv struct{ k, v int }
	tagged := make([]kv, len(sorted))
	for j, v := range sorted {
		k := 0
		if j < len(keys) {
			k = keys[j]
		}
		tagged[j] = kv{k, v}
	}
	sort.SliceStable(tagged, func(a, b int) bool { return tagged[a].k < tagged[b].k })
	for j := range q {
		q[j] = tagged[j].v
	}
	return sorted
}

func execC25(in core.Sexp) string {
	balQuiet()
	switch in.Head() {
	case "bal", "conc":
		is, ws, keys := sexpInts(in.Nth(1)), sexpInts(in.Nth(2)), sexpInts(in.Nth(3))
		b, err := backend.VerifNewBalancer(is, ws)
		if err != nil {
			return "(err mismatch)"
		}
		if b == nil {
			return "(nil)"
		}
		q := backend.VerifBalancerQueue(b)
		sorted := c25FixQueue(q, keys)
		if c := in.Nth(4); c.Atom != "-" {
			backend.VerifBalancerSetCursor(b, uint32(c.Uint()))
		}
		if in.Head() == "bal" {
			n := int(in.Nth(5).Int())
			var picks []string
			for i := 0; i < n; i++ {
				idx, err := backend.VerifBalancerNext(b)
				if err != nil {
					picks = append(picks, "err")
					break
				}
				picks = append(picks, fmt.Sprint(idx))
			}
			return "(ok " + fmtIntList(sorted) + " (" + strings.Join(picks, " ") + "))"
		}
		g, k := int(in.Nth(5).Int()), int(in.Nth(6).Int())
		per := k * len(q)
		counts := map[int]int{}
		var mu sync.Mutex
		var wg sync.WaitGroup
		failed, panicked := false, false
		for i := 0; i < g; i++ {
			wg.Add(1)
			go func() {
				defer wg.Done()
				defer func() { // a panic in a goroutine would kill the whole run
					if e := recover(); e != nil {
						mu.Lock()
						panicked = true
						mu.Unlock()
					}
				}()
				local := map[int]int{}
				for j := 0; j < per; j++ {
					idx, err := backend.VerifBalancerNext(b)
					if err != nil {
						mu.Lock()
						failed = true
						mu.Unlock()
						return
					}
					local[idx]++
				}
				mu.Lock()
				for v, c := range local {
					counts[v] += c
				}
				mu.Unlock()
			}()
		}
		wg.Wait()
		if panicked {
			return "panic"
		}
		if failed {
			return "(err next)"
		}
		var vs []int
		for v := range counts {
			vs = append(vs, v)
		}
		sort.Ints(vs)
		parts := make([]string, len(vs))
		for i, v := range vs {
			parts[i] = fmt.Sprintf("(%d %d)", v, counts[v])
		}
		return "(ok " + fmtIntList(sorted) + " (" + strings.Join(parts, " ") + "))"
	case "gsc":
		return execC25Gsc(in)
	}
	return "bad"
}

func execC25Gsc(in core.Sexp) string {
	proxy := fmt.Sprintf("dc%d", in.Nth(1).Int())
	lastGet := -1
	var getLog []int
	var pools []*balFakePool
	dbi := &backend.DBInfo{}
	for i, n := range in.Nth(2).List {
		p := &balFakePool{node: i, dc: fmt.Sprintf("dc%d", n.Nth(1).Int()), answer: "ok", lastGet: &lastGet}
		if !n.Nth(3).Bool() {
			p.answer = "conn"
		}
		nd := &backend.NodeInfo{Address: p.Addr(), Datacenter: p.dc, Weight: int(n.Nth(0).Int()), ConnPool: &c25Pool{p, &getLog}, Status: backend.StatusDown}
		if n.Nth(2).Bool() {
			nd.Status = backend.StatusUp
		}
		pools = append(pools, p)
		dbi.Nodes = append(dbi.Nodes, nd)
	}
	if err := dbi.InitBalancers(proxy); err != nil {
		return "(err init)"
	}
	keys, ctrs := in.Nth(3), in.Nth(4)
	var qs [3]string
	if dbi.LocalBalancer == nil {
		qs[0] = "nil"
	} else {
		qs[0] = fmtIntList(c25FixQueue(backend.VerifBalancerQueue(dbi.LocalBalancer), sexpInts(keys.Nth(0))))
		if c := ctrs.Nth(0); c.Atom != "-" {
			backend.VerifBalancerSetCursor(dbi.LocalBalancer, uint32(c.Uint()))
		}
	}
	if dbi.RemoteBalancer == nil {
		qs[1] = "nil"
	} else {
		qs[1] = fmtIntList(c25FixQueue(backend.VerifBalancerQueue(dbi.RemoteBalancer), sexpInts(keys.Nth(1))))
		if c := ctrs.Nth(1); c.Atom != "-" {
			backend.VerifBalancerSetCursor(dbi.RemoteBalancer, uint32(c.Uint()))
		}
	}
	if dbi.GlobalBalancer == nil {
		qs[2] = "nil"
	} else {
		qs[2] = fmtIntList(c25FixQueue(backend.VerifBalancerQueue(dbi.GlobalBalancer), sexpInts(keys.Nth(2))))
		if c := ctrs.Nth(2); c.Atom != "-" {
			backend.VerifBalancerSetCursor(dbi.GlobalBalancer, uint32(c.Uint()))
		}
	}
	s := &backend.Slice{Namespace: "verif", Slave: dbi, ProxyDatacenter: proxy}
	var outs, gets []string
	for _, op := range in.Nth(5).List {
		switch op.Head() {
		case "up":
			i := int(op.Nth(1).Int())
			if i < len(dbi.Nodes) {
				if op.Nth(2).Bool() {
					dbi.Nodes[i].SetStatusUp()
				} else {
					dbi.Nodes[i].SetStatusDown()
				}
			}
		case "pool":
			i := int(op.Nth(1).Int())
			if i < len(pools) {
				pools[i].answer = "ok"
				if !op.Nth(2).Bool() {
					pools[i].answer = "conn"
				}
			}
		case "sel":
			lastGet = -1
			getLog = nil
			pc, err := s.GetSlaveConn(dbi, int(op.Nth(1).Int()))
			outs = append(outs, c25Outcome(pc, err, lastGet))
			gets = append(gets, fmtIntList(getLog))
		default:
			return "bad"
		}
	}
	return "(ok (" + strings.Join(qs[:], " ") + ") (" + strings.Join(outs, " ") + ") (" + strings.Join(gets, " ") + "))"
}

func c25Outcome(pc backend.PooledConnect, err error, lastGet int) string {
	if err == nil {
		if fc, ok := pc.(*balFakeConn); ok {
			return fmt.Sprintf("(conn %d)", fc.node)
		}
		return "(conn-of-unknown-node)"
	}
	if pc != nil {
		return "(conn-and-error)"
	}
	msg := err.Error()
	switch {
	case errors.Is(err, gerrors.ErrNoSlaveDB):
		return "no-slave"
	case backend.VerifIsGetConnError(err):
		return fmt.Sprintf("(pool %d)", lastGet)
	case strings.Contains(msg, "no local balancer available"):
		return "no-local-balancer"
	case strings.Contains(msg, "no global balancer available"):
		return "no-global-balancer"
	case strings.Contains(msg, "no healthy connection available"):
		return "no-healthy"
	case strings.Contains(msg, "failed to get next index"):
		return "next-err"
	case strings.Contains(msg, "no available slave DB in local or remote"):
		return "no-local-or-remote"
	}
	return "(err-unknown)"
}

func genC25(g *core.Gen) {
	ints := func(ns []int) core.Sexp { return core.Ints(ns) }
	maxNodes := g.Scale(4, 6)
	nearWrap := []string{"4294967295", "4294967294", "4294967293", "4294967291", "4294967288", "4294967200"}
	pickCtr := func() core.Sexp {
		switch g.Intn(6) {
		case 0:
			return core.A(core.Pick(g, nearWrap))
		case 1:
			return core.A(fmt.Sprint(g.Intn(60)))
		case 2:
			return core.A(fmt.Sprint(g.Rand.Uint32()))
		}
		return core.A("-")
	}
	keysN := func(n int) []int {
		ks := make([]int, n)
		for i := range ks {
			ks[i] = g.Intn(7)
		}
		return ks
	}
	weights := func(n int) []int {
		ws := make([]int, n)
		mul := 1
		if g.Intn(3) == 0 {
			mul = core.Pick(g, []int{2, 3, 4, 10, 100})
		}
		for i := range ws {
			switch g.Intn(8) {
			case 0:
				ws[i] = 0
			case 1:
				ws[i] = 1
			default:
				ws[i] = g.Intn(9)
			}
			ws[i] *= mul
			if mul > 4 && ws[i] > 8*mul/2 { // keep queues short
				ws[i] = mul
			}
		}
		return ws
	}
	// balancer level
	n := g.Scale(1500, 20000)
	for i := 0; i < n; i++ {
		k := 1 + g.Intn(maxNodes)
		is := g.Rand.Perm(k)
		if g.Intn(3) == 0 {
			sort.Ints(is)
		}
		ws := weights(k)
		tag := "valid"
		switch g.Intn(25) {
		case 0:
			ws[g.Intn(k)] = -1 - g.Intn(4)
			tag = "negative-weight"
		case 1:
			for j := range ws {
				ws[j] = 0
			}
			tag = "all-zero"
		case 2:
			is = append(is, is[0])
			ws = append(ws, 1+g.Intn(3))
			tag = "duplicate-index"
		case 3:
			ws = ws[:len(ws)-1]
			tag = "length-mismatch"
		case 4:
			is, ws = nil, nil
			tag = "empty"
		}
		sum := 0
		for _, w := range ws {
			if w > 0 {
				sum += w
			}
		}
		np := g.Intn(3*sum + 4)
		if np > 150 {
			np = 150
		}
		g.Emit(core.L(core.A("bal"), ints(is), ints(ws), ints(keysN(g.Intn(50))), pickCtr(), core.I(int64(np))), "bal", tag)
	}
	n = g.Scale(60, 600)
	for i := 0; i < n; i++ {
		k := 1 + g.Intn(maxNodes)
		is := g.Rand.Perm(k)
		ws := weights(k)
		ws[g.Intn(k)] = 1 + g.Intn(8)
		g.Emit(core.L(core.A("conc"), ints(is), ints(ws), ints(keysN(g.Intn(50))), pickCtr(), core.I(16), core.I(int64(1+g.Intn(3)))), "conc")
	}
	// GetSlaveConn level
	policies := []int64{0, 0, 1, 1, 1, 2, 2, 3, -1}
	n = g.Scale(2500, 30000)
	for i := 0; i < n; i++ {
		k := 1 + g.Intn(maxNodes)
		if g.Intn(40) == 0 {
			k = 0
		}
		mode := g.Intn(4)
		allUp := mode == 0
		preferRetry := mode == 1 // preferred-local reads with many failing pools
		ws := weights(k)
		nodes := make([]core.Sexp, k)
		sum := 0
		for j := 0; j < k; j++ {
			w := ws[j]
			if g.Intn(40) == 0 {
				w = -1
			}
			if w > 0 {
				sum += w
			}
			up := allUp || g.Intn(4) != 0
			pool := allUp || g.Intn(5) != 0
			if preferRetry {
				up = g.Intn(6) != 0
				pool = g.Intn(2) == 0
			}
			nodes[j] = core.L(core.I(int64(w)), core.I(int64(g.Intn(2))), core.B(up), core.B(pool))
		}
		proxy := int64(g.Intn(2))
		if g.Intn(8) == 0 {
			proxy = 2
		}
		var ops []core.Sexp
		tag := "mixed"
		if allUp {
			tag = "all-up-single-policy"
			p := core.Pick(g, policies)
			cnt := 1 + g.Intn(3*sum+3)
			if cnt > 120 {
				cnt = 120
			}
			for j := 0; j < cnt; j++ {
				ops = append(ops, core.L(core.A("sel"), core.I(p)))
			}
		} else if preferRetry {
			tag = "prefer-failing-pools"
			cnt := 1 + g.Intn(g.Scale(16, 30))
			for j := 0; j < cnt; j++ {
				switch g.Intn(10) {
				case 0:
					ops = append(ops, core.L(core.A("up"), core.I(int64(g.Intn(k+1))), core.B(g.Intn(3) != 0)))
				case 1, 2:
					ops = append(ops, core.L(core.A("pool"), core.I(int64(g.Intn(k+1))), core.B(g.Intn(2) == 0)))
				case 3:
					ops = append(ops, core.L(core.A("sel"), core.I(core.Pick(g, policies))))
				default:
					ops = append(ops, core.L(core.A("sel"), core.I(1)))
				}
			}
		} else {
			cnt := 1 + g.Intn(g.Scale(24, 40))
			for j := 0; j < cnt; j++ {
				switch g.Intn(6) {
				case 0:
					ops = append(ops, core.L(core.A("up"), core.I(int64(g.Intn(k+1))), core.B(g.Intn(2) == 0)))
				case 1:
					ops = append(ops, core.L(core.A("pool"), core.I(int64(g.Intn(k+1))), core.B(g.Intn(2) == 0)))
				default:
					ops = append(ops, core.L(core.A("sel"), core.I(core.Pick(g, policies))))
				}
			}
		}
		g.Emit(core.L(core.A("gsc"), core.I(proxy), core.L(nodes...),
			core.L(ints(keysN(g.Intn(50))), ints(keysN(g.Intn(50))), ints(keysN(g.Intn(50)))),
			core.L(pickCtr(), pickCtr(), pickCtr()), core.L(ops...)), "gsc", tag)
	}
}
