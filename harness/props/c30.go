package props

import (
	"crypto/sha1"
	"crypto/sha256"
	"encoding/hex"
	"fmt"
	"strings"

	"gaeaverif/harness/core"

	"github.com/XiaoMi/Gaea/models"
	"github.com/XiaoMi/Gaea/mysql"
	"github.com/XiaoMi/Gaea/proxy/server"
)

// C30 — password checks of the handshake: mysql.CalcPassword, CheckHashPassword,
// CalcCachingSha2Password, the three UserManager.Check* loops and the method
// selection of Session.handleHandshakeResponse.

func init() {
	core.Register(&core.Property{
		ID: "C30",
		Rule: "handshakes (hs): a user with 1-4 configured passwords (clear ASCII / multi-byte / empty, '*'+40 hex upper or lower case, malformed hex, '*' with 39 or 41 characters, " +
			"hashes whose SHA1 preimage is shorter or longer than 20 bytes) in distinct or shared namespaces, salts of 20 random bytes (a few of other lengths), plugin \"\" / mysql_native_password / caching_sha2_password / other, " +
			"responses: the correct native or sha2 scramble of a configured password computed independently with crypto/sha1 and crypto/sha256, of the stored hash string itself, one bit off, " +
			"one byte shorter or longer, random of length 0,1,19,20,21,31,32,33,40, another password's, XOR-preimages of length != 20; " +
			"plus the same material through each UserManager.Check* loop (um), CheckHashPassword (hashchk), CalcPassword (native), CalcCachingSha2Password (sha2), hex.DecodeString (hexdec), " +
			"isStoredHashPassword (storedhash: every kind of entry, and strings of 39-43 characters over hex and non-hex alphabets with and without the '*'), " +
			"and SHA-1/SHA-256 of messages of every length 0-130 (sha1, sha256); non-trivial = a response was accepted or a digest/scramble was produced",
		Generate: genC30,
		Exec:     execC30,
		Trivial: func(in core.Sexp, out string) bool {
			return strings.HasPrefix(out, "(deny") || strings.HasPrefix(out, "(f") || out == "panic" || out == "-"
		},
		Assumptions: []string{
			"SHA-1 and SHA-256 are parameters of the theorems (any functions with 20- and 32-byte outputs); the executable SHA-1/SHA-256 of the driver are compared with Go's crypto on every run",
			"encoding/hex.DecodeString is modelled (bytes decoded before the first error), compared on every run",
			"the collation checks that follow a successful password check in handleHandshakeResponse are outside C30 (the harness presents a valid collation)",
		},
	})
}

var c30User = "u"

func c30UM(entries []core.Sexp) *server.UserManager {
	um := server.NewUserManager()
	for _, e := range entries {
		um.VerifAddNamespaceUsers(&models.Namespace{Name: e.Nth(0).Str(),
			Users: []*models.User{{UserName: c30User, Password: e.Nth(1).Str(), Namespace: e.Nth(0).Str()}}})
	}
	return um
}

func execC30(in core.Sexp) string {
	switch in.Head() {
	case "sha1":
		h := sha1.Sum(in.Nth(1).Bytes())
		return core.Hex(h[:]).String()
	case "sha256":
		h := sha256.Sum256(in.Nth(1).Bytes())
		return core.Hex(h[:]).String()
	case "hexdec":
		b, _ := hex.DecodeString(string(in.Nth(1).Bytes()))
		return core.Hex(b).String()
	case "storedhash":
		return core.B(server.VerifIsStoredHashPassword(string(in.Nth(1).Bytes()))).String()
	case "native":
		salt := in.Nth(1).Bytes()
		saltCopy := append([]byte{}, salt...)
		r := mysql.CalcPassword(salt, in.Nth(2).Bytes())
		if string(salt) != string(saltCopy) {
			return "(salt-modified)"
		}
		return "(ok " + core.Hex(r).String() + ")"
	case "sha2":
		r := mysql.CalcCachingSha2Password(in.Nth(1).Bytes(), in.Nth(2).Str())
		return "(ok " + core.Hex(r).String() + ")"
	case "hashchk":
		resp := in.Nth(1).Bytes()
		ok := mysql.CheckHashPassword(resp, in.Nth(2).Bytes(), in.Nth(3).Bytes())
		return fmt.Sprintf("(%s %s)", core.B(ok), core.Hex(resp))
	case "um":
		var entries []core.Sexp
		for _, p := range in.Nth(2).List {
			entries = append(entries, core.L(core.Text("n"), p))
		}
		um := c30UM(entries)
		salt, auth := in.Nth(3).Bytes(), in.Nth(4).Bytes()
		var ok bool
		var pw string
		switch in.Nth(1).Atom {
		case "clear":
			ok, pw = um.CheckPassword(c30User, salt, auth)
		case "hash":
			ok, pw = um.CheckHashPassword(c30User, salt, auth)
		case "sha2":
			ok, pw = um.CheckSha2Password(c30User, salt, auth)
		default:
			return "bad"
		}
		if ok {
			return fmt.Sprintf("(t %s %s)", core.Text(pw), core.Hex(auth))
		}
		return fmt.Sprintf("(f %s)", core.Hex(auth))
	case "hs":
		um := c30UM(in.Nth(1).List)
		auth := in.Nth(5).Bytes()
		info := server.HandshakeResponseInfo{
			CollationID:  mysql.DefaultCollationID,
			User:         in.Nth(2).Str(),
			Salt:         in.Nth(3).Bytes(),
			AuthPlugin:   in.Nth(4).Str(),
			AuthResponse: auth,
		}
		ok, ns, _ := server.VerifHandshakeDecision(um, info)
		if ok {
			return fmt.Sprintf("(accept %s %s)", core.Text(ns), core.Hex(auth))
		}
		return fmt.Sprintf("(deny %s)", core.Hex(auth))
	}
	return "bad"
}

// independent implementations of the client side of the two protocols

func c30Sha1(bs ...[]byte) []byte {
	h := sha1.New()
	for _, b := range bs {
		h.Write(b)
	}
	return h.Sum(nil)
}

func c30Sha256(bs ...[]byte) []byte {
	h := sha256.New()
	for _, b := range bs {
		h.Write(b)
	}
	return h.Sum(nil)
}

func c30Xor(a, b []byte) []byte {
	n := len(a)
	if len(b) < n {
		n = len(b)
	}
	out := make([]byte, n)
	for i := 0; i < n; i++ {
		out[i] = a[i] ^ b[i]
	}
	return out
}

// native scramble from stage1 = SHA1(password) (or any claimed stage1)
func c30NativeFromStage1(salt, stage1 []byte) []byte {
	return c30Xor(stage1, c30Sha1(salt, c30Sha1(stage1)))
}

func c30Native(salt []byte, pw string) []byte {
	if pw == "" {
		return nil
	}
	return c30NativeFromStage1(salt, c30Sha1([]byte(pw)))
}

func c30Sha2(salt []byte, pw string) []byte {
	if pw == "" {
		return nil
	}
	m1 := c30Sha256([]byte(pw))
	return c30Xor(m1, c30Sha256(c30Sha256(m1), salt))
}

type c30entry struct {
	stored string // configured string
	clear  string // clear password the entry stands for ("" if none known)
	stage1 []byte // SHA1 preimage of the stored hash when it is not SHA1(clear): any length
	kind   string
}

var c30Clear = []string{"p", "secret", "pass word", "p:q", "*", "*23AE809DDACAF96AF0FD78ED04B6A265E05AA25", "пароль", "密码123", "a\x00b", "0123456789012345678901234567890123456789x"}

func c30Entry(g *core.Gen) c30entry {
	switch g.Intn(14) {
	case 0:
		return c30entry{stored: "", clear: "", kind: "empty"}
	case 1, 2, 3, 4:
		p := core.Pick(g, c30Clear)
		if g.Intn(3) == 0 {
			b := make([]byte, 1+g.Intn(12))
			g.Rand.Read(b)
			p = hex.EncodeToString(b)[:1+g.Intn(2*len(b))]
		}
		return c30entry{stored: p, clear: p, kind: "clear"}
	case 5, 6, 7, 8:
		p := core.Pick(g, c30Clear)
		if g.Intn(3) == 0 {
			p = fmt.Sprintf("pw%d", g.Intn(1000))
		}
		h := hex.EncodeToString(c30Sha1(c30Sha1([]byte(p))))
		if g.Intn(3) != 0 {
			h = strings.ToUpper(h)
		}
		return c30entry{stored: "*" + h, clear: p, kind: "hashed"}
	case 9: // malformed hex inside a 41-character entry
		p := core.Pick(g, c30Clear)
		h := []byte(strings.ToUpper(hex.EncodeToString(c30Sha1(c30Sha1([]byte(p))))))
		h[g.Intn(40)] = core.Pick(g, []byte{'G', 'g', ' ', '*', 0xff, '/', ':', '@', '`'})
		return c30entry{stored: "*" + string(h), clear: "*" + string(h), kind: "hashed-malformed"}
	case 10: // '*' prefix but 40 or 42 characters
		p := core.Pick(g, c30Clear)
		h := strings.ToUpper(hex.EncodeToString(c30Sha1(c30Sha1([]byte(p)))))
		if g.Intn(2) == 0 {
			h = h[:39]
		} else {
			h += "0"
		}
		return c30entry{stored: "*" + h, clear: "*" + h, kind: "star-wrong-length"}
	case 11, 12: // stored hash whose SHA1 preimage is not 20 bytes long
		n := core.Pick(g, []int{0, 1, 2, 19, 19, 21, 31, 32, 33})
		x := make([]byte, n)
		g.Rand.Read(x)
		return c30entry{stored: "*" + strings.ToUpper(hex.EncodeToString(c30Sha1(x))), stage1: x, kind: "hashed-odd-preimage"}
	default: // a 41-character clear password starting with '*' that is not hex
		return c30entry{stored: "*" + strings.Repeat("z", 40), clear: "*" + strings.Repeat("z", 40), kind: "clear-star41"}
	}
}

func c30Salt(g *core.Gen) []byte {
	n := 20
	if g.Intn(25) == 0 {
		n = core.Pick(g, []int{0, 8, 19, 21, 32})
	}
	s := make([]byte, n)
	g.Rand.Read(s)
	if g.Intn(10) == 0 && n > 0 {
		s[g.Intn(n)] = 0
	}
	return s
}

func c30Flip(g *core.Gen, b []byte) []byte {
	out := append([]byte{}, b...)
	if len(out) > 0 {
		out[g.Intn(len(out))] ^= 1 << uint(g.Intn(8))
	}
	return out
}

// c30Response picks an auth response for the entries; returns it with a tag.
//
// The responses built from the stored string itself (the repaired finding
// hash-literal-accepted-as-password, fix f737e0b) are generated at full rate.
func c30Response(g *core.Gen, salt []byte, es []c30entry) ([]byte, string) {
	e := core.Pick(g, es)
	correctNative := func(e c30entry) []byte {
		if e.stage1 != nil {
			// XOR with the mask, the mask padded with zeros when the preimage is longer
			mask := c30Sha1(salt, c30Sha1(e.stage1))
			for len(mask) < len(e.stage1) {
				mask = append(mask, 0)
			}
			return c30Xor(e.stage1, mask)
		}
		return c30Native(salt, e.clear)
	}
	switch g.Intn(16) {
	case 0, 1, 2, 3:
		return correctNative(e), "resp-native-correct"
	case 4, 5:
		return c30Sha2(salt, e.clear), "resp-sha2-correct"
	case 6:
		return c30Native(salt, e.stored), "resp-native-of-stored-string"
	case 7:
		return c30Sha2(salt, e.stored), "resp-sha2-of-stored-string"
	case 8:
		if g.Intn(2) == 0 {
			return c30Flip(g, correctNative(e)), "resp-one-bit-off"
		}
		return c30Flip(g, c30Sha2(salt, e.clear)), "resp-one-bit-off"
	case 9:
		r := correctNative(e)
		if g.Intn(2) == 0 {
			r = c30Sha2(salt, e.clear)
		}
		if len(r) > 0 && g.Intn(2) == 0 {
			return r[:len(r)-1], "resp-one-byte-short"
		}
		return append(append([]byte{}, r...), byte(g.Intn(256))), "resp-one-byte-long"
	case 10, 11:
		r := make([]byte, core.Pick(g, []int{0, 1, 19, 20, 21, 31, 32, 33, 40}))
		g.Rand.Read(r)
		return r, "resp-random"
	case 12:
		other := core.Pick(g, []string{"other", "P", "secret ", ""})
		if g.Intn(2) == 0 {
			return c30Native(salt, other), "resp-other-password"
		}
		return c30Sha2(salt, other), "resp-other-password"
	case 13: // right length, wrong content: the mask alone / the stage1 alone
		if e.stage1 != nil || e.clear != "" {
			st := e.stage1
			if st == nil {
				st = c30Sha1([]byte(e.clear))
			}
			if g.Intn(2) == 0 {
				return c30Sha1(salt, c30Sha1(st)), "resp-mask-only"
			}
			return st, "resp-stage1-only"
		}
		return make([]byte, 20), "resp-zeros"
	case 14: // correct native for the SHA1 string in lower/upper case variant of the entry
		return c30Native(salt, strings.ToLower(e.stored)), "resp-native-of-stored-string"
	default:
		return nil, "resp-empty"
	}
}

func genC30(g *core.Gen) {
	// SHA-1 / SHA-256 against crypto: every length around the padding boundaries
	maxLen := g.Scale(130, 260)
	for n := 0; n <= maxLen; n++ {
		d := make([]byte, n)
		g.Rand.Read(d)
		g.Emit(core.L(core.A("sha1"), core.Hex(d)), "sha1")
		g.Emit(core.L(core.A("sha256"), core.Hex(d)), "sha256")
	}
	for _, d := range [][]byte{[]byte("abc"), make([]byte, 55), make([]byte, 56), make([]byte, 64), make([]byte, 119), make([]byte, 120), []byte(strings.Repeat("\xff", 64))} {
		g.Emit(core.L(core.A("sha1"), core.Hex(d)), "sha1")
		g.Emit(core.L(core.A("sha256"), core.Hex(d)), "sha256")
	}
	// hex.DecodeString
	hexAlpha := []byte("0123456789abcdefABCDEFgG/:@`zZ *\xff")
	for i := 0; i < g.Scale(150, 1500); i++ {
		n := g.Intn(8)
		if g.Intn(4) == 0 {
			n = 38 + g.Intn(5)
		}
		s := make([]byte, n)
		for j := range s {
			if g.Intn(8) == 0 {
				s[j] = core.Pick(g, hexAlpha)
			} else {
				s[j] = hexAlpha[g.Intn(22)]
			}
		}
		g.Emit(core.L(core.A("hexdec"), core.Hex(s)), "hexdec")
	}
	// isStoredHashPassword
	for i := 0; i < g.Scale(300, 3000); i++ {
		var str string
		if g.Intn(3) == 0 {
			str = c30Entry(g).stored
		} else {
			n := 40
			if g.Intn(3) == 0 {
				n = 38 + g.Intn(5)
			}
			b := make([]byte, n)
			for j := range b {
				if g.Intn(30) == 0 {
					b[j] = core.Pick(g, hexAlpha)
				} else {
					b[j] = hexAlpha[g.Intn(22)]
				}
			}
			str = string(b)
			if g.Intn(6) != 0 {
				str = "*" + str
			}
		}
		g.Emit(core.L(core.A("storedhash"), core.Text(str)), "storedhash")
	}
	n := g.Scale(2200, 30000)
	for i := 0; i < n; i++ {
		salt := c30Salt(g)
		var es []c30entry
		for k := 0; k < 1+g.Intn(4); k++ {
			es = append(es, c30Entry(g))
		}
		resp, rtag := c30Response(g, salt, es)
		switch g.Intn(12) {
		case 0: // the primitive functions
			e := core.Pick(g, es)
			g.Emit(core.L(core.A("native"), core.Hex(salt), core.Text(e.stored)), "native", e.kind)
			g.Emit(core.L(core.A("sha2"), core.Hex(salt), core.Text(e.stored)), "sha2", e.kind)
		case 1:
			e := core.Pick(g, es)
			enc := ""
			if len(e.stored) > 0 {
				enc = e.stored[1:]
			}
			if g.Intn(8) == 0 {
				enc = core.Pick(g, []string{"", "zz", "0", strings.Repeat("0", 40)})
			}
			g.Emit(core.L(core.A("hashchk"), core.Hex(resp), core.Hex(salt), core.Text(enc)), "hashchk", e.kind, rtag)
		case 2, 3:
			var ps []core.Sexp
			for _, e := range es {
				ps = append(ps, core.Text(e.stored))
			}
			kind := core.Pick(g, []string{"clear", "hash", "sha2"})
			g.Emit(core.L(core.A("um"), core.A(kind), core.L(ps...), core.Hex(salt), core.Hex(resp)), "um-"+kind, rtag)
		default:
			var xs []core.Sexp
			sharedNs := g.Intn(6) == 0
			tags := []string{"hs", rtag}
			for k, e := range es {
				ns := fmt.Sprintf("n%d", k+1)
				if sharedNs {
					ns = "n1"
				}
				xs = append(xs, core.L(core.Text(ns), core.Text(e.stored)))
				tags = append(tags, "entry-"+e.kind)
			}
			user := c30User
			if g.Intn(25) == 0 {
				user = core.Pick(g, []string{"v", "", "u ", "U"})
				tags = append(tags, "unknown-user")
			}
			plugin := ""
			switch g.Intn(20) {
			case 0, 1, 2, 3:
				plugin = mysqlNativePassword
			case 4, 5, 6, 7:
				plugin = cachingSha2Password
			case 8:
				plugin = core.Pick(g, []string{"sha256_password", "mysql_clear_password", "caching_sha2_password ", "MYSQL_NATIVE_PASSWORD"})
			}
			ptag, known := map[string]string{"": "none", mysqlNativePassword: "native", cachingSha2Password: "sha2"}[plugin]
			if !known {
				ptag = "other"
			}
			tags = append(tags, "plugin-"+ptag)
			g.Emit(core.L(core.A("hs"), core.L(xs...), core.Text(user), core.Hex(salt), core.Text(plugin), core.Hex(resp)), tags...)
		}
	}
}

const (
	mysqlNativePassword = "mysql_native_password"
	cachingSha2Password = "caching_sha2_password"
)
