package props

import (
	"bytes"
	"crypto/aes"
	"encoding/base64"
	"encoding/json"
	"fmt"
	"os"
	"path/filepath"
	"sort"
	"strings"

	"gaeaverif/harness/core"

	"github.com/XiaoMi/Gaea/models"
	"github.com/XiaoMi/Gaea/util/crypto"
)

// C33 — stored configurations round-trip and stay inside the storage area:
// util/crypto (padding, ECB), models encrypt/decrypt, Namespace.Encrypt/Decrypt,
// Store.UpdateNamespace/LoadNamespace over LocalClient, LocalClient path functions.

func init() {
	core.Register(&core.Property{
		ID: "C33",
		Rule: "padding on lengths around every multiple of the block size and block sizes 0…300; unpadding on buffers with last byte 0, 1, len, len+1, 255; " +
			"ECB and models.encrypt/decrypt with keys of 0…40 bytes (16/24/32 valid), data lengths 0…70 around block boundaries, arbitrary bytes, the AES " +
			"block function supplied as a table computed with crypto/aes; decryption of arbitrary/truncated/bit-flipped ciphertexts, non-base64 text, wrong keys; " +
			"store: namespaces with 1–3 users and slices whose names/passwords are arbitrary bytes (white space, empty, duplicates, invalid UTF-8), saved " +
			"(Verify, Encrypt, UpdateNamespace on a LocalClient in a scratch directory, optionally copied like the proxy's local copy) and loaded again; " +
			"paths: components from {a, .., ., empty, unusual and forbidden characters, 255/256-byte names}, absolute/relative, up to 1030 bytes, the storage " +
			"root at several depths; fs: real writes, then a listing of the scratch directory; non-trivial = no error outcome",
		Generate: genC33,
		Exec:     execC33,
		Trivial: func(in core.Sexp, out string) bool {
			return out == "fail" || out == "panic" || strings.HasPrefix(out, "(err")
		},
		Assumptions: []string{
			"crypto/aes (a block cipher with D(E(b)) = b on 16-byte blocks), encoding/base64 and encoding/json are trusted; the AES block function is supplied per case as a table computed with the standard library",
			"path/filepath.Clean/Join/Rel are trusted; the model's component-wise version is compared with them on every run (requests clean, rel, join)",
			"the file system refuses file names of more than 255 bytes and names holding NUL; no symbolic links inside the storage directory",
		},
	})
}

func c33ErrKind(err error) string {
	m := err.Error()
	switch {
	case strings.Contains(m, "path cannot be empty"):
		return "(err empty)"
	case strings.Contains(m, "invalid path"):
		return "(err traversal)"
	case strings.Contains(m, "invalid characters"):
		return "(err chars)"
	case strings.Contains(m, "path too long"):
		return "(err toolong)"
	case strings.Contains(m, "storage directory, not a file"):
		return "(err nofile)"
	}
	return "(err other)"
}

func c33R(b []byte, err error) string {
	if err != nil {
		return "fail"
	}
	return "(ok " + core.Hex(b).String() + ")"
}

type c33Cred struct{ user, pass string }

func c33Creds(in core.Sexp) []c33Cred {
	var cs []c33Cred
	for _, p := range in.List {
		cs = append(cs, c33Cred{p.Nth(0).Str(), p.Nth(1).Str()})
	}
	return cs
}

func c33BuildNamespace(name string, enc bool, users, slices []c33Cred) *models.Namespace {
	ns := &models.Namespace{
		Name:          name,
		IsEncrypt:     enc,
		Online:        true,
		AllowedDBS:    map[string]bool{"db1": true, "db2": true},
		SlowSQLTime:   "1000",
		BlackSQL:      []string{"select 1 from <t> where a > '&'"},
		AllowedIP:     []string{"10.0.0.0/8", " 127.0.0.1"},
		DefaultSlice:  "",
		MaxSqlExecuteTime: 5,
	}
	for i, u := range users {
		ns.Users = append(ns.Users, &models.User{UserName: u.user, Password: u.pass, RWFlag: 2, RWSplit: i % 2, OtherProperty: 0})
	}
	for i, s := range slices {
		ns.Slices = append(ns.Slices, &models.Slice{Name: fmt.Sprintf("slice-%d", i), UserName: s.user, Password: s.pass,
			Master: "127.0.0.1:3306", Slaves: []string{"127.0.0.1:3307"}, Capacity: 4, MaxCapacity: 8, IdleTimeout: 60})
	}
	if len(slices) > 0 {
		ns.DefaultSlice = "slice-0"
	}
	return ns
}

func c33FmtCreds(users []*models.User, slices []*models.Slice) string {
	var b strings.Builder
	b.WriteString("(")
	for i, u := range users {
		if i > 0 {
			b.WriteString(" ")
		}
		fmt.Fprintf(&b, "(%s %s)", core.Text(u.UserName), core.Text(u.Password))
	}
	b.WriteString(") (")
	for i, s := range slices {
		if i > 0 {
			b.WriteString(" ")
		}
		fmt.Fprintf(&b, "(%s %s)", core.Text(s.UserName), core.Text(s.Password))
	}
	b.WriteString(")")
	return b.String()
}

// JSON of a namespace with the credential fields and the encryption marker blanked
func c33Masked(ns *models.Namespace) string {
	data, _ := json.Marshal(ns)
	var c models.Namespace
	if err := json.Unmarshal(data, &c); err != nil {
		return "unmarshal:" + err.Error()
	}
	c.IsEncrypt = false
	for _, u := range c.Users {
		u.UserName, u.Password = "", ""
	}
	for _, s := range c.Slices {
		s.UserName, s.Password = "", ""
	}
	out, _ := json.Marshal(&c)
	return string(out)
}

func c33Store(in core.Sexp) string {
	key, pfx, name := in.Nth(1).Str(), in.Nth(2).Str(), in.Nth(3).Str()
	enc, via := in.Nth(4).Bool(), in.Nth(5).Bool()
	ns := c33BuildNamespace(name, enc, c33Creds(in.Nth(6)), c33Creds(in.Nth(7)))
	// control plane: validate, encrypt, save
	if err := ns.Verify(); err != nil {
		return "(err verify)"
	}
	want := c33Masked(ns)
	if err := ns.Encrypt(key); err != nil {
		return "(err encrypt)"
	}
	tmp, err := os.MkdirTemp("", "gaea-verif-c33-")
	if err != nil {
		return "(err tmp)"
	}
	defer os.RemoveAll(tmp)
	lc, err := models.NewLocalClient(filepath.Join(tmp, "root", "store"), pfx)
	if err != nil {
		return "(err tmp)"
	}
	store := models.NewStore(lc)
	// prior store content (`store_roundtrip` holds for every prior content): an older, longer
	// version of the same namespace is saved first, so that the save under test overwrites it
	if prior := c33BuildNamespace(name, enc, append(c33Creds(in.Nth(6)), c33Cred{"prior_user_with_a_long_name", strings.Repeat("p", 300)}), c33Creds(in.Nth(7))); prior.Verify() == nil && prior.Encrypt(key) == nil {
		_ = store.UpdateNamespace(prior)
	}
	if err := store.UpdateNamespace(ns); err != nil {
		return "(err update)"
	}
	if via {
		// the proxy's local copy: origin namespace (decoded, verified, still encrypted) written to a second store
		origin, err := store.LoadOriginNamespace(name)
		if err != nil {
			return "(err load)"
		}
		lc2, err := models.NewLocalClient(filepath.Join(tmp, "root", "store2"), pfx)
		if err != nil {
			return "(err tmp)"
		}
		store = models.NewStore(lc2)
		if err := store.UpdateNamespace(origin); err != nil {
			return "(err load)"
		}
	}
	loaded, err := store.LoadNamespace(key, name)
	if err != nil {
		return "(err load)"
	}
	rest := "f"
	if c33Masked(loaded) == want {
		rest = "t"
	}
	return fmt.Sprintf("(ok %s %s %s)", c33FmtCreds(loaded.Users, loaded.Slices), core.B(loaded.IsEncrypt), rest)
}

func execC33(in core.Sexp) string {
	switch in.Head() {
	case "pad":
		return "(ok " + core.Hex(crypto.VerifPkcs5Padding(in.Nth(1).Bytes(), int(in.Nth(2).Int()))).String() + ")"
	case "unpad":
		return c33R(crypto.VerifPkcs5UnPadding(in.Nth(1).Bytes()))
	case "enc":
		key := in.Nth(1).Str()
		c, err := crypto.EncryptECB(key, in.Nth(2).Bytes())
		if err != nil {
			return "fail"
		}
		back := c33R(crypto.DecryptECB(key, append([]byte{}, c...)))
		return fmt.Sprintf("(ok %s %s)", core.Hex(c), back)
	case "dec":
		return c33R(crypto.DecryptECB(in.Nth(1).Str(), append([]byte{}, in.Nth(2).Bytes()...)))
	case "crypt":
		key := in.Nth(1).Str()
		c, err := models.VerifEncrypt(key, in.Nth(2).Str())
		if err != nil {
			return "fail"
		}
		p, err := models.VerifDecrypt(key, c)
		return fmt.Sprintf("(ok %s %s)", core.Text(c), c33R([]byte(p), err))
	case "decrypt":
		p, err := models.VerifDecrypt(in.Nth(1).Str(), in.Nth(2).Str())
		return c33R([]byte(p), err)
	case "store":
		return c33Store(in)
	case "clean":
		return core.Text(filepath.Clean(in.Nth(1).Str())).String()
	case "rel":
		r, err := filepath.Rel("/", in.Nth(1).Str())
		if err != nil {
			return "(err rel)"
		}
		return core.Text(r).String()
	case "join":
		return core.Text(filepath.Join(in.Nth(1).Str(), in.Nth(2).Str())).String()
	case "safe":
		lc := models.VerifLocalClientAt("/root/store", "/gaea")
		p, err := lc.VerifSafeJoinPath(in.Nth(1).Str())
		if err != nil {
			return c33ErrKind(err)
		}
		return "(ok " + core.Text(p).String() + ")"
	case "nspath", "dirpath":
		lc := models.VerifLocalClientAt(in.Nth(1).Str(), "/gaea")
		var p string
		var err error
		if in.Head() == "nspath" {
			p, err = lc.FullNamespacePath(in.Nth(2).Str())
		} else {
			p, err = lc.FullDirPath(in.Nth(2).Str())
		}
		if err != nil {
			return c33ErrKind(err)
		}
		return "(ok " + core.Text(p).String() + ")"
	case "fs":
		tmp, err := os.MkdirTemp("", "gaea-verif-c33-")
		if err != nil {
			return "(err tmp)"
		}
		defer os.RemoveAll(tmp)
		lc, err := models.NewLocalClient(filepath.Join(tmp, "root", "store"), "/gaea")
		if err != nil {
			return "(err tmp)"
		}
		path := in.Nth(1).Str()
		if err := lc.Update(path, []byte("{}")); err != nil {
			if strings.Contains(err.Error(), "failed to join path") {
				return "(err path)"
			}
			return "(err io)"
		}
		// what the client reads back must be what was written
		if b, err := lc.Read(path); err != nil || string(b) != "{}" {
			return "(err readback)"
		}
		var files []string
		filepath.Walk(tmp, func(p string, info os.FileInfo, err error) error {
			if err == nil && !info.IsDir() {
				r, _ := filepath.Rel(tmp, p)
				files = append(files, r)
			}
			return nil
		})
		sort.Strings(files)
		xs := make([]core.Sexp, len(files))
		for i, f := range files {
			xs[i] = core.Text(f)
		}
		return "(ok " + core.L(xs...).String() + ")"
	}
	return "bad"
}

// ---- generator ----

// table of the AES block function under key on the given 16-byte blocks: (plain cipher) pairs
func c33EncTable(key []byte, plain []byte) core.Sexp {
	blk, err := aes.NewCipher(key)
	if err != nil {
		return core.L()
	}
	var xs []core.Sexp
	seen := map[string]bool{}
	for i := 0; i+16 <= len(plain); i += 16 {
		p := plain[i : i+16]
		if seen[string(p)] {
			continue
		}
		seen[string(p)] = true
		c := make([]byte, 16)
		blk.Encrypt(c, p)
		xs = append(xs, core.L(core.Hex(p), core.Hex(c)))
	}
	return core.L(xs...)
}

func c33DecTable(key []byte, cipher []byte) core.Sexp {
	blk, err := aes.NewCipher(key)
	if err != nil {
		return core.L()
	}
	var xs []core.Sexp
	seen := map[string]bool{}
	for i := 0; i+16 <= len(cipher); i += 16 {
		c := cipher[i : i+16]
		if seen[string(c)] {
			continue
		}
		seen[string(c)] = true
		p := make([]byte, 16)
		blk.Decrypt(p, c)
		xs = append(xs, core.L(core.Hex(p), core.Hex(c)))
	}
	return core.L(xs...)
}

// reference PKCS#7 padding, only used to know which blocks the table must hold
func c33RefPad(d []byte) []byte {
	n := 16 - len(d)%16
	return append(append([]byte{}, d...), bytes.Repeat([]byte{byte(n)}, n)...)
}

func c33Key(g *core.Gen) []byte {
	n := core.Pick(g, []int{16, 16, 16, 24, 32, 32})
	if g.Intn(8) == 0 {
		n = core.Pick(g, []int{0, 1, 15, 17, 23, 25, 31, 33, 40})
	}
	k := make([]byte, n)
	switch g.Intn(3) {
	case 0:
		for i := range k {
			k[i] = "0123456789abcdef"[g.Intn(16)]
		}
	default:
		g.Rand.Read(k)
	}
	return k
}

func c33Data(g *core.Gen) []byte {
	n := core.Pick(g, []int{0, 1, 2, 14, 15, 16, 17, 31, 32, 33, 47, 48, 49, 64})
	if g.Intn(3) == 0 {
		n = g.Intn(71)
	}
	d := make([]byte, n)
	switch g.Intn(5) {
	case 0: // looks like padding at the end
		g.Rand.Read(d)
		if n > 0 {
			p := byte(1 + g.Intn(16))
			for i := n - 1; i >= 0 && n-i <= int(p); i-- {
				d[i] = p
			}
		}
	case 1: // text
		for i := range d {
			d[i] = " \tabcXYZ019_-!@:/\\\"'\n"[g.Intn(21)]
		}
	case 2: // zeros and 0xff
		for i := range d {
			d[i] = core.Pick(g, []byte{0, 0xff, 0x10, 1})
		}
	default:
		g.Rand.Read(d)
	}
	return d
}

func c33CredString(g *core.Gen) string {
	switch g.Intn(12) {
	case 0:
		return ""
	case 1:
		return core.Pick(g, []string{" ", "  \t", "\n"})
	case 2:
		return " " + string(c33Data(g)) + "\t"
	case 3:
		return core.Pick(g, []string{"root", "gaea_user", "p@ss:w0rd", "密码", "a ", "　x", "x\u0085"})
	case 4: // invalid UTF-8
		return string([]byte{0xff, 0xfe, byte(g.Intn(256)), 0x80, 'a'})
	case 5:
		return "dup"
	}
	d := c33Data(g)
	if len(d) == 0 {
		d = []byte{byte(1 + g.Intn(255))}
	}
	return string(d)
}

var c33Comps = []string{"a", "b", "ns", "..", "..", ".", "", "...", "..a", "a..", ".hidden", "x.json", "namespace", "a b", "ü", "名", "a\\b", "a:b",
	"<", ">", "\"", "|", "?", "*", "a*b", "\n", "\x00", "\x7f", "%2e%2e", "~", "-", "$HOME", "{}", "CON", "a\tb"}

func c33Path(g *core.Gen) string {
	k := core.Pick(g, []int{0, 1, 1, 2, 2, 3, 3, 4, 5, 7})
	var cs []string
	for i := 0; i < k; i++ {
		switch g.Intn(10) {
		case 0, 1, 2:
			cs = append(cs, core.Pick(g, []string{"a", "b", "ns", "namespace", "gaea"}))
		case 3, 4:
			cs = append(cs, "..")
		default:
			cs = append(cs, core.Pick(g, c33Comps))
		}
	}
	p := strings.Join(cs, core.Pick(g, []string{"/", "/", "/", "//", "/./"}))
	switch g.Intn(6) {
	case 0, 1:
		p = "/" + p
	case 2:
		p = "//" + p
	case 3:
		p = p + "/"
	}
	if g.Intn(25) == 0 { // length boundary of safeJoinPath (1024) and of file names (255)
		n := core.Pick(g, []int{254, 255, 256, 1019, 1023, 1024, 1025, 1030})
		if n > 300 {
			var b strings.Builder
			for b.Len() < n-len(p)-1 {
				b.WriteString(strings.Repeat("d", 1+g.Intn(200)) + "/")
			}
			s := b.String()
			if len(s) > n-len(p)-1 && n-len(p)-1 > 0 {
				s = s[:n-len(p)-1]
			}
			p = s + "/" + p
		} else {
			p = p + "/" + strings.Repeat("n", n)
		}
	}
	return p
}

func genC33(g *core.Gen) {
	// padding
	for bs := 0; bs <= 300; bs++ {
		if bs > 40 && bs%16 != 0 && bs != 255 && bs != 256 && bs != 257 && g.Intn(8) != 0 {
			continue
		}
		for _, n := range []int{0, 1, bs - 1, bs, bs + 1, 2*bs - 1, 2 * bs} {
			if n < 0 || n > 700 {
				continue
			}
			d := make([]byte, n)
			g.Rand.Read(d)
			g.Emit(core.L(core.A("pad"), core.Hex(d), core.I(int64(bs))), "pad")
		}
	}
	for i := 0; i < g.Scale(300, 5000); i++ {
		d := c33Data(g)
		g.Emit(core.L(core.A("pad"), core.Hex(d), core.I(int64(core.Pick(g, []int{16, 16, 8, 1, 32, 255})))), "pad")
		// unpadding: arbitrary buffers with interesting last bytes
		u := c33Data(g)
		if len(u) > 0 {
			u[len(u)-1] = core.Pick(g, []byte{0, 1, 2, 15, 16, 17, byte(len(u) - 1), byte(len(u)), byte(len(u) + 1), 255, u[len(u)-1]})
		}
		g.Emit(core.L(core.A("unpad"), core.Hex(u)), "unpad")
	}
	// ECB and encrypt/decrypt round trips
	for i := 0; i < g.Scale(700, 12000); i++ {
		key, d := c33Key(g), c33Data(g)
		tbl := c33EncTable(key, c33RefPad(d))
		op := core.Pick(g, []string{"enc", "crypt"})
		kt := "key-valid"
		if len(key) != 16 && len(key) != 24 && len(key) != 32 {
			kt = "key-invalid"
		}
		g.Emit(core.L(core.A(op), core.Hex(key), core.Hex(d), tbl), op, kt)
	}
	// decryption of malformed data
	for i := 0; i < g.Scale(700, 12000); i++ {
		key := c33Key(g)
		var c []byte
		tag := ""
		switch g.Intn(6) {
		case 0: // random bytes, any length
			c, tag = c33Data(g), "cipher-random"
		case 1: // whole random blocks
			c = make([]byte, 16*g.Intn(4))
			g.Rand.Read(c)
			tag = "cipher-random-blocks"
		default: // a real ciphertext, then damaged
			d := c33Data(g)
			k2 := key
			if g.Intn(3) == 0 { // wrong key
				k2 = c33Key(g)
				tag = "cipher-wrong-key"
			}
			var err error
			c, err = crypto.EncryptECB(string(k2), d)
			if err != nil {
				c = c33Data(g)
			}
			switch g.Intn(4) {
			case 0:
				if tag == "" {
					tag = "cipher-genuine"
				}
			case 1:
				if len(c) > 0 {
					c = c[:g.Intn(len(c))]
				}
				tag = "cipher-truncated"
			case 2:
				if len(c) > 0 {
					c[g.Intn(len(c))] ^= 1 << uint(g.Intn(8))
				}
				tag = "cipher-bitflip"
			default:
				if len(c) >= 32 { // drop or swap a block
					c = append(append([]byte{}, c[16:32]...), c[:16]...)
				}
				tag = "cipher-blocks-swapped"
			}
		}
		if g.Intn(2) == 0 {
			g.Emit(core.L(core.A("dec"), core.Hex(key), core.Hex(c), c33DecTable(key, c)), "dec", tag)
		} else {
			text := base64.StdEncoding.EncodeToString(c)
			switch g.Intn(8) {
			case 0:
				text = string(c) // not base64 at all
				tag += "+not-base64"
			case 1:
				if len(text) > 0 {
					text = text[:g.Intn(len(text))]
				}
				tag += "+base64-truncated"
			case 2:
				text = text + core.Pick(g, []string{"=", "==", "\n", "!", " x", "QQ=="})
				tag += "+base64-trailing"
			case 3:
				if len(text) > 4 {
					j := g.Intn(len(text))
					text = text[:j] + core.Pick(g, []string{"\n", "\r\n", "=", "-", "_", " "}) + text[j:]
				}
				tag += "+base64-inserted"
			}
			raw, _ := base64.StdEncoding.DecodeString(text)
			g.Emit(core.L(core.A("decrypt"), core.Hex(key), core.Text(text), c33DecTable(key, raw)), "decrypt", tag)
		}
	}
	// store round trips
	prefixes := []string{"/gaea_cluster", "/gaea", "", "gaea/rel", "/a/../b", "/"}
	names := []string{"ns1", "test_namespace", "ns-2.v1", "名字", "a b", "x.json", "a/b", "../ns", "../../x", "..", ".", "../..", "../../..", "/abs", "a/../b",
		"ns\x00", "ns*", "q?", "", strings.Repeat("n", 250), strings.Repeat("n", 251), strings.Repeat("n", 1100), "a\\b", "~", "<ns>"}
	for i := 0; i < g.Scale(220, 2500); i++ {
		key := c33Key(g)
		nu, nsl := 1+g.Intn(3), 1+g.Intn(3)
		if g.Intn(30) == 0 {
			nu = 0
		}
		if g.Intn(30) == 0 {
			nsl = 0
		}
		mk := func(n int, user bool) core.Sexp {
			var xs []core.Sexp
			for j := 0; j < n; j++ {
				u, p := c33CredString(g), c33CredString(g)
				if g.Intn(4) != 0 && strings.TrimSpace(u) == "" {
					u = fmt.Sprintf("user%d", j)
				}
				if user && g.Intn(4) != 0 && p == "" {
					p = "pw"
				}
				xs = append(xs, core.L(core.Text(u), core.Text(p)))
			}
			return core.L(xs...)
		}
		name := core.Pick(g, names)
		if g.Intn(2) == 0 {
			name = core.Pick(g, names[:5])
		}
		via := g.Intn(3) == 0
		tags := []string{"store"}
		if via {
			tags = append(tags, "store-via-local-copy")
		}
		g.Emit(core.L(core.A("store"), core.Hex(key), core.Text(core.Pick(g, prefixes)), core.Text(name), core.B(g.Intn(2) == 0), core.B(via),
			mk(nu, true), mk(nsl, false)), tags...)
	}
	// paths
	storages := []string{"/root/store", "/", "/s", "/var/lib/gaea/ns.d", "/a b/名"}
	for i := 0; i < g.Scale(2500, 40000); i++ {
		p := c33Path(g)
		switch g.Intn(8) {
		case 0:
			g.Emit(core.L(core.A("clean"), core.Text(p)), "clean")
		case 1:
			if strings.HasPrefix(p, "/") {
				g.Emit(core.L(core.A("rel"), core.Text(p)), "rel")
			} else {
				g.Emit(core.L(core.A("join"), core.Text(core.Pick(g, storages)), core.Text(p)), "join")
			}
		case 2:
			g.Emit(core.L(core.A("safe"), core.Text(p)), "safe")
		case 3, 4:
			g.Emit(core.L(core.A("nspath"), core.Text(core.Pick(g, storages)), core.Text(p)), "nspath")
		case 5:
			g.Emit(core.L(core.A("dirpath"), core.Text(core.Pick(g, storages)), core.Text(p)), "dirpath")
		default:
			if g.Tier == "quick" && g.Intn(3) != 0 {
				g.Emit(core.L(core.A("nspath"), core.Text("/root/store"), core.Text(p)), "nspath")
			} else {
				g.Emit(core.L(core.A("fs"), core.Text(p)), "fs")
			}
		}
	}
	// the store's own path for adversarial namespace names
	for _, pfx := range prefixes {
		for _, n := range names {
			p := filepath.Join(pfx, "namespace", n)
			g.Emit(core.L(core.A("nspath"), core.Text("/root/store"), core.Text(p)), "nspath", "nspath-of-namespace-name")
			g.Emit(core.L(core.A("fs"), core.Text(p)), "fs", "fs-of-namespace-name")
		}
	}
}
