package props

import (
	"encoding/binary"
	"errors"
	"fmt"
	"io"
	"net"
	"strings"
	"time"

	"gaeaverif/harness/core"

	"github.com/XiaoMi/Gaea/mysql"
	"github.com/XiaoMi/Gaea/proxy/server"
)

// C38 — malformed client input never crashes the proxy.
//
// Inputs (one line = one whole case):
//
//	(hs <plugin> <salt> (<payload> …))   Session.Handshake over a scripted connection: server auth plugin,
//	                                     the 20-byte scramble, the payloads the client sends (handshake
//	                                     response, then the answer to an auth-switch request if any)
//	(chk <resp> <enc>)                   mysql.CheckHashPassword(resp, scramble, enc): indexing only
//	(sess <db> (<payload> …))            Session.Run over a scripted connection for a logged-in session
//	                                     (user verif_plain, database <db>); payload = command byte + data,
//	                                     "-" = a zero-length packet
//
// Outputs:
//
//	hs:   (hs (err <kind>)) | (hs (info cap coll user auth db plugin) done) | panic
//	chk:  (done) | panic
//	sess: ((<resp> …) <end>)   resp = none | ok | eof | q | fl | (prep id n) | (err code tag)
//	                            end  = open | closed | recovered ; an escaping panic is the outcome "panic"

func init() {
	core.Register(&core.Property{
		ID: "C38",
		Rule: "sessions: scripts of well-formed prepared-statement traffic (prepare/execute with every parameter type/long data/reset/close, " +
			"field list, init db, ping, set option, quit) with one packet mutated (every truncation point, length bytes ±1/0xff, " +
			"out-of-range statement and parameter ids, dropped NUL, zero-length packet, unknown command bytes) and COM_QUERY texts built from " +
			"comment introducers with and without their terminators, unterminated quotes, hint / version-comment openers, NUL and non-UTF-8 bytes " +
			"(each must be answered or the connection closed within the per-case time limit); handshakes: well-formed " +
			"responses for every capability combination, truncated at every offset, with oversized length prefixes and auth responses " +
			"of every length 0…40 for plain and hashed users; non-trivial = the session answered at least one packet with something " +
			"other than an error (or the handshake was decoded)",
		Generate: genC38,
		Exec:     execC38,
		Trivial:  trivialC38,
		Extra:    extraC38,
		Assumptions: []string{
			"SQL text handed to handleQuery is not modelled: a COM_QUERY, a successfully bound COM_STMT_EXECUTE and a well-formed COM_FIELD_LIST are compared as 'reached the query layer' (q / fl), whatever the layer answers; its panics are turned into errors by the recover in handleQuery (translator fact c38HandleQueryRecovers)",
			"prepared statements are generated from an alphabet without quotes, back-quotes, backslashes and comment introducers, so that the number of parameters is the number of '?' (CalcParams itself belongs to C14)",
			"authentication results are not compared (accepted and denied are both 'done'): SHA1/SHA256 are not modelled; only the decoding of the handshake response and the indexing in CheckHashPassword are",
			"packets are shorter than 2^24-1 bytes (multi-frame packets belong to C11); sequence numbers are well-formed",
			"Go runtime: recover() stops a panic in the goroutine that deferred it; fatal errors (out of memory, concurrent map writes, deadlock) are not modelled — the thorough tier's loopback run is the search for those",
		},
	})
}

// ---------------------------------------------------------------------------
// scripted connection

var errC38Closed = errors.New("use of closed scripted connection")

type c38Conn struct {
	pkts      [][]byte // payloads the client sends, in order
	handshake bool     // sequence numbers continue the server's; otherwise every packet has sequence 0
	cur       []byte   // rest of the frame being delivered
	next      int      // index of the next payload
	wbuf      []byte   // partial frame written by the server
	out       [][]byte // payloads written by the server since the last delivery
	pre       [][]byte // payloads written before the first delivery
	resp      [][][]byte
	lastSeq   int
	askedMore bool
	closed    bool
}

func (c *c38Conn) boundary() {
	if c.next == 0 {
		c.pre = append(c.pre, c.out...)
	} else {
		for len(c.resp) < c.next {
			c.resp = append(c.resp, nil)
		}
		c.resp[c.next-1] = append(c.resp[c.next-1], c.out...)
	}
	c.out = nil
}

func (c *c38Conn) Read(p []byte) (int, error) {
	if c.closed {
		return 0, errC38Closed
	}
	if len(c.cur) == 0 {
		c.boundary()
		if c.next >= len(c.pkts) {
			c.askedMore = true
			return 0, io.EOF
		}
		pl := c.pkts[c.next]
		c.next++
		seq := 0
		if c.handshake {
			seq = c.lastSeq + 1
		}
		c.cur = append([]byte{byte(len(pl)), byte(len(pl) >> 8), byte(len(pl) >> 16), byte(seq)}, pl...)
	}
	n := copy(p, c.cur)
	c.cur = c.cur[n:]
	return n, nil
}

func (c *c38Conn) Write(p []byte) (int, error) {
	if c.closed {
		return 0, errC38Closed
	}
	c.wbuf = append(c.wbuf, p...)
	for len(c.wbuf) >= 4 {
		l := int(c.wbuf[0]) | int(c.wbuf[1])<<8 | int(c.wbuf[2])<<16
		if len(c.wbuf) < 4+l {
			break
		}
		c.lastSeq = int(c.wbuf[3])
		c.out = append(c.out, append([]byte{}, c.wbuf[4:4+l]...))
		c.wbuf = c.wbuf[4+l:]
	}
	return len(p), nil
}

func (c *c38Conn) Close() error {
	if !c.closed {
		c.boundary()
	}
	c.closed = true
	return nil
}
func (c *c38Conn) LocalAddr() net.Addr                { return &net.TCPAddr{IP: net.IPv4(127, 0, 0, 1), Port: 13306} }
func (c *c38Conn) RemoteAddr() net.Addr               { return &net.TCPAddr{IP: net.IPv4(127, 0, 0, 1), Port: 50001} }
func (c *c38Conn) SetDeadline(t time.Time) error      { return nil }
func (c *c38Conn) SetReadDeadline(t time.Time) error  { return nil }
func (c *c38Conn) SetWriteDeadline(t time.Time) error { return nil }

// ---------------------------------------------------------------------------
// classification of what the server wrote

var c38ErrTags = []struct{ prefix, tag string }{
	{"Malform packet error", "malform"},
	{"unsupported flag", "flag"},
	{"Stmt Unknown FieldType", "ftype"},
	{"Stmt invalid float parameter value", "floatval"},
	{"invalid date packet length", "datelen"},
	{"invalid datetime packet length", "dtlen"},
	{"invalid time packet length", "timelen"},
	{"ReadLenEncStringAsBytes in bindStmtArgs failed", "lenenc"},
	{"must have database", "nodbname"},
	{"command ", "unknowncmd"},
	{"invalid param long data type", "longtype"},
	{"Unknown prepared statement handler", "nostmt"},
	{"Incorrect arguments to", "wrongargs"},
	{"No database selected", "nodb"},
}

func c38ErrClass(payload []byte) (code int, tag string) {
	if len(payload) < 3 {
		return 0, "short"
	}
	code = int(binary.LittleEndian.Uint16(payload[1:3]))
	msg := payload[3:]
	if len(msg) >= 6 && msg[0] == '#' {
		msg = msg[6:]
	}
	for _, t := range c38ErrTags {
		if strings.HasPrefix(string(msg), t.prefix) {
			return code, t.tag
		}
	}
	return code, "other"
}

// c38Resp classifies the frames written in answer to one command packet.
func c38Resp(pkt []byte, frames [][]byte) string {
	if len(frames) == 0 {
		return "none"
	}
	f := frames[0]
	var cmd byte
	if len(pkt) > 0 {
		cmd = pkt[0]
	}
	isErr := len(f) > 0 && f[0] == 0xff
	switch {
	case len(pkt) > 0 && cmd == mysql.ComQuery:
		return "q"
	case len(pkt) > 0 && cmd == mysql.ComStmtExecute:
		if isErr {
			if code, tag := c38ErrClass(f); tag != "other" {
				return fmt.Sprintf("(err %d %s)", code, tag)
			}
		}
		return "q"
	case len(pkt) > 0 && cmd == mysql.ComFieldList:
		if isErr {
			if code, tag := c38ErrClass(f); tag == "malform" {
				return fmt.Sprintf("(err %d %s)", code, tag)
			}
		}
		return "fl"
	case len(pkt) > 0 && cmd == mysql.ComStmtPrepare && len(f) >= 9 && f[0] == 0:
		return fmt.Sprintf("(prep %d %d)", binary.LittleEndian.Uint32(f[1:5]), binary.LittleEndian.Uint16(f[7:9]))
	}
	switch {
	case isErr:
		code, tag := c38ErrClass(f)
		return fmt.Sprintf("(err %d %s)", code, tag)
	case len(f) > 0 && f[0] == 0:
		return "ok"
	case len(f) > 0 && f[0] == 0xfe && len(f) < 9:
		return "eof"
	}
	return "other"
}

var c38HsErrKinds = []struct{ sub, kind string }{
	{"can't read client flags", "flags"},
	{"only support protocol 4.1", "proto41"},
	{"can't read maxPacketSize", "maxpkt"},
	{"can't read characterSet", "charset"},
	{"can't read username", "user"},
	{"can't read auth-response variable length", "authlen"},
	{"can't read auth-response", "auth"},
	{"can't read db", "db"},
	{"can't read auth switch response", "switch"},
}

func c38Env() *server.VerifC38Env {
	e, err := server.VerifC38Start()
	if err != nil {
		panic("C38 environment: " + err.Error())
	}
	return e
}

func c38Payloads(x core.Sexp) [][]byte {
	var out [][]byte
	for _, p := range x.List {
		out = append(out, p.Bytes())
	}
	return out
}

func execC38(in core.Sexp) string {
	switch in.Head() {
	case "chk":
		resp := in.Nth(1).Bytes()
		enc := in.Nth(2).Bytes()
		scramble := []byte("01234567890123456789")
		mysql.CheckHashPassword(append([]byte{}, resp...), scramble, enc)
		return "(done)"
	case "hs":
		e := c38Env()
		e.SetAuthPlugin(in.Nth(1).Str())
		defer e.SetAuthPlugin("")
		// decoding alone first (the fields as readHandshakeResponse returns them) …
		dconn := &c38Conn{pkts: c38Payloads(in.Nth(3)), handshake: true}
		ds := e.NewSession(dconn)
		ds.SetSalt(in.Nth(2).Bytes())
		r := ds.DecodeHandshake()
		if r.Err != nil {
			if strings.HasPrefix(r.Err.Error(), "readHandshakeResponse:") {
				for _, k := range c38HsErrKinds {
					if strings.Contains(r.Err.Error(), k.sub) {
						return "(hs (err " + k.kind + "))"
					}
				}
				return "(hs (err other))"
			}
			return "(hs (err io))"
		}
		// … then the whole Session.Handshake (decoding + password checks) on a fresh session
		conn := &c38Conn{pkts: c38Payloads(in.Nth(3)), handshake: true}
		s := e.NewSession(conn)
		s.SetSalt(in.Nth(2).Bytes())
		s.Handshake()
		return fmt.Sprintf("(hs (info %d %d %s %s %s %s) done)", r.Capability, r.Collation,
			core.Text(r.User), core.Hex(r.Auth), core.Text(r.Database), core.Text(r.AuthPlugin))
	case "sess":
		e := c38Env()
		pkts := c38Payloads(in.Nth(2))
		conn := &c38Conn{pkts: pkts}
		s := e.NewSession(conn)
		s.Login(in.Nth(1).Str())
		run0, _ := e.RecoveredPanics()
		s.Run()
		run1, _ := e.RecoveredPanics()
		conn.Close()
		var rs []string
		for i := 0; i < conn.next; i++ {
			var frames [][]byte
			if i < len(conn.resp) {
				frames = conn.resp[i]
			}
			rs = append(rs, c38Resp(pkts[i], frames))
		}
		end := "closed"
		if conn.askedMore {
			end = "open"
		}
		if run1 != run0 {
			// the deferred recover of Session.Run fired: the packet being served got no answer
			end = "recovered"
			if len(rs) > 0 && rs[len(rs)-1] == "none" {
				rs = rs[:len(rs)-1]
			}
		}
		return "((" + strings.Join(rs, " ") + ") " + end + ")"
	case "tcp", "tcp-batch":
		return c38ProcChild(in)
	case "own":
		return execC38Own(in)
	}
	return "bad"
}

func trivialC38(in core.Sexp, out string) bool {
	switch in.Head() {
	case "chk":
		return out == "panic"
	case "hs":
		return !strings.Contains(out, "(info ")
	case "own":
		return !strings.Contains(out, "(sql ") && !strings.Contains(out, "(done check ") && !strings.Contains(out, "(done hs (info")
	case "sess":
		for _, w := range []string{" ok", "(ok", " q", "(q", " fl", "(fl", "(prep", " eof", "(eof"} {
			if strings.Contains(out, w) {
				return false
			}
		}
		return true
	}
	return true
}
