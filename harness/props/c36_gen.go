package props

import (
	"strings"

	"gaeaverif/harness/core"
)

// Statement grammar, renderings, variants and mutants for C36.
//
// A statement is a list of tokens (kw keyword, id identifier, op operator or
// punctuation, lit literal).  A rendering puts a gap (white space and
// comments) between adjacent tokens.  A case `(mm ((k A B) …))` lists, token
// by token and gap by gap (k = g), the text of a statement A and of a
// statement B; A is the blacklist entry, B the statement checked against it.
// The Lean oracle re-derives from the segments whether B is a variant of A
// (same tokens up to literal values and keyword case) or a structural mutant.

type c36Tok struct{ kind, text string }

// c36UnsafeBudget bounds, per generator run and per category, the number of
// cases in lexical classes where the current code is KNOWN to violate the
// property (open classes of known/C36.json): the runner keeps at most 200
// findings per run, and a new violation must not be crowded out by known ones.
var c36UnsafeBudget map[string]int

func c36ResetBudget() {
	c36UnsafeBudget = map[string]int{"comment": 30, "space": 12, "list-mutant": 8}
}

func c36Unsafe(cat string) bool {
	if c36UnsafeBudget[cat] <= 0 {
		return false
	}
	c36UnsafeBudget[cat]--
	return true
}

var (
	c36Tables  = []string{"t", "t1", "orders", "user_info", "db1.t", "`t`", "`order`", "a_b"}
	c36Columns = []string{"id", "a", "b", "c", "name", "create_time", "col_1", "`key`", "t.id", "x2"}
	c36CmpOps  = []string{"=", "<", ">", "<=", ">=", "<>", "!="}
	c36Funcs   = []string{"count", "max", "min", "sum", "lower"}
)

func c36kw(s string) c36Tok  { return c36Tok{"kw", s} }
func c36id(s string) c36Tok  { return c36Tok{"id", s} }
func c36op(s string) c36Tok  { return c36Tok{"op", s} }
func c36lit(s string) c36Tok { return c36Tok{"lit", s} }

// c36Ident renders a possibly qualified column/table name as id . id tokens.
func c36Ident(s string) []c36Tok {
	parts := strings.Split(s, ".")
	var out []c36Tok
	for i, p := range parts {
		if i > 0 {
			out = append(out, c36op("."))
		}
		out = append(out, c36id(p))
	}
	return out
}

// c36Number: numeric literals the fingerprint is expected to replace by one `?`.
func c36Number(g *core.Gen) string {
	switch g.Intn(7) {
	case 0:
		return core.Pick(g, []string{"0", "1", "7", "42", "100", "65535", "1234567890", "007"})
	case 1:
		return core.Pick(g, []string{"3.14", "10.0", "0.5", "5001.", "99.999"})
	case 2:
		return core.Pick(g, []string{"1e5", "2.5e-3", "6E10", "0e0", "1.5e10"})
	case 3:
		return core.Pick(g, []string{"0x1F", "0xdeadbeef", "0x0", "0b1010"})
	default:
		n := g.Intn(100000)
		s := ""
		for {
			s = string(rune('0'+n%10)) + s
			n /= 10
			if n == 0 {
				break
			}
		}
		return s
	}
}

var c36StrPieces = []string{"a", "b", "Z", "hello", " ", "  ", "1", "23", "%", "_", ",", "(", ")", "()", "=", "/* x */", "-- y", "#", "*/", "/*",
	"\\\\", "\\n", "\\t", "select", "in", "values (", "null", "\n", "\t", ";", "x'", "-", "--", ".", "@", "?"}

// c36String: a quoted string without doubled quotes; the quote character may
// appear backslash-escaped, the other quote character freely.
func c36String(g *core.Gen) string {
	qc := core.Pick(g, []string{"'", "'", "\""})
	var b strings.Builder
	b.WriteString(qc)
	k := g.Intn(5)
	for i := 0; i < k; i++ {
		switch g.Intn(8) {
		case 0:
			b.WriteString("\\" + qc)
		case 1:
			if qc == "'" {
				b.WriteString("\"")
			} else {
				b.WriteString("'")
			}
		default:
			p := core.Pick(g, c36StrPieces)
			if p == "x'" && qc == "'" {
				p = "x"
			}
			b.WriteString(p)
		}
	}
	b.WriteString(qc)
	return b.String()
}

func c36Literal(g *core.Gen) string {
	if g.Intn(2) == 0 {
		return c36Number(g)
	}
	return c36String(g)
}

func c36LitList(g *core.Gen, max int) []c36Tok {
	out := []c36Tok{c36op("(")}
	n := 1 + g.Intn(max)
	for i := 0; i < n; i++ {
		if i > 0 {
			out = append(out, c36op(","))
		}
		out = append(out, c36lit(c36Literal(g)))
	}
	return append(out, c36op(")"))
}

func c36Pred(g *core.Gen, depth int) []c36Tok {
	col := c36Ident(core.Pick(g, c36Columns))
	switch g.Intn(9) {
	case 0:
		out := append(col, c36kw("in"))
		return append(out, c36LitList(g, 4)...)
	case 1:
		out := append(col, c36kw("not"), c36kw("in"))
		return append(out, c36LitList(g, 3)...)
	case 2:
		return append(col, c36kw("between"), c36lit(c36Literal(g)), c36kw("and"), c36lit(c36Literal(g)))
	case 3:
		return append(col, c36kw("like"), c36lit(c36String(g)))
	case 4:
		if g.Intn(2) == 0 {
			return append(col, c36kw("is"), c36kw("null"))
		}
		return append(col, c36kw("is"), c36kw("not"), c36kw("null"))
	case 5:
		if depth < 2 {
			out := []c36Tok{c36op("(")}
			out = append(out, c36Cond(g, depth+1)...)
			return append(out, c36op(")"))
		}
		fallthrough
	default:
		return append(col, c36op(core.Pick(g, c36CmpOps)), c36lit(c36Literal(g)))
	}
}

func c36Cond(g *core.Gen, depth int) []c36Tok {
	out := c36Pred(g, depth)
	n := g.Intn(3)
	for i := 0; i < n; i++ {
		out = append(out, c36kw(core.Pick(g, []string{"and", "and", "or"})))
		out = append(out, c36Pred(g, depth)...)
	}
	return out
}

func c36SelectItem(g *core.Gen) []c36Tok {
	switch g.Intn(6) {
	case 0:
		return []c36Tok{c36id(core.Pick(g, c36Funcs)), c36op("("), c36id(core.Pick(g, []string{"id", "a", "b"})), c36op(")")}
	case 1:
		return []c36Tok{c36id("count"), c36op("("), c36op("*"), c36op(")")}
	default:
		return c36Ident(core.Pick(g, c36Columns))
	}
}

// c36Statement generates one statement of the grammar; shape is its tag.
func c36Statement(g *core.Gen) (toks []c36Tok, shape string) {
	tbl := c36Ident(core.Pick(g, c36Tables))
	where := func() {
		if g.Intn(5) > 0 {
			toks = append(toks, c36kw("where"))
			toks = append(toks, c36Cond(g, 0)...)
		}
	}
	limit := func() {
		switch g.Intn(5) {
		case 0:
			toks = append(toks, c36kw("limit"), c36lit(c36Number(g)))
		case 1:
			toks = append(toks, c36kw("limit"), c36lit(c36Number(g)), c36op(","), c36lit(c36Number(g)))
		case 2:
			toks = append(toks, c36kw("limit"), c36lit(c36Number(g)), c36kw("offset"), c36lit(c36Number(g)))
		}
	}
	switch g.Intn(4) {
	case 0:
		shape = "select"
		toks = append(toks, c36kw("select"))
		if g.Intn(4) == 0 {
			toks = append(toks, c36op("*"))
		} else {
			n := 1 + g.Intn(3)
			for i := 0; i < n; i++ {
				if i > 0 {
					toks = append(toks, c36op(","))
				}
				toks = append(toks, c36SelectItem(g)...)
			}
		}
		toks = append(toks, c36kw("from"))
		toks = append(toks, tbl...)
		where()
		if g.Intn(4) == 0 {
			toks = append(toks, c36kw("group"), c36kw("by"))
			toks = append(toks, c36Ident(core.Pick(g, c36Columns))...)
		}
		if g.Intn(3) == 0 {
			toks = append(toks, c36kw("order"), c36kw("by"))
			toks = append(toks, c36Ident(core.Pick(g, c36Columns))...)
			if g.Intn(2) == 0 {
				toks = append(toks, c36kw("desc"))
			}
		}
		limit()
	case 1:
		shape = "insert"
		toks = append(toks, c36kw("insert"), c36kw("into"))
		toks = append(toks, tbl...)
		ncol := 1 + g.Intn(3)
		if g.Intn(3) > 0 {
			toks = append(toks, c36op("("))
			for i := 0; i < ncol; i++ {
				if i > 0 {
					toks = append(toks, c36op(","))
				}
				toks = append(toks, c36id(core.Pick(g, []string{"id", "a", "b", "name", "`key`"})))
			}
			toks = append(toks, c36op(")"))
		}
		toks = append(toks, c36kw(core.Pick(g, []string{"values", "values", "value"})))
		rows := 1
		if g.Intn(4) == 0 {
			rows = 2 + g.Intn(2)
		}
		for r := 0; r < rows; r++ {
			if r > 0 {
				toks = append(toks, c36op(","))
			}
			toks = append(toks, c36op("("))
			for i := 0; i < ncol; i++ {
				if i > 0 {
					toks = append(toks, c36op(","))
				}
				toks = append(toks, c36lit(c36Literal(g)))
			}
			toks = append(toks, c36op(")"))
		}
		if g.Intn(3) == 0 {
			// something after the (last) row: the blank that follows a value list
			toks = append(toks, c36kw("on"), c36kw("duplicate"), c36kw("key"), c36kw("update"))
			toks = append(toks, c36id(core.Pick(g, []string{"a", "b", "name"})), c36op("="), c36lit(c36Literal(g)))
			shape = "insert-on-dup"
		}
	case 2:
		shape = "update"
		toks = append(toks, c36kw("update"))
		toks = append(toks, tbl...)
		toks = append(toks, c36kw("set"))
		n := 1 + g.Intn(3)
		for i := 0; i < n; i++ {
			if i > 0 {
				toks = append(toks, c36op(","))
			}
			toks = append(toks, c36Ident(core.Pick(g, c36Columns))...)
			toks = append(toks, c36op("="), c36lit(c36Literal(g)))
		}
		where()
		limit0 := g.Intn(6) == 0
		if limit0 {
			toks = append(toks, c36kw("limit"), c36lit(c36Number(g)))
		}
	default:
		shape = "delete"
		toks = append(toks, c36kw("delete"), c36kw("from"))
		toks = append(toks, tbl...)
		where()
		if g.Intn(5) == 0 {
			toks = append(toks, c36kw("limit"), c36lit(c36Number(g)))
		}
	}
	return
}

func c36Wordlike(t c36Tok) bool { return t.kind == "kw" || t.kind == "id" || t.kind == "lit" }

// c36GapLevel: 2 = white space required between the two tokens, 1 = the
// canonical rendering has one space but it is optional, 0 = the canonical
// rendering has none.
// Layout shared by both statements of a case: comparison operators and commas
// written without blanks (`id=1`, `a,b`) as most hand-written SQL does.
var c36TightOps, c36TightCommas bool

func c36IsCmpOp(t c36Tok) bool { return t.kind == "op" && strings.ContainsAny(t.text, "=<>!") }

func c36GapLevel(prev, next c36Tok) int {
	if c36Wordlike(prev) && c36Wordlike(next) {
		return 2
	}
	if c36TightOps && (c36IsCmpOp(prev) || c36IsCmpOp(next)) {
		return 0
	}
	if c36TightCommas && prev.text == "," {
		return 0
	}
	if prev.text == "." || next.text == "." {
		return 0
	}
	if next.text == "," || next.text == ")" || prev.text == "(" {
		return 0
	}
	if next.text == "(" {
		if prev.kind == "id" {
			return 0 // function call, column list `t(a, b)` is rendered `t (a, b)` below
		}
		return 1
	}
	return 1
}

var c36WS = []string{" ", " ", " ", "  ", "\t", "\n", "\r\n", " \t ", "\n\n  ", "   ", "\v", " \f"}

func c36Space(g *core.Gen) string { return core.Pick(g, c36WS) }

func c36Comment(g *core.Gen, style string) string {
	body := core.Pick(g, []string{"x", " x ", " note: keep ", "", " ", " a b c ", " 1 ", " select ", "*", " x * y ", " -- z ", " # ", " it's ", " (1 ", " ) ", " \"q ", " in ", "!x"})
	switch style {
	case "mlc":
		if strings.HasPrefix(body, "!") {
			body = " " + body
		}
		return "/*" + body + "*/"
	case "mlc-slash":
		return "/*" + core.Pick(g, []string{" a/b ", "/", " http://x/y ", " 1/2", "//"}) + "*/"
	case "dash":
		return "--" + core.Pick(g, []string{" ", "\t"}) + strings.TrimPrefix(body, "!") + "\n"
	default:
		return "#" + body + "\n"
	}
}

// c36Style says how one side of a case is rendered.
type c36Style struct {
	recase   bool // random keyword case
	respace  bool // random non-empty white space where the canonical rendering has a space
	comments int  // percentage of non-empty gaps that get a white-space separated comment
}

func c36Recase(g *core.Gen, s string) string {
	switch g.Intn(3) {
	case 0:
		return strings.ToUpper(s)
	case 1:
		return s
	}
	b := []byte(s)
	for i := range b {
		if g.Intn(2) == 0 && b[i] >= 'a' && b[i] <= 'z' {
			b[i] -= 32
		}
	}
	return string(b)
}

// c36Render renders the tokens; gaps[i] is the gap after token i.
func c36Render(g *core.Gen, toks []c36Tok, st c36Style) (texts []string, gaps []string) {
	texts = make([]string, len(toks))
	gaps = make([]string, len(toks))
	for i, t := range toks {
		texts[i] = t.text
		if t.kind == "kw" && st.recase {
			texts[i] = c36Recase(g, t.text)
		}
		if i+1 == len(toks) {
			if st.respace && g.Intn(4) == 0 {
				gaps[i] = c36Space(g)
			}
			break
		}
		lvl := c36GapLevel(t, toks[i+1])
		if lvl == 0 {
			continue
		}
		gap := " "
		if st.respace {
			gap = c36Space(g)
		}
		if st.comments > 0 && g.Intn(100) < st.comments {
			// one or two comments of any style, glued to the tokens around them or
			// not, wherever the canonical rendering has a blank: between words,
			// after a literal, before, inside and after IN/VALUES lists
			gap = ""
			for k := 1 + g.Intn(4)/3; k > 0; k-- {
				style := core.Pick(g, []string{"mlc", "mlc", "mlc-slash", "dash", "hash"})
				left := core.Pick(g, []string{"", "", " ", c36Space(g)})
				if t.text == "*" && gap == "" {
					left = " " // `*` directly followed by a comment would read `*/`
				}
				gap += left + c36Comment(g, style)
			}
			gap += core.Pick(g, []string{"", "", " ", c36Space(g)})
		}
		gaps[i] = gap
	}
	return
}

func c36Case(toksA, toksB []c36Tok, ta, ga, tb, gb []string) core.Sexp {
	// both sides have the same number of tokens here (mutants with a different
	// token count go through c36CaseAligned)
	var segs []core.Sexp
	for i := range toksA {
		if toksA[i].kind == toksB[i].kind {
			segs = append(segs, core.L(core.A(toksA[i].kind), core.Text(ta[i]), core.Text(tb[i])))
		} else {
			segs = append(segs, core.L(core.A(toksA[i].kind), core.Text(ta[i]), core.Text("")))
			segs = append(segs, core.L(core.A(toksB[i].kind), core.Text(""), core.Text(tb[i])))
		}
		segs = append(segs, core.L(core.A("g"), core.Text(ga[i]), core.Text(gb[i])))
	}
	return core.L(core.A("mm"), core.L(segs...))
}

// c36CaseAligned: A and B share a prefix of p tokens and a suffix of s tokens;
// the middle parts are paired with empty texts on the other side.
func c36CaseAligned(toksA, toksB []c36Tok, ta, ga, tb, gb []string, p, s int) core.Sexp {
	var segs []core.Sexp
	add := func(kind, a, b, gapA, gapB string) {
		segs = append(segs, core.L(core.A(kind), core.Text(a), core.Text(b)))
		segs = append(segs, core.L(core.A("g"), core.Text(gapA), core.Text(gapB)))
	}
	for i := 0; i < p; i++ {
		add(toksA[i].kind, ta[i], tb[i], ga[i], gb[i])
	}
	for i := p; i < len(toksA)-s; i++ {
		add(toksA[i].kind, ta[i], "", ga[i], "")
	}
	for i := p; i < len(toksB)-s; i++ {
		add(toksB[i].kind, "", tb[i], "", gb[i])
	}
	for i := 0; i < s; i++ {
		ia, ib := len(toksA)-s+i, len(toksB)-s+i
		add(toksA[ia].kind, ta[ia], tb[ib], ga[ia], gb[ib])
	}
	return core.L(core.A("mm"), core.L(segs...))
}

func c36CloneToks(t []c36Tok) []c36Tok { return append([]c36Tok{}, t...) }

// c36Relit replaces every literal by a fresh one.
func c36Relit(g *core.Gen, toks []c36Tok) []c36Tok {
	out := c36CloneToks(toks)
	for i, t := range out {
		if t.kind == "lit" {
			// limit/offset operands stay numeric
			if i > 0 && (out[i-1].text == "limit" || out[i-1].text == "offset" || (out[i-1].text == "," && i > 2 && out[i-3].text == "limit")) {
				out[i].text = c36Number(g)
			} else {
				out[i].text = c36Literal(g)
			}
		}
	}
	return out
}

func c36InList(toks []c36Tok, i int) bool {
	// is token i inside the parentheses of an in/values list?
	depth := 0
	for j := i - 1; j >= 0; j-- {
		switch toks[j].text {
		case ")":
			if toks[j].kind == "op" {
				depth++
			}
		case "(":
			if toks[j].kind == "op" {
				if depth == 0 {
					return j > 0 && toks[j-1].kind == "kw" && (toks[j-1].text == "in" || toks[j-1].text == "values" || toks[j-1].text == "value")
				}
				depth--
			}
		}
	}
	return false
}

var c36Safe = c36Style{recase: true, respace: true, comments: 0}

func c36IsListKw(t c36Tok) bool {
	return t.kind == "kw" && (t.text == "in" || t.text == "values" || t.text == "value")
}

// c36GapCtx describes the gap after token i: is it inside the parentheses of
// an in/values list, does the next token open such a list, does token i close one.
func c36GapCtx(toks []c36Tok, i int) (inside, beforeList, afterList bool) {
	var stack []bool
	prevListKw, prevClosed, commaAfterList := false, false, false
	for j := 0; j <= i+1 && j < len(toks); j++ {
		t := toks[j]
		opens, closes := false, false
		switch {
		case t.kind == "op" && t.text == "(":
			opens = prevListKw || commaAfterList
			stack = append(stack, opens)
			prevListKw, prevClosed, commaAfterList = false, false, false
		case t.kind == "op" && t.text == ")":
			if len(stack) > 0 {
				closes = stack[len(stack)-1]
				stack = stack[:len(stack)-1]
			}
			prevListKw, prevClosed, commaAfterList = false, closes, false
		default:
			any := false
			for _, b := range stack {
				any = any || b
			}
			commaAfterList = prevClosed && t.kind == "op" && t.text == "," && !any
			prevListKw, prevClosed = c36IsListKw(t), false
		}
		if j == i {
			for _, b := range stack {
				inside = inside || b
			}
			afterList = closes
		}
		if j == i+1 {
			beforeList = opens
		}
	}
	return
}

func c36EmitVariants(g *core.Gen) {
	c36TightOps, c36TightCommas = g.Intn(3) == 0, g.Intn(4) == 0
	defer func() { c36TightOps, c36TightCommas = false, false }()
	toks, shape := c36Statement(g)
	if c36TightOps {
		shape += "-tight"
	}
	if g.Intn(8) == 0 {
		// a column named like the keyword of a value list
		for i, t := range toks {
			if t.kind == "id" && (t.text == "a" || t.text == "name") && !(i+1 < len(toks) && toks[i+1].text == "(") {
				toks[i].text = core.Pick(g, []string{"value", "value", "`values`"})
				shape += "-value-column"
				break
			}
		}
	}
	canon := c36Style{}
	styleA := canon
	if g.Intn(2) == 0 {
		styleA = c36Safe
	}
	ta, ga := c36Render(g, toks, styleA)

	// 1. safe variants: literals, keyword case, amount and kind of white space
	{
		tb := c36Relit(g, toks)
		xb, gb := c36Render(g, tb, c36Safe)
		g.Emit(c36Case(toks, tb, ta, ga, xb, gb), "variant", "variant-lit-case-space", "shape-"+shape)
	}
	{
		tb := c36Relit(g, toks)
		xb, gb := c36Render(g, tb, canon)
		g.Emit(c36Case(toks, tb, ta, ga, xb, gb), "variant", "variant-lit", "shape-"+shape)
	}
	{
		xb, gb := c36Render(g, toks, c36Style{recase: true})
		g.Emit(c36Case(toks, toks, ta, ga, xb, gb), "variant", "variant-case", "shape-"+shape)
	}
	{
		xb, gb := c36Render(g, toks, c36Style{respace: true})
		g.Emit(c36Case(toks, toks, ta, ga, xb, gb), "variant", "variant-space", "shape-"+shape)
	}
	// 2. comments, spaced or glued, in every gap that has a space
	{
		tb := c36Relit(g, toks)
		xb, gb := c36Render(g, tb, c36Style{recase: true, respace: true, comments: 30})
		g.Emit(c36Case(toks, tb, ta, ga, xb, gb), "variant", "variant-comments", "shape-"+shape)
	}
	// 3. one comment at one token boundary
	for k := 0; k < 3; k++ {
		xb, gb := c36Render(g, toks, canon)
		i := g.Intn(len(toks))
		if toks[i].text == "*" {
			continue // `*` directly followed by a comment would read `*/`
		}
		style := core.Pick(g, []string{"mlc", "mlc", "mlc", "dash", "hash", "mlc-slash"})
		cm := c36Comment(g, style)
		inside, beforeList, afterList := c36GapCtx(toks, i)
		tag := "variant-one-comment"
		switch {
		case i+1 == len(toks):
			// after the last token: spaced or glued, with or without the final newline
			gb[i] = core.Pick(g, []string{"", " "}) + cm
			if g.Intn(2) == 0 {
				gb[i] = strings.TrimSuffix(gb[i], "\n")
			}
			tag = "variant-tail-comment"
		case gb[i] == "":
			// a comment where the canonical rendering has no blank (open class optional-space)
			if !c36Unsafe("comment") {
				continue
			}
			gb[i] = cm
			tag = "variant-one-comment-known-unsafe"
		default:
			// spaced or glued on either side
			gb[i] = core.Pick(g, []string{"", " "}) + cm + core.Pick(g, []string{"", " "})
			switch {
			case beforeList:
				tag = "variant-one-comment-before-list"
			case afterList:
				tag = "variant-one-comment-after-list"
			case inside:
				tag = "variant-one-comment-inside-list"
			}
		}
		g.Emit(c36Case(toks, toks, ta, ga, xb, gb), "variant", tag, "comment-"+style, "shape-"+shape)
	}
	// leading comment
	if g.Intn(3) == 0 {
		xb, gb := c36Render(g, toks, canon)
		cm := c36Comment(g, core.Pick(g, []string{"mlc", "dash", "hash", "mlc-slash"})) + core.Pick(g, []string{"", " ", "\n"})
		segs := c36Case(toks, toks, ta, ga, xb, gb)
		lead := core.L(core.A("g"), core.Text(""), core.Text(cm))
		segs.List[1].List = append([]core.Sexp{lead}, segs.List[1].List...)
		g.Emit(segs, "variant", "variant-leading-comment", "shape-"+shape)
	}
	// 4. optional white space added or removed at one token boundary
	{
		xb, gb := c36Render(g, toks, canon)
		var opt []int
		for i := 0; i+1 < len(toks); i++ {
			if c36GapLevel(toks[i], toks[i+1]) < 2 {
				opt = append(opt, i)
			}
		}
		if len(opt) > 0 && c36Unsafe("space") {
			i := core.Pick(g, opt)
			if gb[i] == "" {
				gb[i] = c36Space(g)
			} else {
				gb[i] = ""
			}
			g.Emit(c36Case(toks, toks, ta, ga, xb, gb), "variant", "variant-optional-space", "shape-"+shape)
		}
	}
	// 5. literal spellings: signs, hex/bit strings, empty strings; and (bounded) the spellings the
	// fingerprint is known to mistake: a doubled quote, an explicit exponent sign, a leading dot
	{
		var lits []int
		for i, t := range toks {
			if t.kind == "lit" && !(i > 0 && (toks[i-1].text == "limit" || toks[i-1].text == "offset" || toks[i-1].text == ",")) {
				lits = append(lits, i)
			}
		}
		if len(lits) > 0 {
			i := core.Pick(g, lits)
			tb := c36CloneToks(toks)
			tag := "variant-literal-spelling"
			switch g.Intn(3) {
			case 0:
				// a doubled quote, an explicit exponent sign, a leading dot
				tb[i].text = core.Pick(g, []string{"'it''s'", "\"say \"\"hi\"\"\"", "''''", "'''a'", "'a'''", "1e+5", "2E+10", "1.5e+3", ".5", ".25", ".05", ".005", ".0", ".95", ".0e1"})
				tag = "variant-literal-spelling-2"
			case 1:
				// hex/bit strings (glued to the operator when the layout is tight)
				tb[i].text = core.Pick(g, []string{"x'0F'", "b'0101'", "x''"})
				tag = "variant-literal-hex-string"
			default:
				tb[i].text = core.Pick(g, []string{"-5", "+7", "''", "\"\"", "-0.5", "'\\''", "\"\\\\\""})
			}
			xb, gb := c36Render(g, tb, canon)
			g.Emit(c36Case(toks, tb, ta, ga, xb, gb), "variant", tag, "shape-"+shape)
		}
	}

	// 6. structural mutants (B rendered with the safe style)
	mut := func(tb []c36Tok, p, s int, tag string) {
		xb, gb := c36Render(g, tb, core.Pick(g, []c36Style{canon, c36Safe}))
		if len(tb) == len(toks) {
			g.Emit(c36Case(toks, tb, ta, ga, xb, gb), "mutant", tag, "shape-"+shape)
		} else {
			g.Emit(c36CaseAligned(toks, tb, ta, ga, xb, gb, p, s), "mutant", tag, "shape-"+shape)
		}
	}
	// an identifier
	{
		var ids []int
		for i, t := range toks {
			if t.kind == "id" {
				ids = append(ids, i)
			}
		}
		i := core.Pick(g, ids)
		tb := c36CloneToks(toks)
		bare := strings.Trim(toks[i].text, "`")
		nw := core.Pick(g, []string{"zz", "t9", "other_col", "`zz`", "idx", "aa", bare + "x", bare + "2", "x" + bare, "`" + bare + "_`"})
		tb[i].text = nw
		mut(tb, 0, 0, "mutant-identifier")
	}
	// an operator or a keyword
	{
		var idx []int
		for i, t := range toks {
			if (t.kind == "op" && strings.ContainsAny(t.text, "=<>!")) || (t.kind == "kw" && (t.text == "and" || t.text == "or" || t.text == "desc" || t.text == "like" || t.text == "between")) {
				idx = append(idx, i)
			}
		}
		if len(idx) > 0 {
			i := core.Pick(g, idx)
			tb := c36CloneToks(toks)
			switch toks[i].text {
			case "and":
				tb[i].text = "or"
			case "or":
				tb[i].text = "and"
			case "like":
				tb[i].text = "regexp"
			case "desc":
				tb[i].text = "collate"
			case "between":
				tb[i].text = "rlike"
				// a between b and c  ->  a rlike b and c  (still a token list)
			default:
				for {
					o := core.Pick(g, c36CmpOps)
					if o != toks[i].text {
						tb[i].text = o
						break
					}
				}
			}
			if tb[i].text != "collate" {
				mut(tb, 0, 0, "mutant-operator")
			}
		}
	}
	// an added predicate at the end of the where clause / an added where clause
	{
		tb := c36CloneToks(toks)
		// find the end of the where clause: before group/order/limit or the end
		end := len(tb)
		hasWhere := false
		for i, t := range tb {
			if t.kind == "kw" && t.text == "where" {
				hasWhere = true
			}
			if t.kind == "kw" && (t.text == "group" || t.text == "order" || t.text == "limit") && (hasWhere || !strings.HasPrefix(shape, "insert")) {
				end = i
				break
			}
		}
		if !strings.HasPrefix(shape, "insert") {
			var extra []c36Tok
			if hasWhere {
				extra = append(extra, c36kw(core.Pick(g, []string{"and", "or"})))
			} else {
				extra = append(extra, c36kw("where"))
			}
			extra = append(extra, c36Ident(core.Pick(g, c36Columns))...)
			extra = append(extra, c36op(core.Pick(g, c36CmpOps)), c36lit(c36Literal(g)))
			nb := append(c36CloneToks(tb[:end]), extra...)
			nb = append(nb, tb[end:]...)
			mut(nb, end, len(tb)-end, "mutant-added-predicate")
		}
	}
	// a dropped where clause
	{
		w, end := -1, len(toks)
		for i, t := range toks {
			if t.kind == "kw" && t.text == "where" && w < 0 {
				w = i
			}
			if w >= 0 && t.kind == "kw" && (t.text == "group" || t.text == "order" || t.text == "limit") {
				end = i
				break
			}
		}
		if w >= 0 {
			nb := append(c36CloneToks(toks[:w]), toks[end:]...)
			mut(nb, w, len(toks)-end, "mutant-dropped-where")
		}
	}
	// a literal of an in/values list replaced by a column name
	{
		var idx []int
		for i, t := range toks {
			if t.kind == "lit" && c36InList(toks, i) {
				idx = append(idx, i)
			}
		}
		if len(idx) > 0 && c36Unsafe("list-mutant") {
			i := core.Pick(g, idx)
			tb := c36CloneToks(toks)
			tb[i] = c36id(core.Pick(g, []string{"other_col", "b", "zz"}))
			mut(tb, 0, 0, "mutant-list-element")
		}
	}
}

// c36EmitBlacklists: whole blacklists (several entries, blank entries,
// duplicates, surrounding white space) against one statement.
func c36EmitBlacklists(g *core.Gen) {
	var stmts []string
	var toksAll [][]c36Tok
	n := 1 + g.Intn(4)
	for i := 0; i < n; i++ {
		toks, _ := c36Statement(g)
		toksAll = append(toksAll, toks)
		t, gp := c36Render(g, toks, core.Pick(g, []c36Style{{}, c36Safe}))
		stmts = append(stmts, c36Join(t, gp))
	}
	var entries []core.Sexp
	for _, s := range stmts {
		switch g.Intn(8) {
		case 0:
			entries = append(entries, core.Text(core.Pick(g, []string{"", " ", "\t\n", "\v", "\f "})))
		case 1:
			entries = append(entries, core.Text(" \t"+s+"\n"))
		case 2:
			entries = append(entries, core.Text("\v"+s+"\f"))
		}
		entries = append(entries, core.Text(s))
		if g.Intn(6) == 0 {
			entries = append(entries, core.Text(s))
		}
	}
	if g.Intn(10) == 0 {
		entries = nil
	}
	var q string
	switch g.Intn(3) {
	case 0: // a variant of one entry
		toks := c36Relit(g, core.Pick(g, toksAll))
		t, gp := c36Render(g, toks, c36Safe)
		q = c36Join(t, gp)
	case 1: // an unrelated statement
		toks, _ := c36Statement(g)
		t, gp := c36Render(g, toks, c36Style{})
		q = c36Join(t, gp)
	default:
		q = core.Pick(g, stmts)
		if g.Intn(3) == 0 {
			q = core.Pick(g, []string{"", " ", "\n" + q + " ", "\t" + q, q + "\r\n"})
			if g.Intn(3) == 0 {
				// vertical tab and form feed are white space too
				q = core.Pick(g, []string{"\v" + strings.TrimSpace(q), strings.TrimSpace(q) + "\f"})
			}
		}
	}
	g.Emit(core.L(core.A("bl"), core.L(entries...), core.Text(q)), "blacklist")
}

func c36Join(texts, gaps []string) string {
	var b strings.Builder
	for i := range texts {
		b.WriteString(texts[i])
		b.WriteString(gaps[i])
	}
	return b.String()
}

// ---- statements of the token grammar of the theorems (requests `th`) ----
//
//	(th LEAD ((ITEM SEP) …) ITEM TAIL)
//	LEAD, SEP, TAIL, GAP = (PIECE …)           PIECE = (ws C) | (mlc BODY) | (dash C BODY) | (hash BODY)
//	ITEM = (c SEG …) | (vl KW GAP CONTENT ROW …)   SEG = (w T) | (n T) | (s T) | (p C T)   ROW = (GAP GAP CONTENT)

func c36PieceText(p core.Sexp) string {
	switch p.Head() {
	case "ws":
		return p.Nth(1).Str()
	case "mlc":
		return "/*" + p.Nth(1).Str()
	case "dash":
		return "--" + p.Nth(1).Str() + p.Nth(2).Str()
	case "hash":
		return "#" + p.Nth(1).Str()
	}
	panic("c36: bad separator piece " + p.String())
}

func c36GapText(s core.Sexp) string {
	var b strings.Builder
	for _, p := range s.List {
		b.WriteString(c36PieceText(p))
	}
	return b.String()
}

func c36ItemText(it core.Sexp) string {
	var b strings.Builder
	switch it.Head() {
	case "c":
		for _, sg := range it.List[1:] {
			b.WriteString(sg.Nth(1).Str())
			if sg.Head() == "p" {
				b.WriteString(sg.Nth(2).Str())
			}
		}
	case "vl":
		b.WriteString(it.Nth(1).Str())
		b.WriteString(c36GapText(it.Nth(2)))
		b.WriteString("(" + it.Nth(3).Str() + ")")
		for _, r := range it.List[4:] {
			b.WriteString(c36GapText(r.Nth(0)) + "," + c36GapText(r.Nth(1)) + "(" + r.Nth(2).Str() + ")")
		}
	default:
		panic("c36: bad item " + it.String())
	}
	return b.String()
}

// c36ThText is the text of a `(th LEAD ((ITEM SEP) …) ITEM TAIL)` request.
func c36ThText(in core.Sexp) string {
	var b strings.Builder
	b.WriteString(c36GapText(in.Nth(1)))
	for _, is := range in.Nth(2).List {
		b.WriteString(c36ItemText(is.Nth(0)))
		b.WriteString(c36GapText(is.Nth(1)))
	}
	b.WriteString(c36ItemText(in.Nth(3)))
	b.WriteString(c36GapText(in.Nth(4)))
	return b.String()
}

var c36CommentBodies = []string{"x", " x ", " note: keep ", "", " ", " a b c ", " 1 ", " select ", "*", " x * y ", " -- z ", " # ", " it's ", " (1 ", " ) ", " \"q ", " in ", " a/b ", "/", " http://x/y ", "**", " !x", " 'a' ) ("}

var c36WsChars = []string{" ", " ", " ", "\t", "\n", "\r", "\v", "\f"}

func c36Piece(g *core.Gen, comment bool) core.Sexp {
	if !comment {
		return core.L(core.A("ws"), core.Text(core.Pick(g, c36WsChars)))
	}
	body := core.Pick(g, c36CommentBodies)
	switch g.Intn(4) {
	case 0, 1:
		return core.L(core.A("mlc"), core.Text(body+"*/"))
	case 2:
		return core.L(core.A("dash"), core.Text(core.Pick(g, []string{" ", "\t", "\r", "\v"})), core.Text(strings.ReplaceAll(body, "\n", " ")+"\n"))
	default:
		return core.L(core.A("hash"), core.Text(body+"\n"))
	}
}

// c36Gap: a gap of white space and (if busy) comments in any order; empty only if mayBeEmpty.
func c36Gap(g *core.Gen, busy, mayBeEmpty bool) core.Sexp {
	var xs []core.Sexp
	n := 1 + g.Intn(3)
	if mayBeEmpty {
		n = g.Intn(3)
	}
	if !busy && n > 1 && g.Intn(2) == 0 {
		n = 1
	}
	for i := 0; i < n; i++ {
		xs = append(xs, c36Piece(g, busy && g.Intn(3) == 0))
	}
	return core.L(xs...)
}

// c36ListContent renders the elements of one parenthesised row: the literals
// separated by commas, with blanks and (if busy) comments anywhere between them.
func c36ListContent(g *core.Gen, elems []string, busy bool) string {
	var b strings.Builder
	filler := func() {
		b.WriteString(core.Pick(g, []string{"", "", " ", "\n", "  "}))
		if busy && g.Intn(4) == 0 {
			b.WriteString(c36PieceText(c36Piece(g, true)))
		}
	}
	for i, e := range elems {
		if i > 0 {
			filler()
			b.WriteString(",")
		}
		filler()
		b.WriteString(e)
	}
	filler()
	return b.String()
}

// c36ThLiteral: literal spellings of the theorem grammar, the repaired ones included.
func c36ThLiteral(g *core.Gen, numeric bool) string {
	if numeric || g.Intn(2) == 0 {
		if g.Intn(4) == 0 {
			return core.Pick(g, []string{"1e+5", "2E+10", "1.5e+3", ".5", ".25", ".05", ".005", ".0", ".95", "-5", "+7", "-0.5", "-1.5e-3", "+0.5e1"})
		}
		return c36Number(g)
	}
	if g.Intn(8) == 0 {
		return core.Pick(g, []string{"x'0F'", "b'0101'", "x''", "x\"0f\""})
	}
	if g.Intn(5) == 0 {
		return core.Pick(g, []string{"'it''s'", "\"say \"\"hi\"\"\"", "''''", "'''a'", "'a'''", "''", "\"\"", "'\\''", "'a\\\\'"})
	}
	return c36String(g)
}

func c36Numberish(c byte) bool {
	return (c >= '0' && c <= '9') || (c >= 'a' && c <= 'z') || (c >= 'A' && c <= 'Z') || c == '.' || c == '-' || c == '_'
}

// c36EmitGrammar emits a statement of the token grammar the theorems of
// Props/C36.lean quantify over: chunks (word text and literals glued as the
// layout says: `id=1`, `f(1,2)`, `5,10`, `(a`), value lists with several rows,
// separators of white space and comments in any order, comments inside lists.
func c36EmitGrammar(g *core.Gen) {
	if g.Intn(25) == 0 {
		// fingerprints longer than the text: chains of one-element lists written without blanks
		sp := core.L(core.L(core.A("ws"), core.Text(" ")))
		wd := func(s string) core.Sexp { return core.L(core.L(core.A("c"), core.L(core.A("w"), core.Text(s))), sp) }
		init := []core.Sexp{wd("select"), wd(core.Pick(g, []string{"a", "*", "c"})), wd("from"), wd("t"), wd("where")}
		n := 2 + g.Intn(5)
		for i := 0; i < n; i++ {
			init = append(init, wd(core.Pick(g, c36Columns)))
			vl := core.L(core.A("vl"), core.Text(core.Pick(g, []string{"in", "IN"})), core.L(), core.Text(core.Pick(g, []string{"1", "7", "a", "?"})))
			if i+1 == n {
				g.Emit(core.L(core.A("th"), core.L(), core.L(init...), vl, core.L()), "grammar", "grammar-value-list", "grammar-longer-than-text")
				return
			}
			init = append(init, core.L(vl, sp), wd(core.Pick(g, []string{"or", "and"})))
		}
	}
	c36TightOps, c36TightCommas = g.Intn(2) == 0, g.Intn(3) == 0
	defer func() { c36TightOps, c36TightCommas = false, false }()
	toks, shape := c36Statement(g)
	toks = c36CloneToks(toks)
	if shape == "insert" && toks[len(toks)-1].text == ")" && g.Intn(2) == 0 {
		// more rows: repeat the last one
		k := len(toks) - 1
		for toks[k].text != "(" || toks[k].kind != "op" {
			k--
		}
		row := c36CloneToks(toks[k:])
		for n := 1 + g.Intn(2); n > 0; n-- {
			toks = append(toks, c36op(","))
			toks = append(toks, row...)
		}
	}
	if shape == "insert" && g.Intn(3) > 0 {
		// something after the (last) row: INSERT … VALUES (…), (…) AS nw [ON DUPLICATE KEY UPDATE a=values(a), b = 1]
		toks = append(toks, c36kw("as"), c36id("nw"))
		shape += "-as"
		if g.Intn(2) == 0 {
			toks = append(toks, c36kw("on"), c36kw("duplicate"), c36kw("key"), c36kw("update"),
				c36id("a=values(a),"), c36id("b"), c36op("="), c36lit("1"))
			shape += "-on-dup"
		}
	}
	for i, t := range toks {
		if t.kind == "lit" {
			numeric := i > 0 && (toks[i-1].text == "limit" || toks[i-1].text == "offset" || (toks[i-1].text == "," && i > 2 && toks[i-3].text == "limit"))
			toks[i].text = c36ThLiteral(g, numeric)
		}
	}
	busy := g.Intn(3) > 0

	type itemSep struct{ item, sep core.Sexp }
	var out []itemSep
	var segs []core.Sexp // segments of the chunk being built
	lastKind := ""       // kind of the last segment: w n s
	lastText := ""
	flush := func(sep core.Sexp) {
		if len(segs) > 0 {
			out = append(out, itemSep{core.L(append([]core.Sexp{core.A("c")}, segs...)...), sep})
			segs, lastKind, lastText = nil, "", ""
		}
	}
	addSeg := func(kind, text string) {
		if kind == "p" {
			segs = append(segs, core.L(core.A("p"), core.Text(text[:1]), core.Text(text[1:])))
			lastKind, lastText = "s", text
			return
		}
		if kind == "w" && lastKind == "w" {
			lastText += text
			segs[len(segs)-1] = core.L(core.A("w"), core.Text(lastText))
			return
		}
		segs = append(segs, core.L(core.A(kind), core.Text(text)))
		lastKind, lastText = kind, text
	}
	tags := map[string]bool{}
	for i := 0; i < len(toks); i++ {
		t := toks[i]
		if c36IsListKw(t) && i+1 < len(toks) && toks[i+1].text == "(" {
			flush(c36Gap(g, busy, false))
			// rows: ( lit, … ) [ , ( … ) ]*
			var rows [][]string
			j := i + 1
			for {
				var elems []string
				j++ // past "("
				for ; toks[j].text != ")" || toks[j].kind != "op"; j++ {
					if toks[j].kind == "lit" {
						elems = append(elems, toks[j].text)
					}
				}
				rows = append(rows, elems)
				if j+2 < len(toks) && toks[j+1].kind == "op" && toks[j+1].text == "," && toks[j+2].kind == "op" && toks[j+2].text == "(" {
					j += 2
					continue
				}
				break
			}
			content := c36ListContent(g, rows[0], busy)
			if g.Intn(12) == 0 {
				content = "" // `()`
				if busy {
					content = core.Pick(g, []string{"", " ", "/* none */"})
				}
			}
			vl := []core.Sexp{core.A("vl"), core.Text(c36Recase(g, t.text)), c36Gap(g, busy, true), core.Text(content)}
			for _, r := range rows[1:] {
				vl = append(vl, core.L(c36Gap(g, busy, true), c36Gap(g, busy, true), core.Text(c36ListContent(g, r, busy))))
				tags["grammar-several-rows"] = true
			}
			tags["grammar-value-list"] = true
			i = j
			sep := c36Gap(g, busy, false)
			if len(rows) == 1 && i+1 < len(toks) && toks[i+1].text == ")" && g.Intn(3) > 0 {
				sep = core.L() // glued: `(a in (1))`
				tags["grammar-list-glued"] = true
			}
			out = append(out, itemSep{core.L(vl...), sep})
			continue
		}
		text := t.text
		if t.kind == "kw" || (t.kind == "id" && g.Intn(4) == 0 && !strings.HasPrefix(text, "`")) {
			text = c36Recase(g, text)
		}
		kind := "w"
		if t.kind == "lit" {
			kind = "n"
			if strings.ContainsAny(text[:1], "'\"") {
				kind = "s"
			} else if len(text) > 1 && strings.ContainsAny(text[:1], "xb") && strings.ContainsAny(text[1:2], "'\"") {
				kind = "p"
			}
		}
		glue := false
		if len(segs) > 0 && i > 0 && c36GapLevel(toks[i-1], t) == 0 {
			last := lastText[len(lastText)-1]
			switch {
			case kind == "n" || kind == "p":
				glue = lastKind == "w" && strings.ContainsRune("=<>!(,", rune(last))
			case kind == "s":
				glue = lastKind == "w" && !strings.ContainsRune("\\xb", rune(last))
			case lastKind == "n" || lastKind == "s":
				glue = !c36Numberish(text[0])
			default:
				glue = true
			}
			if glue && g.Intn(6) == 0 && t.text != "." {
				glue = false // optional blanks are kept sometimes (a chunk cannot begin with a dot)
			}
		}
		if !glue {
			flush(c36Gap(g, busy, false))
		} else if kind != "w" || lastKind != "w" {
			tags["grammar-glued-literal"] = true
		}
		addSeg(kind, text)
	}
	tail := core.L()
	if g.Intn(3) == 0 {
		tail = c36Gap(g, busy, false)
	}
	if len(segs) > 0 {
		flush(tail)
	} else {
		// the statement ends with a value list: what follows it is the tail
		tail = out[len(out)-1].sep
		if g.Intn(2) == 0 {
			tail = core.L()
		}
	}
	lastItem := out[len(out)-1].item
	var init []core.Sexp
	for _, is := range out[:len(out)-1] {
		init = append(init, core.L(is.item, is.sep))
	}
	var lead core.Sexp = core.L()
	if g.Intn(3) == 0 {
		lead = c36Gap(g, busy, false)
	}
	tag := "grammar-plain"
	if busy {
		tag = "grammar-comments"
	}
	all := []string{"grammar", tag, "shape-" + shape}
	for _, k := range []string{"grammar-value-list", "grammar-several-rows", "grammar-list-glued", "grammar-glued-literal"} {
		if tags[k] {
			all = append(all, k)
		}
	}
	g.Emit(core.L(core.A("th"), lead, core.L(init...), lastItem, tail), all...)
}
