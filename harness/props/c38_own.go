package props

import (
	"fmt"
	"io"
	"net"
	"runtime"
	"runtime/debug"
	"sort"
	"strings"
	"time"

	"gaeaverif/harness/core"

	"github.com/XiaoMi/Gaea/mysql"
	"github.com/XiaoMi/Gaea/proxy/server"
)

// C38, ownership of the pooled packet buffers (mysql.bufPool): several sessions
// of one process, each driven by its own goroutine over an in-memory
// connection, interleaved by a script.
//
// Input (one line = one whole history):
//
//	(own <plugin> (<op> …))
//
//	(greet s)            the server sends its initial handshake packet (writeInitialHandshakeV10)
//	(resp s)             ClientConn.readHandshakeResponse starts (blocks until the client's packets arrive)
//	(check s)            what Session.Handshake / Server.onConn do with the decoded response:
//	                     handleHandshakeResponse, then the OK or the error packet
//	(hs s)               the whole real Session.Handshake (and onConn's error packet)
//	(run s)              the session is logged in (user verif_plain) and Session.Run starts
//	(pkt s <payload>)    the client of s sends one packet ("-" = zero-length packet)
//	(part s <payload> k) the client sends the header and the first k bytes of a packet …
//	(rest s)             … and the remaining bytes
//	(eof s)              the client disconnects
//
// Client bytes are delivered only to a session whose goroutine is blocked
// reading (otherwise the op is answered `skip`), so every step of the script
// runs one goroutine from one blocking read to the next; the process runs on
// one P with the garbage collector off and the buffer pool empty at the start
// of the case, which makes sync.Pool — and with it which buffer every Get
// returns — a deterministic function of the history (Model/BufOwn.lean).
//
// Output: one item per op,
//
//	(<observation>… (conns (s <policy> <buf>)…) (free (<bucket> <buf>…)…))
//
// observations: skip | blocked | (done greet) | (done resp <hs-result>) | (done check <auth seen by the check>) |
// (done hs <hs-result>) | (done run) | (resp <class>) | (sql <text the backend was sent>, for statements `select <digits>`) | panic;
// conns: the ephemeral-buffer bookkeeping of every connection (u/w/r, buffer or -); free: the buffers of every
// non-empty bucket in the order Get would hand them out.  Buffers are numbered in the order of their first
// appearance in the output.

type ownConn struct {
	inbox   []byte
	eof     bool
	closed  bool
	wake    chan struct{}
	idle    chan struct{}
	wbuf    []byte
	frames  [][]byte
	lastSeq int
	nextSeq int // the sequence number mysql.Conn expects next (handshake phase)
	maxW    int
}

func (c *ownConn) Read(p []byte) (int, error) {
	for len(c.inbox) == 0 {
		if c.eof || c.closed {
			return 0, io.EOF
		}
		c.idle <- struct{}{}
		<-c.wake
	}
	n := copy(p, c.inbox)
	c.inbox = c.inbox[n:]
	return n, nil
}

func (c *ownConn) Write(p []byte) (int, error) {
	if c.closed {
		return 0, errC38Closed
	}
	c.wbuf = append(c.wbuf, p...)
	for len(c.wbuf) >= 4 {
		l := int(c.wbuf[0]) | int(c.wbuf[1])<<8 | int(c.wbuf[2])<<16
		if len(c.wbuf) < 4+l {
			break
		}
		c.lastSeq = int(c.wbuf[3])
		c.nextSeq = c.lastSeq + 1
		if l > c.maxW {
			c.maxW = l
		}
		c.frames = append(c.frames, append([]byte{}, c.wbuf[4:4+l]...))
		c.wbuf = c.wbuf[4+l:]
	}
	return len(p), nil
}

func (c *ownConn) Close() error                       { c.closed = true; return nil }
func (c *ownConn) LocalAddr() net.Addr                { return &net.TCPAddr{IP: net.IPv4(127, 0, 0, 1), Port: 13306} }
func (c *ownConn) RemoteAddr() net.Addr               { return &net.TCPAddr{IP: net.IPv4(127, 0, 0, 1), Port: 50001} }
func (c *ownConn) SetDeadline(t time.Time) error      { return nil }
func (c *ownConn) SetReadDeadline(t time.Time) error  { return nil }
func (c *ownConn) SetWriteDeadline(t time.Time) error { return nil }

type ownSess struct {
	id      int
	conn    *ownConn
	s       *server.VerifC38Own
	task    chan func() string
	done    chan string
	busy    bool   // a closure is running (blocked in Read)
	dead    bool   // Session.Run has returned or the client is gone
	running bool   // command phase: every packet starts with sequence number 0
	rest    []byte // second half of a packet sent in two parts
	cur     []byte // the last packet whose delivery was completed
	fresh   bool   // cur has not been answered yet
}

func (x *ownSess) loop() {
	for f := range x.task {
		func() {
			defer func() {
				if e := recover(); e != nil {
					x.done <- "panic"
				}
			}()
			x.done <- f()
		}()
	}
}

type ownRun struct {
	env   *server.VerifC38Env
	sess  map[int]*ownSess
	order []int
	ids   map[*[]byte]int
	sqls  []string
	hang  bool
}

func (r *ownRun) get(id int) *ownSess {
	if x, ok := r.sess[id]; ok {
		return x
	}
	c := &ownConn{wake: make(chan struct{}), idle: make(chan struct{}), lastSeq: -1}
	x := &ownSess{id: id, conn: c, s: r.env.NewOwnSession(c), task: make(chan func() string), done: make(chan string)}
	x.s.SetSalt(c38Salt)
	go x.loop()
	r.sess[id] = x
	r.order = append(r.order, id)
	sort.Ints(r.order)
	return x
}

// wait lets the session's goroutine run until it blocks reading or finishes
// its closure.
func (r *ownRun) wait(x *ownSess) []string {
	var obs []string
	select {
	case res := <-x.done:
		x.busy = false
		obs = r.answer(x, obs)
		if res != "" {
			obs = append(obs, res)
		}
		if res == "(done run)" || res == "panic" {
			x.dead = true
		}
	case <-x.conn.idle:
		obs = r.answer(x, obs)
		obs = append(obs, "blocked")
	case <-time.After(20 * time.Second):
		r.hang = true
		obs = append(obs, "hang")
	}
	return obs
}

// answer reports what the step just run did with the packet it completed.
func (r *ownRun) answer(x *ownSess, obs []string) []string {
	for _, q := range r.sqls {
		// only the statements the model follows to the backend: `select <digits>`
		if ownSimpleSelect(q) {
			obs = append(obs, "(sql "+core.Text(q).String()+")")
		}
	}
	r.sqls = nil
	if x.running && x.fresh {
		obs = append(obs, "(resp "+c38Resp(x.cur, x.conn.frames)+")")
		x.fresh = false
	}
	x.conn.frames = nil
	return obs
}

func ownSimpleSelect(q string) bool {
	if !strings.HasPrefix(q, "select ") {
		return false
	}
	for _, c := range q[len("select "):] {
		if c < '0' || c > '9' {
			return false
		}
	}
	return true
}

func (r *ownRun) start(x *ownSess, f func() string) []string {
	if x.busy || x.dead {
		return []string{"skip"}
	}
	x.busy = true
	x.task <- f
	return r.wait(x)
}

func (r *ownRun) deliver(x *ownSess, b []byte, eof bool) []string {
	x.conn.inbox = append(x.conn.inbox, b...)
	x.conn.eof = x.conn.eof || eof
	x.conn.wake <- struct{}{}
	return r.wait(x)
}

func (x *ownSess) header(n int) []byte {
	seq := 0
	if !x.running {
		seq = x.conn.nextSeq
		x.conn.nextSeq++
	}
	return []byte{byte(n), byte(n >> 8), byte(n >> 16), byte(seq)}
}

func ownHsResult(r server.VerifC38HandshakeResult) string {
	if r.Err != nil {
		if strings.HasPrefix(r.Err.Error(), "readHandshakeResponse:") {
			for _, k := range c38HsErrKinds {
				if strings.Contains(r.Err.Error(), k.sub) {
					return "(err " + k.kind + ")"
				}
			}
			return "(err other)"
		}
		if r.Err.Error() == mysql.ErrBadConn.Error() || r.Err.Error() == mysql.ErrResetConn.Error() {
			return "(err io)"
		}
		// the response was decoded; the handshake failed later (authentication, collation …)
	}
	return fmt.Sprintf("(info %d %d %s %s %s %s)", r.Capability, r.Collation,
		core.Text(r.User), core.Hex(r.Auth), core.Text(r.Database), core.Text(r.AuthPlugin))
}

func (r *ownRun) census() string {
	pool := mysql.VerifBufPool()
	name := func(b *[]byte) string {
		if b == nil {
			return "-"
		}
		id, ok := r.ids[b]
		if !ok {
			id = len(r.ids)
			r.ids[b] = id
		}
		return fmt.Sprint(id)
	}
	var cs []string
	for _, id := range r.order {
		pol, buf := r.sess[id].s.Ephemeral()
		cs = append(cs, fmt.Sprintf("(%d %c %s)", id, "uwr?"[pol&3], name(buf)))
	}
	var fs []string
	for k := range pool.VerifBucketSizes() {
		bufs, privEmpty := pool.VerifDrain(k)
		pool.VerifRefill(k, bufs, privEmpty)
		if len(bufs) == 0 {
			continue
		}
		item := fmt.Sprintf("(%d", k)
		for _, b := range bufs {
			item += " " + name(b)
		}
		fs = append(fs, item+")")
	}
	return "(conns" + ownJoin(cs) + ") (free" + ownJoin(fs) + ")"
}

func ownJoin(xs []string) string {
	if len(xs) == 0 {
		return ""
	}
	return " " + strings.Join(xs, " ")
}

func execC38Own(in core.Sexp) string {
	defer runtime.GOMAXPROCS(runtime.GOMAXPROCS(1))
	defer debug.SetGCPercent(debug.SetGCPercent(-1))
	e := c38Env()
	e.SetAuthPlugin(in.Nth(1).Str())
	defer e.SetAuthPlugin("")
	// COM_QUERY through doMultiStmts: the path on which the packet buffer is recycled before the statement runs
	e.SetMultiQuery(true)
	defer e.SetMultiQuery(false)
	r := &ownRun{env: e, sess: map[int]*ownSess{}, ids: map[*[]byte]int{}}
	e.SetBackendRecorder(func(sql string) { r.sqls = append(r.sqls, sql) })
	defer e.SetBackendRecorder(nil)
	pool := mysql.VerifBufPool()
	empty := func() {
		for k := range pool.VerifBucketSizes() {
			pool.VerifDrain(k)
		}
	}
	empty()
	defer empty()
	defer func() {
		// let every goroutine end: the clients disconnect
		for _, id := range r.order {
			x := r.sess[id]
			if x.busy && !r.hang {
				r.deliver(x, nil, true)
			}
			if !r.hang {
				close(x.task)
			}
		}
	}()

	var out []string
	for _, op := range in.Nth(2).List {
		if r.hang {
			break
		}
		x := r.get(int(op.Nth(1).Int()))
		var obs []string
		switch op.Head() {
		case "greet":
			obs = r.start(x, func() string { x.s.Greet(); return "(done greet)" })
		case "resp":
			obs = r.start(x, func() string { return "(done resp " + ownHsResult(x.s.ReadResponse()) + ")" })
		case "check":
			obs = r.start(x, func() string {
				seen, _, ok := x.s.Check()
				if !ok {
					return "(done check none)"
				}
				return "(done check " + core.Hex(seen).String() + ")"
			})
		case "hs":
			obs = r.start(x, func() string { return "(done hs " + ownHsResult(x.s.Handshake()) + ")" })
		case "run":
			if x.busy || x.dead {
				obs = []string{"skip"}
				break
			}
			x.running, x.fresh = true, false
			obs = r.start(x, func() string { x.s.Login("db1"); x.s.Run(); return "(done run)" })
		case "pkt", "part":
			if !x.busy || x.dead || x.rest != nil || x.conn.eof {
				obs = []string{"skip"}
				break
			}
			p := op.Nth(2).Bytes()
			b := append(x.header(len(p)), p...)
			if op.Head() == "part" {
				k := int(op.Nth(3).Int())
				if k < 0 || k >= len(p) {
					obs = []string{"skip"}
					break
				}
				x.rest = append([]byte{}, p[k:]...)
				b = b[:4+k]
				x.cur = p
			} else {
				x.cur, x.fresh = p, true
			}
			obs = r.deliver(x, b, false)
		case "rest":
			if !x.busy || x.dead || x.rest == nil || x.conn.eof {
				obs = []string{"skip"}
				break
			}
			b := x.rest
			x.rest = nil
			x.fresh = true
			obs = r.deliver(x, b, false)
		case "eof":
			if x.dead || x.conn.eof {
				obs = []string{"skip"}
				break
			}
			if !x.busy {
				x.conn.eof = true
				obs = []string{"gone"}
				break
			}
			x.rest = nil
			obs = r.deliver(x, nil, true)
		default:
			obs = []string{"skip"}
		}
		for _, id := range r.order {
			if r.sess[id].conn.maxW > 128 {
				obs = append(obs, "long-write")
				r.sess[id].conn.maxW = 0
			}
		}
		out = append(out, "("+strings.Join(obs, " ")+" "+r.census()+")")
	}
	return "(" + strings.Join(out, " ") + ")"
}

// ---------------------------------------------------------------------------
// generator

func ownOp(head string, s int, more ...core.Sexp) core.Sexp {
	return core.L(append([]core.Sexp{core.A(head), core.I(int64(s))}, more...)...)
}

func ownSexp(plugin string, ops []core.Sexp) core.Sexp {
	return core.L(core.A("own"), core.Text(plugin), core.L(ops...))
}

// a statement "select <digits>" whose command packet is n bytes long (n >= 9)
func ownSelect(g *c38Gen, cmd byte, n int) []byte {
	p := append([]byte{cmd}, "select "...)
	for len(p) < n {
		p = append(p, byte('0'+g.intn(10)))
	}
	return p
}

var ownSizes = []int{9, 10, 20, 64, 127, 128, 129, 130, 200, 255, 256, 257, 300, 511, 512, 513, 1024, 1025}

// a handshake response of user verif_plain; form 0: length-prefixed auth response, no plugin name (no switch);
// 1: length-prefixed, plugin name differing from the server's (switch); 2: NUL-terminated auth response; 3: NUL-terminated + switch
func ownHandshake(g *c38Gen, form int, serverPlugin string, pad int) []byte {
	h := c38HS{caps: mysql.ClientProtocol41 | mysql.ClientLongPassword | mysql.ClientTransactions, maxpkt: 1 << 24, coll: 33,
		filler: make([]byte, 23), user: c38Pick(g, []string{"verif_plain", "verif_plain", "verif_hash", "nobody"}), auth: g.bytesN(20)}
	if g.intn(3) == 0 {
		h.auth = mysql.CalcPassword(c38Salt, []byte("plainpw"))
	}
	if form == 0 || form == 1 {
		h.caps |= mysql.ClientSecureConnection
	} else {
		for i := range h.auth {
			if h.auth[i] == 0 {
				h.auth[i] = 1
			}
		}
	}
	if g.intn(2) == 0 || pad > 0 {
		h.caps |= mysql.ClientConnectWithDB
		h.db = "db1"
		for i := 0; i < pad; i++ { // a long database name moves the packet into a larger bucket
			h.db += "x"
		}
	}
	if form == 1 || form == 3 {
		h.caps |= mysql.ClientPluginAuth
		h.plugin = mysql.MysqlNativePassword
		if serverPlugin == mysql.MysqlNativePassword {
			h.plugin = mysql.CachingSHA2Password
		}
	} else if g.intn(2) == 0 {
		h.caps |= mysql.ClientPluginAuth
		h.plugin = serverPlugin
	}
	return h.encode()
}

func ownIDCmd(cmd byte, id uint32) []byte {
	p := c38IDCmd(cmd, id)
	if cmd == mysql.ComStmtExecute {
		p = append(p, 0, 1, 0, 0, 0)
	}
	return p
}

// a command packet of a logged-in session
func ownCommand(g *c38Gen, nstmt int) []byte {
	id := uint32(0)
	if nstmt > 0 {
		id = uint32(g.intn(nstmt + 1))
	}
	switch g.intn(14) {
	case 0, 1, 2:
		return ownSelect(g, mysql.ComQuery, c38Pick(g, ownSizes))
	case 3, 4:
		return ownSelect(g, mysql.ComStmtPrepare, c38Pick(g, ownSizes))
	case 5, 6:
		return ownIDCmd(mysql.ComStmtExecute, id)
	case 7:
		return ownIDCmd(mysql.ComStmtClose, id)
	case 8:
		return ownIDCmd(mysql.ComStmtReset, id)
	case 9:
		return []byte{mysql.ComPing}
	case 10:
		return append([]byte{mysql.ComInitDB}, c38Pick(g, []string{"db1", "nodb", ""})...)
	case 11:
		return []byte{}
	case 12:
		return append([]byte{c38Pick(g, []byte{0xfe, 0x1f, 0x05})}, g.bytesN(g.intn(200))...)
	default:
		return []byte{mysql.ComSetOption, 0, 0}
	}
}

// ops of one session that decodes a handshake response step by step
func ownStepHandshake(g *c38Gen, s int, plugin string, form int) (before, after []core.Sexp) {
	pad := 0
	if g.intn(3) == 0 {
		pad = c38Pick(g, []int{60, 100, 200})
	}
	before = []core.Sexp{ownOp("greet", s), ownOp("resp", s), ownOp("pkt", s, core.Hex(ownHandshake(g, form, plugin, pad)))}
	if form == 1 || form == 3 {
		before = append(before, ownOp("pkt", s, core.Hex(ownBlob(g, c38Pick(g, []int{20, 20, 20, 32, 0, 5})))))
	}
	after = []core.Sexp{ownOp("check", s)}
	return
}

// what other sessions do in between: traffic in every size class
func ownNoise(g *c38Gen, first int, plugin string, n int) []core.Sexp {
	var ops []core.Sexp
	started := map[int]bool{}
	for i := 0; i < n; i++ {
		s := first + g.intn(2)
		if !started[s] {
			started[s] = true
			if g.intn(3) == 0 {
				b, a := ownStepHandshake(g, s, plugin, g.intn(4))
				ops = append(ops, b...)
				ops = append(ops, a...)
			}
			ops = append(ops, ownOp("run", s))
			continue
		}
		p := ownCommand(g, 2)
		if len(p) > 1 && g.intn(5) == 0 {
			ops = append(ops, ownOp("part", s, core.Hex(p), core.I(int64(g.intn(len(p))))))
			if g.intn(4) != 0 {
				ops = append(ops, ownOp("rest", s))
			}
		} else {
			ops = append(ops, ownOp("pkt", s, core.Hex(p)))
		}
	}
	return ops
}

// ownBlob is n random bytes (an auth response) that cannot be read as a
// COM_STMT_PREPARE with a text outside the modelled alphabet when a session in the
// command phase receives it (the model answers such a prepare with "unmodelled").
func ownBlob(g *c38Gen, n int) []byte {
	b := g.bytesN(n)
	if len(b) > 0 && b[0] == mysql.ComStmtPrepare {
		b[0] = mysql.ComStmtClose
	}
	return b
}

func genC38Own(g *core.Gen) {
	cg := &c38Gen{r: g.Rand}
	plugins := []string{"", "", mysql.MysqlNativePassword, mysql.CachingSHA2Password}

	// the window between readHandshakeResponse and the password check
	for i := 0; i < g.Scale(60, 400); i++ {
		plugin := c38Pick(cg, plugins)
		form := cg.intn(4)
		before, after := ownStepHandshake(cg, 1, plugin, form)
		ops := append(before, ownNoise(cg, 2, plugin, 1+cg.intn(6))...)
		ops = append(ops, after...)
		g.Emit(ownSexp(plugin, ops), "own", fmt.Sprintf("own-handshake-window-form%d", form))
	}
	// the whole Session.Handshake, other sessions acting while it waits for its client
	for i := 0; i < g.Scale(40, 300); i++ {
		plugin := c38Pick(cg, plugins)
		form := cg.intn(4)
		ops := []core.Sexp{ownOp("hs", 1)}
		ops = append(ops, ownNoise(cg, 2, plugin, 1+cg.intn(4))...)
		ops = append(ops, ownOp("pkt", 1, core.Hex(ownHandshake(cg, form, plugin, 0))))
		ops = append(ops, ownNoise(cg, 2, plugin, cg.intn(4))...)
		if form == 1 || form == 3 {
			ops = append(ops, ownOp("pkt", 1, core.Hex(ownBlob(cg, 20))))
		}
		ops = append(ops, ownOp("run", 1), ownOp("pkt", 1, core.Hex(ownSelect(cg, mysql.ComQuery, 30))))
		g.Emit(ownSexp(plugin, ops), "own", "own-handshake-whole")
	}
	// a command without response, then a read that takes no buffer (zero-length packet, disconnect);
	// afterwards two sessions read packets of the same size class, one of them in two halves
	for i := 0; i < g.Scale(60, 400); i++ {
		n := c38Pick(cg, ownSizes)
		ops := []core.Sexp{ownOp("run", 1), ownOp("run", 2), ownOp("run", 3)}
		quiet := ownIDCmd(mysql.ComStmtClose, 7)
		for len(quiet) < n {
			quiet = append(quiet, 0)
		}
		ops = append(ops, ownOp("pkt", 1, core.Hex(quiet)))
		switch cg.intn(3) {
		case 0:
			ops = append(ops, ownOp("pkt", 1, core.Hex(nil)))
		case 1:
			ops = append(ops, ownOp("eof", 1))
		default:
			ops = append(ops, ownOp("pkt", 1, core.Hex(ownSelect(cg, mysql.ComQuery, n))))
		}
		pb := ownSelect(cg, mysql.ComStmtPrepare, n)
		pc := ownSelect(cg, mysql.ComStmtPrepare, n)
		ops = append(ops, ownOp("part", 2, core.Hex(pb), core.I(int64(1+cg.intn(n-1)))), ownOp("pkt", 3, core.Hex(pc)), ownOp("rest", 2),
			ownOp("pkt", 2, core.Hex(ownIDCmd(mysql.ComStmtExecute, 0))), ownOp("pkt", 3, core.Hex(ownIDCmd(mysql.ComStmtExecute, 0))))
		g.Emit(ownSexp("", ops), "own", "own-quiet-command-then-empty-read")
	}
	// what a session keeps of a packet (statement text) while other sessions reuse the buffer
	for i := 0; i < g.Scale(60, 400); i++ {
		n := c38Pick(cg, ownSizes)
		ops := []core.Sexp{ownOp("run", 1), ownOp("run", 2), ownOp("pkt", 1, core.Hex(ownSelect(cg, mysql.ComStmtPrepare, n)))}
		for k := 0; k < 1+cg.intn(3); k++ {
			ops = append(ops, ownOp("pkt", 2, core.Hex(ownSelect(cg, c38Pick(cg, []byte{mysql.ComQuery, mysql.ComStmtPrepare}), n-cg.intn(3)))))
		}
		ops = append(ops, ownOp("pkt", 1, core.Hex(ownIDCmd(mysql.ComStmtExecute, 0))))
		g.Emit(ownSexp("", ops), "own", "own-kept-statement")
	}
	// random histories of up to four sessions
	for i := 0; i < g.Scale(150, 1500); i++ {
		plugin := c38Pick(cg, plugins)
		nsess := 2 + cg.intn(3)
		phase := make([]int, nsess+1) // 0 new, 1 greeted, 2 reading, 3 read, 4 running
		nstmt := make([]int, nsess+1)
		var ops []core.Sexp
		for k := 0; k < 6+cg.intn(20); k++ {
			s := 1 + cg.intn(nsess)
			if cg.intn(12) == 0 { // any op at any time
				switch cg.intn(8) {
				case 0:
					ops = append(ops, ownOp("greet", s))
				case 1:
					ops = append(ops, ownOp("resp", s))
				case 2:
					ops = append(ops, ownOp("check", s))
				case 3:
					ops = append(ops, ownOp("hs", s))
				case 4:
					ops = append(ops, ownOp("run", s))
				case 5:
					ops = append(ops, ownOp("rest", s))
				case 6:
					ops = append(ops, ownOp("eof", s))
				default:
					ops = append(ops, ownOp("pkt", s, core.Hex(ownCommand(cg, 2))))
				}
				continue
			}
			switch phase[s] {
			case 0:
				if cg.intn(2) == 0 {
					ops = append(ops, ownOp("run", s))
					phase[s] = 4
				} else if cg.intn(4) == 0 {
					ops = append(ops, ownOp("hs", s))
					phase[s] = 2
				} else {
					ops = append(ops, ownOp("greet", s))
					phase[s] = 1
				}
			case 1:
				ops = append(ops, ownOp("resp", s))
				phase[s] = 2
			case 2:
				form := cg.intn(4)
				p := ownHandshake(cg, form, plugin, c38Pick(cg, []int{0, 0, 80, 200}))
				if cg.intn(6) == 0 {
					ops = append(ops, ownOp("part", s, core.Hex(p), core.I(int64(cg.intn(len(p))))), ownOp("rest", s))
				} else {
					ops = append(ops, ownOp("pkt", s, core.Hex(p)))
				}
				if form == 1 || form == 3 {
					ops = append(ops, ownOp("pkt", s, core.Hex(ownBlob(cg, c38Pick(cg, []int{20, 20, 32, 0})))))
				}
				phase[s] = 3
			case 3:
				ops = append(ops, ownOp("check", s))
				phase[s] = 0
			default:
				p := ownCommand(cg, nstmt[s])
				if len(p) > 0 && p[0] == mysql.ComStmtPrepare {
					nstmt[s]++
				}
				if len(p) > 1 && cg.intn(6) == 0 {
					ops = append(ops, ownOp("part", s, core.Hex(p), core.I(int64(cg.intn(len(p))))))
					if cg.intn(5) != 0 {
						ops = append(ops, ownOp("rest", s))
					}
				} else {
					ops = append(ops, ownOp("pkt", s, core.Hex(p)))
				}
				if cg.intn(25) == 0 {
					ops = append(ops, ownOp("eof", s))
				}
			}
		}
		g.Emit(ownSexp(plugin, ops), "own", "own-random")
	}
}
