package props

import (
	"fmt"
	"regexp"
	"sort"
	"strings"

	"gaeaverif/harness/core"

	"github.com/XiaoMi/Gaea/models"
	"github.com/XiaoMi/Gaea/mysql"
	"github.com/XiaoMi/Gaea/proxy/server"
)

// C29 — UserManager of proxy/server/manager.go and the decision of
// Session.handleHandshakeResponse: credentials authenticate into exactly their
// own namespace across creations, reloads and deletions.

func init() {
	core.Register(&core.Property{
		ID: "C29",
		Rule: "whole histories: CreateUserManager over 0-3 namespace configurations, then 0-12 reloads (clone + RebuildNamespaceUsers) and deletions (clone + ClearNamespaceUsers) " +
			"over 3-4 namespaces; user names and passwords of length 0-3 over {a b : , space é} with names shared between namespaces and passwords that are ':'-prefixes/extensions of each other; " +
			"85% of the histories respect the uniqueness rule, the rest configure one credential in two namespaces; after every operation every credential mentioned in the history " +
			"(plus ':'-truncations and concatenation twins) is presented to the real handleHandshakeResponse with its real mysql_native_password scramble; " +
			"non-trivial = at least one presented credential was accepted",
		Generate: genC29,
		Exec:     execC29,
		Trivial: func(in core.Sexp, out string) bool {
			ans := out
			if i := strings.Index(out, "(users"); i >= 0 {
				ans = out[:i]
			}
			return !c29Accepted.MatchString(ans)
		},
		Assumptions: []string{
			"the scramble comparison of CheckPassword is abstracted to equality of passwords in the C29 model (no SHA-1 collision among the generated passwords; clear-text passwords only: an entry in stored-hash form '*'+40 hex digits is skipped by CheckPassword since fix f737e0b); the scrambles themselves are C30",
			"one control-plane operation at a time (Manager.ReloadNamespacePrepare+Commit and DeleteNamespace as atomic steps; their interleavings are C31)",
		},
	})
}

// an accepted credential shows as "(t <namespace hex>)"; a refused one as "(t d)" or "(f d)"
var c29Accepted = regexp.MustCompile(`\(t (-|[0-9a-f]{2,})\)`)

type c29cfg struct {
	name  string
	users [][2]string
}

func c29ParsePairs(xs []core.Sexp) [][2]string {
	var out [][2]string
	for _, x := range xs {
		out = append(out, [2]string{x.Nth(0).Str(), x.Nth(1).Str()})
	}
	return out
}

func c29Namespace(c c29cfg) *models.Namespace {
	ns := &models.Namespace{Name: c.name}
	for _, u := range c.users {
		ns.Users = append(ns.Users, &models.User{UserName: u[0], Password: u[1], Namespace: c.name})
	}
	return ns
}

var c29Salt = []byte{0x01, 0x7f, 0x80, 0xff, 0x00, 0x3a, 0x2a, 0x20, 0x41, 0x61, 0x10, 0x11, 0x12, 0x13, 0x14, 0x15, 0x16, 0x17, 0x18, 0x19}

func c29Answer(um *server.UserManager, user, pw string) string {
	cu := "f"
	if um.CheckUser(user) {
		cu = "t"
	}
	auth := mysql.CalcPassword(c29Salt, []byte(pw))
	info := server.HandshakeResponseInfo{
		CollationID:  mysql.DefaultCollationID,
		User:         user,
		AuthResponse: append([]byte{}, auth...),
		Salt:         append([]byte{}, c29Salt...),
	}
	ok, ns, _ := server.VerifHandshakeDecision(um, info)
	// the same decision through the exported UserManager API
	ok2, stored := um.CheckPassword(user, c29Salt, auth)
	ns2 := ""
	if ok2 {
		ns2 = um.GetNamespaceByUser(user, stored)
	}
	if (ok && um.CheckUser(user)) != (ok2 && um.CheckUser(user)) || (ok && ns != ns2) {
		return "(handshake-differs-from-usermanager)"
	}
	if !ok {
		return "(" + cu + " d)"
	}
	return "(" + cu + " " + core.Text(ns).String() + ")"
}

func c29Dump(um *server.UserManager) string {
	users, creds := um.VerifDump()
	var us, ks []string
	for name, pws := range users {
		var ps []string
		for _, p := range pws {
			ps = append(ps, core.Text(p).String())
		}
		sort.Strings(ps)
		us = append(us, "("+strings.Join(append([]string{core.Text(name).String()}, ps...), " ")+")")
	}
	for _, c := range creds {
		ks = append(ks, fmt.Sprintf("(%s %s %s)", core.Text(c.User), core.Text(c.Password), core.Text(c.Namespace)))
	}
	sort.Strings(us)
	sort.Strings(ks)
	var b strings.Builder
	b.WriteString("(users")
	for _, u := range us {
		b.WriteString(" " + u)
	}
	b.WriteString(") (keys")
	for _, k := range ks {
		b.WriteString(" " + k)
	}
	b.WriteString(")")
	return b.String()
}

func execC29(in core.Sexp) string {
	if in.Head() != "hist" {
		return "bad"
	}
	var init []c29cfg
	for _, x := range in.Nth(1).List {
		init = append(init, c29cfg{name: x.Nth(0).Str(), users: c29ParsePairs(x.List[1:])})
	}
	queries := c29ParsePairs(in.Nth(3).List)

	// CreateUserManager ranges over a map: with one credential in two
	// namespaces the result depends on the iteration order
	owner := map[[2]string]string{}
	for _, c := range init {
		for _, u := range c.users {
			if o, ok := owner[u]; ok && o != c.name {
				return "(err nondeterministic-create)"
			}
			owner[u] = c.name
		}
	}
	cfgs := map[string]*models.Namespace{}
	for i, c := range init {
		cfgs[fmt.Sprintf("k%d", i)] = c29Namespace(c)
	}
	um, err := server.CreateUserManager(cfgs)
	if err != nil {
		return "(err create)"
	}
	var b strings.Builder
	b.WriteString("(ok (ans")
	answers := func() {
		b.WriteString(" (")
		for i, q := range queries {
			if i > 0 {
				b.WriteString(" ")
			}
			b.WriteString(c29Answer(um, q[0], q[1]))
		}
		b.WriteString(")")
	}
	answers()
	for _, op := range in.Nth(2).List {
		before := c29Dump(um)
		next := server.CloneUserManager(um)
		switch op.Head() {
		case "reload":
			next.RebuildNamespaceUsers(c29Namespace(c29cfg{name: op.Nth(1).Str(), users: c29ParsePairs(op.List[2:])}))
		case "delete":
			next.ClearNamespaceUsers(op.Nth(1).Str())
		default:
			return "bad"
		}
		if c29Dump(um) != before {
			return "(clone-shares-state-with-its-source)"
		}
		um = next
		answers()
	}
	b.WriteString(") " + c29Dump(um) + ")")
	return b.String()
}

var c29Alphabet = []string{"a", "b", ":", ",", " ", "é"}

func c29Word(g *core.Gen) string {
	n := g.Intn(4)
	var s string
	for i := 0; i < n; i++ {
		if g.Intn(3) == 0 {
			s += ":"
		} else {
			s += core.Pick(g, c29Alphabet)
		}
	}
	return s
}

func c29PairSexp(p [2]string) core.Sexp { return core.L(core.Text(p[0]), core.Text(p[1])) }

func genC29(g *core.Gen) {
	n := g.Scale(1500, 12000)
	for i := 0; i < n; i++ {
		conflict := g.Intn(100) < 15
		// small pools so that names and passwords are shared between namespaces
		nsPool := []string{"n1", "n2", "n3"}
		if g.Intn(4) == 0 {
			nsPool = append(nsPool, core.Pick(g, []string{"", "n:1", "n1:", "é"}))
		}
		var userPool, pwPool []string
		for k := 0; k < 1+g.Intn(3); k++ {
			userPool = append(userPool, c29Word(g))
		}
		for k := 0; k < 2+g.Intn(4); k++ {
			pwPool = append(pwPool, c29Word(g))
		}
		// prefixes up to a ':' and extensions with ':' of pool passwords
		for _, p := range append([]string{}, pwPool...) {
			if j := strings.Index(p, ":"); j >= 0 && g.Intn(2) == 0 {
				pwPool = append(pwPool, p[:j])
			} else if g.Intn(3) == 0 {
				pwPool = append(pwPool, p+":"+core.Pick(g, c29Alphabet))
			}
		}
		// concatenation twins: (x:y, z) and (x, y:z)
		if g.Intn(4) == 0 {
			x, y, z := core.Pick(g, c29Alphabet), core.Pick(g, c29Alphabet), core.Pick(g, c29Alphabet)
			userPool = append(userPool, x+":"+y, x)
			pwPool = append(pwPool, z, y+":"+z)
		}
		held := map[[2]string]string{} // credential -> namespace in the reference state
		pickUsers := func(ns string) [][2]string {
			var us [][2]string
			k := g.Intn(4)
			for len(us) < k {
				p := [2]string{core.Pick(g, userPool), core.Pick(g, pwPool)}
				if o, ok := held[p]; ok && o != ns && !conflict {
					// keep the uniqueness rule: try a few times, else skip
					k--
					continue
				}
				us = append(us, p)
				if g.Intn(12) == 0 {
					us = append(us, p) // listed twice in the same namespace
				}
			}
			return us
		}
		apply := func(ns string, us [][2]string) {
			for p, o := range held {
				if o == ns {
					delete(held, p)
				}
			}
			for _, p := range us {
				held[p] = ns
			}
		}
		mentioned := map[[2]string]bool{}
		var initS, opsS []core.Sexp
		nInit := g.Intn(4)
		usedInit := map[string]bool{}
		for k := 0; k < nInit; k++ {
			ns := core.Pick(g, nsPool)
			if usedInit[ns] {
				continue
			}
			usedInit[ns] = true
			var us [][2]string
			// inside CreateUserManager a conflict would be order-dependent: never generate one there
			saved := conflict
			conflict = false
			us = pickUsers(ns)
			conflict = saved
			for _, p := range us {
				held[p] = ns
			}
			xs := []core.Sexp{core.Text(ns)}
			for _, p := range us {
				xs = append(xs, c29PairSexp(p))
				mentioned[p] = true
			}
			initS = append(initS, core.L(xs...))
		}
		nOps := g.Intn(13)
		hasColon := false
		for k := 0; k < nOps; k++ {
			ns := core.Pick(g, nsPool)
			if g.Intn(10) < 7 {
				us := pickUsers(ns)
				apply(ns, us)
				xs := []core.Sexp{core.A("reload"), core.Text(ns)}
				for _, p := range us {
					xs = append(xs, c29PairSexp(p))
					mentioned[p] = true
				}
				opsS = append(opsS, core.L(xs...))
			} else {
				apply(ns, nil)
				opsS = append(opsS, core.L(core.A("delete"), core.Text(ns)))
			}
		}
		// queries: everything mentioned, ':'-truncations, twins, a few unconfigured ones
		var qs [][2]string
		seen := map[[2]string]bool{}
		add := func(p [2]string) {
			if !seen[p] && len(qs) < 20 {
				seen[p] = true
				qs = append(qs, p)
			}
		}
		var ms [][2]string
		for p := range mentioned {
			ms = append(ms, p)
		}
		sort.Slice(ms, func(a, b int) bool { return ms[a][0]+"\x00"+ms[a][1] < ms[b][0]+"\x00"+ms[b][1] })
		for _, p := range ms {
			add(p)
			if strings.Contains(p[0], ":") || strings.Contains(p[1], ":") {
				hasColon = true
			}
		}
		for _, p := range ms {
			if j := strings.Index(p[1], ":"); j >= 0 {
				add([2]string{p[0], p[1][:j]})
			}
			if j := strings.Index(p[0], ":"); j >= 0 {
				add([2]string{p[0][:j], p[0][j+1:] + ":" + p[1]})
			}
		}
		for k := 0; k < 3; k++ {
			add([2]string{core.Pick(g, userPool), core.Pick(g, pwPool)})
		}
		add([2]string{c29Word(g), c29Word(g)})
		var qS []core.Sexp
		for _, p := range qs {
			qS = append(qS, c29PairSexp(p))
		}
		tags := []string{"unique-history"}
		if conflict {
			tags = []string{"conflicting-history"}
		}
		if hasColon {
			tags = append(tags, "colon-in-credential")
		}
		tags = append(tags, fmt.Sprintf("ops-%02d", nOps))
		g.Emit(core.L(core.A("hist"), core.L(initS...), core.L(opsS...), core.L(qS...)), tags...)
	}
}
