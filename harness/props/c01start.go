package props

import (
	"fmt"
	"strings"
	"time"

	"gaeaverif/harness/core"

	"github.com/XiaoMi/Gaea/proxy/router"
)

// C01, RangeShard.EqualStart of proxy/router/shard.go (NumRangeShard,
// DateYearShard, DateMonthShard, DateDayShard with isPeriodStart /
// isPeriodStartString): the model is Model/ShardStart.lean.
//
// Line: (eqstart CFG ((KEY INDEX)…))   CFG, KEY as in shardplace.go / Drv/ShardIO.lean
// Out:  (r t|f|panic|(err key-panic) …) | cfgerr | cfgpanic | norange

func c01StartOne(rs router.RangeShard, key interface{}, idx int) (out string) {
	defer func() {
		if e := recover(); e != nil {
			if _, ok := e.(router.KeyError); ok {
				out = "(err key-panic)"
			} else {
				out = "panic"
			}
		}
	}()
	if rs.EqualStart(key, idx) {
		return "t"
	}
	return "f"
}

func execC01Start(in core.Sexp) string {
	cfg := in.Nth(1)
	rule, st := spBuildRule(cfg)
	if st != "" {
		return st
	}
	rs, ok := rule.GetShard().(router.RangeShard)
	if !ok {
		return "norange"
	}
	switch cfg.Head() {
	case "date_year", "date_month", "date_day":
		old := time.Local
		time.Local = time.FixedZone("verif", int(cfg.Nth(1).Int()))
		defer func() { time.Local = old }()
	}
	var b strings.Builder
	b.WriteString("(r")
	for _, ki := range in.Nth(2).List {
		b.WriteString(" ")
		b.WriteString(c01StartOne(rs, spKey(ki.Nth(0)), int(ki.Nth(1).Int())))
	}
	b.WriteString(")")
	return b.String()
}

var c01StartZones = []int{0, 28800, -18000, 19800, -34200}

// keys around the starts of calendar periods, in every spelling
func c01StartDateKeys(g *core.Gen, kind string, tz int, n int) []core.Sexp {
	loc := time.FixedZone("z", tz)
	var out []core.Sexp
	add := func(key core.Sexp, idx int64) { out = append(out, core.L(key, core.I(idx))) }
	num := func(t time.Time) int64 {
		switch kind {
		case "date_year":
			return int64(t.Year())
		case "date_month":
			return int64(t.Year()*100 + int(t.Month()))
		}
		return int64(t.Year()*10000 + int(t.Month())*100 + t.Day())
	}
	for len(out) < n {
		y := 2014 + g.Intn(8)
		m := 1 + g.Intn(12)
		d := 1 + g.Intn(28)
		switch g.Intn(4) {
		case 0:
			m, d = 1, 1
		case 1:
			d = 1
		}
		t := time.Date(y, time.Month(m), d, 0, 0, 0, 0, loc)
		switch g.Intn(6) {
		case 0:
			t = t.Add(time.Second)
		case 1:
			t = t.Add(-time.Second)
		case 2:
			t = t.Add(time.Duration(g.Intn(86400)) * time.Second)
		}
		idx := num(t)
		switch g.Intn(8) {
		case 0:
			idx += int64(g.Intn(3)) - 1
		case 1:
			idx = int64(g.Intn(3000))
		}
		date := t.Format("2006-01-02")
		full := t.Format("2006-01-02 15:04:05")
		switch g.Intn(16) {
		case 0, 1, 2:
			add(spKeyS(date), idx)
		case 3, 4, 5, 6:
			add(spKeyS(full), idx)
		case 7:
			add(spKeyS(full+core.Pick(g, []string{".000", ".0", ".", ".000000", ".001", ".0a", "x", " ", ".00 ", "0"})), idx)
		case 8:
			add(spKeyS(date+core.Pick(g, []string{" ", " 00:00", " 00:00:0", "T00:00:00", " 00:00:00Z", " 0:00:00", "  00:00:00"})), idx)
		case 9:
			add(spKeyS(core.Pick(g, []string{"", "2016", "2016-01", "2016-01-1", "2016/01/01", "20160101", "abcd-ef-gh", "2016-1-1 00:00:00", "+016-01-01", "2016-01-01\x00"})), idx)
		case 10:
			add(spKeyB(full), idx)
		case 11:
			add(spKeyF(), idx)
		case 12:
			add(spKeyInt("i", t.Unix()), idx)
		case 13:
			add(spKeyU(uint64(t.Unix())), idx)
		default:
			add(spKeyInt("l", t.Unix()), idx)
		}
	}
	return out
}

func c01StartRangeKeys(g *core.Gen, limit int64, tables int, n int) []core.Sexp {
	var out []core.Sexp
	for len(out) < n {
		j := int64(g.Intn(tables + 1))
		v := j*limit + int64(g.Intn(3)) - 1
		if g.Intn(4) == 0 {
			v = int64(g.Intn(int(limit)*tables + 1))
		}
		idx := int64(0)
		if limit > 0 && v >= 0 {
			idx = v / limit
		}
		switch g.Intn(8) {
		case 0:
			idx += int64(g.Intn(3)) - 1
		case 1:
			idx = int64(g.Intn(tables+2)) - 1
		}
		var key core.Sexp
		switch g.Intn(8) {
		case 0:
			key = spKeyS(fmt.Sprint(v))
		case 1:
			key = spKeyInt("i", v)
		case 2:
			key = spKeyU(uint64(v))
		case 3:
			key = spKeyS(core.Pick(g, []string{"", "abc", "1e2", " 100", "100 ", "+100", "0x10"}))
		default:
			key = spKeyInt("l", v)
		}
		out = append(out, core.L(key, core.I(idx)))
	}
	return out
}

func genC01Start(g *core.Gen) {
	n := g.Scale(250, 4000)
	per := 12
	for i := 0; i < n; i++ {
		if g.Intn(4) == 0 {
			nloc := 1 + g.Intn(3)
			locs := make([]int, nloc)
			tables := 0
			for j := range locs {
				locs[j] = 1 + g.Intn(3)
				tables += locs[j]
			}
			limit := core.Pick(g, []int64{1, 7, 100, 1000})
			cfg := core.L(core.A("range"), core.Ints(locs), core.I(limit))
			keys := c01StartRangeKeys(g, limit, tables, per)
			g.Emit(core.L(core.A("eqstart"), cfg, core.L(keys...)), "stmt=eqstart", "rule=range")
			continue
		}
		kind := core.Pick(g, []string{"date_year", "date_month", "date_day"})
		tz := core.Pick(g, c01StartZones)
		var ranges []core.Sexp
		switch kind {
		case "date_year":
			ranges = []core.Sexp{core.Text("2014-2017"), core.Text("2018-2021")}
		case "date_month":
			ranges = []core.Sexp{core.Text("201401-201712"), core.Text("201801-202112")}
		default:
			ranges = []core.Sexp{core.Text("20140101-20171231"), core.Text("20180101-20211231")}
		}
		cfg := core.L(core.A(kind), core.I(int64(tz)), core.L(ranges...))
		keys := c01StartDateKeys(g, kind, tz, per)
		g.Emit(core.L(core.A("eqstart"), cfg, core.L(keys...)), "stmt=eqstart", "rule="+kind, fmt.Sprintf("tz=%d", tz))
	}
}
