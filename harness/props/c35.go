package props

import (
	"fmt"
	"net"
	"strings"

	"gaeaverif/harness/core"

	"github.com/XiaoMi/Gaea/models"
	"github.com/XiaoMi/Gaea/proxy/server"
)

// C35 — allow-list of client addresses: proxy/server parseAllowIps,
// Namespace.IsClientIPAllowed, Session.IsAllowConnect, util.ParseIPInfo/Match.

func init() {
	core.Register(&core.Property{
		ID: "C35",
		Rule: "allow-lists of 0–4 entries (IPv4/IPv6/IPv4-mapped addresses and blocks of every prefix length, several spellings, " +
			"white space, blank entries, a malformed stream) × clients at the prefix boundaries of a listed entry (the entry's address, " +
			"last bit inside the prefix flipped, first bit outside flipped, last bit flipped) presented as 4-byte, IPv4-mapped and 16-byte " +
			"addresses, plus cross-family and random clients; `conn` goes through Session.IsAllowConnect with the text of RemoteAddr(); " +
			"non-trivial = the list was accepted and is not empty",
		Generate: genC35,
		Exec:     execC35,
		Trivial: func(in core.Sexp, out string) bool {
			if out != "t" && out != "f" {
				return true
			}
			for _, e := range in.Nth(1).List {
				if strings.TrimSpace(e.Str()) != "" {
					return false
				}
			}
			return true
		},
		Assumptions: []string{
			"package net (ParseCIDR, ParseIP, IPNet.Contains, IP.Equal, SplitHostPort) and netip.ParseAddr are trusted; the model holds a transliteration of them that this run compares with the real ones",
		},
	})
}

type c35Addr string

func (a c35Addr) Network() string { return "tcp" }
func (a c35Addr) String() string  { return string(a) }

func c35Entries(in core.Sexp) []string {
	var es []string
	for _, e := range in.List {
		es = append(es, e.Str())
	}
	return es
}

func execC35(in core.Sexp) string {
	tf := func(b bool) string {
		if b {
			return "t"
		}
		return "f"
	}
	switch in.Head() {
	case "allow":
		l, err := server.VerifParseAllowIps(c35Entries(in.Nth(1)))
		if err != nil {
			return "(err parse)"
		}
		b := in.Nth(2).Bytes()
		var ip net.IP
		if len(b) > 0 {
			ip = net.IP(b)
		}
		return tf(l.IsClientIPAllowed(ip))
	case "conn":
		l, err := server.VerifParseAllowIps(c35Entries(in.Nth(1)))
		if err != nil {
			return "(err parse)"
		}
		return tf(l.IsAllowConnect(c35Addr(in.Nth(2).Str())))
	case "verify":
		if err := models.VerifVerifyAllowIps(c35Entries(in.Nth(1))); err != nil {
			return "(err parse)"
		}
		return "ok"
	}
	return "bad"
}

// ---- generator ----

func c35V4(g *core.Gen) []byte {
	b := make([]byte, 4)
	for i := range b {
		switch g.Intn(4) {
		case 0:
			b[i] = core.Pick(g, []byte{0, 1, 127, 128, 254, 255, 10, 192, 168})
		default:
			b[i] = byte(g.Intn(256))
		}
	}
	return b
}

func c35Mapped(v4 []byte) []byte {
	return append([]byte{0, 0, 0, 0, 0, 0, 0, 0, 0, 0, 0xff, 0xff}, v4...)
}

func c35V6(g *core.Gen) []byte {
	b := make([]byte, 16)
	switch g.Intn(8) {
	case 0: // ::1 and friends
		b[15] = byte(g.Intn(3))
	case 1: // link local
		b[0], b[1] = 0xfe, 0x80
		b[15] = byte(1 + g.Intn(200))
	case 2: // near the IPv4-mapped range, but not in it
		b[10] = core.Pick(g, []byte{0xff, 0xfe, 0x7f, 0})
		b[11] = core.Pick(g, []byte{0xfe, 0xc0, 0x00, 0x7f})
		g.Rand.Read(b[12:])
	case 3: // documentation prefix
		b[0], b[1], b[2], b[3] = 0x20, 0x01, 0x0d, 0xb8
		g.Rand.Read(b[8+g.Intn(8):])
	case 4: // zero runs in the middle
		g.Rand.Read(b)
		lo := g.Intn(14)
		hi := lo + 2 + g.Intn(14-lo)
		for i := lo; i < hi && i < 16; i++ {
			b[i] = 0
		}
	default:
		g.Rand.Read(b)
	}
	if b[10] == 0xff && b[11] == 0xff {
		zero := true
		for _, x := range b[:10] {
			zero = zero && x == 0
		}
		if zero {
			b[0] = 0x20
		}
	}
	return b
}

// text of an address in one of several spellings
func c35Text(g *core.Gen, a []byte) string {
	if len(a) == 4 {
		return net.IP(a).String()
	}
	ip := net.IP(a)
	full := func(upper bool, pad bool) string {
		var parts []string
		for i := 0; i < 16; i += 2 {
			f := "%x"
			if pad {
				f = "%04x"
			}
			s := fmt.Sprintf(f, uint(a[i])<<8|uint(a[i+1]))
			if upper {
				s = strings.ToUpper(s)
			}
			parts = append(parts, s)
		}
		return strings.Join(parts, ":")
	}
	if ip.To4() != nil {
		switch g.Intn(4) {
		case 0:
			return "::ffff:" + ip.To4().String()
		case 1:
			return fmt.Sprintf("::ffff:%02x%02x:%02x%02x", a[12], a[13], a[14], a[15])
		case 2:
			return "0:0:0:0:0:ffff:" + ip.To4().String()
		default:
			return "::FFFF:" + ip.To4().String()
		}
	}
	switch g.Intn(5) {
	case 0:
		return full(false, false)
	case 1:
		return full(true, true)
	case 2: // trailing dotted quad
		var parts []string
		for i := 0; i < 12; i += 2 {
			parts = append(parts, fmt.Sprintf("%x", uint(a[i])<<8|uint(a[i+1])))
		}
		return strings.Join(parts, ":") + ":" + net.IP(a[12:]).String()
	default:
		return ip.String()
	}
}

func c35Space(g *core.Gen, s string) string {
	sp := []string{" ", "\t", "  ", "\n", "\r\n", "\v", "\f", "\u00a0", "\u2003", "\u3000", "\u0085", "\u1680", "\u2028", "\u202f", "\u205f"}
	switch g.Intn(6) {
	case 0:
		return core.Pick(g, sp) + s
	case 1:
		return s + core.Pick(g, sp)
	case 2:
		return core.Pick(g, sp) + s + core.Pick(g, sp) + core.Pick(g, sp)
	}
	return s
}

type c35Entry struct {
	text string
	addr []byte // 4 or 16 bytes (nil: malformed/blank)
	n    int    // prefix length, -1 = single address
	kind string
}

var c35Malformed = []string{
	"1.2.3", "1.2.3.4.5", "01.2.3.4", "1.2.3.04", "256.1.1.1", "1.2.3.-4", "1..2.3", ".1.2.3", "1.2.3.", "1.2.3.4/", "1.2.3.4/33",
	"1.2.3.4/-1", "1.2.3.4/+8", "1.2.3.4/8/9", "/24", "1.2.3.4/ 24", "1.2.3.4 /24", "1.2.3.4/24x", "1.2.3.4/0x10", "1.2.3.4/16777215",
	"1.2.3.4/99999999999999999999", "localhost", "abcdefg", "*", "%", "1.2.3.4%eth0", "fe80::1%eth0", "fe80::1%", "fe80::1%eth0/64", "::1/129", ":::", ":",
	"1::2::3", "1:2:3:4:5:6:7", "1:2:3:4:5:6:7:8:9", "1:2:3:4:5:6:7:8::", "::1:2:3:4:5:6:7:8", "12345::", "::g", "1:2:3:4:5:6:7:", ":1:2:3:4:5:6:7",
	"::ffff:1.2.3", "::ffff:1.2.3.4.5", "::ffff:01.2.3.4", "1.2.3.4::", "1:2:3:4:5:6:7:1.2.3.4", "::1.2.3.4.", "1.2.3.4,5.6.7.8", "1.2.3.4;", "１.2.3.4",
	"1.2.3.4/٣", "0x7f.0.0.1", "127.1", "2130706433", "::ffff:300.1.1.1", "[::1]", "[::1]/128", "1.2.3.4:80",
}

func c35GenEntry(g *core.Gen) c35Entry {
	switch g.Intn(14) {
	case 0: // blank
		return c35Entry{text: core.Pick(g, []string{"", " ", "\t ", "\n"}), n: -1, kind: "blank"}
	case 1: // malformed
		return c35Entry{text: core.Pick(g, c35Malformed), n: -1, kind: "malformed"}
	case 2, 3:
		a := c35V4(g)
		return c35Entry{text: c35Text(g, a), addr: a, n: -1, kind: "v4-addr"}
	case 4, 5, 6:
		a := c35V4(g)
		n := g.Intn(33)
		if g.Intn(3) == 0 {
			n = core.Pick(g, []int{0, 1, 7, 8, 9, 15, 16, 17, 23, 24, 25, 31, 32})
		}
		ns := fmt.Sprint(n)
		if g.Intn(10) == 0 {
			ns = "0" + ns
		}
		return c35Entry{text: c35Text(g, a) + "/" + ns, addr: a, n: n, kind: "v4-block"}
	case 7:
		a := c35V6(g)
		return c35Entry{text: c35Text(g, a), addr: a, n: -1, kind: "v6-addr"}
	case 8, 9:
		a := c35V6(g)
		n := g.Intn(129)
		if g.Intn(3) == 0 {
			n = core.Pick(g, []int{0, 1, 7, 8, 9, 63, 64, 65, 79, 80, 81, 95, 96, 97, 119, 120, 121, 127, 128})
		}
		if g.Intn(6) == 0 { // a block that covers the IPv4-mapped range
			a = make([]byte, 16)
			n = g.Intn(81)
			if g.Intn(2) == 0 {
				a[10], a[11] = 0xff, 0xfe
				n = 80 + g.Intn(16)
			}
		}
		return c35Entry{text: fmt.Sprintf("%s/%d", c35Text(g, a), n), addr: a, n: n, kind: "v6-block"}
	case 10:
		a := c35Mapped(c35V4(g))
		return c35Entry{text: c35Text(g, a), addr: a, n: -1, kind: "mapped-addr"}
	default:
		a := c35Mapped(c35V4(g))
		n := 96 + g.Intn(33)
		if g.Intn(3) == 0 {
			n = g.Intn(129)
		}
		if g.Intn(4) == 0 {
			n = core.Pick(g, []int{0, 79, 80, 81, 88, 95, 96, 97, 104, 120, 127, 128})
		}
		return c35Entry{text: fmt.Sprintf("%s/%d", c35Text(g, a), n), addr: a, n: n, kind: "mapped-block"}
	}
}

func c35Flip(a []byte, bit int) []byte {
	b := append([]byte{}, a...)
	if bit >= 0 && bit < 8*len(b) {
		b[bit/8] ^= 0x80 >> uint(bit%8)
	}
	return b
}

// a client chosen relative to an entry; returns the net.IP bytes and a tag
func c35Client(g *core.Gen, e c35Entry) ([]byte, string) {
	if e.addr == nil || g.Intn(8) == 0 {
		switch g.Intn(4) {
		case 0:
			return c35V4(g), "client-random-v4"
		case 1:
			return c35Mapped(c35V4(g)), "client-random-mapped"
		case 2:
			return c35V6(g), "client-random-v6"
		default:
			return nil, "client-nil"
		}
	}
	bits := 8 * len(e.addr)
	n := e.n
	if n < 0 {
		n = bits
	}
	var c []byte
	tag := ""
	switch g.Intn(6) {
	case 0:
		c, tag = append([]byte{}, e.addr...), "client-same"
	case 1:
		c, tag = c35Flip(e.addr, n-1), "client-flip-last-inside"
	case 2:
		c, tag = c35Flip(e.addr, n), "client-flip-first-outside"
	case 3:
		c, tag = c35Flip(e.addr, bits-1), "client-flip-last-bit"
	case 4:
		c, tag = c35Flip(e.addr, g.Intn(bits)), "client-flip-random-bit"
	default: // keep the prefix, randomise the rest
		c = append([]byte{}, e.addr...)
		r := make([]byte, len(c))
		g.Rand.Read(r)
		for bit := n; bit < bits; bit++ {
			c[bit/8] = c[bit/8]&^(0x80>>uint(bit%8)) | r[bit/8]&(0x80>>uint(bit%8))
		}
		tag = "client-same-prefix"
	}
	// presentation
	if len(c) == 4 {
		if g.Intn(2) == 0 {
			return c35Mapped(c), tag + "-as-mapped"
		}
		return c, tag + "-as-v4"
	}
	if net.IP(c).To4() != nil && g.Intn(2) == 0 {
		return append([]byte{}, c[12:]...), tag + "-as-v4"
	}
	if e.kind == "v6-block" && g.Intn(4) == 0 {
		// cross family: an IPv4 client whose mapped form shares the block's leading bits when the block is short
		v4 := c35V4(g)
		return v4, "client-v4-vs-v6-block"
	}
	return c, tag + "-as-v6"
}

func c35Remote(g *core.Gen, ip []byte) string {
	port := fmt.Sprint(1 + g.Intn(65535))
	if ip == nil {
		return core.Pick(g, []string{"", "@", "/tmp/mysql.sock", "pipe", "1.2.3.4", "[::1]", "::1:3306", "[1.2.3.4:80", "1.2.3.4]:80", "[[::1]]:80", "[::1]x:80", "host:80", ":80", "[]:80"})
	}
	a := &net.TCPAddr{IP: net.IP(ip), Port: 1 + g.Intn(65535)}
	if len(ip) == 16 && net.IP(ip).To4() == nil && g.Intn(4) == 0 {
		a.Zone = core.Pick(g, []string{"eth0", "lo", "1"})
	}
	if g.Intn(10) == 0 {
		if len(ip) == 4 || net.IP(ip).To4() != nil {
			return "[" + net.IP(ip).String() + "]:" + port
		}
	}
	return a.String()
}

// c35KnownBudget bounds, per run, the generated cases that fall into the open
// finding ipv4-client-in-short-ipv6-block-rejected (the runner keeps at most
// 200 violations per run, and listed ones must not crowd out new ones).
var c35KnownBudget int

// does an IPv4(-mapped) client lie, as ::ffff:a.b.c.d, in a block written in IPv6 form with n < 96?
func c35CrossFamily(es []c35Entry, client []byte) bool {
	c := client
	if len(c) == 4 {
		c = c35Mapped(c)
	}
	if len(c) != 16 || net.IP(c).To4() == nil {
		return false
	}
	for _, e := range es {
		if len(e.addr) != 16 || e.n < 0 || e.n >= 96 {
			continue
		}
		same := true
		for bit := 0; bit < e.n; bit++ {
			if (e.addr[bit/8]^c[bit/8])&(0x80>>uint(bit%8)) != 0 {
				same = false
				break
			}
		}
		if same {
			return true
		}
	}
	return false
}

func c35Emit(g *core.Gen, es []c35Entry, client []byte, ctag string, viaConn bool) {
	var xs []core.Sexp
	if c35CrossFamily(es, client) {
		if c35KnownBudget <= 0 {
			client, ctag = c35V6(g), "client-random-v6"
		} else {
			c35KnownBudget--
			ctag += "+cross-family"
		}
	}
	tags := []string{ctag}
	for _, e := range es {
		xs = append(xs, core.Text(e.text))
		tags = append(tags, "entry-"+e.kind)
		if e.n >= 0 {
			switch {
			case e.n == 0:
				tags = append(tags, "prefix-0")
			case e.n == 8*len(e.addr):
				tags = append(tags, "prefix-full")
			case e.n%8 == 0:
				tags = append(tags, "prefix-byte-aligned")
			default:
				tags = append(tags, "prefix-mid-byte")
			}
		}
	}
	tags = append(tags, fmt.Sprintf("entries-%d", len(es)))
	if viaConn {
		g.Emit(core.L(core.A("conn"), core.L(xs...), core.Text(c35Remote(g, client))), append(tags, "op-conn")...)
	} else {
		g.Emit(core.L(core.A("allow"), core.L(xs...), core.Hex(client)), append(tags, "op-allow")...)
	}
}

func genC35(g *core.Gen) {
	c35KnownBudget = 60
	n := g.Scale(5000, 60000)
	for i := 0; i < n; i++ {
		k := core.Pick(g, []int{0, 1, 1, 1, 2, 2, 3, 4})
		var es []c35Entry
		for j := 0; j < k; j++ {
			e := c35GenEntry(g)
			for (e.kind == "malformed" || e.kind == "blank") && g.Intn(3) != 0 { // keep most lists loadable
				e = c35GenEntry(g)
			}
			e.text = c35Space(g, e.text)
			es = append(es, e)
		}
		var ref c35Entry
		if len(es) > 0 {
			ref = core.Pick(g, es)
		}
		client, tag := c35Client(g, ref)
		c35Emit(g, es, client, tag, g.Intn(4) == 0)
		if g.Intn(25) == 0 {
			var xs []core.Sexp
			for _, e := range es {
				xs = append(xs, core.Text(e.text))
			}
			g.Emit(core.L(core.A("verify"), core.L(xs...)), "op-verify")
		}
	}
	// every malformed spelling alone and next to a valid entry
	for _, m := range c35Malformed {
		g.Emit(core.L(core.A("allow"), core.L(core.Text(m)), core.Hex([]byte{1, 2, 3, 4})), "entry-malformed", "op-allow")
		g.Emit(core.L(core.A("allow"), core.L(core.Text("1.2.3.4"), core.Text(m)), core.Hex([]byte{1, 2, 3, 4})), "entry-malformed", "op-allow")
		g.Emit(core.L(core.A("verify"), core.L(core.Text(m))), "entry-malformed", "op-verify")
		g.Emit(core.L(core.A("conn"), core.L(core.Text("1.2.3.4")), core.Text(m+":3306")), "remote-malformed", "op-conn")
	}
	if g.Tier != "quick" {
		// exhaustive prefix lengths for one address of each family, boundary clients in every presentation
		v4 := []byte{10, 85, 170, 255}
		v6 := []byte{0x20, 0x01, 0x0d, 0xb8, 0x55, 0xaa, 0xff, 0x00, 0x80, 0x01, 0xfe, 0x7f, 0x12, 0x34, 0x56, 0x78}
		mp := c35Mapped(v4)
		for _, base := range [][]byte{v4, v6, mp} {
			bits := 8 * len(base)
			kind := map[int]string{4: "v4-block", 16: "v6-block"}[len(base)]
			if len(base) == 16 && base[10] == 0xff && base[0] == 0 {
				kind = "mapped-block"
			}
			for n := 0; n <= bits; n++ {
				text := net.IP(base).String()
				if kind == "mapped-block" {
					text = "::ffff:" + net.IP(base[12:]).String()
				}
				e := c35Entry{text: fmt.Sprintf("%s/%d", text, n), addr: base, n: n, kind: kind}
				for _, c := range [][]byte{base, c35Flip(base, n-1), c35Flip(base, n), c35Flip(base, bits-1)} {
					c35Emit(g, []c35Entry{e}, c, "client-exhaustive", false)
					if len(c) == 4 {
						c35Emit(g, []c35Entry{e}, c35Mapped(c), "client-exhaustive", false)
					} else if net.IP(c).To4() != nil {
						c35Emit(g, []c35Entry{e}, c[12:], "client-exhaustive", false)
					}
					c35Emit(g, []c35Entry{e}, c, "client-exhaustive", true)
				}
			}
		}
	}
}
