package props

import (
	"bytes"
	"encoding/binary"
	"fmt"
	"io"
	"net"
	"os"
	"path/filepath"
	"regexp"
	"strings"
	"sync"
	"time"

	"gaeaverif/harness/core"

	"github.com/XiaoMi/Gaea/models"
	"github.com/XiaoMi/Gaea/proxy/server"
	"github.com/XiaoMi/Gaea/util"
)

// C35 — allow-list of client addresses: proxy/server parseAllowIps,
// Namespace.IsClientIPAllowed, Session.IsAllowConnect, util.ParseIPInfo/Match.

func init() {
	core.Register(&core.Property{
		ID: "C35",
		Rule: "allow-lists of 0–4 entries (IPv4/IPv6/IPv4-mapped addresses and blocks of every prefix length, several spellings, " +
			"white space, blank entries, a malformed stream) × clients at the prefix boundaries of a listed entry (the entry's address, " +
			"last bit inside the prefix flipped, first bit outside flipped, last bit flipped) presented as 4-byte, IPv4-mapped and 16-byte " +
			"addresses, plus cross-family and random clients; `conn` goes through Session.IsAllowConnect with the text of RemoteAddr(); " +
			"non-trivial = the list was accepted and is not empty; `reload`: histories of prepare (valid, unparsable, blank-only, empty lists) / commit / delete on the " +
			"real Manager with clients connecting in between; `sock`: real tcp4 / tcp6 / dual-stack / unix-socket connections judged by their own RemoteAddr(); " +
			"`hs`: the proxy's own connection handler (Server.onConn) on a real listener of each kind, a real client logging in with the right password: OK packet or error 1045; " +
			"whole-run check: clients connecting while another goroutine reloads between two lists",
		Generate: genC35,
		Exec:     execC35,
		Extra:    c35Concurrent,
		Trivial: func(in core.Sexp, out string) bool {
			switch in.Head() {
			case "reload":
				return !strings.Contains(out, "ok") || !strings.Contains(in.String(), "(conn")
			case "sock", "hs":
				return len(in.Nth(2).List) == 0 || strings.HasPrefix(out, "(err")
			case "utilparse":
				return false
			}
			if out != "t" && out != "f" {
				return true
			}
			for _, e := range in.Nth(1).List {
				if strings.TrimSpace(e.Str()) != "" {
					return false
				}
			}
			return true
		},
		Assumptions: []string{
			"package net (ParseCIDR, ParseIP, IPNet.Contains, IP.Equal, SplitHostPort) and netip.ParseAddr are trusted; the model holds a transliteration of them that this run compares with the real ones",
		},
	})
}

type c35Addr string

func (a c35Addr) Network() string { return "tcp" }
func (a c35Addr) String() string  { return string(a) }

func c35Entries(in core.Sexp) []string {
	var es []string
	for _, e := range in.List {
		es = append(es, e.Str())
	}
	return es
}

func execC35(in core.Sexp) string {
	c31QuietLog() // Session.IsAllowConnect logs a warning for every remote address without host:port
	tf := func(b bool) string {
		if b {
			return "t"
		}
		return "f"
	}
	switch in.Head() {
	case "allow":
		l, err := server.VerifParseAllowIps(c35Entries(in.Nth(1)))
		if err != nil {
			return "(err parse)"
		}
		b := in.Nth(2).Bytes()
		var ip net.IP
		if len(b) > 0 {
			ip = net.IP(b)
		}
		return tf(l.IsClientIPAllowed(ip))
	case "conn":
		l, err := server.VerifParseAllowIps(c35Entries(in.Nth(1)))
		if err != nil {
			return "(err parse)"
		}
		return tf(l.IsAllowConnect(c35Addr(in.Nth(2).Str())))
	case "verify":
		if err := models.VerifVerifyAllowIps(c35Entries(in.Nth(1))); err != nil {
			return "(err parse)"
		}
		return "ok"
	case "reload":
		m, err := c35Manager(c35Entries(in.Nth(1)))
		if err != nil {
			return "(err manager)"
		}
		defer m.VerifC31Close()
		var outs []string
		for _, op := range in.List[2:] {
			outs = append(outs, c35Apply(m, op))
		}
		return "(" + strings.Join(outs, " ") + ")"
	case "sock":
		l, err := server.VerifParseAllowIps(c35Entries(in.Nth(2)))
		if err != nil {
			return "(err parse)"
		}
		return c35Sock(in.Nth(1).Atom, l)
	case "hs":
		return c35Handshake(in.Nth(1).Atom, c35Entries(in.Nth(2)))
	case "utilparse":
		ips, err := util.VerifParseAllowIps(in.Nth(1).Str())
		if err != nil {
			return "(err parse)"
		}
		return fmt.Sprintf("(kept %d)", len(ips))
	}
	return "bad"
}

const c35NS = "ns0"

// c35Config is a namespace configuration with the given allowed_ip; its one
// slice has no master and no replica (no pool is opened, as in C31's harness).
func c35Config(allowed []string) *models.Namespace {
	return &models.Namespace{
		Name:         c35NS,
		AllowedIP:    allowed,
		Users:        []*models.User{{UserName: "u0", Password: "p0", Namespace: c35NS, RWFlag: 2}},
		Slices:       []*models.Slice{{Name: "slice-0"}},
		DefaultSlice: "slice-0",
	}
}

// c35Manager starts a Manager the way the proxy does with the one namespace
// (a namespace whose configuration NewNamespace rejects is not created).
func c35Manager(allowed []string) (*server.Manager, error) {
	c31QuietLog()
	return server.VerifC31NewManager("dc", map[string]*models.Namespace{c35NS: c35Config(allowed)})
}

func c35Apply(m *server.Manager, op core.Sexp) string {
	switch op.Head() {
	case "prepare":
		if err := m.ReloadNamespacePrepare(c35Config(c35Entries(op.Nth(1)))); err != nil {
			if strings.Contains(err.Error(), "parse allowips error") {
				return "(err parse)"
			}
			return "(err other)"
		}
		return "ok"
	case "commit":
		if err := m.ReloadNamespaceCommit(c35NS); err != nil {
			return "(err notprepared)"
		}
		return "ok"
	case "delete":
		if err := m.DeleteNamespace(c35NS); err != nil {
			return "(err other)"
		}
		return "ok"
	case "conn":
		if server.VerifC35Connect(m, c35NS, c35Addr(op.Nth(1).Str())) {
			return "t"
		}
		return "f"
	}
	return "bad"
}

var c35Port = regexp.MustCompile(`:[0-9]+$`)

// c35Sock opens a real listener of the kind, connects a real client to it and
// lets Session.IsAllowConnect judge the accepted connection by its own
// RemoteAddr(). The answer carries the remote address text (port replaced by 1).
func c35Sock(kind string, l *server.VerifAllowList) string {
	network, addr, dial := "", "", ""
	switch kind {
	case "tcp4":
		network, addr = "tcp4", "127.0.0.1:0"
	case "tcp6":
		network, addr = "tcp6", "[::1]:0"
	case "dual4": // a dual-stack listener reached over IPv4: the peer is an IPv4-mapped address
		network, addr = "tcp", "[::]:0"
	case "unix":
		dir, err := os.MkdirTemp("", "gvc35")
		if err != nil {
			return "(err sock)"
		}
		defer os.RemoveAll(dir)
		network, addr = "unix", filepath.Join(dir, "s")
	default:
		return "bad"
	}
	ln, err := net.Listen(network, addr)
	if err != nil {
		return "(err sock)"
	}
	defer ln.Close()
	dial = ln.Addr().String()
	dialNet := network
	if kind == "dual4" {
		_, port, _ := net.SplitHostPort(dial)
		dial, dialNet = "127.0.0.1:"+port, "tcp4"
	}
	done := make(chan net.Conn, 1)
	go func() {
		c, err := net.DialTimeout(dialNet, dial, 5*time.Second)
		if err != nil {
			done <- nil
			return
		}
		done <- c
	}()
	if d, ok := ln.(interface{ SetDeadline(time.Time) error }); ok {
		d.SetDeadline(time.Now().Add(5 * time.Second))
	}
	c, err := ln.Accept()
	if cl := <-done; cl != nil {
		defer cl.Close()
	}
	if err != nil {
		return "(err sock)"
	}
	defer c.Close()
	dec := "f"
	if l.IsAllowConnectConn(c) {
		dec = "t"
	}
	text := c35Port.ReplaceAllString(c.RemoteAddr().String(), ":1")
	return "(" + dec + " " + core.Text(text).String() + ")"
}

// c35HaveSock reports which kinds of real connections this machine can make.
var c35HaveSock = sync.OnceValue(func() map[string]bool {
	have := map[string]bool{}
	open, _ := server.VerifParseAllowIps(nil)
	for _, k := range []string{"tcp4", "tcp6", "dual4", "unix"} {
		have[k] = open != nil && strings.HasPrefix(c35Sock(k, open), "(t ")
	}
	return have
})

// ---- generator ----

func c35V4(g *core.Gen) []byte {
	b := make([]byte, 4)
	for i := range b {
		switch g.Intn(4) {
		case 0:
			b[i] = core.Pick(g, []byte{0, 1, 127, 128, 254, 255, 10, 192, 168})
		default:
			b[i] = byte(g.Intn(256))
		}
	}
	return b
}

func c35Mapped(v4 []byte) []byte {
	return append([]byte{0, 0, 0, 0, 0, 0, 0, 0, 0, 0, 0xff, 0xff}, v4...)
}

func c35V6(g *core.Gen) []byte {
	b := make([]byte, 16)
	switch g.Intn(8) {
	case 0: // ::1 and friends
		b[15] = byte(g.Intn(3))
	case 1: // link local
		b[0], b[1] = 0xfe, 0x80
		b[15] = byte(1 + g.Intn(200))
	case 2: // near the IPv4-mapped range, but not in it
		b[10] = core.Pick(g, []byte{0xff, 0xfe, 0x7f, 0})
		b[11] = core.Pick(g, []byte{0xfe, 0xc0, 0x00, 0x7f})
		g.Rand.Read(b[12:])
	case 3: // documentation prefix
		b[0], b[1], b[2], b[3] = 0x20, 0x01, 0x0d, 0xb8
		g.Rand.Read(b[8+g.Intn(8):])
	case 4: // zero runs in the middle
		g.Rand.Read(b)
		lo := g.Intn(14)
		hi := lo + 2 + g.Intn(14-lo)
		for i := lo; i < hi && i < 16; i++ {
			b[i] = 0
		}
	default:
		g.Rand.Read(b)
	}
	if b[10] == 0xff && b[11] == 0xff {
		zero := true
		for _, x := range b[:10] {
			zero = zero && x == 0
		}
		if zero {
			b[0] = 0x20
		}
	}
	return b
}

// text of an address in one of several spellings
func c35Text(g *core.Gen, a []byte) string {
	if len(a) == 4 {
		return net.IP(a).String()
	}
	ip := net.IP(a)
	full := func(upper bool, pad bool) string {
		var parts []string
		for i := 0; i < 16; i += 2 {
			f := "%x"
			if pad {
				f = "%04x"
			}
			s := fmt.Sprintf(f, uint(a[i])<<8|uint(a[i+1]))
			if upper {
				s = strings.ToUpper(s)
			}
			parts = append(parts, s)
		}
		return strings.Join(parts, ":")
	}
	if ip.To4() != nil {
		switch g.Intn(4) {
		case 0:
			return "::ffff:" + ip.To4().String()
		case 1:
			return fmt.Sprintf("::ffff:%02x%02x:%02x%02x", a[12], a[13], a[14], a[15])
		case 2:
			return "0:0:0:0:0:ffff:" + ip.To4().String()
		default:
			return "::FFFF:" + ip.To4().String()
		}
	}
	switch g.Intn(6) {
	case 0:
		return full(false, false)
	case 1:
		return full(true, true)
	case 5: // mixed case: every hex letter upper or lower at random
		b := []byte(full(false, g.Intn(2) == 0))
		for i, c := range b {
			if c >= 'a' && c <= 'f' && g.Intn(2) == 0 {
				b[i] = c - 32
			}
		}
		return string(b)
	case 2: // trailing dotted quad
		var parts []string
		for i := 0; i < 12; i += 2 {
			parts = append(parts, fmt.Sprintf("%x", uint(a[i])<<8|uint(a[i+1])))
		}
		return strings.Join(parts, ":") + ":" + net.IP(a[12:]).String()
	default:
		return ip.String()
	}
}

func c35Space(g *core.Gen, s string) string {
	sp := []string{" ", "\t", "  ", "\n", "\r\n", "\v", "\f", "\u00a0", "\u2003", "\u3000", "\u0085", "\u1680", "\u2028", "\u202f", "\u205f"}
	switch g.Intn(6) {
	case 0:
		return core.Pick(g, sp) + s
	case 1:
		return s + core.Pick(g, sp)
	case 2:
		return core.Pick(g, sp) + s + core.Pick(g, sp) + core.Pick(g, sp)
	}
	return s
}

type c35Entry struct {
	text string
	addr []byte // 4 or 16 bytes (nil: malformed/blank)
	n    int    // prefix length, -1 = single address
	kind string
}

var c35Malformed = []string{
	"1.2.3", "1.2.3.4.5", "01.2.3.4", "1.2.3.04", "256.1.1.1", "1.2.3.-4", "1..2.3", ".1.2.3", "1.2.3.", "1.2.3.4/", "1.2.3.4/33",
	"1.2.3.4/-1", "1.2.3.4/+8", "1.2.3.4/8/9", "/24", "1.2.3.4/ 24", "1.2.3.4 /24", "1.2.3.4/24x", "1.2.3.4/0x10", "1.2.3.4/16777215",
	"1.2.3.4/99999999999999999999", "localhost", "abcdefg", "*", "%", "1.2.3.4%eth0", "fe80::1%eth0", "fe80::1%", "fe80::1%eth0/64", "::1/129", ":::", ":",
	"1::2::3", "1:2:3:4:5:6:7", "1:2:3:4:5:6:7:8:9", "1:2:3:4:5:6:7:8::", "::1:2:3:4:5:6:7:8", "12345::", "::g", "1:2:3:4:5:6:7:", ":1:2:3:4:5:6:7",
	"::ffff:1.2.3", "::ffff:1.2.3.4.5", "::ffff:01.2.3.4", "1.2.3.4::", "1:2:3:4:5:6:7:1.2.3.4", "::1.2.3.4.", "1.2.3.4,5.6.7.8", "1.2.3.4;", "１.2.3.4",
	"1.2.3.4/٣", "0x7f.0.0.1", "127.1", "2130706433", "::ffff:300.1.1.1", "[::1]", "[::1]/128", "1.2.3.4:80",
	// leading zeros in an octet (Go refuses; other parsers read octal), zones, a zone on a block, empty zone
	"010.0.0.1", "10.0.0.01", "192.168.001.1", "00.0.0.0", "0.0.0.00", "000.000.000.000", "::ffff:010.1.1.1", "010.0.0.1/8", "0377.0.0.1",
	"fe80::1%25eth0", "::1%lo", "::ffff:1.2.3.4%eth0", "fe80::%eth0/10", "fe80::1%/64", "1.2.3.4%", "%eth0", "fe80::1%eth0%eth1",
	// white space that is not white space for Go: lone bytes of a multi-byte space, zero-width space, BOM
	"\x85" + "1.2.3.4", "1.2.3.4\xa0", "\xc2" + "1.2.3.4", "1.2.3.4\xe2\x80", "\u200b1.2.3.4", "\ufeff1.2.3.4", "1.2.3.4\u180e", "1.2. 3.4", "1.2.3.4 /8",
	// five hex digits, an upper-case X prefix, a dotted quad that is not at the end, too many groups around one
	"0ABCD::", "0Xff::", "::1.2.3.4:5", "1:2:3:4:5:6:7:8:1.2.3.4", "::ffff:1.2.3.4:0", "1.2.3.4/32/", "::/", "::/-0", "::/129", "::/0128x",
}

func c35GenEntry(g *core.Gen) c35Entry {
	switch g.Intn(14) {
	case 0: // blank
		return c35Entry{text: core.Pick(g, []string{"", " ", "\t ", "\n"}), n: -1, kind: "blank"}
	case 1: // malformed
		return c35Entry{text: core.Pick(g, c35Malformed), n: -1, kind: "malformed"}
	case 2, 3:
		a := c35V4(g)
		return c35Entry{text: c35Text(g, a), addr: a, n: -1, kind: "v4-addr"}
	case 4, 5, 6:
		a := c35V4(g)
		n := g.Intn(33)
		if g.Intn(3) == 0 {
			n = core.Pick(g, []int{0, 1, 7, 8, 9, 15, 16, 17, 23, 24, 25, 31, 32})
		}
		ns := fmt.Sprint(n)
		if g.Intn(10) == 0 {
			ns = "0" + ns
		}
		return c35Entry{text: c35Text(g, a) + "/" + ns, addr: a, n: n, kind: "v4-block"}
	case 7:
		a := c35V6(g)
		return c35Entry{text: c35Text(g, a), addr: a, n: -1, kind: "v6-addr"}
	case 8, 9:
		a := c35V6(g)
		n := g.Intn(129)
		if g.Intn(3) == 0 {
			n = core.Pick(g, []int{0, 1, 7, 8, 9, 63, 64, 65, 79, 80, 81, 95, 96, 97, 119, 120, 121, 127, 128})
		}
		if g.Intn(6) == 0 { // a block that covers the IPv4-mapped range
			a = make([]byte, 16)
			n = g.Intn(81)
			if g.Intn(2) == 0 {
				a[10], a[11] = 0xff, 0xfe
				n = 80 + g.Intn(16)
			}
		}
		return c35Entry{text: c35Text(g, a) + "/" + c35Prefix(g, n), addr: a, n: n, kind: "v6-block"}
	case 10:
		a := c35Mapped(c35V4(g))
		return c35Entry{text: c35Text(g, a), addr: a, n: -1, kind: "mapped-addr"}
	default:
		a := c35Mapped(c35V4(g))
		n := 96 + g.Intn(33)
		if g.Intn(3) == 0 {
			n = g.Intn(129)
		}
		if g.Intn(4) == 0 {
			n = core.Pick(g, []int{0, 79, 80, 81, 88, 95, 96, 97, 104, 120, 127, 128})
		}
		return c35Entry{text: c35Text(g, a) + "/" + c35Prefix(g, n), addr: a, n: n, kind: "mapped-block"}
	}
}

// c35Prefix writes a prefix length, now and then with leading zeros (dtoi reads them).
func c35Prefix(g *core.Gen, n int) string {
	switch g.Intn(12) {
	case 0:
		return "0" + fmt.Sprint(n)
	case 1:
		return fmt.Sprintf("%04d", n)
	}
	return fmt.Sprint(n)
}

func c35Flip(a []byte, bit int) []byte {
	b := append([]byte{}, a...)
	if bit >= 0 && bit < 8*len(b) {
		b[bit/8] ^= 0x80 >> uint(bit%8)
	}
	return b
}

// a client chosen relative to an entry; returns the net.IP bytes and a tag
func c35Client(g *core.Gen, e c35Entry) ([]byte, string) {
	if e.addr == nil || g.Intn(8) == 0 {
		switch g.Intn(4) {
		case 0:
			return c35V4(g), "client-random-v4"
		case 1:
			return c35Mapped(c35V4(g)), "client-random-mapped"
		case 2:
			return c35V6(g), "client-random-v6"
		default:
			return nil, "client-nil"
		}
	}
	bits := 8 * len(e.addr)
	n := e.n
	if n < 0 {
		n = bits
	}
	var c []byte
	tag := ""
	switch g.Intn(6) {
	case 0:
		c, tag = append([]byte{}, e.addr...), "client-same"
	case 1:
		c, tag = c35Flip(e.addr, n-1), "client-flip-last-inside"
	case 2:
		c, tag = c35Flip(e.addr, n), "client-flip-first-outside"
	case 3:
		c, tag = c35Flip(e.addr, bits-1), "client-flip-last-bit"
	case 4:
		c, tag = c35Flip(e.addr, g.Intn(bits)), "client-flip-random-bit"
	default: // keep the prefix, randomise the rest
		c = append([]byte{}, e.addr...)
		r := make([]byte, len(c))
		g.Rand.Read(r)
		for bit := n; bit < bits; bit++ {
			c[bit/8] = c[bit/8]&^(0x80>>uint(bit%8)) | r[bit/8]&(0x80>>uint(bit%8))
		}
		tag = "client-same-prefix"
	}
	// presentation
	if len(c) == 4 {
		if g.Intn(2) == 0 {
			return c35Mapped(c), tag + "-as-mapped"
		}
		return c, tag + "-as-v4"
	}
	if net.IP(c).To4() != nil && g.Intn(2) == 0 {
		return append([]byte{}, c[12:]...), tag + "-as-v4"
	}
	if e.kind == "v6-block" && g.Intn(4) == 0 {
		// cross family: an IPv4 client whose mapped form shares the block's leading bits when the block is short
		v4 := c35V4(g)
		return v4, "client-v4-vs-v6-block"
	}
	return c, tag + "-as-v6"
}

func c35Remote(g *core.Gen, ip []byte) string {
	port := fmt.Sprint(1 + g.Intn(65535))
	if ip == nil {
		return core.Pick(g, []string{"", "@", "/tmp/mysql.sock", "pipe", "1.2.3.4", "[::1]", "::1:3306", "[1.2.3.4:80", "1.2.3.4]:80", "[[::1]]:80", "[::1]x:80", "host:80", ":80", "[]:80",
			"@gaea", "/var/run/gaea.sock:1", "/tmp/1.2.3.4:3306", "1.2.3.4:", "[::1]:", "[%eth0]:1", "%eth0:1", "[::1%]:1", "[::1]:80:90", "1.2.3.4:80:90", " 1.2.3.4:80", "1.2.3.4 :80", "[::1] :80", "010.0.0.1:80", "[::ffff:010.0.0.1]:80"})
	}
	a := &net.TCPAddr{IP: net.IP(ip), Port: 1 + g.Intn(65535)}
	if len(ip) == 16 && net.IP(ip).To4() == nil && g.Intn(4) == 0 {
		a.Zone = core.Pick(g, []string{"eth0", "lo", "1", "%", "a%b", "]", "[", "eth0:1"})
	}
	if g.Intn(40) == 0 { // a zone on an IPv4 / IPv4-mapped peer (no kernel reports one; the text form exists)
		a.Zone = "eth0"
	}
	if len(ip) == 16 && g.Intn(12) == 0 { // spellings String() never produces but SplitHostPort + ParseIP accept
		return "[" + c35Text(g, ip) + "]:" + port
	}
	if g.Intn(10) == 0 {
		if len(ip) == 4 || net.IP(ip).To4() != nil {
			return "[" + net.IP(ip).String() + "]:" + port
		}
	}
	return a.String()
}

// does an IPv4(-mapped) client lie, as ::ffff:a.b.c.d, in a block written in IPv6 form with n < 96?
func c35CrossFamily(es []c35Entry, client []byte) bool {
	c := client
	if len(c) == 4 {
		c = c35Mapped(c)
	}
	if len(c) != 16 || net.IP(c).To4() == nil {
		return false
	}
	for _, e := range es {
		if len(e.addr) != 16 || e.n < 0 || e.n >= 96 {
			continue
		}
		same := true
		for bit := 0; bit < e.n; bit++ {
			if (e.addr[bit/8]^c[bit/8])&(0x80>>uint(bit%8)) != 0 {
				same = false
				break
			}
		}
		if same {
			return true
		}
	}
	return false
}

func c35Emit(g *core.Gen, es []c35Entry, client []byte, ctag string, viaConn bool) {
	var xs []core.Sexp
	if c35CrossFamily(es, client) {
		ctag += "+cross-family"
	}
	tags := []string{ctag}
	for _, e := range es {
		xs = append(xs, core.Text(e.text))
		tags = append(tags, "entry-"+e.kind)
		if e.n >= 0 {
			switch {
			case e.n == 0:
				tags = append(tags, "prefix-0")
			case e.n == 8*len(e.addr):
				tags = append(tags, "prefix-full")
			case e.n%8 == 0:
				tags = append(tags, "prefix-byte-aligned")
			default:
				tags = append(tags, "prefix-mid-byte")
			}
		}
	}
	tags = append(tags, fmt.Sprintf("entries-%d", len(es)))
	if viaConn {
		g.Emit(core.L(core.A("conn"), core.L(xs...), core.Text(c35Remote(g, client))), append(tags, "op-conn")...)
	} else {
		g.Emit(core.L(core.A("allow"), core.L(xs...), core.Hex(client)), append(tags, "op-allow")...)
	}
}

func genC35(g *core.Gen) {
	c31QuietLog()
	n := g.Scale(8000, 60000)
	for i := 0; i < n; i++ {
		k := core.Pick(g, []int{0, 1, 1, 1, 2, 2, 3, 4})
		var es []c35Entry
		for j := 0; j < k; j++ {
			e := c35GenEntry(g)
			for (e.kind == "malformed" || e.kind == "blank") && g.Intn(3) != 0 { // keep most lists loadable
				e = c35GenEntry(g)
			}
			e.text = c35Space(g, e.text)
			es = append(es, e)
		}
		var ref c35Entry
		if len(es) > 0 {
			ref = core.Pick(g, es)
		}
		client, tag := c35Client(g, ref)
		c35Emit(g, es, client, tag, g.Intn(4) == 0)
		if g.Intn(25) == 0 {
			var xs []core.Sexp
			for _, e := range es {
				xs = append(xs, core.Text(e.text))
			}
			g.Emit(core.L(core.A("verify"), core.L(xs...)), "op-verify")
		}
	}
	// every malformed spelling alone and next to a valid entry
	for _, m := range c35Malformed {
		g.Emit(core.L(core.A("allow"), core.L(core.Text(m)), core.Hex([]byte{1, 2, 3, 4})), "entry-malformed", "op-allow")
		g.Emit(core.L(core.A("allow"), core.L(core.Text("1.2.3.4"), core.Text(m)), core.Hex([]byte{1, 2, 3, 4})), "entry-malformed", "op-allow")
		g.Emit(core.L(core.A("verify"), core.L(core.Text(m))), "entry-malformed", "op-verify")
		g.Emit(core.L(core.A("conn"), core.L(core.Text("1.2.3.4")), core.Text(m+":3306")), "remote-malformed", "op-conn")
	}
	c35GenReload(g)
	c35GenSock(g)
	c35GenHandshake(g)
	for _, t := range []string{"", "1.2.3.4", "1.2.3.4,5.6.7.8/8", " 1.2.3.4 , ::1 ", "1.2.3.4,x", "x", "010.0.0.1", ",", "1.2.3.4,,::/0", "x,y,z", "1.2.3.4/33,fe80::1%eth0"} {
		g.Emit(core.L(core.A("utilparse"), core.Text(t)), "op-utilparse")
	}
	if g.Tier != "quick" {
		// exhaustive prefix lengths for one address of each family, boundary clients in every presentation
		v4 := []byte{10, 85, 170, 255}
		v6 := []byte{0x20, 0x01, 0x0d, 0xb8, 0x55, 0xaa, 0xff, 0x00, 0x80, 0x01, 0xfe, 0x7f, 0x12, 0x34, 0x56, 0x78}
		mp := c35Mapped(v4)
		for _, base := range [][]byte{v4, v6, mp} {
			bits := 8 * len(base)
			kind := map[int]string{4: "v4-block", 16: "v6-block"}[len(base)]
			if len(base) == 16 && base[10] == 0xff && base[0] == 0 {
				kind = "mapped-block"
			}
			for n := 0; n <= bits; n++ {
				text := net.IP(base).String()
				if kind == "mapped-block" {
					text = "::ffff:" + net.IP(base[12:]).String()
				}
				e := c35Entry{text: fmt.Sprintf("%s/%d", text, n), addr: base, n: n, kind: kind}
				for _, c := range [][]byte{base, c35Flip(base, n-1), c35Flip(base, n), c35Flip(base, bits-1)} {
					c35Emit(g, []c35Entry{e}, c, "client-exhaustive", false)
					if len(c) == 4 {
						c35Emit(g, []c35Entry{e}, c35Mapped(c), "client-exhaustive", false)
					} else if net.IP(c).To4() != nil {
						c35Emit(g, []c35Entry{e}, c[12:], "client-exhaustive", false)
					}
					c35Emit(g, []c35Entry{e}, c, "client-exhaustive", true)
				}
			}
		}
	}
}

// ---- reload histories ----

func c35GenList(g *core.Gen) ([]c35Entry, []core.Sexp) {
	k := core.Pick(g, []int{0, 1, 1, 1, 2, 2, 3})
	var es []c35Entry
	var xs []core.Sexp
	for j := 0; j < k; j++ {
		e := c35GenEntry(g)
		for (e.kind == "malformed" || e.kind == "blank") && g.Intn(4) != 0 {
			e = c35GenEntry(g)
		}
		e.text = c35Space(g, e.text)
		es = append(es, e)
		xs = append(xs, core.Text(e.text))
	}
	return es, xs
}

// c35GenReload emits histories on one proxy: the start-up list, then prepares
// (of loadable lists, of lists with an entry that does not parse, of blank-only
// and empty lists), commits, deletes, and clients connecting in between —
// chosen relative to an entry of any list of the history, so that a client the
// old list admits and the new one refuses (and the reverse) occurs often.
func c35GenReload(g *core.Gen) {
	n := g.Scale(1500, 12000)
	for i := 0; i < n; i++ {
		var pool []c35Entry
		es0, xs0 := c35GenList(g)
		pool = append(pool, es0...)
		nops := 2 + g.Intn(8)
		type pend struct {
			kind string
			xs   []core.Sexp
		}
		var plan []pend
		for j := 0; j < nops; j++ {
			switch g.Intn(10) {
			case 0, 1, 2:
				es, xs := c35GenList(g)
				pool = append(pool, es...)
				plan = append(plan, pend{"prepare", xs})
				if g.Intn(3) != 0 {
					plan = append(plan, pend{"commit", nil})
				}
			case 3:
				plan = append(plan, pend{"commit", nil})
			case 4:
				if g.Intn(3) == 0 {
					plan = append(plan, pend{"delete", nil})
				} else {
					plan = append(plan, pend{"conn", nil})
				}
			default:
				plan = append(plan, pend{"conn", nil})
			}
		}
		ops := []core.Sexp{core.A("reload"), core.L(xs0...)}
		tags := []string{"op-reload"}
		for _, p := range plan {
			switch p.kind {
			case "prepare":
				ops = append(ops, core.L(core.A("prepare"), core.L(p.xs...)))
			case "conn":
				var ref c35Entry
				if len(pool) > 0 {
					ref = core.Pick(g, pool)
				}
				client, _ := c35Client(g, ref)
				ops = append(ops, core.L(core.A("conn"), core.Text(c35Remote(g, client))))
			default:
				ops = append(ops, core.L(core.A(p.kind)))
			}
		}
		g.Emit(core.L(ops...), tags...)
	}
	// the shapes the question is about, spelled out: an unparsable replacement must not open the namespace
	t := core.Text
	conn := func(r string) core.Sexp { return core.L(core.A("conn"), t(r)) }
	prep := func(es ...string) core.Sexp {
		var xs []core.Sexp
		for _, e := range es {
			xs = append(xs, t(e))
		}
		return core.L(core.A("prepare"), core.L(xs...))
	}
	commit, del := core.L(core.A("commit")), core.L(core.A("delete"))
	for _, bad := range []string{"010.0.0.1", "fe80::1%eth0", "1.2.3.4/33", "x"} {
		g.Emit(core.L(core.A("reload"), core.L(t("10.0.0.0/8")), conn("10.1.1.1:1"), conn("9.9.9.9:1"), prep(bad), commit, conn("10.1.1.1:1"), conn("9.9.9.9:1"),
			prep("10.0.0.0/8", bad), commit, conn("9.9.9.9:1"), prep(" ", bad, ""), commit, conn("9.9.9.9:1")), "op-reload", "reload-unparsable")
		g.Emit(core.L(core.A("reload"), core.L(t(bad)), conn("10.1.1.1:1"), commit, prep("10.0.0.0/8"), conn("10.1.1.1:1"), commit, conn("10.1.1.1:1"), conn("9.9.9.9:1")), "op-reload", "reload-unparsable-start")
	}
	g.Emit(core.L(core.A("reload"), core.L(t("10.0.0.0/8")), prep(), commit, conn("9.9.9.9:1"), prep(" ", ""), commit, conn("[2001:db8::1]:1"), prep("::/0"), commit, conn("9.9.9.9:1"), conn("@"),
		del, conn("9.9.9.9:1"), commit, prep("9.9.9.9"), conn("9.9.9.9:1"), commit, conn("9.9.9.9:1")), "op-reload", "reload-empty-list")
}

func c35GenSock(g *core.Gen) {
	have := c35HaveSock()
	lists := [][]string{{}, {"127.0.0.1"}, {"::1"}, {"::/0"}, {"0.0.0.0/0"}, {"::ffff:127.0.0.1"}, {"::ffff:0:0/96"}, {"127.0.0.0/8"}, {"10.0.0.0/8"}, {"::/127"},
		{"::ffff:127.0.0.0/104"}, {"::ffff:0:0/95"}, {"8000::/1"}, {" ", ""}, {"10.0.0.0/8", "::1/128", "127.0.0.1/32"}, {"0:0:0:0:0:0:0:1"}, {"::FFFF:7F00:1"}}
	for _, k := range []string{"tcp4", "tcp6", "dual4", "unix"} {
		if !have[k] {
			continue // reported by the whole-run check (c35Concurrent notes the kinds this machine offers)
		}
		for _, l := range lists {
			var xs []core.Sexp
			for _, e := range l {
				xs = append(xs, core.Text(e))
			}
			g.Emit(core.L(core.A("sock"), core.A(k), core.L(xs...)), "op-sock", "sock-"+k)
		}
	}
}

func c35GenHandshake(g *core.Gen) {
	have := c35HaveSock()
	lists := [][]string{{}, {"127.0.0.1"}, {"::1"}, {"::/0"}, {"0.0.0.0/0"}, {"::ffff:127.0.0.1"}, {"10.0.0.0/8"}, {"::ffff:0:0/95"}, {"10.0.0.0/8", "::1/128", "127.0.0.1/32"}, {" ", ""}}
	for _, k := range []string{"tcp4", "tcp6", "dual4", "unix"} {
		if !have[k] {
			continue
		}
		for _, l := range lists {
			var xs []core.Sexp
			for _, e := range l {
				xs = append(xs, core.Text(e))
			}
			g.Emit(core.L(core.A("hs"), core.A(k), core.L(xs...)), "op-hs", "hs-"+k)
		}
	}
}

// ---- whole-run check: clients connecting while the list is reloaded ----

// c35Concurrent lets clients connect (Session.IsAllowConnect on the real
// Manager) while another goroutine reloads the namespace back and forth
// between two loadable lists A and B, with a prepare of an unparsable list in
// between. Every decision must be the one of list A or the one of list B for
// that client (the model's answers): never a panic, never the answer of an
// empty or half-built list.
func c35Concurrent(r *core.Run) {
	type client struct {
		remote string
		seen   [2]int // refused, admitted
	}
	type trial struct {
		a, b    []string
		clients []*client
		first   int
	}
	trials := 18
	rounds := 80
	if r.Tier != "quick" {
		trials, rounds = 120, 300
	}
	pairs := [][2][]string{
		{{"10.0.0.0/8"}, {"10.1.0.0/16", "2001:db8::/32"}},
		{{"::/0"}, {"0.0.0.0/0"}},
		{{"::ffff:10.0.0.0/104"}, {"::ffff:0:0/95"}},
		{{"192.168.1.7", "fe80::/10"}, {"192.168.0.0/16", "fe80::1"}},
		{{"1.2.3.4"}, {" ", "1.2.3.5", ""}},
		{{"2001:db8::/33"}, {"2001:db8:8000::/33", "10.1.2.3/32"}},
	}
	remotes := []string{"10.1.2.3:4000", "10.2.2.3:4000", "11.0.0.1:1", "[2001:db8::1]:3306", "[2001:db8:8000::1]:3306", "[fe80::1%eth0]:5", "192.168.1.7:9", "192.168.9.9:9",
		"1.2.3.4:1", "1.2.3.5:1", "@", "[::ffff:10.1.2.3]:7", "[::1]:1"}
	r.Note("real connections this machine offers for `sock`: %v", c35HaveSock())
	var ts []*trial
	var lines []string
	line := func(l []string, remote string) string {
		var xs []core.Sexp
		for _, e := range l {
			xs = append(xs, core.Text(e))
		}
		return "C35 m " + core.L(core.A("conn"), core.L(xs...), core.Text(remote)).String()
	}
	for t := 0; t < trials; t++ {
		p := pairs[t%len(pairs)]
		tr := &trial{a: p[0], b: p[1]}
		if r.Rand.Intn(2) == 0 {
			tr.a, tr.b = tr.b, tr.a
		}
		for _, rm := range remotes {
			tr.clients = append(tr.clients, &client{remote: rm})
		}
		m, err := c35Manager(tr.a)
		if err != nil {
			r.Note("concurrent check: cannot create manager: %v", err)
			return
		}
		stop := make(chan struct{})
		var wg sync.WaitGroup
		panicked := make(chan string, 8)
		for w := 0; w < 3; w++ {
			wg.Add(1)
			go func(w int) {
				defer wg.Done()
				defer func() {
					if e := recover(); e != nil {
						select {
						case panicked <- fmt.Sprint(e):
						default:
						}
					}
				}()
				seen := make([][2]int, len(tr.clients))
				for i := w; ; i++ {
					select {
					case <-stop:
						mu35.Lock()
						for k := range seen {
							tr.clients[k].seen[0] += seen[k][0]
							tr.clients[k].seen[1] += seen[k][1]
						}
						mu35.Unlock()
						return
					default:
					}
					k := i % len(tr.clients)
					if server.VerifC35Connect(m, c35NS, c35Addr(tr.clients[k].remote)) {
						seen[k][1]++
					} else {
						seen[k][0]++
					}
				}
			}(w)
		}
		for i := 0; i < rounds; i++ {
			next := tr.b
			if i%2 == 1 {
				next = tr.a
			}
			m.ReloadNamespacePrepare(c35Config([]string{"010.0.0.1"})) // refused; must change nothing
			if err := m.ReloadNamespacePrepare(c35Config(next)); err == nil {
				m.ReloadNamespaceCommit(c35NS)
			}
		}
		close(stop)
		wg.Wait()
		m.VerifC31Close()
		select {
		case e := <-panicked:
			r.AddViolation(core.Finding{Kind: "failing-input", Class: "allow-check-panic",
				Input: "(race " + fmt.Sprint(tr.a) + " " + fmt.Sprint(tr.b) + ")", Impl: "panic: " + e,
				Detail: "Session.IsAllowConnect panicked while the namespace was being reloaded"})
		default:
		}
		tr.first = len(lines)
		for _, c := range tr.clients {
			lines = append(lines, line(tr.a, c.remote), line(tr.b, c.remote))
		}
		ts = append(ts, tr)
	}
	ans, err := core.DriverBatch(r.Driver, lines)
	if err != nil {
		r.Note("concurrent check: driver: %v", err)
		return
	}
	dec := func(s string) string {
		if i := strings.Index(s, " | "); i >= 0 {
			s = s[:i]
		}
		return s
	}
	bad, total := 0, 0
	for _, tr := range ts {
		for k, c := range tr.clients {
			da, db := dec(ans[tr.first+2*k]), dec(ans[tr.first+2*k+1])
			total += c.seen[0] + c.seen[1]
			wrong := ""
			if c.seen[1] > 0 && da != "t" && db != "t" {
				wrong = "t"
			}
			if c.seen[0] > 0 && da != "f" && db != "f" {
				wrong = "f"
			}
			if wrong != "" {
				bad++
				if bad <= 3 {
					cls := "listed-client-rejected"
					if wrong == "t" {
						cls = "unlisted-client-allowed"
					}
					r.AddViolation(core.Finding{Kind: "failing-input", Class: cls,
						Input:  fmt.Sprintf("(race %q %q %q)", tr.a, tr.b, c.remote),
						Impl:   fmt.Sprintf("(refused %d admitted %d)", c.seen[0], c.seen[1]),
						Detail: fmt.Sprintf("clients connecting while the allow-list is reloaded between the two lists: the model decides %s under the first list and %s under the second, the proxy answered %s (schedule-dependent: re-run the check to look for it again)", da, db, wrong)})
				}
			}
		}
	}
	r.Res.Distribution["concurrent-connects"] += total
	r.Note("clients connecting during reloads: %d trials, %d decisions, %d of neither list", len(ts), total, bad)
}

var mu35 sync.Mutex

// ---- a whole handshake over a real connection ----

// c35Listen opens a real listener of the kind; dial is where a client reaches it.
func c35Listen(kind string) (ln net.Listener, dialNet, dial string, cleanup func(), err error) {
	cleanup = func() {}
	network, addr := "", ""
	switch kind {
	case "tcp4":
		network, addr = "tcp4", "127.0.0.1:0"
	case "tcp6":
		network, addr = "tcp6", "[::1]:0"
	case "dual4":
		network, addr = "tcp", "[::]:0"
	case "unix":
		dir, e := os.MkdirTemp("", "gvc35")
		if e != nil {
			return nil, "", "", cleanup, e
		}
		cleanup = func() { os.RemoveAll(dir) }
		network, addr = "unix", filepath.Join(dir, "s")
	default:
		return nil, "", "", cleanup, fmt.Errorf("kind %q", kind)
	}
	ln, err = net.Listen(network, addr)
	if err != nil {
		return nil, "", "", cleanup, err
	}
	dial, dialNet = ln.Addr().String(), network
	if kind == "dual4" {
		_, port, _ := net.SplitHostPort(dial)
		dial, dialNet = "127.0.0.1:"+port, "tcp4"
	}
	return ln, dialNet, dial, cleanup, nil
}

func c35ReadPacket(c net.Conn) ([]byte, error) {
	var hdr [4]byte
	if _, err := io.ReadFull(c, hdr[:]); err != nil {
		return nil, err
	}
	n := int(hdr[0]) | int(hdr[1])<<8 | int(hdr[2])<<16
	b := make([]byte, n)
	_, err := io.ReadFull(c, b)
	return b, err
}

// c35Handshake starts the proxy's own connection handler (Server.onConn) on a
// real listener of the kind for a namespace with the given allowed_ip, logs in
// as that namespace's user with the right password from a real client socket,
// and reports what the client is told: (ok TEXT) — the OK packet — or
// (denied TEXT) — error 1045 "ip not allowed to connect"; TEXT is the remote
// address the server saw (port replaced by 1).
func c35Handshake(kind string, allowed []string) string {
	m, err := c35Manager(allowed)
	if err != nil {
		return "(err manager)"
	}
	defer m.VerifC31Close()
	if m.GetNamespace(c35NS) == nil {
		return "(err parse)"
	}
	ln, dialNet, dial, cleanup, err := c35Listen(kind)
	defer cleanup()
	if err != nil {
		return "(err sock)"
	}
	defer ln.Close()
	srv, err := server.VerifC35Server(m, ln)
	if err != nil {
		return "(err server)"
	}
	defer srv.VerifC35Stop()
	seen := make(chan string, 1)
	crashed := make(chan string, 1)
	go func() {
		c, err := ln.Accept()
		if err != nil {
			seen <- ""
			return
		}
		seen <- c.RemoteAddr().String()
		// the accept loop runs `go s.onConn(conn)` with nothing above it: a panic that escapes
		// onConn ends the whole proxy. Here it is caught and reported as the outcome `crash`.
		defer func() {
			if e := recover(); e != nil {
				crashed <- fmt.Sprint(e)
				c.Close()
			}
		}()
		srv.VerifC35OnConn(c)
	}()
	c, err := net.DialTimeout(dialNet, dial, 5*time.Second)
	if err != nil {
		return "(err sock)"
	}
	defer c.Close()
	c.SetDeadline(time.Now().Add(10 * time.Second))
	text := c35Port.ReplaceAllString(<-seen, ":1")
	// initial handshake packet (protocol 10): version\0 connid(4) salt1(8) 0 caps(2) charset status(2) caps(2) authlen 0*10 salt2…
	p, err := c35ReadPacket(c)
	if err != nil || len(p) < 1 || p[0] != 10 {
		select {
		case <-crashed:
			return "(crash " + core.Text(text).String() + ")"
		case <-time.After(200 * time.Millisecond):
		}
		return "(err greeting)"
	}
	i := 1 + bytes.IndexByte(p[1:], 0) + 1
	if i+4+8+1+2+1+2+2+1+10+12 > len(p) {
		return "(err greeting)"
	}
	salt := append([]byte{}, p[i+4:i+12]...)
	j := i + 4 + 8 + 1 + 2 + 1 + 2 + 2 + 1 + 10
	salt = append(salt, p[j:j+12]...)
	// handshake response 41 without CLIENT_PLUGIN_AUTH: caps(4) maxpacket(4) charset 0*23 user\0 authlen auth
	const caps = 0x00000001 | 0x00000200 | 0x00008000 // LONG_PASSWORD | PROTOCOL_41 | SECURE_CONNECTION
	var r []byte
	r = binary.LittleEndian.AppendUint32(r, caps)
	r = binary.LittleEndian.AppendUint32(r, 1<<24-1)
	r = append(r, 45) // utf8mb4_general_ci
	r = append(r, make([]byte, 23)...)
	r = append(r, "u0\x00"...)
	auth := c30Native(salt, "p0")
	r = append(r, byte(len(auth)))
	r = append(r, auth...)
	pkt := append([]byte{byte(len(r)), byte(len(r) >> 8), byte(len(r) >> 16), 1}, r...)
	if _, err := c.Write(pkt); err != nil {
		return "(err write)"
	}
	p, err = c35ReadPacket(c)
	if err != nil || len(p) < 1 {
		return "(err reply " + core.Text(text).String() + ")"
	}
	switch {
	case p[0] == 0x00:
		return "(ok " + core.Text(text).String() + ")"
	case p[0] == 0xff && len(p) >= 3 && int(p[1])|int(p[2])<<8 == 1045 && bytes.Contains(p, []byte("ip not allowed to connect")):
		return "(denied " + core.Text(text).String() + ")"
	case p[0] == 0xff && len(p) >= 3:
		return fmt.Sprintf("(err code %d)", int(p[1])|int(p[2])<<8)
	}
	return fmt.Sprintf("(err reply-byte %d)", p[0])
}
