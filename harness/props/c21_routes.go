package props

import (
	"strings"

	"gaeaverif/harness/core"
)

// C21, routes that lead to another statement: CALL, PREPARE / EXECUTE /
// DEALLOCATE sent as queries, WITH, and prepared statements of the binary
// protocol with bound parameters.

var c21CallForms = []string{"call p()", "call db1.p(1, 'x')", "call`p`()", "call/**/p()", "call\tp(@a)", "call p", "call(p)", "callp()", "call_p()", "call p(); "}

var c21PrepareForms = []string{"prepare s from 'delete from t'", "prepare s from \"insert into t values (1)\"", "prepare s from @q", "prepare s from 'select 1'",
	"prepare s from '/* c */ drop table t'", "prepare s from 'with x as (select 1) delete from t'", "prepare`s`from'delete from t'", "prepare s from 'prepare s2 from ''delete from t'''",
	"prepare s from 'select ''delete'''", "prepare s from '\\' update t set a=1'", "prepare s from ' \\nREPLACE into t values (1)'", "prepare s from'update t set a=1'", "prepare/**/s/**/from/**/'truncate t'",
	"prepare s from 'call p()'", "prepare s from 'execute s2'", "prepare s from @@q", "prepare s from", "prepare s", "prepare s from 'delete from t", "prepare s from delete from t", "prepares from 'delete from t'", "prepare s from 'select 1'; "}

var c21ExecuteForms = []string{"execute s", "execute s using @a", "execute s using @a, @b", "execute immediate 'delete from t'", "execute`s`", "execute/**/s", "execute", "executes", "execute s; "}

var c21DeallocForms = []string{"deallocate prepare s", "drop prepare s", "deallocate/**/prepare s", "deallocate prepare`s`", "deallocate"}

var c21CteNames = []string{"x", "y1", "`x`", "`a b`", "`as`", "as", "`delete`", "é", "_x", "\"q\"", "x$"}

var c21CteBodies = []string{"select 1", "select * from t", "select ')'", "select \"(\" from t", "select `)` from `(`", "select (1+(2*3))", "select 1 /* ) */", "select 1 -- )\n", "select 1 # (\n",
	"select 'it''s'", "select 'a\\'b'", "select 'a\\\\'", "select \"\\\"\"", "select 1 /*!50000 + 1 */", "select 1 /*M!100100 + 1 */", "select '", "select /* ", "(select 1) union (select 2)", "", "select ?", "select '--', '#', '/*'",
	"select 2*/* c */3", "select a-- b\n from t", "select a--b from t", "delete from t returning id", "values row(1)", "select 1 where a in (select ')' from (select 2) z)"}

var c21WithMains = []string{"select * from x", "SELECT 1", "(select * from x)", "( (select 1))", "delete from t", "DELETE t from t join x", "update t set a=1", "update`t`set a=1", "insert into t select * from x", "replace into t select 1",
	"table x", "values row(1)", "", "drop table t", "as", "as delete", "As(select 1)delete from t", "delete", "/* c */ delete from t", "-- c\ndelete from t", "# c\nupdate t set a = 1", "/*!50000 delete */ from t", "/*!99999 select 1 */ delete from t",
	"*/ delete from t", ", delete from t", "'x' delete from t", "1 delete from t", ") delete from t", "select ?", "delete from t where a = ?", "call p()", "with y as (select 2) delete from t", "select 1; delete from t"}

func c21Cte(g *core.Gen) string {
	var b strings.Builder
	b.WriteString(core.Pick(g, c21CteNames))
	b.WriteString(core.Pick(g, []string{" ", "", "/**/", "\n"}))
	if g.Intn(4) == 0 {
		b.WriteString(core.Pick(g, []string{"(a)", "(a, b)", "(`a`,`)`)", "( a )", "()"}))
		b.WriteString(core.Pick(g, []string{" ", "", "/* c */"}))
	}
	b.WriteString(c21Case(g, "as"))
	b.WriteString(core.Pick(g, []string{" ", "", "/**/", " -- c\n"}))
	b.WriteString("(" + core.Pick(g, c21CteBodies) + ")")
	return b.String()
}

func c21With(g *core.Gen, main string) string {
	var b strings.Builder
	b.WriteString(c21Case(g, "with"))
	b.WriteString(core.Pick(g, []string{" ", "\n", "/**/", " /* c */ ", "`", " "}))
	if g.Intn(4) == 0 {
		b.WriteString(c21Case(g, "recursive") + " ")
	}
	n := 1 + g.Intn(3)
	for i := 0; i < n; i++ {
		if i > 0 {
			b.WriteString(core.Pick(g, []string{", ", ",", " , ", ",/* c */", ",\n"}))
		}
		b.WriteString(c21Cte(g))
	}
	b.WriteString(core.Pick(g, []string{" ", "", "\n", " /* c */ ", "/**/", " -- c\n", " # c\n", "  "}))
	b.WriteString(main)
	return b.String()
}

// c21UpperKw puts the leading keyword of a route form into a random letter case.
func c21UpperKw(g *core.Gen, s string) string {
	i := 0
	for i < len(s) && (s[i] >= 'a' && s[i] <= 'z') {
		i++
	}
	if i == 0 {
		return s
	}
	return c21Case(g, s[:i]) + s[i:]
}

var c21BoundTemplates = []string{"delete from t where id = ?", "select ?", "select * from t where a = ? and b = ?", "update t set a = ? where b = ?", "insert into t values (?, ?)", "call p(?)", "? delete from t", "?",
	"with x as (select ?) delete from t where a = ?", "with x as (select ?) select * from x where a = ?", "with x as (select 1) select ?", "/* ? */ replace into t values (?)", "/*!40101 delete from t where a = ? */",
	"select '?', ?", "prepare s from ?", "execute s using ?", "drop table t /* ? */", "select ? ; delete from t where a = ?", "delete from t where id = ?;", "select ? -- x", "with x as (select 1), y(a) as (select ?) update t set a = ?"}

var c21BoundArgs = []core.Sexp{core.A("null"), core.L(core.A("i"), core.I(1)), core.L(core.A("i"), core.I(-42)), core.L(core.A("s"), core.Text("x")), core.L(core.A("s"), core.Text("it's")),
	core.L(core.A("s"), core.Text("a\\")), core.L(core.A("s"), core.Text("') delete from t -- ")), core.L(core.A("s"), core.Text("\\') delete from t -- ")), core.L(core.A("s"), core.Text("")),
	core.L(core.A("s"), core.Text("delete from t")), core.L(core.A("s"), core.Text(")")), core.L(core.A("s"), core.Text("/*")), core.L(core.A("s"), core.Text("é\x00\n"))}

func genC21Routes(g *core.Gen, emit func(tag string, xs ...core.Sexp), all func(s, tag string, sess bool)) {
	ro := func() core.Sexp { return core.A(core.Pick(g, []string{"ro", "rosplit"})) }
	multi := func(s, tag string) {
		// the statement as a piece of a multi-statement text, between reads
		pre := core.Pick(g, []string{"", "select 1; ", "select 1;select 2 ;", "/* c */ select 1;"})
		post := core.Pick(g, []string{"", "; select 3", ";", "; select 'FAILME'"})
		u := core.A(core.Pick(g, []string{"ro", "rosplit", "ro", "rw"}))
		emit(tag, core.A("sess"), core.A(core.Pick(g, []string{"multi", "stmtmulti"})), u, core.Text(pre+s+post))
	}
	route := func(forms []string, tag string) {
		for _, f := range forms {
			all(f, tag, true)
			all(strings.ToUpper(f[:1])+f[1:], tag, false)
			for _, t := range c21Trivia {
				all(t+c21UpperKw(g, f), tag+"-trivia", g.Intn(4) == 0)
			}
			for _, t := range c21OddTrivia {
				if g.Intn(3) == 0 {
					all(t+c21UpperKw(g, f), tag+"-oddtrivia", false)
				}
			}
			multi(f, tag+"-multi")
			multi(core.Pick(g, c21Trivia[:15])+c21UpperKw(g, f), tag+"-multi")
		}
	}
	route(c21CallForms, "call")
	route(c21PrepareForms, "prepare")
	route(c21ExecuteForms, "execute")
	route(c21DeallocForms, "deallocate")

	// WITH: every main statement behind a simple list, then random lists
	withCase := func(s, tag string, sess bool) {
		all(s, tag, sess)
		if i := strings.IndexAny(s, "wW"); i >= 0 && g.Intn(2) == 0 {
			emit(tag, core.A("withmain"), core.Text(s[i:]))
		}
	}
	for _, m := range c21WithMains {
		withCase("with x as (select 1) "+m, "with-main", true)
		withCase("WITH RECURSIVE x (n) AS (select 1 union all select n+1 from x where n < 3), `y` as (select ')' from x)"+m, "with-main", true)
		multi("with x as (select 1) "+m, "with-multi")
	}
	for _, body := range c21CteBodies {
		for _, m := range []string{"select * from x", "delete from t", "(select 1)"} {
			withCase("with x as ("+body+") "+m, "with-body", true)
		}
	}
	for _, s := range []string{"with", "WITH ", "with x", "with x as", "with x as (", "with x as ()", "with x as (select 1)", "with x as (select 1))", "with x as (select 1)) delete from t", "with x as ((select 1) delete from t",
		"with (select 1) delete from t", "with delete from t", "with x as (select 1), delete from t", "with x as (select 1) as (select 2) delete from t", "with x as (select 1) , y as (select 2) , z as (select 3) update t set a = 1",
		"(with x as (select 1) select * from x)", "(with x as (select 1) delete from t)", "with x as (select 1) select * from x union select 2", "with x as (select 1) select * from x for update",
		"with x as (select '\\') delete from t -- ') select 1", "with x as (select \"\\\") delete from t -- \") select 1", "with x as (select 1 /*!99999 ) select 2 -- */ ) delete from t",
		"with x as (select 2*/* ' */ 3) delete from t -- ') select 1", "with x as (select 1 /*M!100100 ) select 2 -- */ ) delete from t", "with x as (select 1) /*!50000 delete */ from t",
		"/*!40101 with x as (select 1) delete from t */", "/*!40101 with */ x as (select 1) delete from t", "with x as (select 1)delete from t", "with x as (select 1)select 2", "with x as(select 1)Update t set a=1",
		"wİth x as (select 1) delete from t", "with x as (select 1) İnsert into t values (1)", "with\x00x as (select 1) delete from t", "with x as (select 1)\x00delete from t", "with x as (select 1) \xa0delete from t",
		"withx as (select 1) delete from t", "with_x as (select 1) delete from t", "with x as (select 1) select 1 into outfile 'f'", "with x as (select 1) load data infile 'f' into table t",
		"with x as (select 1) call p()", "with x as (select 1) execute s", "with x as (select 1) prepare s from 'delete from t'", "with x as (select 1) with y as (select 2) delete from t",
		"with x as (select 1) -- c", "with x as (select 1) # c", "with x as (select 1) /* c", "with x as (select 1) --c\ndelete from t", "with x as (select 1) -\ndelete from t", "with x as (select 1) /delete from t"} {
		withCase(s, "with-fixed", true)
		if !strings.HasPrefix(s, "/*!") {
			multi(s, "with-multi")
		}
	}
	n := g.Scale(500, 9000)
	for i := 0; i < n; i++ {
		s := c21With(g, core.Pick(g, c21WithMains))
		lead, plain := "", ""
		for k := g.Intn(3); k > 0; k-- {
			if g.Intn(6) == 0 {
				lead += core.Pick(g, c21OddTrivia)
			} else {
				lead += core.Pick(g, c21Trivia)
			}
			plain += core.Pick(g, c21Trivia[:15])
		}
		withCase(lead+s, "with-random", g.Intn(4) == 0)
		if g.Intn(5) == 0 {
			// (a statement the proxy forwards as it is: no /*! */ wrapper)
			multi(plain+s, "with-multi")
		}
	}
	// soups over the alphabet of withMainStatement
	alpha := []string{"with", " ", "(", ")", ",", "as", "AS", "x", "'", "\"", "`", "\\", "/*", "*/", "/*!", "/*M!", "--", "-- ", "#", "\n", "delete", "select", "1", "é", "-", "/", "*", "!", "\x7f", "\x00"}
	for i := 0; i < g.Scale(600, 12000); i++ {
		var b strings.Builder
		b.WriteString(core.Pick(g, []string{"with ", "with x as (", "with x as (select 1) ", "WITH x AS(select 1),y as (", ""}))
		for k := g.Intn(10); k > 0; k-- {
			b.WriteString(core.Pick(g, alpha))
		}
		emit("with-soup", core.A("withmain"), core.Text(b.String()))
		if g.Intn(3) == 0 {
			all(b.String(), "with-soup", g.Intn(6) == 0)
		}
	}
	// prepared statements of the binary protocol with bound parameters
	for _, tpl := range c21BoundTemplates {
		for k := 0; k < g.Scale(4, 40); k++ {
			var args []core.Sexp
			for j := g.Intn(3); j >= 0; j-- {
				args = append(args, core.Pick(g, c21BoundArgs))
			}
			t := tpl
			if g.Intn(3) == 0 {
				t = core.Pick(g, c21Trivia) + c21UpperKw(g, tpl)
			}
			u := ro()
			if g.Intn(6) == 0 {
				u = core.A("rw")
			}
			emit("bound", core.A("sess"), core.A("stmtp"), u, core.Text(t), core.L(args...))
		}
	}
	for i := 0; i < g.Scale(60, 1500); i++ {
		kw := core.Pick(g, c21Writes)
		t := c21Text(g, kw, g.Intn(5) == 0) + core.Pick(g, []string{" where a = ?", " ?", "?", " values (?)", " /* ? */ ?"})
		emit("bound-random", core.A("sess"), core.A("stmtp"), ro(), core.Text(t), core.L(core.Pick(g, c21BoundArgs), core.Pick(g, c21BoundArgs)))
	}
}
