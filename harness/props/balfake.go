package props

import (
	"context"
	"errors"
	"fmt"
	"sync"
	"time"

	"github.com/XiaoMi/Gaea/backend"
	"github.com/XiaoMi/Gaea/log"
	"github.com/XiaoMi/Gaea/mysql"
	"github.com/XiaoMi/Gaea/util"
)

// Fake connection pools for the replica-selection properties (C25, C26): a
// pool whose Get answers a scripted error kind and hands out a connection
// that remembers which node it came from.

// balErr builds an error of one of the kinds the breaker distinguishes.
func balErr(kind string) error {
	switch kind {
	case "nil", "ok":
		return nil
	case "conn":
		return mysql.NewConnTypeError("127.0.0.1:3306", "dial failed")
	case "timeout": // the pool's own timeout error is a ConnTypeError value
		return util.ErrTimeout
	case "connptr":
		e := mysql.NewConnTypeError("127.0.0.1:3306", "dial failed")
		return &e
	case "wrapped":
		return fmt.Errorf("get conn: %w", mysql.NewConnTypeError("127.0.0.1:3306", "dial failed"))
	case "other":
		return errors.New("some other failure")
	case "poolclosed":
		return backend.ErrConnectionPoolClosed
	case "sqlerr":
		return mysql.NewError(1045, "access denied")
	}
	panic("balErr: unknown kind " + kind)
}

type balFakePool struct {
	backend.ConnectionPool // nil: any method not overridden below panics
	node                   int
	dc                     string
	answer                 string // error kind answered by Get
	gets                   int
	lastGet                *int // if set, receives the node number on every Get
}

func (p *balFakePool) Addr() string       { return fmt.Sprintf("n%d:3306", p.node) }
func (p *balFakePool) Datacenter() string { return p.dc }
func (p *balFakePool) Close()             {}
func (p *balFakePool) Get(ctx context.Context) (backend.PooledConnect, error) {
	p.gets++
	if p.lastGet != nil {
		*p.lastGet = p.node
	}
	if err := balErr(p.answer); err != nil {
		return nil, err
	}
	return &balFakeConn{node: p.node}, nil
}
func (p *balFakePool) SetLastChecked()       {}
func (p *balFakePool) GetLastChecked() int64 { return time.Now().Unix() }

type balFakeConn struct {
	backend.PooledConnect
	node int
}

func (c *balFakeConn) Recycle()        {}
func (c *balFakeConn) Close()          {}
func (c *balFakeConn) GetAddr() string { return fmt.Sprintf("n%d:3306", c.node) }

// balNullLogger silences the proxy's global logger (TryFuse and GetSlaveConn
// log every event on the console otherwise).
type balNullLogger struct{}

func (balNullLogger) SetLevel(name, level string) error                          { return nil }
func (balNullLogger) Debug(format string, a ...interface{}) error                { return nil }
func (balNullLogger) Trace(format string, a ...interface{}) error                { return nil }
func (balNullLogger) Notice(format string, a ...interface{}) error               { return nil }
func (balNullLogger) Warn(format string, a ...interface{}) error                 { return nil }
func (balNullLogger) Fatal(format string, a ...interface{}) error                { return nil }
func (balNullLogger) Debugx(logID, format string, a ...interface{}) error        { return nil }
func (balNullLogger) Tracex(logID, format string, a ...interface{}) error        { return nil }
func (balNullLogger) Noticex(logID, format string, a ...interface{}) error       { return nil }
func (balNullLogger) Warnx(logID, format string, a ...interface{}) error         { return nil }
func (balNullLogger) Fatalx(logID, format string, a ...interface{}) error        { return nil }
func (balNullLogger) Close()                                                     {}
func (balNullLogger) Dropped(i int) uint64                                       { return 0 }

var balQuietOnce sync.Once

func balQuiet() { balQuietOnce.Do(func() { log.SetGlobalLogger(balNullLogger{}) }) }
