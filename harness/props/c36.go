package props

import (
	"fmt"
	"go/ast"
	"go/parser"
	"go/token"
	"os"
	"path/filepath"
	"strconv"
	"strings"

	"gaeaverif/harness/core"

	"github.com/XiaoMi/Gaea/mysql"
	"github.com/XiaoMi/Gaea/proxy/server"
)

// C36 — the SQL blacklist ignores literals, spacing, case and comments:
// mysql.GetFingerprint / GetMd5, proxy/server parseBlackSqls / IsSQLAllowed.

func init() {
	core.Register(&core.Property{
		ID: "C36",
		Rule: "(anchor) the (query, expected fingerprint) pairs extracted from mysql/sql_fingerprint_test.go; " +
			"(mm) statements of a SELECT/INSERT/UPDATE/DELETE token grammar rendered twice: variants (literals replaced, keywords re-cased, white space re-spaced incl. \\v/\\f, " +
			"comments of the three styles spaced or glued in every gap that has a blank: between words, after literals, before/inside/after IN/VALUES lists, leading and trailing; " +
			"literal spellings: signs, doubled quotes, e+ exponents, leading dots, hex/bit strings; optional blanks added or removed = the open class optional-space) " +
			"and structural mutants (identifier, operator, keyword, added predicate, dropped WHERE, list element); statement A is the blacklist entry, A and B are checked with IsSQLAllowed; " +
			"(th) statements of the token grammar of the theorems (chunks of glued word text and literals, value lists with several rows, comments anywhere incl. inside lists, ON DUPLICATE KEY UPDATE), whose fingerprint the theorem predicts; " +
			"(bl) blacklists of several entries (blank, padded, duplicated) against variants, unrelated statements and the entries themselves; " +
			"(fp) a character/keyword soup aimed at the state machine (malformed stream). " +
			"non-trivial = GetFingerprint returned (no panic, ASCII text)",
		Generate: genC36,
		Exec:     execC36,
		Trivial: func(in core.Sexp, out string) bool {
			return out == "panic" || out == "(nonascii)"
		},
		Assumptions: []string{
			"statement texts are ASCII (bytes < 0x80); the model has no Unicode case tables, texts with other bytes are answered (nonascii) by both sides",
			"mysql.ReplaceNumbersInWords keeps its default false (translator fact c36ReplaceNumbersInWords)",
		},
	})
}

func c36ASCII(s string) bool {
	for i := 0; i < len(s); i++ {
		if s[i] >= 0x80 {
			return false
		}
	}
	return true
}

func execC36(in core.Sexp) string {
	switch in.Head() {
	case "fp", "anchor":
		q := in.Nth(1).Str()
		if !c36ASCII(q) {
			return "(nonascii)"
		}
		return "(ok " + core.Text(mysql.GetFingerprint(q)).String() + ")"
	case "th":
		q := c36ThText(in)
		if !c36ASCII(q) {
			return "(nonascii)"
		}
		return "(ok " + core.Text(mysql.GetFingerprint(q)).String() + ")"
	case "bl":
		var entries []string
		for _, e := range in.Nth(1).List {
			entries = append(entries, e.Str())
		}
		q := in.Nth(2).Str()
		if !c36ASCII(q) || !c36ASCII(strings.Join(entries, "")) {
			return "(nonascii)"
		}
		ns := server.VerifBlacklistNamespace(entries)
		return fmt.Sprintf("(ok %d %s)", ns.VerifBlacklistSize(), core.B(ns.VerifIsSQLAllowed(q)))
	case "mm":
		var a, b strings.Builder
		for _, seg := range in.Nth(1).List {
			a.WriteString(seg.Nth(1).Str())
			b.WriteString(seg.Nth(2).Str())
		}
		qa, qb := a.String(), b.String()
		if !c36ASCII(qa) || !c36ASCII(qb) {
			return "(nonascii)"
		}
		// the statement A is the blacklist entry, A itself and B are then checked
		ns := server.VerifBlacklistNamespace([]string{qa})
		fa := mysql.GetFingerprint(strings.TrimSpace(qa))
		fb := mysql.GetFingerprint(qb)
		if (mysql.GetMd5(fa) == mysql.GetMd5(fb)) != (fa == fb) {
			return "(md5-collision)"
		}
		return fmt.Sprintf("(ok %s %s %s %s)", core.Text(fa), core.Text(fb), core.B(ns.VerifIsSQLAllowed(qa)), core.B(ns.VerifIsSQLAllowed(qb)))
	}
	return "bad"
}

// c36Anchors extracts the (query, expected fingerprint) pairs of
// mysql/sql_fingerprint_test.go (all tests but the one that switches
// ReplaceNumbersInWords on).
func c36Anchors() [][2]string {
	repo := os.Getenv("VERIF_REPO")
	if repo == "" {
		repo = "/repo"
	}
	fset := token.NewFileSet()
	file, err := parser.ParseFile(fset, filepath.Join(repo, "mysql", "sql_fingerprint_test.go"), nil, 0)
	if err != nil {
		panic(fmt.Sprintf("C36: cannot parse sql_fingerprint_test.go: %v", err))
	}
	lit := func(e ast.Expr) (string, bool) {
		b, ok := e.(*ast.BasicLit)
		if !ok || b.Kind != token.STRING {
			return "", false
		}
		s, err := strconv.Unquote(b.Value)
		return s, err == nil
	}
	var out [][2]string
	for _, d := range file.Decls {
		fn, ok := d.(*ast.FuncDecl)
		if !ok || strings.Contains(fn.Name.Name, "WithNumberInDbName") {
			continue
		}
		var q string
		haveQ := false
		ast.Inspect(fn, func(n ast.Node) bool {
			switch x := n.(type) {
			case *ast.AssignStmt:
				if len(x.Lhs) == 1 && len(x.Rhs) == 1 {
					if id, ok := x.Lhs[0].(*ast.Ident); ok {
						if s, ok := lit(x.Rhs[0]); ok {
							if id.Name == "q" {
								q, haveQ = s, true
							} else if id.Name == "fp" && haveQ {
								out = append(out, [2]string{q, s})
								haveQ = false
							}
						}
					}
				}
			case *ast.CompositeLit:
				var sql, want string
				n := 0
				for _, el := range x.Elts {
					if kv, ok := el.(*ast.KeyValueExpr); ok {
						if k, ok := kv.Key.(*ast.Ident); ok {
							if s, ok := lit(kv.Value); ok {
								if k.Name == "sql" {
									sql = s
									n++
								} else if k.Name == "want" {
									want = s
									n++
								}
							}
						}
					}
				}
				if n == 2 {
					out = append(out, [2]string{sql, want})
				}
			}
			return true
		})
	}
	if len(out) < 40 {
		panic(fmt.Sprintf("C36: only %d expected fingerprints found in sql_fingerprint_test.go", len(out)))
	}
	return out
}

var c36SoupAlphabet = []string{
	" ", " ", " ", "\t", "\n", "\r", "a", "b", "x", "e", "f", "g", "z", "A", "X", "_", "0", "1", "9", "'", "\"", "\\", "`",
	"=", "<", ">", "!", "/", "*", "+", "-", ".", "(", ")", ",", ":", "#", ";", "?", "@", "%",
	"in", "IN", "values", "VALUE", "null", "NULL", "null,", "is", "not", "order", "by", "asc", "asc,", "ASC", "desc",
	"key", "update", "call", "use", "administrator", "select", "from", "where", "/*", "*/", "--", "-- ", "/*!", "on", "duplicate",
	"'a'", "\"b\"", "12", "0x1f", "1.5", "x'0f'", "(1)", "(1,2)", "()",
}

func genC36(g *core.Gen) {
	c36ResetBudget()
	for _, a := range c36Anchors() {
		g.Emit(core.L(core.A("anchor"), core.Text(a[0]), core.Text(a[1])), "anchor")
	}
	nv := g.Scale(250, 4000)
	for i := 0; i < nv; i++ {
		c36EmitVariants(g)
	}
	for i := 0; i < g.Scale(200, 3000); i++ {
		c36EmitBlacklists(g)
	}
	for i := 0; i < g.Scale(600, 10000); i++ {
		c36EmitGrammar(g)
	}
	// texts outside the model's domain (a byte ≥ 0x80): both sides must say so
	for _, q := range []string{"select 'é'", "select c from t where name = '小米'", "select \xff"} {
		g.Emit(core.L(core.A("fp"), core.Text(q)), "non-ascii")
	}
	// character/word soup: the malformed stream, aimed at the state machine itself
	n := g.Scale(3000, 40000)
	for i := 0; i < n; i++ {
		var b strings.Builder
		k := 1 + g.Intn(14)
		if g.Intn(10) == 0 {
			k = 1 + g.Intn(40)
		}
		for j := 0; j < k; j++ {
			b.WriteString(core.Pick(g, c36SoupAlphabet))
		}
		g.Emit(core.L(core.A("fp"), core.Text(b.String())), "soup")
	}
}
