package props

import (
	"encoding/binary"
	"fmt"
	"strings"

	"gaeaverif/harness/core"

	"github.com/XiaoMi/Gaea/mysql"
	"github.com/XiaoMi/Gaea/proxy/server"
)

// Shared by the prepared-statement properties C15 and C16: builders of
// COM_STMT_* payloads and the canonical form of command outcomes.

// stmtParam is one parameter of a COM_STMT_EXECUTE packet as the generator
// sees it.
type stmtParam struct {
	tp       byte   // type code
	unsigned bool   // 0x80 flag in the second type byte
	null     bool   // set in the NULL bitmap (no value bytes)
	value    []byte // value bytes as they go on the wire (may be deliberately wrong)
	tag      string
}

// stmtExecPacket builds the payload of COM_STMT_EXECUTE.
func stmtExecPacket(id uint32, flag byte, params []stmtParam, newBound byte, bitmapParams int) []byte {
	d := make([]byte, 9)
	binary.LittleEndian.PutUint32(d, id)
	d[4] = flag
	binary.LittleEndian.PutUint32(d[5:], 1)
	if bitmapParams > 0 {
		bm := make([]byte, (bitmapParams+7)>>3)
		for i, p := range params {
			if p.null && i < bitmapParams {
				bm[i>>3] |= 1 << (uint(i) % 8)
			}
		}
		d = append(d, bm...)
		d = append(d, newBound)
		if newBound == 1 {
			for _, p := range params {
				fl := byte(0)
				if p.unsigned {
					fl = 0x80
				}
				d = append(d, p.tp, fl)
			}
		}
		for _, p := range params {
			if !p.null {
				d = append(d, p.value...)
			}
		}
	}
	return d
}

func stmtLongDataPacket(id uint32, param uint16, chunk []byte) []byte {
	d := make([]byte, 6)
	binary.LittleEndian.PutUint32(d, id)
	binary.LittleEndian.PutUint16(d[4:], param)
	return append(d, chunk...)
}

func stmtIDPacket(id uint32) []byte {
	d := make([]byte, 4)
	binary.LittleEndian.PutUint32(d, id)
	return d
}

// stmtErrKind maps an error of the prepared-statement commands to the kind
// names of Model/StmtBind.lean.
func stmtErrKind(err error) string {
	if err == nil {
		return "none"
	}
	if err == mysql.ErrMalformPacket {
		return "malformed"
	}
	if se, ok := err.(*mysql.SQLError); ok {
		switch se.Code {
		case mysql.ErrUnknownStmtHandler:
			return "unknown-stmt"
		case mysql.ErrWrongArguments:
			return "wrong-arguments"
		}
		if strings.HasPrefix(se.Message, "unsupported flag") {
			return "unsupported-flag"
		}
	}
	msg := err.Error()
	switch {
	case strings.HasPrefix(msg, "ReadLenEncStringAsBytes in bindStmtArgs failed"):
		return "bad-lenenc"
	case strings.HasPrefix(msg, "Stmt Unknown FieldType"):
		return "unknown-type"
	case strings.HasPrefix(msg, "invalid date packet length"), strings.HasPrefix(msg, "invalid datetime packet length"),
		strings.HasPrefix(msg, "invalid time packet length"):
		return "bad-temporal"
	case strings.HasPrefix(msg, "Stmt invalid float parameter value"):
		return "bad-float"
	case strings.HasPrefix(msg, "invalid param long data type"):
		return "long-data-type"
	case msg == "fatal situation":
		return "unterminated"
	}
	return "other"
}

// stmtRunOp runs one command of a history on a session and returns its
// canonical outcome.
func stmtRunOp(s *server.VerifStmtSession, op core.Sexp) (out string) {
	defer func() {
		if e := recover(); e != nil {
			out = "panic"
		}
	}()
	// The payload lives in the connection's read buffer, which Session.Run recycles right
	// after the command and the next packet overwrites: whatever the command keeps must have
	// been copied. The buffer is scribbled over when the command returns, so that a retained
	// alias (e.g. parameter types kept for later executions) shows up as a wrong result.
	data := append(make([]byte, 0, len(op.Nth(1).Bytes())+8), op.Nth(1).Bytes()...)
	defer func() {
		for i := range data[:cap(data)] {
			data[:cap(data)][i] = 0xa5
		}
	}()
	switch op.Head() {
	case "prepare":
		o := s.Command(mysql.ComStmtPrepare, data)
		if o.RespType == server.RespPrepare {
			return fmt.Sprintf("(prepared %d %d)", o.StmtID, o.ParamCount)
		}
		return "(err " + stmtErrKind(o.Err) + ")"
	case "exec":
		o := s.Command(mysql.ComStmtExecute, data)
		if len(o.HandledSQL) == 1 {
			return "(exec " + core.Text(o.HandledSQL[0]).String() + ")"
		}
		if len(o.HandledSQL) > 1 {
			return "(exec-many)"
		}
		if o.RespType == server.RespError {
			return "(err " + stmtErrKind(o.Err) + ")"
		}
		return "(no-query)"
	case "long":
		o := s.Command(mysql.ComStmtSendLongData, data)
		if o.RespType == server.RespError {
			return "(err " + stmtErrKind(o.Err) + ")"
		}
		return "ok"
	case "reset":
		o := s.Command(mysql.ComStmtReset, data)
		if o.RespType == server.RespError {
			return "(err " + stmtErrKind(o.Err) + ")"
		}
		return "ok"
	case "close":
		o := s.Command(mysql.ComStmtClose, data)
		if o.RespType == server.RespError {
			return "(err " + stmtErrKind(o.Err) + ")"
		}
		return "ok"
	case "setmode":
		o := s.Command(mysql.ComQuery, data)
		if o.RespType == server.RespError {
			return "(err set-rejected)"
		}
		return "ok"
	}
	return "bad-op"
}

// stmtRunHistory: (hist op…) → (out…)
func stmtRunHistory(in core.Sexp) string {
	s, err := server.VerifNewStmtSession()
	if err != nil {
		return "(setup-failed " + core.Text(err.Error()).String() + ")"
	}
	outs := make([]string, 0, len(in.List))
	for _, op := range in.List[1:] {
		outs = append(outs, stmtRunOp(s, op))
	}
	return "(" + strings.Join(outs, " ") + ")"
}

// ---- parameter value generators ----

func stmtLenEnc(b []byte) []byte { return mysql.AppendLenEncStringBytes(nil, b) }

var stmtStringTypes = []byte{0, 0xf6, 15, 16, 0xf7, 0xf8, 0xf9, 0xfa, 0xfb, 0xfc, 0xfd, 0xfe, 0xff, 0xf5}

var stmtNastyBytes = []string{"'", "\\", "\"", "\x00", "\n", "\r", "\x1a", "?", "`", "--", "/*", "*/", "#", "\\'", "''", "\xff", "\xe4\xb8\xad", "%", "_", ";", " OR 1=1 -- "}

func stmtRandomBytes(g *core.Gen) []byte {
	var b []byte
	n := g.Intn(6)
	for i := 0; i < n; i++ {
		switch g.Intn(3) {
		case 0:
			b = append(b, core.Pick(g, stmtNastyBytes)...)
		case 1:
			b = append(b, core.Pick(g, []string{"a", "it", "s", "0", " ", "abc"})...)
		default:
			b = append(b, byte(g.Intn(256)))
		}
	}
	return b
}

// stmtGoodParam returns a well-formed parameter of a random type.
func stmtGoodParam(g *core.Gen, floats bool) stmtParam {
	k := g.Intn(14)
	if !floats && (k == 5 || k == 6) {
		k = 0
	}
	u := g.Intn(2) == 0
	ints := []uint64{0, 1, 5, 7, 9, 0x7f, 0x80, 0xff, 0x7fff, 0x8000, 0xffff, 0x7fffffff, 0x80000000, 0xffffffff,
		0x7fffffffffffffff, 0x8000000000000000, 0xffffffffffffffff, g.Rand.Uint64()}
	v := core.Pick(g, ints)
	le := func(w int) []byte {
		b := make([]byte, 8)
		binary.LittleEndian.PutUint64(b, v)
		return b[:w]
	}
	switch k {
	case 0:
		return stmtParam{tp: mysql.TypeTiny, unsigned: u, value: le(1), tag: "tiny"}
	case 1:
		return stmtParam{tp: core.Pick(g, []byte{mysql.TypeShort, mysql.TypeYear}), unsigned: u, value: le(2), tag: "short"}
	case 2:
		return stmtParam{tp: core.Pick(g, []byte{mysql.TypeLong, mysql.TypeInt24}), unsigned: u, value: le(4), tag: "long"}
	case 3:
		return stmtParam{tp: mysql.TypeLonglong, unsigned: u, value: le(8), tag: "longlong"}
	case 4:
		return stmtParam{tp: mysql.TypeNull, tag: "type-null"}
	case 5:
		bits := core.Pick(g, []uint32{0, 0x3f800000, 0xbfc00000, 0x7f800000, 0xff800000, 0x7fc00000, 0x00000001, 0x7f7fffff, 0x3dcccccd, g.Rand.Uint32()})
		b := make([]byte, 4)
		binary.LittleEndian.PutUint32(b, bits)
		return stmtParam{tp: mysql.TypeFloat, value: b, tag: "float"}
	case 6:
		bits := core.Pick(g, []uint64{0, 0x3ff0000000000000, 0xbff8000000000000, 0x7ff0000000000000, 0xfff0000000000000, 0x7ff8000000000000,
			1, 0x7fefffffffffffff, 0x3fb999999999999a, 0x4415af1d78b58c40, g.Rand.Uint64()})
		b := make([]byte, 8)
		binary.LittleEndian.PutUint64(b, bits)
		return stmtParam{tp: mysql.TypeDouble, value: b, tag: "double"}
	case 7: // date
		y := uint16(core.Pick(g, []int{0, 1, 99, 1000, 1999, 2020, 9999, g.Intn(10000)}))
		ymd := []byte{byte(y), byte(y >> 8), byte(g.Intn(13)), byte(g.Intn(32))}
		switch g.Intn(4) {
		case 0:
			return stmtParam{tp: mysql.TypeDate, value: []byte{0}, tag: "date"}
		case 1:
			return stmtParam{tp: core.Pick(g, []byte{mysql.TypeDate, mysql.TypeNewDate}), value: append([]byte{4}, ymd...), tag: "date"}
		case 2:
			return stmtParam{tp: mysql.TypeDate, value: append(append([]byte{7}, ymd...), byte(g.Intn(24)), byte(g.Intn(60)), byte(g.Intn(60))), tag: "date"}
		default:
			return stmtParam{tp: mysql.TypeDate, value: append([]byte{10}, []byte("2017-02-1'")...), tag: "date"}
		}
	case 8: // time
		us := uint32(core.Pick(g, []int{0, 5, 123, 99999, 100000, 999999, g.Intn(1000000)}))
		hms := []byte{byte(g.Intn(2)), byte(g.Intn(35)), 0, 0, 0, byte(g.Intn(24)), byte(g.Intn(60)), byte(g.Intn(60))}
		switch g.Intn(4) {
		case 0:
			return stmtParam{tp: mysql.TypeDuration, value: []byte{0}, tag: "time"}
		case 1:
			return stmtParam{tp: mysql.TypeDuration, value: append([]byte{8}, hms...), tag: "time"}
		case 2:
			return stmtParam{tp: mysql.TypeDuration, value: append(append([]byte{12}, hms...), byte(us), byte(us>>8), byte(us>>16), byte(us>>24)), tag: "time"}
		default:
			return stmtParam{tp: mysql.TypeDuration, value: []byte{1, 0}, tag: "time"}
		}
	case 9: // datetime / timestamp
		tp := core.Pick(g, []byte{mysql.TypeDatetime, mysql.TypeTimestamp})
		y := uint16(core.Pick(g, []int{0, 1, 1970, 2020, 2038, 9999, g.Intn(10000)}))
		ymd := []byte{byte(y), byte(y >> 8), byte(g.Intn(13)), byte(g.Intn(32))}
		hms := []byte{byte(g.Intn(24)), byte(g.Intn(60)), byte(g.Intn(60))}
		us := uint32(core.Pick(g, []int{0, 5, 123, 99999, 100000, 999999, g.Intn(1000000)}))
		switch g.Intn(5) {
		case 0:
			return stmtParam{tp: tp, value: []byte{0}, tag: "datetime"}
		case 1:
			return stmtParam{tp: tp, value: append([]byte{4}, ymd...), tag: "datetime"}
		case 2:
			return stmtParam{tp: tp, value: append(append([]byte{7}, ymd...), hms...), tag: "datetime"}
		case 3:
			return stmtParam{tp: tp, value: append(append(append([]byte{11}, ymd...), hms...), byte(us), byte(us>>8), byte(us>>16), byte(us>>24)), tag: "datetime"}
		default:
			return stmtParam{tp: tp, value: append([]byte{19}, []byte("2020-01-01 00:00:0\\")...), tag: "datetime"}
		}
	case 10:
		return stmtParam{tp: core.Pick(g, stmtStringTypes), value: []byte{0xfb}, tag: "string-null"}
	default:
		return stmtParam{tp: core.Pick(g, stmtStringTypes), value: stmtLenEnc(stmtRandomBytes(g)), tag: "string"}
	}
}
