package props

import (
	"fmt"
	"strings"
	"sync"

	"gaeaverif/harness/core"

	"github.com/XiaoMi/Gaea/parser"
	_ "github.com/XiaoMi/Gaea/parser/tidb-types/parser_driver"
	"github.com/XiaoMi/Gaea/proxy/server"
)

// C17 — parser.SplitStatementToPieces, the scanner it drives, and the
// multi-statement loop of SessionExecutor.doMultiStmts.

func init() {
	core.Register(&core.Property{
		ID: "C17",
		Rule: "split: texts of 1-5 statements built from lexical items (words, numbers, punctuation, '…'/\"…\" strings with \\-escapes and doubled quotes, `…` identifiers, /* */, -- and # comments, /*! */ and /*+ */) " +
			"with `;` placed inside every quoted and commented context, separators ; ;; ' ; ' ;\\n, blank and comment-only pieces, trailing separators; " +
			"a malformed stream (unterminated quotes/comments, @@;, x'…;', NUL, '[', 4-byte and invalid UTF-8, numbers with exponents before --); random soups over a special-character alphabet; " +
			"thorough: every text of length ≤ 4 over a 15-character alphabet and of length ≤ 5 over a 9-character alphabet. multi: the same statements through handleQuery→doMultiStmts on a session with a recording fake backend, with failing statements injected; " +
			"non-trivial = at least two pieces / two executed statements",
		Generate: genC17,
		Exec:     execC17,
		Trivial: func(in core.Sexp, out string) bool {
			if in.Head() == "multi" {
				return strings.Count(out, " ") < 2
			}
			i := strings.Index(out, "(toks")
			if i < 0 || !strings.HasPrefix(out, "((ok (") {
				return true
			}
			return strings.Count(out[:i], " ") < 4
		},
		Assumptions: []string{
			"default SQL mode (backslash escapes) — the mode of the scanner SplitStatementToPieces creates",
			"the regular expressions specCodePattern/specCodeStart/specCodeEnd behave as modelled in trimComment (compared on every /*! */ case)",
			"multi: the fake backend executes every statement text it is handed and fails exactly those holding the marker FAILME; the namespace has no shard rules, so each piece is forwarded unchanged",
		},
	})
}

func hexList(ps []string) string {
	xs := make([]string, len(ps))
	for i, p := range ps {
		xs[i] = core.Text(p).String()
	}
	return "(" + strings.Join(xs, " ") + ")"
}

func c17Trace(blob string) (out string) {
	defer func() {
		if e := recover(); e != nil {
			out = "panic"
		}
	}()
	toks, hasErr, trunc := parser.VerifScanTrace(blob, 3*len(blob)+8)
	if trunc {
		return "hang"
	}
	var b strings.Builder
	b.WriteString("(toks ")
	if hasErr {
		b.WriteString("t")
	} else {
		b.WriteString("f")
	}
	for _, t := range toks {
		c := "o"
		switch t.Class {
		case "semi":
			c = "s"
		case "isemi":
			c = "i"
		case "eof":
			c = "e"
		}
		fmt.Fprintf(&b, " (%s %d)", c, t.Offset)
	}
	b.WriteString(")")
	return b.String()
}

func c17Split(blob string) (out string) {
	defer func() {
		if e := recover(); e != nil {
			out = "panic"
		}
	}()
	pieces, err := parser.SplitStatementToPieces(blob)
	e := "f"
	if err != nil {
		e = "t"
	}
	return fmt.Sprintf("(ok %s %s)", hexList(pieces), e)
}

var lexQuiet sync.Once

func execC17(in core.Sexp) string {
	lexQuiet.Do(server.VerifLexSilenceGlobalLog)
	switch in.Head() {
	case "split":
		blob := in.Nth(1).Str()
		t := c17Trace(blob)
		if t == "hang" {
			// the scanner makes no progress: SplitStatementToPieces would spin forever
			return "(hang hang)"
		}
		return "(" + c17Split(blob) + " " + t + ")"
	case "multi":
		sql := in.Nth(1).Str()
		s := server.VerifLexNewSession(false, false, true)
		defer s.Close()
		err := s.HandleQuery(sql)
		var ex []string
		for _, e := range s.Events() {
			if strings.HasPrefix(e, "exec ") {
				ex = append(ex, e[5:])
			}
		}
		st := "ok"
		if err != nil {
			st = "err"
		}
		return fmt.Sprintf("(%s %s)", st, hexList(ex))
	}
	return "bad"
}

// ---- generator ----

var c17Words = []string{"select", "from", "where", "insert", "into", "values", "update", "set", "delete", "and", "or",
	"t", "a", "tbl_1", "$v", "_x", "x", "X", "b", "B", "n", "N", "e", "E", "null", "db", "SELECT", "Replace"}
var c17Nums = []string{"0", "1", "42", "007", "9", "10", "0123456789"}
var c17Syms = []string{"*", "+", "(", ")", ",", "%", "^", "~", "?", "=", "{", "}", "<", ">", "!", "|", "&", ":", "-", "/", "."}
var c17StrFrag = []string{";", "a", "b c", "\\'", "\\\"", "\\\\", "\\;", " ", "--", "-- ", "/*", "*/", "#", "é", "\n", "`", "\\n", "%", ";;", "select", "\\", "😀"}
var c17BqFrag = []string{";", "a", "``", "'", "\"", " ", "--", "/*", "#", "é", "\\", "t;1"}
var c17ComFrag = []string{";", " c ", "x;y", "'", "\"", "`", "-- ", "#", "* /", "/ *", "/*", "**", "*", " ", "\n", "é", ";;", "a'b", "/"}
var c17LineFrag = []string{";", " c", "x;y", "'", "\"", "`", "--", "#", "/*", "*/", " ", "é", ";;", "\t"}

func c17Quoted(g *core.Gen, q string) string {
	var b strings.Builder
	b.WriteString(q)
	n := g.Intn(4)
	for i := 0; i < n; i++ {
		f := core.Pick(g, c17StrFrag)
		if f == "\\" { // a lone backslash would escape what follows: keep it paired
			f = "\\\\"
		}
		if g.Intn(6) == 0 {
			f = q + q // doubled quote
		}
		f = strings.ReplaceAll(f, q, q+q)
		if strings.HasSuffix(f, "\\") && !strings.HasSuffix(f, "\\\\") {
			f += "\\"
		}
		b.WriteString(f)
	}
	b.WriteString(q)
	return b.String()
}

func c17Backquoted(g *core.Gen) string {
	var b strings.Builder
	b.WriteString("`")
	n := 1 + g.Intn(3)
	for i := 0; i < n; i++ {
		b.WriteString(core.Pick(g, c17BqFrag))
	}
	b.WriteString("`")
	return b.String()
}

func c17Block(g *core.Gen) string {
	var b strings.Builder
	n := g.Intn(4)
	for i := 0; i < n; i++ {
		b.WriteString(core.Pick(g, c17ComFrag))
	}
	body := strings.ReplaceAll(b.String(), "*/", "* /")
	if strings.HasPrefix(body, "!") || strings.HasPrefix(body, "+") {
		body = " " + body
	}
	return "/*" + body + "*/"
}

func c17Line(g *core.Gen, eof bool) string {
	var b strings.Builder
	n := g.Intn(4)
	for i := 0; i < n; i++ {
		b.WriteString(core.Pick(g, c17LineFrag))
	}
	body := b.String()
	s := "#" + body
	if g.Intn(2) == 0 {
		if body != "" && !strings.ContainsAny(body[:1], " \t") {
			body = " " + body
		}
		s = "--" + body
	}
	if eof && g.Intn(2) == 0 {
		return s
	}
	return s + "\n"
}

func c17Special(g *core.Gen, semi bool) string {
	heads := []string{"/*!", "/*!40101 ", "/*!50708", "/*! ", "/*+ ", "/*+", "/*!M100100 ", "/*!1234 ", "/*!123456789 ", "/*!\n", "/*!40101\t"}
	bodies := []string{"select 1", "SET @a=1", "x", "", " ", "MAX_EXECUTION_TIME(1)", "'a'", "a b", "`q`", "[", "/* x", "1e5"}
	body := core.Pick(g, bodies)
	if semi {
		body = core.Pick(g, []string{";", "select 1; select 2", "x    ;", " ; ", "a;b", "';'", "@@;"})
	}
	tails := []string{"*/", " */", "\t*/", "  */"}
	return core.Pick(g, heads) + body + core.Pick(g, tails)
}

func c17NeedsGap(prev, next string) bool {
	if prev == "" || next == "" {
		return false
	}
	p, n := prev[len(prev)-1], next[0]
	isW := func(c byte) bool {
		return c == '_' || c == '$' || c >= 0x80 || (c >= '0' && c <= '9') || (c >= 'a' && c <= 'z') || (c >= 'A' && c <= 'Z')
	}
	switch {
	case isW(p) && isW(n):
		return true
	case isW(p) && n == '.' && p >= '0' && p <= '9':
		return true
	case (prev == "x" || prev == "X" || prev == "b" || prev == "B") && n == '\'':
		return true
	case p == n && (p == '\'' || p == '"' || p == '`'):
		return true
	case p == '-' && (n == '-' || n == '>'), p == '/' && n == '*', p == '<' && (n == '=' || n == '<' || n == '>'),
		p == '>' && (n == '=' || n == '>'), p == '!' && n == '=', p == '|' && n == '|', p == '&' && (n == '&' || n == '^'),
		p == ':' && n == '=', p == '.' && n >= '0' && n <= '9':
		return len(prev) == 1 || true
	}
	return false
}

// c17Stmt builds one statement from lexical items; with high probability it
// holds a `;` inside a quoted or commented context.
func c17Stmt(g *core.Gen, marker bool) string {
	var atoms []string
	n := 1 + g.Intn(7)
	for i := 0; i < n; i++ {
		switch g.Intn(12) {
		case 0, 1, 2:
			atoms = append(atoms, core.Pick(g, c17Words))
		case 3:
			atoms = append(atoms, core.Pick(g, c17Nums))
		case 4, 5:
			atoms = append(atoms, core.Pick(g, c17Syms))
		case 6, 7:
			atoms = append(atoms, c17Quoted(g, core.Pick(g, []string{"'", "\""})))
		case 8:
			atoms = append(atoms, c17Backquoted(g))
		case 9:
			atoms = append(atoms, c17Block(g))
		case 10:
			atoms = append(atoms, c17Line(g, false))
		default:
			atoms = append(atoms, core.Pick(g, c17Words))
		}
	}
	if marker {
		atoms = append(atoms, "'FAILME'")
	}
	var b strings.Builder
	prev := ""
	for _, a := range atoms {
		gap := ""
		if c17NeedsGap(prev, a) || g.Intn(3) > 0 {
			gap = core.Pick(g, []string{" ", " ", "\n", "\t", "  ", " /**/ "})
		}
		b.WriteString(gap)
		b.WriteString(a)
		prev = a
	}
	return b.String()
}

var c17Seps = []string{";", ";", ";;", " ; ", ";\n", "; ", " ;", ";;;", ";\t;", "; /* ; */ ;", ";-- ;\n;", ";# ;\n"}
var c17Blanks = []string{"", " ", "\n", "/* c */", "/* ; */", "-- c\n", "# ;\n", " /**/ ", "\t\t"}

// statements the session forwards unchanged to the backend (not handled by the proxy itself)
var c17Backend = []string{"select 1", "select * from t where a = 'x;y'", "insert into t values (1, 'a''b;')",
	"update t set a = \"q;\\\"\" where id = 2", "delete from `we;ird` where x = 1", "select /* c; */ 1",
	"replace into t values (2)", "select 1 -- ;\n", "select `a``;` from t # ;\n", "SELECT 'it''s'", "/* lead; */ select 2",
	"-- lead;\n select 3", "select '\\';' , 1", "select \"a\"\"b\";"}

func c17Text(g *core.Gen, stmt func() string) string {
	var b strings.Builder
	if g.Intn(5) == 0 {
		b.WriteString(core.Pick(g, c17Blanks))
		b.WriteString(core.Pick(g, c17Seps))
	}
	k := 1 + g.Intn(5)
	for i := 0; i < k; i++ {
		if i > 0 {
			b.WriteString(core.Pick(g, c17Seps))
			if g.Intn(4) == 0 {
				b.WriteString(core.Pick(g, c17Blanks))
				b.WriteString(core.Pick(g, c17Seps))
			}
		}
		b.WriteString(stmt())
	}
	switch g.Intn(4) {
	case 0:
		b.WriteString(core.Pick(g, c17Seps))
	case 1:
		b.WriteString(core.Pick(g, c17Seps))
		b.WriteString(core.Pick(g, c17Blanks))
	}
	return b.String()
}

func genC17(g *core.Gen) {
	split := func(s string, tags ...string) {
		g.Emit(core.L(core.A("split"), core.Text(s)), append([]string{"split"}, tags...)...)
	}
	multi := func(s string, tags ...string) {
		g.Emit(core.L(core.A("multi"), core.Text(s)), append([]string{"multi"}, tags...)...)
	}
	// fixed boundary cases
	for _, s := range []string{"", ";", ";;", " ", " ;", "; ", "a", "a;", ";a", "a;b", "a;b;", "select 1;a", "select 1; a", "select 1;;select 2",
		"select ';'", "select ';';", "select ';';select \";\"", "select `;`;x", "/*;*/;x", "-- ;\n;x", "--;\n;x", "# ;\n;x", "--", "-- ", "--\n;",
		"select 1 --", "select 1 -- ;", "select 1 #", "/*", "/* ;", "select 1; /* unclosed", "x /*! ; */ y; z", "/*!40101 SET @a=1 */; select 2",
		"/*!x    ;*/;", "/*!select 1; select 2*/", "/*+ ; */ select 1; select 2", "select [1]; select 2", "select \U0001F600; select 1",
		"/*! [ */ ; x", "@@;x;y", "select @@;x", "@@\x00;x", "select x'ab;', 1; select 2", "select b'01;'; select 2", "select n'a;b'; select 2",
		"select 1e-- ;\n; select 2", "select 1.5; select .5; select 1.; select 0x1F; select 0b1; select 0x; select 1e5", "select '\\';'; x", "select 'a''; x",
		"select 'a'';'; x", "select \"a\\\";\"; x", "'unterminated ; x", "`unterminated ; x", "select '\\", "a\x00;b", "a\xff;b", "\xa0;x\x85;y",
		"a　;b", "select 1; ", "->;->>;-;--x;", "select 1--2; x", "a--b;c", "select a --b\n; x", "select 1 --\n; x", "<=>;<=;<<;<>;>=;>>;!=;||;&&;&^;:=;\\N;\\;", "@a;@'a;b';@`a;b`;@@global.x;@@session.`y;`;@@local.;@",
		"/**/;/***/;/*/*/;/*/;", "/*!*/;/*!40101*/;/*+*/;x"} {
		split(s, "fixed")
	}
	n := g.Scale(1500, 20000)
	for i := 0; i < n; i++ {
		split(c17Text(g, func() string { return c17Stmt(g, false) }), "items")
	}
	// realistic statements
	for i := 0; i < g.Scale(300, 3000); i++ {
		split(c17Text(g, func() string { return core.Pick(g, c17Backend) }), "sql")
	}
	// executable comments
	for i := 0; i < g.Scale(300, 4000); i++ {
		semi := g.Intn(3) == 0
		s := c17Text(g, func() string {
			if g.Intn(2) == 0 {
				return c17Stmt(g, false) + " " + c17Special(g, semi)
			}
			return c17Special(g, semi) + " " + c17Stmt(g, false)
		})
		tag := "special-comment"
		if semi {
			tag = "special-comment-semi"
		}
		split(s, tag)
	}
	// malformed stream
	bad := []string{"'", "\"", "`", "/*", "\\", "@@;", "@@", "@", "x'", "x'ab;", "b'2;", "[", "]", "\x00", "\x01", "\x7f", "\xff", "\xc3", "\xe2\x82", "\U0001F600",
		"0x", "0b", "1e", "1e-", ".5", "1.", "..", "--", "--x", "-->", "/*!", "/*+", "*/", " ", " ", "　", "\x85", "\xa0", "é", "中", "$", "_", "N'", "@`", "@'", "@@global.", "@@`"}
	for i := 0; i < g.Scale(800, 12000); i++ {
		s := c17Text(g, func() string {
			st := c17Stmt(g, false)
			k := 1 + g.Intn(2)
			for j := 0; j < k; j++ {
				p := g.Intn(len(st) + 1)
				st = st[:p] + core.Pick(g, bad) + st[p:]
			}
			return st
		})
		split(s, "malformed")
	}
	// soups over the special alphabet
	alpha := []string{";", "'", "\"", "`", "/", "*", "-", " ", "\n", "#", "a", "\\", "!", "@", "+", "1", ".", "x", "e", ">", "\xc3", "\xa9", "\x00"}
	for i := 0; i < g.Scale(1500, 30000); i++ {
		var b strings.Builder
		k := g.Intn(14)
		for j := 0; j < k; j++ {
			b.WriteString(core.Pick(g, alpha))
		}
		split(b.String(), "soup")
	}
	if g.Tier != "quick" {
		al := []string{";", "'", "\"", "`", "/", "*", "-", " ", "\n", "#", "a", "\\", "!", "@", "+"}
		var rec func(prefix string, depth int)
		rec = func(prefix string, depth int) {
			split(prefix, "exhaustive")
			if depth == 0 {
				return
			}
			for _, c := range al {
				rec(prefix+c, depth-1)
			}
		}
		rec("", 4)
		al = []string{";", "'", "`", "/", "*", "-", " ", "\n", "\\"}
		rec("", 5)
	}
	// multi-statement execution on a session
	for _, s := range []string{"select 1", "select 1;", "select 1;;", ";;select 1", "select 1; select 2", "select 1; /* ; */ select 'a;b' ;; insert into t values (1)",
		"select 1; select 'FAILME'; select 3", "select 'FAILME'", "select 'FAILME'; select 2", "select 1; select 2; select 'FAILME'", ";", ";;", "", " ; ",
		"select 1;a", "select ';' ; select `;`; select 3 -- ;\n; select 4"} {
		multi(s, "fixed")
	}
	for i := 0; i < g.Scale(400, 5000); i++ {
		fail := g.Intn(3) == 0
		s := c17Text(g, func() string {
			st := core.Pick(g, c17Backend)
			if fail && g.Intn(3) == 0 {
				st = "select 'FAILME', " + st[strings.Index(st, " ")+1:]
				if !strings.HasPrefix(core.Pick(g, c17Backend), "s") {
					st = "select 'FAILME'"
				}
			}
			return st
		})
		multi(s, "sql")
	}
}
