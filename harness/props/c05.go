package props

import (
	"fmt"
	"regexp"
	"strconv"
	"strings"

	"gaeaverif/harness/core"

	"github.com/XiaoMi/Gaea/mysql"
	"github.com/XiaoMi/Gaea/parser"
	"github.com/XiaoMi/Gaea/parser/ast"
	"github.com/XiaoMi/Gaea/parser/opcode"
	driver "github.com/XiaoMi/Gaea/parser/tidb-types/parser_driver"
	"github.com/XiaoMi/Gaea/proxy/plan"
	"github.com/XiaoMi/Gaea/proxy/sequence"
	"github.com/XiaoMi/Gaea/util"
)

// C05 — UPDATE/DELETE affect exactly the matching rows and never move a row.
//
//	(assign update|ondup ((QUAL NAMEHEX [VAL | sq|sv N])…))  key-assignment rejection, sub-queries in values
//	(merge ((STATUS AFFECTED INSERTID)…))                    MergeExecResult
//	(exec RULE FORM STMT META COND (rows (k o place)…))      end to end with in-memory tables
//	(route …)                                                C01's routing lines for UPDATE/DELETE

// qualifier spellings of a column; dbtable / uptable are spellings of table (db.t.col, T.col),
// upalias of alias (A.col), updb of baddb (DB.t.col: database names are case-sensitive)
var c05Quals = []string{"none", "table", "alias", "unknown", "baddb", "dbtable", "uptable", "upalias", "updb"}
var c05Names = []string{"k", "K", "o", "O", "v", "kk", "`k`", "`K`", "`o`"}

// kinds of opaque predicates whose truth value the in-memory evaluator and
// the Lean oracle both define on integer rows (k, o); indexes into c01Other
var c05OtherKinds = []int{1, 2, 3, 4, 5, 6, 7, 8, 9, 11, 12, 13, 14, 15}

var c05ExecRules = []string{"hash4", "mod3", "range4x100", "range5x7", "range3x1", "linked"}

func genC05(g *core.Gen) {
	rt, err := c01GetRouter()
	if err != nil {
		panic(err)
	}
	// 1. assignment lists
	for i := 0; i < g.Scale(600, 6000); i++ {
		kind := "update"
		if g.Intn(4) == 0 {
			kind = "ondup"
		}
		n := 1 + g.Intn(3)
		var ts []core.Sexp
		for j := 0; j < n; j++ {
			q := core.Pick(g, c05Quals)
			if kind == "ondup" && q != "none" && q != "table" {
				q = "none"
			}
			// the assigned value: a literal, VALUES(col), an expression over the key, another column.
			// The decision must not depend on it …
			t := core.L(core.A(q), core.Text(core.Pick(g, c05Names)), core.I(int64(g.Intn(len(c05Values)))))
			if kind == "update" && g.Intn(6) == 0 {
				// … unless it holds a sub-query: sq reads a table (rejected), sv does not
				vc := core.Pick(g, []string{"sq", "sq", "sv"})
				t = core.L(core.A(q), core.Text(core.Pick(g, c05Names)), core.A(vc), core.I(int64(g.Intn(len(c05SetVals[vc])))))
			}
			ts = append(ts, t)
		}
		g.Emit(core.L(core.A("assign"), core.A(kind), core.L(ts...)), "assign", "assign-"+kind)
	}
	// 2. MergeExecResult
	for i := 0; i < g.Scale(300, 3000); i++ {
		n := g.Intn(6)
		var rs []core.Sexp
		for j := 0; j < n; j++ {
			rs = append(rs, core.L(core.I(int64(core.Pick(g, []int{0, 1, 2, 8, 3, 0x4000}))), core.I(int64(g.Intn(5))), core.I(int64(core.Pick(g, []int{0, 0, 1, 5, 7, 100})))))
		}
		g.Emit(core.L(core.A("merge"), core.L(rs...)), "merge")
	}
	// 3. end to end on in-memory tables (numeric kingshard rules)
	stmts := []string{"update", "delete"}
	for i := 0; i < g.Scale(2500, 50000); i++ {
		r := c01RuleByName(core.Pick(g, c05ExecRules))
		rule := rt.GetRule(r.db, r.table)
		ctx := &c01Ctx{r: r, rule: rule, pts: c01Points(r)}
		cond := c05Restrict(g, ctx.genCond(g, g.Intn(g.Scale(4, 5)+1)))
		var rows []core.Sexp
		nrows := 1 + g.Intn(10)
		for j := 0; j < nrows; j++ {
			k := core.Pick(g, ctx.pts) + int64(g.Intn(3)) - 1
			idx, err := c01Find(rule, k)
			if err != nil || k < 0 {
				continue
			}
			o := core.Pick(g, ctx.pts)
			if g.Intn(3) == 0 {
				o = k
			}
			rows = append(rows, core.L(core.I(k), core.I(o), core.I(int64(idx))))
		}
		stmt := core.Pick(g, stmts)
		in := core.L(core.A("exec"), core.A(r.name), core.I(int64(g.Intn(5))), core.A(stmt), c01Meta(rule), cond, core.L(append([]core.Sexp{core.A("rows")}, rows...)...))
		g.Emit(in, "exec", "exec-rule="+r.name, "exec-"+stmt)
	}
	// 3b. whole statements: LIMIT, ORDER BY, multi-table forms, sub-queries, every DELETE syntax
	genC05Stmt(g, g.Scale(2500, 40000))
	// 4. routing of UPDATE/DELETE on every rule kind (same lines as C01)
	for i := 0; i < g.Scale(1500, 30000); i++ {
		r := &c01Rules[g.Intn(len(c01Rules))]
		rule := rt.GetRule(r.db, r.table)
		ctx := &c01Ctx{r: r, rule: rule, pts: c01Points(r)}
		if r.dateFmt != "" {
			ctx.colType = g.Intn(3)
		}
		cond := ctx.genCond(g, g.Intn(g.Scale(4, 6)+1))
		stmt := core.Pick(g, stmts)
		in := core.L(core.A("route"), core.A(r.name), core.I(int64(ctx.colType)), core.I(int64(g.Intn(5))), core.A(stmt), c01Meta(rule), cond, ctx.universe())
		g.Emit(in, "route", "route-rule="+r.name)
	}
	// 4b. the same with literals of every kind in the WHERE (hexadecimal, bit, decimal, float, NULL, numeric
	// strings): harness/props/c01lit.go
	genC01LitStmts(g, rt, stmts, g.Scale(700, 14000), "route-lit-", true)
}

// c05Restrict replaces opaque kinds the in-memory evaluator does not define.
func c05Restrict(g *core.Gen, c core.Sexp) core.Sexp {
	switch c.Head() {
	case "and", "or":
		return core.L(c.Nth(0), c05Restrict(g, c.Nth(1)), c05Restrict(g, c.Nth(2)))
	case "par":
		return core.L(c.Nth(0), c05Restrict(g, c.Nth(1)))
	case "other":
		return core.L(c.Nth(0), core.I(int64(core.Pick(g, c05OtherKinds))), c.Nth(2))
	}
	return c
}

func execC05(in core.Sexp) string {
	switch in.Head() {
	case "assign":
		return c05Assign(in)
	case "merge":
		var rs []*mysql.Result
		for _, e := range in.Nth(1).List {
			rs = append(rs, &mysql.Result{Status: uint16(e.Nth(0).Int()), AffectedRows: e.Nth(1).Uint(), InsertID: e.Nth(2).Uint()})
		}
		r, err := plan.MergeExecResult(rs)
		if err != nil {
			return "err"
		}
		return fmt.Sprintf("(%d %d %d)", r.Status, r.AffectedRows, r.InsertID)
	case "exec":
		return c05Exec(in)
	case "route":
		return execC01(in)
	case "stmt":
		return c05ExecStmt(in)
	}
	return "bad"
}

// right-hand sides of generated assignments (index 0: an integer literal)
var c05Values = []string{"", "k + 1", "o", "abs(o)", "VALUES(o)", "VALUES(k)"}

func c05Assign(in core.Sexp) string {
	rt, err := c01GetRouter()
	if err != nil {
		return "setup-error"
	}
	kind := in.Nth(1).Atom
	useAlias := false
	var sets []string
	for i, t := range in.Nth(2).List {
		name := t.Nth(1).Str()
		col := name
		switch t.Nth(0).Atom {
		case "table":
			col = "t_mod." + name
		case "alias":
			col = "a." + name
			useAlias = true
		case "upalias":
			col = "A." + name
			useAlias = true
		case "unknown":
			col = "zz." + name
		case "baddb":
			col = "nodb.t_mod." + name
		case "dbtable":
			col = "db_ks.t_mod." + name
		case "uptable":
			col = "T_MOD." + name
		case "updb":
			col = "DB_KS.t_mod." + name
		}
		val := strconv.Itoa(i + 1)
		if len(t.List) > 3 {
			vals := c05SetVals[t.Nth(2).Atom]
			val = strings.ReplaceAll(vals[int(t.Nth(3).Int())%len(vals)], "%t", "t_mod")
		} else if len(t.List) > 2 {
			vi := int(t.Nth(2).Int()) % len(c05Values)
			if kind != "ondup" {
				vi %= 4 // VALUES(col) only exists in ON DUPLICATE KEY UPDATE
			}
			if vi > 0 {
				val = c05Values[vi]
			}
		}
		sets = append(sets, col+" = "+val)
	}
	var sql string
	if kind == "ondup" {
		sql = "INSERT INTO t_mod (k, o) VALUES (1, 2) ON DUPLICATE KEY UPDATE " + strings.Join(sets, ", ")
	} else {
		tbl := "t_mod"
		if useAlias {
			tbl = "t_mod AS a"
		}
		sql = "UPDATE " + tbl + " SET " + strings.Join(sets, ", ") + " WHERE o = 1"
	}
	node, err := parser.ParseSQL(sql)
	if err != nil {
		return "(parse-error " + core.Text(sql).String() + ")"
	}
	_, err = plan.BuildPlan(node, map[string]string{"db_ks": "db_ks", "db_mycat": "db_mycat_0"}, "db_ks", sql, rt, sequence.NewSequenceManager(), nil)
	if err == nil {
		return "accept"
	}
	if strings.Contains(err.Error(), "cannot update shard column value") || strings.Contains(err.Error(), "routing key in update expression") {
		return "reject-key"
	}
	return "reject-other"
}

// ---- in-memory executor -----------------------------------------------------

type c05Row struct{ k, o int64 }

type c05Executor struct {
	table  string
	tables map[int][]c05Row
	err    error
}

var c05Suffix = regexp.MustCompile(`_(\d{4})$`)

func (e *c05Executor) run(sql string) (*mysql.Result, error) {
	node, err := parser.ParseSQL(sql)
	if err != nil {
		return nil, fmt.Errorf("rewritten statement does not parse: %v", err)
	}
	var where ast.ExprNode
	var tname string
	switch s := node.(type) {
	case *ast.UpdateStmt:
		where = s.Where
		tname = c05TableOf(s.TableRefs)
	case *ast.DeleteStmt:
		where = s.Where
		tname = c05TableOf(s.TableRefs)
	default:
		return nil, fmt.Errorf("unexpected statement %T", node)
	}
	m := c05Suffix.FindStringSubmatch(tname)
	if m == nil || !strings.HasPrefix(tname, e.table+"_") {
		return nil, fmt.Errorf("unexpected physical table %q", tname)
	}
	idx, _ := strconv.Atoi(m[1])
	n := uint64(0)
	for _, row := range e.tables[idx] {
		v, err := c05Eval(where, row)
		if err != nil {
			return nil, err
		}
		if v != nil && *v != 0 {
			n++
		}
	}
	return &mysql.Result{AffectedRows: n}, nil
}

func c05TableOf(refs *ast.TableRefsClause) string {
	if refs == nil || refs.TableRefs == nil {
		return ""
	}
	if ts, ok := refs.TableRefs.Left.(*ast.TableSource); ok {
		if tn, ok := ts.Source.(*ast.TableName); ok {
			return tn.Name.O
		}
	}
	return ""
}

func (e *c05Executor) ExecuteSQL(ctx *util.RequestContext, slice, db, sql string) (*mysql.Result, error) {
	return e.run(sql)
}

func (e *c05Executor) ExecuteSQLs(ctx *util.RequestContext, sqls map[string]map[string][]string) ([]*mysql.Result, error) {
	var rs []*mysql.Result
	for _, dbs := range sqls {
		for _, list := range dbs {
			for _, sql := range list {
				r, err := e.run(sql)
				if err != nil {
					e.err = err
					return nil, err
				}
				rs = append(rs, r)
			}
		}
	}
	return rs, nil
}
func (e *c05Executor) SetLastInsertID(uint64)  {}
func (e *c05Executor) GetLastInsertID() uint64 { return 0 }
func (e *c05Executor) HandleSet(*util.RequestContext, string, *ast.SetStmt) (*mysql.Result, error) {
	return nil, nil
}

func b2i(b bool) *int64 {
	v := int64(0)
	if b {
		v = 1
	}
	return &v
}

// c05Eval: MySQL's three-valued evaluation of the generated predicate forms on an
// integer row (nil = NULL).
func c05Eval(n ast.ExprNode, row c05Row) (*int64, error) {
	switch e := n.(type) {
	case *ast.ParenthesesExpr:
		return c05Eval(e.Expr, row)
	case *ast.ColumnNameExpr:
		v := row.o
		if e.Name.Name.L == "k" {
			v = row.k
		}
		return &v, nil
	case *driver.ValueExpr:
		x, err := util.GetValueExprResult(e)
		if err != nil {
			return nil, err
		}
		switch t := x.(type) {
		case nil:
			return nil, nil
		case int64:
			return &t, nil
		case uint64:
			v := int64(t)
			return &v, nil
		case string:
			v, err := strconv.ParseInt(t, 10, 64)
			if err != nil {
				return nil, fmt.Errorf("non-numeric string literal %q", t)
			}
			return &v, nil
		}
		return nil, fmt.Errorf("literal type %T", x)
	case *ast.UnaryOperationExpr:
		v, err := c05Eval(e.V, row)
		if err != nil || v == nil {
			return nil, err
		}
		switch e.Op {
		case opcode.Not:
			return b2i(*v == 0), nil
		case opcode.Minus:
			r := -*v
			return &r, nil
		case opcode.Plus:
			return v, nil
		}
		return nil, fmt.Errorf("unary op %v", e.Op)
	case *ast.BinaryOperationExpr:
		l, err := c05Eval(e.L, row)
		if err != nil {
			return nil, err
		}
		r, err := c05Eval(e.R, row)
		if err != nil {
			return nil, err
		}
		switch e.Op {
		case opcode.LogicAnd:
			if (l != nil && *l == 0) || (r != nil && *r == 0) {
				return b2i(false), nil
			}
			if l == nil || r == nil {
				return nil, nil
			}
			return b2i(true), nil
		case opcode.LogicOr:
			if (l != nil && *l != 0) || (r != nil && *r != 0) {
				return b2i(true), nil
			}
			if l == nil || r == nil {
				return nil, nil
			}
			return b2i(false), nil
		case opcode.NullEQ:
			if l == nil || r == nil {
				return b2i(l == nil && r == nil), nil
			}
			return b2i(*l == *r), nil
		}
		if l == nil || r == nil {
			return nil, nil
		}
		switch e.Op {
		case opcode.EQ:
			return b2i(*l == *r), nil
		case opcode.NE:
			return b2i(*l != *r), nil
		case opcode.LT:
			return b2i(*l < *r), nil
		case opcode.LE:
			return b2i(*l <= *r), nil
		case opcode.GT:
			return b2i(*l > *r), nil
		case opcode.GE:
			return b2i(*l >= *r), nil
		case opcode.Plus:
			v := *l + *r
			return &v, nil
		case opcode.Minus:
			v := *l - *r
			return &v, nil
		case opcode.LogicXor:
			return b2i((*l != 0) != (*r != 0)), nil
		}
		return nil, fmt.Errorf("binary op %v", e.Op)
	case *ast.PatternInExpr:
		v, err := c05Eval(e.Expr, row)
		if err != nil || v == nil {
			return nil, err
		}
		found, sawNull := false, false
		for _, it := range e.List {
			x, err := c05Eval(it, row)
			if err != nil {
				return nil, err
			}
			if x == nil {
				sawNull = true
			} else if *x == *v {
				found = true
			}
		}
		if !found && sawNull {
			return nil, nil
		}
		return b2i(found != e.Not), nil
	case *ast.BetweenExpr:
		v, err := c05Eval(e.Expr, row)
		if err != nil {
			return nil, err
		}
		lo, err := c05Eval(e.Left, row)
		if err != nil {
			return nil, err
		}
		hi, err := c05Eval(e.Right, row)
		if err != nil {
			return nil, err
		}
		if v == nil || lo == nil || hi == nil {
			return nil, nil
		}
		return b2i((*lo <= *v && *v <= *hi) != e.Not), nil
	case *ast.IsNullExpr:
		v, err := c05Eval(e.Expr, row)
		if err != nil {
			return nil, err
		}
		return b2i((v == nil) != e.Not), nil
	case *ast.IsTruthExpr:
		v, err := c05Eval(e.Expr, row)
		if err != nil {
			return nil, err
		}
		is := v != nil && ((*v != 0) == (e.True != 0))
		return b2i(is != e.Not), nil
	case *ast.SubqueryExpr:
		// a sub-query without FROM clause is the value of its only field
		if sel, ok := e.Query.(*ast.SelectStmt); ok && sel.From == nil && sel.Where == nil && sel.Fields != nil && len(sel.Fields.Fields) == 1 {
			return c05Eval(sel.Fields.Fields[0].Expr, row)
		}
	case *ast.FuncCallExpr:
		if e.FnName.L == "abs" && len(e.Args) == 1 {
			v, err := c05Eval(e.Args[0], row)
			if err != nil || v == nil {
				return nil, err
			}
			if *v < 0 {
				r := -*v
				return &r, nil
			}
			return v, nil
		}
	}
	return nil, fmt.Errorf("unsupported node %T", n)
}

func c05Exec(in core.Sexp) string {
	rt, err := c01GetRouter()
	if err != nil {
		return "setup-error"
	}
	r := c01RuleByName(in.Nth(1).Atom)
	form := int(in.Nth(2).Int())
	stmt := in.Nth(3).Atom
	sql := c01SQL(r, form, stmt, in.Nth(5))
	node, err := parser.ParseSQL(sql)
	if err != nil {
		return "(parse-error " + core.Text(sql).String() + ")"
	}
	p, err := plan.BuildPlan(node, map[string]string{"db_ks": "db_ks", "db_mycat": "db_mycat_0"}, c01SessionDB(r, form), sql, rt, sequence.NewSequenceManager(), nil)
	if err != nil {
		return "err"
	}
	table := r.table
	if r.name == "linked" {
		table = "t_r100_child"
	}
	ex := &c05Executor{table: table, tables: map[int][]c05Row{}}
	for _, row := range in.Nth(6).List[1:] {
		idx := int(row.Nth(2).Int())
		ex.tables[idx] = append(ex.tables[idx], c05Row{k: row.Nth(0).Int(), o: row.Nth(1).Int()})
	}
	res, err := p.ExecuteIn(util.NewRequestContext(), ex)
	if err != nil {
		if ex.err != nil {
			return "(executor-error " + core.Text(ex.err.Error()).String() + ")"
		}
		return "err"
	}
	if res == nil {
		return "(ok 0)"
	}
	return fmt.Sprintf("(ok %d)", res.AffectedRows)
}

func init() {
	core.Register(&core.Property{
		ID: "C05",
		Rule: "five streams: (assign) UPDATE / INSERT…ON DUPLICATE KEY UPDATE assignment lists of 1–3 targets in plain, table-, alias-, unknown- and wrong-schema-qualified spellings with key / non-key names in both letter cases and back-quotes, values that are literals, expressions, VALUES(), sub-queries with and without FROM; " +
			"(merge) MergeExecResult on 0–5 shard results; (exec) UPDATE/DELETE with C01 condition trees executed through the real plan's ExecuteIn on in-memory tables (1–10 integer rows placed by the real rule) with an AST evaluator of the rewritten per-table WHERE; " +
			"(stmt) whole UPDATE / DELETE statements on six numeric rules, executed through the real plan's ExecuteIn on an in-memory backend that parses and executes every statement it is sent (WHERE, ORDER BY on k / o ascending and descending with ties, LIMIT 0…100, SET o = expression, multi-table DELETE target lists checked as MySQL does) on 0–12 rows: " +
			"table written plain / AS a / a / db.t / (t) / with table-qualified columns, DELETE as DELETE FROM t, DELETE t FROM t, DELETE FROM t USING t, DELETE a FROM t AS a, DELETE FROM a USING t AS a, DELETE t.* FROM t, and four target lists that name no table of the FROM clause; " +
			"seven multi-table shapes (comma, JOIN, LEFT JOIN, parenthesised, with a linked child / an unsharded table, either order); WHERE trees of C01 with sub-query predicates (3 without FROM, IN (SELECT), 10 reading a table: =, EXISTS, NOT EXISTS, ALL, IN, function argument, BETWEEN bound, nested, UNION, IS NULL); " +
			"ORDER BY lists of 1–2 columns in every qualification or a non-column expression, with and without LIMIT, with the key pinned to one sub table in two thirds of the ORDER BY … LIMIT cases; SET lists with a second assignment (other column, sharding column in three spellings, sub-query value) before or after; the output is the reported count and every sub table's rows afterwards; " +
			"(route) C01 routing lines for UPDATE/DELETE on all 14 rule configurations; non-trivial = accepted / executed",
		Generate: genC05,
		Exec:     execC05,
		Trivial: func(in core.Sexp, out string) bool {
			return out == "err" || out == "(backend-error)" || strings.HasPrefix(out, "reject") || out == "panic"
		},
		ShrinkKeep: []string{"meta", "lit"},
		Assumptions: []string{
			"each backend reports as affected exactly the rows its WHERE selects (every selected row is changed; with LIMIT n the first n of them in the ORDER BY order, ties and the choice without ORDER BY in storage order — the oracle accepts any choice a single database may make); MySQL's three-valued evaluation of the generated predicate forms is as in the harness' AST evaluator and in the Lean oracle (cross-checked against each other on every case)",
			"MySQL rejects a multi-table DELETE whose target list names no table (alias) of its FROM clause, and a sub-query naming a logical table fails on a backend; the in-memory backend does the same",
			"the generator's statement of what a rendered text contains (single / multi table reference, sub-query class value / insel / table, qualifier kinds) is what the parser delivers",
			"TZ=UTC; rows are stored where FindTableIndex places their key (C03/C09)",
		},
	})
}
