package props

import (
	"fmt"
	"os"
	"sort"
	"strconv"
	"strings"

	"gaeaverif/harness/core"

	"github.com/XiaoMi/Gaea/parser"
	"github.com/XiaoMi/Gaea/parser/ast"
	"github.com/XiaoMi/Gaea/proxy/plan"
	"github.com/XiaoMi/Gaea/proxy/sequence"
	"github.com/XiaoMi/Gaea/util"
)

// C02, UNION stream.
//
//	(union RULE META ((QUERY COND)…) (ALL…) UORDER ULIMIT (rows …))
//
// (QUERY COND)… are 2–3 SELECTs on the same table (no LIMIT of their own),
// ALL… one flag per SELECT after the first (t: UNION ALL, f: UNION [DISTINCT]),
// UORDER = ((B DESC)…) with B = (name N) | (pos N) naming result columns of the
// first SELECT, ULIMIT as in QUERY.

func c02UnionSQL(table string, in core.Sexp) string {
	sels := in.Nth(3).List
	alls := in.Nth(4).List
	var sb strings.Builder
	for i, s := range sels {
		if i > 0 {
			if alls[i-1].Bool() {
				sb.WriteString(" UNION ALL ")
			} else {
				sb.WriteString(" UNION ")
			}
		}
		sb.WriteString("(" + c02SelectSQL(table, s.Nth(0), s.Nth(1)) + ")")
	}
	if os := in.Nth(5).List; len(os) > 0 {
		sb.WriteString(" ORDER BY ")
		for i, o := range os {
			if i > 0 {
				sb.WriteString(", ")
			}
			sb.WriteString(c02BySQL(o.Nth(0)))
			if o.Nth(1).Bool() {
				sb.WriteString(" DESC")
			}
		}
	}
	if l := in.Nth(6); l.Atom != "none" {
		c, o := l.Nth(2).Atom, l.Nth(3).Atom
		switch l.Nth(1).Int() {
		case 0:
			sb.WriteString(" LIMIT " + c)
		case 1:
			sb.WriteString(" LIMIT " + o + ", " + c)
		default:
			sb.WriteString(" LIMIT " + c + " OFFSET " + o)
		}
	}
	return sb.String()
}

// the reference: UNION of the SELECTs evaluated on one database holding every
// row, sorted by the UNION's ORDER BY (stable), without its LIMIT
func c02UnionRef(u *ast.UnionStmt, all []c02Row) ([]c02Out, error) {
	var acc [][]c02Val
	var names []string
	for i, s := range u.SelectList.Selects {
		res, err := c02EvalSelect(s, all, true)
		if err != nil {
			return nil, err
		}
		if i == 0 {
			for _, it := range res.items {
				names = append(names, strings.ToLower(it.name))
			}
		} else if len(res.items) != len(names) {
			return nil, fmt.Errorf("different number of columns")
		}
		for _, o := range res.rows {
			acc = append(acc, o.vis)
		}
		if i > 0 && s.IsAfterUnionDistinct {
			var ds [][]c02Val
			seen := map[string]bool{}
			for _, r := range acc {
				if t := c02RowText(r); !seen[t] {
					seen[t] = true
					ds = append(ds, r)
				}
			}
			acc = ds
		}
	}
	var cols []int
	var desc []bool
	if u.OrderBy != nil {
		for _, b := range u.OrderBy.Items {
			idx := -1
			switch x := b.Expr.(type) {
			case *ast.ColumnNameExpr:
				for i, n := range names {
					if n == x.Name.Name.L {
						idx = i
						break
					}
				}
			case *ast.PositionExpr:
				if x.N >= 1 && x.N <= len(names) {
					idx = x.N - 1
				}
			}
			if idx < 0 {
				return nil, fmt.Errorf("ORDER BY item of the UNION not found")
			}
			cols = append(cols, idx)
			desc = append(desc, b.Desc)
		}
	}
	out := make([]c02Out, len(acc))
	for i, r := range acc {
		out[i] = c02Out{vis: r, key: make([]c02Val, len(cols))}
		for j, c := range cols {
			out[i].key[j] = r[c]
		}
	}
	if len(cols) > 0 {
		sort.SliceStable(out, func(i, j int) bool { return c02KeyCmp(out[i].key, out[j].key, desc) < 0 })
	}
	return out, nil
}

func c02Union(in core.Sexp) string {
	rt, err := c01GetRouter()
	if err != nil {
		return "setup-error"
	}
	r := c01RuleByName(in.Nth(1).Atom)
	if r == nil {
		return "bad-rule"
	}
	sql := c02UnionSQL(r.table, in)
	if os.Getenv("VERIF_DEBUG_SQL") != "" {
		fmt.Fprintln(os.Stderr, "sql:", sql)
	}
	node, err := parser.ParseSQL(sql)
	if err != nil {
		return "(parse-error " + core.Text(sql).String() + ")"
	}
	tables, all := c02ParseRows(in.Nth(7))
	refNode, _ := parser.ParseSQL(sql)
	ru, ok := refNode.(*ast.UnionStmt)
	if !ok {
		return fmt.Sprintf("(not-a-union %T)", refNode)
	}
	ref, err := c02UnionRef(ru, all)
	if err != nil {
		if os.Getenv("VERIF_DEBUG_SQL") != "" {
			fmt.Fprintln(os.Stderr, "unsupported:", err)
		}
		return "unsupported"
	}
	p, err := plan.BuildPlan(node, c02PhyDBs, r.db, sql, rt, sequence.NewSequenceManager(), nil)
	if err != nil {
		if os.Getenv("VERIF_DEBUG_SQL") != "" {
			fmt.Fprintln(os.Stderr, "plan error:", err)
		}
		return "err"
	}
	ex := &c02Executor{table: c02PhysTable(r), tables: tables}
	res, err := p.ExecuteIn(util.NewRequestContext(), ex)
	if err != nil {
		if os.Getenv("VERIF_DEBUG_SQL") != "" {
			fmt.Fprintln(os.Stderr, "exec error:", err)
		}
		if ex.err != nil {
			return "(executor-error " + core.Text(ex.err.Error()).String() + ")"
		}
		return "err"
	}
	if res == nil || res.Resultset == nil {
		return "(no-resultset)"
	}
	var out [][]c02Val
	for _, vs := range res.Values {
		row := make([]c02Val, len(vs))
		for i, v := range vs {
			x, ok := c02FromGo(v)
			if !ok {
				return fmt.Sprintf("(bad-value %T)", v)
			}
			row[i] = x
		}
		out = append(out, row)
	}
	hasLimit, off, cnt := false, int64(0), int64(0)
	if l := in.Nth(6); l.Atom != "none" {
		hasLimit = true
		cnt = l.Nth(2).Int()
		if l.Nth(1).Int() != 0 {
			off = l.Nth(3).Int()
		}
	}
	segs := c02Canon(out, ref, hasLimit, off, cnt)
	return "(ok " + strings.Join(append([]string{strconv.Itoa(len(res.Fields))}, segs...), " ") + ")"
}

// ---- generator ----------------------------------------------------------------

// column types of a UNION: 0 BIGINT, 1 string, 2 DECIMAL
var c02ColsByType = [][]int64{{c02ColA, c02ColO, c02ColK, c02ColA}, {c02ColS, c02ColT, c02ColS}, {c02ColD}}

// an aggregate function whose result has the given type
func (q *c02QGen) aggOfType(t int) []core.Sexp {
	g := q.g
	distinct := g.Intn(12) == 0
	switch t {
	case 0:
		switch g.Intn(4) {
		case 0:
			return c02AggSexp("count", core.A("star"), false)
		case 1:
			return c02AggSexp("count", core.I(int64(g.Intn(len(c02Cols)))), distinct)
		case 2:
			return c02AggSexp("max", core.I(core.Pick(g, c02ColsByType[0])), distinct)
		}
		return c02AggSexp("min", core.I(core.Pick(g, c02ColsByType[0])), distinct)
	case 1:
		return c02AggSexp(core.Pick(g, []string{"max", "min"}), core.I(core.Pick(g, c02ColsByType[1])), distinct)
	}
	if g.Intn(2) == 0 {
		return c02AggSexp("sum", core.I(core.Pick(g, []int64{c02ColA, c02ColD, c02ColO})), distinct)
	}
	return c02AggSexp(core.Pick(g, []string{"max", "min"}), core.I(c02ColD), distinct)
}

// a SELECT for a UNION with the given column types: plain / aggregated / grouped, no ORDER BY, no LIMIT
func (q *c02QGen) unionSelect(types []int) core.Sexp {
	g := q.g
	var fields []core.Sexp
	group := core.A("none")
	switch g.Intn(6) {
	case 0: // aggregates
		for _, t := range types {
			fields = append(fields, core.L(append(q.aggOfType(t), q.alias())...))
		}
		q.tags = append(q.tags, "union-agg")
	case 1: // GROUP BY the first column, then aggregates
		c := core.Pick(g, c02ColsByType[types[0]])
		fields = append(fields, core.L(core.A("col"), core.I(c), q.alias()))
		for _, t := range types[1:] {
			fields = append(fields, core.L(append(q.aggOfType(t), q.alias())...))
		}
		group = core.L(core.A("group"), c02Name1(c))
		q.tags = append(q.tags, "union-group")
	default:
		for _, t := range types {
			fields = append(fields, core.L(core.A("col"), core.I(core.Pick(g, c02ColsByType[t])), q.alias()))
		}
		q.tags = append(q.tags, "union-plain")
	}
	distinct := g.Intn(8) == 0
	return core.L(core.A("q"), core.B(distinct), core.L(fields...), group, core.L(), core.A("none"))
}

func genC02Union(g *core.Gen, n int) {
	rt, err := c01GetRouter()
	if err != nil {
		panic(err)
	}
	for i := 0; i < n; i++ {
		r := c01RuleByName(core.Pick(g, c02Rules))
		rule := rt.GetRule(r.db, r.table)
		ctx := &c01Ctx{r: r, rule: rule, pts: c01Points(r)}
		if r.dateFmt != "" {
			ctx.colType = 2
		}
		qg := &c02QGen{g: g}
		nsel := 2 + g.Intn(2)
		ncols := 1 + g.Intn(3)
		types := make([]int, ncols)
		for j := range types {
			types[j] = core.Pick(g, []int{0, 0, 1, 1, 2})
		}
		var sels, alls []core.Sexp
		var firstNames []int64 // result column names of the first SELECT that ORDER BY can use
		for j := 0; j < nsel; j++ {
			ts := append([]int{}, types...)
			if g.Intn(40) == 0 {
				ts = append(ts, 0) // column count mismatch: rejected
			}
			if g.Intn(15) == 0 {
				ts[g.Intn(len(ts))] = g.Intn(3) // another column type: rejected by the proxy
			}
			q := qg.unionSelect(ts)
			cond := core.A("none")
			if g.Intn(3) != 0 {
				cond = c05Restrict(g, ctx.genCond(g, g.Intn(2)))
			}
			if j == 0 {
				for _, f := range q.Nth(2).List {
					al := f.List[len(f.List)-1]
					if al.Atom != "-" {
						firstNames = append(firstNames, al.Int())
					} else if f.Head() == "col" {
						firstNames = append(firstNames, f.Nth(1).Int())
					}
				}
			} else {
				alls = append(alls, core.B(g.Intn(2) == 0))
			}
			sels = append(sels, core.L(q, cond))
		}
		var order []core.Sexp
		for j, m := 0, g.Intn(3); j < m; j++ {
			if len(firstNames) > 0 && g.Intn(3) != 0 {
				order = append(order, c02Name1(core.Pick(g, firstNames)))
			} else {
				order = append(order, core.L(core.A("pos"), core.I(int64(1+g.Intn(ncols)))))
			}
		}
		if len(order) > 0 {
			qg.tags = append(qg.tags, "union-order")
		}
		lim := qg.limit()
		rows := c02GenRows(g, ctx, g.Scale(8, 12))
		in := core.L(core.A("union"), core.A(r.name), c01Meta(rule), core.L(sels...), core.L(alls...), c02Order(order, g), lim, rows)
		g.Emit(in, append(qg.tags, "union", "rule="+r.name, "union-selects="+strconv.Itoa(nsel))...)
	}
}
