package props

// History generators shared by C27 and C28 (all randomness from g.Rand).

import (
	"fmt"
	"strings"

	"gaeaverif/harness/core"
)

type hgCfg struct {
	fuse      bool
	cool      int64
	down      int64
	sbm       int64
	hsql      bool
	hasMaster bool
}

func (c hgCfg) sexp() core.Sexp {
	return core.L(core.A("cfg"), core.B(c.fuse), core.I(c.cool), core.I(c.down), core.I(c.sbm), core.B(c.hsql), core.B(c.hasMaster))
}

func (c hgCfg) policy() string {
	if !c.fuse {
		return "none"
	}
	if c.cool > 0 {
		return "hard"
	}
	return "gradual"
}

// hgProfile weights the event kinds and outcomes of a generated history.
type hgProfile struct {
	pFuse, pMaster, pTick float64 // per event; the rest are replica rounds
	pProbeFail            float64 // a replica probe fails
	pMasterFail           float64 // a master probe fails
	pSyncBad              float64 // `show slave status` reports lag / stopped thread
	pSyncOdd              float64 // query error, odd types, no privilege …
	pTrig                 float64 // a fuse event fires the breaker
	pBackwards            float64 // the clock steps back (malformed stream)
}

type hgen struct {
	g   *core.Gen
	cfg hgCfg
	pr  hgProfile
	t0  int64
	now int64
	evs []core.Sexp
	// sticky failure phases
	repFailLeft, masterFailLeft, syncBadLeft int
	tags                                     map[string]bool
}

func (h *hgen) chance(p float64) bool { return h.g.Rand.Float64() < p }

func (h *hgen) tag(t string) { h.tags[t] = true }

var hgFailProbes = []string{
	"(err)", "(nil)", "(errconn)", "(conn oof)", "(conn ofo)", "(conn sfo)", "(conn sof)", "(conn doo)", "(conn moo)",
	"(conn xoo)", "(conn too)", "(conn soo soo sof)", "(conn soo soo soo sfo)", "(conn soo doo)", "(conn soo soo soo too)",
}

var hgOkProbes = []string{
	"(conn)", "(conn)", "(conn)", "(conn ooo)", "(conn soo soo soo soo)", "(conn soo ooo)", "(conn soo soo soo ooo)",
	"(conn soo soo soo soo ofo)", "(conn soo soo soo soo doo)", "(conn off)", "(conn sfo)",
}

// probe returns a probe script; with a health SQL configured the scripts that
// start with an `o` succeed at once, so pick by intent and let the model decide.
func (h *hgen) probe(fail bool) core.Sexp {
	var s string
	if fail {
		s = core.Pick(h.g, hgFailProbes)
		if !h.cfg.hsql && strings.ContainsAny(s, "dmxt") && !strings.Contains(s, "f") {
			// without a health SQL the fatal health answers are never consulted: force a failure
			s = core.Pick(h.g, []string{"(err)", "(conn oof)", "(conn ofo)", "(nil)"})
		}
		if h.cfg.hsql && (s == "(conn oof)" || s == "(conn ofo)") {
			s = core.Pick(h.g, []string{"(conn sof)", "(conn sfo)", "(conn too)"})
		}
	} else {
		s = core.Pick(h.g, hgOkProbes)
		if !h.cfg.hsql && (s == "(conn off)" || s == "(conn sfo)") {
			s = "(conn)"
		}
		if h.cfg.hsql && s == "(conn sfo)" {
			s = "(conn ooo)"
		}
	}
	return core.MustParse(s)
}

func (h *hgen) slaveQ() core.Sexp {
	lim := h.cfg.sbm
	if h.syncBadLeft > 0 || h.chance(h.pr.pSyncBad) {
		if h.syncBadLeft > 0 {
			h.syncBadLeft--
		} else if h.chance(0.5) {
			h.syncBadLeft = h.g.Intn(4)
		}
		h.tag("sync-bad")
		switch h.g.Intn(6) {
		case 0:
			return core.MustParse(fmt.Sprintf("(row (u %d) (s Yes) (s Yes))", lim+1))
		case 1:
			return core.MustParse(fmt.Sprintf("(row (u %d) (s Yes) (s Yes))", lim+1+int64(h.g.Intn(5000))))
		case 2:
			return core.MustParse("(row (u 0) (s No) (s Yes))")
		case 3:
			return core.MustParse("(row (u 0) (s Yes) (s No))")
		case 4:
			return core.MustParse("(row null (s Connecting) (s Yes))")
		default:
			return core.MustParse("(row (u 18446744073709551615) (s Yes) (s Yes))")
		}
	}
	if h.chance(h.pr.pSyncOdd) {
		h.tag("sync-odd")
		return core.MustParse(core.Pick(h.g, []string{
			"nopriv", "err", "nilres", "empty", "(row (i 9999) (s Yes) (s Yes))", "(row null (s Yes) (s Yes))",
			"(row absent (s Yes) (s Yes))", "(row (u 0) null (s Yes))", "(row (u 0) (s Yes) absent)", "(row (u 0) (s yes) (s Yes))",
			"(row (s 7) (s Yes) (s Yes))", "(row (u 0) (u 1) (s Yes))", "(row (i -1) (s Yes) (s Yes))",
		}))
	}
	lag := int64(0)
	if lim > 0 {
		lag = core.Pick(h.g, []int64{0, 0, 1, lim - 1, lim, lim})
		if lag < 0 {
			lag = 0
		}
	}
	return core.MustParse(fmt.Sprintf("(row (u %d) (s Yes) (s Yes))", lag))
}

func (h *hgen) advance() {
	steps := []int64{0, 1, 2, 3, 4, 4, 4, 4, 4, 5, 7, 8, 9, h.cfg.down - 1, h.cfg.down, h.cfg.down + 1}
	if h.cfg.cool > 0 {
		steps = append(steps, h.cfg.cool-1, h.cfg.cool, h.cfg.cool+1, 4, 4, 4)
	}
	d := core.Pick(h.g, steps)
	if d < 0 {
		d = 0
	}
	if h.chance(h.pr.pBackwards) {
		d = -int64(h.g.Intn(20))
		h.tag("clock-backwards")
	}
	h.now += d
}

func (h *hgen) replicaRound() {
	fail := false
	if h.repFailLeft > 0 {
		h.repFailLeft--
		fail = true
	} else if h.chance(h.pr.pProbeFail) {
		fail = true
		if h.chance(0.5) { // an outage lasting several rounds
			h.repFailLeft = h.g.Intn(int(h.cfg.down/4+3) + 1)
		}
	}
	if fail {
		h.tag("replica-probe-fails")
	}
	h.evs = append(h.evs, core.L(core.A("r"), core.I(h.now), h.probe(fail), h.slaveQ()))
}

func (h *hgen) masterRound() {
	fail := false
	if h.masterFailLeft > 0 {
		h.masterFailLeft--
		fail = true
	} else if h.chance(h.pr.pMasterFail) {
		fail = true
		if h.chance(0.7) {
			h.masterFailLeft = h.g.Intn(int(h.cfg.down/4+3) + 1)
		}
	}
	if fail {
		h.tag("master-probe-fails")
	}
	h.evs = append(h.evs, core.L(core.A("m"), core.I(h.now), h.probe(fail)))
}

func (h *hgen) fuseEvent() {
	kind := "conn"
	if h.chance(0.15) {
		kind = core.Pick(h.g, []string{"ptr", "wrapped", "other", "nil"})
	}
	trig := h.chance(h.pr.pTrig)
	if kind == "conn" && trig {
		h.tag("fuse-fires")
	}
	h.evs = append(h.evs, core.L(core.A("f"), core.I(h.now), core.A(kind), core.B(trig)))
}

func (h *hgen) event() {
	h.advance()
	x := h.g.Rand.Float64()
	switch {
	case x < h.pr.pFuse:
		h.fuseEvent()
	case x < h.pr.pFuse+h.pr.pMaster:
		h.masterRound()
	case x < h.pr.pFuse+h.pr.pMaster+h.pr.pTick:
		h.evs = append(h.evs, core.L(core.A("t"), core.I(h.now)))
	default:
		h.replicaRound()
	}
}

func (h *hgen) emit(extra ...string) {
	xs := []core.Sexp{core.A("h"), h.cfg.sexp(), core.I(h.t0)}
	xs = append(xs, h.evs...)
	tags := []string{"policy-" + h.cfg.policy()}
	for _, t := range []string{"replica-probe-fails", "master-probe-fails", "sync-bad", "sync-odd", "fuse-fires", "clock-backwards"} {
		if h.tags[t] {
			tags = append(tags, t)
		}
	}
	tags = append(tags, extra...)
	h.g.Emit(core.L(xs...), tags...)
}

func newHgen(g *core.Gen, cfg hgCfg, pr hgProfile, t0 int64) *hgen {
	return &hgen{g: g, cfg: cfg, pr: pr, t0: t0, now: t0, tags: map[string]bool{}}
}

func hgPickCfg(g *core.Gen, fuseP float64) hgCfg {
	c := hgCfg{
		fuse:      g.Rand.Float64() < fuseP,
		cool:      core.Pick(g, []int64{0, 0, 0, -1, 1, 5, 8, 10, 12, 30}),
		down:      core.Pick(g, []int64{1, 4, 8, 12, 12, 32, 32}),
		sbm:       core.Pick(g, []int64{0, 0, 1, 5, 30}),
		hsql:      g.Intn(2) == 0,
		hasMaster: g.Intn(20) != 0,
	}
	if g.Intn(40) == 0 {
		c.down = core.Pick(g, []int64{0, -1})
	}
	if g.Intn(60) == 0 {
		c.sbm = -1
	}
	return c
}

func hgPickT0(g *core.Gen) int64 {
	return core.Pick(g, []int64{0, 7, 1000, 1000, 1700000000, 1700000000, -5})
}

// healthTrivial: a case says something only if the replica or the master
// changed status at least once.
func healthTrivial(in core.Sexp, out string) bool {
	if !strings.HasPrefix(out, "(ok") {
		return true
	}
	return !(strings.Contains(out, "(d ") || strings.Contains(out, " d "))
}
