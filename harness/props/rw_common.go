package props

import (
	"sync"

	"github.com/XiaoMi/Gaea/log"
)

// Shared by C22 and C06: the repository's global logger writes every warning
// to the console; the checks that drive SessionExecutor replace it by a
// logger that discards everything.

type rwNullLogger struct{}

func (rwNullLogger) SetLevel(name, level string) error                    { return nil }
func (rwNullLogger) Debug(format string, a ...interface{}) error          { return nil }
func (rwNullLogger) Trace(format string, a ...interface{}) error          { return nil }
func (rwNullLogger) Notice(format string, a ...interface{}) error         { return nil }
func (rwNullLogger) Warn(format string, a ...interface{}) error           { return nil }
func (rwNullLogger) Fatal(format string, a ...interface{}) error          { return nil }
func (rwNullLogger) Debugx(logID, format string, a ...interface{}) error  { return nil }
func (rwNullLogger) Tracex(logID, format string, a ...interface{}) error  { return nil }
func (rwNullLogger) Noticex(logID, format string, a ...interface{}) error { return nil }
func (rwNullLogger) Warnx(logID, format string, a ...interface{}) error   { return nil }
func (rwNullLogger) Fatalx(logID, format string, a ...interface{}) error  { return nil }
func (rwNullLogger) Close()                                               {}
func (rwNullLogger) Dropped(i int) uint64                                 { return 0 }

var rwQuietOnce sync.Once

func rwQuietLog() {
	rwQuietOnce.Do(func() { log.SetGlobalLogger(rwNullLogger{}) })
}
