package props

import (
	"fmt"
	"sort"
	"strconv"
	"strings"
	"time"

	"gaeaverif/harness/core"

	"github.com/XiaoMi/Gaea/parser"
	"github.com/XiaoMi/Gaea/proxy/plan"
	"github.com/XiaoMi/Gaea/proxy/router"
	"github.com/XiaoMi/Gaea/proxy/sequence"
)

// C01, JOIN … ON between a sharded table and its linked child tables
// (handleJoin / handleJoinTree / rewriteOnCondition / precheckJoinClause).
//
// Line: (join RULE COLTYPE (tables (T ALIAS)…) (steps (KW USING ON|-)…) WHERE|- (meta …) (univ (rank place)…))
//   T      p (the sharded table) | c1 (linked, key named like the parent's) | c2 (linked, key "ck")
//   KW     join | inner | cross | straight | comma | left | leftouter | right | rightouter
//   USING  none | using (USING (o)) | usingq (USING (<table>.o): rejected by precheckJoinClause)
//   conditions as in c01.go with the column forms
//          (k T) qualified sharding column of table number T, (ku T) the same unqualified,
//          (amb T) unqualified and shared with another table (error), (o T) other column qualified, (ou) unqualified,
//          and the atoms (eqcol T T') = "key of T = key of T'" and (other KIND LIT T).

var c01JoinKW = map[string]string{
	"join": "JOIN", "inner": "INNER JOIN", "cross": "CROSS JOIN", "straight": "STRAIGHT_JOIN", "comma": ",",
	"left": "LEFT JOIN", "leftouter": "LEFT OUTER JOIN", "right": "RIGHT JOIN", "rightouter": "RIGHT OUTER JOIN",
}

func c01KeyName(t string) string {
	if t == "c2" {
		return "ck"
	}
	return "k"
}

func c01TableName(r *c01Rule, t string) string {
	switch t {
	case "c1":
		return r.table + "_c1"
	case "c2":
		return r.table + "_c2"
	}
	return r.table
}

type c01JoinCtx struct {
	*c01Ctx
	tables []string // p | c1 | c2, FROM order
	alias  []bool
	scope  int // number of tables a condition may name (an ON condition sees the tables joined so far)
}

func (c *c01JoinCtx) colSexp(g *core.Gen) core.Sexp {
	t := g.Intn(c.scope)
	switch x := g.Intn(100); {
	case x < 55:
		return core.L(core.A("k"), core.I(int64(t)))
	case x < 72:
		// unqualified sharding column: unique or ambiguous among the tables of the statement
		n := 0
		for _, o := range c.tables[:c.scope] { // only the tables joined so far are registered when an ON condition is handled
			if c01KeyName(o) == c01KeyName(c.tables[t]) {
				n++
			}
		}
		if n > 1 {
			if g.Intn(4) != 0 { // keep most statements free of the ambiguity error
				return core.L(core.A("k"), core.I(int64(t)))
			}
			return core.L(core.A("amb"), core.I(int64(t)))
		}
		return core.L(core.A("ku"), core.I(int64(t)))
	case x < 90:
		return core.L(core.A("o"), core.I(int64(t)))
	}
	return core.L(core.A("ou"))
}

func (c *c01JoinCtx) genCond(g *core.Gen, depth int) core.Sexp {
	sub := func() core.Sexp {
		s := c.genCond(g, depth-1)
		if h := s.Head(); h == "and" || h == "or" {
			return core.L(core.A("par"), s)
		}
		return s
	}
	if depth > 0 && g.Intn(3) != 0 {
		switch g.Intn(5) {
		case 0, 1, 2:
			return core.L(core.A("and"), sub(), sub())
		case 3:
			return core.L(core.A("or"), sub(), sub())
		default:
			return core.L(core.A("par"), c.genCond(g, depth-1))
		}
	}
	switch g.Intn(12) {
	case 0, 1, 2, 3:
		side := "cl"
		if g.Intn(4) == 0 {
			side = "lc"
		}
		return core.L(core.A("cmp"), c.colSexp(g), core.A(side), core.A(core.Pick(g, c01Ops)), c.litSexp(c.mkLit(g)))
	case 4, 5:
		n := 1 + g.Intn(3)
		var ls []core.Sexp
		for i := 0; i < n; i++ {
			ls = append(ls, c.litSexp(c.mkLit(g)))
		}
		return core.L(core.A("in"), c.colSexp(g), core.B(g.Intn(3) == 0), core.L(ls...))
	case 6, 7:
		return core.L(core.A("btw"), c.colSexp(g), core.B(g.Intn(2) == 0), c.litSexp(c.mkLit(g)), c.litSexp(c.mkLit(g)))
	case 8, 9, 10:
		a := g.Intn(c.scope)
		b := g.Intn(c.scope)
		return core.L(core.A("eqcol"), core.I(int64(a)), core.I(int64(b)))
	default:
		return core.L(core.A("other"), core.I(int64(g.Intn(len(c01Other)))), c.litSexp(c.mkLit(g)), core.I(int64(g.Intn(c.scope))))
	}
}

// ranks of the literals of a condition
func c01LitRanks(s core.Sexp, out *[]int64) {
	if s.IsAtom {
		return
	}
	if s.Head() == "lit" {
		if a := s.Nth(2); a.Atom != "n" {
			*out = append(*out, a.Int())
		}
		return
	}
	for _, x := range s.List {
		c01LitRanks(x, out)
	}
}

// a small row universe: the literals of the statement and their neighbours, and a sample of the rule's points
func (c *c01Ctx) smallUniverse(g *core.Gen, conds []core.Sexp) core.Sexp {
	var base []int64
	if c.q != nil {
		base = append(base, c.used.ranks...)
	} else {
		for _, s := range conds {
			c01LitRanks(s, &base)
		}
	}
	for i := 0; i < 10; i++ {
		base = append(base, core.Pick(g, c.pts))
	}
	seen := map[int64]bool{}
	var ranks []int64
	for _, p := range base {
		for _, d := range []int64{-1, 0, 1} {
			if !seen[p+d] {
				seen[p+d] = true
				ranks = append(ranks, p+d)
			}
		}
	}
	sort.Slice(ranks, func(i, j int) bool { return ranks[i] < ranks[j] })
	var us []core.Sexp
	for _, v := range ranks {
		var key interface{} = v
		val := core.I(v)
		if c.r.dateFmt != "" && c.colType != 2 {
			key = time.Unix(v, 0).UTC().Format("2006-01-02 15:04:05")
			if c.q != nil { // literals by kind: a DATETIME row is given as its string
				val = core.L(core.A("s"), core.Text(key.(string)))
			}
		}
		idx, err := c01Find(c.rule, key)
		if err != nil {
			continue
		}
		us = append(us, core.L(val, core.I(int64(idx))))
	}
	return core.L(append([]core.Sexp{core.A("univ")}, us...)...)
}

func genC01Join(g *core.Gen, rt *router.Router) {
	n := g.Scale(2500, 50000)
	maxDepth := g.Scale(2, 3)
	kws := []string{"join", "join", "join", "inner", "cross", "straight", "comma", "comma", "left", "left", "left", "leftouter", "right", "right", "rightouter"}
	for i := 0; i < n; i++ {
		r := &c01Rules[g.Intn(len(c01Rules))]
		if r.name == "linked" {
			continue
		}
		rule := rt.GetRule(r.db, r.table)
		ctx := &c01JoinCtx{c01Ctx: &c01Ctx{r: r, rule: rule, pts: c01Points(r)}}
		if r.dateFmt != "" {
			ctx.colType = g.Intn(3)
		}
		meta := c01Meta(rule)
		if g.Intn(5) < 2 { // literals by kind and value, in every spelling
			ctx.q = &c01QCtx{r: r, rule: rule, pts: ctx.pts, strs: c01StrKeys, strictText: true}
			ctx.used = &c01LitUse{}
			meta = c01MetaTyped(rule)
		}
		pool := []string{"p", "c1", "c2"}
		g.Rand.Shuffle(len(pool), func(a, b int) { pool[a], pool[b] = pool[b], pool[a] })
		nt := 2
		if g.Intn(4) == 0 {
			nt = 3
		}
		ctx.tables = pool[:nt]
		var tbls []core.Sexp
		for _, t := range ctx.tables {
			al := g.Intn(2) == 0
			ctx.alias = append(ctx.alias, al)
			tbls = append(tbls, core.L(core.A(t), core.B(al)))
		}
		kw := make([]string, nt-1)
		for j := range kw {
			kw[j] = core.Pick(g, kws)
		}
		for j := range kw { // a comma binds weaker than JOIN: keep the tree left-deep
			if kw[j] == "comma" {
				for _, later := range kw[j+1:] {
					if later != "comma" {
						kw[j] = "cross"
					}
				}
			}
		}
		var steps []core.Sexp
		var conds []core.Sexp
		for j := range kw {
			using := "none"
			on := core.A("-")
			last := j == len(kw)-1
			needCond := !last || strings.HasPrefix(kw[j], "left") || strings.HasPrefix(kw[j], "right")
			ctx.scope = j + 2
			if kw[j] != "comma" {
				switch x := g.Intn(100); {
				case x < 8 && kw[j] != "straight":
					using = "using"
				case x < 11 && kw[j] != "straight":
					using = "usingq"
				case x < 90 || needCond:
					on = ctx.genCond(g, g.Intn(maxDepth+1))
					conds = append(conds, on)
				}
			}
			steps = append(steps, core.L(core.A(kw[j]), core.A(using), on))
		}
		wh := core.A("-")
		ctx.scope = nt
		if g.Intn(10) < 7 {
			wh = ctx.genCond(g, g.Intn(maxDepth+1))
			conds = append(conds, wh)
		}
		in := core.L(core.A("join"), core.A(r.name), core.I(int64(ctx.colType)),
			core.L(append([]core.Sexp{core.A("tables")}, tbls...)...),
			core.L(append([]core.Sexp{core.A("steps")}, steps...)...),
			wh, meta, ctx.smallUniverse(g, conds))
		g.Emit(in, "rule="+r.name, "stmt=join", fmt.Sprintf("tables=%d", nt), "kw="+kw[0], fmt.Sprintf("join-kinds=%v", ctx.q != nil))
	}
}

type c01JoinRender struct {
	r      *c01Rule
	tables []string
	alias  []bool
}

func (j *c01JoinRender) ref(t int) string {
	if j.alias[t] {
		return "a" + strconv.Itoa(t)
	}
	return c01TableName(j.r, j.tables[t])
}

func (j *c01JoinRender) col(c core.Sexp) string {
	switch c.Head() {
	case "k":
		t := int(c.Nth(1).Int())
		return j.ref(t) + "." + c01KeyName(j.tables[t])
	case "ku", "amb":
		return c01KeyName(j.tables[int(c.Nth(1).Int())])
	case "o":
		return j.ref(int(c.Nth(1).Int())) + ".o"
	}
	return "o"
}

func (j *c01JoinRender) cond(c core.Sexp) string {
	lit := func(l core.Sexp) string { return l.Nth(1).Str() }
	switch c.Head() {
	case "and":
		return j.cond(c.Nth(1)) + " AND " + j.cond(c.Nth(2))
	case "or":
		return j.cond(c.Nth(1)) + " OR " + j.cond(c.Nth(2))
	case "par":
		return "(" + j.cond(c.Nth(1)) + ")"
	case "cmp":
		op := c01OpSQL[c.Nth(3).Atom]
		if c.Nth(2).Atom == "lc" {
			return lit(c.Nth(4)) + " " + op + " " + j.col(c.Nth(1))
		}
		return j.col(c.Nth(1)) + " " + op + " " + lit(c.Nth(4))
	case "in":
		var ls []string
		for _, l := range c.Nth(3).List {
			ls = append(ls, lit(l))
		}
		not := ""
		if c.Nth(2).Bool() {
			not = "NOT "
		}
		return j.col(c.Nth(1)) + " " + not + "IN (" + strings.Join(ls, ",") + ")"
	case "btw":
		not := ""
		if c.Nth(2).Bool() {
			not = "NOT "
		}
		return j.col(c.Nth(1)) + " " + not + "BETWEEN " + lit(c.Nth(3)) + " AND " + lit(c.Nth(4))
	case "eqcol":
		a, b := int(c.Nth(1).Int()), int(c.Nth(2).Int())
		return j.ref(a) + "." + c01KeyName(j.tables[a]) + " = " + j.ref(b) + "." + c01KeyName(j.tables[b])
	case "other":
		t := int(c.Nth(3).Int())
		s := c01Other[int(c.Nth(1).Int())]
		s = strings.ReplaceAll(s, "%%", "%")
		s = strings.ReplaceAll(s, "%k", j.ref(t)+"."+c01KeyName(j.tables[t]))
		s = strings.ReplaceAll(s, "%o", j.ref(t)+".o")
		s = strings.ReplaceAll(s, "%l", lit(c.Nth(2)))
		return "(" + s + ")"
	}
	panic("c01: bad join cond " + c.String())
}

func c01JoinSQL(r *c01Rule, in core.Sexp) string {
	j := &c01JoinRender{r: r}
	for _, t := range in.Nth(3).List[1:] {
		j.tables = append(j.tables, t.Nth(0).Atom)
		j.alias = append(j.alias, t.Nth(1).Bool())
	}
	src := func(t int) string {
		s := c01TableName(r, j.tables[t])
		if j.alias[t] {
			s += " AS a" + strconv.Itoa(t)
		}
		return s
	}
	sql := "SELECT * FROM " + src(0)
	for i, st := range in.Nth(4).List[1:] {
		kw := c01JoinKW[st.Nth(0).Atom]
		if kw == "," {
			sql += ", " + src(i+1)
		} else {
			sql += " " + kw + " " + src(i+1)
		}
		switch st.Nth(1).Atom {
		case "using":
			sql += " USING (o)"
		case "usingq":
			sql += " USING (" + j.ref(i+1) + ".o)"
		}
		if on := st.Nth(2); !on.IsAtom {
			sql += " ON " + j.cond(on)
		}
	}
	if wh := in.Nth(5); !wh.IsAtom {
		sql += " WHERE " + j.cond(wh)
	}
	return sql
}

func execC01Join(in core.Sexp) string {
	rt, err := c01GetRouter()
	if err != nil {
		return "(setup-error " + core.Text(err.Error()).String() + ")"
	}
	r := c01RuleByName(in.Nth(1).Atom)
	if r == nil {
		return "bad"
	}
	sql := c01JoinSQL(r, in)
	node, err := parser.ParseSQL(sql)
	if err != nil {
		return "(parse-error " + core.Text(sql).String() + ")"
	}
	phy := map[string]string{"db_ks": "db_ks", "db_mycat": "db_mycat_0"}
	p, err := plan.BuildPlan(node, phy, r.db, sql, rt, sequence.NewSequenceManager(), nil)
	if err != nil {
		return "err"
	}
	idxs, ok := plan.VerifPlanRouteIndexes(p)
	if !ok {
		return "(not-a-shard-plan)"
	}
	n := 0
	for _, dbs := range plan.VerifPlanSQLs(p) {
		for _, sqls := range dbs {
			n += len(sqls)
		}
	}
	if n != len(idxs) {
		return fmt.Sprintf("(sql-count-mismatch %d %d)", n, len(idxs))
	}
	out := make([]string, len(idxs))
	for i, v := range idxs {
		out[i] = strconv.Itoa(v)
	}
	if len(out) == 0 {
		return "(ok)"
	}
	return "(ok " + strings.Join(out, " ") + ")"
}
