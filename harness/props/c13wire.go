package props

import (
	"fmt"
	"io"
	"net"
	"os"
	"strings"
	"time"

	"gaeaverif/harness/core"

	"github.com/XiaoMi/Gaea/backend"
	gaealog "github.com/XiaoMi/Gaea/log"
	"github.com/XiaoMi/Gaea/mysql"
	"github.com/XiaoMi/Gaea/proxy/server"
)

// C13, request kind `wire`: a whole COM_STMT_EXECUTE result.
//
//   (wire (DEFHEX …) ((TEXTHEX BITS64 BITS32) | (TEXTHEX err) …) ROWHEX …)
//
// A scripted backend (in-memory net.Conn) answers one query with the column
// count, the given column-definition packets, EOF, the given text rows, EOF.
// The real DirectConnection.Execute reads it (FieldData.Parse of every
// definition, RowData.ParseText of every row), the real Session.writeResponse
// sends it to a client as a binary result (BuildBinaryResultSet,
// writeColumnDefinition of every field, the rows), and the harness reads the
// packets the client receives:
//
//   (ok (DEFHEX …) (ROWHEX …)) | (err KIND)
//
// Hooks of /repo used: backend.VerifC39NewDirectConn / VerifC39NewPooled,
// server.VerifC39NewManager / VerifC39NewSession / VerifC39WriteResult.

type c13Addr struct{}

func (c13Addr) Network() string { return "mem" }
func (c13Addr) String() string  { return "mem" }

// c13Backend answers the first COM_QUERY with the scripted bytes.
type c13Backend struct {
	resp   []byte
	in     []byte
	wbuf   []byte
	served bool
}

func (b *c13Backend) Write(p []byte) (int, error) {
	b.wbuf = append(b.wbuf, p...)
	for len(b.wbuf) >= 4 {
		l := int(b.wbuf[0]) | int(b.wbuf[1])<<8 | int(b.wbuf[2])<<16
		if len(b.wbuf) < 4+l {
			break
		}
		payload := b.wbuf[4 : 4+l]
		if l > 0 && payload[0] == mysql.ComQuery && !b.served {
			b.served = true
			b.in = append(b.in, b.resp...)
		} else if l > 0 && payload[0] != mysql.ComQuit {
			b.in = append(b.in, 7, 0, 0, 1, 0, 0, 0, 2, 0, 0, 0)
		}
		b.wbuf = b.wbuf[4+l:]
	}
	return len(p), nil
}

func (b *c13Backend) Read(p []byte) (int, error) {
	if len(b.in) == 0 {
		return 0, io.EOF
	}
	n := copy(p, b.in)
	b.in = b.in[n:]
	return n, nil
}
func (b *c13Backend) Close() error                       { return nil }
func (b *c13Backend) LocalAddr() net.Addr                { return c13Addr{} }
func (b *c13Backend) RemoteAddr() net.Addr               { return c13Addr{} }
func (b *c13Backend) SetDeadline(t time.Time) error      { return nil }
func (b *c13Backend) SetReadDeadline(t time.Time) error  { return nil }
func (b *c13Backend) SetWriteDeadline(t time.Time) error { return nil }

type c13Client struct{ out []byte }

func (c *c13Client) Read(p []byte) (int, error)         { return 0, io.EOF }
func (c *c13Client) Write(p []byte) (int, error)        { c.out = append(c.out, p...); return len(p), nil }
func (c *c13Client) Close() error                       { return nil }
func (c *c13Client) LocalAddr() net.Addr                { return c13Addr{} }
func (c *c13Client) RemoteAddr() net.Addr               { return c13Addr{} }
func (c *c13Client) SetDeadline(t time.Time) error      { return nil }
func (c *c13Client) SetReadDeadline(t time.Time) error  { return nil }
func (c *c13Client) SetWriteDeadline(t time.Time) error { return nil }

type c13NullLog struct{}

func (c13NullLog) SetLevel(name, level string) error                    { return nil }
func (c13NullLog) Debug(format string, a ...interface{}) error          { return nil }
func (c13NullLog) Trace(format string, a ...interface{}) error          { return nil }
func (c13NullLog) Notice(format string, a ...interface{}) error         { return nil }
func (c13NullLog) Warn(format string, a ...interface{}) error           { return nil }
func (c13NullLog) Fatal(format string, a ...interface{}) error          { return nil }
func (c13NullLog) Debugx(logID, format string, a ...interface{}) error  { return nil }
func (c13NullLog) Tracex(logID, format string, a ...interface{}) error  { return nil }
func (c13NullLog) Noticex(logID, format string, a ...interface{}) error { return nil }
func (c13NullLog) Warnx(logID, format string, a ...interface{}) error   { return nil }
func (c13NullLog) Fatalx(logID, format string, a ...interface{}) error  { return nil }
func (c13NullLog) Close()                                               {}
func (c13NullLog) Dropped(i int) uint64                                 { return 0 }

const c13NS = "c13_ns"

var (
	c13Mgr    *server.Manager
	c13MgrErr error
)

func c13Manager() (*server.Manager, error) {
	if c13Mgr != nil || c13MgrErr != nil {
		return c13Mgr, c13MgrErr
	}
	if os.Getenv("VERIF_DEBUG_LOG") == "" {
		gaealog.SetGlobalLogger(c13NullLog{})
	}
	dir, err := os.MkdirTemp("", "gaea-verif-c13.")
	if err != nil {
		c13MgrErr = err
		return nil, err
	}
	proxyINI := "config_type=file\nfile_config_path=" + dir + "\ncluster_name=gaea\nservice_name=gaea_proxy\nenviron=local\n" +
		"log_path=" + dir + "\nlog_level=fatal\nlog_filename=gaea\nlog_output=file\nproto_type=tcp4\nproxy_addr=127.0.0.1:0\nadmin_addr=127.0.0.1:0\n" +
		"admin_user=a\nadmin_password=a\nslow_sql_time=100000\nsession_timeout=3600\nstats_enabled=false\nencrypt_key=1234abcd5678efg*\nserver_idc=c3\n"
	nsJSON := `{"name":"` + c13NS + `","online":true,"read_only":false,"allowed_dbs":{"db_ks":true},"default_phy_dbs":{"db_ks":"db_ks"},` +
		`"slices":[{"name":"slice-0","user_name":"u","password":"p","master":"127.0.0.1:1","capacity":2,"max_capacity":4,"idle_timeout":3600}],"shard_rules":[],` +
		`"users":[{"user_name":"c13","password":"c13","namespace":"` + c13NS + `","rw_flag":2,"rw_split":0}],` +
		`"default_slice":"slice-0","max_sql_execute_time":0,"max_sql_result_size":-1}`
	c13Mgr, c13MgrErr = server.VerifC39NewManager(proxyINI, nsJSON)
	// nothing is logged at level fatal with statistics off: the directory stays empty
	os.RemoveAll(dir)
	return c13Mgr, c13MgrErr
}

func c13Frame(dst []byte, seq *uint8, payload []byte) []byte {
	const M = mysql.MaxPacketSize
	for {
		l := len(payload)
		if l > M {
			l = M
		}
		dst = append(dst, byte(l), byte(l>>8), byte(l>>16), *seq)
		*seq++
		dst = append(dst, payload[:l]...)
		payload = payload[l:]
		if l < M {
			return dst
		}
	}
}

// c13Packets splits what a client received into packet payloads.
func c13Packets(out []byte) ([][]byte, bool) {
	var pk [][]byte
	var cur []byte
	seq := uint8(1)
	pos := 0
	for pos+4 <= len(out) {
		l := int(out[pos]) | int(out[pos+1])<<8 | int(out[pos+2])<<16
		if pos+4+l > len(out) || out[pos+3] != seq {
			return nil, false
		}
		seq++
		if l == mysql.MaxPacketSize || cur != nil {
			cur = append(cur, out[pos+4:pos+4+l]...)
			if l < mysql.MaxPacketSize {
				pk = append(pk, cur)
				cur = nil
			}
		} else {
			pk = append(pk, out[pos+4:pos+4+l])
		}
		pos += 4 + l
	}
	return pk, pos == len(out) && cur == nil
}

func c13WireErrKind(err error) string {
	m := err.Error()
	switch {
	case strings.HasSuffix(m, "in Parse failed"), strings.HasPrefix(m, "read ") && strings.HasSuffix(m, " failed"),
		strings.Contains(m, "Malform packet"), strings.Contains(m, "malform packet"):
		return "field-def"
	case strings.HasPrefix(m, "internal error: packing of column definition"):
		return "def-write"
	}
	return c13ErrKind(err)
}

// c13ColumnCount is the column-count packet of a result set of n columns.
func c13ColumnCount(n int) []byte {
	if n < 251 {
		return []byte{byte(n)}
	}
	return []byte{0xfc, byte(n), byte(n >> 8)}
}

func isC13EOF(p []byte) bool { return len(p) > 0 && p[0] == mysql.EOFHeader && len(p) <= 5 }

func execC13Wire(in core.Sexp) string {
	m, err := c13Manager()
	if err != nil {
		return "(setup-failed " + core.Text(err.Error()).String() + ")"
	}
	var defs [][]byte
	for _, d := range in.Nth(1).List {
		defs = append(defs, d.Bytes())
	}
	var rows [][]byte
	for _, r := range in.List[3:] {
		rows = append(rows, r.Bytes())
	}
	seq := uint8(1)
	var resp []byte
	resp = c13Frame(resp, &seq, c13ColumnCount(len(defs)))
	for _, d := range defs {
		resp = c13Frame(resp, &seq, d)
	}
	resp = c13Frame(resp, &seq, []byte{mysql.EOFHeader, 0, 0, 2, 0})
	for _, r := range rows {
		resp = c13Frame(resp, &seq, r)
	}
	resp = c13Frame(resp, &seq, []byte{mysql.EOFHeader, 0, 0, 2, 0})

	b := &c13Backend{resp: resp}
	pc := backend.VerifC39NewPooled(backend.VerifC39NewDirectConn(b, "mem"))
	rs, err := pc.Execute("SELECT /*c13*/ 1", 0)
	if err != nil {
		return "(err " + c13WireErrKind(err) + ")"
	}
	if len(b.in) != 0 {
		return "(backend-bytes-left)"
	}
	cl := &c13Client{}
	sess := server.VerifC39NewSession(m, c13NS, "c13", "db_ks", cl)
	if werr := sess.VerifC39WriteResult(rs, nil, true); werr != nil {
		return "(err " + c13WireErrKind(werr) + ")"
	}
	pk, ok := c13Packets(cl.out)
	if !ok || len(pk) < 3+len(defs) {
		return "(client-stream-garbled)"
	}
	if string(pk[0]) != string(c13ColumnCount(len(defs))) {
		return "(column-count-differs)"
	}
	if !isC13EOF(pk[1+len(defs)]) || !isC13EOF(pk[len(pk)-1]) {
		return "(client-framing-differs)"
	}
	var ds, rs2 []string
	for _, d := range pk[1 : 1+len(defs)] {
		ds = append(ds, core.Hex(d).String())
	}
	for _, r := range pk[2+len(defs) : len(pk)-1] {
		rs2 = append(rs2, core.Hex(r).String())
	}
	return fmt.Sprintf("(ok (%s) (%s))", strings.Join(ds, " "), strings.Join(rs2, " "))
}

// ---- generator ----

// c13Def builds the packet a server sends for a column.
func c13Def(catalog, schema, table, orgTable, name, orgName []byte, charset uint16, length uint32, typ uint8, flags uint16, decimals uint8) []byte {
	var d []byte
	for _, s := range [][]byte{catalog, schema, table, orgTable, name, orgName} {
		d = c13AppendCell(d, s)
	}
	d = append(d, 0x0c, byte(charset), byte(charset>>8), byte(length), byte(length>>8), byte(length>>16), byte(length>>24),
		typ, byte(flags), byte(flags>>8), decimals, 0, 0)
	return d
}

func c13Name(g *core.Gen) []byte {
	switch g.Intn(12) {
	case 0:
		return []byte{}
	case 1:
		return []byte(strings.Repeat("n", core.Pick(g, []int{250, 251, 252, 300})))
	case 2:
		b := make([]byte, 1+g.Intn(6))
		g.Rand.Read(b)
		return b
	case 3:
		return []byte("名前")
	}
	return []byte(core.Pick(g, []string{"id", "c1", "t", "db_ks", "tbl_ks", "COUNT(*)", "a b", "`x`", "col_with_a_longer_name"}))
}

func c13RandDef(g *core.Gen, c c13Col) []byte {
	charset := core.Pick(g, []uint16{63, 33, 45, 255, 8, 224, 0, 0xffff, uint16(g.Intn(1 << 16))})
	length := core.Pick(g, []uint32{0, 1, 3, 11, 20, 255, 65535, 1 << 24, 0xffffffff, g.Rand.Uint32()})
	decimals := core.Pick(g, []uint8{0, 0, 2, 6, 30, 31, 0x27, 255, uint8(g.Intn(256))})
	catalog := []byte("def")
	return c13Def(catalog, c13Name(g), c13Name(g), c13Name(g), c13Name(g), c13Name(g), charset, length, c.t, c.flag, decimals)
}

// c13MangleDef damages a column definition, or spells it in a way no server does.
func c13MangleDef(g *core.Gen, c c13Col) ([]byte, string) {
	d := c13RandDef(g, c)
	switch g.Intn(8) {
	case 0: // truncated somewhere in the fixed part (Parse indexes past the packet)
		return d[:len(d)-1-g.Intn(12)], "def-truncated"
	case 1: // truncated inside the strings
		// (not the empty packet: the reader of the result set indexes its first byte)
		return d[:1+g.Intn(len(d)-14)], "def-truncated-strings"
	case 2: // a default value follows (COM_FIELD_LIST form)
		dv := c13RandBytes(g)
		return c13AppendCell(d, dv), "def-default"
	case 3: // a default value whose length runs past the packet
		return append(d, 0xfc, 0xff, 0x7f, 'x'), "def-default-long"
	case 4: // another catalog
		return c13Def([]byte("xyz"), []byte("s"), []byte("t"), []byte("t"), []byte("c"), []byte("c"), 33, 10, c.t, c.flag, 0), "def-catalog"
	case 5: // NULL marker where a name should be
		return c13Def([]byte("def"), nil, nil, nil, nil, nil, 33, 10, c.t, c.flag, 0)[:4:4], "def-cut"
	case 6: // non-minimal length prefixes
		var out []byte
		for _, s := range [][]byte{[]byte("def"), []byte("s"), []byte("t"), []byte("t"), []byte("c"), []byte("c")} {
			out = append(out, 0xfc, byte(len(s)), 0)
			out = append(out, s...)
		}
		return append(out, 0x0c, 33, 0, 10, 0, 0, 0, c.t, byte(c.flag), byte(c.flag>>8), 0, 0, 0), "def-nonminimal"
	default: // trailing garbage that is not a length
		return append(d, 0xff), "def-trailing"
	}
}

func c13EmitWire(g *core.Gen, defs [][]byte, cols []c13Col, rows [][]byte, tags ...string) {
	ds := make([]core.Sexp, len(defs))
	for i, d := range defs {
		ds[i] = core.Hex(d)
	}
	xs := []core.Sexp{core.A("wire"), core.L(ds...), core.L(c13FloatTable(cols, rows)...)}
	for _, r := range rows {
		xs = append(xs, core.Hex(r))
	}
	g.Emit(core.L(xs...), tags...)
}

func genC13Wire(g *core.Gen) {
	// every type × signedness once, with a value, a NULL and a sentinel
	for _, t := range c13Types {
		for _, flag := range []uint16{0, 32} {
			cols := []c13Col{{t, flag}, {3, 0}}
			defs := [][]byte{c13RandDef(g, cols[0]), c13RandDef(g, cols[1])}
			rows := [][]byte{c13Row([][]byte{c13Cell(g, t, flag), []byte("7")}), c13Row([][]byte{nil, []byte("-7")})}
			c13EmitWire(g, defs, cols, rows, "wire", "wire-type:"+c13TypeName(t))
		}
	}
	// column counts around the bitmap and column-count boundaries
	for _, n := range []int{1, 6, 7, 8, 9, 14, 15, 16, 17, 250, 251, 252, 300} {
		cols := make([]c13Col, n)
		defs := make([][]byte, n)
		for i := range cols {
			cols[i] = c13Col{core.Pick(g, []uint8{1, 3, 8, 0xfd, 10, 12, 11, 0xf6}), c13Flag(g)}
			defs[i] = c13RandDef(g, cols[i])
		}
		var rows [][]byte
		for _, k := range []int{-1, 0, n - 1, n / 2, 5, 6, 7} {
			if k >= n {
				continue
			}
			cells := make([][]byte, n)
			for i := range cells {
				if i != k {
					cells[i] = c13Cell(g, cols[i].t, cols[i].flag)
				}
			}
			rows = append(rows, c13Row(cells))
		}
		c13EmitWire(g, defs, cols, rows, "wire", "wire-wide")
	}
	n := g.Scale(400, 3000)
	for i := 0; i < n; i++ {
		nc := core.Pick(g, []int{1, 1, 2, 3, 4, 7, 8, 9, 1 + g.Intn(20)})
		cols := make([]c13Col, nc)
		defs := make([][]byte, nc)
		tag := "wire"
		for j := range cols {
			t := core.Pick(g, c13Supported)
			if g.Intn(40) == 0 {
				t = core.Pick(g, c13Types)
			}
			cols[j] = c13Col{t, c13Flag(g)}
			defs[j] = c13RandDef(g, cols[j])
		}
		if g.Intn(8) == 0 {
			j := g.Intn(nc)
			defs[j], tag = c13MangleDef(g, cols[j])
		}
		nr := core.Pick(g, []int{0, 1, 1, 2, 3})
		rows := make([][]byte, nr)
		for r := range rows {
			cells := make([][]byte, nc)
			for j := range cells {
				if g.Intn(8) != 0 {
					cells[j] = c13Cell(g, cols[j].t, cols[j].flag)
				}
			}
			rows[r] = c13Row(cells)
			// a row packet must not look like an EOF or ERR packet to the reader
			if len(rows[r]) == 0 || rows[r][0] == 0xff || (rows[r][0] == 0xfe && len(rows[r]) <= 5) {
				rows[r] = c13Row(append([][]byte{[]byte("1")}, cells[1:]...))
			}
		}
		c13EmitWire(g, defs, cols, rows, tag, fmt.Sprintf("wire-cols:%d", min(nc, 10)))
	}
}
