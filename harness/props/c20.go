package props

import (
	"errors"
	"fmt"
	"io"
	"math/big"
	"net"
	"sort"
	"strconv"
	"strings"
	"sync"
	"time"

	"gaeaverif/harness/core"

	"github.com/XiaoMi/Gaea/backend"
	"github.com/XiaoMi/Gaea/log"
	"github.com/XiaoMi/Gaea/mysql"
	"github.com/XiaoMi/Gaea/parser/types"
	"github.com/XiaoMi/Gaea/proxy/server"
	"github.com/XiaoMi/Gaea/util"
)

// C20 — session settings never leak between clients sharing pooled connections.
//
// One line is a whole history:
//
//	(c20 (cfg DEFCS DEFCOLL PROXYVER PROXY803 (allowed (NAME TYPE)…))
//	     (clients (CS COLL)…)
//	     (conns (CS COLL VER COLL247 V803)…)
//	     (ops OP…))
//	OP  = (set C (a KIND NAME LIT [LIT])…)   KIND: sys ses glob user names
//	    | (run C K FAULT) | (sync C K FAULT)  FAULT: ok sqlmode other
//	LIT = (i N) | (w WORD) | (s TEXT) | (e EXPR)
//	EXPR = (i N) | (s TEXT) | null | (uv NAME) | (sv NAME) | (ssv NAME) | (gv NAME) | (cat EXPR EXPR) | (add EXPR EXPR)
//	       @NAME, @@NAME, @@SESSION.NAME, @@GLOBAL.NAME, CONCAT(E, E), E + E: a value the proxy cannot evaluate
//
// (all names and texts are hex atoms). The real code that runs: the parser and
// SessionExecutor.handleSet for `set`; initBackendConn →
// InitializeSessionVariables → DirectConnection.SetCharset /
// SetSessionVariables / WriteSetStatement → COM_QUERY over an in-memory
// transport for `run`; DirectConnection.SyncSessionVariables for `sync`. The
// other end of the transport is a scripted MySQL session that parses the SET
// statement text, applies it atomically — evaluating every value: literals,
// user variables, session and global system variables, CONCAT and + — or
// rejects it, and reports its state when the client's statement executes. PROXY803, COLL247 and V803 are what
// util.NewVersionCompareStatus reports for the version strings at generation
// time (the model takes the flags, the implementation the versions).
//
// Output: one element per operation
//
//	(set ok|err|panic CLI)
//	(run ok|err-charset|err-set STMT BE CLI CONN)   BE is the backend session when the statement executed (ok) / after the failure
//	(sync ok|err-set STMT BE CONN)                  BE is the backend session the transaction starts on
//	bad
//	CLI  = (cli CS COLL (NAME s|i|u VALUE)…)         the proxy's record of the client, sorted
//	BE   = (be CS COLLNAME (NAME TEXT)…)
//	CONN = (conn open|closed CS COLL ((NAME s|i|u VALUE)…) (UNUSED…))   the belief before Recycle
//	STMT = none | hex of the SET statement with its assignments sorted

func init() {
	core.Register(&core.Property{
		ID: "C20",
		Rule: "histories of 2-4 clients over a pool of 1-3 connections (mixed server versions): SET of allow-listed, namespace-allowed, user and unknown variables " +
			"with int/word/string literals incl. DEFAULT/NULL/boundary ints/bad values and with expressions (CONCAT, +, user / session / global variables) as values, both spellings of transaction_read_only held by one client, SET NAMES with and without COLLATE (matching, mismatching, unknown, >247), " +
			"statement executions and transaction starts on chosen connections with the backend accepting or rejecting (1231 sql_mode / other) the SET statement; " +
			"plus three focused streams (two spellings on a >= 8.0.3 backend; changes after an executed statement followed by a rejected SET; clients taking turns on one connection whose settings are a subset / the empty set / the same / a superset / other values / disjoint, with and without a charset difference); " +
			"non-trivial = at least one client statement executed on a backend after a SET statement was sent",
		Generate: genC20,
		Exec:     execC20,
		Trivial: func(in core.Sexp, out string) bool {
			return !(strings.Contains(out, "(run ok ") && c20SentSomething(out))
		},
		Extra: c20Extra,
		Assumptions: []string{
			"MySQL applies a SET statement atomically, left to right (each value is evaluated in the session as the assignments before it left it), or rejects it as a whole; `x = DEFAULT` and `@u = NULL` restore the default; variables are independent of each other (tx_read_only/transaction_read_only aliasing inside the server is not modelled); of MySQL's expressions the scripted session knows literals, NULL, @user, @@session / @@global variables, CONCAT of two arguments and + on integers",
			"a value that is an expression stands for the value it has in the client's own session when the client sends the SET statement; an expression that refers to a variable assigned in the same SET statement is not generated (the order of the assignments the proxy writes is the order of a Go map)",
			"the pool hands a connection to one session at a time and replaces a closed connection by a fresh one (properties C19/C24); one operation = get, initBackendConn, execute, recycle",
			"the SQL parser and the Restore of literal expressions are used as they are (only int, bare-word and simple quoted literals are generated; quotes/commas inside values belong to C15)",
			"a client's requested settings are what the proxy recorded for it after acknowledging its SET statements (for a literal value: the recorded text; for an expression: its value, see above); a SET statement the backend rejects cancels what the client has set since its last executed statement",
		},
	})
}

// c20Extra: the runner keeps only the first 200 judged violations of a run, and
// the listed finding alone can fill that list in the long tiers; a violation of
// another class on an input where the implementation left the model must not be
// lost behind it. The recorded disagreements are judged again and put first.
func c20Extra(r *core.Run) {
	res := r.Res
	if len(res.Disagreements) == 0 || res.NViolations <= len(res.Violations) {
		return
	}
	have := map[string]bool{}
	for _, v := range res.Violations {
		if strings.HasPrefix(v.Class, "impl-differs") {
			have[v.Input] = true
		}
	}
	var ask []string
	var idx []int
	for i, d := range res.Disagreements {
		if d.Input == "" || have[d.Input] {
			continue
		}
		ask = append(ask, "C20 s "+d.Input+" "+d.Impl)
		idx = append(idx, i)
	}
	ans, err := core.DriverBatch(r.Driver, ask)
	if err != nil {
		return
	}
	var front []core.Finding
	for k, a := range ans {
		if strings.HasPrefix(a, "viol") {
			d := res.Disagreements[idx[k]]
			front = append(front, core.Finding{Kind: "failing-input", Class: "impl-differs " + strings.TrimSpace(strings.TrimPrefix(a, "viol")),
				Input: d.Input, Impl: d.Impl, Model: d.Model, Detail: "implementation differs from the model and the property oracle rejects the implementation's result"})
		}
	}
	if len(front) > 0 {
		res.Violations = append(front, res.Violations...)
		if len(res.Violations) > 200 {
			res.Violations = res.Violations[:200]
		}
	}
}

func c20SentSomething(out string) bool {
	// a statement atom that is not "none" follows "(run ok "
	i := 0
	for {
		j := strings.Index(out[i:], "(run ok ")
		if j < 0 {
			return false
		}
		rest := out[i+j+len("(run ok "):]
		if !strings.HasPrefix(rest, "none") {
			return true
		}
		i += j + 1
	}
}

// ---------- no-op logger ----------

type c20NopLogger struct{}

func (c20NopLogger) SetLevel(name, level string) error                    { return nil }
func (c20NopLogger) Debug(format string, a ...interface{}) error          { return nil }
func (c20NopLogger) Trace(format string, a ...interface{}) error          { return nil }
func (c20NopLogger) Notice(format string, a ...interface{}) error         { return nil }
func (c20NopLogger) Warn(format string, a ...interface{}) error           { return nil }
func (c20NopLogger) Fatal(format string, a ...interface{}) error          { return nil }
func (c20NopLogger) Debugx(logID, format string, a ...interface{}) error  { return nil }
func (c20NopLogger) Tracex(logID, format string, a ...interface{}) error  { return nil }
func (c20NopLogger) Noticex(logID, format string, a ...interface{}) error { return nil }
func (c20NopLogger) Warnx(logID, format string, a ...interface{}) error   { return nil }
func (c20NopLogger) Fatalx(logID, format string, a ...interface{}) error  { return nil }
func (c20NopLogger) Close()                                               {}
func (c20NopLogger) Dropped(i int) uint64                                 { return 0 }

var c20LogOnce sync.Once

// ---------- scripted MySQL session behind an in-memory transport ----------

type c20Backend struct {
	charset   string
	collation string
	vars      map[string]string
	fault     string // reaction to the next SET statement: ok | sqlmode | other
	lastSet   string // canonical text of the last SET statement received in this operation ("" none)
	execState string // session state when the last non-SET statement executed
	protoErr  string
}

func newC20Backend(charset string, collation mysql.CollationID) *c20Backend {
	return &c20Backend{charset: charset, collation: mysql.Collations[collation], vars: map[string]string{}, fault: "ok"}
}

// c20Globals are the global variables of every scripted backend (lean/GaeaVerif/Drv/C20.lean: serverGlobals).
var c20Globals = map[string]string{"sql_mode": "'ONLY_FULL_GROUP_BY'", "max_connections": "151", "foo_str": "'gdef'", "foo_int": "3", "foo_ref": "9"}

// ---------- the scripted session's expression language (Model/SessionVars.lean: parseE, evalExpr, evalText) ----------

type c20Expr struct {
	kind string // int str null uvar svar gvar cat add
	i    *big.Int
	s    string
	a, b *c20Expr
}

func c20IsNameChar(c byte) bool {
	return c >= 'a' && c <= 'z' || c >= 'A' && c <= 'Z' || c >= '0' && c <= '9' || c == '_'
}

func c20ParseName(cs string, kind string) (*c20Expr, string, bool) {
	n := 0
	for n < len(cs) && c20IsNameChar(cs[n]) {
		n++
	}
	if n == 0 {
		return nil, "", false
	}
	return &c20Expr{kind: kind, s: cs[:n]}, cs[n:], true
}

// c20ParseE parses a sum of terms; a term is a literal, NULL, a variable or CONCAT(e, e).
func c20ParseE(cs string) (*c20Expr, string, bool) {
	var a *c20Expr
	var rest string
	ok := false
	switch {
	case strings.HasPrefix(cs, "'"):
		r := cs[1:]
		i := strings.IndexByte(r, '\'')
		if i >= 0 {
			a, rest, ok = &c20Expr{kind: "str", s: r[:i]}, r[i+1:], true
		}
	case strings.HasPrefix(cs, "@@"):
		r := cs[2:]
		switch {
		case strings.HasPrefix(r, "GLOBAL."):
			a, rest, ok = c20ParseName(r[len("GLOBAL."):], "gvar")
		case strings.HasPrefix(r, "SESSION."):
			a, rest, ok = c20ParseName(r[len("SESSION."):], "svar")
		default:
			a, rest, ok = c20ParseName(r, "svar")
		}
	case strings.HasPrefix(cs, "@"):
		a, rest, ok = c20ParseName(cs[1:], "uvar")
	case strings.HasPrefix(cs, "NULL"):
		r := cs[4:]
		if len(r) == 0 || !c20IsNameChar(r[0]) {
			a, rest, ok = &c20Expr{kind: "null"}, r, true
		}
	case strings.HasPrefix(cs, "CONCAT("):
		x, r1, ok1 := c20ParseE(cs[len("CONCAT("):])
		if ok1 && strings.HasPrefix(r1, ", ") {
			y, r2, ok2 := c20ParseE(r1[2:])
			if ok2 && strings.HasPrefix(r2, ")") {
				a, rest, ok = &c20Expr{kind: "cat", a: x, b: y}, r2[1:], true
			}
		}
	default:
		ds0, neg := cs, false
		if strings.HasPrefix(cs, "-") {
			ds0, neg = cs[1:], true
		}
		n := 0
		for n < len(ds0) && ds0[n] >= '0' && ds0[n] <= '9' {
			n++
		}
		if n > 0 {
			v, _ := new(big.Int).SetString(ds0[:n], 10)
			if neg {
				v.Neg(v)
			}
			a, rest, ok = &c20Expr{kind: "int", i: v}, ds0[n:], true
		}
	}
	if !ok {
		return nil, "", false
	}
	if strings.HasPrefix(rest, "+") {
		b, r, ok2 := c20ParseE(rest[1:])
		if !ok2 {
			return nil, "", false
		}
		return &c20Expr{kind: "add", a: a, b: b}, r, true
	}
	return a, rest, true
}

func c20ParseText(t string) *c20Expr {
	e, rest, ok := c20ParseE(t)
	if !ok || rest != "" {
		return nil
	}
	return e
}

// a value: kind int / str / null
type c20V struct {
	kind string
	i    *big.Int
	s    string
}

func (v c20V) text() string {
	switch v.kind {
	case "int":
		return v.i.String()
	case "str":
		return "'" + v.s + "'"
	}
	return "NULL"
}

func (v c20V) plain() string {
	switch v.kind {
	case "int":
		return v.i.String()
	case "str":
		return v.s
	}
	return ""
}

func c20ValOfText(t string) c20V {
	if e := c20ParseText(t); e != nil {
		switch e.kind {
		case "int":
			return c20V{kind: "int", i: e.i}
		case "str":
			return c20V{kind: "str", s: e.s}
		case "null":
			return c20V{kind: "null"}
		}
	}
	return c20V{kind: "str", s: t}
}

func c20Lookup(m map[string]string, k string) (c20V, bool) {
	t, ok := m[k]
	if !ok {
		return c20V{}, false
	}
	return c20ValOfText(t), true
}

func c20Eval(g, vars map[string]string, e *c20Expr) c20V {
	null := c20V{kind: "null"}
	switch e.kind {
	case "int":
		return c20V{kind: "int", i: e.i}
	case "str":
		return c20V{kind: "str", s: e.s}
	case "null":
		return null
	case "uvar":
		if v, ok := c20Lookup(vars, "@"+e.s); ok {
			return v
		}
		return null
	case "svar":
		if v, ok := c20Lookup(vars, e.s); ok {
			return v
		}
		if v, ok := c20Lookup(g, e.s); ok {
			return v
		}
		return null
	case "gvar":
		if v, ok := c20Lookup(g, e.s); ok {
			return v
		}
		return null
	case "cat":
		x, y := c20Eval(g, vars, e.a), c20Eval(g, vars, e.b)
		if x.kind == "null" || y.kind == "null" {
			return null
		}
		return c20V{kind: "str", s: x.plain() + y.plain()}
	case "add":
		x, y := c20Eval(g, vars, e.a), c20Eval(g, vars, e.b)
		if x.kind == "int" && y.kind == "int" {
			return c20V{kind: "int", i: new(big.Int).Add(x.i, y.i)}
		}
		return null
	}
	return null
}

// c20EvalText: what a session stores when it is assigned the text t.
func c20EvalText(g, vars map[string]string, t string) string {
	e := c20ParseText(t)
	if e == nil || e.kind == "int" || e.kind == "str" || e.kind == "null" {
		return t
	}
	return c20Eval(g, vars, e).text()
}

func (b *c20Backend) state() string {
	names := make([]string, 0, len(b.vars))
	for k := range b.vars {
		names = append(names, k)
	}
	sort.Strings(names)
	xs := []core.Sexp{core.A("be"), core.Text(b.charset), core.Text(b.collation)}
	for _, k := range names {
		xs = append(xs, core.L(core.Text(k), core.Text(b.vars[k])))
	}
	return core.L(xs...).String()
}

// splitTop splits at commas outside single quotes and parentheses.
func c20SplitTop(s string) []string {
	var parts []string
	inq := false
	depth := 0
	start := 0
	for i := 0; i < len(s); i++ {
		c := s[i]
		switch {
		case c == '\'':
			inq = !inq
		case inq:
		case c == '(':
			depth++
		case c == ')':
			if depth > 0 {
				depth--
			}
		case c == ',' && depth == 0:
			parts = append(parts, s[start:i])
			start = i + 1
		}
	}
	return append(parts, s[start:])
}

type c20Item struct {
	names    bool
	key, val string // names: charset, collation
}

func c20ParseSet(sql string) ([]c20Item, bool) {
	if !strings.HasPrefix(sql, "SET ") {
		return nil, false
	}
	var items []c20Item
	for _, p := range c20SplitTop(sql[4:]) {
		if strings.HasPrefix(p, "NAMES '") {
			rest := p[len("NAMES '"):]
			i := strings.Index(rest, "' COLLATE '")
			if i < 0 || !strings.HasSuffix(rest, "'") || len(rest) < i+len("' COLLATE '")+1 {
				return nil, false
			}
			items = append(items, c20Item{names: true, key: rest[:i], val: rest[i+len("' COLLATE '") : len(rest)-1]})
			continue
		}
		i := strings.Index(p, " = ")
		if i <= 0 {
			return nil, false
		}
		key, val := p[:i], p[i+3:]
		if val == "" || strings.ContainsAny(key, " '") && !strings.HasPrefix(key, "@") {
			return nil, false
		}
		if strings.Count(val, "'")%2 != 0 {
			return nil, false
		}
		items = append(items, c20Item{key: key, val: val})
	}
	return items, true
}

// canonical text: the NAMES element first as written, the assignments sorted.
func c20Canonical(sql string) string {
	if !strings.HasPrefix(sql, "SET ") {
		return sql
	}
	parts := c20SplitTop(sql[4:])
	if len(parts) > 1 {
		sort.Strings(parts[1:])
	}
	return "SET " + strings.Join(parts, ",")
}

func (b *c20Backend) okPacket() []byte {
	return []byte{0x00, 0, 0, 0x02, 0x00, 0, 0}
}

func (b *c20Backend) errPacket(code uint16, msg string) []byte {
	p := []byte{0xff, byte(code), byte(code >> 8), '#', '4', '2', '0', '0', '0'}
	return append(p, msg...)
}

// handle one command packet, return the response payload.
func (b *c20Backend) handle(payload []byte) []byte {
	if len(payload) == 0 {
		b.protoErr = "empty packet"
		return b.errPacket(1047, "empty")
	}
	switch payload[0] {
	case mysql.ComQuery:
		sql := string(payload[1:])
		if strings.HasPrefix(sql, "SET ") && !strings.HasPrefix(sql, "SET autocommit") {
			b.lastSet = c20Canonical(sql)
			items, ok := c20ParseSet(sql)
			if !ok {
				return b.errPacket(1064, "You have an error in your SQL syntax")
			}
			fault := b.fault
			b.fault = "ok"
			switch fault {
			case "sqlmode":
				return b.errPacket(mysql.ErrWrongValueForVar, "Variable 'sql_mode' can't be set to the value of 'x'")
			case "other":
				return b.errPacket(1193, "Unknown system variable 'x'")
			}
			for _, it := range items {
				if it.names {
					b.charset, b.collation = it.key, it.val
				} else if v := c20EvalText(c20Globals, b.vars, it.val); strings.ToLower(v) == "default" || (strings.HasPrefix(it.key, "@") && v == "NULL") {
					delete(b.vars, it.key)
				} else {
					b.vars[it.key] = v
				}
			}
			return b.okPacket()
		}
		b.execState = b.state()
		return b.okPacket()
	case mysql.ComInitDB, mysql.ComPing:
		return b.okPacket()
	case mysql.ComQuit:
		return nil
	}
	b.protoErr = fmt.Sprintf("unexpected command %d", payload[0])
	return b.errPacket(1047, "unknown command")
}

// c20Pipe is the client side of the transport: complete packets written to it
// are handed to the backend, whose response is queued for Read.
type c20Pipe struct {
	be     *c20Backend
	in     []byte
	out    []byte
	closed bool
}

func (p *c20Pipe) Write(d []byte) (int, error) {
	if p.closed {
		return 0, errors.New("use of closed connection")
	}
	p.in = append(p.in, d...)
	for len(p.in) >= 4 {
		n := int(p.in[0]) | int(p.in[1])<<8 | int(p.in[2])<<16
		if len(p.in) < 4+n {
			break
		}
		seq := p.in[3]
		payload := append([]byte{}, p.in[4:4+n]...)
		p.in = p.in[4+n:]
		resp := p.be.handle(payload)
		if resp != nil {
			p.out = append(p.out, byte(len(resp)), byte(len(resp)>>8), byte(len(resp)>>16), seq+1)
			p.out = append(p.out, resp...)
		}
	}
	return len(d), nil
}

func (p *c20Pipe) Read(d []byte) (int, error) {
	if p.closed {
		return 0, errors.New("use of closed connection")
	}
	if len(p.out) == 0 {
		return 0, io.EOF
	}
	n := copy(d, p.out)
	p.out = p.out[n:]
	return n, nil
}

type c20Addr struct{}

func (c20Addr) Network() string { return "mem" }
func (c20Addr) String() string  { return "mem" }

func (p *c20Pipe) Close() error                       { p.closed = true; return nil }
func (p *c20Pipe) LocalAddr() net.Addr                { return c20Addr{} }
func (p *c20Pipe) RemoteAddr() net.Addr               { return c20Addr{} }
func (p *c20Pipe) SetDeadline(t time.Time) error      { return nil }
func (p *c20Pipe) SetReadDeadline(t time.Time) error  { return nil }
func (p *c20Pipe) SetWriteDeadline(t time.Time) error { return nil }

// ---------- the system ----------

type c20SlotCfg struct {
	charset   string
	collation mysql.CollationID
	version   string
}

type c20Slot struct {
	cfg c20SlotCfg
	be  *c20Backend
	dc  *backend.DirectConnection
	pc  backend.PooledConnect
}

func newC20Slot(cfg c20SlotCfg) *c20Slot {
	be := newC20Backend(cfg.charset, cfg.collation)
	dc := backend.VerifNewDirectConnection(&c20Pipe{be: be}, cfg.charset, cfg.collation, cfg.version)
	return &c20Slot{cfg: cfg, be: be, dc: dc, pc: backend.VerifNewPooledConnect(dc)}
}

func c20Val(v interface{}) (string, string) {
	switch x := v.(type) {
	case string:
		return "s", x
	case int64:
		return "i", strconv.FormatInt(x, 10)
	case types.UserVariablesType:
		return "u", string(x)
	}
	return "x", fmt.Sprintf("%v", v)
}

func c20VarList(names []string, values []interface{}) []core.Sexp {
	var xs []core.Sexp
	for i, n := range names {
		t, v := c20Val(values[i])
		xs = append(xs, core.L(core.Text(n), core.A(t), core.Text(v)))
	}
	return xs
}

func c20Client(se *server.SessionExecutor) core.Sexp {
	all := se.GetVariables().GetAll()
	names := make([]string, 0, len(all))
	for k := range all {
		names = append(names, k)
	}
	sort.Strings(names)
	values := make([]interface{}, len(names))
	for i, n := range names {
		values[i] = all[n].Get()
	}
	xs := []core.Sexp{core.A("cli"), core.Text(se.GetCharset()), core.I(int64(se.GetCollationID()))}
	return core.L(append(xs, c20VarList(names, values)...)...)
}

func c20Conn(s *c20Slot) core.Sexp {
	cs, coll, names, values, unused := backend.VerifBelief(s.dc)
	st := "open"
	if s.pc.IsClosed() {
		st = "closed"
	}
	var us []core.Sexp
	for _, u := range unused {
		us = append(us, core.Text(u))
	}
	return core.L(core.A("conn"), core.A(st), core.Text(cs), core.I(int64(coll)), core.L(c20VarList(names, values)...), core.L(us...))
}

func c20ExprSQL(e core.Sexp) string {
	if e.Atom == "null" {
		return "NULL"
	}
	switch e.Head() {
	case "i":
		return e.Nth(1).Atom
	case "s":
		return "'" + e.Nth(1).Str() + "'"
	case "uv":
		return "@" + e.Nth(1).Str()
	case "sv":
		return "@@" + e.Nth(1).Str()
	case "ssv":
		return "@@session." + e.Nth(1).Str()
	case "gv":
		return "@@global." + e.Nth(1).Str()
	case "cat":
		return "CONCAT(" + c20ExprSQL(e.Nth(1)) + ", " + c20ExprSQL(e.Nth(2)) + ")"
	case "add":
		return c20ExprSQL(e.Nth(1)) + " + " + c20ExprSQL(e.Nth(2))
	}
	panic("bad expression " + e.String())
}

func c20LitSQL(l core.Sexp) string {
	switch l.Head() {
	case "i":
		return l.Nth(1).Atom
	case "w":
		return l.Nth(1).Str()
	case "s":
		return "'" + l.Nth(1).Str() + "'"
	case "e":
		return c20ExprSQL(l.Nth(1))
	}
	panic("bad literal " + l.String())
}

func c20SetSQL(op core.Sexp) string {
	var parts []string
	for _, a := range op.List[2:] {
		kind, name := a.Nth(1).Atom, a.Nth(2).Str()
		lit := c20LitSQL(a.Nth(3))
		switch kind {
		case "sys":
			parts = append(parts, name+" = "+lit)
		case "ses":
			parts = append(parts, "@@session."+name+" = "+lit)
		case "glob":
			parts = append(parts, "global "+name+" = "+lit)
		case "user":
			parts = append(parts, "@"+name+" = "+lit)
		case "names":
			p := "names " + lit
			if len(a.List) > 4 {
				p += " collate " + c20LitSQL(a.Nth(4))
			}
			parts = append(parts, p)
		default:
			panic("bad kind " + kind)
		}
	}
	return "set " + strings.Join(parts, ", ")
}

func c20Stmt(be *c20Backend) core.Sexp {
	if be.lastSet == "" {
		return core.A("none")
	}
	return core.Text(be.lastSet)
}

func execC20(in core.Sexp) string {
	c20LogOnce.Do(func() { log.SetGlobalLogger(c20NopLogger{}) })
	cfg := in.Nth(1)
	defCS, defColl, proxyVer := cfg.Nth(1).Str(), mysql.CollationID(cfg.Nth(2).Int()), cfg.Nth(3).Str()
	allowed := map[string]string{}
	for _, a := range cfg.Nth(5).List[1:] {
		allowed[a.Nth(0).Str()] = a.Nth(1).Str()
	}
	var clients []*server.SessionExecutor
	for _, c := range in.Nth(2).List[1:] {
		clients = append(clients, server.VerifNewSetExecutor(defCS, defColl, allowed, proxyVer, c20NopLogger{}, c.Nth(0).Str(), mysql.CollationID(c.Nth(1).Int())))
	}
	var slots []*c20Slot
	for _, c := range in.Nth(3).List[1:] {
		slots = append(slots, newC20Slot(c20SlotCfg{charset: c.Nth(0).Str(), collation: mysql.CollationID(c.Nth(1).Int()), version: c.Nth(2).Str()}))
	}
	var outs []core.Sexp
	for _, op := range in.Nth(4).List[1:] {
		switch op.Head() {
		case "set":
			c := int(op.Nth(1).Int())
			if c < 0 || c >= len(clients) {
				outs = append(outs, core.A("bad"))
				continue
			}
			se := clients[c]
			res := func() (r string) {
				defer func() {
					if e := recover(); e != nil {
						r = "panic"
					}
				}()
				if err := se.VerifHandleSetSQL(c20SetSQL(op)); err != nil {
					return "err"
				}
				return "ok"
			}()
			outs = append(outs, core.L(core.A("set"), core.A(res), c20Client(se)))
		case "run", "sync":
			c, k := int(op.Nth(1).Int()), int(op.Nth(2).Int())
			if c < 0 || c >= len(clients) || k < 0 || k >= len(slots) {
				outs = append(outs, core.A("bad"))
				continue
			}
			se, sl := clients[c], slots[k]
			sl.be.fault = op.Nth(3).Atom
			sl.be.lastSet = ""
			sl.be.execState = ""
			var o core.Sexp
			if op.Head() == "run" {
				res := "ok"
				if err := se.VerifInitBackendConn(sl.pc, ""); err != nil {
					res = "err-set"
					if sl.be.lastSet == "" && !strings.Contains(err.Error(), "invalid collationId") {
						res = "err-charset"
					}
				} else if _, err := sl.pc.Execute("do 1", 0); err != nil {
					res = "err-exec"
				}
				st := sl.be.state()
				if res == "ok" {
					st = sl.be.execState
				}
				o = core.L(core.A("run"), core.A(res), c20Stmt(sl.be), core.MustParse(st), c20Client(se), c20Conn(sl))
			} else {
				res := "ok"
				if err := sl.pc.SyncSessionVariables(se.GetVariables()); err != nil {
					// getTransactionConn: pc.Close(); pc.Recycle()
					sl.pc.Close()
					res = "err-set"
				}
				o = core.L(core.A("sync"), core.A(res), c20Stmt(sl.be), core.MustParse(sl.be.state()), c20Conn(sl))
			}
			if sl.be.protoErr != "" {
				o = core.L(core.A("protocol-error"), core.Text(sl.be.protoErr))
			}
			sl.be.fault = "ok"
			outs = append(outs, o)
			// Recycle: the pool drops a closed connection and opens a new one on demand
			if sl.pc.IsClosed() {
				slots[k] = newC20Slot(sl.cfg)
			}
		default:
			outs = append(outs, core.A("bad"))
		}
	}
	return core.L(outs...).String()
}

// ---------- generator ----------

type c20CS struct {
	name string
	id   mysql.CollationID
}

func c20Flags(version string) (coll247, v803 bool) {
	if version == "" {
		return true, false
	}
	vc := util.NewVersionCompareStatus(version)
	return vc.LessThanMySQLVersion80, !vc.LessThanMySQLVersion803
}

func genC20(g *core.Gen) {
	n := g.Scale(2000, 25000)
	for i := 0; i < n; i++ {
		if i%8 == 5 {
			c20GenShare(g)
			continue
		}
		c20GenCase(g, i%8 == 7, i%8 == 3)
	}
	if g.Tier != "quick" {
		c20Exhaustive(g)
	}
}

// c20Exhaustive enumerates every history of length 4 over a small alphabet:
// two clients, one connection (a 5.7 and an 8.0.30 backend), SETs that make the
// clients agree / disagree, executions and transaction starts with and without
// a rejected SET statement.
func c20Exhaustive(g *core.Gen) {
	t := func(s string) string { return core.Text(s).String() }
	set := func(c int, name, lit string) string {
		return fmt.Sprintf("(set %d (a sys %s %s))", c, t(name), lit)
	}
	alphabet := []string{
		set(0, "sql_select_limit", "(i 5)"),
		set(1, "sql_select_limit", "(i 5)"),
		set(0, "sql_select_limit", "(w "+t("DEFAULT")+")"),
		set(0, "tx_read_only", "(i 1)"),
		set(0, "tx_read_only", "(w "+t("DEFAULT")+")"),
		fmt.Sprintf("(set 1 (a names %s (w %s)))", t("names"), t("latin1")),
		fmt.Sprintf("(set 0 (a user %s (i 7)))", t("x")),
		fmt.Sprintf("(set 1 (a user %s (e (uv %s))))", t("y"), t("x")),
		fmt.Sprintf("(set 0 (a user %s (e (add (uv %s) (i 1)))))", t("x"), t("x")),
		"(run 0 0 ok)", "(run 0 0 other)", "(run 1 0 ok)", "(run 1 0 sqlmode)", "(sync 1 0 ok)", "(sync 0 0 other)",
	}
	for _, ver := range []string{"5.7.25", "8.0.30"} {
		c247, v803 := c20Flags(ver)
		head := fmt.Sprintf("(c20 (cfg %s 46 %s f (allowed)) (clients (%s 46) (%s 46)) (conns (%s 46 %s %s %s)) (ops ",
			t("utf8mb4"), t("5.6.20-gaea"), t("utf8mb4"), t("utf8mb4"), t("utf8mb4"), t(ver), core.B(c247).String(), core.B(v803).String())
		n := len(alphabet)
		for a := 0; a < n; a++ {
			for b := 0; b < n; b++ {
				for c := 0; c < n; c++ {
					for d := 9; d < n; d++ { // a history that ends with a SET shows nothing new
						g.Emit(core.MustParse(head+alphabet[a]+" "+alphabet[b]+" "+alphabet[c]+" "+alphabet[d]+"))"), "exhaustive")
					}
				}
			}
		}
	}
}

var c20Charsets = []c20CS{{"utf8mb4", 46}, {"utf8mb4", 45}, {"utf8", 33}, {"utf8", 83}, {"latin1", 8}, {"gbk", 28}, {"binary", 63}, {"utf8mb4", 255}, {"utf8mb4", 224}, {"utf8mb4", 0}, {"latin1", 0},
	{"utf8mb4", 246}, {"utf8mb4", 247}, {"gb18030", 248}, {"gb18030", 249}, {"utf8mb4", 256}, {"utf8mb4", 9999}, {"latin1", 46}}

// c20GenShare emits one history of the sharing stream: two or three clients take turns on ONE pooled
// connection. Client 0 holds a set A of one to four variables; every other client's settings stand in a chosen
// relation to A — a strict non-empty subset with equal values (the only difference is that variables must be
// dropped), the empty set, the same set, a superset, the same names with other values, a disjoint set — with the
// same charset as client 0 or another one. All values are literals every backend accepts; rejected SET
// statements are rare. (Seeded change that was missed: SetEqualsWith not reporting a change when variables are
// only dropped.)
func c20GenShare(g *core.Gen) {
	tags := []string{"share-stream"}
	type slot struct {
		kind, name string
		vals       []core.Sexp
	}
	lit := func(kind string, s string) core.Sexp { return core.L(core.A(kind), core.Text(s)) }
	intLit := func(n string) core.Sexp { return core.L(core.A("i"), core.A(n)) }
	pool := []slot{
		{"sys", "sql_select_limit", []core.Sexp{intLit("1"), intLit("5"), intLit("100")}},
		{"sys", "time_zone", []core.Sexp{lit("s", "+08:00"), lit("s", "-05:30")}},
		{"sys", "sql_safe_updates", []core.Sexp{intLit("0"), intLit("1")}},
		{"sys", "group_concat_max_len", []core.Sexp{intLit("1024"), intLit("2048")}},
		{"sys", "sql_mode", []core.Sexp{lit("s", "ANSI"), lit("s", "STRICT_TRANS_TABLES")}},
		{"user", "x", []core.Sexp{intLit("1"), lit("s", "abc")}},
		{"user", "y", []core.Sexp{intLit("7"), lit("s", "a b")}},
		{"sys", "tx_read_only", []core.Sexp{intLit("1"), intLit("0")}},
		{"sys", "max_execution_time", []core.Sexp{intLit("100"), intLit("200")}},
		{"sys", "unique_checks", []core.Sexp{intLit("0"), intLit("1")}},
		{"sys", "lock_wait_timeout", []core.Sexp{intLit("3"), intLit("50")}},
	}
	type asg struct {
		slot int
		val  int
	}
	sexpOf := func(a asg) core.Sexp {
		sl := pool[a.slot]
		return core.L(core.A("a"), core.A(sl.kind), core.Text(sl.name), sl.vals[a.val])
	}
	proxyVer := core.Pick(g, []string{"5.6.20-gaea", "5.7.25-gaea", "8.0.30-gaea"})
	_, proxy803 := c20Flags(proxyVer)
	version := core.Pick(g, []string{"5.7.25", "5.7.25", "", "8.0.30", "8.0.2"})
	c247, v803 := c20Flags(version)
	if v803 {
		tags = append(tags, "conn-ge-8.0.3")
	}
	def := core.Pick(g, []c20CS{{"utf8mb4", 46}, {"utf8mb4", 45}, {"utf8", 33}, {"latin1", 8}})
	nClients := 2 + g.Intn(2)
	clients := []core.Sexp{core.A("clients")}
	for i := 0; i < nClients; i++ {
		cs := def
		if i > 0 && g.Intn(2) == 0 {
			cs = core.Pick(g, []c20CS{{"utf8mb4", 46}, {"utf8", 33}, {"latin1", 8}, {"gbk", 28}})
			if cs != def {
				tags = append(tags, "share-other-charset")
			}
		}
		clients = append(clients, core.L(core.Text(cs.name), core.I(int64(cs.id))))
	}
	conns := []core.Sexp{core.A("conns"), core.L(core.Text(def.name), core.I(int64(def.id)), core.Text(version), core.B(c247), core.B(v803))}

	// client 0's set A: distinct variables
	perm := g.Rand.Perm(len(pool))
	m := 1 + g.Intn(4)
	var setA []asg
	for _, si := range perm[:m] {
		setA = append(setA, asg{si, g.Intn(len(pool[si].vals))})
	}
	rest := perm[m:]
	sets := [][]asg{setA}
	for i := 1; i < nClients; i++ {
		var b []asg
		rel := g.Intn(7)
		if m == 1 && (rel == 0 || rel == 6) {
			rel = 1 // no strict non-empty subset of one variable
		}
		switch rel {
		case 0, 6: // strict non-empty subset, equal values
			tags = append(tags, "share-subset")
			k := 1 + g.Intn(m-1)
			for _, j := range g.Rand.Perm(m)[:k] {
				b = append(b, setA[j])
			}
		case 1:
			tags = append(tags, "share-empty")
		case 2:
			tags = append(tags, "share-same")
			b = append(b, setA...)
		case 3:
			tags = append(tags, "share-superset")
			b = append(b, setA...)
			for _, si := range rest[:1+g.Intn(2)] {
				b = append(b, asg{si, g.Intn(len(pool[si].vals))})
			}
		case 4: // same names, other values for some
			tags = append(tags, "share-other-values")
			for j, a := range setA {
				if j == 0 || g.Intn(2) == 0 {
					a.val = (a.val + 1) % len(pool[a.slot].vals)
				}
				b = append(b, a)
			}
		case 5:
			tags = append(tags, "share-disjoint")
			for _, si := range rest[:1+g.Intn(2)] {
				b = append(b, asg{si, g.Intn(len(pool[si].vals))})
			}
		}
		sets = append(sets, b)
	}
	ops := []core.Sexp{core.A("ops")}
	emitSet := func(c int) {
		as := sets[c]
		if len(as) == 0 {
			return
		}
		// in the order of a random permutation, as one statement or one statement per variable
		order := g.Rand.Perm(len(as))
		if g.Intn(2) == 0 {
			xs := []core.Sexp{core.A("set"), core.I(int64(c))}
			for _, j := range order {
				xs = append(xs, sexpOf(as[j]))
			}
			ops = append(ops, core.L(xs...))
			return
		}
		for _, j := range order {
			ops = append(ops, core.L(core.A("set"), core.I(int64(c)), sexpOf(as[j])))
		}
	}
	use := func(c int) {
		kind, f := "run", "ok"
		if g.Intn(5) == 0 {
			kind = "sync"
			tags = append(tags, "sync")
		}
		if g.Intn(12) == 0 {
			f = core.Pick(g, []string{"sqlmode", "other"})
			tags = append(tags, "fault-"+f)
		}
		ops = append(ops, core.L(core.A(kind), core.I(int64(c)), core.I(0), core.A(f)))
	}
	emitSet(0)
	late := g.Intn(3) == 0 // the others set their variables after client 0's first statement
	if !late {
		for c := 1; c < nClients; c++ {
			emitSet(c)
		}
	}
	ops = append(ops, core.L(core.A("run"), core.I(0), core.I(0), core.A("ok")))
	if late {
		for c := 1; c < nClients; c++ {
			emitSet(c)
		}
	}
	for c := 1; c < nClients; c++ {
		use(c)
	}
	use(0)
	for i, n := 0, g.Intn(5); i < n; i++ {
		use(g.Intn(nClients))
	}
	in := core.L(core.A("c20"),
		core.L(core.A("cfg"), core.Text(def.name), core.I(int64(def.id)), core.Text(proxyVer), core.B(proxy803), core.L(core.A("allowed"))),
		core.L(clients...), core.L(conns...), core.L(ops...))
	seen := map[string]bool{}
	var ts []string
	for _, t := range tags {
		if !seen[t] {
			seen[t] = true
			ts = append(ts, t)
		}
	}
	g.Emit(in, ts...)
}

// c20GenCase emits one history. alias: the focused stream for backends that
// know tx_read_only only as transaction_read_only (proxy advertising 5.x,
// MySQL 8.0.30 behind it, clients using different spellings of the variable).
//
// restore: the focused stream for the acknowledged copy of a client's variables: few clients, and after a
// statement has executed the client changes its settings — often by putting a variable it has set back to
// DEFAULT, or by setting it again — and the backend rejects the next SET statement.
func c20GenCase(g *core.Gen, alias bool, restore bool) {
	var tags []string
	// configuration
	proxyVer := core.Pick(g, []string{"5.6.20-gaea", "5.6.20-gaea", "5.7.25-gaea", "8.0.30-gaea", "8.0.2-gaea"})
	versions := [][]string{{"5.7.25"}, {"", "5.7.25", "5.6.20"}, {"5.7.25", "8.0.30"}, {"8.0.30"}, {"8.0.2", "8.0.30", "5.7.44-log"}}[g.Intn(5)]
	if g.Intn(3) > 0 {
		versions = []string{"5.7.25", ""}
	}
	if alias {
		proxyVer = core.Pick(g, []string{"5.6.20-gaea", "5.7.25-gaea"})
		versions = []string{"8.0.30"}
		tags = append(tags, "alias-stream")
	}
	_, proxy803 := c20Flags(proxyVer)
	allowedAll := [][2]string{{"foo_int", "int"}, {"foo_str", "string"}, {"foo_bool", "bool"}, {"transaction_isolation", "string"}, {"foo_odd", "float"}, {"innodb_lock_wait_timeout", "int"}, {"foo_ref", "int"}}
	var allowed []core.Sexp
	allowedNames := []string{}
	for _, a := range allowedAll {
		if g.Intn(4) > 0 {
			allowed = append(allowed, core.L(core.Text(a[0]), core.Text(a[1])))
			allowedNames = append(allowedNames, a[0])
		}
	}
	def := core.Pick(g, []c20CS{{"utf8mb4", 46}, {"utf8mb4", 45}, {"utf8", 33}, {"latin1", 8}})
	nClients := 2 + g.Intn(3)
	nConns := 1 + g.Intn(3)
	if restore {
		nClients, nConns = 1+g.Intn(2), 1+g.Intn(2)
		tags = append(tags, "restore-stream")
	}
	clients := []core.Sexp{core.A("clients")}
	for i := 0; i < nClients; i++ {
		cs := def
		if g.Intn(3) == 0 {
			cs = core.Pick(g, c20Charsets)
		}
		name := cs.name
		if g.Intn(30) == 0 {
			name = core.Pick(g, []string{"'" + name + "'", "`" + name + "`", "\"" + name, "nosuchcs", ""})
			tags = append(tags, "client-charset-odd")
		}
		clients = append(clients, core.L(core.Text(name), core.I(int64(cs.id))))
	}
	conns := []core.Sexp{core.A("conns")}
	anyV803 := false
	for i := 0; i < nConns; i++ {
		v := core.Pick(g, versions)
		c247, v803 := c20Flags(v)
		anyV803 = anyV803 || v803
		cs := def
		if g.Intn(6) == 0 {
			cs = core.Pick(g, []c20CS{{"utf8mb4", 46}, {"utf8", 33}, {"latin1", 8}, {"gbk", 28}})
		}
		conns = append(conns, core.L(core.Text(cs.name), core.I(int64(cs.id)), core.Text(v), core.B(c247), core.B(v803)))
	}
	if anyV803 {
		tags = append(tags, "conn-ge-8.0.3")
	}
	// one client may use both spellings of transaction_read_only (a >= 8.0.3 backend is then sent the value recorded
	// under its own name); in the alias stream every other client does
	txNamesOf := make([][]string, nClients+2)
	for i := range txNamesOf {
		txNamesOf[i] = []string{"tx_read_only", "transaction_read_only"}
		if alias && i%2 == 0 {
			txNamesOf[i] = []string{[]string{"tx_read_only", "transaction_read_only"}[(i/2)%2]}
		}
	}
	cur := 0 // the client the assignment being generated belongs to

	lit := func(kind string, s string) core.Sexp { return core.L(core.A(kind), core.Text(s)) }
	intLit := func(n string) core.Sexp { return core.L(core.A("i"), core.A(n)) }
	ints := []string{"0", "1", "2", "5", "-1", "100", "1024", "9223372036854775807", "9223372036854775808", "-9223372036854775808", "-9223372036854775809", "18446744073709551615"}
	smallInt := func() core.Sexp { return intLit(core.Pick(g, []string{"0", "1", "2", "3", "5", "7", "100", "1024"})) }
	anyInt := func() core.Sexp {
		if g.Intn(6) == 0 {
			return intLit(core.Pick(g, ints))
		}
		return smallInt()
	}
	assign := func() core.Sexp {
		a := func(kind, name string, lits ...core.Sexp) core.Sexp {
			xs := []core.Sexp{core.A("a"), core.A(kind), core.Text(name)}
			return core.L(append(xs, lits...)...)
		}
		sysKind := func() string {
			switch g.Intn(8) {
			case 0:
				return "ses"
			case 1:
				if g.Intn(4) == 0 {
					return "glob"
				}
			}
			return "sys"
		}
		dflt := func() core.Sexp { return lit("w", core.Pick(g, []string{"DEFAULT", "default", "Default"})) }
		kind := g.Intn(20)
		if alias && g.Intn(2) == 0 {
			kind = 2
		}
		// values the proxy cannot evaluate. An expression never reads a variable that the same client assigns
		// (the statement the proxy writes has its assignments in map order), except the very variable it is
		// assigned to: odd clients read @p, @q and foo_ref, which only even clients assign.
		e := func(x core.Sexp) core.Sexp { return core.L(core.A("e"), x) }
		ex := func(head string, xs ...core.Sexp) core.Sexp {
			return core.L(append([]core.Sexp{core.A(head)}, xs...)...)
		}
		nm := func(head, name string) core.Sexp { return core.L(core.A(head), core.Text(name)) }
		freeAtom := func() core.Sexp {
			switch g.Intn(7) {
			case 0:
				return core.A("null")
			case 1:
				return nm("gv", core.Pick(g, []string{"max_connections", "sql_mode", "foo_str", "foo_int", "nosuch_global"}))
			case 2, 3:
				return intLit(core.Pick(g, []string{"0", "1", "7", "-5", "100"}))
			}
			return lit("s", core.Pick(g, []string{"a", "B", "", "x y", ",ANSI", "v:"}))
		}
		sessionAtom := func(self core.Sexp) core.Sexp {
			if cur%2 == 1 && g.Intn(3) > 0 {
				tags = append(tags, "expr-reads-other-client")
				return core.Pick(g, []core.Sexp{nm("uv", "p"), nm("uv", "q"), nm("sv", "foo_ref"), nm("ssv", "foo_ref")})
			}
			tags = append(tags, "expr-reads-self")
			return self
		}
		anyExpr := func(self core.Sexp) core.Sexp {
			atom := func() core.Sexp {
				if g.Intn(3) == 0 {
					tags = append(tags, "expr-session")
					return sessionAtom(self)
				}
				return freeAtom()
			}
			switch g.Intn(6) {
			case 0:
				tags = append(tags, "expr-session")
				return sessionAtom(self)
			case 1:
				return nm("gv", core.Pick(g, []string{"max_connections", "sql_mode", "foo_str", "nosuch_global"}))
			case 2:
				return ex("add", atom(), intLit(core.Pick(g, []string{"1", "2", "10"})))
			case 3:
				return ex("cat", ex("cat", atom(), freeAtom()), atom())
			}
			return ex("cat", atom(), atom())
		}
		switch kind {
		case 16, 17: // user variable = expression
			name := core.Pick(g, []string{"x", "y", "cnt", "a1"})
			tags = append(tags, "set-user-expr")
			return a("user", name, e(anyExpr(nm("uv", name))))
		case 18: // sql_mode = expression
			tags = append(tags, "set-sql_mode-expr")
			return a(sysKind(), "sql_mode", e(core.Pick(g, []core.Sexp{
				ex("cat", nm("gv", "sql_mode"), lit("s", ",ANSI")),
				ex("cat", nm("sv", "sql_mode"), lit("s", ",ANSI")),
				ex("cat", nm("ssv", "sql_mode"), lit("s", ",NO_ZERO_DATE")),
				nm("gv", "sql_mode"), nm("ssv", "sql_mode"),
				ex("cat", lit("s", "ANSI"), lit("s", ",TRADITIONAL")),
			})))
		case 19: // the other variables = expression: the string ones hand it on, the others refuse it
			name := core.Pick(g, []string{"foo_str", "foo_str", "transaction_isolation", "foo_int", "foo_bool", "sql_select_limit", "time_zone", "character_set_results", "tx_read_only", "sql_safe_updates", "nosuch_var", "foo_odd"})
			tags = append(tags, "set-var-expr")
			return a(sysKind(), name, e(anyExpr(nm("sv", name))))
		case 0, 1: // int variables
			name := core.Pick(g, []string{"sql_select_limit", "group_concat_max_len", "lock_wait_timeout", "max_execution_time", "SQL_SELECT_LIMIT"})
			tags = append(tags, "set-int")
			switch g.Intn(8) {
			case 0:
				return a(sysKind(), name, dflt())
			case 1:
				return a(sysKind(), name, lit("s", core.Pick(g, []string{"5", "x", "", "-3", "+4", "1e3"})))
			case 2:
				return a(sysKind(), name, lit("w", core.Pick(g, []string{"ON", "NULL", "abc"})))
			}
			return a(sysKind(), name, anyInt())
		case 2, 3: // on/off variables
			name := core.Pick(g, append([]string{"sql_safe_updates", "unique_checks"}, txNamesOf[cur]...))
			if g.Intn(3) == 0 || alias {
				name = core.Pick(g, txNamesOf[cur])
			}
			tags = append(tags, "set-onoff")
			switch g.Intn(6) {
			case 0:
				return a(sysKind(), name, dflt())
			case 1:
				return a(sysKind(), name, core.Pick(g, []core.Sexp{intLit("2"), lit("w", "TRUE"), lit("s", "yes"), intLit("-1")}))
			}
			return a(sysKind(), name, core.Pick(g, []core.Sexp{intLit("0"), intLit("1"), lit("w", "ON"), lit("w", "off"), lit("s", "ON"), lit("s", "0")}))
		case 4: // sql_mode
			tags = append(tags, "set-sql_mode")
			switch g.Intn(6) {
			case 0:
				return a(sysKind(), "sql_mode", dflt())
			case 1:
				return a(sysKind(), "sql_mode", lit("w", core.Pick(g, []string{"ANSI", "STRICT_TRANS_TABLES", "traditional"})))
			}
			return a(sysKind(), "sql_mode", lit("s", core.Pick(g, []string{"", "ANSI", "STRICT_TRANS_TABLES,NO_ZERO_DATE", "NO_SUCH_MODE", "Default", "default"})))
		case 5: // time_zone
			tags = append(tags, "set-time_zone")
			if g.Intn(5) == 0 {
				return a(sysKind(), "time_zone", dflt())
			}
			return a(sysKind(), "time_zone", lit("s", core.Pick(g, []string{"+08:00", "+8:00", "-05:30", "+00:00", "-00:30", "+13:00", "+13:01", "-12:59", "-13:00", "SYSTEM", "+a:00", "+08:0x", ":00", "+08", "+08:00:00", "08:00", "+99999999999999999999:00"})))
		case 6: // character_set_*
			name := core.Pick(g, []string{"character_set_results", "character_set_client", "character_set_connection"})
			tags = append(tags, "set-character_set")
			return a(sysKind(), name, core.Pick(g, []core.Sexp{lit("w", "utf8"), lit("w", "NULL"), lit("w", "DEFAULT"), lit("s", "LATIN1"), lit("w", "gbk"), lit("s", "null")}))
		case 7, 8, 9: // user variables
			name := core.Pick(g, []string{"x", "y", "X", "cnt", "a1"})
			if cur%2 == 0 && g.Intn(3) == 0 {
				// the variables the expressions of the odd clients read; only even clients assign them
				name = core.Pick(g, []string{"p", "q"})
			}
			tags = append(tags, "set-user")
			switch g.Intn(6) {
			case 0:
				return a("user", name, lit("w", core.Pick(g, []string{"NULL", "null"})))
			case 1, 2:
				return a("user", name, lit("s", core.Pick(g, []string{"abc", "Abc", "", "a b", "DEFAULT", "NULL", "null"})))
			}
			return a("user", name, anyInt())
		case 10, 11: // namespace-allowed and unknown variables
			name := core.Pick(g, []string{"foo_int", "foo_str", "foo_bool", "transaction_isolation", "foo_odd", "innodb_lock_wait_timeout", "nosuch_var", "wait_timeout", "max_allowed_packet", "net_read_timeout", "transaction"})
			if cur%2 == 0 && g.Intn(4) == 0 {
				name = "foo_ref" // read by the expressions of the odd clients; only even clients assign it
			}
			tags = append(tags, "set-namespace-var")
			switch g.Intn(5) {
			case 0:
				return a(sysKind(), name, dflt())
			case 1:
				return a(sysKind(), name, lit("s", core.Pick(g, []string{"READ-COMMITTED", "hello", "Hello World", "default", "1"})))
			case 2:
				return a(sysKind(), name, lit("w", core.Pick(g, []string{"ON", "off", "abc"})))
			}
			return a(sysKind(), name, anyInt())
		default: // SET NAMES
			tags = append(tags, "set-names")
			cs := core.Pick(g, []string{"utf8", "utf8mb4", "utf8mb4", "latin1", "gbk", "binary", "UTF8", "nosuchcs", "gb18030"})
			kindCS := core.Pick(g, []string{"w", "w", "s"})
			switch g.Intn(5) {
			case 0, 1:
				return a("names", "names", lit(kindCS, cs))
			case 2:
				return a("names", "names", lit(kindCS, cs), lit("w", "DEFAULT"))
			}
			coll := core.Pick(g, []string{"utf8_general_ci", "utf8_bin", "utf8mb4_bin", "utf8mb4_general_ci", "utf8mb4_unicode_ci", "utf8mb4_0900_ai_ci", "latin1_swedish_ci", "latin1_bin", "gbk_chinese_ci", "binary", "UTF8_BIN", "nosuch_coll", "utf8mb4_vietnamese_ci", "utf8mb4_unicode_520_ci", "gb18030_chinese_ci"})
			kindColl := core.Pick(g, []string{"w", "s"})
			if coll == "binary" { // a bare BINARY after COLLATE is a syntax error
				kindColl = "s"
			}
			return a("names", "names", lit(kindCS, cs), lit(kindColl, coll))
		}
	}

	ops := []core.Sexp{core.A("ops")}
	nOps := 4 + g.Intn(g.Scale(12, 24))
	// restore stream: what each client has assigned so far (kind, name), and whether it changed something since
	// its last statement
	assigned := make([][]core.Sexp, nClients+2)
	changed := make([]bool, nClients+2)
	fault := func() string {
		if restore && changed[cur] && g.Intn(2) == 0 {
			tags = append(tags, "fault-after-change")
			return core.Pick(g, []string{"sqlmode", "other"})
		}
		switch g.Intn(7) {
		case 0:
			tags = append(tags, "fault-sqlmode")
			return "sqlmode"
		case 1:
			tags = append(tags, "fault-other")
			return "other"
		}
		return "ok"
	}
	for i := 0; i < nOps; i++ {
		c := g.Intn(nClients)
		k := g.Intn(nConns)
		if g.Intn(150) == 0 {
			c = nClients + g.Intn(2)
			tags = append(tags, "bad-index")
		}
		switch r := g.Intn(20); {
		case r < 9:
			xs := []core.Sexp{core.A("set"), core.I(int64(c))}
			na := 1
			if g.Intn(4) == 0 {
				na = 2 + g.Intn(2)
				tags = append(tags, "set-multi")
			}
			cur = c
			for j := 0; j < na; j++ {
				var as core.Sexp
				if restore && len(assigned[c]) > 0 && g.Intn(2) == 0 {
					// a variable the client has assigned before goes back to its default (or gets another value)
					prev := core.Pick(g, assigned[c])
					v := lit("w", "DEFAULT")
					if prev.Nth(1).Atom == "user" {
						v = core.Pick(g, []core.Sexp{lit("w", "NULL"), intLit("7"), lit("s", "other")})
					} else if g.Intn(4) == 0 {
						v = core.Pick(g, []core.Sexp{intLit("1"), intLit("0"), lit("s", "ANSI")})
					}
					as = core.L(core.A("a"), prev.Nth(1), prev.Nth(2), v)
					tags = append(tags, "set-again")
				} else {
					as = assign()
				}
				if as.Nth(1).Atom != "names" && as.Nth(1).Atom != "glob" {
					assigned[c] = append(assigned[c], as)
				}
				xs = append(xs, as)
			}
			changed[c] = true
			ops = append(ops, core.L(xs...))
		case r < 18:
			tags = append(tags, "run")
			cur = c
			f := fault()
			if f == "ok" {
				changed[c] = false
			}
			ops = append(ops, core.L(core.A("run"), core.I(int64(c)), core.I(int64(k)), core.A(f)))
		default:
			tags = append(tags, "sync")
			ops = append(ops, core.L(core.A("sync"), core.I(int64(c)), core.I(int64(k)), core.A(fault())))
		}
	}
	_ = allowedNames
	in := core.L(core.A("c20"),
		core.L(core.A("cfg"), core.Text(def.name), core.I(int64(def.id)), core.Text(proxyVer), core.B(proxy803), core.L(append([]core.Sexp{core.A("allowed")}, allowed...)...)),
		core.L(clients...), core.L(conns...), core.L(ops...))
	// distinct tags only
	seen := map[string]bool{}
	var ts []string
	for _, t := range tags {
		if !seen[t] {
			seen[t] = true
			ts = append(ts, t)
		}
	}
	g.Emit(in, ts...)
}
