package props

import (
	"fmt"
	"math"
	"sort"
	"strconv"
	"strings"
	"time"

	"gaeaverif/harness/core"

	"github.com/XiaoMi/Gaea/parser"
	"github.com/XiaoMi/Gaea/parser/ast"
	"github.com/XiaoMi/Gaea/parser/format"
	types "github.com/XiaoMi/Gaea/parser/tidb-types"
	driver "github.com/XiaoMi/Gaea/parser/tidb-types/parser_driver"
	"github.com/XiaoMi/Gaea/proxy/plan"
	"github.com/XiaoMi/Gaea/proxy/router"
)

// C01, literal kinds. The `route` lines of this file carry every literal by kind
// and value, as the real parser delivers it:
//
//	(route RULE COLTYPE FORM STMT (meta RANGE GLOBAL FIRST LAST (idxs…) TYPE) COND (univ (VAL place)…))
//	LIT:  (lit SQLHEX KIND PLACE|e EQSTART)
//	KIND: (i N) KindInt64 | (u N) KindUint64 | (s HEX) KindString/KindBytes | (x HEX) hexadecimal literal
//	      | (b HEX) bit literal | (d DIGITS SCALE) KindMysqlDecimal | (f BITS) KindFloat64 | (n) NULL
//	VAL:  N | (s HEX)      the value of a row's sharding column
//	COLTYPE: calendar rules 0/1 DATETIME column, 2 integer (unix) column; other rules 0 integer column,
//	      3 string column
//
// PLACE / EQSTART are what the real rule answers for the value the real
// getShardingCompareValue hands to it (`e` when it reports the literal as not
// routable or the rule fails); TYPE is rule.GetType(). What the literal denotes
// (its rank) and whether the planner routes by it are computed by the Lean model
// from KIND, TYPE and COLTYPE (Model/RouteLit.lean).

// c01ParseLit returns the ValueExpr the parser builds for the literal text.
func c01ParseLit(sql string) (*driver.ValueExpr, error) {
	node, err := parser.ParseSQL("select 1 from t where k = " + sql)
	if err != nil {
		return nil, err
	}
	sel, ok := node.(*ast.SelectStmt)
	if !ok || sel.Where == nil {
		return nil, fmt.Errorf("not a select")
	}
	be, ok := sel.Where.(*ast.BinaryOperationExpr)
	if !ok {
		return nil, fmt.Errorf("not a comparison")
	}
	ve, ok := be.R.(*driver.ValueExpr)
	if !ok {
		return nil, fmt.Errorf("%s is not a literal for the parser (%T)", sql, be.R)
	}
	return ve, nil
}

// c01KindSexp: the literal by kind and value
func c01KindSexp(ve *driver.ValueExpr) (core.Sexp, error) {
	switch ve.Kind() {
	case types.KindNull:
		return core.L(core.A("n")), nil
	case types.KindInt64:
		return core.L(core.A("i"), core.I(ve.GetInt64())), nil
	case types.KindUint64:
		return core.L(core.A("u"), core.U(ve.GetUint64())), nil
	case types.KindString, types.KindBytes:
		return core.L(core.A("s"), core.Text(ve.GetString())), nil
	case types.KindFloat64:
		return core.L(core.A("f"), core.U(math.Float64bits(ve.GetFloat64()))), nil
	case types.KindFloat32:
		return core.L(core.A("f"), core.U(math.Float64bits(float64(ve.GetFloat32())))), nil
	case types.KindMysqlDecimal:
		s := ve.GetMysqlDecimal().String()
		if strings.HasPrefix(s, "-") {
			return core.Sexp{}, fmt.Errorf("negative decimal literal %s", s)
		}
		scale := 0
		if i := strings.IndexByte(s, '.'); i >= 0 {
			scale = len(s) - i - 1
			s = s[:i] + s[i+1:]
		}
		s = strings.TrimLeft(s, "0")
		if s == "" {
			s = "0"
		}
		return core.L(core.A("d"), core.A(s), core.I(int64(scale))), nil
	case types.KindBinaryLiteral:
		sb := &strings.Builder{}
		if err := ve.Restore(format.NewRestoreCtx(format.EscapeRestoreFlags, sb)); err != nil {
			return core.Sexp{}, err
		}
		tag := "b"
		if strings.HasPrefix(sb.String(), "x'") {
			tag = "x"
		}
		return core.L(core.A(tag), core.Hex(ve.GetBytes())), nil
	}
	return core.Sexp{}, fmt.Errorf("literal kind %d", ve.Kind())
}

// c01QLit: the literal `sql` of a statement on `rule`
func c01QLit(rule router.Rule, sql string) (core.Sexp, error) {
	ve, err := c01ParseLit(sql)
	if err != nil {
		return core.Sexp{}, err
	}
	kind, err := c01KindSexp(ve)
	if err != nil {
		return core.Sexp{}, err
	}
	place := core.A("e")
	eq := false
	if v, routable, err := plan.VerifShardingCompareValue(rule, ve); err == nil && routable {
		if idx, err := c01Find(rule, v); err == nil {
			place = core.I(int64(idx))
			if rs, ok := rule.GetShard().(router.RangeShard); ok {
				eq = c01EqualStart(rs, v, idx)
			}
		}
	}
	return core.L(core.A("lit"), core.Text(sql), kind, place, core.B(eq)), nil
}

func c01EqualStart(rs router.RangeShard, v interface{}, idx int) (eq bool) {
	defer func() {
		if e := recover(); e != nil {
			eq = false
		}
	}()
	return rs.EqualStart(v, idx)
}

type c01QCtx struct {
	r       *c01Rule
	rule    router.Rule
	colType int
	pts     []int64
	strs    []string
	// never the inputs of C01's known finding mycat-numeric-string-routed-as-text (lines generated for C05)
	strictText bool
}

// strings of a string-keyed table: text, digits with and without leading zeros,
// spellings MySQL reads as numbers, upper/lower case, the empty string
var c01StrKeys = []string{"abc", "ABC", "a", "", "7", "007", "70", "x7", "7x", " 7", "7 ", "+7", "7.0", "7e0", "1.5",
	"2016-01-01", "abd", "é", "16", "0", "00", "18446744073709551615", "18446744073709551616", "-5"}

func c01SQLString(s string) string {
	return "'" + strings.ReplaceAll(strings.ReplaceAll(s, `\`, `\\`), "'", "''") + "'"
}

func c01HexOf(v uint64) string {
	h := strconv.FormatUint(v, 16)
	if len(h)%2 == 1 {
		h = "0" + h
	}
	return h
}

// the spellings of the integer p as a literal compared with an integer column
func (c *c01QCtx) intSpellings(g *core.Gen, p int64) string {
	ps := strconv.FormatInt(p, 10)
	switch g.Intn(24) {
	case 0, 1, 2, 3, 4:
		return ps
	case 5:
		return "'" + ps + "'"
	case 6:
		return "'00" + ps + "'"
	case 7:
		return "' " + ps + "'"
	case 8:
		return "'" + ps + " '"
	case 9:
		return "'+" + ps + "'"
	case 10:
		return "'" + ps + ".0'"
	case 11:
		return "'" + ps + "e0'"
	case 12:
		return "'" + ps + ".5'"
	case 13:
		return "0x" + c01HexOf(uint64(p))
	case 14:
		return "x'" + c01HexOf(uint64(p)) + "'"
	case 15:
		return "b'" + strconv.FormatUint(uint64(p), 2) + "'"
	case 16:
		return "0b" + strconv.FormatUint(uint64(p), 2)
	case 17:
		return ps + ".0"
	case 18:
		return ps + ".5"
	case 19:
		return ps + ".50"
	case 20:
		return ps + "e0"
	case 21:
		return ps + ".5e0"
	case 22:
		return "NULL"
	default:
		return core.Pick(g, []string{"TRUE", "FALSE", "18446744073709551615", "18446744073709551616", "9223372036854775807",
			"9223372036854775808", "'-" + ps + "'", "'-" + ps + ".5'", "x''", "0x0102030405060708", "0x010203040506070809", "0.0", "00" + ps})
	}
}

// literals that are never routed by, whatever the column type
func c01WideLit(g *core.Gen) string {
	return core.Pick(g, []string{"0x10", "x'616263'", "b'01100001'", "0b101", "1.5", "2016.5", "201601.5", "1e0", "1.5e3", "NULL",
		"20160101.0", "0x323031362d30312d3031", "1451606400.5"})
}

func (c *c01QCtx) mkLit(g *core.Gen) string {
	fam := c.rule.GetType()
	if c.r.dateFmt != "" {
		if g.Intn(5) == 0 {
			return c01WideLit(g)
		}
		t := time.Unix(core.Pick(g, c.pts), 0).UTC()
		switch c.colType {
		case 2:
			return strconv.FormatInt(t.Unix(), 10)
		case 1:
			if g.Intn(2) == 0 {
				return "'" + t.Format("2006-01-02") + "'"
			}
		}
		return "'" + t.Format("2006-01-02 15:04:05") + "'"
	}
	if c.colType == 3 { // string column: strings, binary strings, and the kinds that are never routed by
		switch g.Intn(8) {
		case 0:
			return "x'" + fmt.Sprintf("%x", core.Pick(g, c.strs)) + "'"
		case 1:
			return c01WideLit(g)
		default:
			return c01SQLString(core.Pick(g, c.strs))
		}
	}
	p := core.Pick(g, c.pts)
	for p < 0 {
		p = core.Pick(g, c.pts)
	}
	sql := c.intSpellings(g, p)
	if g.Intn(16) == 0 && fam != router.HashRuleType && fam != router.MycatStringRuleType && fam != router.MycatMurmurRuleType {
		// a string MySQL does not read as a number: the integer rules cannot place it
		sql = core.Pick(g, []string{"'abc'", "''", "'7x'", "'x7'", "'1 2'", "'--7'", "'0x10'"})
	}
	return sql
}

// c01TextRuleNumericString: on mycat_string / mycat_murmur with an integer column a string
// MySQL reads as a number that is not the decimal spelling of an integer is placed by its text
// (known finding mycat-numeric-string-routed-as-text); generated sparingly
func (c *c01QCtx) textRule() bool {
	t := c.rule.GetType()
	return t == router.MycatStringRuleType || t == router.MycatMurmurRuleType
}

func (c *c01QCtx) litSexp(g *core.Gen) core.Sexp {
	for {
		sql := c.mkLit(g)
		if c.textRule() && c.colType == 0 && strings.HasPrefix(sql, "'") && (c.strictText || g.Intn(6) != 0) {
			// mostly the decimal spelling on these rules
			if ve, err := c01ParseLit(sql); err == nil {
				s := ve.GetString()
				if n, err := strconv.ParseInt(s, 10, 64); err != nil || strconv.FormatInt(n, 10) != s {
					continue
				}
			}
		}
		l, err := c01QLit(c.rule, sql)
		if err != nil {
			panic("c01: " + err.Error())
		}
		return l
	}
}

func (c *c01QCtx) genCond(g *core.Gen, depth int) core.Sexp {
	col := func() core.Sexp {
		if g.Intn(5) == 0 {
			return core.A("oc")
		}
		return core.A("sk")
	}
	sub := func() core.Sexp {
		s := c.genCond(g, depth-1)
		if h := s.Head(); h == "and" || h == "or" {
			return core.L(core.A("par"), s)
		}
		return s
	}
	if depth > 0 && g.Intn(3) != 0 {
		switch g.Intn(5) {
		case 0, 1:
			return core.L(core.A("and"), sub(), sub())
		case 2, 3:
			return core.L(core.A("or"), sub(), sub())
		default:
			return core.L(core.A("par"), c.genCond(g, depth-1))
		}
	}
	switch g.Intn(10) {
	case 0, 1, 2, 3:
		side := "cl"
		if g.Intn(4) == 0 {
			side = "lc"
		}
		return core.L(core.A("cmp"), col(), core.A(side), core.A(core.Pick(g, c01Ops)), c.litSexp(g))
	case 4, 5, 6:
		n := 1 + g.Intn(4)
		var ls []core.Sexp
		for i := 0; i < n; i++ {
			ls = append(ls, c.litSexp(g))
		}
		return core.L(core.A("in"), col(), core.B(g.Intn(3) == 0), core.L(ls...))
	case 7, 8:
		return core.L(core.A("btw"), col(), core.B(g.Intn(2) == 0), c.litSexp(g), c.litSexp(g))
	default:
		// the opaque forms take an integer literal
		l, err := c01QLit(c.rule, strconv.Itoa(g.Intn(300)))
		if err != nil {
			panic(err)
		}
		return core.L(core.A("other"), core.I(int64(g.Intn(len(c01Other)))), l)
	}
}

// row universe: the values a row's sharding column can hold, placed by the real rule
func (c *c01QCtx) universe() core.Sexp {
	var us []core.Sexp
	if c.r.dateFmt == "" && c.colType == 3 {
		keys := append([]string{}, c.strs...)
		sort.Strings(keys)
		for _, s := range keys {
			idx, err := c01Find(c.rule, s)
			if err != nil {
				continue
			}
			us = append(us, core.L(core.L(core.A("s"), core.Text(s)), core.I(int64(idx))))
		}
		return core.L(append([]core.Sexp{core.A("univ")}, us...)...)
	}
	seen := map[int64]bool{}
	var ranks []int64
	for _, p := range c.pts {
		for _, d := range []int64{-1, 0, 1} {
			if !seen[p+d] {
				seen[p+d] = true
				ranks = append(ranks, p+d)
			}
		}
	}
	sort.Slice(ranks, func(i, j int) bool { return ranks[i] < ranks[j] })
	for _, v := range ranks {
		var key interface{} = v
		val := core.I(v)
		if c.r.dateFmt != "" && c.colType != 2 {
			s := time.Unix(v, 0).UTC().Format("2006-01-02 15:04:05")
			key = s
			val = core.L(core.A("s"), core.Text(s))
		}
		idx, err := c01Find(c.rule, key)
		if err != nil {
			continue
		}
		us = append(us, core.L(val, core.I(int64(idx))))
	}
	return core.L(append([]core.Sexp{core.A("univ")}, us...)...)
}

// mkKindLit: a literal of a context that emits literals by kind (joins): a point of the rule in one of its
// spellings; never the inputs of the known finding mycat-numeric-string-routed-as-text
func (c *c01Ctx) mkKindLit(g *core.Gen) c01Lit {
	c.q.colType = c.colType
	if c.r.dateFmt != "" {
		if g.Intn(5) == 0 {
			return c01Lit{sql: c01WideLit(g)}
		}
		t := time.Unix(core.Pick(g, c.pts), 0).UTC()
		switch c.colType {
		case 2:
			return c01TimeLit(t, 2)
		case 1:
			return c01TimeLit(t, g.Intn(2))
		}
		return c01TimeLit(t, 0)
	}
	p := core.Pick(g, c.pts)
	for p < 0 {
		p = core.Pick(g, c.pts)
	}
	for {
		sql := c.q.intSpellings(g, p)
		if c.q.textRule() && strings.HasPrefix(sql, "'") {
			if ve, err := c01ParseLit(sql); err == nil {
				s := ve.GetString()
				if n, err := strconv.ParseInt(s, 10, 64); err != nil || strconv.FormatInt(n, 10) != s {
					continue
				}
			}
		}
		return c01Lit{sql: sql, rank: p, has: true}
	}
}

func c01MetaTyped(rule router.Rule) core.Sexp {
	m := c01Meta(rule)
	return core.L(append(append([]core.Sexp{}, m.List...), core.A(rule.GetType()))...)
}

// rules whose sharding column may as well be a string column
func c01StringKeyed(r *c01Rule) bool {
	return r.name == "hash4" || r.name == "mycat_murmur" || r.name == "mycat_string"
}

func genC01Lit(g *core.Gen, rt *router.Router) {
	genC01LitStmts(g, rt, []string{"select", "update", "delete"}, g.Scale(3500, 70000), "lit-", false)
}

// genC01LitStmts emits n `route` lines with literals of every kind for the given statement kinds
// (C05 uses it for UPDATE / DELETE: the WHERE of both goes through the same routing code).
func genC01LitStmts(g *core.Gen, rt *router.Router, stmts []string, n int, tag string, strictText bool) {
	maxDepth := g.Scale(3, 5)
	for i := 0; i < n; i++ {
		r := &c01Rules[g.Intn(len(c01Rules))]
		rule := rt.GetRule(r.db, r.table)
		ctx := &c01QCtx{r: r, rule: rule, pts: c01Points(r), strs: c01StrKeys, strictText: strictText}
		if r.dateFmt != "" {
			ctx.colType = g.Intn(3)
		} else if c01StringKeyed(r) && g.Intn(3) == 0 {
			ctx.colType = 3
		}
		cond := ctx.genCond(g, g.Intn(maxDepth+1))
		form := g.Intn(5)
		stmt := core.Pick(g, stmts)
		in := core.L(core.A("route"), core.A(r.name), core.I(int64(ctx.colType)), core.I(int64(form)), core.A(stmt),
			c01MetaTyped(rule), cond, ctx.universe())
		g.Emit(in, tag+"rule="+r.name, tag+"stmt="+stmt, tag+"root="+cond.Head(), fmt.Sprintf("%scoltype=%d", tag, ctx.colType))
	}
}
