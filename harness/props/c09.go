package props

import (
	"fmt"
	"math"
	"strings"
	"time"

	"gaeaverif/harness/core"
)

// C09 — range, year, month and day rules: Rule.FindTableIndex and the
// configured sub-table list against the Lean model of shard.go / numkey.go /
// rule.go; the Lean oracle is the interval / calendar reference
// (Spec/ShardCalendar.lean).

func init() {
	core.Register(&core.Property{
		ID: "C09",
		Rule: "one case = one rule configuration + a batch of keys, or a sub-table-list request; range layouts: 1-4 locations of 1-5 tables, limits 1…10^6, 2^62 and the layout whose last bound is MaxInt64, " +
			"keys at every interval bound ±1, int64 extremes, uint64 ≥ 2^63, signed / padded / blank / non-numeric strings; date rules under six fixed time-zone offsets: " +
			"date strings and date-time strings of period boundaries, leap days and random dates, every truncation of them, one corrupted position, signs, odd separators; unix timestamps at period boundaries ±1 s " +
			"(computed in the rule's zone), years 0, 9999, 10000 and beyond, int64 extremes; date_range lists: single periods, spans across year ends and leap days, descending spans, overlapping / malformed lists; " +
			"thorough tier: every string of length ≤ 6 over {0,9,-,x,blank} under each date rule; non-trivial = at least one key placed or a list produced",
		Generate: genC09,
		Exec:     spExec,
		Trivial:  spTrivial,
		Assumptions: []string{
			"Go int is 64 bits",
			"the proxy's time zone is a fixed offset in the correspondence runs; the theorems are parametric in time.Unix(v,0) → civil date (civilOf), package time's Gregorian calendar is not transliterated",
			"date_range spans stay below 106751 days (292 years), above which ParseDayRange truncates (listed as a known finding)",
		},
	})
}

var c09Zones = []int{0, 8 * 3600, -5 * 3600, 19800, 14 * 3600, -12 * 3600}

func c09Date(g *core.Gen) time.Time {
	y := core.Pick(g, []int{2016, 2017, 2015, 2014, 2019, 2020, 2000, 1900, 2100, 1970, 1969, 1, 0, 9999, 999, 1000, 2400})
	if g.Intn(3) == 0 {
		y = g.Intn(10000)
	}
	var m, d int
	switch g.Intn(5) {
	case 0:
		m, d = 1, 1
	case 1:
		m, d = 12, 31
	case 2:
		m, d = 2, 28+g.Intn(2)
	case 3:
		m = 1 + g.Intn(12)
		d = core.Pick(g, []int{1, 28, 29, 30, 31})
	default:
		m, d = 1+g.Intn(12), 1+g.Intn(28)
	}
	h, mi, s := 0, 0, 0
	switch g.Intn(3) {
	case 0:
		h, mi, s = 23, 59, 59
	case 1:
		h, mi, s = g.Intn(24), g.Intn(60), g.Intn(60)
	}
	// time.Date normalises an impossible day (Feb 30) into the next month: fine, it is still a real date
	return time.Date(y, time.Month(m), d, h, mi, s, 0, time.UTC)
}

func c09DateStrings(g *core.Gen, n int) []core.Sexp {
	var out []core.Sexp
	for i := 0; i < n; i++ {
		t := c09Date(g)
		full := t.Format("2006-01-02 15:04:05")
		if t.Year() < 1000 {
			full = fmt.Sprintf("%04d", t.Year()) + full[len(full)-15:]
		}
		var s string
		switch g.Intn(10) {
		case 0, 1, 2:
			s = full[:10]
		case 3, 4:
			s = full
		case 5: // truncation
			s = full[:g.Intn(len(full)+1)]
		case 6: // one corrupted position
			b := []byte(full[:10+9*g.Intn(2)])
			b[g.Intn(len(b))] = core.Pick(g, []byte{'x', ' ', '-', '+', '0', '9', ':', '/', 0xe4})
			s = string(b)
		case 7: // impossible dates and odd separators
			s = core.Pick(g, []string{"2016-02-30", "2015-02-29", "2016-13-01", "2016-00-10", "2016-01-00", "2016-01-32", "2016/03/01", "2016x03x01", "20160301", "2016-3-1", "2016-03-1",
				"2016-03-01T10:00:00", "2016-03-01 25:00:00", "2016-03-01 10:61:00", "2016-03-01 10:00:61", "2016-03-01 10:00", "+201-06-01", "-201-06-01", "2016-+6-01", "2016-06-+1", "2016-06--1",
				"2016-03-01 ", " 2016-03-01", "0000-01-01", "9999-12-31", "9999-12-31 23:59:59", "0000-00-00", "2016-03-01 00:00:00.5", "２０１６-03-01"})
		case 8:
			s = core.Pick(g, []string{"", "2", "20", "201", "2016", "2016-", "2016-0", "2016-03", "2016-03-", "2016-03-0", "abcd", "abcd-ef-gh", "20a6-03-01", "201", "+201", "-201", " 201", "201 ", "0x10", "1e10", "12345"})
		default:
			s = full[:10] + core.Pick(g, []string{"", " ", "x", " 00:00:00", " 23:59:60", "T00:00:00"})
		}
		if g.Intn(12) == 0 {
			out = append(out, spKeyB(s))
		} else {
			out = append(out, spKeyS(s))
		}
	}
	return out
}

func c09Stamps(g *core.Gen, tz int, n int) []core.Sexp {
	loc := time.FixedZone("g", tz)
	var out []core.Sexp
	for i := 0; i < n; i++ {
		var v int64
		switch g.Intn(8) {
		case 0, 1, 2, 3: // a period boundary in the rule's zone, ±1 s
			t := c09Date(g)
			var b time.Time
			switch g.Intn(3) {
			case 0:
				b = time.Date(t.Year(), 1, 1, 0, 0, 0, 0, loc)
			case 1:
				b = time.Date(t.Year(), t.Month(), 1, 0, 0, 0, 0, loc)
			default:
				b = time.Date(t.Year(), t.Month(), t.Day(), 0, 0, 0, 0, loc)
			}
			v = b.Unix() + int64(g.Intn(3)-1)
		case 4:
			v = core.Pick(g, []int64{0, -1, 1, 86399, 86400, 253402300799, 253402300800, -62167219200, -62167219201, 253402300799 - 50400, 253402300800 + 43200, -62167219200 - 50400, -62167219200 + 43200,
				38895000000000, 38894000000000, 1 << 40, 1 << 50, -(1 << 50), 4102444800, 951782400, 951868800, 1388505600, 1514736000, 1577808000, 1404144000, 100000000000000, 31556889864403199, -31557014167219200})
		case 5:
			v = core.Pick(g, []int64{math.MaxInt64, math.MinInt64, math.MaxInt64 - 62135596800, math.MinInt64 + 62135596800, 1 << 62, -(1 << 62), 9223371974719179007, -9223372036854775000})
			if g.Intn(2) == 0 { // keep most extreme draws inside the range where no int64 overflow can occur in package time
				v = v >> uint(8+g.Intn(20))
			}
		case 6:
			v = int64(g.Rand.Uint64()>>uint(20+g.Intn(44))) - int64(g.Intn(1<<31))
		default:
			v = c09Date(g).Unix() - int64(tz)
		}
		// package time counts seconds from the year -292277022399: below that instant
		// time.Unix wraps around (int64 overflow inside the standard library, not modelled)
		if v < -9223372028715000000 {
			v = -9223372028715000000
		}
		switch g.Intn(4) {
		case 0:
			out = append(out, spKeyInt("i", v))
		case 1:
			out = append(out, spKeyU(uint64(v)))
		default:
			out = append(out, spKeyInt("l", v))
		}
	}
	return out
}

var c09YearRanges = [][]string{{"2016"}, {"2014-2016", "2017", "2018-2019"}, {"2019-2017"}, {"0001-0003"}, {"2016-2016"}, {"1999-2001", "2002"}, {"9998-9999"}, {"0000"}, {"2013", "2014", "2015"}, {"2020-2018", "2021"}}
var c09YearBad = [][]string{{"16"}, {"2016-17"}, {"abcd"}, {"2016-2014-2013"}, {""}, {"2016,2017"}, {"2016", "2016"}, {"2016-2018", "2017"}, {"2018", "2017"}, {"20160"}, {"+201"}, {"-201"}, {"2016-"}, {"-2016"}, {"9-10"}, {"2x16"}, {" 2016"}, {"2016-201x"}, {"1-3"}, {"0010-9"}}
var c09MonthRanges = [][]string{{"201601"}, {"201511-201702"}, {"201612-201601"}, {"201701-201701"}, {"201510-201512", "201601", "201602-201612"}, {"199912-200001"}, {"201401-201812"}, {"000101-000103"}, {"999911-999912"}, {"201602", "201603"}, {"201512-201601", "201602"}}
var c09MonthBad = [][]string{{"201613-201702"}, {"201600"}, {"201525-201601"}, {"201613"}, {"20161"}, {"2016010"}, {"201601-20170"}, {"abcdef"}, {"2016-01"}, {"201601-201603", "201603"}, {"201603", "201601"}, {"201500-201503"},
	{"2015+1-2015+3"}, {"201601-2016x3"}, {""}, {"201601-"}, {"-201601"}, {"201601-201603-201605"}, {"201601", "201525-201601"}, {"201612-201699"}, {"201590-201601"}}
var c09DayRanges = [][]string{{"20160301"}, {"20160228-20160302"}, {"20151230-20160102"}, {"20160301-20160227"}, {"20160229"}, {"20150227-20150302"}, {"19000227-19000302"}, {"20000227-20000302"}, {"00010101-00010103"},
	{"99991229-99991231"}, {"20161231", "20170101-20170102"}, {"20160101-20161231"}, {"20151201-20151205", "20151206", "20151207-20151210"}, {"20160301-20160301"}, {"20141231-20160101"}}
var c09DayBad = [][]string{{"20150229-20150301"}, {"20150229"}, {"20161301"}, {"20160230-20160301"}, {"2016030"}, {"201603011"}, {"20160301-2016030"}, {"abcdefgh"}, {"2016-03-01"}, {"20160301-20160303", "20160303"},
	{"20160303", "20160301"}, {"20160300-20160302"}, {"20160301-20160332"}, {"+2016031"}, {"+2016031-+2016033"}, {"2016030x-20160303"}, {""}, {"20160301-"}, {"20160301-20160303-20160305"}, {"20160001-20160102"}, {"00000101-00000103"}}

func c09DateCfg(g *core.Gen) (cfg core.Sexp, tz int, tags []string) {
	tz = core.Pick(g, c09Zones)
	kind := core.Pick(g, []string{"date_year", "date_month", "date_day"})
	var rs []string
	bad := g.Intn(5) == 0
	switch kind {
	case "date_year":
		rs = core.Pick(g, c09YearRanges)
		if bad {
			rs = core.Pick(g, c09YearBad)
		}
	case "date_month":
		rs = core.Pick(g, c09MonthRanges)
		if bad {
			rs = core.Pick(g, c09MonthBad)
		}
	default:
		rs = core.Pick(g, c09DayRanges)
		if bad {
			rs = core.Pick(g, c09DayBad)
		}
	}
	if !bad && g.Intn(4) == 0 { // a generated ascending list of spans
		rs = c09GenRanges(g, kind)
	}
	xs := make([]core.Sexp, len(rs))
	for i, r := range rs {
		xs[i] = core.Text(r)
	}
	tags = []string{kind, fmt.Sprintf("tz %d", tz)}
	if bad {
		tags = append(tags, "suspect-date-range")
	}
	return core.L(core.A(kind), core.I(int64(tz)), core.L(xs...)), tz, tags
}

// c09GenRanges: 1-3 consecutive spans / single periods, some written in descending order.
func c09GenRanges(g *core.Gen, kind string) []string {
	t := time.Date(core.Pick(g, []int{2015, 2016, 1999, 2019, 2023, 1899, 2099}), time.Month(1+g.Intn(12)), 1+g.Intn(28), 0, 0, 0, 0, time.UTC)
	layout := map[string]string{"date_year": "2006", "date_month": "200601", "date_day": "20060102"}[kind]
	step := func(t time.Time, n int) time.Time {
		switch kind {
		case "date_year":
			return time.Date(t.Year()+n, 1, 1, 0, 0, 0, 0, time.UTC)
		case "date_month":
			return time.Date(t.Year(), t.Month()+time.Month(n), 1, 0, 0, 0, 0, time.UTC)
		}
		return t.AddDate(0, 0, n)
	}
	t = step(t, 0)
	var out []string
	for i := 0; i < 1+g.Intn(3); i++ {
		span := g.Intn(4)
		if g.Intn(4) == 0 {
			span = 10 + g.Intn(60)
		}
		a, b := t, step(t, span)
		switch {
		case span == 0 && g.Intn(2) == 0:
			out = append(out, a.Format(layout))
		case g.Intn(4) == 0:
			out = append(out, b.Format(layout)+"-"+a.Format(layout))
		default:
			out = append(out, a.Format(layout)+"-"+b.Format(layout))
		}
		t = step(b, 1)
	}
	return out
}

func c09RangeCfg(g *core.Gen) (cfg core.Sexp, bounds []int64, tags []string) {
	k := 1 + g.Intn(4)
	locs := make([]int, k)
	n := 0
	for i := range locs {
		locs[i] = 1 + g.Intn(5)
		n += locs[i]
	}
	limit := core.Pick(g, []int64{1, 2, 10, 100, 1000, 1000000, 3, 7, 1 << 20})
	tags = []string{"range"}
	switch g.Intn(12) {
	case 0: // the layout whose last bound is MaxInt64
		locs, n, limit = []int{20, 29}, 49, 188232082384791343
		tags = append(tags, "range-end-maxint64")
	case 1:
		locs, n, limit = []int{1}, 1, 1<<62
	case 2:
		locs, n, limit = []int{1, 1}, 2, 1<<62-1
	case 3:
		limit = int64(1 + g.Intn(1<<30))
	case 4: // layouts whose bounds overflow int64 (limit ≤ 0 and negative locations are C10's)
		limit = core.Pick(g, []int64{1 << 62, 1 << 61, math.MaxInt64, 1<<62 + 12345})
		if n < 3 {
			locs, n = []int{2, 2}, 4
		}
		tags = append(tags, "overflowing-range-layout")
	}
	for i := 0; i <= n+1; i++ {
		bounds = append(bounds, int64(i)*limit)
	}
	bounds = append(bounds, 0, -1, math.MaxInt64, math.MinInt64, math.MaxInt64-1, limit-1)
	return core.L(core.A("range"), core.Ints(locs), core.I(limit)), bounds, tags
}

func genC09(g *core.Gen) {
	n := g.Scale(900, 6000)
	for i := 0; i < n; i++ {
		switch {
		case i%3 == 0:
			cfg, bounds, tags := c09RangeCfg(g)
			keys := spIntKeys(g, bounds, 16)
			for j := 0; j < 3; j++ {
				keys = append(keys, spKeyS(core.Pick(g, spBadNumbers)))
			}
			keys = append(keys, spKeyF(), spKeyU(uint64(1)<<63+uint64(g.Intn(3))), spKeyU(math.MaxUint64-uint64(g.Intn(2000))))
			g.Emit(core.L(core.A("place"), cfg, core.L(keys...)), tags...)
			if i%9 == 0 {
				g.Emit(core.L(core.A("subtables"), cfg), append(tags, "subtables")...)
			}
		default:
			cfg, tz, tags := c09DateCfg(g)
			var keys []core.Sexp
			keys = append(keys, c09DateStrings(g, 12)...)
			keys = append(keys, c09Stamps(g, tz, 8)...)
			if g.Intn(5) == 0 {
				keys = append(keys, spKeyF())
			}
			g.Emit(core.L(core.A("place"), cfg, core.L(keys...)), tags...)
			g.Emit(core.L(core.A("subtables"), cfg), append(tags, "subtables")...)
		}
	}
	if g.Tier != "quick" {
		// exhaustive small scope: every string of length ≤ 6 over a five-letter alphabet, under each date rule
		alpha := []byte{'0', '9', '-', 'x', ' '}
		var all []string
		var rec func(prefix []byte, depth int)
		rec = func(prefix []byte, depth int) {
			all = append(all, string(prefix))
			if depth == 6 {
				return
			}
			for _, a := range alpha {
				rec(append(append([]byte{}, prefix...), a), depth+1)
			}
		}
		rec(nil, 0)
		for _, kind := range []string{"date_year", "date_month", "date_day"} {
			cfg := core.L(core.A(kind), core.I(0), core.L(core.Text(map[string]string{"date_year": "2016", "date_month": "201601", "date_day": "20160101"}[kind])))
			for i := 0; i < len(all); i += 60 {
				j := i + 60
				if j > len(all) {
					j = len(all)
				}
				var keys []core.Sexp
				for _, s := range all[i:j] {
					keys = append(keys, spKeyS(s))
				}
				g.Emit(core.L(core.A("place"), cfg, core.L(keys...)), "exhaustive-short-strings", kind)
			}
		}
		// 10- and 19-character strings with every position corrupted in turn
		for _, kind := range []string{"date_year", "date_month", "date_day"} {
			cfg := core.L(core.A(kind), core.I(0), core.L(core.Text(map[string]string{"date_year": "2016", "date_month": "201601", "date_day": "20160101"}[kind])))
			for _, base := range []string{"2016-02-29", "1999-12-31 23:59:59"} {
				var keys []core.Sexp
				for p := 0; p < len(base); p++ {
					for _, c := range []byte{'0', '9', '-', 'x', ' ', '+', ':'} {
						b := []byte(base)
						b[p] = c
						keys = append(keys, spKeyS(string(b)))
					}
				}
				g.Emit(core.L(core.A("place"), cfg, core.L(keys...)), "every-position-corrupted", kind)
			}
		}
	}
	_ = strings.Join
}
