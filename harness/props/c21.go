package props

import (
	"fmt"
	"strings"
	"sync"

	"gaeaverif/harness/core"

	"github.com/XiaoMi/Gaea/mysql"
	"github.com/XiaoMi/Gaea/parser"
	"github.com/XiaoMi/Gaea/parser/ast"
	"github.com/XiaoMi/Gaea/proxy/server"
)

// C21 — read-only users cannot change data or schema: parser.Preview /
// PreviewSpecialComment / PreviewMainStatement / withMainStatement /
// StripLeadingComments, checkSQLAllowed and the entry paths (doQuery,
// doMultiStmts, handleStmtExecute without and with bound parameters) on a real
// session with a recording fake backend.

const c21ReadOnlyErr = "write DML is now allowed by read user"

func init() {
	core.Register(&core.Property{
		ID: "C21",
		Rule: "texts = up to three leading pieces of trivia (blanks, /* */, -- and # comments, /*!NNNNN openers, /*+ hints, parentheses, non-ASCII spaces, malformed openers) + a keyword of every statement kind of Preview and of the C21 list in lower/UPPER/Title/rANdom case (also with U+0130 / U+212A look-alikes) + a continuation (blank, /**/, `t`, (, ., _x, digits, non-ASCII, nothing); " +
			"each text through Preview/PreviewSpecialComment/PreviewMainStatement/StripLeadingComments, through checkSQLAllowed for a read-only and a read-write user, and through doQuery and handleStmtExecute on a session for read-only users with and without read/write splitting (doQuery also on a session whose namespace has a shard rule, where plans are built from the parsed tree, and on a session whose user was made read-only by a namespace reload after login); multi-statement texts (selects, writes with trivia, failing statements) through handleQuery→doMultiStmts; plus random soups; " +
			"routes that lead to another statement: CALL, text-protocol PREPARE (string of every quoting, user variable, nested) / EXECUTE (USING, IMMEDIATE) / DEALLOCATE, WITH [RECURSIVE] lists of common table expressions (bare, quoted and keyword-like names, column lists, nested parentheses, quotes holding parentheses / quotes / comment openers / backslashes, comments, /*! */ inside, unclosed forms) followed by every kind of main statement, each with leading trivia, in every letter case, as a piece of a multi-statement text and as a prepared statement of the binary protocol with bound parameters (strings with quotes and backslashes, numbers, NULL); withMainStatement alone on the same texts and on soups of its alphabet; every text carries what /repo's grammar makes of it (PREPARE's string followed) for the oracle; " +
			"non-trivial = the statement is rejected or is a statement kind other than unknown",
		Generate: genC21,
		Exec:     execC21,
		Trivial: func(in core.Sexp, out string) bool {
			return out == "pass" || out == "none" || strings.HasPrefix(out, "(14 14 14 ") || strings.HasPrefix(out, "(ok 0")
		},
		Assumptions: []string{
			"the SQL blacklist of the namespace is empty (checkSQLAllowed's second test always passes)",
			"prepared statements with parameters: the values are bound as MYSQL_TYPE_VAR_STRING / LONGLONG / NULL by the real bindStmtArgs (its decoding of every other type is C15/C16's subject); sql_mode without NO_BACKSLASH_ESCAPES",
			"'could modify data or schema' is read as: the first keyword MySQL sees (after blanks, comments and inside a leading /*! */) is INSERT, REPLACE, UPDATE, DELETE, CREATE, ALTER, DROP, TRUNCATE, RENAME or LOAD; or it is CALL or EXECUTE (effect unknown to the proxy); or PREPARE of such a text or of a user variable; or WITH leading to such a statement under one of the readings a backend may have (backslash escapes or not, /*! */ code or comment); or /repo's grammar builds an INSERT/REPLACE/UPDATE/DELETE/DDL/LOAD DATA/EXECUTE statement from it",
			"the client character set is ASCII-transparent (utf8, utf8mb4, latin1): no multi-byte character contains a quote, back quote or backslash byte",
			"multi path: every piece used is a statement the proxy forwards to the backend (no SET/USE/SHOW/BEGIN …), so the count of backend executions equals the count of statements that passed",
		},
	})
}

func c21Flags(u string) (readOnly, rwSplit bool) {
	switch u {
	case "ro":
		return true, false
	case "rosplit":
		return true, true
	case "rwsplit":
		return false, true
	}
	return false, false
}

func c21Execs(s *server.VerifLexSession) int {
	n := 0
	for _, e := range s.Events() {
		if strings.HasPrefix(e, "exec ") {
			n++
		}
	}
	return n
}

func execC21(in core.Sexp) string {
	lexQuiet.Do(server.VerifLexSilenceGlobalLog)
	switch in.Head() {
	case "preview":
		sql := in.Nth(1).Str()
		return fmt.Sprintf("(%d %d %d %s)", parser.Preview(sql), parser.PreviewSpecialComment(sql), parser.PreviewMainStatement(sql), core.Text(parser.StripLeadingComments(sql)))
	case "withmain":
		m, ok := parser.VerifWithMainStatement(in.Nth(1).Str())
		if !ok {
			return "none"
		}
		return "(some " + core.Text(m).String() + ")"
	case "check":
		ro, split := c21Flags(in.Nth(1).Atom)
		s := server.VerifLexNewSession(ro, split, false)
		defer s.Close()
		if err := s.CheckSQLAllowed(in.Nth(2).Str()); err != nil {
			if err.Error() == c21ReadOnlyErr {
				return "reject"
			}
			return "(err other)"
		}
		return "pass"
	case "sess":
		path := in.Nth(1).Atom
		ro, split := c21Flags(in.Nth(2).Atom)
		sql := in.Nth(3).Str()
		multi := path == "multi" || path == "stmtmulti"
		var s *server.VerifLexSession
		if path == "squery" {
			s = server.VerifC21NewShardedSession(ro, split, multi)
		} else {
			s = server.VerifLexNewSession(ro, split, multi)
		}
		defer s.Close()
		var err error
		switch path {
		case "stmtp":
			id, n, perr := s.StmtPrepare(sql)
			if perr != nil {
				return "(err prepare)"
			}
			given := in.Nth(4).List
			params := make([]stmtParam, n)
			for i := range params {
				params[i] = stmtParam{tp: mysql.TypeNull, null: true}
				if len(given) > 0 {
					params[i] = c21Param(given[i%len(given)])
				}
			}
			err = s.StmtExecuteRaw(stmtExecPacket(id, 0, params, 1, n))
		case "query", "squery", "requery":
			if path == "requery" {
				s.DemoteToReadOnly()
			}
			// doQuery has no recover of its own (handleQuery has): a panic of
			// the planner/parser after the check is "passed the check" here
			// (that is C38's subject; checkSQLAllowed alone is run by `check`)
			func() {
				defer func() {
					if e := recover(); e != nil {
						err = fmt.Errorf("panic after the read-only check: %v", e)
					}
				}()
				err = s.DoQuery(sql)
			}()
		case "multi":
			err = s.HandleQuery(sql)
		case "stmt", "stmtmulti":
			err = s.StmtExecute(sql)
		default:
			return "bad"
		}
		// (getPlan's refusal of a parsed tree comes wrapped in doQuery's "get plan error")
		rejected := err != nil && (err.Error() == c21ReadOnlyErr || strings.Contains(err.Error(), "err: "+c21ReadOnlyErr))
		if !multi {
			if rejected {
				if len(s.Events()) > 0 {
					return "reject-after-backend"
				}
				return "reject"
			}
			return "pass"
		}
		n := c21Execs(s)
		switch {
		case rejected:
			return fmt.Sprintf("(reject %d)", n)
		case err != nil:
			return fmt.Sprintf("(err %d)", n)
		}
		return fmt.Sprintf("(ok %d)", n)
	}
	return "bad"
}

// c21Param is one bound parameter of a stmtp case on the wire.
func c21Param(a core.Sexp) stmtParam {
	switch {
	case a.IsAtom:
		return stmtParam{tp: mysql.TypeNull, null: true}
	case a.Head() == "i":
		v := uint64(a.Nth(1).Int())
		b := make([]byte, 8)
		for i := range b {
			b[i] = byte(v >> (8 * uint(i)))
		}
		return stmtParam{tp: mysql.TypeLonglong, value: b}
	}
	return stmtParam{tp: mysql.TypeVarString, value: mysql.AppendLenEncStringBytes(nil, a.Nth(1).Bytes())}
}

var (
	c21FactOnce     sync.Once
	c21FactSessions [2]*server.VerifLexSession
)

// c21PlannedKind asks the real getPlan steps (preBuildUnshardPlan, Parse,
// stmtTypeOfNode) of a session without / with a shard rule what the plan of
// the text is built from: -1 = from the text (or no plan, or no parse).
func c21PlannedKind(sql string, sharded bool) (k int) {
	c21FactOnce.Do(func() {
		lexQuiet.Do(server.VerifLexSilenceGlobalLog)
		c21FactSessions[0] = server.VerifLexNewSession(true, false, false)
		c21FactSessions[1] = server.VerifC21NewShardedSession(true, false, false)
	})
	defer func() {
		if recover() != nil {
			k = -1
		}
	}()
	if sharded {
		return c21FactSessions[1].PlannedKind(sql)
	}
	return c21FactSessions[0].PlannedKind(sql)
}

// c21Ast tells what /repo's grammar makes of a text: "w" a statement that
// changes data or schema (or runs a prepared statement), "r" another
// statement, "x" no parse. The string of PREPARE is followed.
func c21Ast(sql string, depth int) (class string) {
	defer func() {
		if recover() != nil {
			class = "x"
		}
	}()
	n, err := parser.New().ParseOneStmt(sql, "", "")
	if err != nil || n == nil {
		return "x"
	}
	switch x := n.(type) {
	case *ast.InsertStmt, *ast.UpdateStmt, *ast.DeleteStmt, *ast.LoadDataStmt,
		*ast.CreateDatabaseStmt, *ast.DropDatabaseStmt, *ast.CreateTableStmt, *ast.DropTableStmt, *ast.RenameTableStmt,
		*ast.CreateViewStmt, *ast.CreateIndexStmt, *ast.DropIndexStmt, *ast.AlterTableStmt, *ast.TruncateTableStmt:
		return "w"
	case *ast.ExecuteStmt:
		return "w"
	case *ast.PrepareStmt:
		if x.SQLVar != nil {
			return "w"
		}
		if depth < 4 && c21Ast(x.SQLText, depth+1) == "w" {
			return "w"
		}
		return "r"
	}
	return "r"
}

var c21Keywords = []string{"select", "stream", "insert", "replace", "update", "delete", "savepoint", "lock", "unlock",
	"begin", "start", "commit", "rollback", "create", "alter", "rename", "drop", "truncate", "flush", "set", "show", "use",
	"explain", "analyze", "describe", "desc", "repair", "optimize", "release", "kill", "load",
	"with", "call", "grant", "revoke", "do", "handler", "prepare", "execute", "deallocate", "table", "values", "xa", "x", "inser", "inserts", "deleted"}

var c21Writes = []string{"insert", "replace", "update", "delete", "create", "alter", "rename", "drop", "truncate", "load"}

var c21Trivia = []string{" ", "\t\n", "\r\n ", "/* c */", "/* insert */", "/**/", "/***/", "/* a\nb */", "-- c\n", "--\n", "-- insert\n", "--\tx\n", "# c\n", "#\n", "# delete from t\n",
	"/*!", "/*!40101 ", "/*!50708", "/*! ", "/*!M100100 ", "/*!123456 ", "/*!40101\t ", "/*+ hint */", "/*+ MAX_EXECUTION_TIME(1) */ ",
	";", "; ", ";;\n;", ";/* x */", "; -- c\n", ";/* select */ ", " ;# c\n"}

var c21OddTrivia = []string{"(", "((", "( ", "/*!40101 */", " ", "　", "\xa0", "\x85", "--x\n", "-- c", "# c", "/* unclosed", "/*/ ", ";", "*/ ", "/*!1234 ", "/*!M1 ", "/*!\n", "1", "@a:=", "é", "\x00", "\\", "/*!40101 /*!40101 ", "--", "#", "/*", "/", "-"}

var c21Cont = []string{" into t values (1)", " t set a = 1", " from t", " table t", " data infile 'x' into table t", "/**/into t values (1)", "/**/table t", "`t` values (1)", "`t` set a=1",
	"(t) values (1)", ".t from t", "\tinto t values(1)", "\n", "", ";", " ;", "_x", "1", "$", "é", " into t", "　into t", "\xa0x", "-- x", "'", "*from t", "@a=1", "/*! */", " */", " 1 */",
	"\x00", "[", "+1", "=1", "  transaction", " transaction", " transaction /* c */", " /* c */", " /* c *//*d*/", "; /* c */", " work", " to sp1", " 😀"}

func c21Case(g *core.Gen, w string) string {
	switch g.Intn(6) {
	case 0:
		return strings.ToUpper(w)
	case 1:
		return strings.ToUpper(w[:1]) + w[1:]
	case 2:
		b := []byte(w)
		for i := range b {
			if g.Intn(2) == 0 {
				b[i] = byte(strings.ToUpper(string(b[i]))[0])
			}
		}
		return string(b)
	case 3:
		// Unicode look-alikes whose lower case is ASCII
		if g.Intn(3) == 0 {
			r := strings.NewReplacer("i", "İ", "k", "K")
			return r.Replace(w)
		}
	}
	return w
}

func c21Text(g *core.Gen, kw string, odd bool) string {
	var b strings.Builder
	n := g.Intn(4)
	for i := 0; i < n; i++ {
		if odd && g.Intn(3) == 0 {
			b.WriteString(core.Pick(g, c21OddTrivia))
		} else {
			b.WriteString(core.Pick(g, c21Trivia))
		}
	}
	b.WriteString(c21Case(g, kw))
	b.WriteString(core.Pick(g, c21Cont))
	return b.String()
}

var c21Reads = []string{"select 1", "select * from t", "SELECT 'insert'", "/* delete */ select 2", "-- drop\n select 3", "select `update` from t", "(select 4)", "select 'FAILME'"}

func genC21(g *core.Gen) {
	emit := func(tag string, xs ...core.Sexp) { g.Emit(core.L(xs...), xs[0].Atom, tag) }
	astOf := func(s string) core.Sexp { return core.L(core.A("ast"), core.A(c21Ast(s, 0))) }
	// sessFacts: the grammar's view of the text, and (when getPlan builds the plan of this text from a parsed
	// tree on that kind of session) the kind of that tree
	sessFacts := func(s string, sharded bool) []core.Sexp {
		fs := []core.Sexp{astOf(s)}
		if k := c21PlannedKind(s, sharded); k >= 0 {
			fs = append(fs, core.L(core.A("pk"), core.I(int64(k))))
		}
		return fs
	}
	sessCase := func(tag, path, user, s string) {
		xs := []core.Sexp{core.A("sess"), core.A(path), core.A(user), core.Text(s)}
		t := s
		if path == "stmt" {
			// handleStmtExecute trims the final semicolons before anything else
			t = strings.TrimRight(s, ";")
		}
		emit(tag, append(xs, sessFacts(t, path == "squery")...)...)
	}
	all := func(s, tag string, sess bool) {
		a := astOf(s)
		emit(tag, core.A("preview"), core.Text(s))
		emit(tag, core.A("check"), core.A("ro"), core.Text(s), a)
		if g.Intn(3) == 0 {
			emit(tag, core.A("check"), core.A("rw"), core.Text(s), a)
		}
		if sess {
			sessCase(tag, "query", core.Pick(g, []string{"ro", "rosplit"}), s)
			if g.Intn(2) == 0 {
				// the same on a namespace with a shard rule: planned from the tree the parser builds
				sessCase(tag, "squery", core.Pick(g, []string{"ro", "rosplit"}), s)
			}
			sessCase(tag, "stmt", core.Pick(g, []string{"ro", "rosplit"}), s)
			if g.Intn(4) == 0 {
				sessCase(tag, "query", core.Pick(g, []string{"rw", "rwsplit"}), s)
			}
			if g.Intn(4) == 0 {
				// logged in with write permission, made read-only by a namespace reload since
				sessCase(tag, "requery", core.Pick(g, []string{"rw", "rwsplit"}), s)
			}
		}
	}
	// every keyword, plain and with each single piece of trivia, every continuation
	for _, kw := range c21Keywords {
		all(kw, "keyword", true)
		all(strings.ToUpper(kw)+" x", "keyword", true)
		for _, t := range c21Trivia {
			all(t+kw+" t", "keyword-trivia", false)
		}
	}
	for _, kw := range c21Writes {
		for _, c := range c21Cont {
			all(kw+c, "write-cont", true)
		}
		for _, t := range append(append([]string{}, c21Trivia...), c21OddTrivia...) {
			all(t+kw+" into t", "write-trivia", true)
		}
	}
	for _, s := range []string{"", " ", ";", "begin", " begin ", "begin;", "begin ;", "begin; /*...*/", "begin /* ... *//*test*/", "BEGIN", "start transaction", "START TRANSACTION;", "start  transaction",
		"commit", "commit /*...*/", "rollback", "rollback to point", "rollback /*x*/", "... begin ", "begin ...", "/*!40000 ALTER TABLE `t1` DISABLE KEYS */", "/*! MySQL-specific comment */",
		"/*!40101 insert into t values (1) */", "/*!40101 SET @a=1 */", "/*!40101 */ insert into t values (1)", "/*!40101 /*!40101 drop table t */", "# x\ninsert into t values (1)",
		"insert/**/into t values (1)", "insert`t` values (1)", "update`t` set a=1", "delete`t` from t", "drop/**/table t", "replace into t values (1)", "load data infile 'x' into table t",
		"truncate t", "rename table a to b", "alter table t add c int", "create table t(a int)", "select*from t", "use`db`", "set@a=1", "(select 1)", "( insert into t values (1))",
		"-- leading single line comment no end select ...", "/* leading comment no end select ...", "İnsert into t values (1)", "Kill 1", "insért", "insert\x00into"} {
		all(s, "fixed", true)
	}
	// one valid statement per node type the tree check knows (stmtTypeOfNode), behind the wrappers that
	// defeat the textual preview, on the namespace whose statements are planned from the parsed tree
	for _, s := range []string{"insert into t values (1)", "replace into t values (1)", "update t set a=1", "delete from t", "create table t2(a int)",
		"create database d2", "create index i on t(a)", "create view v as select 1", "alter table t add c int", "drop table t", "drop database d2",
		"drop index i on t", "drop view v", "truncate table t", "TRUNCATE t", "rename table t to t2", "load data infile 'x' into table t", "select 1", "show tables"} {
		for _, w := range []string{"/*!40101 -- x */ ", "/*!40101 # x */ ", "/*!40101 -- x\n */ ", "/*!40101 -- x */ /*!40101 # y */ "} {
			for _, user := range []string{"ro", "rosplit"} {
				sessCase("tree-planned-hidden", "squery", user, w+s)
				sessCase("tree-planned-hidden", "query", user, w+s)
			}
		}
	}
	n := g.Scale(700, 12000)
	for i := 0; i < n; i++ {
		kw := core.Pick(g, c21Keywords)
		if g.Intn(2) == 0 {
			kw = core.Pick(g, c21Writes)
		}
		all(c21Text(g, kw, g.Intn(4) == 0), "random", g.Intn(5) == 0)
	}
	// soups
	alpha := []string{"/", "*", "!", "-", "#", "\n", " ", "(", "insert", "DROP", "select", "4", "0", "1", "M", ";", "`", "'", "\xc2", "\xa0", "é", "+", "x", "\t"}
	for i := 0; i < g.Scale(500, 10000); i++ {
		var b strings.Builder
		k := g.Intn(9)
		for j := 0; j < k; j++ {
			b.WriteString(core.Pick(g, alpha))
		}
		all(b.String(), "soup", g.Intn(8) == 0)
	}
	// multi-statement texts: reads and writes (with trivia) that the proxy forwards to the backend
	for _, s := range []string{"select 1; delete from t; select 2", "select 1; select 2", "insert into t values (1)", "select 1;/* c */ DROP table t", "select 1; select 'FAILME'; delete from t",
		"select ';delete from t'; select 2", "select 1 -- ; delete from t\n; select 2", "select 1;;;# c\nreplace into t values (1);"} {
		for _, u := range []string{"ro", "rosplit", "rw"} {
			emit("fixed", core.A("sess"), core.A("multi"), core.A(u), core.Text(s))
			emit("fixed", core.A("sess"), core.A("stmtmulti"), core.A(u), core.Text(s))
		}
	}
	plainTrivia := []string{"", " ", "\n", "/* c */ ", "/* ; */", "-- c;\n", "# c\n", "/*+ h */ "}
	for i := 0; i < g.Scale(300, 4000); i++ {
		var b strings.Builder
		k := 1 + g.Intn(5)
		for j := 0; j < k; j++ {
			if j > 0 {
				b.WriteString(core.Pick(g, []string{";", "; ", ";;", " ;\n"}))
			}
			if g.Intn(3) == 0 {
				b.WriteString(core.Pick(g, plainTrivia))
				b.WriteString(c21Case(g, core.Pick(g, c21Writes)))
				b.WriteString(core.Pick(g, []string{" into t values (1)", " t set a = ';'", " table t", "/**/table t", "`t` values (1)"}))
			} else {
				b.WriteString(core.Pick(g, c21Reads))
			}
		}
		if g.Intn(3) == 0 {
			b.WriteString(";")
		}
		path := core.Pick(g, []string{"multi", "multi", "stmtmulti"})
		emit("random", core.A("sess"), core.A(path), core.A(core.Pick(g, []string{"ro", "rosplit", "rw", "rwsplit"})), core.Text(b.String()))
	}
	genC21Routes(g, emit, all)
}
