package props

import (
	"fmt"
	"hash"
	"hash/fnv"
	"reflect"
	"sort"
	"strconv"
	"time"
)

// c07Deep renders everything reachable from a value (unexported fields, maps,
// slices, what pointers and interfaces point to) either into a hash or into
// "path=value" lines: the deep snapshot of the router, its rules and shards and
// of the namespace with its caches that planning must leave unchanged.
// Pointer identity is not part of the rendering (a second visit of the same
// object is "@<first path>"); functions are "func", channels "chan"; the
// mutexes of package sync and what `skip` names are left out.
type c07Deep struct {
	h     hash.Hash64
	lines []string
	keep  bool
	seen  map[uintptr]string
	skip  func(path string, t reflect.Type) bool
}

func c07NewDeep(keepLines bool, skip func(path string, t reflect.Type) bool) *c07Deep {
	return &c07Deep{h: fnv.New64a(), keep: keepLines, seen: map[uintptr]string{}, skip: skip}
}

func (d *c07Deep) emit(path, val string) {
	d.h.Write([]byte(path))
	d.h.Write([]byte{0})
	d.h.Write([]byte(val))
	d.h.Write([]byte{1})
	if d.keep {
		d.lines = append(d.lines, path+"="+val)
	}
}

var c07TimeType = reflect.TypeOf(time.Time{})

func (d *c07Deep) walk(path string, v reflect.Value) {
	if !v.IsValid() {
		d.emit(path, "invalid")
		return
	}
	t := v.Type()
	if d.skip != nil && d.skip(path, t) {
		return
	}
	if t.PkgPath() == "sync" {
		return
	}
	if t == c07TimeType {
		// wall clock reading and location pointer are not state planning may depend on here
		d.emit(path, "time")
		return
	}
	switch v.Kind() {
	case reflect.Ptr:
		if v.IsNil() {
			d.emit(path, "nil")
			return
		}
		p := v.Pointer()
		if first, ok := d.seen[p]; ok {
			d.emit(path, "@"+first)
			return
		}
		d.seen[p] = path
		d.walk(path+"*", v.Elem())
	case reflect.Interface:
		if v.IsNil() {
			d.emit(path, "nil")
			return
		}
		d.emit(path, "iface "+v.Elem().Type().String())
		d.walk(path, v.Elem())
	case reflect.Struct:
		for i := 0; i < v.NumField(); i++ {
			d.walk(path+"."+t.Field(i).Name, v.Field(i))
		}
	case reflect.Slice:
		if v.IsNil() {
			d.emit(path, "nil")
			return
		}
		d.emit(path, "len "+strconv.Itoa(v.Len()))
		if t.Elem().Kind() == reflect.Uint8 {
			d.emit(path+"[]", fmt.Sprintf("%x", v.Bytes()))
			return
		}
		for i := 0; i < v.Len(); i++ {
			d.walk(path+"["+strconv.Itoa(i)+"]", v.Index(i))
		}
	case reflect.Array:
		for i := 0; i < v.Len(); i++ {
			d.walk(path+"["+strconv.Itoa(i)+"]", v.Index(i))
		}
	case reflect.Map:
		if v.IsNil() {
			d.emit(path, "nil")
			return
		}
		d.emit(path, "len "+strconv.Itoa(v.Len()))
		type kv struct {
			k string
			v reflect.Value
		}
		var kvs []kv
		it := v.MapRange()
		for it.Next() {
			kvs = append(kvs, kv{c07KeyString(it.Key()), it.Value()})
		}
		sort.Slice(kvs, func(i, j int) bool { return kvs[i].k < kvs[j].k })
		for _, e := range kvs {
			d.walk(path+"["+e.k+"]", e.v)
		}
	case reflect.String:
		d.emit(path, strconv.Quote(v.String()))
	case reflect.Bool:
		d.emit(path, strconv.FormatBool(v.Bool()))
	case reflect.Int, reflect.Int8, reflect.Int16, reflect.Int32, reflect.Int64:
		d.emit(path, strconv.FormatInt(v.Int(), 10))
	case reflect.Uint, reflect.Uint8, reflect.Uint16, reflect.Uint32, reflect.Uint64, reflect.Uintptr:
		d.emit(path, strconv.FormatUint(v.Uint(), 10))
	case reflect.Float32, reflect.Float64:
		d.emit(path, strconv.FormatFloat(v.Float(), 'g', -1, 64))
	case reflect.Complex64, reflect.Complex128:
		d.emit(path, fmt.Sprint(v.Complex()))
	case reflect.Func:
		if v.IsNil() {
			d.emit(path, "nil")
		} else {
			d.emit(path, "func")
		}
	case reflect.Chan:
		d.emit(path, "chan")
	case reflect.UnsafePointer:
		d.emit(path, "unsafe")
	}
}

func c07KeyString(k reflect.Value) string {
	switch k.Kind() {
	case reflect.String:
		return strconv.Quote(k.String())
	case reflect.Int, reflect.Int8, reflect.Int16, reflect.Int32, reflect.Int64:
		return fmt.Sprintf("%020d", k.Int()+(1<<62))
	case reflect.Uint, reflect.Uint8, reflect.Uint16, reflect.Uint32, reflect.Uint64:
		return fmt.Sprintf("%020d", k.Uint())
	case reflect.Bool:
		return strconv.FormatBool(k.Bool())
	case reflect.Interface, reflect.Ptr:
		if k.IsNil() {
			return "nil"
		}
		return c07KeyString(k.Elem())
	}
	return k.Type().String()
}

// c07Snap is one deep snapshot: hash, and the lines when asked for.
type c07Snap struct {
	sum   uint64
	lines []string
}

func c07TakeSnap(keepLines bool, skip func(path string, t reflect.Type) bool, roots ...interface{}) c07Snap {
	d := c07NewDeep(keepLines, skip)
	for i, r := range roots {
		d.walk("r"+strconv.Itoa(i), reflect.ValueOf(r))
	}
	return c07Snap{sum: d.h.Sum64(), lines: d.lines}
}

// c07FirstDiff names the first path whose rendering differs.
func c07FirstDiff(before, after []string) string {
	for i := 0; i < len(before) && i < len(after); i++ {
		if before[i] != after[i] {
			return before[i] + " -> " + after[i]
		}
	}
	if len(after) > len(before) {
		return "(none) -> " + after[len(before)]
	}
	if len(before) > len(after) {
		return before[len(after)] + " -> (none)"
	}
	return "?"
}
