package props

import (
	"fmt"
	"strings"
	"time"

	"gaeaverif/harness/core"

	gerrors "github.com/XiaoMi/Gaea/core/errors"
	"github.com/XiaoMi/Gaea/models"
	"github.com/XiaoMi/Gaea/proxy/router"
)

// Shared by C08 and C09: key placement through the public API of proxy/router
// (router.NewRouter on a one-rule namespace, Rule.FindTableIndex,
// Rule.GetSubTableIndexes).  Wire format: lean/GaeaVerif/Drv/ShardIO.lean.

var spLastCfg string
var spLastRule router.Rule
var spLastStatus string

func spStrings(e core.Sexp) []string {
	out := make([]string, len(e.List))
	for i, x := range e.List {
		out[i] = x.Str()
	}
	return out
}

func spInts(e core.Sexp) []int {
	out := make([]int, len(e.List))
	for i, x := range e.List {
		out[i] = int(x.Int())
	}
	return out
}

// spBuildRule builds the rule of a <cfg> with the real constructor.
// status: "" | "cfgerr" | "cfgpanic".
func spBuildRule(cfg core.Sexp) (rule router.Rule, status string) {
	line := cfg.String()
	if line == spLastCfg {
		return spLastRule, spLastStatus
	}
	defer func() {
		if e := recover(); e != nil {
			rule, status = nil, "cfgpanic"
		}
		spLastCfg, spLastRule, spLastStatus = line, rule, status
	}()
	sh := &models.Shard{DB: "db_v", Table: "tbl_v", Key: "k", Type: cfg.Head()}
	nSlices := 0
	switch cfg.Head() {
	case "mycat_mod", "mycat_long", "mycat_string", "mycat_murmur":
		sh.Locations = spInts(cfg.Nth(1))
		nSlices = len(sh.Locations)
		ndb := int(cfg.Nth(2).Int())
		for i := 0; i < ndb; i++ {
			sh.Databases = append(sh.Databases, fmt.Sprintf("db_v_%d", i))
		}
		switch cfg.Head() {
		case "mycat_long":
			sh.PartitionCount, sh.PartitionLength = cfg.Nth(3).Str(), cfg.Nth(4).Str()
		case "mycat_string":
			sh.PartitionCount, sh.PartitionLength, sh.HashSlice = cfg.Nth(3).Str(), cfg.Nth(4).Str(), cfg.Nth(5).Str()
		case "mycat_murmur":
			sh.Seed, sh.VirtualBucketTimes = cfg.Nth(3).Str(), cfg.Nth(4).Str()
		}
	case "range":
		sh.Locations = spInts(cfg.Nth(1))
		nSlices = len(sh.Locations)
		sh.TableRowLimit = int(cfg.Nth(2).Int())
	case "date_year", "date_month", "date_day":
		sh.DateRange = spStrings(cfg.Nth(2))
		nSlices = len(sh.DateRange)
	default:
		return nil, "cfgerr"
	}
	ns := &models.Namespace{Name: "ns_v", DefaultSlice: "slice-d", Slices: []*models.Slice{{Name: "slice-d"}}}
	for i := 0; i < nSlices; i++ {
		name := fmt.Sprintf("slice-%d", i)
		ns.Slices = append(ns.Slices, &models.Slice{Name: name})
		sh.Slices = append(sh.Slices, name)
	}
	ns.ShardRules = []*models.Shard{sh}
	rt, err := router.NewRouter(ns)
	if err != nil {
		return nil, "cfgerr"
	}
	r, ok := rt.GetShardRule("db_v", "tbl_v")
	if !ok {
		return nil, "cfgerr"
	}
	return r, ""
}

func spKey(e core.Sexp) interface{} {
	switch e.Head() {
	case "i":
		return int(e.Nth(1).Int())
	case "l":
		return e.Nth(1).Int()
	case "u":
		return e.Nth(1).Uint()
	case "s":
		return e.Nth(1).Str()
	case "b":
		return e.Nth(1).Bytes()
	}
	return float64(1.5)
}

func spErrKind(err error) string {
	if err == gerrors.ErrKeyOutOfRange {
		return "key-out-of-range"
	}
	msg := err.Error()
	if _, ok := err.(router.KeyError); ok {
		switch {
		case strings.HasPrefix(msg, "invalid date format"):
			return "invalid-date"
		case strings.HasPrefix(msg, "Unexpected key variable type"):
			return "key-type"
		}
		return "key-error"
	}
	if msg == "bucket map is empty" {
		return "empty-ring"
	}
	return "other"
}

// spFind runs Rule.FindTableIndex on one key. The deliberate panic(KeyError)
// of NumValue/GetString (recovered into an error by the session) is the
// outcome (err key-panic); any other panic is a Go run-time error.
func spFind(rule router.Rule, key interface{}) (out string) {
	defer func() {
		if e := recover(); e != nil {
			if _, ok := e.(router.KeyError); ok {
				out = "(err key-panic)"
			} else {
				out = "panic"
			}
		}
	}()
	i, err := rule.FindTableIndex(key)
	if err != nil {
		return "(err " + spErrKind(err) + ")"
	}
	return fmt.Sprintf("(ok %d)", i)
}

func spExec(in core.Sexp) string {
	switch in.Head() {
	case "place", "expect":
		cfg := in.Nth(1)
		rule, st := spBuildRule(cfg)
		if st != "" {
			return st
		}
		switch cfg.Head() {
		case "date_year", "date_month", "date_day":
			time.Local = time.FixedZone("verif", int(cfg.Nth(1).Int()))
		}
		var b strings.Builder
		b.WriteString("(r")
		for _, k := range in.Nth(2).List {
			b.WriteString(" ")
			b.WriteString(spFind(rule, spKey(k)))
		}
		b.WriteString(")")
		return b.String()
	case "subtables":
		rule, st := spBuildRule(in.Nth(1))
		if st != "" {
			return st
		}
		subs := rule.GetSubTableIndexes()
		sl := make([]int, len(subs))
		for i, t := range subs {
			sl[i] = rule.GetSliceIndexFromTableIndex(t)
		}
		return fmt.Sprintf("(ok %s %s)", core.Ints(subs).String(), core.Ints(sl).String())
	}
	return "bad"
}

// spTrivial: a case is non-trivial when at least one key was placed (or a
// sub-table list was produced).
func spTrivial(in core.Sexp, out string) bool {
	return !strings.Contains(out, "(ok")
}

// ---- generator helpers ----

func spKeyInt(kind string, v int64) core.Sexp { return core.L(core.A(kind), core.I(v)) }
func spKeyU(v uint64) core.Sexp              { return core.L(core.A("u"), core.U(v)) }
func spKeyS(s string) core.Sexp              { return core.L(core.A("s"), core.Text(s)) }
func spKeyB(s string) core.Sexp              { return core.L(core.A("b"), core.Text(s)) }
func spKeyF() core.Sexp                      { return core.L(core.A("f")) }

// spSplitLocs splits n ≥ 1 tables over 1–3 slices, at least one table each
// (zero and negative locations are configuration-validation territory, C10).
func spSplitLocs(g *core.Gen, n int) []int {
	k := 1 + g.Intn(3)
	if n < k {
		k = 1
	}
	locs := make([]int, k)
	left := n
	for i := 0; i < k-1; i++ {
		locs[i] = 1 + g.Intn(left-(k-1-i))
		left -= locs[i]
	}
	locs[k-1] = left
	return locs
}

// spIntKeys: integer keys around the boundaries in `bounds`, as every key type
// that can carry them.
func spIntKeys(g *core.Gen, bounds []int64, n int) []core.Sexp {
	var out []core.Sexp
	for i := 0; i < n; i++ {
		var v int64
		switch g.Intn(4) {
		case 0:
			v = core.Pick(g, bounds) + int64(g.Intn(3)-1)
		case 1:
			v = core.Pick(g, bounds)
		case 2:
			v = int64(g.Rand.Uint64() >> uint(g.Intn(64)))
			if g.Intn(2) == 0 {
				v = -v
			}
		default:
			v = int64(g.Intn(5000) - 2500)
		}
		switch g.Intn(6) {
		case 0:
			out = append(out, spKeyInt("i", v))
		case 1:
			out = append(out, spKeyInt("l", v))
		case 2:
			out = append(out, spKeyU(uint64(v)))
		case 3:
			out = append(out, spKeyS(fmt.Sprint(v)))
		case 4:
			out = append(out, spKeyB(fmt.Sprint(v)))
		default:
			s := fmt.Sprint(v)
			switch g.Intn(3) {
			case 0:
				if v >= 0 {
					s = "+" + s
				}
			case 1:
				if v >= 0 {
					s = "00" + s
				} else {
					s = "-00" + s[1:]
				}
			}
			out = append(out, spKeyS(s))
		}
	}
	return out
}

var spBadNumbers = []string{"", " ", "abc", " 5", "5 ", "1_000", "+", "-", "0x10", "1e3", "5.0", "--5", "+-5", "٣", "１２", "5\x00",
	"9223372036854775808", "-9223372036854775809", "18446744073709551616", "99999999999999999999999999", "-99999999999999999999999999", "+0", "-0", "00", "007"}
