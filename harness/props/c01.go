package props

import (
	"encoding/json"
	"fmt"
	"sort"
	"strconv"
	"strings"
	"sync"
	"time"

	"gaeaverif/harness/core"

	"github.com/XiaoMi/Gaea/models"
	"github.com/XiaoMi/Gaea/parser"
	"github.com/XiaoMi/Gaea/proxy/plan"
	"github.com/XiaoMi/Gaea/proxy/router"
	"github.com/XiaoMi/Gaea/proxy/sequence"
)

// C01 — routing of WHERE conditions (proxy/plan). Also the vehicle for C05.
//
// Line: (route RULE COLTYPE FORM STMT (meta RANGE GLOBAL FIRST LAST (idxs…)) COND (univ (rank place)…))
// COND: (cmp sk|oc cl|lc OP LIT) (in sk|oc NEG (LIT…)) (btw sk|oc NEG LIT LIT)
//       (and a b) (or a b) (par a) (other KIND LIT)
// LIT:  (lit SQLHEX RANK|n PLACE|e EQSTART)
// The meta, place and eqstart fields are what the real rule reports at
// generation time (the routing model is parametric in them); Exec ignores them.

type c01Rule struct {
	name    string
	table   string
	key     string
	db      string
	shard   string // JSON of the models.Shard entry
	dateFmt string // "" | y | m | d
	numeric bool   // integer keys
	limit   int    // range: table_row_limit
	tables  int
}

var c01Rules = []c01Rule{
	{name: "hash4", table: "t_hash", key: "k", db: "db_ks", numeric: true, shard: `{"db":"db_ks","table":"t_hash","type":"hash","key":"k","locations":[2,2],"slices":["slice-0","slice-1"]}`},
	{name: "mod3", table: "t_mod", key: "k", db: "db_ks", numeric: true, shard: `{"db":"db_ks","table":"t_mod","type":"mod","key":"k","locations":[1,2],"slices":["slice-0","slice-1"]}`},
	{name: "range4x100", table: "t_r100", key: "k", db: "db_ks", numeric: true, limit: 100, tables: 4, shard: `{"db":"db_ks","table":"t_r100","type":"range","key":"k","locations":[2,2],"slices":["slice-0","slice-1"],"table_row_limit":100}`},
	{name: "range5x7", table: "t_r7", key: "k", db: "db_ks", numeric: true, limit: 7, tables: 5, shard: `{"db":"db_ks","table":"t_r7","type":"range","key":"k","locations":[1,4],"slices":["slice-0","slice-1"],"table_row_limit":7}`},
	{name: "range3x1", table: "t_r1", key: "k", db: "db_ks", numeric: true, limit: 1, tables: 3, shard: `{"db":"db_ks","table":"t_r1","type":"range","key":"k","locations":[3],"slices":["slice-0"],"table_row_limit":1}`},
	{name: "year", table: "t_year", key: "k", db: "db_ks", dateFmt: "y", shard: `{"db":"db_ks","table":"t_year","type":"date_year","key":"k","slices":["slice-0","slice-1"],"date_range":["2014-2016","2017-2019"]}`},
	{name: "yeargap", table: "t_yearg", key: "k", db: "db_ks", dateFmt: "y", shard: `{"db":"db_ks","table":"t_yearg","type":"date_year","key":"k","slices":["slice-0","slice-1"],"date_range":["2015","2018-2019"]}`},
	{name: "month", table: "t_month", key: "k", db: "db_ks", dateFmt: "m", shard: `{"db":"db_ks","table":"t_month","type":"date_month","key":"k","slices":["slice-0","slice-1"],"date_range":["201511-201602","201603-201604"]}`},
	{name: "day", table: "t_day", key: "k", db: "db_ks", dateFmt: "d", shard: `{"db":"db_ks","table":"t_day","type":"date_day","key":"k","slices":["slice-0","slice-1"],"date_range":["20151230-20160102","20160228-20160301"]}`},
	{name: "linked", table: "t_r100_child", key: "k", db: "db_ks", numeric: true, limit: 100, tables: 4, shard: `{"db":"db_ks","table":"t_r100_child","type":"linked","key":"k","parent_table":"t_r100"}`},
	{name: "mycat_mod", table: "t_mmod", key: "k", db: "db_mycat", numeric: true, shard: `{"db":"db_mycat","table":"t_mmod","type":"mycat_mod","key":"k","locations":[2,2],"slices":["slice-0","slice-1"],"databases":["db_mycat_[0-3]"]}`},
	{name: "mycat_long", table: "t_mlong", key: "k", db: "db_mycat", numeric: true, shard: `{"db":"db_mycat","table":"t_mlong","type":"mycat_long","key":"k","locations":[2,2],"slices":["slice-0","slice-1"],"databases":["db_mycat_[0-3]"],"partition_count":"4","partition_length":"256"}`},
	{name: "mycat_murmur", table: "t_mmur", key: "k", db: "db_mycat", numeric: true, shard: `{"db":"db_mycat","table":"t_mmur","type":"mycat_murmur","key":"k","locations":[2,2],"slices":["slice-0","slice-1"],"databases":["db_mycat_0","db_mycat_1","db_mycat_2","db_mycat_3"],"seed":"0","virtual_bucket_times":"160"}`},
	{name: "mycat_string", table: "t_mstr", key: "k", db: "db_mycat", numeric: true, shard: `{"db":"db_mycat","table":"t_mstr","type":"mycat_string","key":"k","locations":[2,2],"slices":["slice-0","slice-1"],"databases":["db_mycat_[0-3]"],"partition_count":"4","partition_length":"256","hash_slice":"20"}`},
	{name: "mycat_padding", table: "t_mpad", key: "k", db: "db_mycat", numeric: true, shard: `{"db":"db_mycat","table":"t_mpad","type":"mycat_padding_mod","key":"k","locations":[2,2],"slices":["slice-0","slice-1"],"databases":["db_mycat_[0-3]"],"pad_from":"0","pad_length":"6","mod_begin":"3","mod_end":"6"}`},
}

var (
	c01Once   sync.Once
	c01Router *router.Router
	c01Err    error
)

func c01Namespace() string {
	var shards []string
	for _, r := range c01Rules {
		shards = append(shards, r.shard)
	}
	// two linked child tables per rule for the JOIN shapes: <table>_c1 shares the
	// parent's key name, <table>_c2 has its own
	for _, r := range c01Rules {
		if r.name == "linked" {
			continue
		}
		shards = append(shards,
			fmt.Sprintf(`{"db":%q,"table":%q,"type":"linked","key":"k","parent_table":%q}`, r.db, r.table+"_c1", r.table),
			fmt.Sprintf(`{"db":%q,"table":%q,"type":"linked","key":"ck","parent_table":%q}`, r.db, r.table+"_c2", r.table))
	}
	return `{"name":"ns_c01","online":true,"allowed_dbs":{"db_ks":true,"db_mycat":true},"default_phy_dbs":{"db_ks":"db_ks","db_mycat":"db_mycat_0"},
"slices":[{"name":"slice-0","user_name":"root","password":"root","master":"127.0.0.1:3306","capacity":4,"max_capacity":8,"idle_timeout":3600},
{"name":"slice-1","user_name":"root","password":"root","master":"127.0.0.1:3307","capacity":4,"max_capacity":8,"idle_timeout":3600}],
"shard_rules":[` + strings.Join(shards, ",") + `],"users":[{"user_name":"u","password":"p","namespace":"ns_c01","rw_flag":2,"rw_split":1}],"default_slice":"slice-0"}`
}

func c01GetRouter() (*router.Router, error) {
	c01Once.Do(func() {
		ns := &models.Namespace{}
		if err := json.Unmarshal([]byte(c01Namespace()), ns); err != nil {
			c01Err = err
			return
		}
		c01Router, c01Err = router.NewRouter(ns)
	})
	return c01Router, c01Err
}

func c01RuleByName(name string) *c01Rule {
	for i := range c01Rules {
		if c01Rules[i].name == name {
			return &c01Rules[i]
		}
	}
	return nil
}

// a literal of the statement: its SQL text, the Go value util.GetValueExprResult
// would hand to the router, and its rank in the ordered domain of the column.
type c01Lit struct {
	sql  string
	key  interface{}
	rank int64
	has  bool // rank defined
}

// c01LitUse: what a context with literals by kind (c01Ctx.q) remembers of the literals it made
type c01LitUse struct {
	ranks []int64
}

func c01IntLit(v int64) c01Lit {
	return c01Lit{sql: strconv.FormatInt(v, 10), key: v, rank: v, has: true}
}

func c01TimeLit(t time.Time, form int) c01Lit {
	switch form {
	case 0:
		s := t.Format("2006-01-02 15:04:05")
		return c01Lit{sql: "'" + s + "'", key: s, rank: t.Unix(), has: true}
	case 1: // date only: denotes midnight
		d := time.Date(t.Year(), t.Month(), t.Day(), 0, 0, 0, 0, time.UTC)
		s := d.Format("2006-01-02")
		return c01Lit{sql: "'" + s + "'", key: s, rank: d.Unix(), has: true}
	default: // unix timestamp (integer column)
		return c01Lit{sql: strconv.FormatInt(t.Unix(), 10), key: t.Unix(), rank: t.Unix(), has: true}
	}
}

// literal universe of a rule (boundary-rich), as time points or integers
func c01Points(r *c01Rule) []int64 {
	var pts []int64
	add := func(v ...int64) { pts = append(pts, v...) }
	if r.dateFmt != "" {
		d := func(y, m, dd, hh, mi, ss int) int64 {
			return time.Date(y, time.Month(m), dd, hh, mi, ss, 0, time.UTC).Unix()
		}
		for y := 2013; y <= 2020; y++ {
			add(d(y, 1, 1, 0, 0, 0), d(y, 1, 1, 0, 0, 1), d(y, 6, 15, 12, 30, 0), d(y, 12, 31, 23, 59, 59))
		}
		for _, ym := range [][2]int{{2015, 10}, {2015, 11}, {2015, 12}, {2016, 1}, {2016, 2}, {2016, 3}, {2016, 4}, {2016, 5}} {
			add(d(ym[0], ym[1], 1, 0, 0, 0), d(ym[0], ym[1], 1, 0, 0, 1), d(ym[0], ym[1], 15, 8, 0, 0))
			add(d(ym[0], ym[1]+1, 1, 0, 0, 0) - 1)
		}
		for _, md := range [][3]int{{2015, 12, 29}, {2015, 12, 30}, {2015, 12, 31}, {2016, 1, 1}, {2016, 1, 2}, {2016, 1, 3}, {2016, 2, 27}, {2016, 2, 28}, {2016, 2, 29}, {2016, 3, 1}, {2016, 3, 2}} {
			add(d(md[0], md[1], md[2], 0, 0, 0), d(md[0], md[1], md[2], 0, 0, 1), d(md[0], md[1], md[2], 23, 59, 59))
		}
		return pts
	}
	if r.limit > 0 {
		n := int64(r.tables * r.limit)
		for j := int64(0); j <= int64(r.tables); j++ {
			b := j * int64(r.limit)
			add(b-1, b, b+1)
		}
		add(0, 1, n/2, n-1, n, n+1, n+100, 1<<40)
		return pts
	}
	add(0, 1, 2, 3, 4, 5, 7, 8, 15, 16, 255, 256, 257, 1023, 1024, 1025, 4095, 100000, 1<<31, 1<<40)
	return pts
}

var c01Ops = []string{"eq", "ne", "lt", "le", "gt", "ge"}
var c01OpSQL = map[string]string{"eq": "=", "ne": "!=", "lt": "<", "le": "<=", "gt": ">", "ge": ">="}

// opaque predicates: the planner must not prune on them
var c01Other = []string{
	"%o LIKE 'a%%'", "NOT (%k = %l)", "%k IS NULL", "%k + 1 = %l", "%k = %o", "abs(%k) = %l",
	"%k <=> %l", "%k XOR 1", "-%k < %l", "%k = -5", "%k NOT LIKE 'x'", "NOT (%k < %l)",
	"NOT (%k BETWEEN %l AND %l)", "%k IS NOT NULL", "%o IS NULL", "(%k = %l) IS TRUE",
}

type c01Ctx struct {
	r       *c01Rule
	rule    router.Rule
	colType int // 0 datetime strings, 1 date-only + datetime strings mixed, 2 integer (unix) column
	pts     []int64
	// q != nil: the literals are emitted by kind and value (c01lit.go), in every spelling
	q    *c01QCtx
	used *c01LitUse
}

func (c *c01Ctx) mkLit(g *core.Gen) c01Lit {
	if c.q != nil {
		return c.mkKindLit(g)
	}
	p := core.Pick(g, c.pts)
	if c.r.dateFmt != "" {
		t := time.Unix(p, 0).UTC()
		switch c.colType {
		case 2:
			return c01TimeLit(t, 2)
		case 1:
			return c01TimeLit(t, g.Intn(2))
		}
		return c01TimeLit(t, 0)
	}
	for p < 0 { // "-1" is a unary expression for the parser, not a literal (see the opaque form "%k = -5")
		p = core.Pick(g, c.pts)
	}
	if g.Intn(12) == 0 { // quoted number
		l := c01IntLit(p)
		l.sql = "'" + l.sql + "'"
		l.key = strconv.FormatInt(p, 10)
		return l
	}
	return c01IntLit(p)
}

func (c *c01Ctx) litSexp(l c01Lit) core.Sexp {
	if c.q != nil {
		s, err := c01QLit(c.rule, l.sql)
		if err != nil {
			panic("c01: " + err.Error())
		}
		if l.has {
			c.used.ranks = append(c.used.ranks, l.rank)
		}
		return s
	}
	rank := core.A("n")
	if l.has {
		rank = core.I(l.rank)
	}
	place := core.A("e")
	eq := false
	if idx, err := c01Find(c.rule, l.key); err == nil {
		place = core.I(int64(idx))
		if rs, ok := c.rule.GetShard().(router.RangeShard); ok {
			eq = rs.EqualStart(l.key, idx)
		}
	}
	return core.L(core.A("lit"), core.Text(l.sql), rank, place, core.B(eq))
}

func c01Find(rule router.Rule, key interface{}) (idx int, err error) {
	defer func() {
		if e := recover(); e != nil {
			err = fmt.Errorf("panic: %v", e)
		}
	}()
	return rule.FindTableIndex(key)
}

func (c *c01Ctx) genCond(g *core.Gen, depth int) core.Sexp {
	col := func() core.Sexp {
		if g.Intn(4) == 0 {
			return core.A("oc")
		}
		return core.A("sk")
	}
	// a nested AND/OR operand is always written in parentheses, so that the
	// tree the parser builds is the tree generated here
	sub := func() core.Sexp {
		s := c.genCond(g, depth-1)
		if h := s.Head(); h == "and" || h == "or" {
			return core.L(core.A("par"), s)
		}
		return s
	}
	if depth > 0 && g.Intn(3) != 0 {
		switch g.Intn(5) {
		case 0, 1:
			return core.L(core.A("and"), sub(), sub())
		case 2, 3:
			return core.L(core.A("or"), sub(), sub())
		default:
			return core.L(core.A("par"), c.genCond(g, depth-1))
		}
	}
	switch g.Intn(10) {
	case 0, 1, 2, 3:
		side := "cl"
		if g.Intn(4) == 0 {
			side = "lc"
		}
		return core.L(core.A("cmp"), col(), core.A(side), core.A(core.Pick(g, c01Ops)), c.litSexp(c.mkLit(g)))
	case 4, 5:
		n := 1 + g.Intn(4)
		var ls []core.Sexp
		for i := 0; i < n; i++ {
			ls = append(ls, c.litSexp(c.mkLit(g)))
		}
		return core.L(core.A("in"), col(), core.B(g.Intn(3) == 0), core.L(ls...))
	case 6, 7, 8:
		return core.L(core.A("btw"), col(), core.B(g.Intn(2) == 0), c.litSexp(c.mkLit(g)), c.litSexp(c.mkLit(g)))
	default:
		return core.L(core.A("other"), core.I(int64(g.Intn(len(c01Other)))), c.litSexp(c.mkLit(g)))
	}
}

func c01Meta(rule router.Rule) core.Sexp {
	_, isRange := rule.GetShard().(router.RangeShard)
	idxs := rule.GetSubTableIndexes()
	return core.L(core.A("meta"), core.B(isRange), core.B(rule.GetType() == router.GlobalTableRuleType),
		core.I(int64(rule.GetFirstTableIndex())), core.I(int64(rule.GetLastTableIndex())), core.Ints(idxs))
}

// row universe: every point and its neighbours, placed by the real rule
func (c *c01Ctx) universe() core.Sexp {
	seen := map[int64]bool{}
	var ranks []int64
	for _, p := range c.pts {
		for _, d := range []int64{-1, 0, 1} {
			if !seen[p+d] {
				seen[p+d] = true
				ranks = append(ranks, p+d)
			}
		}
	}
	sort.Slice(ranks, func(i, j int) bool { return ranks[i] < ranks[j] })
	var us []core.Sexp
	for _, v := range ranks {
		var key interface{} = v
		if c.r.dateFmt != "" && c.colType != 2 {
			key = time.Unix(v, 0).UTC().Format("2006-01-02 15:04:05")
		}
		idx, err := c01Find(c.rule, key)
		if err != nil {
			continue // no row with this value can be stored
		}
		us = append(us, core.L(core.I(v), core.I(int64(idx))))
	}
	return core.L(append([]core.Sexp{core.A("univ")}, us...)...)
}

func genC01(g *core.Gen) {
	rt, err := c01GetRouter()
	if err != nil {
		panic(err)
	}
	stmts := []string{"select", "update", "delete"}
	n := g.Scale(4000, 80000)
	maxDepth := g.Scale(4, 6)
	for i := 0; i < n; i++ {
		r := &c01Rules[g.Intn(len(c01Rules))]
		rule := rt.GetRule(r.db, r.table)
		ctx := &c01Ctx{r: r, rule: rule, pts: c01Points(r)}
		if r.dateFmt != "" {
			ctx.colType = g.Intn(3)
		}
		cond := ctx.genCond(g, g.Intn(maxDepth+1))
		form := g.Intn(5)
		stmt := core.Pick(g, stmts)
		in := core.L(core.A("route"), core.A(r.name), core.I(int64(ctx.colType)), core.I(int64(form)), core.A(stmt),
			c01Meta(rule), cond, ctx.universe())
		g.Emit(in, "rule="+r.name, "stmt="+stmt, "root="+cond.Head(), fmt.Sprintf("form=%d", form))
	}
	genC01Lit(g, rt)
	genC01Join(g, rt)
	genC01Start(g)
}

func c01Render(c core.Sexp, k, o string) string {
	lit := func(l core.Sexp) string { return l.Nth(1).Str() }
	colOf := func(s core.Sexp) string {
		if s.Atom == "oc" {
			return o
		}
		return k
	}
	switch c.Head() {
	case "and":
		return c01Render(c.Nth(1), k, o) + " AND " + c01Render(c.Nth(2), k, o)
	case "or":
		return c01Render(c.Nth(1), k, o) + " OR " + c01Render(c.Nth(2), k, o)
	case "par":
		return "(" + c01Render(c.Nth(1), k, o) + ")"
	case "cmp":
		op := c01OpSQL[c.Nth(3).Atom]
		if c.Nth(2).Atom == "lc" {
			return lit(c.Nth(4)) + " " + op + " " + colOf(c.Nth(1))
		}
		return colOf(c.Nth(1)) + " " + op + " " + lit(c.Nth(4))
	case "in":
		var ls []string
		for _, l := range c.Nth(3).List {
			ls = append(ls, lit(l))
		}
		not := ""
		if c.Nth(2).Bool() {
			not = "NOT "
		}
		return colOf(c.Nth(1)) + " " + not + "IN (" + strings.Join(ls, ",") + ")"
	case "btw":
		not := ""
		if c.Nth(2).Bool() {
			not = "NOT "
		}
		return colOf(c.Nth(1)) + " " + not + "BETWEEN " + lit(c.Nth(3)) + " AND " + lit(c.Nth(4))
	case "other":
		t := c01Other[int(c.Nth(1).Int())]
		t = strings.ReplaceAll(t, "%%", "%")
		t = strings.ReplaceAll(t, "%k", k)
		t = strings.ReplaceAll(t, "%o", o)
		t = strings.ReplaceAll(t, "%l", lit(c.Nth(2)))
		return "(" + t + ")"
	}
	panic("c01: bad cond " + c.String())
}

// c01SQL renders the statement; form selects alias / qualification spellings.
func c01SQL(r *c01Rule, form int, stmt string, cond core.Sexp) string {
	tbl, k, o := r.table, r.key, "o"
	switch form {
	case 1: // table-qualified columns
		k, o = r.table+"."+r.key, r.table+".o"
	case 2: // alias
		tbl = r.table + " AS a"
		k, o = "a."+r.key, "a.o"
		if stmt == "delete" { // single-table DELETE takes no alias in this grammar
			tbl, k, o = r.table, r.key, "o"
		}
	case 3, 4: // schema-qualified table (4: sent from a session whose current database is another one)
		tbl = r.db + "." + r.table
	}
	where := c01Render(cond, k, o)
	switch stmt {
	case "update":
		return "UPDATE " + tbl + " SET " + strings.TrimPrefix(o, "a.") + " = 1 WHERE " + where
	case "delete":
		return "DELETE FROM " + tbl + " WHERE " + where
	}
	return "SELECT * FROM " + tbl + " WHERE " + where
}

// c01SessionDB: the session's current database. Form 4 names the table with its
// schema from a session that has selected the *other* logical database: the
// statement's own qualifier must decide which rule applies.
func c01SessionDB(r *c01Rule, form int) string {
	if form != 4 {
		return r.db
	}
	if r.db == "db_ks" {
		return "db_mycat"
	}
	return "db_ks"
}

func execC01(in core.Sexp) string {
	switch in.Head() {
	case "join":
		return execC01Join(in)
	case "eqstart":
		return execC01Start(in)
	}
	rt, err := c01GetRouter()
	if err != nil {
		return "(setup-error " + core.Text(err.Error()).String() + ")"
	}
	r := c01RuleByName(in.Nth(1).Atom)
	if r == nil {
		return "bad"
	}
	form := int(in.Nth(3).Int())
	stmt := in.Nth(4).Atom
	sql := c01SQL(r, form, stmt, in.Nth(6))
	node, err := parser.ParseSQL(sql)
	if err != nil {
		return "(parse-error " + core.Text(sql).String() + ")"
	}
	phy := map[string]string{"db_ks": "db_ks", "db_mycat": "db_mycat_0"}
	p, err := plan.BuildPlan(node, phy, c01SessionDB(r, form), sql, rt, sequence.NewSequenceManager(), nil)
	if err != nil {
		return "err"
	}
	idxs, ok := plan.VerifPlanRouteIndexes(p)
	if !ok {
		return "(not-a-shard-plan)"
	}
	// cross-check: one rewritten statement per routed table
	n := 0
	for _, dbs := range plan.VerifPlanSQLs(p) {
		for _, sqls := range dbs {
			n += len(sqls)
		}
	}
	if n != len(idxs) {
		return fmt.Sprintf("(sql-count-mismatch %d %d)", n, len(idxs))
	}
	out := make([]string, len(idxs))
	for i, v := range idxs {
		out[i] = strconv.Itoa(v)
	}
	if len(out) == 0 {
		return "(ok)"
	}
	return "(ok " + strings.Join(out, " ") + ")"
}

func init() {
	core.Register(&core.Property{
		ID: "C01",
		Rule: "random condition trees (depth ≤ 4 quick / 6 thorough; = != < <= > >= on either side, IN/NOT IN, BETWEEN/NOT BETWEEN, AND/OR/parentheses, 16 opaque predicate forms, sharding and other columns) " +
			"over a boundary-rich literal universe per rule (range edges ±1, first/last second of calendar periods, mid-period, outside the configured span; date-only, datetime and unix spellings) for 15 rule configurations, " +
			"rendered as SELECT/UPDATE/DELETE with plain, table-qualified, aliased and schema-qualified spellings; the Lean oracle checks every row value of the universe (placed by the real FindTableIndex) on which the condition may be TRUE; " +
			"non-trivial = statement accepted and routed; " +
			"JOIN shapes: two or three tables out of a sharded table and its two linked child tables (one with the parent's key name, one with its own), in any order, with and without aliases, " +
			"joined by JOIN / INNER / CROSS / STRAIGHT_JOIN / comma / LEFT [OUTER] / RIGHT [OUTER] with ON trees of the same grammar (columns qualified, unqualified, ambiguous, column = column), USING with plain and qualified columns, and WHERE; " +
			"the oracle enumerates the combined rows (NULL extensions included) of universe values stored in the same sub table; " +
			"EqualStart lines: the real RangeShard.EqualStart of range / date_year / date_month / date_day rules on period starts ±1 s, every spelling (date, datetime, fractions, malformed), timestamps in five fixed zones, right and wrong indexes; " +
			"literal kinds (c01lit.go): the same condition grammar with every literal parsed by the real parser and carried by kind and value — integers in 24 spellings (plain, TRUE/FALSE, quoted, zero-padded, with blanks, sign, fraction, exponent, 0x / x'' / b'' / 0b, decimal 1.0 1.5 1.50, float 1e0, NULL, uint64 and beyond) on integer columns, " +
			"byte strings (text, digits, numeric spellings, x'…') on string-keyed hash / mycat_string / mycat_murmur tables, date strings and unix times plus unroutable kinds on calendar rules, strings no integer rule reads ('abc', '7x'); " +
			"placed by the real rule on what the real getShardingCompareValue returns; in SELECT/UPDATE/DELETE and in two fifths of the JOIN lines",
		Generate:   genC01,
		Exec:       execC01,
		Trivial: func(in core.Sexp, out string) bool {
			if in.Head() == "eqstart" {
				return !strings.Contains(out, " t")
			}
			return !strings.HasPrefix(out, "(ok")
		},
		ShrinkKeep: []string{"meta", "lit", "tables", "steps", "other", "eqcol"},
		Assumptions: []string{
			"TZ=UTC for the harness process (unix-timestamp keys are interpreted in the proxy's time zone)",
			"rows are stored where FindTableIndex places their key (C03/C09); the placement functions themselves are checked under C08/C09",
			"/repo's parser delivers the literals of the generated statements as ValueExpr nodes and the opaque forms as other node types",
			"what MySQL compares a column with for each literal kind is the Lean specification Model/RouteLit.lean `den` (integer, string with binary collation, DATETIME and unix-time columns); the proxy does not know the column type: literals of the other type family than the column (non-numeric strings against integer columns of text-hashing rules, integers against string / DATETIME columns, strings against unix-time columns) are not generated",
		},
	})
}
