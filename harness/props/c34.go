package props

import (
	"context"
	"errors"
	"fmt"
	"math"
	"runtime"
	"strconv"
	"strings"
	"sync"
	"time"

	"gaeaverif/harness/core"

	"github.com/XiaoMi/Gaea/backend"
	"github.com/XiaoMi/Gaea/mysql"
	"github.com/XiaoMi/Gaea/proxy/sequence"
)

// C34 — MySQLSequence (proxy/sequence/mysql.go) against a simulated sequence
// row: 1–5 proxies share one fake master connection pool whose connection
// answers `SELECT mycat_seq_nextval(…)` from the row, with scripted faults.

func init() {
	core.Register(&core.Property{
		ID: "C34",
		Rule: "whole histories: a sequence row (missing; current on 0, ±small, the stored function's default, int64 edges; increment 1–5, 0, negative, huge), " +
			"1–5 proxies with maxLimit 0 / near the values / negative, up to 40 NextSeq calls in random interleavings, each with the fate of its block fetch " +
			"(ok, no connection, USE fails, Execute fails after the row moved, empty result set, a scripted string: the default -999999999,null, non-numeric, " +
			"empty, extra fields, blanks, signs, 2^63, hex/exponent/underscore spellings, well-formed scripted blocks at the int64 edge); " +
			"thorough adds every interleaving of two proxies over ≤ 7 calls for increments 1–3 with one fault position; " +
			"non-trivial = at least one value was handed out",
		Generate: genC34,
		Exec:     execC34,
		Trivial: func(in core.Sexp, out string) bool {
			return !strings.Contains(out, "(v ")
		},
		Extra: c34Concurrent,
		Assumptions: []string{
			"the fake master connection reproduces mycat_seq_nextval: UPDATE current_value = current_value + increment, then concat(current_value, ',', increment); '-999999999,null' for a missing row; MySQL error 1690 when the BIGINT sum is out of range",
			"one NextSeq call is one atomic step (the whole body runs under the per-proxy mutex; the UPDATE is atomic at the database)",
			"a scripted reply that is a well-formed block but does not come from the row is outside the property (uniqueness is not judged on such a history)",
		},
	})
}

// seqRow is the simulated MYCAT_SEQUENCE row.
type seqRow struct {
	present   bool
	current   int64
	increment int64
}

// seqDB is the fake database behind every proxy of one case.
type seqDB struct {
	row     seqRow
	fault   core.Sexp // fate of the next fetch
	queries int       // number of fetches attempted (pool.Get calls)
}

// nextval is mycat_seq_nextval on the row.
func (db *seqDB) nextval() (string, error) {
	if !db.row.present {
		return "-999999999,null", nil
	}
	c := db.row.current + db.row.increment
	if (db.row.increment > 0 && c < db.row.current) || (db.row.increment < 0 && c > db.row.current) {
		return "", errors.New("ERROR 1690 (22003): BIGINT value is out of range")
	}
	db.row.current = c
	return strconv.FormatInt(c, 10) + "," + strconv.FormatInt(db.row.increment, 10), nil
}

type seqPool struct {
	backend.ConnectionPool // unimplemented methods panic
	db                     *seqDB
}

func (p *seqPool) Get(ctx context.Context) (backend.PooledConnect, error) {
	p.db.queries++
	if p.db.fault.IsAtom && p.db.fault.Atom == "eb" {
		return nil, errors.New("no connection")
	}
	return &seqConn{db: p.db}, nil
}

type seqConn struct {
	backend.PooledConnect // unimplemented methods panic
	db                    *seqDB
}

func (c *seqConn) Recycle() {}

func (c *seqConn) UseDB(db string) error {
	if c.db.fault.IsAtom && c.db.fault.Atom == "eu" {
		return errors.New("unknown database")
	}
	return nil
}

func (c *seqConn) Execute(sql string, maxRows int) (*mysql.Result, error) {
	if !strings.HasPrefix(sql, "SELECT mycat_seq_nextval('") {
		return nil, errors.New("unexpected statement")
	}
	ret, err := c.db.nextval()
	f := c.db.fault
	field := []*mysql.Field{{Name: []byte("seq_val")}}
	switch {
	case f.IsAtom && f.Atom == "ea":
		return nil, errors.New("lost connection during query")
	case f.IsAtom && f.Atom == "er":
		return &mysql.Result{Resultset: &mysql.Resultset{Fields: field}}, nil
	case !f.IsAtom && f.Head() == "g":
		return &mysql.Result{Resultset: &mysql.Resultset{Fields: field, Values: [][]interface{}{{f.Nth(1).Bytes()}}}}, nil
	}
	if err != nil {
		return nil, err
	}
	return &mysql.Result{Resultset: &mysql.Resultset{Fields: field, Values: [][]interface{}{{[]byte(ret)}}}}, nil
}

// ---- concurrent sessions on one proxy ---------------------------------------
//
// The model treats one NextSeq call as one atomic step (assumption 2). This
// whole-run check looks for a failure of that assumption: several sessions call
// NextSeq on the same proxies at the same time, against a database whose
// nextval is atomic but whose reply is delivered after a scheduling point.

type seqLockedPool struct {
	backend.ConnectionPool
	mu  *sync.Mutex
	row *seqRow
}

func (p *seqLockedPool) Get(ctx context.Context) (backend.PooledConnect, error) {
	return &seqLockedConn{p: p}, nil
}

type seqLockedConn struct {
	backend.PooledConnect
	p *seqLockedPool
}

func (c *seqLockedConn) Recycle()              {}
func (c *seqLockedConn) UseDB(db string) error { return nil }
func (c *seqLockedConn) Execute(sql string, maxRows int) (*mysql.Result, error) {
	c.p.mu.Lock()
	c.p.row.current += c.p.row.increment
	ret := strconv.FormatInt(c.p.row.current, 10) + "," + strconv.FormatInt(c.p.row.increment, 10)
	c.p.mu.Unlock()
	runtime.Gosched() // the reply travels; other sessions run meanwhile
	time.Sleep(20 * time.Microsecond)
	return &mysql.Result{Resultset: &mysql.Resultset{Fields: []*mysql.Field{{Name: []byte("seq_val")}},
		Values: [][]interface{}{{[]byte(ret)}}}}, nil
}

func c34Concurrent(r *core.Run) {
	rounds := 40
	if r.Tier != "quick" {
		rounds = 200
	}
	dups := 0
	var first string
	for round := 0; round < rounds && dups == 0; round++ {
		incr := int64(1 + round%2) // small blocks: a fetch on (almost) every call
		row := &seqRow{present: true, current: 100, increment: incr}
		pool := &seqLockedPool{mu: &sync.Mutex{}, row: row}
		slice := &backend.Slice{Master: &backend.DBInfo{Nodes: []*backend.NodeInfo{{
			Address: "fake:3306", ConnPool: pool, Status: backend.StatusUp}}}}
		proxies := []*sequence.MySQLSequence{
			sequence.NewMySQLSequence(slice, "GLOBAL", "id", 0),
			sequence.NewMySQLSequence(slice, "GLOBAL", "id", 0),
		}
		var mu sync.Mutex
		seen := map[int64]string{}
		var wg sync.WaitGroup
		for p := range proxies {
			for s := 0; s < 4; s++ {
				wg.Add(1)
				go func(p, s int) {
					defer wg.Done()
					defer func() { recover() }()
					for i := 0; i < 150; i++ {
						v, err := proxies[p].NextSeq()
						if err != nil {
							continue
						}
						who := fmt.Sprintf("proxy %d session %d", p, s)
						mu.Lock()
						if prev, ok := seen[v]; ok {
							dups++
							if first == "" {
								first = fmt.Sprintf("value %d handed out twice (increment %d): first to %s, then to %s", v, incr, prev, who)
							}
						}
						seen[v] = who
						mu.Unlock()
					}
				}(p, s)
			}
		}
		wg.Wait()
	}
	r.Note("concurrent sessions: %d rounds of 2 proxies x 4 sessions x 150 NextSeq calls, duplicates: %d", rounds, dups)
	if dups > 0 {
		r.AddViolation(core.Finding{Kind: "failing-input", Class: "duplicate-value-under-concurrent-sessions",
			Input: "(concurrent 2-proxies 4-sessions-each 150-calls block sizes 1-3)", Impl: first,
			Detail: "whole-run check: several sessions calling NextSeq on the same proxies at the same time; " + first})
	}
}

func execC34(in core.Sexp) string {
	if in.Head() != "seq" {
		return "bad"
	}
	db := &seqDB{}
	if t := in.Nth(1); !t.IsAtom {
		db.row = seqRow{present: true, current: t.Nth(1).Int(), increment: t.Nth(2).Int()}
	}
	slice := &backend.Slice{Master: &backend.DBInfo{Nodes: []*backend.NodeInfo{{
		Address: "fake:3306", ConnPool: &seqPool{db: db}, Status: backend.StatusUp}}}}
	var seqs []*sequence.MySQLSequence
	for _, l := range in.Nth(2).List {
		seqs = append(seqs, sequence.NewMySQLSequence(slice, "GLOBAL", "id", l.Int()))
	}
	var evs []string
	for _, op := range in.Nth(3).List {
		p := int(op.Nth(0).Int())
		if p < 0 || p >= len(seqs) {
			return "bad"
		}
		db.fault = op.Nth(1)
		q0 := db.queries
		v, err := seqs[p].NextSeq()
		fetched := db.queries != q0
		curr, max := seqs[p].VerifState()
		f := "f"
		if fetched {
			f = "t"
		}
		if err != nil {
			evs = append(evs, fmt.Sprintf("(e %s %d %d)", f, curr, max))
		} else {
			evs = append(evs, fmt.Sprintf("(v %d %s %d %d)", v, f, curr, max))
		}
	}
	tab := "none"
	if db.row.present {
		tab = fmt.Sprintf("(row %d %d)", db.row.current, db.row.increment)
	}
	return "(ok (" + strings.Join(evs, " ") + ") " + tab + ")"
}

var c34Malformed = []string{
	"", ",", "x,y", "-999999999,null", "100,0", "100,-2", "7", "1,2,3", "1e3,5", "0x10,1", "1_000,5", " 5,5", "5, 5",
	"5,5 ", "9223372036854775808,1", "5,9223372036854775808", "-9223372036854775809,5", "+,5", "-,5", "5,+", "5,-",
	"５,5", "5;5", "null", "NULL,NULL", "5,", ",5", "1.5,2", "100,5\n", "100,5,", ",100,5", "--5,5", "+-5,5", "5,0x5",
	"99999999999999999999999999,5", "5,00000000000000000000000000000", "5,-0", "5,+0", "a5,5", "5a,5", "5,5a", "\x00,\x00",
}

var c34WellFormed = []string{
	"5,5", "+5,+5", "-0,1", "007,03", "0,1", "-3,2", "9223372036854775806,1", "9223372036854775807,1",
	"-9223372036854775808,5", "9223372036854775802,5", "9223372036854775803,5", "0,9223372036854775807",
	"1,9223372036854775807", "-1,9223372036854775807", "5,0000000000000000000000000000003", "-9223372036854775808,9223372036854775807",
}

func genC34(g *core.Gen) {
	emit := func(tab core.Sexp, limits []int64, ops []core.Sexp, tags ...string) {
		ls := make([]core.Sexp, len(limits))
		for i, l := range limits {
			ls[i] = core.I(l)
		}
		g.Emit(core.L(core.A("seq"), tab, core.L(ls...), core.L(ops...)), tags...)
	}
	row := func(c, i int64) core.Sexp { return core.L(core.A("row"), core.I(c), core.I(i)) }
	op := func(p int, f core.Sexp) core.Sexp { return core.L(core.I(int64(p)), f) }
	garbage := func(s string) core.Sexp { return core.L(core.A("g"), core.Text(s)) }
	okF := core.A("ok")

	// every scripted string on a fresh proxy, followed by calls that show the block it installed
	for _, s := range append(append([]string{}, c34Malformed...), c34WellFormed...) {
		for _, lim := range []int64{0, 7} {
			emit(row(100, 3), []int64{lim}, []core.Sexp{op(0, garbage(s)), op(0, core.A("eb")), op(0, core.A("eb")), op(0, okF), op(0, okF)}, "scripted-single")
		}
	}
	currents := []int64{0, 1, -1, -5, 100, 999, -999999999, math.MaxInt64, math.MaxInt64 - 1, math.MaxInt64 - 7, math.MaxInt64 - 12,
		math.MinInt64, math.MinInt64 + 3}
	incrs := []int64{1, 2, 3, 4, 5}
	oddIncrs := []int64{0, -1, -3, 1000000, math.MaxInt64, math.MaxInt64 - 5, math.MinInt64}
	faults := func() core.Sexp {
		switch g.Intn(12) {
		case 0:
			return core.A("eb")
		case 1:
			return core.A("eu")
		case 2:
			return core.A("ea")
		case 3:
			return core.A("er")
		case 4, 5:
			return garbage(core.Pick(g, c34Malformed))
		case 6:
			// a valid reply with one byte damaged
			b := []byte(fmt.Sprintf("%d,%d", g.Intn(2000)-100, 1+g.Intn(5)))
			switch g.Intn(3) {
			case 0:
				b[g.Intn(len(b))] = core.Pick(g, []byte{' ', 'x', ',', '-', '+', '.', '_', 0, 0xff, 'e'})
			case 1:
				i := g.Intn(len(b) + 1)
				b = append(b[:i:i], append([]byte{core.Pick(g, []byte{' ', 'x', ',', '-', '+', '0', '\n'})}, b[i:]...)...)
			default:
				i := g.Intn(len(b))
				b = append(b[:i:i], b[i+1:]...)
			}
			return garbage(string(b))
		}
		return okF
	}
	n := g.Scale(1500, 20000)
	for k := 0; k < n; k++ {
		var tab core.Sexp
		var tags []string
		cur := core.Pick(g, currents)
		if g.Intn(3) == 0 {
			cur = int64(g.Intn(2000) - 500)
		}
		inc := core.Pick(g, incrs)
		switch r := g.Intn(20); {
		case r == 0:
			tab = core.A("none")
			tags = append(tags, "row-missing")
		case r <= 2:
			inc = core.Pick(g, oddIncrs)
			tab = row(cur, inc)
			tags = append(tags, "odd-increment")
		default:
			tab = row(cur, inc)
			tags = append(tags, fmt.Sprintf("incr-%d", inc))
		}
		np := 1 + g.Intn(3)
		if g.Intn(10) == 0 {
			np = 4 + g.Intn(2)
		}
		tags = append(tags, fmt.Sprintf("proxies-%d", np))
		limits := make([]int64, np)
		for i := range limits {
			switch g.Intn(8) {
			case 0:
				limits[i] = cur + inc + int64(g.Intn(12)) // reached within the first blocks (may wrap: harmless)
				tags = append(tags, "maxlimit-near")
			case 1:
				limits[i] = -5
			case 2:
				limits[i] = math.MaxInt64
			}
		}
		nops := 1 + g.Intn(40)
		faulty := g.Intn(3) != 0
		var ops []core.Sexp
		nf := 0
		for j := 0; j < nops; j++ {
			f := okF
			if faulty && g.Intn(3) == 0 {
				f = faults()
				if f.String() != "ok" {
					nf++
				}
			}
			ops = append(ops, op(g.Intn(np), f))
		}
		if nf > 0 {
			tags = append(tags, "with-faults")
		} else {
			tags = append(tags, "fault-free")
		}
		if g.Intn(25) == 0 {
			// a well-formed scripted block in a single-proxy history (parse boundaries)
			ops[g.Intn(len(ops))] = op(g.Intn(np), garbage(core.Pick(g, c34WellFormed)))
			tags = append(tags, "scripted-wellformed")
		}
		emit(tab, limits, ops, tags...)
	}
	if g.Tier != "quick" {
		// every interleaving of two proxies over ≤ 7 calls, increments 1–3, one fault position
		fs := []core.Sexp{okF, core.A("eb"), core.A("ea"), garbage("-999999999,null"), garbage("x,y")}
		for inc := int64(1); inc <= 3; inc++ {
			for ln := 1; ln <= 7; ln++ {
				for mask := 0; mask < 1<<ln; mask++ {
					fpos := g.Intn(ln)
					f := core.Pick(g, fs)
					var ops []core.Sexp
					for j := 0; j < ln; j++ {
						ff := okF
						if j == fpos {
							ff = f
						}
						ops = append(ops, op((mask>>j)&1, ff))
					}
					emit(row(10, inc), []int64{0, 0}, ops, "exhaustive-interleavings")
				}
			}
		}
	}
}
