package props

import (
	"fmt"
	"math/rand"
	"os"
	"path/filepath"
	"sort"
	"strings"
	"sync"

	"gaeaverif/harness/core"

	"github.com/XiaoMi/Gaea/parser"
	"github.com/XiaoMi/Gaea/proxy/plan"
	"github.com/XiaoMi/Gaea/proxy/router"
	"github.com/XiaoMi/Gaea/proxy/sequence"
)

// C07 — concurrent planning against one namespace router.
//
//	(plan N SEED G): N statements (sharded on every C01 rule, unsharded, and
//	default-rule lookups as handleFieldList does) are planned sequentially, then
//	by G goroutines in different orders against the same router; every plan
//	must equal its sequential counterpart. The check builds this binary with
//	-race: data-race reports are collected from GORACE's log files by Extra.

func c07Statements(seed int64, n int) []string {
	rt, err := c01GetRouter()
	if err != nil {
		panic(err)
	}
	g := &core.Gen{Tier: "quick", Rand: rand.New(rand.NewSource(seed))}
	var out []string
	for len(out) < n {
		switch g.Intn(5) {
		case 0: // unsharded tables: the checker asks the router for their (default) rule
			out = append(out, fmt.Sprintf("SELECT * FROM t_unshard_%d WHERE id = %d", g.Intn(3), g.Intn(100)))
		case 2:
			if g.Intn(3) == 0 { // mycat hint: routed by DATABASE() = 'phy db' only
				t := core.Pick(g, []string{"t_mmod", "t_mlong", "t_mmur", "t_mstr"})
				out = append(out, fmt.Sprintf("SELECT * FROM %s WHERE DATABASE() = 'db_mycat_%d'", t, g.Intn(4)))
			} else { // two disjoint ranges joined by OR
				out = append(out, fmt.Sprintf("SELECT * FROM t_r100 WHERE k < %d OR k >= %d", 1+g.Intn(120), 250+g.Intn(140)))
			}
		case 1:
			out = append(out, fmt.Sprintf("UPDATE t_unshard_%d SET a = 1 WHERE id IN (%d, %d)", g.Intn(3), g.Intn(10), g.Intn(10)))
		default:
			r := &c01Rules[g.Intn(len(c01Rules))]
			ctx := &c01Ctx{r: r, rule: rt.GetRule(r.db, r.table), pts: c01Points(r)}
			if r.dateFmt != "" {
				ctx.colType = g.Intn(3)
			}
			cond := ctx.genCond(g, g.Intn(4))
			out = append(out, c01SQL(r, g.Intn(4), core.Pick(g, []string{"select", "update", "delete"}), cond))
		}
	}
	return out
}

func c07Plan(sql string) string {
	rt, _ := c01GetRouter()
	node, err := parser.ParseSQL(sql)
	if err != nil {
		return "parse-error"
	}
	db := "db_ks"
	if strings.Contains(sql, "t_m") && !strings.Contains(sql, "t_mod") && !strings.Contains(sql, "t_month") {
		db = "db_mycat"
	}
	p, err := plan.BuildPlan(node, map[string]string{"db_ks": "db_ks", "db_mycat": "db_mycat_0"}, db, sql, rt, sequence.NewSequenceManager(), nil)
	// what handleFieldList and the unshard pre-check do with the router
	_ = rt.GetRule(db, "t_unshard_0").GetSlice(0)
	_ = rt.GetRule(db, "t_r100") != rt.GetDefaultRule()
	if err != nil {
		return "err"
	}
	var parts []string
	for slice, dbs := range plan.VerifPlanSQLs(p) {
		for d, sqls := range dbs {
			parts = append(parts, slice+"/"+d+":"+strings.Join(sqls, ";"))
		}
	}
	sort.Strings(parts)
	return fmt.Sprintf("%T|%s", p, strings.Join(parts, "|"))
}

// c07Snapshot renders every field of the shared routing state that sessions can
// reach through the Rule interface; planning must leave it unchanged.
func c07Snapshot() string {
	rt, _ := c01GetRouter()
	var parts []string
	for db, rules := range rt.GetAllRules() {
		for tbl, r := range rules {
			var dbs []string
			if mr, ok := r.(router.MycatRule); ok {
				dbs = mr.GetDatabases()
			}
			line := fmt.Sprintf("%s.%s|%s|%s|%v|%d|%d|%v|%v", db, tbl, r.GetType(), r.GetShardingColumn(), r.GetSubTableIndexes(),
				r.GetFirstTableIndex(), r.GetLastTableIndex(), r.GetSlices(), dbs)
			for _, i := range r.GetSubTableIndexes() {
				line += fmt.Sprintf("|%d>%d", i, r.GetSliceIndexFromTableIndex(i))
			}
			parts = append(parts, line)
		}
	}
	d := rt.GetDefaultRule()
	parts = append(parts, fmt.Sprintf("default|%s|%v|%v", d.GetType(), d.GetSubTableIndexes(), d.GetSlices()))
	sort.Strings(parts)
	return strings.Join(parts, "\n")
}

func execC07(in core.Sexp) string {
	if in.Head() == "sc" {
		return execC07Scenario(in)
	}
	n := int(in.Nth(1).Int())
	seed := in.Nth(2).Int()
	workers := int(in.Nth(3).Int())
	stmts := c07Statements(seed, n)
	before := c07Snapshot()
	seq := make([]string, n)
	for i, s := range stmts {
		seq[i] = c07Plan(s)
	}
	res := make([][]string, workers)
	var wg sync.WaitGroup
	for w := 0; w < workers; w++ {
		wg.Add(1)
		go func(w int) {
			defer wg.Done()
			mine := make([]string, n)
			order := rand.New(rand.NewSource(seed + int64(w)*7919)).Perm(n)
			for _, i := range order {
				mine[i] = c07Plan(stmts[i])
			}
			res[w] = mine
		}(w)
	}
	wg.Wait()
	if c07Snapshot() != before {
		return "(state-changed)"
	}
	for w := range res {
		for i := range seq {
			if res[w][i] != seq[i] {
				return fmt.Sprintf("(differs %d)", i)
			}
		}
	}
	return fmt.Sprintf("(ok %d)", n)
}

func init() {
	core.Register(&core.Property{
		ID: "C07",
		Rule: "scenarios (sc …): 2–4 sessions of one namespace (13 rules: hash, mod, range, linked, year/month/day, four mycat rules, two global tables; two tables with a global sequence; a database without rules), each a list of statements drawn from 32 families " +
			"(SELECT/INSERT VALUES/INSERT SET/REPLACE/UPDATE/DELETE, hints, joins, unions, foreign-database columns, unsharded and global tables, COM_FIELD_LIST lookups) with keys routed to every sub table; every item planned alone on a fresh router / namespace, in turns on a shared router, " +
			"concurrently (-race), through SessionExecutor.getPlan of real sessions in turns and concurrently; plans compared with the one built alone, deep snapshot of router+rules+shards+namespace caches compared after every step, sequence values must be per statement and unique. " +
			"Batches (plan N SEED G): C01 condition trees on 14 more rule configurations planned sequentially and from 4–16 goroutines. Non-trivial = every plan was produced and compared",
		Generate: func(g *core.Gen) {
			genC07Scenarios(g)
			for i := 0; i < g.Scale(3, 20); i++ {
				g.Emit(core.L(core.A("plan"), core.I(int64(40+g.Intn(80))), core.I(int64(g.Rand.Int31())), core.I(int64(core.Pick(g, []int{4, 8, 16})))), "batch")
			}
		},
		Exec:    execC07,
		Trivial: func(in core.Sexp, out string) bool { return !strings.HasPrefix(out, "(ok") },
		Extra: func(r *core.Run) {
			// race reports written by the runtime (GORACE=log_path=… set by ./check)
			prefix := os.Getenv("VERIF_RACE_LOG")
			if prefix == "" {
				r.Note("race detector log not configured: this run did not look for data races")
				return
			}
			files, _ := filepath.Glob(prefix + "*")
			n := 0
			for _, f := range files {
				data, _ := os.ReadFile(f)
				if strings.Contains(string(data), "DATA RACE") {
					n++
					text := string(data)
					if len(text) > 3000 {
						text = text[:3000]
					}
					r.AddViolation(core.Finding{Kind: "failing-input", Class: "data-race-in-planning", Input: "the scenarios and batches of this run under -race (the report names the two accesses)", Impl: "race detector report", Detail: text})
				}
				os.Remove(f)
			}
			r.Note("race detector: %d report file(s) with a DATA RACE", n)
		},
		Assumptions: []string{
			"the atomic steps of planning are modelled abstractly (read shared routing state, update private state); the Go memory model and scheduler are not modelled — the race detector run and the concurrent/sequential comparison are the search, the theorem is about the transition system",
			"the translator's points-to analysis (harness/extract/c07ssa.go: class-hierarchy call graph, no unsafe conversions, reflection and goroutines started by planning not followed; log, stats and the MySQL sequence are cells of their own) and its syntactic predecessor (harness/extract/c07.go) list every write to shared memory",
			"a plan is compared as: plan type, SQL per slice and physical database, routed sub table indexes, or the error text; fields of a plan that none of these show are not compared",
		},
	})
}
