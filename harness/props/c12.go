package props

import (
	"bytes"
	"fmt"

	"gaeaverif/harness/core"

	"github.com/XiaoMi/Gaea/mysql"
)

// C12 — length-encoded codec and bounded readers of mysql/encoding.go.

func init() {
	core.Register(&core.Property{
		ID: "C12",
		Rule: "encoders on all size-class boundaries ±1, powers of two and random 64-bit values, byte strings of boundary lengths; " +
			"decoders on buffers built from every prefix byte 0xfa–0xff + truncated/oversized/≥2^63 lengths at offsets -1…len+2; " +
			"non-trivial = the implementation returned a value (not fail/panic)",
		Generate: genC12,
		Exec:     execC12,
		Trivial: func(in core.Sexp, out string) bool {
			return out == "fail" || out == "panic"
		},
		Assumptions: []string{
			"Go int is 64 bits; buffers are shorter than 2^63 bytes",
			"ReadBytesCopy returns a copy equal to what ReadBytes returns (compared on every case)",
		},
	})
}

func fmtOK(format string, a ...any) string { return "(ok " + fmt.Sprintf(format, a...) + ")" }

func execC12(in core.Sexp) string {
	switch in.Head() {
	case "enc-int":
		n := in.Nth(1).Uint()
		b := mysql.AppendLenEncInt(nil, n)
		// also with a non-empty prefix: must be the same bytes
		b2 := mysql.AppendLenEncInt([]byte{1, 2}, n)
		if !bytes.Equal(b2[2:], b) {
			return "(append-depends-on-prefix)"
		}
		return fmt.Sprintf("(%s %d)", core.Hex(b), mysql.LenEncIntSize(n))
	case "write-int":
		n := in.Nth(1).Uint()
		buf := make([]byte, 16)
		for i := range buf {
			buf[i] = 0xaa
		}
		pos := mysql.WriteLenEncInt(buf, 3, n)
		for i, c := range buf {
			if (i < 3 || i >= pos) && c != 0xaa {
				return "(wrote-outside)"
			}
		}
		return fmt.Sprintf("(%s %d)", core.Hex(buf[3:pos]), mysql.LenEncIntSize(n))
	case "enc-str":
		v := in.Nth(1).Bytes()
		b := mysql.AppendLenEncStringBytes(nil, v)
		buf := make([]byte, mysql.LenEncStringSize(string(v)))
		pos := mysql.WriteLenEncString(buf, 0, string(v))
		if pos != len(buf) || !bytes.Equal(buf, b) {
			return "(write-differs-from-append)"
		}
		return fmt.Sprintf("(%s)", core.Hex(b))
	case "dec":
		op := in.Nth(1).Atom
		d := in.Nth(2).Bytes()
		pos := int(in.Nth(3).Int())
		tf := func(b bool) string {
			if b {
				return "t"
			}
			return "f"
		}
		switch op {
		case "byte":
			v, next, ok := mysql.ReadByte(d, pos)
			if !ok {
				return "fail"
			}
			return fmtOK("%d %d", v, next)
		case "bytes":
			size := int(in.Nth(4).Int())
			v, next, ok := mysql.ReadBytes(d, pos, size)
			v2, next2, ok2 := mysql.ReadBytesCopy(d, pos, size)
			if ok != ok2 || next != next2 || !bytes.Equal(v, v2) {
				return "(copy-differs)"
			}
			if !ok {
				return "fail"
			}
			return fmtOK("%s %d", core.Hex(v), next)
		case "null":
			v, next, ok := mysql.ReadNullString(d, pos)
			v2, next2, ok2 := mysql.ReadNullByte(d, pos)
			if ok != ok2 || next != next2 || v != string(v2) {
				return "(nullbyte-differs)"
			}
			if !ok {
				return "fail"
			}
			return fmtOK("%s %d", core.Hex([]byte(v)), next)
		case "u16":
			v, next, ok := mysql.ReadUint16(d, pos)
			if !ok {
				return "fail"
			}
			return fmtOK("%d %d", v, next)
		case "u32":
			v, next, ok := mysql.ReadUint32(d, pos)
			if !ok {
				return "fail"
			}
			return fmtOK("%d %d", v, next)
		case "u64":
			v, next, ok := mysql.ReadUint64(d, pos)
			if !ok {
				return "fail"
			}
			return fmtOK("%d %d", v, next)
		case "lenint":
			v, next, isNull, ok := mysql.ReadLenEncInt(d, pos)
			if !ok {
				return "fail"
			}
			return fmtOK("%d %d %s", v, next, tf(isNull))
		case "lenstr":
			v, next, isNull, ok := mysql.ReadLenEncStringAsBytes(d, pos)
			v2, next2, ok2 := mysql.VerifReadLenEncString(d, pos)
			if ok != ok2 || next != next2 || string(v) != v2 {
				return "(readLenEncString-differs)"
			}
			if !ok {
				return "fail"
			}
			return fmtOK("%s %d %s", core.Hex(v), next, tf(isNull))
		case "skip":
			next, ok := mysql.VerifSkipLenEncString(d, pos)
			if !ok {
				return "fail"
			}
			return fmtOK("%d", next)
		}
	}
	return "bad"
}

func genC12(g *core.Gen) {
	// encoders
	var ints []uint64
	for _, b := range []uint64{0, 1, 250, 251, 252, 253, 254, 255, 256, 1 << 16, 1 << 24, 1 << 32, 1 << 63} {
		for _, d := range []int64{-2, -1, 0, 1, 2} {
			ints = append(ints, b+uint64(d))
		}
	}
	for i := 0; i < 64; i++ {
		ints = append(ints, uint64(1)<<uint(i), (uint64(1)<<uint(i))-1)
	}
	for i := 0; i < g.Scale(300, 5000); i++ {
		ints = append(ints, g.Rand.Uint64()>>uint(g.Intn(64)))
	}
	for _, n := range ints {
		g.Emit(core.L(core.A("enc-int"), core.U(n)), "enc-int")
		g.Emit(core.L(core.A("write-int"), core.U(n)), "write-int")
	}
	lens := []int{0, 1, 2, 249, 250, 251, 252, 255, 256, 257, 65534, 65535, 65536, 65537, 70000}
	for i := 0; i < g.Scale(20, 200); i++ {
		lens = append(lens, g.Intn(600))
	}
	for _, n := range lens {
		b := make([]byte, n)
		g.Rand.Read(b)
		g.Emit(core.L(core.A("enc-str"), core.Hex(b)), "enc-str")
	}
	// decoders
	ops := []string{"byte", "bytes", "null", "u16", "u32", "u64", "lenint", "lenstr", "skip"}
	prefixes := []byte{0, 1, 2, 5, 0xfa, 0xfb, 0xfc, 0xfd, 0xfe, 0xff}
	emitDec := func(op string, d []byte, pos int, size int, tag string) {
		if op == "bytes" {
			g.Emit(core.L(core.A("dec"), core.A(op), core.Hex(d), core.I(int64(pos)), core.I(int64(size))), "dec-"+op, tag)
		} else {
			g.Emit(core.L(core.A("dec"), core.A(op), core.Hex(d), core.I(int64(pos))), "dec-"+op, tag)
		}
	}
	sizes := []int{-1 << 63, -5, -1, 0, 1, 2, 3, 8, 9, 1 << 62, 1<<63 - 1}
	n := g.Scale(2500, 60000)
	for i := 0; i < n; i++ {
		var d []byte
		switch g.Intn(5) {
		case 0: // well-formed lenenc string with a prefix and a suffix
			pre := make([]byte, g.Intn(3))
			g.Rand.Read(pre)
			v := make([]byte, g.Intn(6))
			g.Rand.Read(v)
			d = mysql.AppendLenEncStringBytes(pre, v)
			suf := make([]byte, g.Intn(3))
			d = append(d, suf...)
			if g.Intn(3) == 0 && len(d) > 0 { // truncate
				d = d[:g.Intn(len(d))]
			}
		case 1: // prefix byte + length bytes with extreme values
			p := core.Pick(g, prefixes)
			d = []byte{p}
			k := g.Intn(10)
			for j := 0; j < k; j++ {
				d = append(d, core.Pick(g, []byte{0, 1, 2, 0x7f, 0x80, 0xff}))
			}
		case 2: // 0xfe with a length ≥ 2^63 or just above the buffer
			d = []byte{0xfe, byte(g.Intn(4)), 0, 0, 0, 0, 0, 0, core.Pick(g, []byte{0, 0x7f, 0x80, 0xff})}
			k := g.Intn(4)
			for j := 0; j < k; j++ {
				d = append(d, byte(g.Intn(256)))
			}
		case 3: // zero-containing random bytes
			d = make([]byte, g.Intn(12))
			for j := range d {
				d[j] = core.Pick(g, []byte{0, 0, 1, 0xfb, 0xfc, 0xfe, 0x41})
			}
		default:
			d = make([]byte, g.Intn(24))
			g.Rand.Read(d)
		}
		op := core.Pick(g, ops)
		pos := g.Intn(len(d)+4) - 1
		size := core.Pick(g, sizes)
		if g.Intn(2) == 0 {
			size = g.Intn(len(d)+3) - 1
		}
		emitDec(op, d, pos, size, "")
	}
	// lengths around the int64 wrap: pos+size overflows only in a window of a few values
	// below 2^63 (a guard written as `pos+s > len(data)` passes there and the slice panics)
	for k := int64(-3); k <= 24; k++ {
		v := uint64(1)<<63 - uint64(k) // 2^63-k (k<0: above 2^63)
		for pre := 0; pre <= 9; pre += 3 {
			d := make([]byte, pre, pre+12)
			d = append(d, 0xfe)
			for i := 0; i < 8; i++ {
				d = append(d, byte(v>>(8*uint(i))))
			}
			d = append(d, 1, 2, 3)
			for _, op := range []string{"lenstr", "skip", "lenint"} {
				emitDec(op, d, pre, 0, "int64-wrap-window")
			}
			emitDec("bytes", d, pre, int(int64(v&(1<<63-1))), "int64-wrap-window")
			emitDec("bytes", d, pre+10, int(int64(1<<63-1)-k-int64(pre)), "int64-wrap-window")
		}
	}
	if g.Tier != "quick" {
		// exhaustive small scope: all buffers of length ≤ 3 over a 6-byte alphabet, every offset, every op
		alpha := []byte{0, 1, 2, 0xfb, 0xfc, 0xfe}
		var bufs [][]byte
		bufs = append(bufs, []byte{})
		for _, a := range alpha {
			bufs = append(bufs, []byte{a})
			for _, b := range alpha {
				bufs = append(bufs, []byte{a, b})
				for _, c := range alpha {
					bufs = append(bufs, []byte{a, b, c})
				}
			}
		}
		for _, d := range bufs {
			for pos := -1; pos <= len(d)+1; pos++ {
				for _, op := range ops {
					if op == "bytes" {
						for size := -1; size <= 4; size++ {
							emitDec(op, d, pos, size, "exhaustive")
						}
					} else {
						emitDec(op, d, pos, 0, "exhaustive")
					}
				}
			}
		}
	}
}
