package props

import (
	"bytes"
	"fmt"
	"io"
	"net"
	"os"
	"sort"
	"strings"
	"sync"
	"time"

	"gaeaverif/harness/core"

	"github.com/XiaoMi/Gaea/backend"
	gaealog "github.com/XiaoMi/Gaea/log"
	"github.com/XiaoMi/Gaea/mysql"
	"github.com/XiaoMi/Gaea/proxy/server"
	"github.com/XiaoMi/Gaea/util"
)

// C39 — results are complete or an error, never silently truncated.
//
// A scripted MySQL backend (in-memory net.Conn that answers commands) serves
// result sets described by the input; the real DirectConnection / pooled
// connection / connection pool / SessionExecutor.ExecuteSQL(s) /
// Session.writeResponse / ClientConn run against it, and the harness reads
// what the client would receive.

func init() {
	core.Register(&core.Property{
		ID: "C39",
		Rule: "scripted backend result sets: rows of 10 B … 5 MiB in runs, totals around the 16 MiB reader threshold (just below, just above, several chunks) and small; row counts limit-1, limit, limit+1, far above, unlimited (-1); " +
			"streams ending in EOF, in an ERR packet or by a lost connection, before/inside/after the first chunk; " +
			"dc = DirectConnection.Execute + FetchMoreRows chunks, un = SessionExecutor.ExecuteSQL + Session.writeResponse (text and binary) read back at the client, sh = ExecuteSQLs over 1–4 slices; " +
			"ses = whole sessions through the real Session.Run (COM_QUERY / COM_STMT_PREPARE+EXECUTE from an in-memory client): 1–6 statements out of begin / commit / rollback / unsharded SELECT with an answer of 1–3 results (result sets, OK packets, ERR) / sharded SELECT over 1–4 sub-tables on two slices entering above the planner, " +
			"multi-statement packets of 2–4 statements split by the proxy (every fifth session), with keep-session, max_sql_execute_time armed, a client whose connection breaks after k packets, a backend that falls silent (150 ms deadline), and results of 2–3 reader chunks inside transactions, keep-session, multi-result answers and sharded statements; " +
			"non-trivial = some row was delivered",
		Generate: genC39,
		Exec:     execC39,
		Trivial: func(in core.Sexp, out string) bool {
			return !strings.Contains(out, "((0 ") && !strings.Contains(out, "(c ((") && !strings.Contains(out, "(rs ((")
		},
		Assumptions: []string{
			"the backend speaks the MySQL protocol: no zero-length packet inside a result set; rows parse (text rows of two string columns); in the sessions answers are well-formed (a result flagged SERVER_MORE_RESULTS_EXISTS is followed by a result, nothing follows the packet that ends the answer) - dc/un/sh still script packets after the end",
			"sessions: the pool of a slice holds one connection; a lost backend connection (no EOF/ERR) is not scripted on a connection pinned by a transaction or keep-session, nor a silent backend in a sharded statement under keep-session outside a transaction, nor silence after the first chunk of a streamed result (no deadline there: the session blocks) - see Model/ResultSession.lean",
			"the merge operators other than concatenation (C02) and the text→binary value conversion (C13) are outside this model: sharded statements are plain SELECT c… FROM t [WHERE k IN (…)], binary rows are compared by the id column only",
		},
		Extra: func(r *core.Run) { c39Cleanup() },
	})
}

// ---- the scripted backend ----

type c39Item struct {
	kind string // r | eof | err
	n, l int
}

func c39Items(s core.Sexp) []c39Item {
	var out []c39Item
	for _, it := range s.List {
		switch it.Head() {
		case "r":
			out = append(out, c39Item{"r", int(it.Nth(1).Int()), int(it.Nth(2).Int())})
		case "eof", "err":
			out = append(out, c39Item{kind: it.Head()})
		default:
			panic("c39: bad item " + it.String())
		}
	}
	return out
}

// c39Pat holds the padding alphabet: pad byte i of row id is c39Pat[id%23+i].
var (
	c39Pat   []byte
	c39PatMu sync.Mutex
)

// c39PatFor returns the alphabet, at least l+23 bytes of it (sharded statements build the
// answers of their slices concurrently: a longer alphabet is published only when it is filled).
func c39PatFor(l int) []byte {
	c39PatMu.Lock()
	defer c39PatMu.Unlock()
	if len(c39Pat) < l+23 {
		n := l + 23 + 1<<20
		pat := make([]byte, n)
		for i := range pat {
			pat[i] = byte('a' + i%23)
		}
		c39Pat = pat
	}
	return c39Pat
}

// c39AppendRow appends the text-protocol row packet of row id with pad length
// l: two length-encoded strings, the 8-digit id and l bytes of padding.
func c39AppendRow(b []byte, id, l int) []byte {
	b = append(b, 8, byte('0'+id/10000000%10), byte('0'+id/1000000%10), byte('0'+id/100000%10), byte('0'+id/10000%10),
		byte('0'+id/1000%10), byte('0'+id/100%10), byte('0'+id/10%10), byte('0'+id%10))
	b = mysql.AppendLenEncInt(b, uint64(l))
	pat := c39PatFor(l)
	return append(b, pat[id%23:id%23+l]...)
}

func c39Row(id, l int) []byte { return c39AppendRow(make([]byte, 0, 9+9+l), id, l) }

// c39RowEquals tells whether p is exactly c39Row(id, l), without building it.
func c39RowEquals(p []byte, id, l int) bool {
	var hdr [20]byte
	h := c39AppendRow(hdr[:0], id, 0)
	h = h[:9]
	h = mysql.AppendLenEncInt(h, uint64(l))
	if len(p) != len(h)+l || !bytes.Equal(p[:len(h)], h) {
		return false
	}
	pat := c39PatFor(l)
	return bytes.Equal(p[len(h):], pat[id%23:id%23+l])
}

const c39ErrMsg = "c39-backend-error"
const c39Unscripted = "c39-unscripted-statement"

type c39Backend struct {
	mu      sync.Mutex
	items   []c39Item
	// next, if set, provides the response to each scripted statement (sessions, c39ses.go);
	// otherwise the first scripted statement is answered with the single result set `items`
	next    func(query string) *c39Response
	dc      *backend.DirectConnection // the proxy's end of this connection, if known
	desync  int                       // packets of earlier answers still unread when a command arrived (largest value seen)
	stall   bool                      // the answer in progress ends in silence: reads block until the connection is closed
	closeCh chan struct{}
	cmds    int // commands received
	in      []byte // bytes the backend has sent and the proxy has not read yet start at pos
	pos     int
	wbuf    []byte
	served  bool // the scripted result was requested
	cutAt   bool // the script ends without EOF/ERR: connection lost
	closed  bool
	starved bool // a read found nothing to deliver although the connection was not lost
	total   int  // length of the scripted response
	respOff int  // offset in `in` where the scripted response starts
}

func c39Frame(dst []byte, seq *uint8, payload []byte) []byte {
	const M = mysql.MaxPacketSize
	for {
		l := len(payload)
		if l > M {
			l = M
		}
		dst = append(dst, byte(l), byte(l>>8), byte(l>>16), *seq)
		*seq++
		dst = append(dst, payload[:l]...)
		payload = payload[l:]
		if l < M {
			return dst
		}
	}
}

func c39Field(name string) []byte {
	f := &mysql.Field{Schema: []byte("db"), Table: []byte("t"), OrgTable: []byte("t"), Name: []byte(name), OrgName: []byte(name),
		Charset: 33, ColumnLength: 1 << 24, Type: mysql.TypeVarString}
	return f.Dump()
}

// c39Result is one result of an answer: an OK packet or a result set.
type c39Result struct {
	okp   bool
	more  bool // SERVER_MORE_RESULTS_EXISTS in the status of its OK / EOF packets
	items []c39Item
}

// c39Response is the answer to one statement; base is the id of its first row.
type c39Response struct {
	results []c39Result
	base    int
}

func (b *c39Backend) response() []byte {
	out := b.encode(&c39Response{results: []c39Result{{items: b.items}}})
	// a single scripted answer: whatever is read beyond it is the end of the connection
	b.cutAt = true
	return out
}

// encode writes the packets of an answer. The connection is lost after an answer whose last
// result set has no closing EOF/ERR (cutAt), or falls silent there (stall).
func (b *c39Backend) encode(rsp *c39Response) []byte {
	seq := uint8(1)
	total := 256
	for _, rs := range rsp.results {
		total += 256
		for _, it := range rs.items {
			if it.kind == "r" {
				sz := c39RowSize(it.l)
				total += it.n * (sz + 4*(sz/mysql.MaxPacketSize+1))
			} else {
				total += 64
			}
		}
	}
	out := make([]byte, 0, total)
	id := rsp.base
	b.cutAt = len(rsp.results) == 0 // no result at all: the connection is lost
	b.stall = false
	var scratch []byte
results:
	for _, rs := range rsp.results {
		status := byte(2)
		if rs.more {
			status |= byte(mysql.ServerMoreResultsExists)
		}
		if rs.okp {
			out = c39Frame(out, &seq, []byte{mysql.OKHeader, 0, 0, status, 0, 0, 0})
			continue
		}
		if len(rs.items) > 0 && rs.items[0].kind == "errp" {
			// an ERR packet instead of the result
			e := []byte{mysql.ErrHeader, 0x51, 0x04, '#', 'H', 'Y', '0', '0', '0'}
			out = c39Frame(out, &seq, append(e, c39ErrMsg...))
			break
		}
		if len(rs.items) > 0 && rs.items[0].kind == "stall0" {
			// silence instead of the result
			b.stall = true
			break
		}
		out = c39Frame(out, &seq, []byte{2})
		out = c39Frame(out, &seq, c39Field("id"))
		out = c39Frame(out, &seq, c39Field("pad"))
		out = c39Frame(out, &seq, []byte{mysql.EOFHeader, 0, 0, status, 0})
		ended := false
		for _, it := range rs.items {
			switch it.kind {
			case "r":
				sz := c39RowSize(it.l)
				for k := 0; k < it.n; k++ {
					if sz < mysql.MaxPacketSize {
						// single frame, written in place
						out = append(out, byte(sz), byte(sz>>8), byte(sz>>16), seq)
						seq++
						out = c39AppendRow(out, id, it.l)
					} else {
						scratch = c39AppendRow(scratch[:0], id, it.l)
						out = c39Frame(out, &seq, scratch)
					}
					id++
				}
			case "eof":
				out = c39Frame(out, &seq, []byte{mysql.EOFHeader, 0, 0, status, 0})
				ended = true
			case "err":
				e := []byte{mysql.ErrHeader, 0x51, 0x04, '#', 'H', 'Y', '0', '0', '0'}
				out = c39Frame(out, &seq, append(e, c39ErrMsg...))
				ended = true
			case "stall":
				b.stall = true
				break results
			}
		}
		if !ended {
			b.cutAt = true
			break
		}
	}
	return out
}

func (b *c39Backend) Write(p []byte) (int, error) {
	b.mu.Lock()
	defer b.mu.Unlock()
	if b.closed {
		return 0, io.ErrClosedPipe
	}
	b.wbuf = append(b.wbuf, p...)
	for len(b.wbuf) >= 4 {
		l := int(b.wbuf[0]) | int(b.wbuf[1])<<8 | int(b.wbuf[2])<<16
		if len(b.wbuf) < 4+l {
			break
		}
		payload := b.wbuf[4 : 4+l]
		ok := []byte{7, 0, 0, 1, 0, 0, 0, 2, 0, 0, 0}
		if l > 0 {
			switch payload[0] {
			case mysql.ComQuery:
				q := strings.TrimSpace(string(payload[1:]))
				if b.next != nil {
					if n := b.unreadLocked(); n > b.desync {
						b.desync = n
					}
				}
				if b.next != nil && (strings.HasPrefix(q, "SELECT") || strings.HasPrefix(q, "CALL")) && strings.Contains(q, "pad") {
					b.served = true
					var r []byte
					if rsp := b.next(q); rsp != nil {
						r = b.encode(rsp)
					} else {
						e := []byte{mysql.ErrHeader, 0x51, 0x04, '#', 'H', 'Y', '0', '0', '0'}
						r = append([]byte{byte(len(e) + len(c39Unscripted)), 0, 0, 1}, append(e, c39Unscripted...)...)
					}
					b.total = len(r)
					if b.pos >= len(b.in) {
						b.in, b.pos, b.respOff = r, 0, 0
					} else {
						b.respOff = len(b.in)
						b.in = append(b.in, r...)
					}
				} else if b.next == nil && strings.HasPrefix(q, "SELECT /*c39*/") && !b.served {
					b.served = true
					r := b.response()
					b.total = len(r)
					if b.pos >= len(b.in) {
						// everything sent so far was read: serve the response without copying it
						b.in, b.pos, b.respOff = r, 0, 0
					} else {
						b.respOff = len(b.in)
						b.in = append(b.in, r...)
					}
				} else {
					b.in = append(b.in, ok...)
				}
			case mysql.ComQuit:
			default:
				b.in = append(b.in, ok...)
			}
		}
		b.wbuf = b.wbuf[4+l:]
	}
	return len(p), nil
}

func (b *c39Backend) Read(p []byte) (int, error) {
	b.mu.Lock()
	if b.closed {
		b.mu.Unlock()
		return 0, io.ErrClosedPipe
	}
	if b.pos >= len(b.in) {
		if b.stall {
			// the backend has fallen silent: the read blocks until the connection is closed
			if b.closeCh == nil {
				b.closeCh = make(chan struct{})
			}
			ch := b.closeCh
			b.mu.Unlock()
			<-ch
			return 0, io.ErrClosedPipe
		}
		if !b.served || !b.cutAt {
			b.starved = true
		}
		b.mu.Unlock()
		return 0, io.EOF
	}
	n := copy(p, b.in[b.pos:])
	b.pos += n
	b.mu.Unlock()
	return n, nil
}

func (b *c39Backend) Close() error {
	b.mu.Lock()
	if !b.closed {
		b.closed = true
		if b.closeCh == nil {
			b.closeCh = make(chan struct{})
		}
		close(b.closeCh)
	}
	b.mu.Unlock()
	return nil
}

// unreadLocked counts the packets sent to the proxy that it has not consumed yet.
func (b *c39Backend) unreadLocked() int {
	buffered := 0
	if b.dc != nil {
		buffered = b.dc.VerifC39Buffered()
	}
	off := b.pos - buffered
	if off < 0 {
		off = 0
	}
	n := 0
	for off+4 <= len(b.in) {
		l := int(b.in[off]) | int(b.in[off+1])<<8 | int(b.in[off+2])<<16
		off += 4 + l
		if l < mysql.MaxPacketSize {
			n++
		}
	}
	return n
}

func (b *c39Backend) LocalAddr() net.Addr                { return c11Addr{} }
func (b *c39Backend) RemoteAddr() net.Addr               { return c11Addr{} }
func (b *c39Backend) SetDeadline(t time.Time) error      { return nil }
func (b *c39Backend) SetReadDeadline(t time.Time) error  { return nil }
func (b *c39Backend) SetWriteDeadline(t time.Time) error { return nil }

// pendingPackets counts the packets of the scripted response the proxy has
// not consumed (buffered = bytes its reader holds without having used them).
func (b *c39Backend) pendingPackets(buffered int) int {
	b.mu.Lock()
	defer b.mu.Unlock()
	if !b.served {
		return 0
	}
	off := b.pos - buffered
	if off < b.respOff {
		off = b.respOff
	}
	n := 0
	for off+4 <= len(b.in) {
		l := int(b.in[off]) | int(b.in[off+1])<<8 | int(b.in[off+2])<<16
		off += 4 + l
		if l < mysql.MaxPacketSize {
			n++
		}
	}
	return n
}

// ---- row bookkeeping ----

type c39Ranges struct {
	rs   [][2]int
	next int
}

func (r *c39Ranges) add(id int) {
	if n := len(r.rs); n > 0 && r.rs[n-1][1]+1 == id {
		r.rs[n-1][1] = id
		return
	}
	r.rs = append(r.rs, [2]int{id, id})
}

func (r *c39Ranges) String() string {
	parts := make([]string, len(r.rs))
	for i, x := range r.rs {
		parts[i] = fmt.Sprintf("(%d %d)", x[0], x[1])
	}
	return "(" + strings.Join(parts, " ") + ")"
}

func c39RowID(row []byte, binary bool) int {
	pos := 0
	if binary {
		pos = 2 // header byte and the null bitmap of two columns
	}
	v, _, _, ok := mysql.ReadLenEncStringAsBytes(row, pos)
	if !ok {
		return -1
	}
	id := 0
	for _, c := range v {
		if c < '0' || c > '9' {
			return -1
		}
		id = id*10 + int(c-'0')
	}
	return id
}

// padOf returns the pad length of row id according to the script.
func c39PadOf(items []c39Item, id int) int {
	for _, it := range items {
		if it.kind != "r" {
			continue
		}
		if id < it.n {
			return it.l
		}
		id -= it.n
	}
	return -1
}

func c39ErrKind(msg string) string {
	switch {
	case strings.Contains(msg, "sql result set size exceeded"):
		return "limit"
	case strings.Contains(msg, c39ErrMsg):
		return "backend"
	case strings.Contains(msg, "execution timed out"):
		return "timeout"
	}
	return "conn"
}

// ---- the proxy side ----

var (
	c39Mgr    *server.Manager
	c39MgrErr error
	c39LogDir string
)

const c39NS = "c39_ns"

// c39NullLog silences the proxy's global logger (it writes to stdout).
type c39NullLog struct{}

func (c39NullLog) SetLevel(name, level string) error                    { return nil }
func (c39NullLog) Debug(format string, a ...interface{}) error          { return nil }
func (c39NullLog) Trace(format string, a ...interface{}) error          { return nil }
func (c39NullLog) Notice(format string, a ...interface{}) error         { return nil }
func (c39NullLog) Warn(format string, a ...interface{}) error           { return nil }
func (c39NullLog) Fatal(format string, a ...interface{}) error          { return nil }
func (c39NullLog) Debugx(logID, format string, a ...interface{}) error  { return nil }
func (c39NullLog) Tracex(logID, format string, a ...interface{}) error  { return nil }
func (c39NullLog) Noticex(logID, format string, a ...interface{}) error { return nil }
func (c39NullLog) Warnx(logID, format string, a ...interface{}) error   { return nil }
func (c39NullLog) Fatalx(logID, format string, a ...interface{}) error  { return nil }
func (c39NullLog) Close()                                               {}
func (c39NullLog) Dropped(i int) uint64                                 { return 0 }

func c39Manager() (*server.Manager, error) {
	if c39Mgr != nil || c39MgrErr != nil {
		return c39Mgr, c39MgrErr
	}
	if os.Getenv("VERIF_DEBUG_LOG") == "" {
		gaealog.SetGlobalLogger(c39NullLog{})
	}
	dir, err := os.MkdirTemp("", "gaea-verif-c39.")
	if err != nil {
		c39MgrErr = err
		return nil, err
	}
	c39LogDir = dir
	proxyINI := "config_type=file\nfile_config_path=" + dir + "\ncluster_name=gaea\nservice_name=gaea_proxy\nenviron=local\n" +
		"log_path=" + dir + "\nlog_level=fatal\nlog_filename=gaea\nlog_output=file\nproto_type=tcp4\nproxy_addr=127.0.0.1:0\nadmin_addr=127.0.0.1:0\n" +
		"admin_user=a\nadmin_password=a\nslow_sql_time=100000\nsession_timeout=3600\nstats_enabled=false\nencrypt_key=1234abcd5678efg*\nserver_idc=c3\n"
	var slices []string
	for i := 0; i < 4; i++ {
		slices = append(slices, fmt.Sprintf(`{"name":"slice-%d","user_name":"u","password":"p","master":"127.0.0.1:%d","capacity":2,"max_capacity":4,"idle_timeout":3600}`, i, 1+i))
	}
	nsJSON := `{"name":"` + c39NS + `","online":true,"read_only":false,"allowed_dbs":{"db_ks":true},"default_phy_dbs":{"db_ks":"db_ks"},` +
		`"slices":[` + strings.Join(slices, ",") + `],` +
		`"shard_rules":[{"db":"db_ks","table":"tbl_ks","type":"mod","key":"id","locations":[2,2],"slices":["slice-0","slice-1"]}],` +
		`"users":[{"user_name":"c39","password":"c39","namespace":"` + c39NS + `","rw_flag":2,"rw_split":0}],` +
		`"default_slice":"slice-0","max_sql_execute_time":0,"max_sql_result_size":-1}`
	c39Mgr, c39MgrErr = server.VerifC39NewManager(proxyINI, nsJSON)
	// nothing is logged at level fatal with statistics off: the directory stays empty and is
	// removed at once, so that nothing is left behind whichever way the process ends
	os.RemoveAll(dir)
	c39LogDir = ""
	return c39Mgr, c39MgrErr
}

func c39Cleanup() {
	if c39LogDir != "" {
		os.RemoveAll(c39LogDir)
	}
}

type c39Slice struct {
	pool     backend.ConnectionPool
	backends []*c39Backend
	dcs      []*backend.DirectConnection
}

func c39Fate(sl *c39Slice) string {
	if len(sl.backends) == 0 {
		return "unused"
	}
	b := sl.backends[len(sl.backends)-1]
	if b.closed {
		return "closed"
	}
	if sl.pool != nil && sl.pool.InUse() > 0 {
		return "leaked"
	}
	if b.starved {
		return "starved"
	}
	return fmt.Sprintf("(pooled %d)", b.pendingPackets(sl.dcs[len(sl.dcs)-1].VerifC39Buffered()))
}

// clientConn collects what the proxy writes to the client.
type c39Client struct {
	out []byte
}

func (c *c39Client) Read(p []byte) (int, error)         { return 0, io.EOF }
func (c *c39Client) Write(p []byte) (int, error)        { c.out = append(c.out, p...); return len(p), nil }
func (c *c39Client) Close() error                       { return nil }
func (c *c39Client) LocalAddr() net.Addr                { return c11Addr{} }
func (c *c39Client) RemoteAddr() net.Addr               { return c11Addr{} }
func (c *c39Client) SetDeadline(t time.Time) error      { return nil }
func (c *c39Client) SetReadDeadline(t time.Time) error  { return nil }
func (c *c39Client) SetWriteDeadline(t time.Time) error { return nil }

// c39ClientView reads the packets a client received for one statement.
func c39ClientView(out []byte, binary bool, items []c39Item, sessionClosed bool) string {
	var pk [][]byte
	seq := uint8(1)
	seqOK := true
	var cur []byte
	for pos := 0; pos+4 <= len(out); {
		l := int(out[pos]) | int(out[pos+1])<<8 | int(out[pos+2])<<16
		if pos+4+l > len(out) {
			return "(client-stream-garbled)"
		}
		if out[pos+3] != seq {
			seqOK = false
		}
		seq++
		if l == mysql.MaxPacketSize || cur != nil {
			cur = append(cur, out[pos+4:pos+4+l]...)
			if l < mysql.MaxPacketSize {
				pk = append(pk, cur)
				cur = nil
			}
		} else {
			pk = append(pk, out[pos+4:pos+4+l])
		}
		pos += 4 + l
	}
	rows := &c39Ranges{}
	bytesOK := true
	fin := "cut"
	if sessionClosed {
		fin = "closed"
	}
	i := 0
	if len(pk) > 0 && len(pk[0]) > 0 && pk[0][0] == mysql.ErrHeader {
		fin = "(err " + c39ErrKind(string(pk[0])) + ")"
	} else if len(pk) > 0 {
		// column count, definitions, EOF
		ncol := 0
		if len(pk[0]) == 1 {
			ncol = int(pk[0][0])
		}
		i = 1 + ncol
		if i >= len(pk) || len(pk[i]) == 0 || pk[i][0] != mysql.EOFHeader {
			return "(client-header-garbled)"
		}
		i++
		for ; i < len(pk); i++ {
			p := pk[i]
			if len(p) > 0 && p[0] == mysql.EOFHeader && len(p) < 9 {
				fin = "eof"
				i++
				break
			}
			if len(p) > 0 && p[0] == mysql.ErrHeader {
				fin = "(err " + c39ErrKind(string(p)) + ")"
				i++
				break
			}
			id := c39RowID(p, binary)
			rows.add(id)
			if !binary {
				if l := c39PadOf(items, id); l < 0 || !c39RowEquals(p, id, l) {
					bytesOK = false
				}
			}
		}
		if i < len(pk) {
			return "(client-packets-after-end)"
		}
	}
	flags := "ok"
	if !bytesOK {
		flags = "row-bytes-differ"
	} else if !seqOK {
		flags = "client-sequence"
	}
	return fmt.Sprintf("(client %s %s %s)", rows.String(), fin, flags)
}

func execC39(in core.Sexp) string {
	m, err := c39Manager()
	if err != nil {
		return "(setup-failed " + core.Text(err.Error()).String() + ")"
	}
	sql := "SELECT /*c39*/ id, pad FROM t"
	switch in.Head() {
	case "ses":
		return execC39Ses(m, in)
	case "dc":
		maxRows := int(in.Nth(1).Int())
		items := c39Items(in.Nth(2))
		b := &c39Backend{items: items}
		dc := backend.VerifC39NewDirectConn(b, "mem")
		pc := backend.VerifC39NewPooled(dc)
		var chunks []string
		end := "ok"
		rs, err := pc.Execute(sql, maxRows)
		for {
			if err != nil {
				end = c39ErrKind(err.Error())
				break
			}
			rg := &c39Ranges{}
			for _, row := range rs.RowDatas {
				rg.add(c39RowID(row, false))
			}
			more := pc.MoreRowsExist()
			chunks = append(chunks, fmt.Sprintf("(c %s %s)", rg.String(), core.B(more).String()))
			if !more {
				break
			}
			rs = mysql.ResultPool.Get()
			rs.Resultset = &mysql.Resultset{Fields: rs.Fields}
			err = pc.FetchMoreRows(rs, maxRows)
		}
		return fmt.Sprintf("((chunks %s) (end %s))", strings.Join(chunks, " "), end)
	case "un":
		maxRows := int(in.Nth(1).Int())
		binary := in.Nth(2).Bool()
		items := c39Items(in.Nth(3))
		sl := &c39Slice{}
		sl.pool = backend.VerifC39NewPool("mem-0", func() net.Conn {
			b := &c39Backend{items: items}
			sl.backends = append(sl.backends, b)
			return b
		}, func(dc *backend.DirectConnection) { sl.dcs = append(sl.dcs, dc) })
		server.VerifC39SetMaster(m, c39NS, "slice-0", sl.pool)
		server.VerifC39SetMaxResultSize(m, c39NS, maxRows)
		cl := &c39Client{}
		sess := server.VerifC39NewSession(m, c39NS, "c39", "db_ks", cl)
		rs, err := sess.VerifC39Executor().ExecuteSQL(util.NewRequestContext(), "slice-0", "db_ks", sql)
		if err != nil && os.Getenv("VERIF_DEBUG_LOG") != "" {
			fmt.Fprintln(os.Stderr, "ExecuteSQL:", err)
		}
		werr := sess.VerifC39WriteResult(rs, err, binary)
		return fmt.Sprintf("(%s (fate %s))", c39ClientView(cl.out, binary, items, werr != nil), c39Fate(sl))
	case "sh":
		maxRows := int(in.Nth(1).Int())
		shards := in.Nth(2).List
		server.VerifC39SetMaxResultSize(m, c39NS, maxRows)
		sls := make([]*c39Slice, len(shards))
		sqls := map[string]map[string][]string{}
		for i := range shards {
			items := c39Items(shards[i])
			sl := &c39Slice{}
			sl.pool = backend.VerifC39NewPool(fmt.Sprintf("mem-%d", i), func() net.Conn {
				b := &c39Backend{items: items}
				sl.backends = append(sl.backends, b)
				return b
			}, func(dc *backend.DirectConnection) { sl.dcs = append(sl.dcs, dc) })
			sls[i] = sl
			name := fmt.Sprintf("slice-%d", i)
			server.VerifC39SetMaster(m, c39NS, name, sl.pool)
			sqls[name] = map[string][]string{"db_ks": {sql}}
		}
		cl := &c39Client{}
		sess := server.VerifC39NewSession(m, c39NS, "c39", "db_ks", cl)
		rss, err := sess.VerifC39Executor().ExecuteSQLs(util.NewRequestContext(), sqls)
		var res string
		if err != nil {
			kinds := map[string]bool{}
			for _, part := range strings.Split(err.Error(), "\n") {
				for _, p2 := range strings.Split(part, ";") {
					if strings.TrimSpace(p2) != "" {
						kinds[c39ErrKind(p2)] = true
					}
				}
			}
			var ks []string
			for k := range kinds {
				ks = append(ks, k)
			}
			sort.Strings(ks)
			res = "(err " + strings.Join(ks, " ") + ")"
		} else {
			var parts []string
			for _, r := range rss {
				rg := &c39Ranges{}
				if r != nil && r.Resultset != nil {
					for _, row := range r.RowDatas {
						rg.add(c39RowID(row, false))
					}
				}
				parts = append(parts, rg.String())
			}
			res = "(ok " + strings.Join(parts, " ") + ")"
		}
		var fates []string
		for _, sl := range sls {
			fates = append(fates, c39Fate(sl))
		}
		return fmt.Sprintf("(%s (fates %s))", res, strings.Join(fates, " "))
	}
	return "bad"
}

// ---- generator ----

func c39R(n, l int) core.Sexp { return core.L(core.A("r"), core.I(int64(n)), core.I(int64(l))) }

var (
	c39EOF = core.L(core.A("eof"))
	c39ERR = core.L(core.A("err"))
)

// c39RowSize is len(c39Row(_, l)).
func c39RowSize(l int) int { return 9 + mysql.LenEncIntSize(uint64(l)) + l }

type c39Stream struct {
	items []core.Sexp
	rows  int // rows before the first terminal
	first int // rows of the first chunk (rows until the byte threshold is crossed), = rows if never crossed
	tag   string
}

func (st *c39Stream) sexp() core.Sexp { return core.L(st.items...) }

// c39Body builds the row runs of a stream and tells where the first chunk ends.
func c39Body(runs [][2]int) (items []core.Sexp, rows, first int) {
	const T = mysql.MaxPayloadLen
	buf := 0
	first = -1
	for _, r := range runs {
		items = append(items, c39R(r[0], r[1]))
		sz := c39RowSize(r[1])
		if first < 0 {
			// rows of this run needed to get buf > T
			need := (T-buf)/sz + 1
			if need <= r[0] {
				first = rows + need
			} else {
				buf += r[0] * sz
			}
		}
		rows += r[0]
	}
	if first < 0 {
		first = rows
	}
	return
}

func c39GenStream(g *core.Gen, big bool) *c39Stream {
	const T = mysql.MaxPayloadLen
	var runs [][2]int
	tag := "small"
	if !big {
		k := g.Intn(3)
		for i := 0; i <= k; i++ {
			n := g.Intn(5)
			if g.Intn(6) == 0 {
				n = 5 + g.Intn(40)
			}
			l := core.Pick(g, []int{0, 1, 5, 250, 251, 300, 65535, 65536, 70000})
			if g.Intn(2) == 0 {
				l = g.Intn(400)
			}
			runs = append(runs, [2]int{n, l})
		}
	} else {
		switch g.Intn(7) {
		case 0: // total exactly T-1, T, T+1 with megabyte rows, then a few more rows
			tag = "big-threshold-exact"
			l := 1000000 + g.Intn(1000)
			n := T / c39RowSize(l)
			rest := T - n*c39RowSize(l) // < one row
			// one row of exactly rest+delta bytes (13+L for L >= 65536)
			delta := core.Pick(g, []int{-1, 0, 1})
			last := rest + delta
			if last < 13+65536 {
				n--
				last += c39RowSize(l)
			}
			runs = append(runs, [2]int{n, l}, [2]int{1, last - 13}, [2]int{g.Intn(4), core.Pick(g, []int{0, 100, 1000000})})
		case 1: // several chunks of megabyte rows
			tag = "big-multi-chunk"
			l := core.Pick(g, []int{700000, 1000000, 2500000, 5000000})
			runs = append(runs, [2]int{(T/c39RowSize(l)+1)*(3+g.Intn(3))/2 + g.Intn(4), l})
		case 2: // just below the threshold: one chunk
			tag = "big-below-threshold"
			l := core.Pick(g, []int{1000000, 3000000})
			runs = append(runs, [2]int{T / c39RowSize(l), l})
		case 3: // many small rows
			tag = "big-many-rows"
			l := core.Pick(g, []int{150, 500, 2000})
			runs = append(runs, [2]int{T/c39RowSize(l) + g.Intn(3000) - 1000, l})
		case 4: // a row that alone exceeds the threshold (multi-frame packet)
			tag = "big-single-row"
			runs = append(runs, [2]int{g.Intn(3), 100}, [2]int{1, T + g.Intn(3) - 14}, [2]int{g.Intn(3), 10})
		case 5: // mixed sizes crossing the threshold
			tag = "big-mixed"
			runs = append(runs, [2]int{3 + g.Intn(5), 2000000}, [2]int{g.Intn(2000), 300}, [2]int{2 + g.Intn(8), 1500000}, [2]int{g.Intn(5), 0})
		default: // threshold crossed by the very last row
			tag = "big-cross-on-last-row"
			l := 1000000
			runs = append(runs, [2]int{T/c39RowSize(l) + 1, l})
		}
	}
	st := &c39Stream{tag: tag}
	st.items, st.rows, st.first = c39Body(runs)
	switch g.Intn(10) {
	case 0:
		st.items = append(st.items, c39ERR)
		st.tag += "+err"
	case 1: // connection lost
		st.tag += "+cut"
	case 2: // terminal in the middle: the rows after it are not part of the result
		if len(st.items) > 1 {
			k := 1 + g.Intn(len(st.items)-1)
			t := c39EOF
			if g.Intn(2) == 0 {
				t = c39ERR
			}
			items := append([]core.Sexp{}, st.items[:k]...)
			items = append(items, t)
			items = append(items, st.items[k:]...)
			// recompute the counts for the part before the terminal
			var runs2 [][2]int
			for _, it := range st.items[:k] {
				runs2 = append(runs2, [2]int{int(it.Nth(1).Int()), int(it.Nth(2).Int())})
			}
			_, st.rows, st.first = c39Body(runs2)
			st.items = items
			st.tag += "+junk-after-end"
		} else {
			st.items = append(st.items, c39EOF)
		}
	default:
		st.items = append(st.items, c39EOF)
	}
	return st
}

// c39GenChunks is a complete result of exactly `chunks` reader chunks (chunks-½
// thresholds of megabyte rows): every pending chunk has to be fetched, not only the
// first one after the threshold.
func c39GenChunks(g *core.Gen, chunks int) *c39Stream {
	const T = mysql.MaxPayloadLen
	l := core.Pick(g, []int{2500000, 5000000})
	n := (T/c39RowSize(l) + 1) * (2*chunks - 1) / 2
	st := &c39Stream{tag: fmt.Sprintf("big-%d-chunks", chunks)}
	st.items, st.rows, st.first = c39Body([][2]int{{n, l}, {g.Intn(3), 10}})
	st.items = append(st.items, c39EOF)
	return st
}

// c39Limits returns row limits around what matters for a stream.
func c39Limit(g *core.Gen, st *c39Stream) int {
	cands := []int{-1, -1, st.rows - 1, st.rows, st.rows + 1, st.first - 1, st.first, st.first + 1, (st.first + st.rows) / 2, 1, 10000}
	m := core.Pick(g, cands)
	if m <= 0 {
		m = -1
	}
	return m
}

func genC39(g *core.Gen) {
	limTag := func(st *c39Stream, m int) string {
		switch {
		case m <= 0:
			return "limit-none"
		case m == st.rows:
			return "limit-exact"
		case m == st.rows-1:
			return "limit-one-below"
		case m < st.rows:
			return "limit-below"
		}
		return "limit-above"
	}
	emit := func(op string, st *c39Stream, m int) {
		switch op {
		case "dc":
			g.Emit(core.L(core.A("dc"), core.I(int64(m)), st.sexp()), "dc", st.tag, limTag(st, m))
		case "un":
			bin := g.Intn(3) == 0
			proto := "un-text"
			if bin {
				proto = "un-binary"
			}
			g.Emit(core.L(core.A("un"), core.I(int64(m)), core.B(bin), st.sexp()), "un", proto, st.tag, limTag(st, m))
		}
	}
	nSmall := g.Scale(500, 4000)
	for i := 0; i < nSmall; i++ {
		st := c39GenStream(g, false)
		emit(core.Pick(g, []string{"dc", "un", "un"}), st, c39Limit(g, st))
	}
	nBig := g.Scale(14, 40)
	for i := 0; i < nBig; i++ {
		st := c39GenStream(g, true)
		emit(core.Pick(g, []string{"dc", "un", "un", "un"}), st, c39Limit(g, st))
	}
	// sharded statements
	nSh := g.Scale(300, 2000)
	for i := 0; i < nSh; i++ {
		k := 1 + g.Intn(4)
		var shards []core.Sexp
		var sts []*c39Stream
		for j := 0; j < k; j++ {
			st := c39GenStream(g, false)
			if g.Intn(3) != 0 { // mostly complete results
				st = c39GenStream(g, false)
			}
			sts = append(sts, st)
			shards = append(shards, st.sexp())
		}
		m := c39Limit(g, core.Pick(g, sts))
		g.Emit(core.L(core.A("sh"), core.I(int64(m)), core.L(shards...)), "sh", fmt.Sprintf("sh-%d-shards", k))
	}
	// three and four chunks per shard, on every path, in every run
	for _, chunks := range []int{3, 4} {
		st := c39GenChunks(g, chunks)
		emit("dc", st, -1)
		emit("un", st, -1)
		g.Emit(core.L(core.A("sh"), core.I(-1), core.L(st.sexp())), "sh", "sh-big", st.tag)
		st2 := c39GenChunks(g, chunks)
		g.Emit(core.L(core.A("sh"), core.I(-1), core.L(c39GenStream(g, false).sexp(), st2.sexp())), "sh", "sh-big", st2.tag)
	}
	genC39Ses(g)
	nShBig := g.Scale(4, 12)
	for i := 0; i < nShBig; i++ {
		k := 1 + g.Intn(3)
		var shards []core.Sexp
		var sts []*c39Stream
		for j := 0; j < k; j++ {
			st := c39GenStream(g, j == 0 || g.Intn(3) == 0)
			sts = append(sts, st)
			shards = append(shards, st.sexp())
		}
		m := c39Limit(g, sts[0])
		g.Emit(core.L(core.A("sh"), core.I(int64(m)), core.L(shards...)), "sh", "sh-big", sts[0].tag)
	}
}
