package props

import (
	"encoding/json"
	"fmt"
	"math/big"
	"sort"
	"strconv"
	"strings"
	"sync"
	"time"

	"gaeaverif/harness/core"

	"github.com/XiaoMi/Gaea/log"
	"github.com/XiaoMi/Gaea/models"
	"github.com/XiaoMi/Gaea/parser"
	"github.com/XiaoMi/Gaea/parser/ast"
	"github.com/XiaoMi/Gaea/parser/format"
	"github.com/XiaoMi/Gaea/parser/tidb-types"
	driver "github.com/XiaoMi/Gaea/parser/tidb-types/parser_driver"
	"github.com/XiaoMi/Gaea/proxy/plan"
	"github.com/XiaoMi/Gaea/proxy/router"
	"github.com/XiaoMi/Gaea/proxy/sequence"
	"github.com/XiaoMi/Gaea/util"
)

// C03 — INSERT / REPLACE on sharded and global tables (proxy/plan/plan_insert.go).
//
// Line: (ins RULE SHARDCOL SEQ STMT TYPE (fti (KEY PLACE)…))
//   RULE  (rule ks|mycat|global DB (slices…) (idxs…) (t2s (idx slice)…) (dbs…))   the layout the real rule reports
//   SEQ   n | (seq PK START FAILAT|n (PLACE…))        PLACE = FindTableIndex(START+n): <int> | e | p
//   STMT  (stmt (x RULENAME SQLHEX FLAGS) HASSELECT SETMODE (cols…) (rows (CELL…)…) (ondup…) SCHEMA TABLE)
//         FLAGS r<t|f>i<t|f>p<n>d<n>: REPLACE, IGNORE, priority, number of ON DUPLICATE KEY UPDATE assignments
//   CELL  (l TXTHEX PLACE VAL) | n | nv | (x TXTHEX)   as /repo's parser delivers the cell
//   VAL   (i N) Int64 | (u N) Uint64 | (s HEX) string/bytes | (o KIND) any other kind of literal (hex, bit, decimal, float)
//   TYPE  rule.GetType() (hash, mod, range, date_year, …, mycat_murmur, global)
//   fti   FindTableIndex of the real rule on the values a backend column holds for the sharding literals written
//         another way: KEY (i N) int64 | (u N) uint64 | (s HEX) string. For the integer literal n the string of its
//         decimal digits (a string column stores it so), for a string literal that MySQL reads as an integer n
//         (white space, sign, digits, white space) the number n (an integer column stores it so); the same for the
//         values of the global sequence. The Lean oracle computes these keys itself and looks their placement up here.
// Exec only reads RULENAME, SQLHEX and SEQ; everything else is what the parser
// and the real rule report about the statement at generation time (the model
// is parametric in them, as the routing model of C01 is).

type insRule struct {
	name    string
	db      string
	table   string
	key     string
	shard   string
	dateFmt string // "" | y | m | d
	limit   int
	tables  int
	global  bool
}

var insRules = []insRule{
	{name: "h4", db: "db_ks", table: "t_h4", key: "k", shard: `{"db":"db_ks","table":"t_h4","type":"hash","key":"k","locations":[2,2],"slices":["slice-0","slice-1"]}`},
	{name: "m3", db: "db_ks", table: "t_m3", key: "k", shard: `{"db":"db_ks","table":"t_m3","type":"mod","key":"k","locations":[1,2],"slices":["slice-1","slice-2"]}`},
	{name: "r4", db: "db_ks", table: "t_r4", key: "k", limit: 100, tables: 4, shard: `{"db":"db_ks","table":"t_r4","type":"range","key":"k","locations":[2,2],"slices":["slice-0","slice-1"],"table_row_limit":100}`},
	{name: "r1", db: "db_ks", table: "t_r1", key: "k", limit: 1, tables: 3, shard: `{"db":"db_ks","table":"t_r1","type":"range","key":"k","locations":[3],"slices":["slice-2"],"table_row_limit":1}`},
	{name: "one", db: "db_ks", table: "t_one", key: "k", shard: `{"db":"db_ks","table":"t_one","type":"hash","key":"k","locations":[1],"slices":["slice-1"]}`},
	{name: "yr", db: "db_ks", table: "t_yr", key: "k", dateFmt: "y", shard: `{"db":"db_ks","table":"t_yr","type":"date_year","key":"k","slices":["slice-0","slice-1"],"date_range":["2014-2016","2018-2019"]}`},
	{name: "mo", db: "db_ks", table: "t_mo", key: "k", dateFmt: "m", shard: `{"db":"db_ks","table":"t_mo","type":"date_month","key":"k","slices":["slice-0","slice-2"],"date_range":["201511-201602","201603-201604"]}`},
	{name: "dy", db: "db_ks", table: "t_dy", key: "k", dateFmt: "d", shard: `{"db":"db_ks","table":"t_dy","type":"date_day","key":"k","slices":["slice-1","slice-0"],"date_range":["20151230-20160102","20160228-20160301"]}`},
	{name: "lk", db: "db_ks", table: "t_r4_child", key: "pk", limit: 100, tables: 4, shard: `{"db":"db_ks","table":"t_r4_child","type":"linked","key":"pk","parent_table":"t_r4"}`},
	{name: "mmod", db: "db_mycat", table: "t_mmod", key: "k", shard: `{"db":"db_mycat","table":"t_mmod","type":"mycat_mod","key":"k","locations":[2,2],"slices":["slice-0","slice-1"],"databases":["db_mycat_[0-3]"]}`},
	{name: "mlong", db: "db_mycat", table: "t_mlong", key: "k", shard: `{"db":"db_mycat","table":"t_mlong","type":"mycat_long","key":"k","locations":[1,3],"slices":["slice-2","slice-1"],"databases":["db_mycat_[0-3]"],"partition_count":"4","partition_length":"256"}`},
	{name: "mmur", db: "db_mycat", table: "t_mmur", key: "k", shard: `{"db":"db_mycat","table":"t_mmur","type":"mycat_murmur","key":"k","locations":[2,2],"slices":["slice-0","slice-1"],"databases":["db_mycat_0","db_mycat_1","db_mycat_2","db_mycat_3"],"seed":"0","virtual_bucket_times":"160"}`},
	{name: "mstr", db: "db_mycat", table: "t_mstr", key: "k", shard: `{"db":"db_mycat","table":"t_mstr","type":"mycat_string","key":"k","locations":[2,2],"slices":["slice-0","slice-1"],"databases":["db_mycat_[0-3]"],"partition_count":"4","partition_length":"256","hash_slice":"20"}`},
	{name: "mpad", db: "db_mycat", table: "t_mpad", key: "k", shard: `{"db":"db_mycat","table":"t_mpad","type":"mycat_padding_mod","key":"k","locations":[2,2],"slices":["slice-0","slice-1"],"databases":["db_mycat_[0-3]"],"pad_from":"0","pad_length":"6","mod_begin":"3","mod_end":"6"}`},
	{name: "lkh", db: "db_ks", table: "t_h4_child", key: "pk", shard: `{"db":"db_ks","table":"t_h4_child","type":"linked","key":"pk","parent_table":"t_h4"}`},
	{name: "gks", db: "db_ks", table: "t_gks", key: "k", global: true, shard: `{"db":"db_ks","table":"t_gks","type":"global","locations":[2,2],"slices":["slice-0","slice-1"]}`},
	{name: "gmy", db: "db_mycat", table: "t_gmy", key: "k", global: true, shard: `{"db":"db_mycat","table":"t_gmy","type":"global","locations":[1,2],"slices":["slice-2","slice-0"],"databases":["db_mycat_[0-2]"]}`},
}

func insSliceJSON(names ...string) string {
	var out []string
	for i, n := range names {
		out = append(out, fmt.Sprintf(`{"name":"%s","user_name":"root","password":"root","master":"127.0.0.1:%d","capacity":4,"max_capacity":8,"idle_timeout":3600}`, n, 3306+i))
	}
	return strings.Join(out, ",")
}

func insNamespace(shards []string, slices []string) string {
	return `{"name":"ns_ins","online":true,"allowed_dbs":{"db_ks":true,"db_mycat":true},"default_phy_dbs":{"db_ks":"db_ks","db_mycat":"db_mycat_0"},
"slices":[` + insSliceJSON(slices...) + `],
"shard_rules":[` + strings.Join(shards, ",") + `],"users":[{"user_name":"u","password":"p","namespace":"ns_ins","rw_flag":2,"rw_split":1}],"default_slice":"` + slices[0] + `"}`
}

// nullLogger silences the proxy's logger in the harness process.
type nullLogger struct{}

func (nullLogger) SetLevel(name, level string) error                    { return nil }
func (nullLogger) Debug(format string, a ...interface{}) error          { return nil }
func (nullLogger) Trace(format string, a ...interface{}) error          { return nil }
func (nullLogger) Notice(format string, a ...interface{}) error         { return nil }
func (nullLogger) Warn(format string, a ...interface{}) error           { return nil }
func (nullLogger) Fatal(format string, a ...interface{}) error          { return nil }
func (nullLogger) Debugx(logID, format string, a ...interface{}) error  { return nil }
func (nullLogger) Tracex(logID, format string, a ...interface{}) error  { return nil }
func (nullLogger) Noticex(logID, format string, a ...interface{}) error { return nil }
func (nullLogger) Warnx(logID, format string, a ...interface{}) error   { return nil }
func (nullLogger) Fatalx(logID, format string, a ...interface{}) error  { return nil }
func (nullLogger) Close()                                               {}
func (nullLogger) Dropped(i int) uint64                                 { return 0 }

var (
	insOnce   sync.Once
	insRouter *router.Router
	insErr    error
)

func insGetRouter() (*router.Router, error) {
	insOnce.Do(func() {
		log.SetGlobalLogger(nullLogger{})
		var shards []string
		for _, r := range insRules {
			shards = append(shards, r.shard)
		}
		ns := &models.Namespace{}
		if err := json.Unmarshal([]byte(insNamespace(shards, []string{"slice-0", "slice-1", "slice-2"})), ns); err != nil {
			insErr = err
			return
		}
		insRouter, insErr = router.NewRouter(ns)
	})
	return insRouter, insErr
}

func insRuleByName(name string) *insRule {
	for i := range insRules {
		if insRules[i].name == name {
			return &insRules[i]
		}
	}
	return nil
}

// insIdent renders an identifier atom ("" travels as "-").
func insIdent(s string) core.Sexp {
	if s == "" {
		return core.A("-")
	}
	return core.A(s)
}

func insIdents(xs []string) core.Sexp {
	out := make([]core.Sexp, len(xs))
	for i, x := range xs {
		out[i] = insIdent(x)
	}
	return core.L(out...)
}

func insRestore(n ast.Node) string {
	sb := &strings.Builder{}
	if err := n.Restore(format.NewRestoreCtx(format.EscapeRestoreFlags, sb)); err != nil {
		return "<restore-error>"
	}
	return sb.String()
}

// insLayout reads the layout of a real rule.
func insLayout(rule router.Rule) core.Sexp {
	kind := "ks"
	if rule.GetType() == router.GlobalTableRuleType {
		kind = "global"
	} else if router.IsMycatShardingRule(rule.GetType()) {
		kind = "mycat"
	}
	idxs := rule.GetSubTableIndexes()
	var t2s []core.Sexp
	for _, i := range idxs {
		if s := rule.GetSliceIndexFromTableIndex(i); s != -1 {
			t2s = append(t2s, core.L(core.I(int64(i)), core.I(int64(s))))
		}
	}
	var dbs []string
	if mr, ok := rule.(router.MycatRule); ok {
		dbs = mr.GetDatabases()
	}
	return core.L(core.A("rule"), core.A(kind), insIdent(rule.GetDB()), insIdents(rule.GetSlices()), core.Ints(idxs), core.L(t2s...), insIdents(dbs))
}

func insPlace(rule router.Rule, key interface{}) (s core.Sexp) {
	defer func() {
		if e := recover(); e != nil {
			s = core.A("p")
		}
	}()
	idx, err := rule.FindTableIndex(key)
	if err != nil {
		return core.A("e")
	}
	return core.I(int64(idx))
}

// insLitVal renders the value of a literal as the parser delivers it.
func insLitVal(x *driver.ValueExpr) (core.Sexp, string) {
	switch x.Kind() {
	case types.KindInt64:
		return core.L(core.A("i"), core.I(x.GetInt64())), "int"
	case types.KindUint64:
		return core.L(core.A("u"), core.A(strconv.FormatUint(x.GetUint64(), 10))), "uint"
	case types.KindString, types.KindBytes:
		return core.L(core.A("s"), core.Text(x.GetString())), "str"
	}
	return core.L(core.A("o"), core.I(int64(x.Kind()))), fmt.Sprintf("kind%d", x.Kind())
}

// insMySQLInt is the integer MySQL reads from a string stored in an integer
// column when the string has the syntax of an integer: white space, an
// optional sign, digits, white space (strict mode accepts it without a
// warning). ok=false: another syntax (not modelled: fractions and exponents
// are rounded, anything else is refused in strict mode).
func insMySQLInt(s string) (*big.Int, bool) {
	t := strings.Trim(s, " \t\n\v\f\r")
	d := t
	if d != "" && (d[0] == '+' || d[0] == '-') {
		d = d[1:]
	}
	if d == "" {
		return nil, false
	}
	for i := 0; i < len(d); i++ {
		if d[i] < '0' || d[i] > '9' {
			return nil, false
		}
	}
	n, ok := new(big.Int).SetString(t, 10)
	return n, ok
}

// insAltKeys: the values a backend column holds for the literal when it is
// not of the literal's own type (see the comment on the line format).
func insAltKeys(x *driver.ValueExpr) (keys []core.Sexp, vals []interface{}) {
	switch x.Kind() {
	case types.KindInt64:
		t := strconv.FormatInt(x.GetInt64(), 10)
		return []core.Sexp{core.L(core.A("s"), core.Text(t))}, []interface{}{t}
	case types.KindUint64:
		t := strconv.FormatUint(x.GetUint64(), 10)
		return []core.Sexp{core.L(core.A("s"), core.Text(t))}, []interface{}{t}
	case types.KindString, types.KindBytes:
		n, ok := insMySQLInt(x.GetString())
		if !ok {
			return nil, nil
		}
		if n.IsInt64() {
			return []core.Sexp{core.L(core.A("i"), core.I(n.Int64()))}, []interface{}{n.Int64()}
		}
		if n.IsUint64() {
			return []core.Sexp{core.L(core.A("u"), core.A(n.String()))}, []interface{}{n.Uint64()}
		}
	}
	return nil, nil
}

func insCell(rule router.Rule, e ast.ExprNode) (core.Sexp, string) {
	switch x := e.(type) {
	case *driver.ValueExpr:
		if x.Kind() == types.KindNull {
			return core.A("n"), "null"
		}
		val, kind := insLitVal(x)
		v, err := util.GetValueExprResult(x)
		if err != nil {
			return core.L(core.A("l"), core.Text(insRestore(e)), core.A("e"), val), kind
		}
		return core.L(core.A("l"), core.Text(insRestore(e)), insPlace(rule, v), val), kind
	case *ast.FuncCallExpr:
		if x.FnName.L == "nextval" {
			return core.A("nv"), "nextval"
		}
	}
	return core.L(core.A("x"), core.Text(insRestore(e))), fmt.Sprintf("%T", e)
}

type insSeq struct {
	pk     string
	start  int64
	failAt int // -1: never
	n      int
}

// InsSeq makes the sequence description InsLine takes (failAt -1: never fails).
func InsSeq(pk string, start int64, failAt int) *insSeq {
	return &insSeq{pk: pk, start: start, failAt: failAt}
}

// InsExec runs the real planner on a line (for harness/cmd/c03line).
func InsExec(in core.Sexp) (out string) {
	defer func() {
		if e := recover(); e != nil {
			out = "panic"
		}
	}()
	return execC03(in)
}

func (s *insSeq) GetPKName() string { return s.pk }
func (s *insSeq) NextSeq() (int64, error) {
	if s.n == s.failAt {
		s.n++
		return 0, fmt.Errorf("sequence backend down")
	}
	v := s.start + int64(s.n)
	s.n++
	return v, nil
}

// InsLine builds the input line for one statement (also used to write corpus
// cases): it parses the statement with /repo's parser and asks the real rule
// for the placement of every literal. ok=false: the text is not an INSERT the
// parser accepts.
func InsLine(ruleName, sql string, seq *insSeq) (core.Sexp, []string, bool) {
	rt, err := insGetRouter()
	if err != nil {
		panic(err)
	}
	r := insRuleByName(ruleName)
	rule := rt.GetRule(r.db, r.table)
	node, err := parser.ParseSQL(sql)
	if err != nil {
		return core.Sexp{}, nil, false
	}
	stmt, ok := node.(*ast.InsertStmt)
	if !ok {
		return core.Sexp{}, nil, false
	}
	var tags []string
	setMode := len(stmt.Setlist) != 0
	var cols []string
	var rows []core.Sexp
	shardCells := map[string]bool{}
	noteShard := func(colNames []string, kinds []string) {
		for i := len(colNames) - 1; i >= 0; i-- {
			if colNames[i] == rule.GetShardingColumn() {
				if i < len(kinds) {
					shardCells[kinds[i]] = true
				}
				return
			}
		}
	}
	// FindTableIndex on the other spellings of the sharding literals
	var fti []core.Sexp
	ftiSeen := map[string]bool{}
	ftiAdd := func(keys []core.Sexp, vals []interface{}) {
		for i, k := range keys {
			if ks := k.String(); !ftiSeen[ks] {
				ftiSeen[ks] = true
				fti = append(fti, core.L(k, insPlace(rule, vals[i])))
			}
		}
	}
	ftiCell := func(col string, e ast.ExprNode) {
		if x, ok := e.(*driver.ValueExpr); ok && col == rule.GetShardingColumn() {
			ftiAdd(insAltKeys(x))
		}
	}
	if setMode {
		var cells []core.Sexp
		var kinds []string
		for _, a := range stmt.Setlist {
			cols = append(cols, a.Column.Name.L)
			ftiCell(a.Column.Name.L, a.Expr)
			c, k := insCell(rule, a.Expr)
			cells = append(cells, c)
			kinds = append(kinds, k)
		}
		noteShard(cols, kinds)
		rows = append(rows, core.L(cells...))
	} else {
		for _, c := range stmt.Columns {
			cols = append(cols, c.Name.L)
		}
		for _, l := range stmt.Lists {
			var cells []core.Sexp
			var kinds []string
			for j, e := range l {
				if j < len(cols) {
					ftiCell(cols[j], e)
				}
				c, k := insCell(rule, e)
				cells = append(cells, c)
				kinds = append(kinds, k)
			}
			noteShard(cols, kinds)
			rows = append(rows, core.L(cells...))
		}
	}
	var ondup []string
	for _, a := range stmt.OnDuplicate {
		ondup = append(ondup, a.Column.Name.L)
	}
	schema, table := "", ""
	if stmt.Table != nil && stmt.Table.TableRefs != nil {
		if ts, ok := stmt.Table.TableRefs.Left.(*ast.TableSource); ok {
			if tn, ok := ts.Source.(*ast.TableName); ok {
				schema, table = tn.Schema.O, tn.Name.O
			}
		}
	}
	seqS := core.A("n")
	if seq != nil {
		var places []core.Sexp
		for i := 0; i <= len(rows); i++ {
			places = append(places, insPlace(rule, seq.start+int64(i)))
			if seq.pk == rule.GetShardingColumn() {
				t := strconv.FormatInt(seq.start+int64(i), 10)
				ftiAdd([]core.Sexp{core.L(core.A("s"), core.Text(t))}, []interface{}{t})
			}
		}
		fa := core.A("n")
		if seq.failAt >= 0 {
			fa = core.I(int64(seq.failAt))
		}
		seqS = core.L(core.A("seq"), insIdent(seq.pk), core.I(seq.start), fa, core.L(places...))
		tags = append(tags, "seq=pk:"+map[bool]string{true: "shardcol", false: "other"}[seq.pk == rule.GetShardingColumn()])
	} else {
		tags = append(tags, "seq=none")
	}
	var ks []string
	for k := range shardCells {
		ks = append(ks, k)
	}
	sort.Strings(ks)
	for _, k := range ks {
		tags = append(tags, "shardcell="+strings.TrimPrefix(k, "*ast."))
	}
	in := core.L(core.A("ins"), insLayout(rule), insIdent(rule.GetShardingColumn()), seqS,
		core.L(core.A("stmt"), core.L(core.A("x"), core.A(ruleName), core.Text(sql), core.A(insFlags(stmt))), core.B(stmt.Select != nil), core.B(setMode),
			insIdents(cols), core.L(rows...), insIdents(ondup), insIdent(schema), insIdent(table)),
		core.A(rule.GetType()), core.L(append([]core.Sexp{core.A("fti")}, fti...)...))
	return in, tags, true
}

// literal universe of a rule for the sharding column (SQL text of the cell)
func insShardLits(g *core.Gen, r *insRule) string {
	if r.dateFmt != "" {
		years := []int{2013, 2014, 2015, 2016, 2017, 2018, 2019, 2020}
		y := core.Pick(g, years)
		t := time.Date(y, time.Month(1+g.Intn(12)), 1+g.Intn(28), g.Intn(24), g.Intn(60), g.Intn(60), 0, time.UTC)
		switch g.Intn(8) {
		case 0:
			t = time.Date(y, 1, 1, 0, 0, 0, 0, time.UTC)
		case 1:
			t = time.Date(y, 12, 31, 23, 59, 59, 0, time.UTC)
		case 2:
			t = time.Date(2015, time.Month(10+g.Intn(3)), 1+g.Intn(28), 0, 0, 0, 0, time.UTC).AddDate(0, g.Intn(7), 0)
		case 3:
			t = time.Date(2015, 12, 29, 12, 0, 0, 0, time.UTC).AddDate(0, 0, g.Intn(6))
		case 4:
			t = time.Date(2016, 2, 27, 12, 0, 0, 0, time.UTC).AddDate(0, 0, g.Intn(5))
		}
		switch g.Intn(6) {
		case 0:
			return "'" + t.Format("2006-01-02") + "'"
		case 1:
			return strconv.FormatInt(t.Unix(), 10)
		}
		return "'" + t.Format("2006-01-02 15:04:05") + "'"
	}
	var v int64
	if r.limit > 0 {
		n := int64(r.tables * r.limit)
		switch g.Intn(4) {
		case 0:
			j := int64(g.Intn(r.tables + 1))
			v = j*int64(r.limit) + int64(g.Intn(3)) - 1
		case 1:
			v = core.Pick(g, []int64{0, 1, n - 1, n, n + 1, n + 100, 1 << 40})
		default:
			v = int64(g.Intn(int(n)))
		}
		if v < 0 {
			v = 0
		}
	} else {
		v = core.Pick(g, []int64{0, 1, 2, 3, 4, 5, 7, 8, 15, 16, 255, 256, 257, 1023, 1024, 1025, 4095, 100000, 1 << 31, 1 << 40, 9223372036854775807})
		if g.Intn(2) == 0 {
			v = int64(g.Intn(5000))
		}
	}
	if g.Intn(12) == 0 {
		return "'" + strconv.FormatInt(v, 10) + "'"
	}
	if g.Intn(40) == 0 {
		return "18446744073709551615" // uint64 literal
	}
	return strconv.FormatInt(v, 10)
}

// sharding values the proxy does not evaluate, or evaluates to something unroutable
var insBadShardCells = []string{"-5", "2+1", "abs(-3)", "NULL", "1.5e0", "1.5", "a", "nextval()", "'abc'", "-1", "(7)", "now()", "DEFAULT", "1 = 1", "NOT 1", "b'101'", "0x1F", "TRUE", "''"}

// literals of other kinds and strings MySQL reads as numbers: the value the column
// holds is not the value GetValueExprResult gives for them
var insOddShardCells = []string{"'007'", "' 7'", "'7 '", "'+7'", "'-7'", "'7.0'", "'1e1'", "'.5'", "'7.'", "0x10", "x'10'", "X'0A'", "b'101'", "0b11", "1.5", "7.0", "1e1",
	"TRUE", "FALSE", "_utf8'7'", "N'12'", "'12' '3'", "'\\t7'", "'7\\n'", "' 0012 '", "'18446744073709551615'", "'9223372036854775808'", "'-9223372036854775808'",
	"'99999999999999999999'", "'+'", "'-'", "' '", "'7e'", "'e7'", "'0x10'", "'1 2'", "'- 7'", "'++7'", "'7e+'", "'7E-2'", "'\\07'", "'٧'",
	"' 2016-01-01'", "'2016-01-01 '", "'20160101'", "'2016-1-1'", "2016.5", "20160101", "'201512'", "'151231'"}

// insRespell writes a routable literal another way: the same number for MySQL
func insRespell(g *core.Gen, lit string) string {
	if strings.HasPrefix(lit, "'") {
		body := strings.Trim(lit, "'")
		return core.Pick(g, []string{"' " + body + "'", "'" + body + " '", "'00" + body + "'", "'+" + body + "'", "'" + body + ".0'", "'\\t" + body + "'", "_utf8'" + body + "'"})
	}
	if n, err := strconv.ParseUint(lit, 10, 64); err == nil {
		return core.Pick(g, []string{"'00" + lit + "'", "' " + lit + "'", "'" + lit + " '", "'+" + lit + "'", "'" + lit + ".0'", lit + ".0", fmt.Sprintf("0x%X", n), "00" + lit, "'" + lit + "e0'", "'-" + lit + "'", lit + "e0"})
	}
	return lit
}

var insOtherCells = []string{"1", "2", "'x'", "NULL", "-7", "3+4", "now()", "'it''s'", "0", "1.25", "'a,b'", "'(1),(2)'"}

func genC03(g *core.Gen) {
	if _, err := insGetRouter(); err != nil {
		panic(err)
	}
	n := g.Scale(5000, 60000)
	for i := 0; i < n; i++ {
		r := &insRules[g.Intn(len(insRules))]
		mode := "values"
		if g.Intn(6) == 0 {
			mode = "set"
		}
		// column list
		cols := []string{r.key, "a"}
		if g.Intn(2) == 0 {
			cols = append(cols, "b")
		}
		var seq *insSeq
		if g.Intn(4) == 0 {
			seq = &insSeq{pk: "sid", start: int64(core.Pick(g, []int{1, 99, 100, 101, 399, 400, 4095, 1451606399, 1451606400})), failAt: -1}
			if g.Intn(3) == 0 && !r.global {
				seq.pk = r.key
			}
			if g.Intn(12) == 0 {
				seq.failAt = g.Intn(3)
			}
			if seq.pk == "sid" && g.Intn(2) == 0 {
				cols = append(cols, "sid")
			}
		}
		g.Rand.Shuffle(len(cols), func(a, b int) { cols[a], cols[b] = cols[b], cols[a] })
		shape := "plain"
		switch g.Intn(40) {
		case 0: // no sharding column
			shape = "no-shardcol"
			var cs []string
			for _, c := range cols {
				if c != r.key {
					cs = append(cs, c)
				}
			}
			cols = cs
		case 1: // sharding column twice
			shape = "dup-shardcol"
			cols = append(cols, r.key)
		case 2:
			shape = "upper-shardcol"
			for j := range cols {
				if cols[j] == r.key {
					cols[j] = strings.ToUpper(cols[j])
				}
			}
		}
		nrows := 1
		if mode == "values" {
			nrows = 1 + g.Intn(6)
			if g.Intn(4) == 0 {
				nrows = 1
			}
		}
		badRate := core.Pick(g, []int{0, 0, 0, 0, 10, 10, 4, 2}) // one in badRate sharding cells is not a routable literal
		oddRate := core.Pick(g, []int{0, 0, 0, 8, 4, 2, 1})       // one in oddRate is a literal written another way
		odd := false
		var rows [][]string
		for j := 0; j < nrows; j++ {
			var cells []string
			for _, c := range cols {
				switch {
				case strings.EqualFold(c, r.key):
					switch {
					case badRate > 0 && g.Intn(badRate) == 0:
						cells = append(cells, core.Pick(g, insBadShardCells))
					case oddRate > 0 && g.Intn(oddRate) == 0:
						if g.Intn(2) == 0 {
							cells = append(cells, core.Pick(g, insOddShardCells))
						} else {
							cells = append(cells, insRespell(g, insShardLits(g, r)))
						}
						odd = true
					default:
						cells = append(cells, insShardLits(g, r))
					}
				case c == "sid":
					cells = append(cells, core.Pick(g, []string{"nextval()", "NULL", "17", "nextval()", "5+5"}))
				default:
					cells = append(cells, core.Pick(g, insOtherCells))
				}
			}
			rows = append(rows, cells)
		}
		if seq != nil && seq.pk == r.key && g.Intn(2) == 0 {
			// the sharding key itself comes from the sequence
			for j := range rows {
				for k, c := range cols {
					if strings.EqualFold(c, r.key) && g.Intn(3) != 0 {
						rows[j][k] = core.Pick(g, []string{"nextval()", "NULL"})
					}
				}
			}
		}
		if mode == "values" && g.Intn(25) == 0 && len(rows) > 0 { // ragged row
			shape = "ragged"
			j := g.Intn(len(rows))
			if g.Intn(2) == 0 && len(rows[j]) > 0 {
				rows[j] = rows[j][:len(rows[j])-1]
			} else {
				rows[j] = append(rows[j], "9")
			}
		}
		// spelling of table and columns
		tbl := r.table
		qual := g.Intn(8)
		if qual == 0 {
			tbl = r.db + "." + r.table
		}
		colSQL := make([]string, len(cols))
		for j, c := range cols {
			colSQL[j] = c
			switch g.Intn(14) {
			case 0:
				colSQL[j] = r.table + "." + c
			case 1:
				colSQL[j] = r.db + "." + r.table + "." + c
			case 2:
				colSQL[j] = "`" + c + "`"
			case 3:
				colSQL[j] = "`" + r.table + "`.`" + strings.ToUpper(c) + "`"
			}
		}
		verb := core.Pick(g, []string{"INSERT INTO", "INSERT INTO", "INSERT INTO", "REPLACE INTO", "INSERT IGNORE INTO", "REPLACE", "INSERT", "INSERT LOW_PRIORITY IGNORE INTO",
			"INSERT HIGH_PRIORITY INTO", "REPLACE LOW_PRIORITY INTO", "INSERT DELAYED INTO", "insert into", "replace into"})
		var sql string
		if mode == "set" {
			var as []string
			for j, c := range colSQL {
				as = append(as, c+"="+rows[0][j])
			}
			if len(as) == 0 {
				continue
			}
			sql = verb + " " + tbl + " SET " + strings.Join(as, ", ")
		} else {
			var rs []string
			for _, row := range rows {
				rs = append(rs, "("+strings.Join(row, ",")+")")
			}
			colList := " (" + strings.Join(colSQL, ",") + ")"
			if g.Intn(60) == 0 {
				colList = ""
				shape = "no-collist"
			}
			sql = verb + " " + tbl + colList + " " + core.Pick(g, []string{"VALUES", "VALUES", "VALUES", "VALUE", "values"}) + " " + strings.Join(rs, ",")
			if g.Intn(60) == 0 {
				sql = verb + " " + tbl + colList + " " + core.Pick(g, []string{"SELECT 1,2", "SELECT " + r.key + ",a FROM " + r.table, "SELECT * FROM t_src WHERE " + r.key + "=1",
					"(SELECT 1,2)", "SELECT 1,2 UNION SELECT 3,4", "SELECT " + strings.Join(rows[0], ",")})
				shape = "insert-select"
			}
		}
		if !strings.HasPrefix(verb, "REPLACE") {
			switch g.Intn(12) {
			case 0:
				sql += " ON DUPLICATE KEY UPDATE a=a+1"
			case 1:
				sql += " ON DUPLICATE KEY UPDATE " + r.table + ".b=2, a=3"
			case 2:
				// an assignment to the sharding column, in every spelling of the column and of the value
				k := core.Pick(g, []string{r.key, strings.ToUpper(r.key), "`" + r.key + "`", r.table + "." + r.key, r.db + "." + r.table + "." + r.key, "`" + r.table + "`.`" + strings.ToUpper(r.key) + "`", "other." + r.key})
				v := core.Pick(g, []string{"2", "VALUES(" + r.key + ")", "VALUES(a)", "values(`" + r.key + "`)", "VALUES(" + r.table + "." + r.key + ")", r.key, r.key + "+1", "NULL", "DEFAULT", "'x'", "(SELECT 1)"})
				as := []string{k + "=" + v}
				if g.Intn(2) == 0 {
					as = append(as, "a=1")
				}
				if g.Intn(2) == 0 {
					as = append(as, "b=VALUES(b)")
				}
				g.Rand.Shuffle(len(as), func(x, y int) { as[x], as[y] = as[y], as[x] })
				sql += " ON DUPLICATE KEY UPDATE " + strings.Join(as, ", ")
				shape = "ondup-shardcol"
			case 3:
				// the sharding column only on the right-hand side: harmless
				sql += " ON DUPLICATE KEY UPDATE a=VALUES(" + r.key + "), b=" + r.key + "+1"
			}
		}
		in, tags, ok := InsLine(r.name, sql, seq)
		if !ok {
			continue
		}
		tags = append(tags, "rule="+r.name, "mode="+mode, "shape="+shape, fmt.Sprintf("rows=%d", len(rows)), fmt.Sprintf("odd=%v", odd))
		g.Emit(in, tags...)
	}
}

func insSeqFromSexp(s core.Sexp) *insSeq {
	if s.IsAtom {
		return nil
	}
	q := &insSeq{pk: s.Nth(1).Atom, start: s.Nth(2).Int(), failAt: -1}
	if s.Nth(3).Atom != "n" {
		q.failAt = int(s.Nth(3).Int())
	}
	return q
}

// insFlags: what kind of statement it is (REPLACE or INSERT, IGNORE, priority, ON DUPLICATE KEY UPDATE present)
func insFlags(stmt *ast.InsertStmt) string {
	return fmt.Sprintf("r%vi%vp%dd%d", core.B(stmt.IsReplace).Atom, core.B(stmt.IgnoreErr).Atom, int(stmt.Priority), len(stmt.OnDuplicate))
}

// insEntry canonicalises one rewritten INSERT: table chain, columns, rows, kind of statement.
func insEntry(slice, db, sql string) string {
	node, err := parser.ParseSQL(sql)
	if err != nil {
		return "(" + slice + " " + db + " unparsable " + core.Text(sql).String() + ")"
	}
	stmt, ok := node.(*ast.InsertStmt)
	if !ok {
		return "(" + slice + " " + db + " not-insert " + core.Text(sql).String() + ")"
	}
	var chain []string
	if ts, ok := stmt.Table.TableRefs.Left.(*ast.TableSource); ok {
		if tn, ok := ts.Source.(*ast.TableName); ok {
			if tn.Schema.O != "" {
				chain = append(chain, tn.Schema.O)
			}
			chain = append(chain, tn.Name.O)
		}
	}
	var cols []string
	var rows []string
	if len(stmt.Setlist) != 0 {
		var cells []string
		for _, a := range stmt.Setlist {
			cols = append(cols, a.Column.Name.L)
			cells = append(cells, core.Text(insRestore(a.Expr)).String())
		}
		rows = append(rows, "("+strings.Join(cells, " ")+")")
	} else {
		for _, c := range stmt.Columns {
			cols = append(cols, c.Name.L)
		}
		for _, l := range stmt.Lists {
			var cells []string
			for _, e := range l {
				cells = append(cells, core.Text(insRestore(e)).String())
			}
			rows = append(rows, "("+strings.Join(cells, " ")+")")
		}
	}
	for i := range cols {
		if cols[i] == "" {
			cols[i] = "-"
		}
	}
	return "(" + insIdent(slice).String() + " " + insIdent(db).String() + " (" + strings.Join(chain, " ") + ") (" + strings.Join(cols, " ") + ") (" + strings.Join(rows, " ") + ") " + insFlags(stmt) + ")"
}

var insPhyDBs = map[string]string{"db_ks": "db_ks", "db_mycat": "db_mycat_0"}

func execC03(in core.Sexp) string {
	rt, err := insGetRouter()
	if err != nil {
		return "(setup-error " + core.Text(err.Error()).String() + ")"
	}
	x := in.Nth(4).Nth(1)
	r := insRuleByName(x.Nth(1).Atom)
	if r == nil {
		return "bad-rule"
	}
	sql := x.Nth(2).Str()
	seqs := sequence.NewSequenceManager()
	if q := insSeqFromSexp(in.Nth(3)); q != nil {
		seqs.SetSequence(r.db, r.table, q)
	}
	node, err := parser.ParseSQL(sql)
	if err != nil {
		return "(parse-error)"
	}
	p, err := plan.BuildPlan(node, insPhyDBs, r.db, sql, rt, seqs, nil)
	if err != nil {
		return "err"
	}
	if _, ok := p.(*plan.InsertPlan); !ok {
		return fmt.Sprintf("(not-an-insert-plan %T)", p)
	}
	var entries []string
	for slice, dbs := range plan.VerifPlanSQLs(p) {
		for db, sqls := range dbs {
			for _, q := range sqls {
				entries = append(entries, insEntry(slice, db, q))
			}
		}
	}
	sort.Strings(entries)
	if len(entries) == 0 {
		return "(ok)"
	}
	return "(ok " + strings.Join(entries, " ") + ")"
}

func init() {
	core.Register(&core.Property{
		ID: "C03",
		Rule: "INSERT / REPLACE (with IGNORE, LOW_PRIORITY, HIGH_PRIORITY, DELAYED, VALUE/VALUES, with and without INTO) in VALUES form (1–6 rows) and SET form on 17 rule configurations (hash, mod, range, single-table hash, date_year/month/day, linked to range and to hash, five mycat rules incl. padding mod, two global tables; three slices); " +
			"sharding cells are literals of a boundary-rich universe per rule (range edges ±1, beyond the last range, period starts/ends, outside the configured periods, quoted numbers, uint64) mixed with cells the proxy does not evaluate " +
			"(signed numbers, arithmetic, function calls, NULL, columns, DEFAULT, nextval()) and with literals whose stored value is not what GetValueExprResult gives: hexadecimal, bit, decimal and float literals, TRUE/FALSE, and strings MySQL reads as numbers " +
			"(leading zeros, white space incl. \\t and \\n escapes, signs, fractions, exponents, 2^63 and 2^64 borders, introducers, adjacent strings), fixed ones and respellings of routable keys; column lists shuffled, with the sharding column missing / twice / upper-case / back-quoted / qualified, ragged rows, " +
			"ON DUPLICATE KEY UPDATE with and without an assignment to the sharding column (column plain, upper-case, back-quoted, qualified; value literal, VALUES(col), expression, NULL, DEFAULT, sub query; any position), INSERT … SELECT in six shapes, missing column list; " +
			"a global sequence (own column or the sharding column; given, nextval(), NULL or omitted; failing backend) in a quarter of the cases. Cell kinds, literal values and placements (also of the other spellings of every sharding value, `fti`) are those /repo's parser and the real rule report. " +
			"non-trivial = statement accepted",
		Generate: genC03,
		Exec:     execC03,
		Trivial:  func(in core.Sexp, out string) bool { return !strings.HasPrefix(out, "(ok") },
		Assumptions: []string{
			"TZ=UTC for the harness process (unix-timestamp keys of calendar rules)",
			"/repo's parser is the oracle for the node type of every cell (ValueExpr / NULL / nextval() / other) and restoring a restored cell is the identity",
			"a planner panic is recovered by SessionExecutor.handleQuery and reaches the client as an error: the oracle treats it as a rejection",
			"the physical location of table index i (slice, database, table name) is what the rule's layout functions report (their agreement with the configuration is C04/C10); placement functions are C08/C09",
			"MySQL (strict sql_mode): a string with the syntax of an integer (white space, sign, digits, white space) stored in an integer column becomes that integer; an integer stored in a string column becomes its decimal digits; a string that looksLikeNumber does not accept is refused by an integer column. Fractions and exponents in strings are not modelled on the specification side (the hash rule refuses them)",
			"calendar rules: the type of the key literal is the type of the column (a date string for DATE/DATETIME, an integer for a unix time), written as the rule documents (YYYY-MM-DD[ hh:mm:ss]); two-digit-year and other MySQL date spellings are not modelled",
			"a statement naming the sharding column twice is refused by the backend (error 1110) wherever it is sent; sequence values are not negative",
		},
	})
}
