package props

import (
	"encoding/json"
	"net/http"
	"net/http/httptest"
	"sort"
	"strings"
	"sync"
)

// c32Etcd is an in-memory stand-in for the etcd v2 keys API, as far as
// models/etcd (github.com/coreos/etcd/client) uses it: GET /version, and
// GET / PUT / DELETE on /v2/keys/<key> (recursive directory reads, value
// writes that create missing parents, deletes). The control plane (cc) and the
// proxies of a C32 case share one instance as their coordinator.
type c32Etcd struct {
	mu    sync.Mutex
	kv    map[string]string // key ("/root/namespace/ns1") → value
	index uint64
	srv   *httptest.Server
}

func newC32Etcd() *c32Etcd {
	e := &c32Etcd{kv: map[string]string{}}
	e.srv = httptest.NewServer(e)
	return e
}

func (e *c32Etcd) Close()       { e.srv.Close() }
func (e *c32Etcd) Addr() string { return e.srv.URL }

func (e *c32Etcd) Snapshot() map[string]string {
	e.mu.Lock()
	defer e.mu.Unlock()
	s := make(map[string]string, len(e.kv))
	for k, v := range e.kv {
		s[k] = v
	}
	return s
}

func (e *c32Etcd) Restore(s map[string]string) {
	e.mu.Lock()
	defer e.mu.Unlock()
	e.kv = make(map[string]string, len(s))
	for k, v := range s {
		e.kv[k] = v
	}
}

func (e *c32Etcd) Put(key, val string) {
	e.mu.Lock()
	defer e.mu.Unlock()
	e.kv[key] = val
}

type c32Node struct {
	Key           string     `json:"key"`
	Dir           bool       `json:"dir,omitempty"`
	Value         string     `json:"value"`
	Nodes         []*c32Node `json:"nodes,omitempty"`
	CreatedIndex  uint64     `json:"createdIndex"`
	ModifiedIndex uint64     `json:"modifiedIndex"`
}

// node builds the answer for key (nil if neither a value nor a directory).
func (e *c32Etcd) node(key string, recursive, top bool) *c32Node {
	if v, ok := e.kv[key]; ok {
		return &c32Node{Key: key, Value: v, CreatedIndex: 1, ModifiedIndex: 1}
	}
	prefix := key + "/"
	if key == "/" {
		prefix = "/"
	}
	children := map[string]bool{}
	for k := range e.kv {
		if strings.HasPrefix(k, prefix) {
			rest := k[len(prefix):]
			if i := strings.Index(rest, "/"); i >= 0 {
				rest = rest[:i]
			}
			children[prefix+rest] = true
		}
	}
	if len(children) == 0 {
		return nil
	}
	n := &c32Node{Key: key, Dir: true, CreatedIndex: 1, ModifiedIndex: 1}
	if top || recursive {
		var names []string
		for c := range children {
			names = append(names, c)
		}
		sort.Strings(names)
		for _, c := range names {
			n.Nodes = append(n.Nodes, e.node(c, recursive, false))
		}
	}
	return n
}

func (e *c32Etcd) ServeHTTP(w http.ResponseWriter, r *http.Request) {
	if r.URL.Path == "/version" {
		w.Header().Set("Content-Type", "application/json")
		w.Write([]byte(`{"etcdserver":"3.3.13","etcdcluster":"3.3.0"}`))
		return
	}
	const p = "/v2/keys"
	if !strings.HasPrefix(r.URL.Path, p) {
		http.NotFound(w, r)
		return
	}
	key := strings.TrimSuffix(r.URL.Path[len(p):], "/")
	if key == "" {
		key = "/"
	}
	e.mu.Lock()
	defer e.mu.Unlock()
	e.index++
	w.Header().Set("Content-Type", "application/json")
	w.Header().Set("X-Etcd-Index", "1")
	notFound := func() {
		w.WriteHeader(http.StatusNotFound)
		json.NewEncoder(w).Encode(map[string]interface{}{"errorCode": 100, "message": "Key not found", "cause": key, "index": e.index})
	}
	switch r.Method {
	case "GET":
		n := e.node(key, r.URL.Query().Get("recursive") == "true", true)
		if n == nil {
			notFound()
			return
		}
		json.NewEncoder(w).Encode(map[string]interface{}{"action": "get", "node": n})
	case "PUT":
		r.ParseForm()
		if r.URL.Query().Get("dir") == "true" {
			w.WriteHeader(http.StatusCreated)
			json.NewEncoder(w).Encode(map[string]interface{}{"action": "set", "node": &c32Node{Key: key, Dir: true}})
			return
		}
		_, existed := e.kv[key]
		if r.URL.Query().Get("prevExist") == "false" && existed {
			w.WriteHeader(http.StatusPreconditionFailed)
			json.NewEncoder(w).Encode(map[string]interface{}{"errorCode": 105, "message": "Key already exists", "cause": key, "index": e.index})
			return
		}
		e.kv[key] = r.PostForm.Get("value")
		if !existed {
			w.WriteHeader(http.StatusCreated)
		}
		json.NewEncoder(w).Encode(map[string]interface{}{"action": "set", "node": &c32Node{Key: key, Value: e.kv[key], CreatedIndex: e.index, ModifiedIndex: e.index}})
	case "DELETE":
		if _, ok := e.kv[key]; !ok {
			notFound()
			return
		}
		delete(e.kv, key)
		json.NewEncoder(w).Encode(map[string]interface{}{"action": "delete", "node": &c32Node{Key: key, CreatedIndex: 1, ModifiedIndex: e.index}})
	default:
		w.WriteHeader(http.StatusMethodNotAllowed)
	}
}
