package props

import "gaeaverif/harness/core"

// C19 — backend connections are returned exactly once and never leaked.
// Machinery in sessconns.go, generator in c18.go (emphasis on faults).

func init() {
	core.Register(&core.Property{
		ID:          "C19",
		Rule:        "client sessions (random command sequences, scripted backend faults on about half of the commands, map-iteration orders, fault-sweep templates, exhaustive short sequences in the thorough tier) run through the real Session.Run with fake pools keeping a per-connection ledger; event trace, session state after every command and final ledger compared with the Lean model; non-trivial = at least one backend connection taken",
		Generate:    func(g *core.Gen) { scGenerate(g, "C19") },
		Exec:        scExec,
		Trivial:     scTrivial,
		Assumptions: scAssumptions,
	})
}
