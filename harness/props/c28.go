package props

import (
	"gaeaverif/harness/core"
)

// C28 — health checks mark nodes down and up according to the probe history:
// histories of master and replica probe rounds (every probe outcome of
// checkInstanceStatus, every `show slave status` outcome) with time passing,
// through one real ticker round of checkBackendMasterStatus and the real
// Slice.TryRecover (checkWithNoRecovery / HardRecovery / GradualRecovery).

func init() {
	core.Register(&core.Property{
		ID: "C28",
		Rule: "histories (6–50 events) of master and replica probe rounds whose check connection follows a script " +
			"(GetCheck error/nil, health SQL ok / soft error / shutdown / tablespace / timeout, ping, select 1, per attempt), " +
			"`show slave status` answers (lag at the limit ±1, stopped threads, no privilege, errors, odd column types), " +
			"clock steps of 0…9 s and down-after ±1, outages lasting several rounds, under no policy, hard and gradual recovery, " +
			"plus every single-round probe script over a small alphabet; non-trivial = some node changed status",
		Generate: genC28,
		Exec:     healthExec,
		Trivial:  healthTrivial,
		Extra:    healthExtra,
		Assumptions: []string{
			"time.Now and time.NewTicker are patched at run time (bytedance/mockey) to drive the real code with a virtual clock; one replica and one master per slice",
			"the check connection is a scripted fake implementing backend.PooledConnect; its pool stores time.Now().Unix() in SetLastChecked as connectionPoolImpl does",
			"Seconds_Behind_Master arrives as uint64 and the thread columns as strings (what MySQL sends); other types are generated too but the property oracle does not judge them",
		},
	})
}

func genC28(g *core.Gen) {
	base := hgProfile{pFuse: 0.05, pMaster: 0.25, pTick: 0.05, pProbeFail: 0.25, pMasterFail: 0.2, pSyncBad: 0.12, pSyncOdd: 0.08, pTrig: 0.8}
	n := g.Scale(2500, 10000)
	for i := 0; i < n; i++ {
		cfg := hgPickCfg(g, 0.5)
		pr := base
		switch g.Intn(6) {
		case 0: // healthy
			pr.pProbeFail, pr.pMasterFail = 0.03, 0.03
		case 1: // long outages
			pr.pProbeFail, pr.pMasterFail = 0.5, 0.5
		case 2: // replication trouble only
			pr.pProbeFail, pr.pSyncBad, pr.pSyncOdd = 0.02, 0.35, 0.15
		}
		if g.Intn(25) == 0 {
			pr.pBackwards = 0.05
		}
		h := newHgen(g, cfg, pr, hgPickT0(g))
		k := 6 + g.Intn(45)
		for j := 0; j < k; j++ {
			h.event()
		}
		h.emit("random")
	}
	// every probe script of one or two attempts over the whole alphabet, on a node that is down
	// (the round right after a long silence), with and without a health SQL
	{
		hs := []string{"o", "s", "d", "m", "x", "t"}
		of := []string{"o", "f"}
		var atts []string
		for _, a := range hs {
			for _, b := range of {
				for _, c := range of {
					atts = append(atts, a+b+c)
				}
			}
		}
		for _, hsql := range []bool{false, true} {
			for _, gc := range []string{"conn", "err", "errconn", "nil"} {
				scripts := []string{"(" + gc + ")"}
				for _, a := range atts {
					scripts = append(scripts, "("+gc+" "+a+")")
					if gc == "conn" && g.Tier != "quick" {
						for _, b := range atts {
							scripts = append(scripts, "("+gc+" "+a+" "+b+")", "("+gc+" soo soo "+a+" "+b+")")
						}
					} else if gc == "conn" {
						scripts = append(scripts, "("+gc+" soo soo soo "+a+")", "("+gc+" "+a+" "+core.Pick(g, atts)+")")
					}
				}
				for _, sc := range scripts {
					cfg := hgCfg{fuse: false, cool: 0, down: 12, sbm: 5, hsql: hsql, hasMaster: true}
					h := newHgen(g, cfg, hgProfile{}, 1000)
					p := core.MustParse(sc)
					q := core.MustParse("(row (u 0) (s Yes) (s Yes))")
					h.evs = append(h.evs,
						core.L(core.A("r"), core.I(1020), core.MustParse("(err)"), q), // silent for 20 s: down
						core.L(core.A("m"), core.I(1020), core.MustParse("(err)")),
						core.L(core.A("m"), core.I(1021), p),
						core.L(core.A("r"), core.I(1022), p, q))
					h.emit("probe-scripts")
				}
			}
		}
	}
	// every `show slave status` answer at the limit, on an up and on a down replica
	vals := []string{"(u 0)", "(u 4)", "(u 5)", "(u 6)", "(u 18446744073709551615)", "(i 6)", "null", "absent", "(s 6)"}
	thr := []string{"(s Yes)", "(s No)", "(s Connecting)", "(s yes)", "null", "absent", "(u 1)"}
	var qs []string
	qs = append(qs, "nopriv", "err", "nilres", "empty")
	for _, v := range vals {
		for _, a := range thr {
			for _, b := range thr {
				qs = append(qs, "(row "+v+" "+a+" "+b+")")
			}
		}
	}
	for _, qv := range qs {
		for _, sbm := range []int64{0, 5} {
			for _, fuse := range []bool{false, true} {
				cfg := hgCfg{fuse: fuse, cool: core.Pick(g, []int64{0, 5}), down: 12, sbm: sbm, hsql: false, hasMaster: true}
				h := newHgen(g, cfg, hgProfile{}, 1000)
				q := core.MustParse(qv)
				okq := core.MustParse("(row (u 0) (s Yes) (s Yes))")
				h.evs = append(h.evs,
					core.L(core.A("r"), core.I(1004), core.MustParse("(conn)"), q), // on an up replica
					core.L(core.A("r"), core.I(1008), core.MustParse("(conn)"), okq),
					core.L(core.A("r"), core.I(1030), core.MustParse("(err)"), okq), // down after silence
					core.L(core.A("r"), core.I(1034), core.MustParse("(conn)"), q),  // on a down replica
					core.L(core.A("m"), core.I(1040), core.MustParse("(err)")),      // master goes down
					core.L(core.A("r"), core.I(1041), core.MustParse("(conn)"), q))
				h.emit("slave-status-answers")
			}
		}
	}
}
