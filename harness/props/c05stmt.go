package props

import (
	"fmt"
	"sort"
	"strconv"
	"strings"

	"gaeaverif/harness/core"

	"github.com/XiaoMi/Gaea/mysql"
	"github.com/XiaoMi/Gaea/parser"
	"github.com/XiaoMi/Gaea/parser/ast"
	"github.com/XiaoMi/Gaea/proxy/plan"
	"github.com/XiaoMi/Gaea/proxy/sequence"
	"github.com/XiaoMi/Gaea/util"
)

// C05, whole statements: LIMIT, ORDER BY, multi-table forms, sub-queries.
//
//	(stmt RULE update|delete META COND|nocond (rows (k o place)…)
//	      (refs single|multi N) (tgt NAME) (set (QUAL NAMEHEX VCLASS VIDX)…)
//	      (order (col QUAL k|o DESC) | (expr N) …) (limit N|n))
//
// COND is a C01 condition tree whose opaque atoms may also be (sub CLASS KIND LIT):
// a predicate holding a sub-query (CLASS value | insel | table, the generator's
// statement of what the text it renders contains).
// Output: err (not planned) | (backend-error) (planned, a backend rejected its statement) |
// (ok AFFECTED (t IDX (k o)…)…) — the reported count and the contents of every sub table afterwards.

// sub-query predicates; %t the statement's own logical table
var c05Subs = []struct{ class, text string }{
	{"value", "%k = (SELECT %l)"},
	{"value", "(SELECT %l) <= %k"},
	{"value", "%k = (SELECT %l FROM DUAL)"},
	{"insel", "%k IN (SELECT %l)"},
	{"table", "%k = (SELECT max(k) FROM t_un)"},
	{"table", "EXISTS (SELECT 1 FROM %t WHERE o = %l)"},
	{"table", "%o > ALL (SELECT o FROM t_un)"},
	{"table", "%k IN (SELECT k FROM t_un)"},
	{"table", "abs((SELECT count(*) FROM %t)) = %l"},
	{"table", "%o BETWEEN (SELECT 1) AND (SELECT max(o) FROM %t)"},
	{"table", "NOT EXISTS (SELECT 1 FROM t_un)"},
	{"table", "%k = (SELECT (SELECT max(k) FROM %t))"},
	{"table", "%k = (SELECT %l UNION SELECT k FROM t_un)"},
	{"table", "(SELECT o FROM %t LIMIT 1) IS NULL"},
}

// values assigned to o: every one differs from the old o of every generated row
// (o ≥ -1, k ≥ 0), so the rows a statement changed can be read off the tables
var c05SetVals = map[string][]string{
	"val": {"-7", "o + 1", "-7 - k", "-o - 5"},
	"sv":  {"(SELECT -9)"},
	"sq":  {"(SELECT min(o) FROM t_un)", "o + (SELECT count(*) FROM %t)", "abs((SELECT max(o) FROM %t WHERE k = 1))"},
}

var c05OrderExprs = []string{"o + 1", "abs(k)", "1", "(SELECT 1)"}

var c05DelTargets = []string{"plain", "self", "using", "alias", "usingalias", "star", "foreign0", "foreign1", "foreign2", "foreign3"}

func c05Partner(r *c01Rule, suffix string) string {
	if r.name == "linked" {
		return "t_r100"
	}
	return r.table + suffix
}

// c05Refs renders the table references; returns the text and the column prefix
func c05Refs(r *c01Rule, shape string, n int, isUpdate bool) (refs, pfx string) {
	t := r.table
	if shape == "multi" {
		c1, c2 := c05Partner(r, "_c1"), c05Partner(r, "_c2")
		switch n % 7 {
		case 0:
			return t + ", " + c1, t + "."
		case 1:
			return t + " JOIN " + c1 + " ON " + t + ".k = " + c1 + ".k", t + "."
		case 2:
			return t + " a JOIN t_un b ON a.k = b.k", "a."
		case 3:
			return "t_un b JOIN " + t + " a ON a.k = b.k", "a."
		case 4:
			return "(" + t + " JOIN " + c1 + " ON " + t + ".k = " + c1 + ".k)", t + "."
		case 5:
			return t + " LEFT JOIN " + c2 + " c ON " + t + ".k = c.o", t + "."
		default:
			return t + ", t_un", t + "."
		}
	}
	switch n % 6 {
	case 1:
		return t + " AS a", "a."
	case 2:
		return r.db + "." + t, ""
	case 3:
		return t, t + "."
	case 4:
		if isUpdate {
			return "(" + t + ")", ""
		}
		return t, ""
	case 5:
		return t + " a", "a."
	}
	return t, ""
}

// c05DelRefs: the multi-table syntax of DELETE fixes how the table may be written
func c05DelRefs(tgt string, n int) int {
	switch tgt {
	case "self", "using", "star", "foreign0", "foreign2", "foreign3":
		if n%6 == 1 || n%6 == 5 {
			return 0
		}
	case "alias", "usingalias", "foreign1":
		return 1
	}
	return n
}

func c05RenderCond(c core.Sexp, k, o, tbl string) string {
	switch c.Head() {
	case "and":
		return c05RenderCond(c.Nth(1), k, o, tbl) + " AND " + c05RenderCond(c.Nth(2), k, o, tbl)
	case "or":
		return c05RenderCond(c.Nth(1), k, o, tbl) + " OR " + c05RenderCond(c.Nth(2), k, o, tbl)
	case "par":
		return "(" + c05RenderCond(c.Nth(1), k, o, tbl) + ")"
	case "sub":
		t := c05Subs[int(c.Nth(2).Int())%len(c05Subs)].text
		t = strings.ReplaceAll(t, "%k", k)
		t = strings.ReplaceAll(t, "%o", o)
		t = strings.ReplaceAll(t, "%t", tbl)
		t = strings.ReplaceAll(t, "%l", c.Nth(3).Nth(1).Str())
		return "(" + t + ")"
	}
	return c01Render(c, k, o)
}

// c05StmtSQL renders the statement of a stmt line.
func c05StmtSQL(r *c01Rule, in core.Sexp) string {
	isUpdate := in.Nth(2).Atom == "update"
	var refsE, tgtE, setE, orderE, limitE core.Sexp
	for _, e := range in.List[6:] {
		switch e.Head() {
		case "refs":
			refsE = e
		case "tgt":
			tgtE = e
		case "set":
			setE = e
		case "order":
			orderE = e
		case "limit":
			limitE = e
		}
	}
	shape, n := refsE.Nth(1).Atom, int(refsE.Nth(2).Int())
	tgt := tgtE.Nth(1).Atom
	t := r.table
	if !isUpdate && shape == "single" {
		n = c05DelRefs(tgt, n)
	}
	if !isUpdate && shape == "multi" && tgt == "plain" {
		tgt = "self" // DELETE FROM t1, t2 is no statement
	}
	refs, pfx := c05Refs(r, shape, n, isUpdate)
	qual := func(q, name string) string {
		switch q {
		case "table":
			return t + "." + name
		case "dbtable":
			return r.db + "." + t + "." + name
		case "uptable":
			return strings.ToUpper(t) + "." + name
		case "updb":
			return strings.ToUpper(r.db) + "." + t + "." + name
		case "alias", "upalias":
			a := "a."
			if strings.HasSuffix(pfx, ".") && pfx != t+"." {
				a = pfx
			}
			if q == "upalias" {
				a = strings.ToUpper(a)
			}
			return a + name
		case "unknown":
			return "zz." + name
		case "baddb":
			return "nodb." + t + "." + name
		}
		return name
	}
	tail := ""
	if cond := in.Nth(4); !(cond.IsAtom && cond.Atom == "nocond") {
		tail += " WHERE " + c05RenderCond(cond, pfx+"k", pfx+"o", t)
	}
	if len(orderE.List) > 1 {
		var items []string
		for _, it := range orderE.List[1:] {
			if it.Head() == "expr" {
				items = append(items, c05OrderExprs[int(it.Nth(1).Int())%len(c05OrderExprs)])
				continue
			}
			s := qual(it.Nth(1).Atom, it.Nth(2).Atom)
			if it.Nth(3).Bool() {
				s += " DESC"
			}
			items = append(items, s)
		}
		tail += " ORDER BY " + strings.Join(items, ", ")
	}
	if limitE.Nth(1).Atom != "n" {
		tail += " LIMIT " + limitE.Nth(1).Atom
	}
	if isUpdate {
		var sets []string
		for _, a := range setE.List[1:] {
			vals := c05SetVals[a.Nth(2).Atom]
			v := strings.ReplaceAll(vals[int(a.Nth(3).Int())%len(vals)], "%t", t)
			sets = append(sets, qual(a.Nth(0).Atom, a.Nth(1).Str())+" = "+v)
		}
		return "UPDATE " + refs + " SET " + strings.Join(sets, ", ") + tail
	}
	target := t
	if pfx != "" && pfx != t+"." {
		target = strings.TrimSuffix(pfx, ".")
	}
	switch tgt {
	case "self", "alias":
		return "DELETE " + target + " FROM " + refs + tail
	case "using", "usingalias":
		return "DELETE FROM " + target + " USING " + refs + tail
	case "star":
		return "DELETE " + target + ".* FROM " + refs + tail
	case "foreign0":
		return "DELETE t_un FROM " + refs + tail
	case "foreign1":
		return "DELETE " + t + " FROM " + refs + tail
	case "foreign2":
		return "DELETE db_mycat." + t + " FROM " + refs + tail
	case "foreign3":
		return "DELETE " + t + ", " + t + " FROM " + refs + tail
	}
	return "DELETE FROM " + refs + tail
}

// ---- a backend that executes the statements it is sent -------------------------

type c05Backend struct {
	table  string
	tables map[int][]c05Row
	err    error
}

func (e *c05Backend) run(db, sql string) (*mysql.Result, error) {
	node, err := parser.ParseSQL(sql)
	if err != nil {
		return nil, fmt.Errorf("rewritten statement does not parse: %v", err)
	}
	var where ast.ExprNode
	var refs *ast.TableRefsClause
	var order *ast.OrderByClause
	var limit *ast.Limit
	var upd *ast.UpdateStmt
	var del *ast.DeleteStmt
	switch s := node.(type) {
	case *ast.UpdateStmt:
		upd, where, refs, order, limit = s, s.Where, s.TableRefs, s.Order, s.Limit
	case *ast.DeleteStmt:
		del, where, refs, order, limit = s, s.Where, s.TableRefs, s.Order, s.Limit
	default:
		return nil, fmt.Errorf("unexpected statement %T", node)
	}
	if refs == nil || refs.TableRefs == nil || refs.TableRefs.Right != nil {
		return nil, fmt.Errorf("more than one table")
	}
	src, ok := refs.TableRefs.Left.(*ast.TableSource)
	if !ok {
		return nil, fmt.Errorf("unexpected table reference %T", refs.TableRefs.Left)
	}
	tn, ok := src.Source.(*ast.TableName)
	if !ok {
		return nil, fmt.Errorf("unexpected table source %T", src.Source)
	}
	m := c05Suffix.FindStringSubmatch(tn.Name.O)
	if m == nil || !strings.HasPrefix(tn.Name.O, e.table+"_") {
		return nil, fmt.Errorf("ERROR 1146: table %q doesn't exist", tn.Name.O)
	}
	if tn.Schema.L != "" && tn.Schema.L != strings.ToLower(db) {
		return nil, fmt.Errorf("ERROR 1049: unknown database %q", tn.Schema.O)
	}
	idx, _ := strconv.Atoi(m[1])
	if del != nil && del.IsMultiTable {
		// MySQL: every target names a table of the FROM clause, by its alias if it has one
		seen := map[string]bool{}
		for _, t := range del.Tables.Tables {
			name := tn.Name.L
			if src.AsName.L != "" {
				name = src.AsName.L
			}
			if t.Name.L != name || (t.Schema.L != "" && (src.AsName.L != "" || t.Schema.L != strings.ToLower(db))) {
				return nil, fmt.Errorf("ERROR 1109: Unknown table '%s' in MULTI DELETE", t.Name.O)
			}
			if seen[t.Name.L] {
				return nil, fmt.Errorf("ERROR 1066: Not unique table/alias: '%s'", t.Name.O)
			}
			seen[t.Name.L] = true
		}
	}
	rows := e.tables[idx]
	var sel []int
	for i, row := range rows {
		if where == nil {
			sel = append(sel, i)
			continue
		}
		v, err := c05Eval(where, row)
		if err != nil {
			return nil, err
		}
		if v != nil && *v != 0 {
			sel = append(sel, i)
		}
	}
	if order != nil {
		type key struct {
			col  string
			desc bool
		}
		var keys []key
		for _, it := range order.Items {
			c, ok := it.Expr.(*ast.ColumnNameExpr)
			if !ok {
				return nil, fmt.Errorf("ORDER BY item %T", it.Expr)
			}
			keys = append(keys, key{c.Name.Name.L, it.Desc})
		}
		sort.SliceStable(sel, func(a, b int) bool {
			for _, k := range keys {
				x, y := rows[sel[a]].o, rows[sel[b]].o
				if k.col == "k" {
					x, y = rows[sel[a]].k, rows[sel[b]].k
				}
				if x != y {
					return (x < y) != k.desc
				}
			}
			return false
		})
	}
	if limit != nil {
		n, err := c05Eval(limit.Count, c05Row{})
		if err != nil || n == nil {
			return nil, fmt.Errorf("LIMIT count")
		}
		if limit.Offset != nil {
			return nil, fmt.Errorf("LIMIT with offset")
		}
		if int(*n) < len(sel) {
			sel = sel[:*n]
		}
	}
	hit := map[int]bool{}
	for _, i := range sel {
		hit[i] = true
	}
	var after []c05Row
	for i, row := range rows {
		if !hit[i] {
			after = append(after, row)
			continue
		}
		if del != nil {
			continue
		}
		old := row
		for _, a := range upd.List {
			switch a.Column.Name.L {
			case "o", "k":
				v, err := c05Eval(a.Expr, old)
				if err != nil {
					return nil, err
				}
				if v == nil {
					return nil, fmt.Errorf("NULL assigned")
				}
				if a.Column.Name.L == "o" {
					row.o = *v
				} else {
					row.k = *v
				}
			}
		}
		after = append(after, row)
	}
	e.tables[idx] = after
	return &mysql.Result{AffectedRows: uint64(len(sel))}, nil
}

func (e *c05Backend) ExecuteSQL(ctx *util.RequestContext, slice, db, sql string) (*mysql.Result, error) {
	return e.run(db, sql)
}

func (e *c05Backend) ExecuteSQLs(ctx *util.RequestContext, sqls map[string]map[string][]string) ([]*mysql.Result, error) {
	// every statement is executed (as the real executor does, concurrently); the first error is reported
	var rs []*mysql.Result
	for _, dbs := range sqls {
		for db, list := range dbs {
			for _, sql := range list {
				r, err := e.run(db, sql)
				if err != nil {
					if e.err == nil {
						e.err = err
					}
					continue
				}
				rs = append(rs, r)
			}
		}
	}
	if e.err != nil {
		return nil, e.err
	}
	return rs, nil
}
func (e *c05Backend) SetLastInsertID(uint64)  {}
func (e *c05Backend) GetLastInsertID() uint64 { return 0 }
func (e *c05Backend) HandleSet(*util.RequestContext, string, *ast.SetStmt) (*mysql.Result, error) {
	return nil, nil
}

func c05ExecStmt(in core.Sexp) string {
	rt, err := c01GetRouter()
	if err != nil {
		return "setup-error"
	}
	r := c01RuleByName(in.Nth(1).Atom)
	sql := c05StmtSQL(r, in)
	node, err := parser.ParseSQL(sql)
	if err != nil {
		return "(parse-error " + core.Text(sql).String() + ")"
	}
	p, err := plan.BuildPlan(node, map[string]string{"db_ks": "db_ks", "db_mycat": "db_mycat_0"}, r.db, sql, rt, sequence.NewSequenceManager(), nil)
	if err != nil {
		return "err"
	}
	if _, ok := plan.VerifPlanRouteIndexes(p); !ok {
		return "(not-a-shard-plan)"
	}
	ex := &c05Backend{table: r.table, tables: map[int][]c05Row{}}
	for _, row := range in.Nth(5).List[1:] {
		idx := int(row.Nth(2).Int())
		ex.tables[idx] = append(ex.tables[idx], c05Row{k: row.Nth(0).Int(), o: row.Nth(1).Int()})
	}
	res, err := p.ExecuteIn(util.NewRequestContext(), ex)
	if err != nil {
		return "(backend-error)"
	}
	n := uint64(0)
	if res != nil {
		n = res.AffectedRows
	}
	var sb strings.Builder
	fmt.Fprintf(&sb, "(ok %d", n)
	for _, idx := range in.Nth(3).Nth(5).List {
		fmt.Fprintf(&sb, " (t %s", idx.Atom)
		for _, row := range ex.tables[int(idx.Int())] {
			fmt.Fprintf(&sb, " (%d %d)", row.k, row.o)
		}
		sb.WriteString(")")
	}
	sb.WriteString(")")
	return sb.String()
}

// ---- generator ----------------------------------------------------------------------

// c05InjectSubs replaces some opaque atoms by sub-query predicates
func c05InjectSubs(g *core.Gen, c core.Sexp, p int) core.Sexp {
	switch c.Head() {
	case "and", "or":
		return core.L(c.Nth(0), c05InjectSubs(g, c.Nth(1), p), c05InjectSubs(g, c.Nth(2), p))
	case "par":
		return core.L(c.Nth(0), c05InjectSubs(g, c.Nth(1), p))
	case "other":
		if g.Intn(100) < p {
			k := g.Intn(len(c05Subs))
			if g.Intn(2) == 0 {
				k = g.Intn(3) // the accepted kinds
			}
			return core.L(core.A("sub"), core.A(c05Subs[k].class), core.I(int64(k)), c.Nth(2))
		}
	}
	return c
}

func genC05Stmt(g *core.Gen, n int) {
	rt, err := c01GetRouter()
	if err != nil {
		panic(err)
	}
	for i := 0; i < n; i++ {
		r := c01RuleByName(core.Pick(g, c05ExecRules))
		rule := rt.GetRule(r.db, r.table)
		ctx := &c01Ctx{r: r, rule: rule, pts: c01Points(r)}
		isUpdate := g.Intn(2) == 0
		kind := "delete"
		if isUpdate {
			kind = "update"
		}
		tags := []string{"stmt", "stmt-" + kind}
		cond := core.A("nocond")
		if g.Intn(8) != 0 {
			pSub := 0
			if g.Intn(4) == 0 {
				pSub = 60
			}
			cond = c05InjectSubs(g, c05Restrict(g, ctx.genCond(g, g.Intn(4))), pSub)
		}
		var rows []core.Sexp
		nrows := 1 + g.Intn(12)
		for j := 0; j < nrows; j++ {
			k := core.Pick(g, ctx.pts) + int64(g.Intn(3)) - 1
			idx, err := c01Find(rule, k)
			if err != nil || k < 0 {
				continue
			}
			o := core.Pick(g, ctx.pts)
			switch g.Intn(4) {
			case 0:
				o = k
			case 1:
				o = int64(g.Intn(4)) // ties for ORDER BY o
			}
			rows = append(rows, core.L(core.I(k), core.I(o), core.I(int64(idx))))
		}
		refs := core.L(core.A("refs"), core.A("single"), core.I(int64(g.Intn(6))))
		if g.Intn(8) == 0 {
			refs = core.L(core.A("refs"), core.A("multi"), core.I(int64(g.Intn(7))))
			tags = append(tags, "stmt-multi")
		}
		tgt := "plain"
		if !isUpdate && g.Intn(3) == 0 {
			tgt = core.Pick(g, c05DelTargets)
		}
		if !isUpdate && refs.Nth(1).Atom == "single" {
			refs = core.L(core.A("refs"), core.A("single"), core.I(int64(c05DelRefs(tgt, int(refs.Nth(2).Int())))))
		}
		hasAlias := refs.Nth(1).Atom == "single" && (refs.Nth(2).Int() == 1 || refs.Nth(2).Int() == 5)
		// a qualifier the statement's table reference supports
		fixQ := func(q string) string {
			if hasAlias && (q == "table" || q == "dbtable" || q == "uptable") {
				return core.Pick(g, []string{"alias", "alias", "upalias"})
			}
			if !hasAlias && (q == "alias" || q == "upalias") {
				return core.Pick(g, []string{"table", "table", "dbtable", "uptable"})
			}
			return q
		}
		// the multi-table syntax of UPDATE and DELETE takes no ORDER BY and no LIMIT
		multiSyntax := refs.Nth(1).Atom == "multi" || (!isUpdate && tgt != "plain")
		set := []core.Sexp{core.A("set")}
		if isUpdate {
			q := fixQ(core.Pick(g, []string{"none", "none", "table", "alias"}))
			vc, vi := "val", g.Intn(len(c05SetVals["val"]))
			switch g.Intn(10) {
			case 0:
				vc, vi = "sv", 0
			case 1:
				vc, vi = "sq", g.Intn(len(c05SetVals["sq"]))
				tags = append(tags, "stmt-set-subquery")
			}
			main := core.L(core.A(q), core.Text("o"), core.A(vc), core.I(int64(vi)))
			set = append(set, main)
			if g.Intn(3) == 0 {
				name := core.Pick(g, []string{"v", "v", "v", "k", "K", "`k`"})
				vc2, vi2 := "val", 0
				if g.Intn(8) == 0 {
					vc2, vi2 = "sq", g.Intn(len(c05SetVals["sq"]))
				}
				extra := core.L(core.A(fixQ(core.Pick(g, c05Quals))), core.Text(name), core.A(vc2), core.I(int64(vi2)))
				if g.Intn(2) == 0 {
					set = []core.Sexp{core.A("set"), extra, main}
				} else {
					set = append(set, extra)
				}
			}
		}
		order := []core.Sexp{core.A("order")}
		limit := core.A("n")
		if !multiSyntax {
			if g.Intn(2) == 0 {
				for j := 1 + g.Intn(2); j > 0; j-- {
					if g.Intn(12) == 0 {
						order = append(order, core.L(core.A("expr"), core.I(int64(g.Intn(len(c05OrderExprs))))))
						continue
					}
					q := core.Pick(g, []string{"none", "none", "none", "table", "alias", "unknown", "baddb", "updb"})
					if g.Intn(6) != 0 && (q == "unknown" || q == "baddb" || q == "updb") {
						q = "none"
					}
					order = append(order, core.L(core.A("col"), core.A(fixQ(q)), core.A(core.Pick(g, []string{"o", "o", "k"})), core.B(g.Intn(2) == 0)))
				}
				tags = append(tags, "stmt-order")
			}
			if g.Intn(2) == 0 {
				limit = core.I(int64(core.Pick(g, []int{0, 1, 1, 2, 2, 3, 5, 100})))
				tags = append(tags, "stmt-limit")
			}
		}
		if limit.Atom != "n" && len(order) > 1 {
			// ORDER BY … LIMIT is only planned for a single sub table: often pin the key
			if len(rows) > 0 && g.Intn(3) != 0 {
				k := core.Pick(g, rows).Nth(0).Int()
				pin := core.L(core.A("cmp"), core.A("sk"), core.A("cl"), core.A("eq"), ctx.litSexp(c01IntLit(k)))
				if g.Intn(2) == 0 {
					pin = core.L(core.A("in"), core.A("sk"), core.B(false), core.L(ctx.litSexp(c01IntLit(k)), ctx.litSexp(c01IntLit(k+1))))
				}
				if cond.IsAtom {
					cond = pin
				} else {
					cond = core.L(core.A("and"), pin, core.L(core.A("par"), cond))
				}
				tags = append(tags, "stmt-order-limit-pinned")
			}
		}
		in := core.L(core.A("stmt"), core.A(r.name), core.A(kind), c01Meta(rule), cond,
			core.L(append([]core.Sexp{core.A("rows")}, rows...)...),
			refs, core.L(core.A("tgt"), core.A(tgt)), core.L(set...), core.L(order...), core.L(core.A("limit"), limit))
		g.Emit(in, append(tags, "stmt-rule="+r.name)...)
	}
}
