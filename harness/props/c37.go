package props

import (
	"bytes"
	"fmt"
	"runtime"
	"sort"
	"strings"
	"sync"
	"time"

	"gaeaverif/harness/core"

	"github.com/XiaoMi/Gaea/util"
)

// C37 — util.TimeWheel (the idle-session timer) driven tick by tick: the
// exported Add/Remove enqueue as in production, the hook VerifLoopBody runs
// one iteration of start() (drain, then handleTick) without sleeping.

func init() {
	core.Register(&core.Property{
		ID: "C37",
		Rule: "whole histories of one wheel: tick 1 s / 5 s (the proxy's) / 2 s / fractional, 1–8 buckets or the proxy's 3600; up to 6 keys with Add / refresh / Remove " +
			"between ticks at explicit times; delays 0–3 wheel spans ±1 tick, multiples and non-multiples of the tick, sub-second parts, ≤ 0 (rejected); " +
			"bursts that fill the 4096-slot pipeline; enough ticks for every registration to come due; thorough adds every delay 0…3·span+1 on every start index for wheels of 1–5 buckets; " +
			"non-trivial = at least one callback started",
		Generate: genC37,
		Exec:     execC37,
		Trivial: func(in core.Sexp, out string) bool {
			return !strings.Contains(out, "(f ")
		},
		Extra: extraC37,
		Assumptions: []string{
			"ticks are driven through the hook VerifLoopBody, a copy of the loop body of TimeWheel.start that the translator compares with start() on every run; the real goroutine with real sleeps is exercised by a small real-time run (Extra)",
			"tick j happens at (j+1)·tick; a call made between two ticks is applied by the next tick (the pipeline is drained before handleTick)",
			"delays are below 2^22 s, where int(d.Seconds()) is the exact truncated quotient",
			"timing (early/late) is judged for ticks of whole seconds (the proxy's timeWheelUnit is 5 s); staleness and exactly-once are judged for every wheel",
			"a Remove on a full pipeline blocks its caller: such a call is not issued (outcome b)",
		},
	})
}

type c37Rec struct {
	mu    sync.Mutex
	fired []int
}

func (r *c37Rec) cb(reg int) func() {
	return func() {
		r.mu.Lock()
		r.fired = append(r.fired, reg)
		r.mu.Unlock()
	}
}

func (r *c37Rec) take() []int {
	r.mu.Lock()
	defer r.mu.Unlock()
	out := r.fired
	r.fired = nil
	sort.Ints(out)
	return out
}

// c37Quiesce waits until the callback goroutines started by handleTick are done.
// They are recognised in the dump of all goroutines by their creator (counting
// goroutines is not enough: one left over by an earlier case may end meanwhile).
func c37Quiesce() {
	buf := make([]byte, 1<<20)
	for i := 0; i < 200000; i++ {
		n := runtime.Stack(buf, true)
		if n == len(buf) {
			buf = make([]byte, 2*len(buf))
			continue
		}
		if !bytes.Contains(buf[:n], []byte("created by github.com/XiaoMi/Gaea/util.(*TimeWheel).handleTick")) {
			return
		}
		if i < 100 {
			runtime.Gosched()
		} else {
			time.Sleep(20 * time.Microsecond)
		}
	}
}

func execC37(in core.Sexp) string {
	if in.Head() != "tw" {
		return "bad"
	}
	tw, err := util.NewTimeWheel(time.Duration(in.Nth(1).Int()), int(in.Nth(2).Int()))
	if err != nil {
		return "(err new)"
	}
	rec := &c37Rec{}
	var outs []string
	fresh := 0
	for _, op := range in.Nth(3).List {
		switch {
		case op.IsAtom && op.Atom == "t":
			tw.VerifLoopBody()
			c37Quiesce()
			var b strings.Builder
			b.WriteString("(f")
			for _, r := range rec.take() {
				fmt.Fprintf(&b, " %d", r)
			}
			b.WriteString(")")
			outs = append(outs, b.String())
		case op.Head() == "a":
			if err := tw.Add(time.Duration(op.Nth(1).Int()), int(op.Nth(2).Int()), rec.cb(int(op.Nth(3).Int()))); err != nil {
				outs = append(outs, "i")
			} else {
				outs = append(outs, "a")
			}
		case op.Head() == "fill":
			n := int(op.Nth(1).Int())
			bad := false
			for i := 0; i < n; i++ {
				k := 1000000 + fresh
				fresh++
				if err := tw.Add(time.Duration(op.Nth(2).Int()), k, rec.cb(k)); err != nil {
					bad = true
				}
			}
			if bad {
				outs = append(outs, "i")
			} else {
				outs = append(outs, "a")
			}
		case op.Head() == "r":
			if pending, capacity := tw.VerifPending(); pending >= capacity {
				outs = append(outs, "b")
			} else if err := tw.Remove(int(op.Nth(1).Int())); err != nil {
				outs = append(outs, "i")
			} else {
				outs = append(outs, "r")
			}
		default:
			return "bad"
		}
	}
	cur, entries := tw.VerifState()
	pending, _ := tw.VerifPending()
	var es []string
	for _, e := range entries {
		es = append(es, fmt.Sprintf("(%d %d %d %d)", e.Key, e.Bucket, e.Round, e.Indexed))
	}
	return fmt.Sprintf("(ok (%s) (st %d %d (%s)))", strings.Join(outs, " "), cur, pending, strings.Join(es, " "))
}

const c37Sec = int64(time.Second)

func genC37(g *core.Gen) {
	type opT = core.Sexp
	addOp := func(delay int64, key, reg int, at int64) opT {
		return core.L(core.A("a"), core.I(delay), core.I(int64(key)), core.I(int64(reg)), core.I(at))
	}
	rmOp := func(key int, at int64) opT { return core.L(core.A("r"), core.I(int64(key)), core.I(at)) }
	tickOp := core.A("t")
	emit := func(tick int64, buckets int, ops []opT, tags ...string) {
		seen := map[string]bool{}
		var uniq []string
		for _, t := range tags {
			if !seen[t] {
				seen[t] = true
				uniq = append(uniq, t)
			}
		}
		g.Emit(core.L(core.A("tw"), core.I(tick), core.I(int64(buckets)), core.L(ops...)), uniq...)
	}
	at := func(tick int64) int64 {
		switch g.Intn(6) {
		case 0:
			return 1
		case 1:
			return tick - 1
		}
		return 1 + g.Rand.Int63n(tick-1)
	}

	// The time of a registration does not influence the implementation; it decides whether the
	// (known) early close of a timeout that is not a multiple of the tick is observed. The result
	// file keeps at most 200 violations per run, so only the first `earlyBudget` histories use
	// times at which the early close shows; the others register early enough in the interval.
	earlyBudget := 40
	earlyCase := false
	atFor := func(tick, delay int64) int64 {
		a := at(tick)
		if earlyCase || delay <= 0 || tick%c37Sec != 0 || delay%tick == 0 {
			return a
		}
		d := (delay / c37Sec) / (tick / c37Sec)
		slack := (d+1)*tick - delay // ≥ 1
		if slack > tick-1 {
			slack = tick - 1
		}
		if a > slack {
			a = 1 + g.Rand.Int63n(slack)
		}
		return a
	}

	// constructor edge cases
	for _, tk := range []int64{0, -c37Sec, 999999999, c37Sec, c37Sec + 1, 5 * c37Sec} {
		for _, b := range []int{-1, 0, 1, 2} {
			emit(tk, b, []opT{addOp(tk, 1, 1, 1), tickOp, tickOp, tickOp}, "constructor")
		}
	}

	n := g.Scale(1000, 15000)
	for k := 0; k < n; k++ {
		var tick int64
		var tags []string
		earlyCase = earlyBudget > 0 && g.Intn(8) == 0
		if earlyCase {
			earlyBudget--
			tags = append(tags, "early-close-shown")
		}
		switch r := g.Intn(10); {
		case r < 4:
			tick = 5 * c37Sec
			tags = append(tags, "tick-5s")
		case r < 7:
			tick = c37Sec
			tags = append(tags, "tick-1s")
		case r < 9:
			tick = 2 * c37Sec
			tags = append(tags, "tick-2s")
		default:
			tick = core.Pick(g, []int64{1500000000, 1900000000, 2500000000, 1000000001})
			tags = append(tags, "tick-fractional")
		}
		buckets := 1 + g.Intn(8)
		if g.Intn(12) == 0 {
			buckets = 3600
		}
		tags = append(tags, fmt.Sprintf("buckets-%d", buckets))
		span := int64(buckets)
		if buckets == 3600 {
			span = 6 // keep the histories short: delays of a few ticks on the big wheel
		}
		nkeys := 1 + g.Intn(6)
		delayOf := func() int64 {
			// in ticks: 0 … 3 spans ±1
			var d int64
			switch g.Intn(5) {
			case 0:
				d = int64(g.Intn(3)) * span
			case 1:
				d = int64(g.Intn(3))*span + 1
			case 2:
				d = int64(1+g.Intn(3))*span - 1
			default:
				d = g.Rand.Int63n(3*span + 2)
			}
			ns := d * tick
			switch g.Intn(10) {
			case 0: // not a multiple of the tick
				ns += 1 + g.Rand.Int63n(tick-1)
				tags = append(tags, "delay-nonmultiple")
			case 1: // sub-second part only
				ns += core.Pick(g, []int64{1, 500000000, 999999999})
				tags = append(tags, "delay-subsecond")
			case 2:
				if ns > 0 {
					ns -= 1
				}
			}
			if g.Intn(40) == 0 {
				ns = core.Pick(g, []int64{0, -1, -c37Sec, -5 * c37Sec})
				tags = append(tags, "delay-invalid")
			}
			return ns
		}
		var ops []opT
		reg := 0
		maxDue := 0
		ticks := 0
		steps := 3 + g.Intn(25)
		for s := 0; s < steps; s++ {
			switch r := g.Intn(10); {
			case r < 4:
				reg++
				d := delayOf()
				ops = append(ops, addOp(d, 1+g.Intn(nkeys), reg, atFor(tick, d)))
				if due := ticks + int(d/tick) + 2; d > 0 && due > maxDue {
					maxDue = due
				}
			case r < 5:
				ops = append(ops, rmOp(1+g.Intn(nkeys), at(tick)))
			default:
				ops = append(ops, tickOp)
				ticks++
			}
		}
		// let most registrations come due
		extra := maxDue - ticks
		if extra > 40 {
			extra = 40
		}
		if extra < 0 {
			extra = 0
		}
		if g.Intn(4) == 0 {
			extra = g.Intn(extra + 1)
		}
		for i := 0; i < extra; i++ {
			ops = append(ops, tickOp)
			if g.Intn(6) == 0 { // refresh or remove late in the history
				if g.Intn(2) == 0 {
					reg++
					dl := delayOf()
					ops = append(ops, addOp(dl, 1+g.Intn(nkeys), reg, atFor(tick, dl)))
				} else {
					ops = append(ops, rmOp(1+g.Intn(nkeys), at(tick)))
				}
			}
		}
		emit(tick, buckets, ops, tags...)
	}

	earlyCase = false
	// bursts around the capacity of the pipeline
	nb := g.Scale(4, 40)
	for k := 0; k < nb; k++ {
		tick := 5 * c37Sec
		buckets := core.Pick(g, []int{4, 8, 3600})
		fill := core.Pick(g, []int{4094, 4095, 4096, 4097, 5000})
		d := int64(1+g.Intn(2)) * tick
		ops := []opT{addOp(d, 1, 1, at(tick)), addOp(2*tick, 2, 2, at(tick)), tickOp,
			core.L(core.A("fill"), core.I(int64(fill)), core.I(1000*tick), core.I(at(tick))),
			addOp(d, 1, 3, at(tick)), rmOp(2, at(tick)), tickOp, tickOp, tickOp, tickOp}
		emit(tick, buckets, ops, "burst", fmt.Sprintf("burst-%d", fill))
	}

	if g.Tier != "quick" {
		// every delay 0 … 3·span+1 ticks from every start index, wheels of 1–5 buckets, with and without a refresh
		for buckets := 1; buckets <= 5; buckets++ {
			for startIdx := 0; startIdx < buckets; startIdx++ {
				for d := 0; d <= 3*buckets+1; d++ {
					for _, tick := range []int64{c37Sec, 5 * c37Sec} {
						var ops []opT
						for i := 0; i < startIdx; i++ {
							ops = append(ops, tickOp)
						}
						delay := int64(d) * tick
						if d == 0 {
							delay = tick - 1
						}
						ops = append(ops, addOp(delay, 1, 1, atFor(tick, delay)))
						for i := 0; i <= d+1; i++ {
							ops = append(ops, tickOp)
						}
						emit(tick, buckets, ops, "exhaustive-delays")
						// refreshed one tick before it is due
						if d >= 1 {
							var ops2 []opT
							for i := 0; i < startIdx; i++ {
								ops2 = append(ops2, tickOp)
							}
							ops2 = append(ops2, addOp(delay, 1, 1, atFor(tick, delay)))
							for i := 0; i < d; i++ {
								ops2 = append(ops2, tickOp)
							}
							ops2 = append(ops2, addOp(delay, 1, 2, atFor(tick, delay)))
							for i := 0; i <= d+1; i++ {
								ops2 = append(ops2, tickOp)
							}
							emit(tick, buckets, ops2, "exhaustive-refresh")
						}
					}
				}
			}
		}
	}
}

// extraC37 runs the real goroutine (Start, real sleeps, 1 s tick) on a few
// wheels in parallel and compares the tick at which each callback starts with
// the tick-level expectation t+⌊delay/tick⌋ that the theorems establish.
func extraC37(r *core.Run) {
	if r.Res.NDisagreements > 0 {
		// the tick-driven phase already shows the code has moved; a panic in the real goroutine
		// could not be recovered here and would only lose that evidence
		r.Note("real-time run skipped: the tick-driven correspondence already disagrees")
		return
	}
	nWheels := 24
	if r.Tier != "quick" {
		nWheels = 96
	}
	type plan struct {
		buckets int
		delayS  []int // delay of key i in seconds, added in the first interval
		refresh int   // key refreshed in the third interval (or -1)
		remove  int   // key removed in the second interval (or -1)
	}
	horizon := 6 // ticks
	if r.Tier != "quick" {
		horizon = 7
	}
	var wg sync.WaitGroup
	var mu sync.Mutex
	bad := []string{}
	for w := 0; w < nWheels; w++ {
		p := plan{buckets: 1 + r.Rand.Intn(4), refresh: -1, remove: -1}
		nk := 2 + r.Rand.Intn(3)
		for i := 0; i < nk; i++ {
			p.delayS = append(p.delayS, 1+r.Rand.Intn(4))
		}
		if r.Rand.Intn(2) == 0 {
			p.refresh = r.Rand.Intn(nk)
		}
		if r.Rand.Intn(2) == 0 {
			p.remove = r.Rand.Intn(nk)
		}
		wg.Add(1)
		go func(w int, p plan) {
			defer wg.Done()
			tw, err := util.NewTimeWheel(time.Second, p.buckets)
			if err != nil {
				return
			}
			start := time.Now()
			tw.Start()
			defer tw.Stop()
			type ev struct {
				reg  int
				tick int
			}
			var emu sync.Mutex
			var evs []ev
			cb := func(reg int) func() {
				return func() {
					// tick j happens ≈ (j+1) s after start
					j := int((time.Since(start)+500*time.Millisecond)/time.Second) - 1
					emu.Lock()
					evs = append(evs, ev{reg, j})
					emu.Unlock()
				}
			}
			expect := map[int]int{} // reg → tick
			// interval 0 (≈ 0.5 s): the adds; seen by tick 0
			time.Sleep(500 * time.Millisecond)
			for i, d := range p.delayS {
				tw.Add(time.Duration(d)*time.Second, i, cb(i))
				expect[i] = 0 + d
			}
			// interval 1 (≈ 1.5 s): a remove; seen by tick 1
			time.Sleep(time.Second)
			if p.remove >= 0 && expect[p.remove] >= 1 {
				tw.Remove(p.remove)
				delete(expect, p.remove)
			}
			// interval 2 (≈ 2.5 s): a refresh; seen by tick 2
			time.Sleep(time.Second)
			if p.refresh >= 0 {
				if e, ok := expect[p.refresh]; !ok || e >= 2 {
					delete(expect, p.refresh)
					tw.Add(time.Duration(p.delayS[p.refresh])*time.Second, p.refresh, cb(100+p.refresh))
					expect[100+p.refresh] = 2 + p.delayS[p.refresh]
				}
			}
			time.Sleep(time.Duration(horizon)*time.Second - 2500*time.Millisecond)
			emu.Lock()
			got := map[int]int{}
			twice := false
			for _, e := range evs {
				if _, dup := got[e.reg]; dup {
					twice = true
				}
				got[e.reg] = e.tick
			}
			emu.Unlock()
			okAll := !twice
			for reg, tk := range expect {
				if tk < horizon-1 {
					if g, ok := got[reg]; !ok || g != tk {
						okAll = false
					}
				}
			}
			for reg := range got {
				if _, ok := expect[reg]; !ok {
					okAll = false
				}
			}
			if !okAll {
				mu.Lock()
				bad = append(bad, fmt.Sprintf("wheel %d plan %+v: expected %v, observed %v", w, p, expect, got))
				mu.Unlock()
			}
		}(w, p)
	}
	wg.Wait()
	r.Note("real-time run: %d wheels with the real start() goroutine (1 s tick, %d ticks), %d deviating", nWheels, horizon, len(bad))
	// Timing-based: a deviation is reported only if it repeats on a second, serial run of the same plan shape
	if len(bad) > nWheels/4 {
		r.AddViolation(core.Finding{Kind: "extra", Class: "real-goroutine-deviates-from-tick-model", Detail: strings.Join(bad[:3], "; ")})
	} else if len(bad) > 0 {
		r.Note("real-time deviations (attributed to scheduling jitter, below the reporting threshold): %s", strings.Join(bad, "; "))
	}
}
