package props

import (
	"bufio"
	"bytes"
	"encoding/binary"
	"fmt"
	"io"
	"math/rand"
	"net"
	"os"
	"os/exec"
	"path/filepath"
	"strconv"
	"strings"
	"sync"
	"time"

	"gaeaverif/harness/core"

	"github.com/XiaoMi/Gaea/mysql"
)

// Process level of C38: the same cases replayed over loopback TCP against the
// real Server (NewServer + Server.Run: accept loop, go s.onConn, handshake,
// Session.Run) with the in-memory backend of proxy/server/verif_c38.go.
//
//	(tcp (sess …)) / (tcp (hs …))   one case over TCP, in this process
//	(tcp-batch <infile> <outfile>)  many cases, one per line of infile; one line of outfile per case,
//	                                flushed, so that the parent sees which case a dying process was serving
//
// What a client can observe:
//
//	sess: ((<resp> …) open|closed|hang)   the answer to each packet (as in-process), then whether the
//	                                      server still answers; a packet after which the server closes
//	                                      without writing has no entry
//	hs:   (hs (err 1105)) | (hs done) | (hs closed) | (hs switch-pending) | (hs hang)
//	                                      error packet of a decoding error / OK or access-denied /
//	                                      closed without a word / auth switch requested and no second
//	                                      payload in the case

const c38Timeout = 8 * time.Second

var c38ServeOnce sync.Once

func c38Addr() string {
	e := c38Env()
	c38ServeOnce.Do(e.Serve)
	return e.Addr()
}

type c38Client struct {
	c net.Conn
	r *bufio.Reader
}

func c38Dial() (*c38Client, error) {
	c, err := net.DialTimeout("tcp", c38Addr(), c38Timeout)
	if err != nil {
		return nil, err
	}
	return &c38Client{c: c, r: bufio.NewReader(c)}, nil
}

func (cl *c38Client) close() { cl.c.Close() }

func (cl *c38Client) write(seq byte, payload []byte) error {
	cl.c.SetWriteDeadline(time.Now().Add(c38Timeout))
	buf := append([]byte{byte(len(payload)), byte(len(payload) >> 8), byte(len(payload) >> 16), seq}, payload...)
	_, err := cl.c.Write(buf)
	return err
}

// read returns the next frame; err is io.EOF when the server closed the
// connection and a timeout error when it stays silent.
func (cl *c38Client) read() (payload []byte, seq byte, err error) {
	cl.c.SetReadDeadline(time.Now().Add(c38Timeout))
	var h [4]byte
	if _, err = io.ReadFull(cl.r, h[:]); err != nil {
		return nil, 0, err
	}
	n := int(h[0]) | int(h[1])<<8 | int(h[2])<<16
	payload = make([]byte, n)
	if _, err = io.ReadFull(cl.r, payload); err != nil {
		return nil, 0, err
	}
	return payload, h[3], nil
}

func c38IsTimeout(err error) bool {
	ne, ok := err.(net.Error)
	return ok && ne.Timeout()
}

// salt of the server's initial handshake packet
func c38GreetingSalt(p []byte) ([]byte, error) {
	if len(p) < 2 || p[0] != 10 {
		return nil, fmt.Errorf("not a v10 handshake")
	}
	i := bytes.IndexByte(p[1:], 0)
	if i < 0 {
		return nil, fmt.Errorf("no server version")
	}
	pos := 1 + i + 1 + 4
	if len(p) < pos+8+1+2+1+2+2+1+10+12 {
		return nil, fmt.Errorf("short handshake")
	}
	salt := append([]byte{}, p[pos:pos+8]...)
	pos += 8 + 1 + 2 + 1 + 2 + 2 + 1 + 10
	return append(salt, p[pos:pos+12]...), nil
}

// login performs a well-formed handshake as verif_plain on db1.
func (cl *c38Client) login() error {
	g, _, err := cl.read()
	if err != nil {
		return err
	}
	salt, err := c38GreetingSalt(g)
	if err != nil {
		return err
	}
	h := c38HS{caps: mysql.ClientProtocol41 | mysql.ClientSecureConnection | mysql.ClientConnectWithDB | mysql.ClientLongPassword | mysql.ClientTransactions,
		coll: 33, filler: make([]byte, 23), user: "verif_plain", auth: mysql.CalcPassword(salt, []byte("plainpw")), db: "db1"}
	if err := cl.write(1, h.encode()); err != nil {
		return err
	}
	p, _, err := cl.read()
	if err != nil {
		return err
	}
	if len(p) == 0 || p[0] != 0 {
		return fmt.Errorf("login refused: % x", p)
	}
	return nil
}

// silence tells a session that hangs from one that merely did not answer the
// marker command as expected: a ping is still answered by the latter.
func (cl *c38Client) silence() string {
	if cl.write(0, []byte{mysql.ComPing}) != nil {
		return "closed"
	}
	cl.c.SetReadDeadline(time.Now().Add(2 * time.Second))
	var h [4]byte
	if _, err := io.ReadFull(cl.r, h[:]); err != nil {
		if c38IsTimeout(err) {
			return "hang"
		}
		return "closed"
	}
	return "marker-lost"
}

var c38Sentinel = append([]byte{mysql.ComDaemon}, "verif-sentinel"...)

func c38IsSentinelAnswer(f []byte) bool {
	return len(f) > 3 && f[0] == 0xff && bytes.Contains(f, []byte(fmt.Sprintf("command %d not supported", mysql.ComDaemon)))
}

// c38TCPSess replays a command-phase case.
func c38TCPSess(pkts [][]byte) string {
	cl, err := c38Dial()
	if err != nil {
		return "(dial-failed)"
	}
	defer cl.close()
	if err := cl.login(); err != nil {
		return "(login-failed)"
	}
	var rs []string
	end := "open"
loop:
	for _, p := range pkts {
		if cl.write(0, p) != nil || cl.write(0, c38Sentinel) != nil {
			end = "closed"
			break
		}
		want := 1
		if len(p) > 0 && p[0] == mysql.ComDaemon {
			want = 2
		}
		var frames [][]byte
		for {
			f, _, err := cl.read()
			if err != nil {
				if len(frames) > 0 {
					rs = append(rs, c38Resp(p, frames))
				}
				if c38IsTimeout(err) {
					end = cl.silence()
				} else {
					end = "closed"
				}
				break loop
			}
			if c38IsSentinelAnswer(f) {
				want--
				if want == 0 {
					break
				}
			}
			frames = append(frames, f)
		}
		rs = append(rs, c38Resp(p, frames))
	}
	return "((" + strings.Join(rs, " ") + ") " + end + ")"
}

// c38TCPHs replays a handshake case: the payloads are sent as they are.
func c38TCPHs(plugin string, pkts [][]byte) string {
	e := c38Env()
	e.SetAuthPlugin(plugin)
	defer e.SetAuthPlugin("")
	cl, err := c38Dial()
	if err != nil {
		return "(dial-failed)"
	}
	defer cl.close()
	if _, _, err := cl.read(); err != nil {
		return "(no-greeting)"
	}
	if len(pkts) == 0 {
		return "(hs closed)"
	}
	seq := byte(1)
	next := 0
	for {
		if cl.write(seq, pkts[next]) != nil {
			return "(hs closed)"
		}
		next++
		f, s, err := cl.read()
		if err != nil {
			if c38IsTimeout(err) {
				return "(hs hang)"
			}
			return "(hs closed)"
		}
		switch {
		case len(f) > 0 && f[0] == 0xfe: // auth switch request
			if next >= len(pkts) {
				return "(hs switch-pending)"
			}
			seq = s + 1
			continue
		case len(f) >= 3 && f[0] == 0xff:
			if code := binary.LittleEndian.Uint16(f[1:3]); code == mysql.ErrUnknown {
				return "(hs (err 1105))"
			}
			return "(hs done)"
		case len(f) > 0 && f[0] == 0:
			return "(hs done)"
		}
		return "(hs other)"
	}
}

func c38TCPRun(inner core.Sexp) string {
	switch inner.Head() {
	case "sess":
		return c38TCPSess(c38Payloads(inner.Nth(2)))
	case "hs":
		return c38TCPHs(inner.Nth(1).Str(), c38Payloads(inner.Nth(3)))
	}
	return "bad"
}

// ---------------------------------------------------------------------------
// the child process

// c38Sentinel session: opened before the first case; it must keep answering.
type c38Healthy struct {
	cl *c38Client
}

func c38OpenHealthy() (*c38Healthy, error) {
	cl, err := c38Dial()
	if err != nil {
		return nil, err
	}
	if err := cl.login(); err != nil {
		return nil, err
	}
	h := &c38Healthy{cl: cl}
	if err := cl.write(0, append([]byte{mysql.ComStmtPrepare}, "select ?"...)); err != nil {
		return nil, err
	}
	// prepare-OK, one parameter definition, EOF
	for i := 0; i < 3; i++ {
		f, _, err := cl.read()
		if err != nil {
			return nil, err
		}
		if i == 0 && (len(f) < 9 || f[0] != 0 || binary.LittleEndian.Uint32(f[1:5]) != 0) {
			return nil, fmt.Errorf("sentinel prepare answered % x", f)
		}
	}
	return h, nil
}

// check: a ping is answered with OK and the statement prepared at the
// beginning (id 0 of this session) still executes.
func (h *c38Healthy) check(deep bool) error {
	if err := h.cl.write(0, []byte{mysql.ComPing}); err != nil {
		return err
	}
	f, _, err := h.cl.read()
	if err != nil {
		return err
	}
	if len(f) == 0 || f[0] != 0 {
		return fmt.Errorf("ping answered % x", f)
	}
	if !deep {
		return nil
	}
	ex := c38Execute(0, 0, 1, 1, []c38Param{{tp: 3, value: []byte{7, 0, 0, 0}}})
	if err := h.cl.write(0, ex); err != nil {
		return err
	}
	f, _, err = h.cl.read()
	if err != nil {
		return err
	}
	if len(f) == 0 || f[0] != 0 {
		return fmt.Errorf("execute answered % x", f)
	}
	return nil
}

func c38ProcChild(in core.Sexp) string {
	switch in.Head() {
	case "tcp":
		return c38TCPRun(in.Nth(1))
	case "tcp-batch":
	default:
		return "bad"
	}
	data, err := os.ReadFile(in.Nth(1).Str())
	if err != nil {
		return "(batch-error read)"
	}
	out, err := os.Create(in.Nth(2).Str())
	if err != nil {
		return "(batch-error create)"
	}
	defer out.Close()
	e := c38Env()
	c38Addr()
	healthy, err := c38OpenHealthy()
	if err != nil {
		fmt.Fprintf(out, "SETUP-FAILED %v\n", err)
		return "(batch-error sentinel)"
	}
	base := e.SessionCount()
	n, bad := 0, 0
	for i, line := range strings.Split(strings.TrimSpace(string(data)), "\n") {
		xs, err := core.ParseLine(line)
		if err != nil || len(xs) != 1 {
			fmt.Fprintf(out, "%d bad\n", i)
			continue
		}
		fmt.Fprintf(out, "%d BEGIN\n", i)
		res := c38TCPRun(xs[0])
		n++
		suffix := ""
		if err := healthy.check(n%25 == 0); err != nil {
			suffix = " SENTINEL-FAILED " + strings.ReplaceAll(err.Error(), "\n", " ")
			// a new sentinel, so that later cases are still judged
			healthy.cl.close()
			if h2, err2 := c38OpenHealthy(); err2 == nil {
				healthy = h2
			}
		}
		fmt.Fprintf(out, "%d %s%s\n", i, res, suffix)
		if strings.Contains(res, "hang") || strings.Contains(res, "marker-lost") || strings.Contains(res, "-failed)") {
			bad++
			if bad >= 3 {
				fmt.Fprintf(out, "ABORT after case %d: three cases in a row without a usable answer\n", i)
				return "(batch-aborted)"
			}
		} else {
			bad = 0
		}
	}
	// every session of the cases must be gone (cleanup of a session may wait for a time-wheel tick)
	deadline := time.Now().Add(20 * time.Second)
	for e.SessionCount() > base && time.Now().Before(deadline) {
		time.Sleep(200 * time.Millisecond)
	}
	run, onConn := e.RecoveredPanics()
	fmt.Fprintf(out, "END sessions=%d baseline=%d recovered-run=%d recovered-onconn=%d\n", e.SessionCount(), base, run, onConn)
	return fmt.Sprintf("(batch-done %d)", n)
}

// ---------------------------------------------------------------------------
// the parent: Extra

func c38TCPWrap(in core.Sexp) core.Sexp { return core.L(core.A("tcp"), in) }

func extraC38(r *core.Run) {
	if r.Tier == "search" {
		return
	}
	t0 := time.Now()
	scale := func(q, t int) int {
		if r.Tier == "thorough" {
			return t
		}
		return q
	}
	all := c38Cases(rand.New(rand.NewSource(r.Seed)), scale, r.Tier != "quick")
	var cases []core.Sexp
	seen := map[string]bool{}
	for _, c := range all {
		if h := c.in.Head(); h != "sess" && h != "hs" {
			continue
		}
		l := c.in.String()
		if seen[l] {
			continue
		}
		seen[l] = true
		cases = append(cases, c.in)
	}
	if r.Tier == "quick" {
		// a sample spread over the run
		var s []core.Sexp
		step := len(cases)/300 + 1
		for i := 0; i < len(cases); i += step {
			s = append(s, cases[i])
		}
		cases = s
	}
	if len(cases) == 0 {
		return
	}
	dir, err := os.MkdirTemp("", "gaea-verif-c38.")
	if err != nil {
		r.Note("process level skipped: %v", err)
		return
	}
	defer os.RemoveAll(dir)

	// expected outcomes from the model
	lines := make([]string, len(cases))
	for i, c := range cases {
		lines[i] = "C38 m " + c38TCPWrap(c).String()
	}
	model, err := core.DriverBatch(r.Driver, lines)
	if err != nil {
		c38AddFront(r, core.Finding{Kind: "extra", Class: "process-level-driver", Detail: err.Error()})
		return
	}

	observed := make([]string, len(cases))
	flagged := map[int]string{}
	crashes, leaks := 0, 0
	all0 := make([]int, len(cases))
	for i := range all0 {
		all0[i] = i
	}
	// runBatches replays the cases idx in child processes (a new child after every crash)
	runBatches := func(pending []int, tag string) bool {
		for round := 0; len(pending) > 0 && round < 8; round++ {
			inf := filepath.Join(dir, fmt.Sprintf("in.%s.%d", tag, round))
			outf := filepath.Join(dir, fmt.Sprintf("out.%s.%d", tag, round))
			var b strings.Builder
			for _, i := range pending {
				b.WriteString(cases[i].String())
				b.WriteByte('\n')
			}
			os.WriteFile(inf, []byte(b.String()), 0o644)
			cmd := exec.Command(os.Args[0], "exec", "C38", core.L(core.A("tcp-batch"), core.Text(inf), core.Text(outf)).String())
			var stderr bytes.Buffer
			cmd.Stderr = &stderr
			cmd.Stdout = io.Discard
			done := make(chan error, 1)
			if err := cmd.Start(); err != nil {
				c38AddFront(r, core.Finding{Kind: "extra", Class: "process-level-start", Detail: err.Error()})
				return false
			}
			go func() { done <- cmd.Wait() }()
			var werr error
			select {
			case werr = <-done:
			case <-time.After(time.Duration(90+len(pending)/5) * time.Second):
				cmd.Process.Kill()
				werr = fmt.Errorf("batch timed out")
				<-done
			}
			data, _ := os.ReadFile(outf)
			ended := false
			last := -1 // position in pending of the last case that began
			got := map[int]bool{}
			for _, l := range strings.Split(string(data), "\n") {
				f := strings.SplitN(l, " ", 2)
				if len(f) < 2 {
					continue
				}
				if f[0] == "SETUP-FAILED" || f[0] == "ABORT" {
					c38AddFront(r, core.Finding{Kind: "extra", Class: "process-level-" + strings.ToLower(f[0]), Detail: "the TCP replay against the real Server could not be carried out: " + l + " (a well-formed login, the prepared statement of the sentinel session or the marker command is no longer answered as the protocol requires)"})
					r.Note("process level: %s", l)
					return false
				}
				if f[0] == "END" {
					ended = true
					var sessions, baseline int
					fmt.Sscanf(f[1], "sessions=%d baseline=%d", &sessions, &baseline)
					if sessions > baseline {
						leaks++
						c38AddFront(r, core.Finding{Kind: "extra", Class: "session-leak", Detail: fmt.Sprintf("after a batch of %d cases over TCP %d sessions were still counted by the session gauge (baseline %d): their goroutines did not finish within 20 s", len(pending), sessions, baseline)})
					}
					r.Note("process level (%s): %s", tag, f[1])
					continue
				}
				k, err := strconv.Atoi(f[0])
				if err != nil || k < 0 || k >= len(pending) {
					continue
				}
				if f[1] == "BEGIN" {
					last = k
					continue
				}
				res := f[1]
				delete(flagged, pending[k])
				if j := strings.Index(res, " SENTINEL-FAILED"); j >= 0 {
					flagged[pending[k]] = "other-session-affected" + res[j+len(" SENTINEL-FAILED"):]
					res = res[:j]
				}
				observed[pending[k]] = res
				got[k] = true
			}
			if ended {
				return true
			}
			// the process died (or hung): the case that had begun and was not reported is the culprit
			crashes++
			if last < 0 || got[last] {
				c38AddFront(r, core.Finding{Kind: "extra", Class: "process-level-batch", Detail: fmt.Sprintf("the child process ended without END: %v; stderr: %s", werr, c38Tail(stderr.String(), 600))})
				return false
			}
			culprit := pending[last]
			observed[culprit] = "crash"
			flagged[culprit] = "process-crash: " + c38Tail(stderr.String(), 400)
			if werr != nil && strings.Contains(werr.Error(), "timed out") {
				observed[culprit] = "hang"
				flagged[culprit] = "process-hang"
			}
			pending = pending[last+1:]
		}
		return true
	}
	if !runBatches(all0, "all") {
		return
	}
	// timing-dependent verdicts (a silent session, a sentinel that did not answer in time) are
	// confirmed by replaying those cases once more in a fresh process before they are reported
	var again []int
	for i := range cases {
		if strings.Contains(observed[i], "hang") || strings.Contains(observed[i], "marker-lost") || strings.HasPrefix(flagged[i], "other-session-affected") {
			again = append(again, i)
		}
	}
	if len(again) > 0 && len(again) <= 200 {
		r.Note("process level: %d timing-dependent verdicts replayed for confirmation", len(again))
		if !runBatches(again, "confirm") {
			return
		}
	}

	// compare
	var ask []string
	var askIdx []int
	for i := range cases {
		if observed[i] == "" {
			continue
		}
		r.Res.Evaluations++
		r.Res.Distribution["tcp-"+cases[i].Head()]++
		mo := model[i]
		if j := strings.Index(mo, " | "); j >= 0 {
			mo = mo[:j]
		}
		in := c38TCPWrap(cases[i]).String()
		if why, bad := flagged[i]; bad {
			cls := strings.SplitN(why, ":", 2)[0]
			cls = strings.Fields(cls)[0]
			c38AddFront(r, core.Finding{Kind: "failing-input", Class: cls, Input: in, Impl: observed[i], Model: mo, Detail: why})
			continue
		}
		if observed[i] != mo {
			r.Res.NDisagreements++
			if len(r.Res.Disagreements) < 50 {
				r.Res.Disagreements = append(r.Res.Disagreements, core.Finding{Kind: "disagreement", Input: in, Impl: observed[i], Model: mo, Detail: "process level (TCP)"})
			}
		}
		ask = append(ask, "C38 s "+in+" "+observed[i])
		askIdx = append(askIdx, i)
	}
	if ans, err := core.DriverBatch(r.Driver, ask); err == nil {
		for k, a := range ans {
			if strings.HasPrefix(a, "viol") {
				i := askIdx[k]
				c38AddFront(r, core.Finding{Kind: "failing-input", Class: strings.TrimSpace(strings.TrimPrefix(a, "viol")), Input: c38TCPWrap(cases[i]).String(), Impl: observed[i], Model: model[i], Detail: "process level (TCP): the property oracle rejects what the client observed"})
			}
		}
	}
	r.Note("process level: %d cases over TCP against the real Server accept loop in %.1fs, %d child restarts, %d leak reports", len(cases), time.Since(t0).Seconds(), crashes, leaks)
}

// c38AddFront records a process-level finding ahead of the in-process ones, so
// that it survives the cap on stored findings.
func c38AddFront(r *core.Run, f core.Finding) {
	r.Res.NViolations++
	r.Res.Violations = append([]core.Finding{f}, r.Res.Violations...)
	if len(r.Res.Violations) > 200 {
		r.Res.Violations = r.Res.Violations[:200]
	}
}

func c38Tail(s string, n int) string {
	s = strings.TrimSpace(s)
	if len(s) > n {
		s = s[len(s)-n:]
	}
	return strings.ReplaceAll(s, "\n", " | ")
}
