package props

import (
	"encoding/binary"
	"strings"

	"gaeaverif/harness/core"

	"github.com/XiaoMi/Gaea/mysql"
)

// C16 — prepare / send-long-data / execute / reset / close histories of one
// session through the real SessionExecutor.ExecuteCommand (in-memory backend,
// captured SQL log) against Model/StmtSession.lean.

func init() {
	core.Register(&core.Property{
		ID: "C16",
		Rule: "command histories (quick: up to 12, thorough: up to 20 commands) over up to 3 prepared statements: templates with 0-9 placeholders, " +
			"well-formed execute packets of every parameter type (NULL bitmap combinations, with and without the new-params-bound flag), execute packets " +
			"truncated at every length, with unknown type codes, a cursor flag, too few types or a parameter count of another statement, long data " +
			"(valid, out-of-range parameter, unknown statement, short packet), reset and close on live, closed and never-issued ids; every failed execution " +
			"is followed by further executions of the same statement; thorough adds every history of up to 5 commands over an 8-command alphabet; non-trivial = at least one execution reached handleQuery",
		Generate: genC16,
		Exec:     stmtRunHistory,
		Trivial: func(in core.Sexp, out string) bool {
			return !strings.Contains(out, "(exec ")
		},
		Assumptions: []string{
			"a session prepares fewer than 2^32 statements (statement ids do not wrap around)",
			"what handleQuery does with the statement text is outside the model; the text is observed in the session's SQL log",
			"Go's fmt renders float parameters as Model/StmtGoFloat.lean says (shortest round-trip digits; compared on every run)",
		},
	})
}

var c16Templates = []string{
	"select ?, ?", "select ?", "insert into t values (?, ?, ?)", "update t set a = ? where id = ?", "select 1",
	"select 'a?', ?, `b?`", "select ?, ? -- ?", "select ?;;", "select ?,?,?,?,?,?,?,?,?", "select 'unterminated ?",
	"select ? /* ? */ , ?", "call p(?, ?)",
}

func c16ParamCount(t string) int {
	switch t {
	case "select ?, ?", "update t set a = ? where id = ?", "select ?, ? -- ?", "select ? /* ? */ , ?", "call p(?, ?)":
		return 2
	case "select ?", "select 'a?', ?, `b?`", "select ?;;":
		return 1
	case "insert into t values (?, ?, ?)":
		return 3
	case "select ?,?,?,?,?,?,?,?,?":
		return 9
	}
	return 0
}

type c16Stmt struct {
	id   uint32
	n    int
	live bool
}

func genC16(g *core.Gen) {
	n := g.Scale(700, 12000)
	maxOps := g.Scale(12, 20)
	for c := 0; c < n; c++ {
		var ops []core.Sexp
		tags := map[string]bool{}
		var stmts []*c16Stmt
		nextID := uint32(0)
		op := func(kind string, data []byte, tag string) {
			ops = append(ops, core.L(core.A(kind), core.Hex(data)))
			tags[tag] = true
		}
		prepare := func() {
			t := core.Pick(g, c16Templates)
			op("prepare", []byte(t), "prepare")
			if t == "select 'unterminated ?" {
				tags["prepare-rejected"] = true
				return
			}
			stmts = append(stmts, &c16Stmt{id: nextID, n: c16ParamCount(t), live: true})
			nextID++
		}
		pickStmt := func() *c16Stmt {
			if len(stmts) == 0 || g.Intn(12) == 0 {
				// never issued / far away id
				return &c16Stmt{id: core.Pick(g, []uint32{nextID, nextID + 1, 7, 0xffffffff}), n: g.Intn(3)}
			}
			return core.Pick(g, stmts)
		}
		goodExec := func(s *c16Stmt, newBound byte) ([]byte, []stmtParam) {
			params := make([]stmtParam, s.n)
			for i := range params {
				params[i] = stmtGoodParam(g, true)
				if g.Intn(5) == 0 {
					params[i].null = true
				}
				tags[params[i].tag] = true
			}
			return stmtExecPacket(s.id, 0, params, newBound, s.n), params
		}
		exec := func(s *c16Stmt) {
			d, _ := goodExec(s, 1)
			kind := g.Intn(20)
			switch {
			case kind < 9:
				op("exec", d, "exec-wellformed")
			case kind < 11: // reuse the types of the previous execution
				d2, _ := goodExec(s, 0)
				op("exec", d2, "exec-no-new-types")
			case kind < 15: // truncated
				cut := g.Intn(len(d) + 1)
				op("exec", d[:cut], "exec-truncated")
				tags["failed-exec"] = true
			case kind == 15: // unknown type code for one parameter
				if s.n > 0 {
					params := make([]stmtParam, s.n)
					for i := range params {
						params[i] = stmtGoodParam(g, false)
					}
					params[g.Intn(s.n)].tp = core.Pick(g, []byte{0x11, 0x20, 0x7f, 0xf4})
					op("exec", stmtExecPacket(s.id, 0, params, 1, s.n), "exec-unknown-type")
					tags["failed-exec"] = true
				} else {
					op("exec", d, "exec-wellformed")
				}
			case kind == 16: // cursor flag
				d[4] = core.Pick(g, []byte{1, 3, 5})
				op("exec", d, "exec-cursor-flag")
				tags["failed-exec"] = true
			case kind == 17: // packet built for another parameter count
				other := &c16Stmt{id: s.id, n: core.Pick(g, []int{0, 1, 2, 3, 8, 9, 10})}
				d2, _ := goodExec(other, 1)
				op("exec", d2, "exec-wrong-count")
			case kind == 18: // last value shortened by one byte, or one byte appended
				if g.Intn(2) == 0 && len(d) > 10 {
					op("exec", d[:len(d)-1], "exec-short-value")
				} else {
					op("exec", append(d, byte(g.Intn(256))), "exec-trailing-byte")
				}
			default: // first parameters fine, a later one malformed: the probed defect
				if s.n >= 2 {
					params := make([]stmtParam, s.n)
					for i := range params {
						params[i] = stmtGoodParam(g, false)
					}
					bad := 1 + g.Intn(s.n-1)
					params[bad].value = nil
					params[bad].tp = mysql.TypeLonglong
					params[bad].null = false
					for i := bad + 1; i < s.n; i++ {
						params[i].value = nil
						params[i].null = false
						params[i].tp = mysql.TypeLonglong
					}
					op("exec", stmtExecPacket(s.id, 0, params, 1, s.n), "exec-later-param-missing")
					tags["failed-exec"] = true
				} else {
					op("exec", d[:len(d)/2], "exec-truncated")
					tags["failed-exec"] = true
				}
			}
		}
		long := func(s *c16Stmt) {
			switch g.Intn(8) {
			case 0:
				op("long", stmtLongDataPacket(s.id, uint16(s.n+g.Intn(3)), []byte("x")), "long-bad-param")
			case 1:
				d := stmtLongDataPacket(s.id, 0, nil)
				op("long", d[:g.Intn(6)], "long-short")
			default:
				p := uint16(0)
				if s.n > 0 {
					p = uint16(g.Intn(s.n))
				}
				op("long", stmtLongDataPacket(s.id, p, stmtRandomBytes(g)), "long")
			}
		}
		k := 2 + g.Intn(maxOps-1)
		prepare()
		for len(ops) < k {
			switch r := g.Intn(20); {
			case r < 3 && len(stmts) < 3:
				prepare()
			case r < 12:
				s := pickStmt()
				exec(s)
				if tags["failed-exec"] && g.Intn(2) == 0 {
					// what the property is about: an execution right after a failed one
					d, _ := goodExec(s, 1)
					op("exec", d, "exec-after-failed")
				}
			case r < 16:
				long(pickStmt())
			case r < 18:
				s := pickStmt()
				if g.Intn(6) == 0 {
					op("reset", stmtIDPacket(s.id)[:g.Intn(4)], "reset-short")
				} else {
					op("reset", stmtIDPacket(s.id), "reset")
				}
			default:
				s := pickStmt()
				if g.Intn(6) == 0 {
					op("close", stmtIDPacket(s.id)[:g.Intn(4)], "close-short")
				} else {
					op("close", stmtIDPacket(s.id), "close")
					if s.live {
						s.live = false
						tags["use-after-close"] = true
					}
				}
			}
		}
		var ts []string
		for t := range tags {
			ts = append(ts, t)
		}
		g.Emit(core.L(append([]core.Sexp{core.A("hist")}, ops...)...), ts...)
	}
	if g.Tier != "quick" {
		c16Exhaustive(g)
	}
}

// c16Exhaustive emits every history of up to 5 commands over a small alphabet
// on the statement "select ?, ?" (id 0; a second prepare makes id 1).
func c16Exhaustive(g *core.Gen) {
	le8 := func(v uint64) []byte {
		b := make([]byte, 8)
		binary.LittleEndian.PutUint64(b, v)
		return b
	}
	ll := func(v uint64) stmtParam { return stmtParam{tp: mysql.TypeLonglong, value: le8(v)} }
	good := stmtExecPacket(0, 0, []stmtParam{ll(9), ll(5)}, 1, 2)
	bad := stmtExecPacket(0, 0, []stmtParam{ll(7), {tp: mysql.TypeLonglong, value: []byte{1}}}, 1, 2)
	noTypes := stmtExecPacket(0, 0, []stmtParam{ll(3), ll(4)}, 0, 2)
	alphabet := []core.Sexp{
		core.L(core.A("prepare"), core.Text("select ?, ?")),
		core.L(core.A("exec"), core.Hex(good)),
		core.L(core.A("exec"), core.Hex(bad)),
		core.L(core.A("exec"), core.Hex(noTypes)),
		core.L(core.A("long"), core.Hex(stmtLongDataPacket(0, 1, []byte("x")))),
		core.L(core.A("reset"), core.Hex(stmtIDPacket(0))),
		core.L(core.A("close"), core.Hex(stmtIDPacket(0))),
		core.L(core.A("exec"), core.Hex(stmtExecPacket(1, 0, []stmtParam{ll(1), ll(2)}, 1, 2))),
	}
	var rec func(prefix []core.Sexp)
	rec = func(prefix []core.Sexp) {
		if len(prefix) > 0 {
			g.Emit(core.L(append([]core.Sexp{core.A("hist")}, prefix...)...), "exhaustive")
		}
		if len(prefix) == 5 {
			return
		}
		for _, op := range alphabet {
			rec(append(prefix[:len(prefix):len(prefix)], op))
		}
	}
	rec(nil)
}
