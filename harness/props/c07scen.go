package props

import (
	"encoding/json"
	"fmt"
	"math/rand"
	"reflect"
	"regexp"
	"sort"
	"strconv"
	"strings"
	"sync"
	"sync/atomic"

	"gaeaverif/harness/core"

	"github.com/XiaoMi/Gaea/log"
	"github.com/XiaoMi/Gaea/models"
	"github.com/XiaoMi/Gaea/parser"
	"github.com/XiaoMi/Gaea/proxy/plan"
	"github.com/XiaoMi/Gaea/proxy/router"
	"github.com/XiaoMi/Gaea/proxy/sequence"
	"github.com/XiaoMi/Gaea/proxy/server"
)

// C07, scenarios: sessions of one namespace, each a list of statements.
//
//	(sc (ses ITEM…) (ses ITEM…) …)
//	ITEM  (q DBHEX SQLHEX D KEY)   a statement sent while the session's current database is DB; planning it
//	                               alone draws D values from the global sequence KEY ("-": none)
//	      (fl DBHEX TABLEHEX)      COM_FIELD_LIST: the lookup handleFieldList starts with
//
// Every item is planned
//	alone    on a router (and, for the session path, a namespace) nobody else ever used,
//	seq      on one shared router, the sessions taking turns (round robin),
//	par      on one shared router, one goroutine per session (the binary is built with -race),
//	ses      through SessionExecutor.getPlan of real sessions of one shared namespace, taking turns,
//	sespar   the same, one goroutine per session,
// and each plan (kind, SQL per slice and database, routed sub tables, or the error) is compared with the
// one built alone; a deep snapshot of the router (every rule and shard) and of the namespace (caches
// included) is compared before and after every step; the sequence values a plan carries must be the
// ones drawn while it was planned, and no value may appear twice.
//
// Output: (ok N V…) — N items, V… the values the statements drew in the `seq` phase (offsets from the
// sequences' start), which the Lean model predicts from D and KEY; or the first failure:
// (differs PHASE SESSION INDEX) | (state-changed PHASE SESSION INDEX WHATHEX) |
// (seq-reused PHASE SESSION INDEX) | (seq-dup PHASE V).

type c07ShardCfg struct {
	name  string
	db    string
	table string
	key   string
	kind  string // num | date | global
	json  string
	seq   string // primary key filled from a global sequence ("" = none)
}

var c07Shards = []c07ShardCfg{
	{name: "hash4", db: "db_ks", table: "t_hash", key: "k", kind: "num", seq: "sid", json: `{"db":"db_ks","table":"t_hash","type":"hash","key":"k","locations":[2,2],"slices":["slice-0","slice-1"]}`},
	{name: "mod3", db: "db_ks", table: "t_mod", key: "k", kind: "num", json: `{"db":"db_ks","table":"t_mod","type":"mod","key":"k","locations":[1,2],"slices":["slice-0","slice-1"]}`},
	{name: "range4", db: "db_ks", table: "t_r100", key: "k", kind: "num", json: `{"db":"db_ks","table":"t_r100","type":"range","key":"k","locations":[2,2],"slices":["slice-0","slice-1"],"table_row_limit":100}`},
	{name: "linked", db: "db_ks", table: "t_r100_child", key: "pk", kind: "num", json: `{"db":"db_ks","table":"t_r100_child","type":"linked","key":"pk","parent_table":"t_r100"}`},
	{name: "year", db: "db_ks", table: "t_year", key: "k", kind: "date", json: `{"db":"db_ks","table":"t_year","type":"date_year","key":"k","slices":["slice-0","slice-1"],"date_range":["2014-2016","2018-2019"]}`},
	{name: "month", db: "db_ks", table: "t_month", key: "k", kind: "date", json: `{"db":"db_ks","table":"t_month","type":"date_month","key":"k","slices":["slice-0","slice-1"],"date_range":["201511-201602","201603-201604"]}`},
	{name: "day", db: "db_ks", table: "t_day", key: "k", kind: "date", json: `{"db":"db_ks","table":"t_day","type":"date_day","key":"k","slices":["slice-1","slice-0"],"date_range":["20151230-20160102","20160228-20160301"]}`},
	{name: "gks", db: "db_ks", table: "t_gks", key: "k", kind: "global", json: `{"db":"db_ks","table":"t_gks","type":"global","locations":[2,2],"slices":["slice-0","slice-1"]}`},
	{name: "mmod", db: "db_mycat", table: "t_mmod", key: "k", kind: "num", seq: "sid", json: `{"db":"db_mycat","table":"t_mmod","type":"mycat_mod","key":"k","locations":[2,2],"slices":["slice-0","slice-1"],"databases":["db_mycat_[0-3]"]}`},
	{name: "mlong", db: "db_mycat", table: "t_mlong", key: "k", kind: "num", json: `{"db":"db_mycat","table":"t_mlong","type":"mycat_long","key":"k","locations":[1,3],"slices":["slice-1","slice-0"],"databases":["db_mycat_[0-3]"],"partition_count":"4","partition_length":"256"}`},
	{name: "mmur", db: "db_mycat", table: "t_mmur", key: "k", kind: "num", json: `{"db":"db_mycat","table":"t_mmur","type":"mycat_murmur","key":"k","locations":[2,2],"slices":["slice-0","slice-1"],"databases":["db_mycat_0","db_mycat_1","db_mycat_2","db_mycat_3"],"seed":"0","virtual_bucket_times":"16"}`},
	{name: "mstr", db: "db_mycat", table: "t_mstr", key: "k", kind: "num", json: `{"db":"db_mycat","table":"t_mstr","type":"mycat_string","key":"k","locations":[2,2],"slices":["slice-0","slice-1"],"databases":["db_mycat_[0-3]"],"partition_count":"4","partition_length":"256","hash_slice":"20"}`},
	{name: "gmy", db: "db_mycat", table: "t_gmy", key: "k", kind: "global", json: `{"db":"db_mycat","table":"t_gmy","type":"global","locations":[1,2],"slices":["slice-1","slice-0"],"databases":["db_mycat_[0-2]"]}`},
}

const c07NsName = "ns_c07"
const c07User = "u"
const c07SeqBase = 900000000 // + 10000000 * (index of the sequence) + (number of the draw)
const c07SeqStride = 10000000

func c07NamespaceJSON() string {
	var shards []string
	for _, r := range c07Shards {
		shards = append(shards, r.json)
	}
	return `{"name":"` + c07NsName + `","online":true,"allowed_dbs":{"db_ks":true,"db_mycat":true,"db_other":true},
"default_phy_dbs":{"db_ks":"db_ks","db_mycat":"db_mycat_0","db_other":"db_other_phy"},
"slices":[{"name":"slice-0","user_name":"root","password":"root","master":"127.0.0.1:1","capacity":4,"max_capacity":8,"idle_timeout":3600},
{"name":"slice-1","user_name":"root","password":"root","master":"127.0.0.1:3","capacity":4,"max_capacity":8,"idle_timeout":3600}],
"shard_rules":[` + strings.Join(shards, ",") + `],
"users":[{"user_name":"` + c07User + `","password":"p","namespace":"` + c07NsName + `","rw_flag":2,"rw_split":0}],"default_slice":"slice-0"}`
}

var (
	c07CfgOnce sync.Once
	c07CfgErr  error
)

// a new configuration object every time: nothing of an earlier router or namespace is reused
func c07NsConfig() *models.Namespace {
	c07CfgOnce.Do(func() {
		log.SetGlobalLogger(nullLogger{})
		ns := &models.Namespace{}
		c07CfgErr = json.Unmarshal([]byte(c07NamespaceJSON()), ns)
	})
	if c07CfgErr != nil {
		panic(c07CfgErr)
	}
	ns := &models.Namespace{}
	if err := json.Unmarshal([]byte(c07NamespaceJSON()), ns); err != nil {
		panic(err)
	}
	return ns
}

// ---------------------------------------------------------------- sequences

// c07Seq is a global sequence kept in memory; its values are told apart from
// every other number of a statement by their size.
type c07Seq struct {
	pk   string
	base int64
	n    int64
}

func (s *c07Seq) GetPKName() string       { return s.pk }
func (s *c07Seq) NextSeq() (int64, error) { return s.base + atomic.AddInt64(&s.n, 1), nil }
func (s *c07Seq) drawn() int64            { return atomic.LoadInt64(&s.n) }

type c07Seqs struct {
	byKey map[string]*c07Seq
}

func c07InstallSeqs(m *sequence.SequenceManager) *c07Seqs {
	s := &c07Seqs{byKey: map[string]*c07Seq{}}
	j := 0
	for _, r := range c07Shards {
		if r.seq == "" {
			continue
		}
		q := &c07Seq{pk: r.seq, base: c07SeqBase + int64(j)*c07SeqStride}
		if err := m.SetSequence(r.db, r.table, q); err != nil {
			panic(err)
		}
		s.byKey[strconv.Itoa(j)] = q
		j++
	}
	return s
}

// c07SeqIndex: the index of the sequence of a table ("-": the table has none)
func c07SeqIndex(db, table string) string {
	j := 0
	for _, r := range c07Shards {
		if r.seq == "" {
			continue
		}
		if r.db == db && r.table == table {
			return strconv.Itoa(j)
		}
		j++
	}
	return "-"
}

// the values drawn so far, as the sequences issue them
func (s *c07Seqs) counts() map[string]int64 {
	out := map[string]int64{}
	for k, q := range s.byKey {
		out[k] = q.drawn()
	}
	return out
}

func (s *c07Seqs) value(key string, n int64) int64 { return s.byKey[key].base + n }

var c07SeqValue = regexp.MustCompile(`\b9\d{8}\b`)

// ---------------------------------------------------------------- plans as text

func c07PlanText(p plan.Plan, err error) string {
	if err != nil {
		return "err:" + err.Error()
	}
	if db, sql, ok := plan.VerifUnshardPlanInfo(p); ok {
		return "unshard|" + db + "|" + sql
	}
	var parts []string
	for slice, dbs := range plan.VerifPlanSQLs(p) {
		for d, sqls := range dbs {
			parts = append(parts, slice+"/"+d+":"+strings.Join(sqls, ";"))
		}
	}
	sort.Strings(parts)
	idx := ""
	if is, ok := plan.VerifPlanRouteIndexes(p); ok {
		idx = fmt.Sprint(is)
	}
	return fmt.Sprintf("%T|%s|%s", p, strings.Join(parts, "|"), idx)
}

// the plan without the sequence values it carries, and those values
func c07Normalise(text string) (string, []int64) {
	var vals []int64
	for _, m := range c07SeqValue.FindAllString(text, -1) {
		v, _ := strconv.ParseInt(m, 10, 64)
		vals = append(vals, v)
	}
	return c07SeqValue.ReplaceAllString(text, "#"), vals
}

// ---------------------------------------------------------------- the two ways of planning

type c07Item struct {
	fl    bool
	db    string
	sql   string // statement, or the table of a field list
	draws int
	key   string
}

var c07PhyDBs = map[string]string{"db_ks": "db_ks", "db_mycat": "db_mycat_0", "db_other": "db_other_phy"}

// routerEnv: what plan.BuildPlan is given — one router, one sequence manager
type c07RouterEnv struct {
	rt   *router.Router
	sm   *sequence.SequenceManager
	seqs *c07Seqs
}

func c07NewRouterEnv() *c07RouterEnv {
	rt, err := router.NewRouter(c07NsConfig())
	if err != nil {
		panic(err)
	}
	sm := sequence.NewSequenceManager()
	return &c07RouterEnv{rt: rt, sm: sm, seqs: c07InstallSeqs(sm)}
}

// a panic of the planner is an outcome like an error: the same alone and with other sessions around
func c07Recover(out *string) {
	if e := recover(); e != nil {
		*out = fmt.Sprintf("panic:%v", e)
	}
}

func (e *c07RouterEnv) plan(it c07Item) (out string) {
	defer c07Recover(&out)
	if it.fl {
		return "slice:" + e.rt.GetRule(it.db, it.sql).GetSlice(0)
	}
	node, err := parser.ParseSQL(it.sql)
	if err != nil {
		return "parse-error"
	}
	p, err := plan.BuildPlan(node, c07PhyDBs, it.db, it.sql, e.rt, e.sm, nil)
	return c07PlanText(p, err)
}

func (e *c07RouterEnv) roots() []interface{} { return []interface{}{e.rt, e.sm} }

// sessionEnv: real sessions of one namespace
type c07SessionEnv struct {
	w    *server.VerifC07World
	seqs *c07Seqs
}

func c07NewSessionEnv(sessions int) *c07SessionEnv {
	w, err := server.VerifC07NewWorld(c07NsConfig(), nullLogger{}, "5.7.25-gaea", sessions, c07User)
	if err != nil {
		panic(err)
	}
	return &c07SessionEnv{w: w, seqs: c07InstallSeqs(w.Namespace().GetSequences())}
}

func (e *c07SessionEnv) plan(i int, it c07Item) (out string) {
	defer c07Recover(&out)
	if it.fl {
		return "slice:" + e.w.FieldListSlice(i, it.db, it.sql)
	}
	p, err := e.w.GetPlan(i, it.db, it.sql)
	return c07PlanText(p, err)
}

func (e *c07SessionEnv) roots() []interface{} { return []interface{}{e.w.Namespace()} }

var c07SeqType = reflect.TypeOf(&c07Seq{})

// parts of the namespace that are not routing or planning state: the backend slices (pools,
// statistics, timers), the cancel function and its context, the rate limiter; the counters of
// the harness' own sequences
func c07SnapSkip(path string, t reflect.Type) bool {
	if t == c07SeqType {
		return true
	}
	if t.PkgPath() == "github.com/XiaoMi/Gaea/proxy/router" {
		return false
	}
	switch path {
	case "r0*.slices", "r0*.CloseCancel", "r0*.CloseCancelCtx", "r0*.limiter":
		return true
	}
	return false
}

// ---------------------------------------------------------------- planning alone

type c07AloneKey struct {
	level string
	db    string
	sql   string
	fl    bool
}

var (
	c07AloneMu    sync.Mutex
	c07AloneCache = map[c07AloneKey][]string{}
)

// the plans an item can get when nobody else uses the router: one, or (a SELECT on global tables
// picks a copy with math/rand) one per outcome of the random choice. Every attempt uses a new router.
func c07Alone(level string, it c07Item) []string {
	k := c07AloneKey{level, it.db, it.sql, it.fl}
	c07AloneMu.Lock()
	if v, ok := c07AloneCache[k]; ok {
		c07AloneMu.Unlock()
		return v
	}
	c07AloneMu.Unlock()
	one := func(seed int64) string {
		rand.Seed(seed)
		var text string
		if level == "router" {
			text = c07NewRouterEnv().plan(it)
		} else {
			text = c07NewSessionEnv(1).plan(0, it)
		}
		n, _ := c07Normalise(text)
		return n
	}
	set := map[string]bool{one(1): true, one(2): true, one(3): true}
	if len(set) > 1 {
		// the plan depends on math/rand (a copy of a global table is picked): every outcome, from
		// 160 more seeds on one more router that nobody else uses (4 copies: a copy is missed with
		// probability 4·0.75^163)
		var re *c07RouterEnv
		var se *c07SessionEnv
		if level == "router" {
			re = c07NewRouterEnv()
		} else {
			se = c07NewSessionEnv(1)
		}
		for s := int64(4); s <= 163; s++ {
			rand.Seed(s)
			var text string
			if re != nil {
				text = re.plan(it)
			} else {
				text = se.plan(0, it)
			}
			n, _ := c07Normalise(text)
			set[n] = true
		}
	}
	var out []string
	for p := range set {
		out = append(out, p)
	}
	sort.Strings(out)
	c07AloneMu.Lock()
	if len(c07AloneCache) > 200000 {
		c07AloneCache = map[c07AloneKey][]string{}
	}
	c07AloneCache[k] = out
	c07AloneMu.Unlock()
	return out
}

func c07In(xs []string, x string) bool {
	for _, y := range xs {
		if y == x {
			return true
		}
	}
	return false
}

// ---------------------------------------------------------------- one scenario

func c07ParseScenario(in core.Sexp) [][]c07Item {
	var out [][]c07Item
	for _, s := range in.List[1:] {
		if s.Head() != "ses" {
			continue
		}
		var items []c07Item
		for _, q := range s.List[1:] {
			switch q.Head() {
			case "q":
				items = append(items, c07Item{db: q.Nth(1).Str(), sql: q.Nth(2).Str(), draws: int(q.Nth(3).Int()), key: q.Nth(4).Atom})
			case "fl":
				items = append(items, c07Item{fl: true, db: q.Nth(1).Str(), sql: q.Nth(2).Str(), key: "-"})
			}
		}
		out = append(out, items)
	}
	return out
}

type c07Step struct{ s, i int }

// round robin: the sessions take turns until all are through
func c07RoundRobin(sessions [][]c07Item) []c07Step {
	var out []c07Step
	for i := 0; ; i++ {
		any := false
		for s := range sessions {
			if i < len(sessions[s]) {
				out = append(out, c07Step{s, i})
				any = true
			}
		}
		if !any {
			return out
		}
	}
}

type c07Phase struct {
	name  string
	plan  func(s int, it c07Item) string
	roots []interface{}
	seqs  *c07Seqs
	level string
}

// sequential part of a phase; returns the failure ("" = none) and the values drawn, in order
func c07RunSeq(ph c07Phase, sessions [][]c07Item) (string, []int64) {
	before := c07TakeSnap(true, c07SnapSkip, ph.roots...)
	var drawn []int64
	seen := map[int64]bool{}
	cacheNote := ""
	for _, st := range c07RoundRobin(sessions) {
		it := sessions[st.s][st.i]
		alone := c07Alone(ph.level, it)
		c0 := ph.seqs.counts()
		rand.Seed(1)
		text := ph.plan(st.s, it)
		c1 := ph.seqs.counts()
		norm, vals := c07Normalise(text)
		if !c07In(alone, norm) {
			return fmt.Sprintf("(differs %s %d %d)", ph.name, st.s, st.i), drawn
		}
		if after := c07TakeSnap(false, c07SnapSkip, ph.roots...); after.sum != before.sum {
			after = c07TakeSnap(true, c07SnapSkip, ph.roots...)
			what := c07FirstDiff(before.lines, after.lines)
			if !c07IsCache(what) {
				return fmt.Sprintf("(state-changed %s %d %d %s)", ph.name, st.s, st.i, core.Text(what)), drawn
			}
			// a cache of the namespace: go on (a plan that depends on it shows below), report it at the end
			if cacheNote == "" {
				cacheNote = fmt.Sprintf("(cache-changed %s %d %d %s)", ph.name, st.s, st.i, core.Text(what))
			}
			before = after
		}
		// the values in the plan are exactly the ones drawn while it was planned
		var mine []int64
		var keys []string
		for k := range c1 {
			keys = append(keys, k)
		}
		sort.Strings(keys)
		for _, k := range keys {
			for v := c0[k] + 1; v <= c1[k]; v++ {
				mine = append(mine, ph.seqs.value(k, v))
			}
		}
		sv := append([]int64{}, vals...)
		sort.Slice(sv, func(a, b int) bool { return sv[a] < sv[b] })
		if strings.HasPrefix(text, "err:") || strings.HasPrefix(text, "panic:") {
			// a statement refused after it drew a value: the value is lost, not reused
			if len(sv) != 0 {
				return fmt.Sprintf("(seq-reused %s %d %d)", ph.name, st.s, st.i), drawn
			}
		} else if fmt.Sprint(sv) != fmt.Sprint(mine) {
			return fmt.Sprintf("(seq-reused %s %d %d)", ph.name, st.s, st.i), drawn
		}
		for _, v := range mine {
			if seen[v] {
				return fmt.Sprintf("(seq-dup %s %d)", ph.name, v-c07SeqBase), drawn
			}
			seen[v] = true
			drawn = append(drawn, v-c07SeqBase)
		}
	}
	return cacheNote, drawn
}

// the caches of a namespace (fingerprints of slow / failed statements, plans): not routing
// configuration; the model has no cell for them
func c07IsCache(diff string) bool {
	for _, f := range []string{"slowSQLCache", "errorSQLCache", "backendSlowSQLCache", "backendErrorSQLCache", "planCache"} {
		if strings.HasPrefix(diff, "r0*."+f) {
			return true
		}
	}
	return false
}

// concurrent part of a phase: one goroutine per session, `reps` times through its items
func c07RunPar(ph c07Phase, sessions [][]c07Item, reps int) string {
	alone := make([][][]string, len(sessions))
	for s := range sessions {
		alone[s] = make([][]string, len(sessions[s]))
		for i, it := range sessions[s] {
			alone[s][i] = c07Alone(ph.level, it)
		}
	}
	before := c07TakeSnap(true, c07SnapSkip, ph.roots...)
	fails := make([]string, len(sessions))
	vals := make([][]int64, len(sessions))
	var wg sync.WaitGroup
	for s := range sessions {
		wg.Add(1)
		go func(s int) {
			defer wg.Done()
			for r := 0; r < reps; r++ {
				for i, it := range sessions[s] {
					norm, vs := c07Normalise(ph.plan(s, it))
					vals[s] = append(vals[s], vs...)
					if !c07In(alone[s][i], norm) && fails[s] == "" {
						fails[s] = fmt.Sprintf("(differs %s %d %d)", ph.name, s, i)
					}
				}
			}
		}(s)
	}
	wg.Wait()
	for _, f := range fails {
		if f != "" {
			return f
		}
	}
	cacheNote := ""
	if after := c07TakeSnap(true, c07SnapSkip, ph.roots...); after.sum != before.sum {
		what := c07FirstDiff(before.lines, after.lines)
		if !c07IsCache(what) {
			return fmt.Sprintf("(state-changed %s 0 0 %s)", ph.name, core.Text(what))
		}
		cacheNote = fmt.Sprintf("(cache-changed %s 0 0 %s)", ph.name, core.Text(what))
	}
	seen := map[int64]bool{}
	n := 0
	for _, vs := range vals {
		for _, v := range vs {
			if seen[v] {
				return fmt.Sprintf("(seq-dup %s %d)", ph.name, v-c07SeqBase)
			}
			seen[v] = true
			n++
		}
	}
	// (a value in two plans is a duplicate above) no plan carries a value nobody drew
	var total int64
	for _, c := range ph.seqs.counts() {
		total += c
	}
	if int64(n) > total {
		return fmt.Sprintf("(seq-reused %s 0 0)", ph.name)
	}
	return cacheNote
}

func execC07Scenario(in core.Sexp) string {
	sessions := c07ParseScenario(in)
	n := 0
	for _, s := range sessions {
		n += len(s)
	}
	cache := ""
	hard := func(f string) bool {
		if strings.HasPrefix(f, "(cache-changed") {
			if cache == "" {
				cache = f
			}
			return false
		}
		return f != ""
	}
	re := c07NewRouterEnv()
	fail, drawn := c07RunSeq(c07Phase{name: "seq", level: "router", plan: func(_ int, it c07Item) string { return re.plan(it) }, roots: re.roots(), seqs: re.seqs}, sessions)
	if hard(fail) {
		return fail
	}
	re2 := c07NewRouterEnv()
	if fail := c07RunPar(c07Phase{name: "par", level: "router", plan: func(_ int, it c07Item) string { return re2.plan(it) }, roots: re2.roots(), seqs: re2.seqs}, sessions, 3); hard(fail) {
		return fail
	}
	se := c07NewSessionEnv(len(sessions))
	fail, drawn2 := c07RunSeq(c07Phase{name: "ses", level: "session", plan: se.plan, roots: se.roots(), seqs: se.seqs}, sessions)
	if hard(fail) {
		return fail
	}
	if fmt.Sprint(drawn) != fmt.Sprint(drawn2) {
		return "(seq-reused ses 0 0)"
	}
	se2 := c07NewSessionEnv(len(sessions))
	if fail := c07RunPar(c07Phase{name: "sespar", level: "session", plan: se2.plan, roots: se2.roots(), seqs: se2.seqs}, sessions, 3); hard(fail) {
		return fail
	}
	if cache != "" {
		return cache
	}
	var b strings.Builder
	fmt.Fprintf(&b, "(ok %d", n)
	for _, v := range drawn {
		fmt.Fprintf(&b, " %d", v)
	}
	b.WriteString(")")
	return b.String()
}
