package props

import (
	"fmt"
	"sort"
	"strings"
	"sync"

	"gaeaverif/harness/core"

	"github.com/XiaoMi/Gaea/log"
	"github.com/XiaoMi/Gaea/log/xlog"
	"github.com/XiaoMi/Gaea/models"
	"github.com/XiaoMi/Gaea/proxy/server"
)

// C31 — online reload of namespace configurations on one proxy:
// Manager.ReloadNamespacePrepare / ReloadNamespaceCommit / DeleteNamespace
// (proxy/server/manager.go) driven by whole operation histories.
//
// Input:  (h ((name ver) …) op …)      op = (prepare name ver) | (prepare name ver bad)
//                                          | (commit name) | (delete name)
// Output: ((init NS US) (outcome NS US) …) one entry per operation; NS / US = what
//         GetNamespace / GetNamespaceByUser answer for every name of the case
//         (a version, or - when absent), outcome = ok | (err kind) | panic.

func init() {
	core.Register(&core.Property{
		ID: "C31",
		Rule: "operation histories (prepare n v / prepare of an unbuildable config / commit n / delete n) over 2-4 namespaces: " +
			"well-paired prepare+commit runs, the interleaved patterns of the pinned defects (prepare a; prepare b; commit a / prepare a; delete b; commit a / " +
			"prepare a; commit b), commits without prepare, double deletes, new namespaces, random histories up to 12 operations, and every history up to " +
			"length 3 (quick) or 5 (thorough) over two namespaces; non-trivial = at least one commit succeeded",
		Generate: genC31,
		Exec:     execC31,
		Extra:    c31Concurrent,
		Trivial: func(in core.Sexp, out string) bool {
			return !strings.Contains(out, "(ok ") || !strings.Contains(in.String(), "(commit")
		},
		Assumptions: []string{
			"configuration operations of one proxy are serialised by Manager.reloadMu (fix commit), so a history is a sequence of whole operations; " +
				"a reader's GetNamespace (index load + slot read) is treated as one atomic step",
			"every generated namespace configuration has one user of its own (u<name>, password p<version>): the user table is observed per namespace; " +
				"interaction of equal user names across namespaces is C29's subject",
			"a version is observed as Namespace.GetMaxExecuteTime() of the served namespace object",
			"concurrent administrators: besides the extracted fact that the three operations hold Manager.reloadMu from their first statement, " +
				"every run lets 2-3 goroutines issue short operation sequences on one real Manager at the same time and requires that the outcomes and the final tables " +
				"equal those of the model for at least one interleaving of the sequences (serialisability; a sampled check, not a proof)",
		},
	})
}

var c31LogOnce sync.Once

// c31QuietLog replaces the process-wide console logger (debug level) by one
// that only prints fatal messages; the modelled code logs on every operation.
func c31QuietLog() {
	c31LogOnce.Do(func() {
		lg, err := xlog.CreateLogManager("console", map[string]string{"level": "none"})
		if err == nil {
			log.SetGlobalLogger(lg)
		}
	})
}

func c31Name(n int64) string { return fmt.Sprintf("ns%d", n) }
func c31User(n int64) string { return fmt.Sprintf("u%d", n) }
func c31Pass(v int64) string { return fmt.Sprintf("p%d", v) }

// c31Config is the namespace configuration "name at version ver". Its one
// slice has no master and no replica: NewNamespace opens no pool and the
// health checks started by Init return at once.
func c31Config(n, v int64, bad bool) *models.Namespace {
	ns := &models.Namespace{
		Name:              c31Name(n),
		MaxSqlExecuteTime: int(v),
		Users:             []*models.User{{UserName: c31User(n), Password: c31Pass(v), Namespace: c31Name(n), RWFlag: 2}},
		Slices:            []*models.Slice{{Name: "slice-0"}},
		DefaultSlice:      "slice-0",
	}
	if bad {
		ns.SlowSQLTime = "not-a-number" // NewNamespace fails: parse slowSQLTime error
	}
	return ns
}

type c31Case struct {
	names []int64           // universe, sorted
	vers  map[int64][]int64 // versions mentioned per name, sorted
}

func c31Universe(in core.Sexp) *c31Case {
	c := &c31Case{vers: map[int64][]int64{}}
	seenN := map[int64]bool{}
	seenV := map[[2]int64]bool{}
	add := func(n int64, v int64, hasV bool) {
		if !seenN[n] {
			seenN[n] = true
			c.names = append(c.names, n)
		}
		if hasV && !seenV[[2]int64{n, v}] {
			seenV[[2]int64{n, v}] = true
			c.vers[n] = append(c.vers[n], v)
		}
	}
	for _, e := range in.Nth(1).List {
		add(e.Nth(0).Int(), e.Nth(1).Int(), true)
	}
	for _, op := range in.List[2:] {
		switch op.Head() {
		case "prepare":
			add(op.Nth(1).Int(), op.Nth(2).Int(), true)
		default:
			add(op.Nth(1).Int(), 0, false)
		}
	}
	sort.Slice(c.names, func(i, j int) bool { return c.names[i] < c.names[j] })
	for _, vs := range c.vers {
		sort.Slice(vs, func(i, j int) bool { return vs[i] < vs[j] })
	}
	return c
}

// c31View renders what sessions are served: per name the version of the
// namespace object and the version whose user resolves to the namespace.
func c31View(m *server.Manager, c *c31Case) string {
	var ns, us []string
	for _, n := range c.names {
		ns = append(ns, c31Lookup(func() string {
			if o := m.GetNamespace(c31Name(n)); o != nil {
				return fmt.Sprint(o.GetMaxExecuteTime())
			}
			return "-"
		}))
		us = append(us, c31Lookup(func() string {
			var hit []string
			for _, v := range c.vers[n] {
				if m.GetNamespaceByUser(c31User(n), c31Pass(v)) == c31Name(n) {
					hit = append(hit, fmt.Sprint(v))
				}
			}
			switch len(hit) {
			case 0:
				return "-"
			case 1:
				return hit[0]
			}
			return "(" + strings.Join(hit, " ") + ")"
		}))
	}
	return "(" + strings.Join(ns, " ") + ") (" + strings.Join(us, " ") + ")"
}

// c31Lookup runs one session-side lookup; a panic (nil generation) is the cell `nil`.
func c31Lookup(f func() string) (out string) {
	defer func() {
		if e := recover(); e != nil {
			out = "nil"
		}
	}()
	return f()
}

func c31ErrKind(err error) string {
	if err == nil {
		return "ok"
	}
	msg := err.Error()
	switch {
	case strings.Contains(msg, "not prepared"):
		return "(err not-prepared)"
	case strings.Contains(msg, "slowSQLTime"):
		return "(err build)"
	}
	return "(err other)"
}

// c31Apply runs one operation on a manager; a panic is an outcome.
func c31Apply(m *server.Manager, op core.Sexp) (out string) {
	defer func() {
		if e := recover(); e != nil {
			out = "panic"
		}
	}()
	switch op.Head() {
	case "prepare":
		bad := len(op.List) > 3 && op.Nth(3).Atom == "bad"
		return c31ErrKind(m.ReloadNamespacePrepare(c31Config(op.Nth(1).Int(), op.Nth(2).Int(), bad)))
	case "commit":
		return c31ErrKind(m.ReloadNamespaceCommit(c31Name(op.Nth(1).Int())))
	case "delete":
		return c31ErrKind(m.DeleteNamespace(c31Name(op.Nth(1).Int())))
	}
	return "bad-op"
}

func execC31(in core.Sexp) string {
	c31QuietLog()
	if in.Head() != "h" || len(in.List) < 2 {
		return "bad"
	}
	c := c31Universe(in)
	cfgs := map[string]*models.Namespace{}
	for _, e := range in.Nth(1).List {
		cfg := c31Config(e.Nth(0).Int(), e.Nth(1).Int(), false)
		cfgs[cfg.Name] = cfg
	}
	m, err := server.VerifC31NewManager("dc", cfgs)
	if err != nil {
		return "(err create)"
	}
	defer m.VerifC31Close()
	var b strings.Builder
	b.WriteString("((init " + c31View(m, c) + ")")
	for _, op := range in.List[2:] {
		o := c31Apply(m, op)
		b.WriteString(" (" + o + " " + c31View(m, c) + ")")
	}
	b.WriteString(")")
	return b.String()
}

// ---- generator ----

type c31Gen struct {
	g    *core.Gen
	k    int64
	next map[int64]int64 // next fresh version per name
	ops  []core.Sexp
}

func (h *c31Gen) name() int64 { return int64(h.g.Intn(int(h.k))) }
func (h *c31Gen) other(n int64) int64 {
	if h.k < 2 {
		return n
	}
	for {
		if m := h.name(); m != n {
			return m
		}
	}
}
func (h *c31Gen) prepare(n int64) {
	v := h.next[n]
	if h.g.Intn(8) == 0 && v > 1 { // sometimes an earlier version again
		v = 1 + int64(h.g.Intn(int(v)))
	} else {
		h.next[n] = v + 1
	}
	h.ops = append(h.ops, core.L(core.A("prepare"), core.I(n), core.I(v)))
}
func (h *c31Gen) bad(n int64) {
	h.ops = append(h.ops, core.L(core.A("prepare"), core.I(n), core.I(h.next[n]), core.A("bad")))
	h.next[n]++
}
func (h *c31Gen) commit(n int64) { h.ops = append(h.ops, core.L(core.A("commit"), core.I(n))) }
func (h *c31Gen) del(n int64)    { h.ops = append(h.ops, core.L(core.A("delete"), core.I(n))) }

func c31Init(g *core.Gen, k int64, p int) (core.Sexp, map[int64]int64) {
	var init []core.Sexp
	next := map[int64]int64{}
	for n := int64(0); n < k; n++ {
		next[n] = 1
		if g.Intn(100) < p {
			init = append(init, core.L(core.I(n), core.I(1)))
			next[n] = 2
		}
	}
	return core.L(init...), next
}

func genC31(g *core.Gen) {
	emit := func(init core.Sexp, ops []core.Sexp, tags ...string) {
		xs := append([]core.Sexp{core.A("h"), init}, ops...)
		nCommit := 0
		for _, o := range ops {
			if o.Head() == "commit" {
				nCommit++
			}
		}
		tags = append(tags, fmt.Sprintf("len-%02d", len(ops)))
		if nCommit == 0 {
			tags = append(tags, "no-commit")
		}
		g.Emit(core.L(xs...), tags...)
	}
	// structured random histories
	n := g.Scale(1500, 12000)
	for i := 0; i < n; i++ {
		k := int64(2 + g.Intn(3))
		init, next := c31Init(g, k, 75)
		h := &c31Gen{g: g, k: k, next: next}
		steps := 1 + g.Intn(6)
		for s := 0; s < steps && len(h.ops) < 12; s++ {
			a := h.name()
			switch r := g.Intn(100); {
			case r < 30: // well-paired change
				h.prepare(a)
				h.commit(a)
			case r < 38: // prepare a; prepare b; commit a [; commit b]
				b := h.other(a)
				h.prepare(a)
				h.prepare(b)
				h.commit(a)
				if g.Intn(2) == 0 {
					h.commit(b)
				}
			case r < 46: // prepare a; delete b; commit a
				h.prepare(a)
				h.del(h.other(a))
				h.commit(a)
			case r < 52: // commit of another name than the prepared one
				h.prepare(a)
				h.commit(h.other(a))
				if g.Intn(2) == 0 {
					h.commit(a)
				}
			case r < 58: // commit without prepare / second commit
				h.commit(a)
			case r < 68:
				h.del(a)
			case r < 72: // delete twice
				h.del(a)
				h.del(a)
			case r < 78: // delete the prepared name itself, then commit
				h.prepare(a)
				h.del(a)
				h.commit(a)
			case r < 84: // failing prepare between prepare and commit
				h.prepare(a)
				h.bad(a)
				h.commit(a)
			case r < 88:
				h.bad(a)
				h.commit(a)
			case r < 94: // prepare twice, commit once
				h.prepare(a)
				h.prepare(a)
				h.commit(a)
			default:
				h.prepare(a)
			}
		}
		emit(init, h.ops, "random")
	}
	// unstructured: uniform operations
	n = g.Scale(500, 6000)
	for i := 0; i < n; i++ {
		k := int64(2 + g.Intn(2))
		init, next := c31Init(g, k, 60)
		h := &c31Gen{g: g, k: k, next: next}
		for s, l := 0, 1+g.Intn(12); s < l; s++ {
			a := h.name()
			switch g.Intn(7) {
			case 0, 1:
				h.prepare(a)
			case 2, 3, 4:
				h.commit(a)
			case 5:
				h.del(a)
			default:
				h.bad(a)
			}
		}
		emit(init, h.ops, "uniform")
	}
	// odd inputs: duplicate initial entries (the later one wins), large names, the active version prepared again
	for i := 0; i < g.Scale(60, 600); i++ {
		a, b := int64(g.Intn(3)), int64(100+g.Intn(900))
		init := core.L(core.L(core.I(a), core.I(1)), core.L(core.I(b), core.I(7)), core.L(core.I(a), core.I(int64(2+g.Intn(3)))))
		h := &c31Gen{g: g, k: 3, next: map[int64]int64{0: 9, 1: 9, 2: 9}}
		h.ops = append(h.ops, core.L(core.A("prepare"), core.I(b), core.I(7)))
		if g.Intn(2) == 0 {
			h.commit(b)
		}
		for s, l := 0, g.Intn(5); s < l; s++ {
			switch g.Intn(4) {
			case 0:
				h.prepare(h.name())
			case 1:
				h.commit(core.Pick(g, []int64{a, b, h.name()}))
			case 2:
				h.del(core.Pick(g, []int64{a, b}))
			default:
				h.ops = append(h.ops, core.L(core.A("prepare"), core.I(b), core.I(int64(1+g.Intn(1<<20)))))
			}
		}
		emit(init, h.ops, "odd")
	}
	// exhaustive small scope: every history over two namespaces (both present
	// at version 1, or only the first) up to the given length
	maxLen := g.Scale(3, 5)
	for _, both := range []bool{true, false} {
		init := core.L(core.L(core.I(0), core.I(1)))
		if both {
			init = core.L(core.L(core.I(0), core.I(1)), core.L(core.I(1), core.I(1)))
		}
		var rec func(ops []core.Sexp, next [2]int64)
		rec = func(ops []core.Sexp, next [2]int64) {
			if len(ops) > 0 {
				emit(init, ops, "exhaustive")
			}
			if len(ops) == maxLen {
				return
			}
			for a := int64(0); a < 2; a++ {
				nx := next
				nx[a]++
				rec(append(append([]core.Sexp{}, ops...), core.L(core.A("prepare"), core.I(a), core.I(next[a]))), nx)
				rec(append(append([]core.Sexp{}, ops...), core.L(core.A("commit"), core.I(a))), next)
				rec(append(append([]core.Sexp{}, ops...), core.L(core.A("delete"), core.I(a))), next)
			}
		}
		rec(nil, [2]int64{2, 2})
	}
}

// ---- concurrent administrators (whole-run check) ----

// c31Concurrent lets several goroutines issue operation sequences on one real
// Manager simultaneously and checks the result against the model: the observed
// outcomes and final tables must be those of some interleaving of the
// sequences (the operations are supposed to be mutually exclusive).
func c31Concurrent(r *core.Run) {
	c31QuietLog()
	type trial struct {
		init  core.Sexp
		seqs  [][]core.Sexp
		outs  [][]string
		final string
		cands [][][2]int // interleavings: list of (goroutine, index)
		first int        // index of the first candidate line in the batch
	}
	n := 150
	if r.Tier != "quick" {
		n = 1500
	}
	rnd := r.Rand
	var warm []core.Sexp
	for a := int64(0); a < 3; a++ {
		warm = append(warm, core.L(core.A("prepare"), core.I(a), core.I(1)), core.L(core.A("commit"), core.I(a)))
	}
	var trials []*trial
	var lines []string
	for t := 0; t < n; t++ {
		tr := &trial{init: core.L(core.L(core.I(0), core.I(1)), core.L(core.I(1), core.I(1)), core.L(core.I(2), core.I(1)))}
		g := 2
		if rnd.Intn(4) == 0 {
			g = 3
		}
		for i := 0; i < g; i++ {
			a := int64(rnd.Intn(3))
			if rnd.Intn(3) != 0 {
				a = int64(i) // mostly one namespace per administrator
			}
			var seq []core.Sexp
			switch rnd.Intn(6) {
			case 0:
				seq = []core.Sexp{core.L(core.A("delete"), core.I(a))}
			case 1:
				seq = []core.Sexp{core.L(core.A("prepare"), core.I(a), core.I(int64(2+i))), core.L(core.A("delete"), core.I(a))}
			default:
				seq = []core.Sexp{core.L(core.A("prepare"), core.I(a), core.I(int64(2+i))), core.L(core.A("commit"), core.I(a))}
			}
			tr.seqs = append(tr.seqs, seq)
		}
		// run on the real manager
		in := core.L(append([]core.Sexp{core.A("h"), tr.init}, c31Flatten(tr.seqs)...)...)
		c := c31Universe(in)
		cfgs := map[string]*models.Namespace{}
		for _, e := range tr.init.List {
			cfg := c31Config(e.Nth(0).Int(), e.Nth(1).Int(), false)
			cfgs[cfg.Name] = cfg
		}
		m, err := server.VerifC31NewManager("dc", cfgs)
		if err != nil {
			r.Note("concurrent check: cannot create manager: %v", err)
			return
		}
		// one sequential change per namespace first: afterwards the operations write no
		// process-wide bookkeeping (statistics map) any more, only the Manager's own fields
		for _, op := range warm {
			c31Apply(m, op)
		}
		tr.outs = make([][]string, g)
		start := make(chan struct{})
		var wg sync.WaitGroup
		for i := 0; i < g; i++ {
			tr.outs[i] = make([]string, len(tr.seqs[i]))
			wg.Add(1)
			go func(i int) {
				defer wg.Done()
				<-start
				for j, op := range tr.seqs[i] {
					tr.outs[i][j] = c31Apply(m, op)
				}
			}(i)
		}
		close(start)
		wg.Wait()
		tr.final = c31View(m, c)
		m.VerifC31Close()
		// candidate interleavings
		var rec func(pos []int, acc [][2]int)
		rec = func(pos []int, acc [][2]int) {
			done := true
			for i := range tr.seqs {
				if pos[i] < len(tr.seqs[i]) {
					done = false
					p2 := append([]int{}, pos...)
					p2[i]++
					rec(p2, append(append([][2]int{}, acc...), [2]int{i, pos[i]}))
				}
			}
			if done {
				tr.cands = append(tr.cands, acc)
			}
		}
		rec(make([]int, g), nil)
		tr.first = len(lines)
		for _, cand := range tr.cands {
			xs := append([]core.Sexp{core.A("h"), tr.init}, warm...)
			for _, gi := range cand {
				xs = append(xs, tr.seqs[gi[0]][gi[1]])
			}
			lines = append(lines, "C31 m "+core.L(xs...).String())
		}
		trials = append(trials, tr)
	}
	ans, err := core.DriverBatch(r.Driver, lines)
	if err != nil {
		r.Note("concurrent check: driver: %v", err)
		return
	}
	bad := 0
	for _, tr := range trials {
		ok := false
		for k, cand := range tr.cands {
			out := ans[tr.first+k]
			if i := strings.Index(out, " | "); i >= 0 {
				out = out[:i]
			}
			xs, err := core.ParseLine(out)
			if err != nil || len(xs) != 1 || len(xs[0].List) != len(warm)+len(cand)+1 {
				continue
			}
			match := true
			for p, gi := range cand {
				e := xs[0].List[len(warm)+p+1]
				if len(e.List) != 3 || e.List[0].String() != tr.outs[gi[0]][gi[1]] {
					match = false
					break
				}
			}
			last := xs[0].List[len(warm)+len(cand)]
			if match && len(last.List) == 3 && last.List[1].String()+" "+last.List[2].String() == tr.final {
				ok = true
				break
			}
		}
		if !ok {
			bad++
			var gs []core.Sexp
			var obs []string
			for i, seq := range tr.seqs {
				gs = append(gs, core.L(append([]core.Sexp{core.A("admin")}, seq...)...))
				obs = append(obs, "("+strings.Join(tr.outs[i], " ")+")")
			}
			if bad <= 3 {
				r.AddViolation(core.Finding{Kind: "failing-input", Class: "concurrent-operations-not-serialisable",
					Input:  core.L(append([]core.Sexp{core.A("concurrent"), tr.init}, gs...)...).String(),
					Impl:   "(" + strings.Join(obs, " ") + " final " + tr.final + ")",
					Detail: "operations issued at the same time by several administrators: no interleaving of their sequences gives these outcomes and final tables in the model (schedule-dependent: re-run the check to look for it again)"})
			}
		}
	}
	r.Res.Distribution["concurrent-trials"] += len(trials)
	r.Note("concurrent administrators: %d trials, %d not serialisable", len(trials), bad)
}

func c31Flatten(seqs [][]core.Sexp) []core.Sexp {
	var out []core.Sexp
	for _, s := range seqs {
		out = append(out, s...)
	}
	return out
}
